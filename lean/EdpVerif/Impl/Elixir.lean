import EdpVerif.Impl.Decode
import EdpVerif.Generated.MiscC20
/-
Model of crates/edp_elixir_terms (range.rs, map_set.rs, date_time.rs, exceptions.rs, builders.rs) and of the
proplist/map helpers of crates/erltf/src/term.rs (is_proplist, normalize_proplist, proplist_to_map,
map_to_proplist, to_map_recursive), function by function, as the code stands with the repairs of
notes/C20-fixes/ applied.

* `i64` is `Int` with explicit bounds; `abs_diff`/`unsigned_abs` are `absDiff`/`uabs` (values of `u64`, total),
  `checked_add` is a range test, `usize` is 64 bits wide (`USIZE_MAX`), `T::try_from` is a range test (`intIn`).
* `String` is its UTF-8 bytes; `String::from_utf8_lossy` is `lossy`.
* `BTreeMap`/`BTreeSet` are association lists kept in order by `mapInsert`/`setInsert` under `Term.cmp`.
* The limits of the checked constructors are the generated `Gen.C20_*` constants (tools/gen_misc.py `gen_c20`); key
  names, key orders, field types, the day table and the leap rule are compared with the generated tables by
  `C20_model_tables_are_the_source_tables`.
-/
namespace Edp.Ex
open Edp

/-! ### atom names (as UTF-8 bytes) -/
def kStruct : Bytes := [95, 95, 115, 116, 114, 117, 99, 116, 95, 95]  -- __struct__
def kException : Bytes := [95, 95, 101, 120, 99, 101, 112, 116, 105, 111, 110, 95, 95]  -- __exception__
def kFirst : Bytes := [102, 105, 114, 115, 116]  -- first
def kLast : Bytes := [108, 97, 115, 116]  -- last
def kStep : Bytes := [115, 116, 101, 112]  -- step
def kMap : Bytes := [109, 97, 112]  -- map
def kSet : Bytes := [115, 101, 116]  -- set
def kYear : Bytes := [121, 101, 97, 114]  -- year
def kMonth : Bytes := [109, 111, 110, 116, 104]  -- month
def kDay : Bytes := [100, 97, 121]  -- day
def kHour : Bytes := [104, 111, 117, 114]  -- hour
def kMinute : Bytes := [109, 105, 110, 117, 116, 101]  -- minute
def kSecond : Bytes := [115, 101, 99, 111, 110, 100]  -- second
def kMicrosecond : Bytes := [109, 105, 99, 114, 111, 115, 101, 99, 111, 110, 100]  -- microsecond
def kCalendar : Bytes := [99, 97, 108, 101, 110, 100, 97, 114]  -- calendar
def kTimeZone : Bytes := [116, 105, 109, 101, 95, 122, 111, 110, 101]  -- time_zone
def kZoneAbbr : Bytes := [122, 111, 110, 101, 95, 97, 98, 98, 114]  -- zone_abbr
def kUtcOffset : Bytes := [117, 116, 99, 95, 111, 102, 102, 115, 101, 116]  -- utc_offset
def kStdOffset : Bytes := [115, 116, 100, 95, 111, 102, 102, 115, 101, 116]  -- std_offset
def kMessage : Bytes := [109, 101, 115, 115, 97, 103, 101]  -- message
def kKey : Bytes := [107, 101, 121]  -- key
def kTerm : Bytes := [116, 101, 114, 109]  -- term
def kModule : Bytes := [109, 111, 100, 117, 108, 101]  -- module
def kFunction : Bytes := [102, 117, 110, 99, 116, 105, 111, 110]  -- function
def kArity : Bytes := [97, 114, 105, 116, 121]  -- arity
def kReason : Bytes := [114, 101, 97, 115, 111, 110]  -- reason
def kArgs : Bytes := [97, 114, 103, 115]  -- args
def kTrue : Bytes := [116, 114, 117, 101]  -- true
def kNil : Bytes := [110, 105, 108]  -- nil
def elixirDot : Bytes := [69, 108, 105, 120, 105, 114, 46]  -- Elixir.
def mRange : Bytes := [69, 108, 105, 120, 105, 114, 46, 82, 97, 110, 103, 101]  -- Elixir.Range
def mMapSet : Bytes := [69, 108, 105, 120, 105, 114, 46, 77, 97, 112, 83, 101, 116]  -- Elixir.MapSet
def mDate : Bytes := [69, 108, 105, 120, 105, 114, 46, 68, 97, 116, 101]  -- Elixir.Date
def mTime : Bytes := [69, 108, 105, 120, 105, 114, 46, 84, 105, 109, 101]  -- Elixir.Time
def mNaiveDateTime : Bytes := [69, 108, 105, 120, 105, 114, 46, 78, 97, 105, 118, 101, 68, 97, 116, 101, 84, 105, 109, 101]  -- Elixir.NaiveDateTime
def mDateTime : Bytes := [69, 108, 105, 120, 105, 114, 46, 68, 97, 116, 101, 84, 105, 109, 101]  -- Elixir.DateTime
def mCalendarISO : Bytes := [69, 108, 105, 120, 105, 114, 46, 67, 97, 108, 101, 110, 100, 97, 114, 46, 73, 83, 79]  -- Elixir.Calendar.ISO
def mArgumentError : Bytes := [69, 108, 105, 120, 105, 114, 46, 65, 114, 103, 117, 109, 101, 110, 116, 69, 114, 114, 111, 114]  -- Elixir.ArgumentError
def mRuntimeError : Bytes := [69, 108, 105, 120, 105, 114, 46, 82, 117, 110, 116, 105, 109, 101, 69, 114, 114, 111, 114]  -- Elixir.RuntimeError
def mKeyError : Bytes := [69, 108, 105, 120, 105, 114, 46, 75, 101, 121, 69, 114, 114, 111, 114]  -- Elixir.KeyError
def mMatchError : Bytes := [69, 108, 105, 120, 105, 114, 46, 77, 97, 116, 99, 104, 69, 114, 114, 111, 114]  -- Elixir.MatchError
def mUndefinedFunctionError : Bytes := [69, 108, 105, 120, 105, 114, 46, 85, 110, 100, 101, 102, 105, 110, 101, 100, 70, 117, 110, 99, 116, 105, 111, 110, 69, 114, 114, 111, 114]  -- Elixir.UndefinedFunctionError
def mArithmeticError : Bytes := [69, 108, 105, 120, 105, 114, 46, 65, 114, 105, 116, 104, 109, 101, 116, 105, 99, 69, 114, 114, 111, 114]  -- Elixir.ArithmeticError
def mBadMapError : Bytes := [69, 108, 105, 120, 105, 114, 46, 66, 97, 100, 77, 97, 112, 69, 114, 114, 111, 114]  -- Elixir.BadMapError
def mBadFunctionError : Bytes := [69, 108, 105, 120, 105, 114, 46, 66, 97, 100, 70, 117, 110, 99, 116, 105, 111, 110, 69, 114, 114, 111, 114]  -- Elixir.BadFunctionError
def mFunctionClauseError : Bytes := [69, 108, 105, 120, 105, 114, 46, 70, 117, 110, 99, 116, 105, 111, 110, 67, 108, 97, 117, 115, 101, 69, 114, 114, 111, 114]  -- Elixir.FunctionClauseError
def mCaseClauseError : Bytes := [69, 108, 105, 120, 105, 114, 46, 67, 97, 115, 101, 67, 108, 97, 117, 115, 101, 69, 114, 114, 111, 114]  -- Elixir.CaseClauseError
def mCondClauseError : Bytes := [69, 108, 105, 120, 105, 114, 46, 67, 111, 110, 100, 67, 108, 97, 117, 115, 101, 69, 114, 114, 111, 114]  -- Elixir.CondClauseError
def mWithClauseError : Bytes := [69, 108, 105, 120, 105, 114, 46, 87, 105, 116, 104, 67, 108, 97, 117, 115, 101, 69, 114, 114, 111, 114]  -- Elixir.WithClauseError

/-! ### i64 arithmetic -/

def I64_MIN : Int := -9223372036854775808
def I64_MAX : Int := 9223372036854775807
/-- `usize::MAX` on the 64-bit targets the crate is built for -/
def USIZE_MAX : Int := 18446744073709551615

def InI64 (x : Int) : Prop := I64_MIN ≤ x ∧ x ≤ I64_MAX
instance (x : Int) : Decidable (InI64 x) := by unfold InI64; infer_instance

/-- `a.abs_diff(b)` (a `u64`, defined for every pair) -/
def absDiff (a b : Int) : Int := if a ≥ b then a - b else b - a
/-- `s.unsigned_abs()` (a `u64`, defined for `i64::MIN` too) -/
def uabs (s : Int) : Int := if s < 0 then -s else s

/-! ### range.rs -/

structure Range where
  first : Int
  last : Int
  step : Int
  deriving Repr, BEq, DecidableEq

def Range.WF (r : Range) : Prop := InI64 r.first ∧ InI64 r.last ∧ InI64 r.step
instance (r : Range) : Decidable r.WF := by unfold Range.WF; infer_instance

/-- `ElixirRange::is_empty` -/
def Range.isEmpty (r : Range) : Bool :=
  if r.step > 0 then decide (r.first > r.last)
  else if r.step < 0 then decide (r.first < r.last)
  else true

/-- `ElixirRange::len`: `usize::try_from(last.abs_diff(first) / step.unsigned_abs()).map_or(MAX, |n| n.saturating_add(1))`
(the `u64` quotient always fits a 64-bit `usize`) -/
def Range.len (r : Range) : Nat :=
  if r.isEmpty then 0 else
  (min (absDiff r.last r.first / uabs r.step + 1) USIZE_MAX).toNat

/-- `ElixirRange::contains` -/
def Range.contains (r : Range) (v : Int) : Bool :=
  if r.isEmpty then false else
  let within := if r.step > 0 then decide (v ≥ r.first ∧ v ≤ r.last) else decide (v ≤ r.first ∧ v ≥ r.last)
  within && (absDiff v r.first % uabs r.step == 0)

/-- `RangeIterator` -/
structure It where
  cur : Int
  done : Bool
  deriving Repr, BEq, DecidableEq

/-- `into_iter` -/
def Range.iter (r : Range) : It := ⟨r.first, false⟩

/-- `RangeIterator::advance`: `checked_add`, and the end of the iteration when it fails -/
def Range.advance (r : Range) (it : It) : It :=
  if InI64 (it.cur + r.step) then { it with cur := it.cur + r.step } else { it with done := true }

/-- `RangeIterator::next` -/
def Range.next (r : Range) (it : It) : Option Int × It :=
  if it.done || r.isEmpty then (none, it) else
  if r.step > 0 then
    if it.cur > r.last then (none, { it with done := true })
    else if it.cur = r.last then (some it.cur, { it with done := true })
    else (some it.cur, r.advance it)
  else
    if it.cur < r.last then (none, { it with done := true })
    else if it.cur = r.last then (some it.cur, { it with done := true })
    else (some it.cur, r.advance it)

/-- `RangeIterator::size_hint`: `(n, Some(n))`, or `(usize::MAX, None)` when `n` does not fit `usize` -/
def Range.sizeHint (r : Range) (it : It) : Nat × Option Nat :=
  if it.done || r.isEmpty then (0, some 0) else
  let past := if r.step > 0 then decide (it.cur > r.last) else decide (it.cur < r.last)
  if past then (0, some 0) else
  let n := absDiff r.last it.cur / uabs r.step + 1
  if n ≤ USIZE_MAX then (n.toNat, some n.toNat) else (USIZE_MAX.toNat, none)

/-- calling `next` until it returns `None`, at most `fuel` times -/
def Range.collect (r : Range) : Nat → It → List Int
  | 0, _ => []
  | n+1, it =>
    match r.next it with
    | (none, _) => []
    | (some v, it') => v :: r.collect n it'

/-- enough calls for any range (see `C20_range_iter_fuel`: more fuel never yields more) -/
def Range.fuel (r : Range) : Nat := (r.last - r.first).natAbs + 2

/-- the whole iteration, `range.into_iter()` driven to the end -/
def Range.toList (r : Range) : List Int := r.collect r.fuel r.iter

/-- the state after `n` calls of `next` together with what they returned (driver) -/
def Range.walk (r : Range) : Nat → It → List Int → List Int × It × Bool
  | 0, it, acc => (acc.reverse, it, false)
  | n+1, it, acc =>
    match r.next it with
    | (none, it') => (acc.reverse, it', true)
    | (some v, it') => r.walk n it' (v :: acc)

/-! ### term accessors (term.rs) -/

/-- `BTreeMap::get`: the ordered scan stops at the first stored key that is not smaller -/
def mapGet : List (Term × Term) → Term → Option Term
  | [], _ => none
  | (k', v') :: r, k =>
    match Term.cmp k k' with
    | .lt => none
    | .eq => some v'
    | .gt => mapGet r k

/-- `BTreeSet::insert` -/
def setInsert : List Term → Term → List Term
  | [], t => [t]
  | t' :: r, t =>
    match Term.cmp t t' with
    | .lt => t :: t' :: r
    | .eq => t' :: r
    | .gt => t' :: setInsert r t

/-- `as_integer` (still used by callers outside this crate): the small-integer variant only -/
def asInt : Term → Option Int
  | .int i => some i
  | _ => none

/-- `fields::integer` before the range test: an `Integer`, or a `BigInt` (sign and little-endian magnitude; more
than 8 significant digits is outside every field type, as is any value the range test rejects) -/
def intOf : Term → Option Int
  | .int i => some i
  | .big neg d => some (if neg then -(magVal d : Int) else (magVal d : Int))
  | _ => none

/-- `fields::integer::<T>`: the integer, provided `T::try_from` accepts it (`lo ..= hi` is the range of `T`) -/
def intIn (lo hi : Int) (t : Term) : Option Int :=
  (intOf t).bind fun i => if lo ≤ i ∧ i ≤ hi then some i else none

def i64In : Term → Option Int := intIn I64_MIN I64_MAX
def i32In : Term → Option Int := intIn (-2147483648) 2147483647
def u8In : Term → Option Int := intIn 0 255
def u32In : Term → Option Int := intIn 0 4294967295

def atomName : Term → Option Bytes
  | .atom a => some a
  | _ => none

def isNilAtom (t : Term) : Bool := atomName t == some kNil

def asMap : Term → Option (List (Term × Term))
  | .map m => some m
  | _ => none

/-- `elixir_struct_module` -/
def structModule : Term → Option Bytes
  | .map m => (mapGet m (.atom kStruct)).bind atomName
  | _ => none

def byteOfInt : Term → Option UInt8
  | .int i => if 0 ≤ i ∧ i ≤ 255 then some (UInt8.ofNat i.toNat) else none
  | _ => none

def allSome {α : Type} : List (Option α) → Option (List α)
  | [] => some []
  | none :: _ => none
  | some a :: r => (allSome r).map (a :: ·)

/-! `String::from_utf8_lossy`: every maximal invalid prefix of a sequence becomes one U+FFFD (`Utf8Chunks`) -/

/-- for a lead byte: the sequence length and the valid range of the second byte (Unicode table 3-7) -/
def seqInfo (n0 : Nat) : Option (Nat × Nat × Nat) :=
  if 194 ≤ n0 ∧ n0 ≤ 223 then some (2, 128, 191)
  else if n0 = 224 then some (3, 160, 191)
  else if (225 ≤ n0 ∧ n0 ≤ 236) ∨ n0 = 238 ∨ n0 = 239 then some (3, 128, 191)
  else if n0 = 237 then some (3, 128, 159)
  else if n0 = 240 then some (4, 144, 191)
  else if 241 ≤ n0 ∧ n0 ≤ 243 then some (4, 128, 191)
  else if n0 = 244 then some (4, 128, 143)
  else none

def fffd : Bytes := [239, 191, 189]

def lossyGo : Nat → Bytes → Bytes
  | 0, _ => []
  | _, [] => []
  | fuel+1, b0 :: r =>
    if b0.toNat < 128 then b0 :: lossyGo fuel r else
    match seqInfo b0.toNat with
    | none => fffd ++ lossyGo fuel r
    | some (len, lo, hi) =>
      match r with
      | [] => fffd
      | b1 :: r1 =>
        if ¬ (lo ≤ b1.toNat ∧ b1.toNat ≤ hi) then fffd ++ lossyGo fuel r
        else if len = 2 then b0 :: b1 :: lossyGo fuel r1
        else match r1 with
          | [] => fffd
          | b2 :: r2 =>
            if !isCont b2 then fffd ++ lossyGo fuel r1
            else if len = 3 then b0 :: b1 :: b2 :: lossyGo fuel r2
            else match r2 with
              | [] => fffd
              | b3 :: r3 =>
                if !isCont b3 then fffd ++ lossyGo fuel r2
                else b0 :: b1 :: b2 :: b3 :: lossyGo fuel r3

/-- `String::from_utf8_lossy(b).to_string()` as UTF-8 bytes -/
def lossy (b : Bytes) : Bytes := lossyGo b.length b

/-- the bytes of a Rust `String`: lossy decoding leaves them alone (true of all valid UTF-8) -/
def IsStr (b : Bytes) : Prop := lossy b = b
instance (b : Bytes) : Decidable (IsStr b) := by unfold IsStr; infer_instance

/-- `as_erlang_string` -/
def asErlangString : Term → Option Bytes
  | .list l => (allSome (l.map byteOfInt)).map lossy
  | .str s => some s
  | .bin b => some (lossy b)
  | _ => none

/-- field lookup by atom key in a struct map -/
def fld (m : List (Term × Term)) (k : Bytes) : Option Term := mapGet m (.atom k)

/-- `fields::integer_field::<T>(map, key)` with the reader of `T` -/
def fldWith (rd : Term → Option Int) (m : List (Term × Term)) (k : Bytes) : Option Int := (fld m k).bind rd

/-- a map built by inserting atom-keyed entries one after the other into an empty `BTreeMap` -/
def mkMap (l : List (Bytes × Term)) : List (Term × Term) :=
  l.foldl (fun m kv => mapInsert m (.atom kv.1) kv.2) []

/-! ### range.rs: to/from term -/

/-- the `map.insert` calls of `From<ElixirRange> for OwnedTerm`, in order -/
def Range.fields (r : Range) : List (Bytes × Term) :=
  [(kStruct, .atom mRange), (kFirst, .int r.first), (kLast, .int r.last), (kStep, .int r.step)]

def Range.toTerm (r : Range) : Term := .map (mkMap r.fields)

def Range.fromTerm (t : Term) : Option Range :=
  if structModule t != some mRange then none else
  match t with
  | .map m =>
    match fldWith i64In m kFirst, fldWith i64In m kLast, fldWith i64In m kStep with
    | some f, some l, some s => some ⟨f, l, s⟩
    | _, _, _ => none
  | _ => none

/-! ### map_set.rs -/

/-- `ElixirMapSet { elements: BTreeSet<OwnedTerm> }`: the elements in set order -/
structure MapSet where
  elements : List Term

def MapSet.ofValues (l : List Term) : MapSet := ⟨l.foldl setInsert []⟩

/-- `BTreeSet::contains` (the ordered scan of `mapGet`) -/
def setContains : List Term → Term → Bool
  | [], _ => false
  | t' :: r, t =>
    match Term.cmp t t' with
    | .lt => false
    | .eq => true
    | .gt => setContains r t

/-- `BTreeSet::remove` -/
def setRemove : List Term → Term → List Term
  | [], _ => []
  | t' :: r, t =>
    match Term.cmp t t' with
    | .lt => t' :: r
    | .eq => r
    | .gt => t' :: setRemove r t

/-- `ElixirMapSet::new` -/
def MapSet.empty : MapSet := ⟨[]⟩
/-- `ElixirMapSet::insert` (the returned flag: the value was not there yet) -/
def MapSet.insert (s : MapSet) (t : Term) : MapSet × Bool := (⟨setInsert s.elements t⟩, !setContains s.elements t)
/-- `ElixirMapSet::remove` -/
def MapSet.remove (s : MapSet) (t : Term) : MapSet × Bool := (⟨setRemove s.elements t⟩, setContains s.elements t)
def MapSet.clear (_ : MapSet) : MapSet := ⟨[]⟩
def MapSet.contains (s : MapSet) (t : Term) : Bool := setContains s.elements t
def MapSet.len (s : MapSet) : Nat := s.elements.length
def MapSet.isEmpty (s : MapSet) : Bool := s.elements.isEmpty
/-- `union`: the merged iteration (an element present in both comes from `self`), collected into a set -/
def MapSet.union (a b : MapSet) : MapSet := ⟨b.elements.foldl setInsert a.elements⟩
def MapSet.intersection (a b : MapSet) : MapSet := ⟨a.elements.filter (setContains b.elements)⟩
def MapSet.difference (a b : MapSet) : MapSet := ⟨a.elements.filter (fun e => !setContains b.elements e)⟩
def MapSet.symmetricDifference (a b : MapSet) : MapSet :=
  ⟨(b.elements.filter (fun e => !setContains a.elements e)).foldl setInsert
    (a.elements.filter (fun e => !setContains b.elements e))⟩
def MapSet.isSubset (a b : MapSet) : Bool := a.elements.all (setContains b.elements)
def MapSet.isSuperset (a b : MapSet) : Bool := b.elements.all (setContains a.elements)
def MapSet.isDisjoint (a b : MapSet) : Bool := a.elements.all (fun e => !setContains b.elements e)

def MapSet.inner (s : MapSet) : List (Term × Term) := s.elements.foldl (fun m e => mapInsert m e (.list [])) []

def MapSet.fields (s : MapSet) : List (Bytes × Term) :=
  [(kStruct, .atom mMapSet), (kMap, .tuple [.atom kSet, .int s.elements.length, .map s.inner])]

def MapSet.toTerm (s : MapSet) : Term := .map (mkMap s.fields)

def MapSet.fromTerm (t : Term) : Option MapSet :=
  if structModule t != some mMapSet then none else
  match t with
  | .map m =>
    match fld m kMap with
    | some (.tuple [tag, _, .map inner]) =>
      if atomName tag != some kSet then none else
      some ⟨(inner.map (·.1)).foldl setInsert []⟩
    | _ => none
  | _ => none

/-! ### date_time.rs -/

structure Date where
  year : Int
  month : Int
  day : Int
  deriving Repr, BEq, DecidableEq

def InI32 (x : Int) : Prop := -2147483648 ≤ x ∧ x ≤ 2147483647
def InU8 (x : Int) : Prop := 0 ≤ x ∧ x ≤ 255
def InU32 (x : Int) : Prop := 0 ≤ x ∧ x ≤ 4294967295
instance (x : Int) : Decidable (InI32 x) := by unfold InI32; infer_instance
instance (x : Int) : Decidable (InU8 x) := by unfold InU8; infer_instance
instance (x : Int) : Decidable (InU32 x) := by unfold InU32; infer_instance

def Date.WF (d : Date) : Prop := InI32 d.year ∧ InU8 d.month ∧ InU8 d.day
instance (d : Date) : Decidable d.WF := by unfold Date.WF; infer_instance

def Date.fields (d : Date) : List (Bytes × Term) :=
  [(kStruct, .atom mDate), (kYear, .int d.year), (kMonth, .int d.month), (kDay, .int d.day),
    (kCalendar, .atom mCalendarISO)]

def Date.toTerm (d : Date) : Term := .map (mkMap d.fields)

def Date.fromTerm (t : Term) : Option Date :=
  if structModule t != some mDate then none else
  match t with
  | .map m =>
    match fldWith i32In m kYear, fldWith u8In m kMonth, fldWith u8In m kDay with
    | some y, some mo, some d => some ⟨y, mo, d⟩
    | _, _, _ => none
  | _ => none

/-- `ElixirDate::is_leap_year` (`%` of Rust is the truncated remainder, `Int.tmod`) -/
def isLeapYear (y : Int) : Bool :=
  (Int.tmod y 4 == 0 && Int.tmod y 100 != 0) || Int.tmod y 400 == 0

/-- the `match month` of `ElixirDate::try_new` (`none` is its `_ => return None` arm) -/
def maxDay (y mo : Int) : Option Int :=
  if mo = 1 ∨ mo = 3 ∨ mo = 5 ∨ mo = 7 ∨ mo = 8 ∨ mo = 10 ∨ mo = 12 then some 31
  else if mo = 4 ∨ mo = 6 ∨ mo = 9 ∨ mo = 11 then some 30
  else if mo = 2 then some (if isLeapYear y then 29 else 28)
  else none

/-- `ElixirDate::new`: no validation -/
def Date.new (y mo d : Int) : Date := ⟨y, mo, d⟩

/-- `ElixirDate::try_new` -/
def Date.tryNew (y mo d : Int) : Option Date :=
  if ¬ (Gen.C20_MONTH_LO ≤ mo ∧ mo ≤ Gen.C20_MONTH_HI) then none else
  match maxDay y mo with
  | none => none
  | some mx => if d < 1 ∨ d > mx then none else some ⟨y, mo, d⟩

/-- the `microsecond` field: `{value, precision}`; a missing key gives `(0, 0)`; an entry that is not a 2-tuple, or a
2-tuple with a non-integer or an integer outside `u32` / `u8`, makes the whole `from_term` fail -/
def usPart (m : List (Term × Term)) : Option (Int × Int) :=
  match fld m kMicrosecond with
  | none => some (0, 0)
  | some (.tuple [val, prec]) =>
    match u32In val, u8In prec with
    | some v, some p => some (v, p)
    | _, _ => none
  | some _ => none

structure Time where
  hour : Int
  minute : Int
  second : Int
  usValue : Int
  usPrecision : Int
  deriving Repr, BEq, DecidableEq

def Time.WF (t : Time) : Prop := InU8 t.hour ∧ InU8 t.minute ∧ InU8 t.second ∧ InU32 t.usValue ∧ InU8 t.usPrecision
instance (t : Time) : Decidable t.WF := by unfold Time.WF; infer_instance

/-- `ElixirTime::new`: no validation, but the precision is clamped (`precision.min(6)`) -/
def Time.new (h mi s us p : Int) : Time := ⟨h, mi, s, us, min p Gen.C20_CLAMP⟩

/-- `ElixirTime::try_new` -/
def Time.tryNew (h mi s us p : Int) : Option Time :=
  if h > Gen.C20_HOUR ∨ mi > Gen.C20_MINUTE ∨ s > Gen.C20_SECOND then none
  else if us > Gen.C20_MICRO then none
  else if p > Gen.C20_PRECISION then none
  else some ⟨h, mi, s, us, p⟩

def Time.hms (h mi s : Int) : Time := Time.new h mi s 0 0
def Time.tryHms (h mi s : Int) : Option Time := Time.tryNew h mi s 0 0

def Time.fields (x : Time) : List (Bytes × Term) :=
  [(kStruct, .atom mTime), (kHour, .int x.hour), (kMinute, .int x.minute), (kSecond, .int x.second),
    (kMicrosecond, .tuple [.int x.usValue, .int x.usPrecision]), (kCalendar, .atom mCalendarISO)]

def Time.toTerm (x : Time) : Term := .map (mkMap x.fields)

def Time.fromTerm (t : Term) : Option Time :=
  if structModule t != some mTime then none else
  match t with
  | .map m =>
    match fldWith u8In m kHour, fldWith u8In m kMinute, fldWith u8In m kSecond, usPart m with
    | some h, some mi, some s, some (uv, up) => some ⟨h, mi, s, uv, up⟩
    | _, _, _, _ => none
  | _ => none

structure Naive where
  year : Int
  month : Int
  day : Int
  hour : Int
  minute : Int
  second : Int
  usValue : Int
  usPrecision : Int
  deriving Repr, BEq, DecidableEq

def Naive.WF (x : Naive) : Prop :=
  InI32 x.year ∧ InU8 x.month ∧ InU8 x.day ∧ InU8 x.hour ∧ InU8 x.minute ∧ InU8 x.second ∧ InU32 x.usValue ∧ InU8 x.usPrecision
instance (x : Naive) : Decidable x.WF := by unfold Naive.WF; infer_instance

/-- `ElixirNaiveDateTime::new`: the precision is clamped -/
def Naive.new (y mo d h mi s us p : Int) : Naive := ⟨y, mo, d, h, mi, s, us, min p Gen.C20_CLAMP⟩

/-- `ElixirNaiveDateTime::try_new` (also the validation of `ElixirDateTime::try_utc`) -/
def Naive.tryNew (y mo d h mi s us p : Int) : Option Naive :=
  match Date.tryNew y mo d with
  | none => none
  | some _ =>
    match Time.tryNew h mi s us p with
    | none => none
    | some _ => some ⟨y, mo, d, h, mi, s, us, p⟩

def Naive.fromDateTime (d : Date) (t : Time) : Naive :=
  ⟨d.year, d.month, d.day, t.hour, t.minute, t.second, t.usValue, t.usPrecision⟩
/-- `to_date` / `to_time` go through `new`, so the precision is clamped again -/
def Naive.toDate (x : Naive) : Date := Date.new x.year x.month x.day
def Naive.toTime (x : Naive) : Time := Time.new x.hour x.minute x.second x.usValue x.usPrecision

def Naive.fields (x : Naive) : List (Bytes × Term) :=
  [(kStruct, .atom mNaiveDateTime), (kYear, .int x.year), (kMonth, .int x.month), (kDay, .int x.day),
    (kHour, .int x.hour), (kMinute, .int x.minute), (kSecond, .int x.second),
    (kMicrosecond, .tuple [.int x.usValue, .int x.usPrecision]), (kCalendar, .atom mCalendarISO)]

def Naive.toTerm (x : Naive) : Term := .map (mkMap x.fields)

def Naive.fromTerm (t : Term) : Option Naive :=
  if structModule t != some mNaiveDateTime then none else
  match t with
  | .map m =>
    match fldWith i32In m kYear, fldWith u8In m kMonth, fldWith u8In m kDay, fldWith u8In m kHour, fldWith u8In m kMinute,
          fldWith u8In m kSecond, usPart m with
    | some y, some mo, some d, some h, some mi, some s, some (uv, up) =>
      some ⟨y, mo, d, h, mi, s, uv, up⟩
    | _, _, _, _, _, _, _ => none
  | _ => none

structure DateTime where
  naive : Naive
  timeZone : Bytes
  zoneAbbr : Bytes
  utcOffset : Int
  stdOffset : Int
  deriving Repr, BEq, DecidableEq

def DateTime.WF (x : DateTime) : Prop :=
  x.naive.WF ∧ InI32 x.utcOffset ∧ InI32 x.stdOffset ∧ IsStr x.timeZone ∧ IsStr x.zoneAbbr
instance (x : DateTime) : Decidable x.WF := by unfold DateTime.WF; infer_instance

def sEtcUtc : Bytes := [69, 116, 99, 47, 85, 84, 67]  -- Etc/UTC
def sUtc : Bytes := [85, 84, 67]  -- UTC

/-- `ElixirDateTime::utc` -/
def DateTime.utc (y mo d h mi s us p : Int) : DateTime := ⟨Naive.new y mo d h mi s us p, sEtcUtc, sUtc, 0, 0⟩
/-- `ElixirDateTime::try_utc` -/
def DateTime.tryUtc (y mo d h mi s us p : Int) : Option DateTime :=
  (Naive.tryNew y mo d h mi s us p).map fun n => ⟨n, sEtcUtc, sUtc, 0, 0⟩
/-- `ElixirDateTime::with_timezone` -/
def DateTime.withTimezone (y mo d h mi s us p : Int) (tz za : Bytes) (uo so : Int) : DateTime :=
  ⟨Naive.new y mo d h mi s us p, tz, za, uo, so⟩
def DateTime.toDate (x : DateTime) : Date := x.naive.toDate
def DateTime.toTime (x : DateTime) : Time := x.naive.toTime
/-- `to_naive` goes through `ElixirNaiveDateTime::new` -/
def DateTime.toNaive (x : DateTime) : Naive :=
  Naive.new x.naive.year x.naive.month x.naive.day x.naive.hour x.naive.minute x.naive.second x.naive.usValue x.naive.usPrecision

def DateTime.fields (x : DateTime) : List (Bytes × Term) :=
  [(kStruct, .atom mDateTime), (kYear, .int x.naive.year), (kMonth, .int x.naive.month), (kDay, .int x.naive.day),
    (kHour, .int x.naive.hour), (kMinute, .int x.naive.minute), (kSecond, .int x.naive.second),
    (kMicrosecond, .tuple [.int x.naive.usValue, .int x.naive.usPrecision]),
    (kTimeZone, .bin x.timeZone), (kZoneAbbr, .bin x.zoneAbbr),
    (kUtcOffset, .int x.utcOffset), (kStdOffset, .int x.stdOffset), (kCalendar, .atom mCalendarISO)]

def DateTime.toTerm (x : DateTime) : Term := .map (mkMap x.fields)

def DateTime.fromTerm (t : Term) : Option DateTime :=
  if structModule t != some mDateTime then none else
  match t with
  | .map m =>
    match fldWith i32In m kYear, fldWith u8In m kMonth, fldWith u8In m kDay, fldWith u8In m kHour, fldWith u8In m kMinute,
          fldWith u8In m kSecond, usPart m with
    | some y, some mo, some d, some h, some mi, some s, some (uv, up) =>
      match (fld m kTimeZone).bind asErlangString, (fld m kZoneAbbr).bind asErlangString,
            fldWith i32In m kUtcOffset, fldWith i32In m kStdOffset with
      | some tz, some za, some uo, some so =>
        some ⟨⟨y, mo, d, h, mi, s, uv, up⟩, tz, za, uo, so⟩
      | _, _, _, _ => none
    | _, _, _, _, _, _, _ => none
  | _ => none

/-! ### exceptions.rs -/

/-- `exception_base` followed by the exception's own fields -/
def excFields (module : Bytes) (fields : List (Bytes × Term)) : List (Bytes × Term) :=
  (kStruct, .atom module) :: (kException, .atom kTrue) :: fields

def excMap (module : Bytes) (fields : List (Bytes × Term)) : Term := .map (mkMap (excFields module fields))

/-- `Option<String>` as a term: `nil` or a binary -/
def optBin : Option Bytes → Term
  | none => .atom kNil
  | some b => .bin b

/-- ArgumentError, RuntimeError, ArithmeticError: `{ message: String }` -/
def msgExcToTerm (module msg : Bytes) : Term := excMap module [(kMessage, .bin msg)]

def msgExcFromTerm (module : Bytes) (t : Term) : Option Bytes :=
  if structModule t != some module then none else
  match t with
  | .map m => (fld m kMessage).bind asErlangString
  | _ => none

/-- MatchError, BadMapError, BadFunctionError, CaseClauseError, WithClauseError: `{ term: OwnedTerm }` -/
def termExcToTerm (module : Bytes) (x : Term) : Term := excMap module [(kTerm, x)]

def termExcFromTerm (module : Bytes) (t : Term) : Option Term :=
  if structModule t != some module then none else
  match t with
  | .map m => fld m kTerm
  | _ => none

def condExcToTerm : Term := excMap mCondClauseError []
def condExcFromTerm (t : Term) : Option Unit :=
  if structModule t != some mCondClauseError then none else some ()

structure KeyError where
  key : Term
  term : Term
  message : Option Bytes

def KeyError.toTerm (e : KeyError) : Term :=
  excMap mKeyError [(kKey, e.key), (kTerm, e.term), (kMessage, optBin e.message)]

def KeyError.fromTerm (t : Term) : Option KeyError :=
  if structModule t != some mKeyError then none else
  match t with
  | .map m =>
    match fld m kKey, fld m kTerm with
    | some k, some c => some ⟨k, c, (fld m kMessage).bind asErlangString⟩
    | _, _ => none
  | _ => none

/-- `str::strip_prefix` -/
def stripPrefix (p s : Bytes) : Option Bytes := if p.isPrefixOf s then some (s.drop p.length) else none

/-- `format!("Elixir.{module}")` -/
def withElixir (m : Bytes) : Bytes := elixirDot ++ m

/-- `name.strip_prefix("Elixir.").unwrap_or(name)` (`from_term`), and `without_elixir_prefix` of the constructors -/
def withoutElixir (m : Bytes) : Bytes := (stripPrefix elixirDot m).getD m

structure UndefFn where
  module : Bytes
  function : Bytes
  arity : Int
  reason : Option Bytes
  deriving Repr, BEq, DecidableEq

/-- `UndefinedFunctionError::new` / `with_reason`: either spelling of the module is accepted -/
def UndefFn.new (module function : Bytes) (arity : Int) (reason : Option Bytes) : UndefFn :=
  ⟨withoutElixir module, function, arity, reason⟩

def UndefFn.toTerm (e : UndefFn) : Term :=
  excMap mUndefinedFunctionError
    [(kModule, .atom (withElixir e.module)), (kFunction, .atom e.function), (kArity, .int e.arity), (kReason, optBin e.reason)]

def UndefFn.fromTerm (t : Term) : Option UndefFn :=
  if structModule t != some mUndefinedFunctionError then none else
  match t with
  | .map m =>
    match (fld m kModule).bind atomName, (fld m kFunction).bind atomName, fldWith u8In m kArity with
    | some mo, some f, some a => some ⟨withoutElixir mo, f, a, (fld m kReason).bind asErlangString⟩
    | _, _, _ => none
  | _ => none

structure FnClause where
  module : Option Bytes
  function : Option Bytes
  arity : Option Int
  args : Option Term

/-- `FunctionClauseError::new` -/
def FnClause.new (module function : Bytes) (arity : Int) (args : Term) : FnClause :=
  ⟨some (withoutElixir module), some function, some arity, some args⟩

def FnClause.toTerm (e : FnClause) : Term :=
  excMap mFunctionClauseError
    [(kModule, match e.module with | some m => .atom (withElixir m) | none => .atom kNil),
     (kFunction, match e.function with | some f => .atom f | none => .atom kNil),
     (kArity, match e.arity with | some a => .int a | none => .atom kNil),
     (kArgs, e.args.getD (.atom kNil))]

def FnClause.fromTerm (t : Term) : Option FnClause :=
  if structModule t != some mFunctionClauseError then none else
  match t with
  | .map m =>
    some ⟨(((fld m kModule).filter (fun a => !isNilAtom a)).bind atomName).map withoutElixir,
          ((fld m kFunction).filter (fun a => !isNilAtom a)).bind atomName,
          fldWith u8In m kArity,
          (fld m kArgs).filter (fun a => !isNilAtom a)⟩
  | _ => none

/-! ### builders.rs -/

/-- `KeywordListBuilder`: `put*` calls in order, then `build` -/
def kwBuild (ps : List (Bytes × Term)) : Term := .list (ps.map fun kv => .tuple [.atom kv.1, kv.2])

/-- `AtomKeyMapBuilder`: `insert*` calls in order, then `build` -/
def akmBuild (ps : List (Bytes × Term)) : Term := .map (mkMap ps)

/-- a value handed to a generic `put`/`insert` (`V: Into<OwnedTerm>`), with the `From` impls of term.rs -/
inductive BVal where
  | int (i : Int)        -- i64 / i32 / u8 …: `Integer`
  | bool (b : Bool)      -- `OwnedTerm::boolean`
  | str (s : Bytes)      -- `&str` / `String`: `OwnedTerm::String`
  | term (t : Term)      -- an `OwnedTerm` itself

def kFalse : Bytes := [102, 97, 108, 115, 101]  -- false

def BVal.into : BVal → Term
  | .int i => .int i
  | .bool b => .atom (if b then kTrue else kFalse)
  | .str s => .str s
  | .term t => t

/-- one call on a `KeywordListBuilder` / `AtomKeyMapBuilder` -/
inductive BOp where
  | put (k : Bytes) (v : BVal)                 -- `put` / `insert`
  | putAtom (k a : Bytes)                      -- `put_atom` / `insert_atom`
  | putFlag (k : Bytes)                        -- `put_flag` (keyword lists only)
  | putTerm (k : Bytes) (t : Term)             -- `put_term` / `insert_term`
  | putIf (c : Bool) (k : Bytes) (v : BVal)    -- `put_if` / `insert_if`
  | putSome (k : Bytes) (v : Option BVal)      -- `put_some` / `insert_some`
  | extend (l : List (Bytes × BVal))           -- `extend`

/-- the `(key, value)` pushes / inserts one call performs, in order -/
def BOp.pairs : BOp → List (Bytes × Term)
  | .put k v => [(k, v.into)]
  | .putAtom k a => [(k, .atom a)]
  | .putFlag k => [(k, .atom kTrue)]
  | .putTerm k t => [(k, t)]
  | .putIf c k v => if c then [(k, v.into)] else []
  | .putSome k (some v) => [(k, v.into)]
  | .putSome _ none => []
  | .extend l => l.map fun kv => (kv.1, kv.2.into)

def bopPairs (ops : List BOp) : List (Bytes × Term) := ops.flatMap BOp.pairs

/-- a chain of `KeywordListBuilder` calls, then `len`, `is_empty`, `build` -/
def kwRun (ops : List BOp) : Nat × Bool × Term :=
  ((bopPairs ops).length, (bopPairs ops).isEmpty, kwBuild (bopPairs ops))

/-- a chain of `AtomKeyMapBuilder` calls, then `len`, `is_empty`, `build` -/
def akmRun (ops : List BOp) : Nat × Bool × Term :=
  ((mkMap (bopPairs ops)).length, (mkMap (bopPairs ops)).isEmpty, akmBuild (bopPairs ops))

/-- `AtomKeyMapBuilder::build_struct(module)` -/
def akmBuildStruct (ps : List (Bytes × Term)) (module : Bytes) : Term :=
  .map (mkMap (ps ++ [(kStruct, .atom (elixirDot ++ module))]))

/-! ### term.rs: proplist / map helpers (`none` is `Err(WrongType)`) -/

def isProplistElement : Term → Bool
  | .tuple [.atom _, _] | .tuple [.bin _, _] | .tuple [.str _, _] => true
  | .atom _ => true
  | _ => false

def isProplist : Term → Bool
  | .list l => l.all isProplistElement
  | .nil => true
  | _ => false

/-- one element of `normalize_proplist`'s `filter_map` -/
def normEl : Term → Option Term
  | .tuple [k, v] => some (.tuple [k, v])
  | .atom a => some (.tuple [.atom a, .atom kTrue])
  | _ => none

def normalizeProplist : Term → Option Term
  | .list l => some (.list (l.filterMap normEl))
  | .nil => some (.list [])
  | _ => none

/-- one iteration of `proplist_to_map`'s loop -/
def insEl (m : List (Term × Term)) : Term → List (Term × Term)
  | .tuple [k, v] => mapInsert m k v
  | .atom a => mapInsert m (.atom a) (.atom kTrue)
  | _ => m

def proplistToMap : Term → Option Term
  | .list l => some (.map (l.foldl insEl []))
  | .map m => some (.map m)
  | .nil => some (.map [])
  | _ => none

def mapToProplist : Term → Option Term
  | .map m => some (.list (m.map fun kv => .tuple [kv.1, kv.2]))
  | .list l => some (.list l)
  | .nil => some .nil
  | _ => none

/-- `proplist_get_atom_key`: the first 2-tuple whose first element is that atom -/
def proplistGetAtomKey : Term → Bytes → Option Term
  | .list l, k => l.findSome? fun
    | .tuple [.atom a, v] => if a == k then some v else none
    | _ => none
  | _, _ => none

/-- `to_map_recursive`; `fuel` bounds the nesting depth followed (the driver passes the term's text length) -/
def toMapRec : Nat → Term → Term
  | 0, t => t
  | n+1, t =>
    match t with
    | .list [] => .list []
    | .list l =>
      if isProplist t then
        let m := (l.filterMap normEl).foldl insEl []
        .map (m.foldl (fun acc kv => mapInsert acc kv.1 (toMapRec n kv.2)) [])
      else .list (l.map (toMapRec n))
    | .map m => .map (m.foldl (fun acc kv => mapInsert acc kv.1 (toMapRec n kv.2)) [])
    | .nil => .list []
    | t => t

/-! ### what a trip through `erltf::encode` + `erltf::decode` does to a term

`wireNorm t` is the term `decode (encode t)` returns for the constructors the wrappers use (integers outside the
32-bit range come back as big integers, `List([])` as `Nil`, `String` as `Binary`, map entries are re-inserted).
It is proved equal to the `wire` of C01's round-trip theorem for every well-formed term (Lemmas/ElixirWire.lean:
`wireNorm_eq_wire`), so `decode x (encode t) = wireNorm t` is a theorem about the codec model (`C20_wire_is_the_codec`);
the correspondence run still compares it with the real codec on every wire case (`c20wire`). -/

def wireInt (i : Int) : Term :=
  if -2147483648 ≤ i ∧ i ≤ 2147483647 then .int i else .big (i < 0) (natDigits i.natAbs)

mutual
def wireNorm : Term → Term
  | .int i => wireInt i
  | .str s => .bin s
  | .list l => match l with
    | [] => .nil
    | _ => .list (wireNormL l)
  | .ilist l t => match wireNorm t with
    | .nil => .list (wireNormL l)
    | t' => .ilist (wireNormL l) t'
  | .tuple l => .tuple (wireNormL l)
  | .map m => .map (wireNormKV m [])
  | .ifun a u i nf m oi ou p fr => .ifun a u i nf m oi ou p (wireNormL fr)
  | t => t
def wireNormL : List Term → List Term
  | [] => []
  | t :: ts => wireNorm t :: wireNormL ts
def wireNormKV : List (Term × Term) → List (Term × Term) → List (Term × Term)
  | [], acc => acc
  | (k, v) :: r, acc => wireNormKV r (mapInsert acc (wireNorm k) (wireNorm v))
end

end Edp.Ex
