import EdpVerif.Drv.Etf
namespace Edp.Drv
open Edp

def classOf : Except DErr Term → String
  | .ok _ => "ok"
  | .error .panic => "panic"
  | .error _ => "err"

/-- C02 tie: outcome class of the owned and of the zero-copy decoder on an arbitrary byte string -/
def handleC02 : List String → Option String
  | ["c02class", h, o] => some <| run do
    let b ← getHex h
    let x := (parseOracle o).ext
    pure (classOf (decode x b) ++ " " ++ classOf (decodeBorrowed x b))
  | _ => none

end Edp.Drv
