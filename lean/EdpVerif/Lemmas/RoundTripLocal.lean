import EdpVerif.Lemmas.RoundTrip
/-!
Round trip of the codec model for terms whose identifiers carry preserved LOCAL_EXT bytes AT ANY DEPTH:
`dec (enc t ++ r) = (wire t, r)`.

`Lemmas/RoundTrip.lean` proves it over `wfT`, which asks identifiers in plain form (`loc = none`), and has the leaf case
for an identifier with `loc = some (hash ++ plain)` (`dec_enc_local`).  Here the same mutual induction runs over
`wfX cache`: `wfT`, except that an identifier (and the creator pid of a fun) may carry `loc = some (hash ++ plain)`
where `hash` is 8 bytes and `plain` is the encoding of its logical fields — which is what the decoder preserves.  Such an
identifier costs the decoder one more level of nesting and one more unit of fuel (`depX`, `tszX`).  The zero-copy
decoder has no LOCAL_EXT arm, hence `cfg.borrowed = false`.
-/
namespace Edp

/-- the identifier is plain and well-formed, or carries `hash ++ plain` with `plain` the encoding of its logical fields -/
def locOk (cache : List Bytes) (t : Term) : Prop :=
  match locOf t with
  | none => wfT t = true
  | some l => ∃ hash plain, l = hash ++ plain ∧ hash.length = 8 ∧ wfT (clearLoc t) = true ∧ enc cache (clearLoc t) = .ok plain

def idTsz (t : Term) : Nat := match locOf t with | none => 2 | some _ => 3
def idDep (t : Term) : Nat := match locOf t with | none => 1 | some _ => 2

mutual
def wfX (cache : List Bytes) : Term → Prop
  | .pid p => locOk cache (.pid p)
  | .port n i c l => locOk cache (.port n i c l)
  | .ref n c ids l => locOk cache (.ref n c ids l)
  | .list l => l.length ≤ MAX_LIST_SIZE ∧ wfXL cache l
  | .ilist l t => l.length ≤ MAX_LIST_SIZE ∧ wfXL cache l ∧ wfX cache t
  | .map kvs => kvs.length ≤ MAX_MAP_SIZE ∧ wfXKV cache kvs
  | .tuple l => l.length ≤ MAX_TUPLE_SIZE ∧ wfXL cache l
  | .ifun a u i nf m oi ou p fr =>
    a ≤ 255 ∧ u.length = 16 ∧ i < 4294967296 ∧ nf = fr.length ∧ nf < 4294967296 ∧ validUtf8 m = true ∧
      oi < 2147483648 ∧ ou < 2147483648 ∧ locOk cache (.pid p) ∧ wfXL cache fr
  | t => wfT t = true
def wfXL (cache : List Bytes) : List Term → Prop
  | [] => True
  | t :: ts => wfX cache t ∧ wfXL cache ts
def wfXKV (cache : List Bytes) : List (Term × Term) → Prop
  | [] => True
  | (k, v) :: r => wfX cache k ∧ wfX cache v ∧ wfXKV cache r
end

mutual
def tszX : Term → Nat
  | .list l => 1 + tszXL l
  | .ilist l t => 1 + max (tszXL l) (tszX t)
  | .map kvs => 1 + tszXKV kvs
  | .tuple l => 1 + tszXL l
  | .pid p => idTsz (.pid p)
  | .port n i c l => idTsz (.port n i c l)
  | .ref n c ids l => idTsz (.ref n c ids l)
  | .ifun _ _ _ _ _ _ _ p fr => 1 + max (idTsz (.pid p)) (tszXL fr)
  | t => tsz t
def tszXL : List Term → Nat
  | [] => 0
  | t :: ts => 1 + max (tszX t) (tszXL ts)
def tszXKV : List (Term × Term) → Nat
  | [] => 0
  | (k, v) :: r => 1 + max (max (tszX k) (tszX v)) (tszXKV r)
end

mutual
def depX : Term → Nat
  | .list l => 1 + depXL l
  | .ilist l t => 1 + max (depXL l) (depX t)
  | .map kvs => 1 + depXKV kvs
  | .tuple l => 1 + depXL l
  | .pid p => idDep (.pid p)
  | .port n i c l => idDep (.port n i c l)
  | .ref n c ids l => idDep (.ref n c ids l)
  | .ifun _ _ _ _ _ _ _ p fr => 1 + max (idDep (.pid p)) (depXL fr)
  | t => dep t
def depXL : List Term → Nat
  | [] => 0
  | t :: ts => max (depX t) (depXL ts)
def depXKV : List (Term × Term) → Nat
  | [] => 0
  | (k, v) :: r => max (max (depX k) (depX v)) (depXKV r)
end

/-- an identifier in either form is read back as itself -/
theorem dec_enc_ident (x : Ext) (cfg : DecCfg) (cache : List Bytes) (hc : cfgFor cache cfg) (hlen : cache.length ≤ 256)
    (hb : cfg.borrowed = false) (t : Term) (hid : isIdent t = true) (bs r : Bytes) (fuel d : Nat)
    (hw : locOk cache t) (hd : idDep t + d ≤ MAX_NESTING_DEPTH) (he : enc cache t = .ok bs) (hf : idTsz t ≤ fuel) :
    dec x cfg fuel d (bs ++ r) = .ok (t, r) := by
  unfold locOk at hw
  unfold idDep at hd
  unfold idTsz at hf
  cases hl : locOf t with
  | none =>
    simp only [hl] at hw hd hf
    have hw' : wire t = t := by cases t <;> simp [isIdent] at hid <;> simp [wire]
    have htsz : tsz t = 2 := by cases t <;> simp [isIdent] at hid <;> simp [tsz]
    have hdep : dep t = 1 := by cases t <;> simp [isIdent] at hid <;> simp [dep]
    have := dec_enc x cfg cache hc hlen t bs r fuel d hw (by omega) he (by omega)
    rwa [hw'] at this
  | some l =>
    simp only [hl] at hw hd hf
    obtain ⟨hash, plain, rfl, hh, hwf, hp⟩ := hw
    obtain ⟨g, rfl⟩ : ∃ g, fuel = g + 3 := ⟨fuel - 3, by omega⟩
    obtain ⟨h1, h2⟩ := dec_enc_local x cfg cache hc hlen hb t hash plain r g d hid hh hwf hp hl (by omega)
    rw [h1] at he
    cases he
    exact h2

theorem enc_pid_eq (cache : List Bytes) (p : PidF) : enc cache (.pid p) = encPid cache p := by simp [enc]

mutual
theorem dec_encX (x : Ext) (cfg : DecCfg) (cache : List Bytes) (hc : cfgFor cache cfg) (hlen : cache.length ≤ 256)
    (hb : cfg.borrowed = false) (t : Term) (bs r : Bytes) (fuel d : Nat)
    (hw : wfX cache t) (hd : depX t + d ≤ MAX_NESTING_DEPTH) (he : enc cache t = .ok bs) (hf : tszX t ≤ fuel) :
    dec x cfg fuel d (bs ++ r) = .ok (wire t, r) := by
  match t with
  | .atom a => exact dec_enc x cfg cache hc hlen _ bs r fuel d (by simpa [wfX] using hw) (by simpa [depX] using hd) he (by simpa [tszX] using hf)
  | .int i => exact dec_enc x cfg cache hc hlen _ bs r fuel d (by simpa [wfX] using hw) (by simpa [depX] using hd) he (by simpa [tszX] using hf)
  | .float b => exact dec_enc x cfg cache hc hlen _ bs r fuel d (by simpa [wfX] using hw) (by simpa [depX] using hd) he (by simpa [tszX] using hf)
  | .bin b => exact dec_enc x cfg cache hc hlen _ bs r fuel d (by simpa [wfX] using hw) (by simpa [depX] using hd) he (by simpa [tszX] using hf)
  | .str b => exact dec_enc x cfg cache hc hlen _ bs r fuel d (by simpa [wfX] using hw) (by simpa [depX] using hd) he (by simpa [tszX] using hf)
  | .bits b n => exact dec_enc x cfg cache hc hlen _ bs r fuel d (by simpa [wfX] using hw) (by simpa [depX] using hd) he (by simpa [tszX] using hf)
  | .big neg dg => exact dec_enc x cfg cache hc hlen _ bs r fuel d (by simpa [wfX] using hw) (by simpa [depX] using hd) he (by simpa [tszX] using hf)
  | .nil => exact dec_enc x cfg cache hc hlen _ bs r fuel d (by simpa [wfX] using hw) (by simpa [depX] using hd) he (by simpa [tszX] using hf)
  | .xfun m fn a => exact dec_enc x cfg cache hc hlen _ bs r fuel d (by simpa [wfX] using hw) (by simpa [depX] using hd) he (by simpa [tszX] using hf)
  | .pid p =>
    have := dec_enc_ident x cfg cache hc hlen hb (.pid p) rfl bs r fuel d (by simpa [wfX] using hw) (by simpa [depX] using hd) he
      (by simpa [tszX] using hf)
    simpa [wire] using this
  | .port n i c l =>
    have := dec_enc_ident x cfg cache hc hlen hb (.port n i c l) rfl bs r fuel d (by simpa [wfX] using hw)
      (by simpa [depX] using hd) he (by simpa [tszX] using hf)
    simpa [wire] using this
  | .ref n c ids l =>
    have := dec_enc_ident x cfg cache hc hlen hb (.ref n c ids l) rfl bs r fuel d (by simpa [wfX] using hw)
      (by simpa [depX] using hd) he (by simpa [tszX] using hf)
    simpa [wire] using this
  | .tuple l =>
    simp only [tszX] at hf; obtain ⟨f, rfl⟩ : ∃ f, fuel = f + 1 := ⟨fuel - 1, by omega⟩
    simp only [wfX] at hw
    simp only [depX] at hd
    have hd' : ¬ d > MAX_NESTING_DEPTH := by omega
    simp only [enc] at he
    cases hl : encL cache l with
    | error e => simp only [hl] at he; (repeat' split at he) <;> simp at he
    | ok lb =>
      have ih := fun r' => decN_encLX x cfg cache hc hlen hb l lb r' f (d + 1) hw.2 (by omega) hl (by omega)
      by_cases h255 : l.length ≤ 255
      · simp [hl, h255] at he; subst he
        simp only [List.cons_append, List.append_assoc]
        rw [dec.eq_3]
        simp [hd', hb, rdU_be8 _ _ (show l.length < 256 by omega), ih, wire]
      · have h32 : l.length < 4294967296 := by have := hw.1; simp [MAX_TUPLE_SIZE] at this; omega
        have hnm : ¬ l.length > u32max := by simp [u32max]; omega
        have hnt : ¬ l.length > MAX_TUPLE_SIZE := by have := hw.1; omega
        simp [hl, h255, hnm] at he; subst he
        simp only [List.cons_append, List.append_assoc]
        rw [dec.eq_3]
        simp [hd', hb, rdU_be32 _ _ h32, hnt, ih, wire]
  | .list l =>
    simp only [tszX] at hf; obtain ⟨f, rfl⟩ : ∃ f, fuel = f + 1 := ⟨fuel - 1, by omega⟩
    simp only [wfX] at hw
    simp only [depX] at hd
    have hd' : ¬ d > MAX_NESTING_DEPTH := by omega
    simp only [enc] at he
    cases hl : encL cache l with
    | error e =>
      cases l with
      | nil => simp [encL] at hl
      | cons a l' => simp only [hl, List.isEmpty_cons, Bool.false_eq_true, ↓reduceIte] at he; (repeat' split at he) <;> simp at he
    | ok lb =>
      have ih := fun r' => decN_encLX x cfg cache hc hlen hb l lb r' f (d + 1) hw.2 (by omega) hl (by omega)
      cases l with
      | nil =>
        simp at he; subst he
        have := dec_nil x cfg r f d (by omega)
        simpa [wire] using this
      | cons a l' =>
        have h32 : (a :: l').length < 4294967296 := by have := hw.1; simp [MAX_LIST_SIZE] at this ⊢; omega
        have hnm : ¬ (a :: l').length > u32max := by simp [u32max] at h32 ⊢; omega
        have hnt : ¬ (a :: l').length > MAX_LIST_SIZE := by have := hw.1; omega
        simp only [hl, hnm, List.isEmpty_cons, Bool.false_eq_true, ↓reduceIte, Except.ok.injEq] at he
        subst he
        simp only [tszXL] at hf
        obtain ⟨f', rfl⟩ : ∃ f', f = f' + 1 := ⟨f - 1, by omega⟩
        simp only [List.cons_append, List.append_assoc]
        rw [dec.eq_3]
        have hn := dec_nil x cfg r f' (d + 1) (by omega)
        simp only [List.length_cons] at ih h32 hnt
        simp [hd', hb, rdU_be32 _ _ h32, hnt, ih, hn, wire]
  | .ilist l tl =>
    simp only [tszX] at hf; obtain ⟨f, rfl⟩ : ∃ f, fuel = f + 1 := ⟨fuel - 1, by omega⟩
    simp only [wfX] at hw
    simp only [depX] at hd
    have hd' : ¬ d > MAX_NESTING_DEPTH := by omega
    have h32 : l.length < 4294967296 := by have := hw.1; simp [MAX_LIST_SIZE] at this ⊢; omega
    have hnm : ¬ l.length > u32max := by simp [u32max] at h32 ⊢; omega
    have hnt : ¬ l.length > MAX_LIST_SIZE := by have := hw.1; omega
    simp only [enc, hnm, ↓reduceIte] at he
    cases hl : encL cache l with
    | error e => simp [hl] at he
    | ok lb =>
      cases ht : enc cache tl with
      | error e => simp [hl, ht] at he
      | ok tb =>
        simp [hl, ht] at he; subst he
        have ih := fun r' => decN_encLX x cfg cache hc hlen hb l lb r' f (d + 1) hw.2.1 (by omega) hl (by omega)
        have iht := dec_encX x cfg cache hc hlen hb tl tb r f (d + 1) hw.2.2 (by omega) ht (by omega)
        simp only [List.cons_append, List.append_assoc]
        rw [dec.eq_3]
        simp only [wire]
        cases hwt : wire tl <;>
          simp [hd', hb, rdU_be32 _ _ h32, hnt, ih, iht, hwt]
  | .map kvs =>
    simp only [tszX] at hf; obtain ⟨f, rfl⟩ : ∃ f, fuel = f + 1 := ⟨fuel - 1, by omega⟩
    simp only [wfX] at hw
    simp only [depX] at hd
    have hd' : ¬ d > MAX_NESTING_DEPTH := by omega
    have h32 : kvs.length < 4294967296 := by have := hw.1; simp [MAX_MAP_SIZE] at this ⊢; omega
    have hnm : ¬ kvs.length > u32max := by simp [u32max] at h32 ⊢; omega
    have hnt : ¬ kvs.length > MAX_MAP_SIZE := by have := hw.1; omega
    simp only [enc, hnm, ↓reduceIte] at he
    cases hl : encKV cache kvs with
    | error e => simp [hl] at he
    | ok lb =>
      simp [hl] at he; subst he
      have ih := fun r' => decKV_encKVX x cfg cache hc hlen hb kvs lb r' f (d + 1) [] hw.2 (by omega) hl (by omega)
      simp only [List.cons_append, List.append_assoc]
      rw [dec.eq_3]
      simp [hd', hb, rdU_be32 _ _ h32, hnt, ih, wire]
  | .ifun a u i nf m oi ou p fr =>
    simp only [tszX] at hf
    have hid2 : 2 ≤ idTsz (.pid p) := by unfold idTsz; split <;> omega
    obtain ⟨f, rfl⟩ : ∃ f, fuel = f + 3 := ⟨fuel - 3, by omega⟩
    simp only [wfX] at hw
    obtain ⟨ha, hu, hi, hnf, hnf32, hm, hoi, hou, hp, hfr⟩ := hw
    simp only [depX] at hd
    have hdp : 1 ≤ idDep (.pid p) := by unfold idDep; split <;> omega
    have hd' : ¬ d > MAX_NESTING_DEPTH := by omega
    simp only [enc] at he
    cases hma : encAtom cache m with
    | error e => simp [hma] at he
    | ok mb =>
      cases hpa : encPid cache p with
      | error e => simp [hma, hpa] at he
      | ok pb =>
        cases hfa : encL cache fr with
        | error e => simp [hma, hpa, hfa] at he
        | ok fb =>
          simp only [hma, hpa, hfa, Except.ok.injEq] at he
          subst he
          have ih := fun r' => decN_encLX x cfg cache hc hlen hb fr fb r' (f + 2) (d + 1) hfr (by omega) hfa (by omega)
          have h1 := fun r' => dec_atomC x cfg cache m mb r' (f + 1) (d + 1) hc hlen hm hma (by omega)
          have h2 := fun r' => dec_int x cfg (oi : Int) r' (f + 1) (d + 1) (by omega) (by omega)
          have h3 := fun r' => dec_int x cfg (ou : Int) r' (f + 1) (d + 1) (by omega) (by omega)
          rw [wire_small oi hoi] at h2
          rw [wire_small ou hou] at h3
          have h4 := fun r' => dec_enc_ident x cfg cache hc hlen hb (.pid p) rfl pb r' (f + 2) (d + 1) hp (by omega)
            (by rw [enc_pid_eq]; exact hpa) (by omega)
          subst hnf
          have hoi0 : ¬ ((oi : Int) < 0) := by omega
          have hou0 : ¬ ((ou : Int) < 0) := by omega
          simp only [List.cons_append, List.append_assoc]
          rw [dec.eq_3]
          simp [hd', hb, rdU_be32_mod, rdU_byte a _ (by omega), takeE_of_length 16 u _ hu,
            rdU_be32 _ _ hi, rdU_be32 _ _ hnf32, h1, h2, h3, h4, ih, wire, hoi0, hou0]
termination_by sizeOf t
decreasing_by all_goals (simp_wf; try omega)
theorem decN_encLX (x : Ext) (cfg : DecCfg) (cache : List Bytes) (hc : cfgFor cache cfg) (hlen : cache.length ≤ 256)
    (hb : cfg.borrowed = false) (l : List Term) (bs r : Bytes) (fuel d : Nat)
    (hw : wfXL cache l) (hd : depXL l + d ≤ MAX_NESTING_DEPTH) (he : encL cache l = .ok bs) (hf : tszXL l ≤ fuel) :
    decN x cfg fuel d l.length (bs ++ r) = .ok (wireL l, r) := by
  match l with
  | [] => simp [encL] at he; subst he; simp [decN, wireL]
  | t :: ts =>
    simp only [tszXL] at hf; obtain ⟨f, rfl⟩ : ∃ f, fuel = f + 1 := ⟨fuel - 1, by omega⟩
    simp only [wfXL] at hw
    simp only [depXL] at hd
    simp only [encL] at he
    cases h1 : enc cache t with
    | error e => simp [h1] at he
    | ok a =>
      cases h2 : encL cache ts with
      | error e => simp [h1, h2] at he
      | ok b =>
        simp [h1, h2] at he; subst he
        have ih1 := dec_encX x cfg cache hc hlen hb t a (b ++ r) f d hw.1 (by omega) h1 (by omega)
        have ih2 := decN_encLX x cfg cache hc hlen hb ts b r f d hw.2 (by omega) h2 (by omega)
        simp [decN, ih1, ih2, wireL]
termination_by sizeOf l
decreasing_by all_goals (simp_wf; try omega)
theorem decKV_encKVX (x : Ext) (cfg : DecCfg) (cache : List Bytes) (hc : cfgFor cache cfg) (hlen : cache.length ≤ 256)
    (hb : cfg.borrowed = false) (kvs : List (Term × Term)) (bs r : Bytes) (fuel d : Nat)
    (acc : List (Term × Term))
    (hw : wfXKV cache kvs) (hd : depXKV kvs + d ≤ MAX_NESTING_DEPTH) (he : encKV cache kvs = .ok bs) (hf : tszXKV kvs ≤ fuel) :
    decKV x cfg fuel d kvs.length (bs ++ r) acc = .ok (insertAll acc (wireKV kvs), r) := by
  match kvs with
  | [] => simp [encKV] at he; subst he; simp [decKV, wireKV, insertAll]
  | (k, v) :: ts =>
    simp only [tszXKV] at hf; obtain ⟨f, rfl⟩ : ∃ f, fuel = f + 1 := ⟨fuel - 1, by omega⟩
    simp only [wfXKV] at hw
    simp only [depXKV] at hd
    simp only [encKV] at he
    cases h1 : enc cache k with
    | error e => simp [h1] at he
    | ok a =>
      cases h2 : enc cache v with
      | error e => simp [h1, h2] at he
      | ok b =>
        cases h3 : encKV cache ts with
        | error e => simp [h1, h2, h3] at he
        | ok c =>
          simp [h1, h2, h3] at he; subst he
          have ih1 := dec_encX x cfg cache hc hlen hb k a (b ++ (c ++ r)) f d hw.1 (by omega) h1 (by omega)
          have ih2 := dec_encX x cfg cache hc hlen hb v b (c ++ r) f d hw.2.1 (by omega) h2 (by omega)
          have ih3 := decKV_encKVX x cfg cache hc hlen hb ts c r f d (mapInsert acc (wire k) (wire v)) hw.2.2 (by omega) h3 (by omega)
          simp [decKV, ih1, ih2, ih3, wireKV, insertAll]
termination_by sizeOf kvs
decreasing_by all_goals (simp_wf; try omega)
end

/-! ### the fuel `decode` supplies (input length + 1) suffices here too -/

theorem tszX_pos (t : Term) : 1 ≤ tszX t := by
  cases t <;> simp [tszX, tsz, idTsz] <;> (try split) <;> omega


theorem idTsz_le_length (cache : List Bytes) (t : Term) (bs : Bytes) (hid : isIdent t = true) (hw : locOk cache t)
    (he : enc cache t = .ok bs) : idTsz t ≤ bs.length := by
  unfold locOk at hw
  unfold idTsz
  cases hl : locOf t with
  | none =>
    simp only [hl] at hw ⊢
    have htsz : tsz t = 2 := by cases t <;> simp [isIdent] at hid <;> simp [tsz]
    have := tsz_le_length cache t bs hw he
    omega
  | some l =>
    simp only [hl] at hw ⊢
    obtain ⟨hash, plain, rfl, hh, _, _⟩ := hw
    have e : enc cache t = .ok (121 :: (hash ++ plain)) := by
      cases t <;> simp [isIdent] at hid
      · rename_i p; simp only [locOf] at hl; simp [enc, encPid, hl]
      · simp only [locOf] at hl; subst hl; simp [enc, encPort]
      · simp only [locOf] at hl; subst hl; simp [enc, encRef]
    rw [e] at he
    cases he
    simp [hh]
    omega

mutual
theorem tszX_le_length (cache : List Bytes) (t : Term) (bs : Bytes) (hw : wfX cache t) (he : enc cache t = .ok bs) :
    tszX t ≤ bs.length := by
  match t with
  | .atom a => exact tsz_le_length cache _ bs (by simpa [wfX] using hw) he
  | .int i => exact tsz_le_length cache _ bs (by simpa [wfX] using hw) he
  | .float b => exact tsz_le_length cache _ bs (by simpa [wfX] using hw) he
  | .bin b => exact tsz_le_length cache _ bs (by simpa [wfX] using hw) he
  | .str b => exact tsz_le_length cache _ bs (by simpa [wfX] using hw) he
  | .bits b n => exact tsz_le_length cache _ bs (by simpa [wfX] using hw) he
  | .big neg dg => exact tsz_le_length cache _ bs (by simpa [wfX] using hw) he
  | .nil => exact tsz_le_length cache _ bs (by simpa [wfX] using hw) he
  | .xfun m fn a => exact tsz_le_length cache _ bs (by simpa [wfX] using hw) he
  | .pid p => simpa [tszX] using idTsz_le_length cache (.pid p) bs rfl (by simpa [wfX] using hw) he
  | .port n i c l => simpa [tszX] using idTsz_le_length cache (.port n i c l) bs rfl (by simpa [wfX] using hw) he
  | .ref n c ids l => simpa [tszX] using idTsz_le_length cache (.ref n c ids l) bs rfl (by simpa [wfX] using hw) he
  | .tuple l =>
    simp only [wfX] at hw
    simp only [enc] at he
    cases hl : encL cache l with
    | error e => simp only [hl] at he; (repeat' split at he) <;> simp at he
    | ok lb =>
      have ih := tszXL_le_length cache l lb hw.2 hl
      simp only [hl] at he
      (repeat' split at he) <;> simp at he <;> subst he <;> simp [tszX, be8, be32, beN_length] <;> omega
  | .list l =>
    simp only [wfX] at hw
    simp only [enc] at he
    cases hl : encL cache l with
    | error e =>
      cases l with
      | nil => simp [encL] at hl
      | cons a l' => simp only [hl, List.isEmpty_cons, Bool.false_eq_true, ↓reduceIte] at he; (repeat' split at he) <;> simp at he
    | ok lb =>
      have ih := tszXL_le_length cache l lb hw.2 hl
      cases l with
      | nil => simp at he; subst he; simp [tszX, tszXL]
      | cons a l' =>
        simp only [hl, List.isEmpty_cons, Bool.false_eq_true, ↓reduceIte] at he
        (repeat' split at he) <;> simp at he <;> subst he <;> simp [tszX, be32, beN_length] <;> omega
  | .ilist l tl =>
    simp only [wfX] at hw
    simp only [enc] at he
    split at he
    · simp at he
    · cases hl : encL cache l with
      | error e => simp [hl] at he
      | ok lb =>
        cases ht : enc cache tl with
        | error e => simp [hl, ht] at he
        | ok tb =>
          have ih := tszXL_le_length cache l lb hw.2.1 hl
          have iht := tszX_le_length cache tl tb hw.2.2 ht
          simp [hl, ht] at he; subst he
          simp [tszX, be32, beN_length]; omega
  | .map kvs =>
    simp only [wfX] at hw
    simp only [enc] at he
    split at he
    · simp at he
    · cases hl : encKV cache kvs with
      | error e => simp [hl] at he
      | ok lb =>
        have ih := tszXKV_le_length cache kvs lb hw.2 hl
        simp [hl] at he; subst he
        simp [tszX, be32, beN_length]; omega
  | .ifun a u i nf m oi ou p fr =>
    simp only [wfX] at hw
    obtain ⟨_, _, _, _, _, _, _, _, hp, hfr⟩ := hw
    simp only [enc] at he
    cases hma : encAtom cache m with
    | error e => simp [hma] at he
    | ok mb =>
      cases hpa : encPid cache p with
      | error e => simp [hma, hpa] at he
      | ok pb =>
        cases hfa : encL cache fr with
        | error e => simp [hma, hpa, hfa] at he
        | ok fb =>
          have ih := tszXL_le_length cache fr fb hfr hfa
          have ihp := idTsz_le_length cache (.pid p) pb rfl hp (by rw [enc_pid_eq]; exact hpa)
          simp only [hma, hpa, hfa, Except.ok.injEq] at he
          subst he
          simp [tszX, be32, beN_length]; omega
termination_by sizeOf t
decreasing_by all_goals (simp_wf; try omega)
theorem tszXL_le_length (cache : List Bytes) (l : List Term) (bs : Bytes) (hw : wfXL cache l) (he : encL cache l = .ok bs) :
    tszXL l ≤ bs.length + 1 := by
  match l with
  | [] => simp [tszXL]
  | t :: ts =>
    simp only [wfXL] at hw
    simp only [encL] at he
    cases h1 : enc cache t with
    | error e => simp [h1] at he
    | ok a =>
      cases h2 : encL cache ts with
      | error e => simp [h1, h2] at he
      | ok b =>
        simp [h1, h2] at he; subst he
        have ih1 := tszX_le_length cache t a hw.1 h1
        have ih2 := tszXL_le_length cache ts b hw.2 h2
        have := tszX_pos t
        simp [tszXL]; omega
termination_by sizeOf l
decreasing_by all_goals (simp_wf; try omega)
theorem tszXKV_le_length (cache : List Bytes) (kvs : List (Term × Term)) (bs : Bytes) (hw : wfXKV cache kvs)
    (he : encKV cache kvs = .ok bs) : tszXKV kvs ≤ bs.length + 1 := by
  match kvs with
  | [] => simp [tszXKV]
  | (k, v) :: ts =>
    simp only [wfXKV] at hw
    simp only [encKV] at he
    cases h1 : enc cache k with
    | error e => simp [h1] at he
    | ok a =>
      cases h2 : enc cache v with
      | error e => simp [h1, h2] at he
      | ok b =>
        cases h3 : encKV cache ts with
        | error e => simp [h1, h2, h3] at he
        | ok c =>
          simp [h1, h2, h3] at he; subst he
          have ih1 := tszX_le_length cache k a hw.1 h1
          have ih2 := tszX_le_length cache v b hw.2.1 h2
          have ih3 := tszXKV_le_length cache ts c hw.2.2 h3
          have := tszX_pos k
          have := tszX_pos v
          simp [tszXKV]; omega
termination_by sizeOf kvs
decreasing_by all_goals (simp_wf; try omega)
end

/-- `decode (encode t) = wire t` for terms with node-local identifiers at any depth -/
theorem decode_encode_local (x : Ext) (t : Term) (bs : Bytes) (hw : wfX [] t) (hd : depX t ≤ MAX_NESTING_DEPTH)
    (he : encode t = .ok bs) : decode x bs = .ok (wire t) := by
  unfold encode at he
  cases h : enc [] t with
  | error e => simp [h] at he
  | ok b =>
    simp [h] at he; subst he
    have hl := tszX_le_length [] t b hw h
    have := dec_encX x {} [] (cfgFor_nil _) (by simp) rfl t b [] (b.length + 1 + x.extra) 0 hw (by omega) h (by omega)
    simp only [List.append_nil] at this
    simp [decode, decodeWith, this]

mutual
/-- `wfX` is no stronger than `wfT` where `wfT` applies -/
theorem wfX_of_wfT (cache : List Bytes) : ∀ (t : Term), wfT t = true → wfX cache t
  | .atom _, h | .int _, h | .float _, h | .bin _, h | .bits _ _, h | .str _, h | .big _ _, h | .xfun _ _ _, h
  | .nil, h => by simpa [wfX] using h
  | .pid p, h => by
    have hl : p.loc = none := by simp only [wfT, wfPid, Bool.and_eq_true, Option.isNone_iff_eq_none] at h; exact h.2
    simp only [wfX, locOk, locOf, hl]; exact h
  | .port n i c l, h => by
    have hl : l = none := by simp only [wfT, Bool.and_eq_true, Option.isNone_iff_eq_none] at h; exact h.2
    subst hl; simp only [wfX, locOk, locOf]; exact h
  | .ref n c ids l, h => by
    have hl : l = none := by simp only [wfT, Bool.and_eq_true, Option.isNone_iff_eq_none] at h; exact h.2
    subst hl; simp only [wfX, locOk, locOf]; exact h
  | .tuple l, h => by
    simp only [wfT, Bool.and_eq_true, decide_eq_true_eq] at h
    simp only [wfX]; exact ⟨h.1, wfXL_of_wfL cache l h.2⟩
  | .list l, h => by
    simp only [wfT, Bool.and_eq_true, decide_eq_true_eq] at h
    simp only [wfX]; exact ⟨h.1, wfXL_of_wfL cache l h.2⟩
  | .ilist l t, h => by
    simp only [wfT, Bool.and_eq_true, decide_eq_true_eq] at h
    simp only [wfX]; exact ⟨h.1.1, wfXL_of_wfL cache l h.1.2, wfX_of_wfT cache t h.2⟩
  | .map kvs, h => by
    simp only [wfT, Bool.and_eq_true, decide_eq_true_eq] at h
    simp only [wfX]; exact ⟨h.1, wfXKV_of_wfKV cache kvs h.2⟩
  | .ifun a u i nf m oi ou p fr, h => by
    simp only [wfT, Bool.and_eq_true, decide_eq_true_eq] at h
    obtain ⟨⟨⟨⟨⟨⟨⟨⟨⟨ha, hu⟩, hi⟩, hnf⟩, hnf32⟩, hm⟩, hoi⟩, hou⟩, hp⟩, hfr⟩ := h
    have hl : p.loc = none := by simp only [wfPid, Bool.and_eq_true, Option.isNone_iff_eq_none] at hp; exact hp.2
    simp only [wfX]
    refine ⟨ha, hu, hi, hnf, hnf32, hm, hoi, hou, ?_, wfXL_of_wfL cache fr hfr⟩
    simp only [locOk, locOf, hl, wfT]; exact hp
theorem wfXL_of_wfL (cache : List Bytes) : ∀ (l : List Term), wfL l = true → wfXL cache l
  | [], _ => by simp [wfXL]
  | t :: ts, h => by
    simp only [wfL, Bool.and_eq_true] at h
    simp only [wfXL]; exact ⟨wfX_of_wfT cache t h.1, wfXL_of_wfL cache ts h.2⟩
theorem wfXKV_of_wfKV (cache : List Bytes) : ∀ (l : List (Term × Term)), wfKV l = true → wfXKV cache l
  | [], _ => by simp [wfXKV]
  | (k, v) :: r, h => by
    simp only [wfKV, Bool.and_eq_true] at h
    simp only [wfXKV]; exact ⟨wfX_of_wfT cache k h.1.1, wfX_of_wfT cache v h.1.2, wfXKV_of_wfKV cache r h.2⟩
end

end Edp
