import EdpVerif.Impl.Recv
import EdpVerif.Spec.Peer
import EdpVerif.Lemmas.Codec
import EdpVerif.Lemmas.Control
import EdpVerif.Lemmas.Frag
import EdpVerif.Lemmas.DecNoPanic
import EdpVerif.Lemmas.RecvHeader
/-! Helper lemmas and vocabulary for C06 (the receive path, `Impl/Recv.lean`). -/
namespace Edp.Recv
open Edp Edp.Spec.Peer

/-! ### vocabulary of the theorems -/

/-- the table `ATOM_CACHE_REF` reads (`AtomCache::get`): header position ↦ atom (`DistHeader.Cache.atoms`, `DecCfg.cache`) -/
abbrev PosTable := List (Nat × Bytes)

/-- the term decoder reads the bytes `bs` as the term `t` under atom table `c` at nesting depth `d`, wherever they stand:
whatever follows them is handed back, any sufficient fuel will do. This is what C01/C03 establish for the output of an
encoder; C06 takes it as the meaning of "`bs` are the bytes of `t`". -/
def ReadsAt (x : Ext) (c : PosTable) (d : Nat) (bs : Bytes) (t : Term) : Prop :=
  ∀ (r : Bytes) (fuel : Nat), bs.length + r.length < fuel → dec x { cache := c } fuel d (bs ++ r) = .ok (t, r)

abbrev Reads (x : Ext) (c : PosTable) (bs : Bytes) (t : Term) : Prop := ReadsAt x c 0 bs t

/-- a message as the peer means it: the control tuple `ct` (bytes `cb`), which the library presents as `msg`, and
optionally a payload term `p` (bytes `pb`) -/
structure Sent where
  cb : Bytes
  ct : Term
  msg : Control.Msg
  pay : Option (Bytes × Term)

def Sent.wire (m : Sent) : Wire := { ctl := m.cb, pay := m.pay.map (·.1) }

/-- what the receiving API has to return for it -/
def Sent.expected (m : Sent) : Res := .ok m.msg (m.pay.map (·.2))

/-- the bytes are the terms' bytes under cache `c`, and the control tuple is the control message -/
structure Sent.Conforms (x : Ext) (tbl : Control.Table) (c : PosTable) (m : Sent) : Prop where
  ctl : Reads x c m.cb m.ct
  pay : ∀ pb p, m.pay = some (pb, p) → Reads x c pb p
  parse : Control.parse tbl m.ct = .ok m.msg

/-- the term decoder never reaches its panic site (`&rest[consumed..]` after inflating); see `noDecPanic_of_inflate` -/
def NoDecPanic (x : Ext) : Prop := ∀ (cfg : DecCfg) (fuel d : Nat) (bs : Bytes), dec x cfg fuel d bs ≠ .error .panic

/-- the result of a frame does not depend on the connection's state (nor on the clock) -/
def SelfContained (x : Ext) (tbl : Control.Table) (f : Bytes) : Prop :=
  ∀ (now now' : Nat) (s s' : St), (recv x tbl now s f).2 = (recv x tbl now' s' f).2

/-- the clock never runs backwards along a history -/
def Mono (tfs : List TFrame) : Prop := tfs.Pairwise (fun a b => a.1 ≤ b.1)

/-- the bodies of a timed history -/
abbrev bodies (tfs : List TFrame) : List Bytes := tfs.map (·.2)

/-- all frames read at the same instant (the driver's histories) -/
def atTime (now : Nat) (fs : List Bytes) : List TFrame := fs.map fun f => (now, f)

/-! ### ticks, `cutPanic`, the clock -/

theorem recv_tick (x : Ext) (tbl : Control.Table) (now : Nat) (s : St) : recv x tbl now s [] = (expire now s, none) := rfl

theorem cutPanic_map_expected (l : List Sent) : cutPanic (l.map Sent.expected) = l.map Sent.expected := by
  induction l with
  | nil => rfl
  | cons m ms ih => simp [Sent.expected, cutPanic, ih]

theorem outs_append (x : Ext) (tbl : Control.Table) (a b : List TFrame) : ∀ s,
    outs x tbl s (a ++ b) = outs x tbl s a ++ outs x tbl (after x tbl s a) b := by
  induction a with
  | nil => intro s; simp [outs, after]
  | cons f fs ih => intro s; simp [outs, after, ih]

theorem isExpired_mono (m : Frag.FragMsg) (t t' timeout : Nat) (h : t ≤ t') (he : m.isExpired t timeout = true) :
    m.isExpired t' timeout = true := by
  simp only [Frag.FragMsg.isExpired, decide_eq_true_eq] at he ⊢
  omega

/-- what an earlier `cleanup_expired` dropped, a later one drops too -/
theorem expire_expire (t t' : Nat) (s : St) (h : t ≤ t') : expire t' (expire t s) = expire t' s := by
  simp only [expire, Frag.Assembler.cleanupExpired, List.filter_filter]
  congr 2
  apply List.filter_congr
  intro p _
  by_cases he : p.2.isExpired t s.asm.timeout = true
  · simp [isExpired_mono p.2 t t' s.asm.timeout h he]
  · simp [he]

theorem recv_expire (x : Ext) (tbl : Control.Table) (t t' : Nat) (s : St) (f : Bytes) (h : t ≤ t') :
    recv x tbl t' (expire t s) f = recv x tbl t' s f := by
  simp only [recv, expire_expire t t' s h]

theorem outs_expire (x : Ext) (tbl : Control.Table) (t : Nat) (s : St) (l : List TFrame) (h : ∀ f ∈ l, t ≤ f.1) :
    outs x tbl (expire t s) l = outs x tbl s l := by
  cases l with
  | nil => rfl
  | cons f fs => simp only [outs, recv_expire x tbl t f.1 s f.2 (h f (by simp))]

theorem expire_cache (now : Nat) (s : St) : (expire now s).cache = s.cache := rfl

theorem lookup_filter_none (q : Nat) (f : Nat × Frag.FragMsg → Bool) : ∀ (l : Frag.PMap), Frag.lookup q l = none →
    Frag.lookup q (l.filter f) = none := by
  intro l
  induction l with
  | nil => intro _; rfl
  | cons p r ih =>
    intro h
    obtain ⟨k, m⟩ := p
    by_cases hk : k = q
    · simp [Frag.lookup, hk] at h
    · simp only [Frag.lookup, hk, ↓reduceIte] at h
      by_cases hf : f (k, m) = true
      · simp [List.filter_cons, hf, Frag.lookup, hk, ih h]
      · simp [List.filter_cons, hf, ih h]

/-- a sequence id the assembler holds nothing for: still nothing after `cleanup_expired` -/
theorem lookup_expire_none (now : Nat) (s : St) (q : Nat) (h : Frag.lookup q s.asm.pending = none) :
    Frag.lookup q (expire now s).asm.pending = none := by
  simp only [expire, Frag.Assembler.cleanupExpired]
  exact lookup_filter_none q _ _ h

/-! ### pass-through -/

theorem decodeTrailing_reads (x : Ext) (bs r : Bytes) (t : Term) (h : Reads x [] bs t) :
    decodeTrailing x (131 :: (bs ++ r)) = .ok (t, r) := by
  have := h r (fuelFor x (131 :: (bs ++ r))) (by simp [fuelFor]; omega)
  simp only [decodeTrailing]
  simpa using this

theorem dispatch_passThrough (x : Ext) (tbl : Control.Table) (now : Nat) (s : St) (m : Sent) (h : m.Conforms x tbl []) :
    dispatch x tbl now s (Spec.Peer.passThrough m.wire) = (s, some m.expected) := by
  obtain ⟨hc, hp, hparse⟩ := h
  cases hpay : m.pay with
  | none =>
    have e := decodeTrailing_reads x m.cb [] m.ct hc
    simp only [List.append_nil] at e
    simp [Spec.Peer.passThrough, dispatch, Sent.wire, hpay, passThroughBody, e, finish, hparse, Sent.expected]
  | some pp =>
    obtain ⟨pb, p⟩ := pp
    have e := decodeTrailing_reads x m.cb (131 :: pb) m.ct hc
    have e2 := decodeTrailing_reads x pb [] p (hp pb p hpay)
    simp only [List.append_nil] at e2
    simp [Spec.Peer.passThrough, dispatch, Sent.wire, hpay, passThroughBody, e, e2, finish, hparse, Sent.expected]

theorem recv_passThrough (x : Ext) (tbl : Control.Table) (now : Nat) (s : St) (m : Sent) (h : m.Conforms x tbl []) :
    recv x tbl now s (Spec.Peer.passThrough m.wire) = (expire now s, some m.expected) :=
  dispatch_passThrough x tbl now _ m h

/-! ### ticks anywhere -/

theorem isTick_nil : isTick ([] : Bytes) = true := rfl
theorem isTick_cons (a : UInt8) (r : Bytes) : isTick (a :: r) = false := rfl

/-- the frames of a timed history that are no ticks -/
def noTicks (tfs : List TFrame) : List TFrame := tfs.filter (fun f => !isTick f.2)

theorem bodies_noTicks (tfs : List TFrame) : bodies (noTicks tfs) = (bodies tfs).filter (fun f => !isTick f) := by
  induction tfs with
  | nil => rfl
  | cons f fs ih =>
    by_cases h : isTick f.2 = true
    · simp only [noTicks, bodies] at ih ⊢
      simp [List.filter_cons, h, ih]
    · simp only [noTicks, bodies] at ih ⊢
      simp [List.filter_cons, h, ih]

theorem outs_ticks (x : Ext) (tbl : Control.Table) (tfs : List TFrame) (hm : Mono tfs) : ∀ s,
    (outs x tbl s tfs).filterMap id = (outs x tbl s (noTicks tfs)).filterMap id := by
  induction tfs with
  | nil => intro s; rfl
  | cons f fs ih =>
    intro s
    obtain ⟨t, body⟩ := f
    have hm' : Mono fs := (List.pairwise_cons.mp hm).2
    have hle : ∀ g ∈ fs, t ≤ g.1 := (List.pairwise_cons.mp hm).1
    cases body with
    | nil =>
      have e : noTicks ((t, []) :: fs) = noTicks fs := by simp [noTicks, List.filter_cons, isTick_nil]
      rw [e]
      simp only [outs, recv_tick]
      rw [List.filterMap_cons]
      simp only [id_eq]
      rw [ih hm' (expire t s)]
      rw [outs_expire x tbl t s (noTicks fs) (fun g hg => hle g (List.mem_filter.mp hg).1)]
    | cons a r =>
      have e : noTicks ((t, a :: r) :: fs) = (t, a :: r) :: noTicks fs := by simp [noTicks, List.filter_cons, isTick_cons]
      rw [e]
      simp only [outs]
      rw [List.filterMap_cons, List.filterMap_cons, ih hm']

theorem recvAll_ticks (x : Ext) (tbl : Control.Table) (s : St) (tfs : List TFrame) (hm : Mono tfs) :
    recvAll x tbl s tfs = recvAll x tbl s (noTicks tfs) := by
  simp only [recvAll, outs_ticks x tbl tfs hm s]

theorem recvRH_tick (x : Ext) (tbl : Control.Table) : recvRH x tbl [] = none := rfl

theorem recvAllRH_ticks (x : Ext) (tbl : Control.Table) (fs : List Bytes) :
    recvAllRH x tbl fs = recvAllRH x tbl (fs.filter (fun f => !isTick f)) := by
  simp only [recvAllRH]
  congr 1
  induction fs with
  | nil => rfl
  | cons f fs ih =>
    cases f with
    | nil =>
      rw [List.filter_cons]
      simp only [isTick_nil, Bool.not_true, Bool.false_eq_true, ↓reduceIte]
      rw [List.filterMap_cons, recvRH_tick]
      exact ih
    | cons a r =>
      rw [List.filter_cons]
      simp only [isTick_cons, Bool.not_false, ↓reduceIte]
      rw [List.filterMap_cons, List.filterMap_cons, ih]

/-! ### histories of pass-through messages -/

/-- splitting a history with ticks at its first frame: a tick leaves the expected frame list alone, any other frame is
its head -/
theorem withTicks_cons {t : Nat} {f : Bytes} {rest : List TFrame} {frames : List Bytes}
    (h : WithTicks (bodies ((t, f) :: rest)) frames) :
    (f = [] ∧ WithTicks (bodies rest) frames) ∨ (f ≠ [] ∧ ∃ fr, frames = f :: fr ∧ WithTicks (bodies rest) fr) := by
  cases f with
  | nil =>
    left
    refine ⟨rfl, ?_⟩
    simpa [WithTicks, bodies, List.filter_cons, isTick_nil] using h
  | cons a r =>
    right
    refine ⟨by simp, ?_⟩
    simp only [WithTicks, bodies, List.map_cons, List.filter_cons, isTick_cons, Bool.not_false, ↓reduceIte] at h
    exact ⟨_, h.symm, rfl⟩

theorem filterMap_outs_passThrough (x : Ext) (tbl : Control.Table) (tfs : List TFrame) : ∀ (msgs : List Sent) (s : St),
    (∀ m ∈ msgs, m.Conforms x tbl []) → WithTicks (bodies tfs) (msgs.map fun m => Spec.Peer.passThrough m.wire) →
    (outs x tbl s tfs).filterMap id = msgs.map Sent.expected := by
  induction tfs with
  | nil =>
    intro msgs s _ hw
    have : msgs = [] := by simpa [WithTicks, bodies] using hw.symm
    subst this; rfl
  | cons tf rest ih =>
    intro msgs s hc hw
    obtain ⟨t, f⟩ := tf
    rcases withTicks_cons hw with ⟨rfl, hw'⟩ | ⟨_, fr, hfr, hw'⟩
    · simp only [outs, recv_tick]
      rw [List.filterMap_cons]
      exact ih msgs _ hc hw'
    · cases msgs with
      | nil => simp at hfr
      | cons m ms =>
        simp only [List.map_cons, List.cons.injEq] at hfr
        obtain ⟨rfl, rfl⟩ := hfr
        simp only [outs, recv_passThrough x tbl t s m (hc m (by simp))]
        rw [List.filterMap_cons]
        simp only [id_eq, List.map_cons]
        rw [ih ms _ (fun m' hm' => hc m' (by simp [hm'])) hw']

theorem recvRH_passThrough (x : Ext) (tbl : Control.Table) (m : Sent) (h : m.Conforms x tbl []) :
    recvRH x tbl (Spec.Peer.passThrough m.wire) = some m.expected := by
  obtain ⟨hc, hp, hparse⟩ := h
  cases hpay : m.pay with
  | none =>
    have e := decodeTrailing_reads x m.cb [] m.ct hc
    simp only [List.append_nil] at e
    simp [Spec.Peer.passThrough, recvRH, Sent.wire, hpay, e, hparse, Sent.expected]
  | some pp =>
    obtain ⟨pb, p⟩ := pp
    have e := decodeTrailing_reads x m.cb (131 :: pb) m.ct hc
    have e2 := decodeTrailing_reads x pb [] p (hp pb p hpay)
    simp only [List.append_nil] at e2
    simp [Spec.Peer.passThrough, recvRH, Sent.wire, hpay, e, e2, hparse, Sent.expected]

theorem filterMap_some_map {α β : Type} (f : α → β) (l : List α) : (l.map fun a => some (f a)).filterMap id = l.map f := by
  induction l with
  | nil => rfl
  | cons a l ih => simp [ih]

theorem filterMap_recvRH_passThrough (x : Ext) (tbl : Control.Table) (msgs : List Sent) (h : ∀ m ∈ msgs, m.Conforms x tbl []) :
    (msgs.map fun m => Spec.Peer.passThrough m.wire).filterMap (recvRH x tbl) = msgs.map Sent.expected := by
  induction msgs with
  | nil => rfl
  | cons m ms ih =>
    simp only [List.map_cons, List.filterMap_cons, recvRH_passThrough x tbl m (h m (by simp))]
    rw [ih (fun m' hm' => h m' (by simp [hm']))]

/-! ### frames whose result does not depend on the state; isolation -/

theorem dispatch_112 (x : Ext) (tbl : Control.Table) (now : Nat) (s : St) (r : Bytes) :
    dispatch x tbl now s (112 :: r) = (s, some (passThroughBody x tbl r)) := by
  cases r with
  | nil => simp [dispatch]
  | cons b rest => simp [dispatch]

theorem recv_112 (x : Ext) (tbl : Control.Table) (now : Nat) (s : St) (r : Bytes) :
    recv x tbl now s (112 :: r) = (expire now s, some (passThroughBody x tbl r)) :=
  dispatch_112 x tbl now _ r

theorem selfContained_tick (x : Ext) (tbl : Control.Table) : SelfContained x tbl [] := fun _ _ _ _ => rfl

theorem selfContained_112 (x : Ext) (tbl : Control.Table) (r : Bytes) : SelfContained x tbl (112 :: r) := by
  intro now now' s s'; simp [recv_112]

/-- what later self-contained frames return does not depend on the state they start from -/
theorem outs_selfContained (x : Ext) (tbl : Control.Table) (g : List TFrame) (h : ∀ f ∈ g, SelfContained x tbl f.2) :
    ∀ s s' : St, outs x tbl s g = outs x tbl s' g := by
  induction g with
  | nil => intro s s'; rfl
  | cons f fs ih =>
    intro s s'
    simp only [outs]
    rw [h f (by simp) f.1 f.1 s s', ih (fun f' hf' => h f' (by simp [hf'])) (recv x tbl f.1 s f.2).1 (recv x tbl f.1 s' f.2).1]

theorem outs_insert (x : Ext) (tbl : Control.Table) (s : St) (g1 g2 : List TFrame) (junk : TFrame)
    (h2 : ∀ f ∈ g2, SelfContained x tbl f.2) :
    outs x tbl s (g1 ++ junk :: g2) =
      outs x tbl s g1 ++ (recv x tbl junk.1 (after x tbl s g1) junk.2).2 :: outs x tbl (after x tbl s g1) g2 := by
  rw [outs_append]
  simp only [outs]
  rw [outs_selfContained x tbl g2 h2 (recv x tbl junk.1 (after x tbl s g1) junk.2).1 (after x tbl s g1)]

/-! ### no panic -/

theorem rdU_ne_panic (k : Nat) (bs : Bytes) : rdU k bs ≠ .error .panic := by
  unfold rdU; split <;> simp

theorem takeE_ne_panic (k : Nat) (bs : Bytes) : takeE k bs ≠ .error .panic := by
  unfold takeE; split <;> simp

theorem rdU_err {k : Nat} {bs : Bytes} {e : DErr} (h : rdU k bs = .error e) : e = .err := by
  unfold rdU at h; split at h <;> simp at h; exact h.symm

theorem takeE_err {k : Nat} {bs : Bytes} {e : DErr} (h : takeE k bs = .error e) : e = .err := by
  unfold takeE at h; split at h <;> simp at h; exact h.symm

theorem resOfDErr_ne_panic {e : DErr} (h : e ≠ .panic) : resOfDErr e ≠ .panic := by
  cases e <;> simp_all [resOfDErr]

theorem resOfDErr_panic_iff {e : DErr} : resOfDErr e = .panic ↔ e = .panic := by
  cases e <;> simp [resOfDErr]

theorem finish_ne_panic {tbl : Control.Table} (htbl : Control.TableOK tbl) (ct : Term) (p : Option Term) :
    finish tbl ct p ≠ .panic := by
  have := Control.no_panic htbl ct
  unfold finish
  split <;> simp_all

theorem decode_ne_panic {x : Ext} (hx : NoDecPanic x) (data : Bytes) : decode x data ≠ .error .panic := by
  unfold decode decodeWith
  split
  · simp
  · split
    · simp
    · split
      · rename_i e he; intro h; simp at h; exact hx _ _ _ _ (h ▸ he)
      · simp
      · simp

theorem decodeTrailing_ne_panic {x : Ext} (hx : NoDecPanic x) (data : Bytes) : decodeTrailing x data ≠ .error .panic := by
  unfold decodeTrailing
  split
  · simp
  · split
    · simp
    · exact hx _ _ _ _

theorem decodeWithAtomCache_ne_panic {x : Ext} (hx : NoDecPanic x) (c : Cache) (data : Bytes) :
    (DistHeader.decodeWithAtomCache x c data).2 ≠ .error .panic :=
  DistHeader.decodeWithAtomCache_np x hx c data

theorem decodeFragmentHeader_err {data : Bytes} {e : DErr} (h : decodeFragmentHeader data = .error e) : e = .err := by
  unfold decodeFragmentHeader at h
  split at h
  · split at h
    · simp at h; exact h.symm
    · split at h
      · simp at h; exact h.symm
      · split at h
        · rename_i e1 h1; simp at h; subst h; exact rdU_err h1
        · split at h
          · rename_i e1 h1; simp at h; subst h; exact rdU_err h1
          · split at h
            · rename_i e1 h1; simp at h; subst h; exact rdU_err h1
            · simp at h
  · simp at h; exact h.symm

theorem decodeFragmentCont_err {data : Bytes} {e : DErr} (h : decodeFragmentCont data = .error e) : e = .err := by
  unfold decodeFragmentCont at h
  split at h
  · split at h
    · simp at h; exact h.symm
    · split at h
      · simp at h; exact h.symm
      · split at h
        · rename_i e1 h1; simp at h; subst h; exact rdU_err h1
        · split at h
          · rename_i e1 h1; simp at h; subst h; exact rdU_err h1
          · simp at h
  · simp at h; exact h.symm

theorem finishE_ne_panic {tbl : Control.Table} (htbl : Control.TableOK tbl) (r : Except DErr (Term × Option Term))
    (h : r ≠ .error .panic) : finishE tbl r ≠ .panic := by
  unfold finishE
  split
  · rename_i e; exact resOfDErr_ne_panic (fun he => h (by rw [he]))
  · exact finish_ne_panic htbl _ _

theorem plainTerm_ne_panic {x : Ext} (hx : NoDecPanic x) (data : Bytes) : plainTerm x data ≠ .error .panic := by
  have hd := decode_ne_panic hx data
  unfold plainTerm
  split
  · rename_i e he; intro h; simp at h; subst h; exact hd he
  · simp

theorem decodeCompleteFragment_ne_panic {x : Ext} (hx : NoDecPanic x) {tbl : Control.Table} (htbl : Control.TableOK tbl)
    (c : Cache) (data : Bytes) : (decodeCompleteFragment x tbl c data).2 ≠ .panic := by
  unfold decodeCompleteFragment
  split
  · split
    · exact finishE_ne_panic htbl _ (decodeWithAtomCache_ne_panic hx c _)
    · exact finishE_ne_panic htbl _ (plainTerm_ne_panic hx _)
  · exact finishE_ne_panic htbl _ (plainTerm_ne_panic hx _)

theorem passThroughBody_ne_panic {x : Ext} (hx : NoDecPanic x) {tbl : Control.Table} (htbl : Control.TableOK tbl)
    (r : Bytes) : passThroughBody x tbl r ≠ .panic := by
  unfold passThroughBody
  split
  · rename_i e he; have := decodeTrailing_ne_panic hx r; rw [he] at this; exact resOfDErr_ne_panic (by simpa using this)
  · exact finish_ne_panic htbl _ _
  · rename_i ct remaining _ _
    split
    · rename_i e he; have := decodeTrailing_ne_panic hx remaining; rw [he] at this; exact resOfDErr_ne_panic (by simpa using this)
    · exact finish_ne_panic htbl _ _
    · simp

theorem deliver_ne_panic {x : Ext} (hx : NoDecPanic x) {tbl : Control.Table} (htbl : Control.TableOK tbl) (s : St)
    (r : Frag.Assembler × Option Bytes) : (deliver x tbl s r).2 ≠ some .panic := by
  unfold deliver
  split
  · simpa using decodeCompleteFragment_ne_panic hx htbl _ _
  · simp

theorem dispatch_ne_panic {x : Ext} (hx : NoDecPanic x) {tbl : Control.Table} (htbl : Control.TableOK tbl) (now : Nat) (s : St)
    (data : Bytes) : (dispatch x tbl now s data).2 ≠ some .panic := by
  unfold dispatch
  split
  · simp
  · split
    · simpa using passThroughBody_ne_panic hx htbl []
    · simp
  · split
    · unfold recvFragHeader
      split
      · rename_i e he; have := decodeFragmentHeader_err he; subst this; simp [resOfDErr]
      · split
        · simp
        · exact deliver_ne_panic hx htbl _ _
    · split
      · unfold recvFragCont
        split
        · rename_i e he; have := decodeFragmentCont_err he; subst this; simp [resOfDErr]
        · split
          · simp
          · exact deliver_ne_panic hx htbl _ _
      · split
        · simpa using passThroughBody_ne_panic hx htbl _
        · split
          · unfold recvHeader
            simpa using finishE_ne_panic htbl _ (decodeWithAtomCache_ne_panic hx s.cache _)
          · simp

theorem recv_ne_panic {x : Ext} (hx : NoDecPanic x) {tbl : Control.Table} (htbl : Control.TableOK tbl) (now : Nat) (s : St)
    (data : Bytes) : (recv x tbl now s data).2 ≠ some .panic :=
  dispatch_ne_panic hx htbl now _ data

theorem recvRH_ne_panic {x : Ext} (hx : NoDecPanic x) {tbl : Control.Table} (htbl : Control.TableOK tbl) (data : Bytes) :
    recvRH x tbl data ≠ some .panic := by
  unfold recvRH
  split
  · simp
  · split
    · simp
    · split
      · rename_i e he; intro h; simp [resOfDErr_panic_iff] at h; subst h; exact decodeTrailing_ne_panic hx _ he
      · split
        · simp
        · rename_i hp; exact absurd hp (Control.no_panic htbl _)
        · split
          · simp
          · split
            · rename_i e he; intro h; simp [resOfDErr_panic_iff] at h; subst h; exact decodeTrailing_ne_panic hx _ he
            · simp
            · simp

/-- the contract of the inflater (`flate2`'s `total_in` never exceeds the input) is all `NoDecPanic` needs -/
theorem noDecPanic_of_inflate (x : Ext) (hx : ∀ z out n, x.inflate z = some (out, n) → n ≤ z.length) : NoDecPanic x :=
  fun cfg fuel d bs => dec_never_panics x hx cfg fuel d bs

/-! ### a message sent as ONE fragment -/

theorem rdU_one (b : UInt8) (r : Bytes) : rdU 1 (b :: r) = .ok (b.toNat, r) := by
  simp [rdU, rdN]

theorem decodeFragmentHeader_ok (seq fid : Nat) (nb : UInt8) (rest : Bytes) (hs : seq < 2 ^ 64) (hf : fid < 2 ^ 64) :
    decodeFragmentHeader (131 :: 69 :: (be64 seq ++ be64 fid ++ nb :: rest)) = .ok ((seq, fid, nb.toNat), rest) := by
  simp only [decodeFragmentHeader, List.append_assoc]
  rw [rdU_be64 seq _ (by simpa using hs)]
  simp only
  rw [rdU_be64 fid _ (by simpa using hf)]
  simp [rdU_one]

theorem decodeFragmentCont_ok (seq fid : Nat) (rest : Bytes) (hs : seq < 2 ^ 64) (hf : fid < 2 ^ 64) :
    decodeFragmentCont (131 :: 70 :: (be64 seq ++ be64 fid ++ rest)) = .ok ((seq, fid), rest) := by
  simp only [decodeFragmentCont, List.append_assoc]
  rw [rdU_be64 seq _ (by simpa using hs)]
  simp only
  rw [rdU_be64 fid _ (by simpa using hf)]
  simp

theorem startFragment_single (a : Frag.Assembler) (now seq : Nat) (data : Bytes) (h0 : Frag.lookup seq a.pending = none) :
    a.startFragment now seq 1 none data = (a, some data) := by
  simp [Frag.Assembler.startFragment, h0, Frag.MAX_FRAGMENT_COUNT, Frag.FragMsg.new, Frag.MAX_FRAGMENTS_VEC,
    Frag.FragMsg.addFragment, Frag.FragMsg.place, Frag.FragMsg.isComplete, Frag.FragMsg.reassemble]

theorem decodeCompleteFragment_header (x : Ext) (tbl : Control.Table) (c : Cache) (r : Bytes) :
    decodeCompleteFragment x tbl c (131 :: 68 :: r) =
      ((DistHeader.decodeWithAtomCache x c (131 :: 68 :: r)).1, finishE tbl (DistHeader.decodeWithAtomCache x c (131 :: 68 :: r)).2) := by
  simp [decodeCompleteFragment]

theorem dispatch_header_frame (x : Ext) (tbl : Control.Table) (now : Nat) (s : St) (r : Bytes) :
    dispatch x tbl now s (131 :: 68 :: r) = recvHeader x tbl s (131 :: 68 :: r) := by
  simp [dispatch]

theorem recv_header_frame (x : Ext) (tbl : Control.Table) (now : Nat) (s : St) (r : Bytes) :
    recv x tbl now s (131 :: 68 :: r) = recvHeader x tbl (expire now s) (131 :: 68 :: r) :=
  dispatch_header_frame x tbl now _ r

theorem dispatch_single_fragment (x : Ext) (tbl : Control.Table) (now : Nat) (s : St) (seq : Nat) (nb : UInt8) (rest : Bytes)
    (hs : seq < 2 ^ 64) (h0 : Frag.lookup seq s.asm.pending = none) :
    dispatch x tbl now s (131 :: 69 :: (be64 seq ++ be64 1 ++ nb :: rest)) = dispatch x tbl now s (131 :: 68 :: nb :: rest) := by
  rw [dispatch_header_frame]
  have e1 : dispatch x tbl now s (131 :: 69 :: (be64 seq ++ be64 1 ++ nb :: rest)) =
      recvFragHeader x tbl now s (131 :: 69 :: (be64 seq ++ be64 1 ++ nb :: rest)) := by simp [dispatch]
  rw [e1, recvFragHeader, decodeFragmentHeader_ok seq 1 nb rest hs (by omega)]
  simp only [Nat.one_ne_zero, ↓reduceIte, UInt8.ofNat_toNat]
  rw [startFragment_single _ _ _ _ h0]
  simp only [deliver, recvHeader, decodeCompleteFragment_header]

/-- a message in one fragment is handled exactly like the same message without fragmentation -/
theorem recv_single_fragment (x : Ext) (tbl : Control.Table) (now : Nat) (s : St) (seq : Nat) (nb : UInt8) (rest : Bytes)
    (hs : seq < 2 ^ 64) (h0 : Frag.lookup seq s.asm.pending = none) :
    recv x tbl now s (131 :: 69 :: (be64 seq ++ be64 1 ++ nb :: rest)) = recv x tbl now s (131 :: 68 :: nb :: rest) :=
  dispatch_single_fragment x tbl now _ seq nb rest hs (lookup_expire_none now s seq h0)

/-! ### messages of a conforming sender with an atom cache (the sender of `Spec/DistHeader.lean`, property C14) -/

section cached
open Edp.Spec.DistHeader Edp.DistHeader Edp.Props.C14

/-- the table `ATOM_CACHE_REF` reads holds the atoms of these references at their positions -/
def Holds (c : PosTable) (es : List Entry) : Prop := ∀ j (hj : j < es.length), c.lookup j = some es[j].atom

/-- a message as a conforming sender with an atom cache means it: the control message and payload, the LongAtoms flag it
chose, and its references — new entries (with text), references to entries the receiver already holds, overwrites, in any
segment and at any internal index -/
structure CSent where
  m : Sent
  long : Bool
  es : List Entry

/-- `N, flags, refs…` -/
def CSent.header (h : CSent) : Bytes := sendHeader h.long h.es

/-- the whole message in one `131, 68` frame -/
def CSent.frame (h : CSent) : Bytes := withHeader h.header h.m.wire

/-- the whole message as the only fragment of sequence `seq`: `131, 69, seq, 1, N, flags, refs…, terms` -/
def CSent.single (h : CSent) (seq : Nat) : Bytes := fragFirst seq 1 h.header h.m.wire.terms

/-- the message as C14 sees it -/
def CSent.c14 (h : CSent) : Props.C14.Msg := (h.long, h.es, h.m.wire.terms)

/-- the terms' bytes read as the terms under every table that holds the header's atoms at their positions, and the
control tuple is the control message -/
def CSent.TermsConform (x : Ext) (tbl : Control.Table) (h : CSent) : Prop := ∀ c, Holds c h.es → h.m.Conforms x tbl c

/-- how a message is put on the wire without being cut -/
inductive Framing where
  | whole
  | single (seq : Nat)

def CSent.framed (h : CSent) : Framing → Bytes
  | .whole => h.frame
  | .single seq => h.single seq

/-- the sequence ids the single-fragment messages use are 64-bit and the assembler holds nothing for them -/
def SeqsFree (a : Frag.Assembler) (hs : List (CSent × Framing)) : Prop :=
  ∀ p ∈ hs, ∀ seq, p.2 = .single seq → seq < 2 ^ 64 ∧ Frag.lookup seq a.pending = none

theorem reads_nonempty {x : Ext} {c : PosTable} {bs : Bytes} {t : Term} (h : Reads x c bs t) : bs ≠ [] := by
  intro e
  subst e
  have := h [] 1 (by simp)
  simp [dec] at this

theorem sendHeader_cons (long : Bool) (es : List Entry) : ∃ nb rest, sendHeader long es = nb :: rest := by
  unfold sendHeader
  split
  · exact ⟨0, [], rfl⟩
  · exact ⟨_, _, rfl⟩

/-- `decode_with_atom_cache` on a message whose header the parser resolves position by position to the sender's atoms -/
theorem decodeWithAtomCache_resolved (x : Ext) (tbl : Control.Table) (c : Cache) (h : CSent)
    (h1 : (parseHeader c (h.header ++ h.m.wire.terms)).2 = .ok h.m.wire.terms)
    (h2 : Holds (parseHeader c (h.header ++ h.m.wire.terms)).1.atoms h.es)
    (ht : h.TermsConform x tbl) :
    DistHeader.decodeWithAtomCache x c h.frame =
      ((parseHeader c (h.header ++ h.m.wire.terms)).1, .ok (h.m.ct, h.m.pay.map (·.2))) := by
  obtain ⟨hctl, hpay, _⟩ := ht _ h2
  obtain ⟨c1, hc1⟩ : ∃ c1, (parseHeader c (h.header ++ h.m.wire.terms)).1 = c1 := ⟨_, rfl⟩
  have hp : parseHeader c (h.header ++ h.m.wire.terms) = (c1, .ok h.m.wire.terms) := by
    rw [← hc1, ← h1]
  rw [hc1] at hctl hpay ⊢
  have h131 : ((131 : UInt8) != 131) = false := by decide
  have h68 : ((68 : UInt8) == 68) = true := by decide
  simp only [CSent.frame, withHeader, DistHeader.decodeWithAtomCache, h131, Bool.false_eq_true, ↓reduceIte, h68, hp]
  have hbig : h.m.wire.terms.length < (131 :: 68 :: (h.header ++ h.m.wire.terms)).length + 1 + x.extra := by
    simp only [List.length_cons, List.length_append]; omega
  generalize (131 :: 68 :: (h.header ++ h.m.wire.terms)).length + 1 + x.extra = fuel at hbig ⊢
  cases hpy : h.m.pay with
  | none =>
    have e : h.m.wire.terms = h.m.cb := by simp [Wire.terms, Sent.wire, hpy]
    rw [e] at hbig ⊢
    have := hctl [] fuel (by simpa using hbig)
    simp only [List.append_nil] at this
    simp [this]
  | some pp =>
    obtain ⟨pb, p⟩ := pp
    have hrp := hpay pb p hpy
    have hne := reads_nonempty hrp
    have e : h.m.wire.terms = h.m.cb ++ pb := by simp [Wire.terms, Sent.wire, hpy]
    rw [e] at hbig ⊢
    simp only [List.length_append] at hbig
    have h1' := hctl pb fuel (by omega)
    have h2' := hrp [] fuel (by simp; omega)
    simp only [List.append_nil] at h2'
    cases pb with
    | nil => exact absurd rfl hne
    | cons b rest => simp [h1', h2']

theorem dispatch_cached (x : Ext) (tbl : Control.Table) (now : Nat) (s : St) (h : CSent)
    (h1 : (parseHeader s.cache (h.header ++ h.m.wire.terms)).2 = .ok h.m.wire.terms)
    (h2 : Holds (parseHeader s.cache (h.header ++ h.m.wire.terms)).1.atoms h.es)
    (ht : h.TermsConform x tbl) :
    dispatch x tbl now s h.frame =
      ({ cache := (parseHeader s.cache (h.header ++ h.m.wire.terms)).1, asm := s.asm }, some h.m.expected) := by
  have hd := decodeWithAtomCache_resolved x tbl s.cache h h1 h2 ht
  have hparse := (ht _ h2).parse
  have e : h.frame = 131 :: 68 :: (h.header ++ h.m.wire.terms) := rfl
  rw [e, dispatch_header_frame, ← e, recvHeader, hd]
  simp [finishE, finish, hparse, Sent.expected]

/-- a message of the sender, whole or as a single fragment, at any clock reading: delivered; the cache is what the header
parser leaves, the assembler is touched by `cleanup_expired` only -/
theorem recv_cached (x : Ext) (tbl : Control.Table) (now : Nat) (s : St) (h : CSent) (fr : Framing)
    (h1 : (parseHeader s.cache (h.header ++ h.m.wire.terms)).2 = .ok h.m.wire.terms)
    (h2 : Holds (parseHeader s.cache (h.header ++ h.m.wire.terms)).1.atoms h.es)
    (ht : h.TermsConform x tbl)
    (hfree : ∀ seq, fr = .single seq → seq < 2 ^ 64 ∧ Frag.lookup seq s.asm.pending = none) :
    recv x tbl now s (h.framed fr) =
      ({ cache := (parseHeader s.cache (h.header ++ h.m.wire.terms)).1, asm := (expire now s).asm }, some h.m.expected) := by
  have hw := dispatch_cached x tbl now (expire now s) h h1 h2 ht
  cases fr with
  | whole => exact hw
  | single seq =>
    obtain ⟨hs, h0⟩ := hfree seq rfl
    obtain ⟨nb, rest, hh⟩ := sendHeader_cons h.long h.es
    have e1 : h.single seq = 131 :: 69 :: (be64 seq ++ be64 1 ++ nb :: (rest ++ h.m.wire.terms)) := by
      simp [CSent.single, fragFirst, CSent.header, hh]
    have e2 : h.frame = 131 :: 68 :: nb :: (rest ++ h.m.wire.terms) := by
      simp [CSent.frame, withHeader, CSent.header, hh]
    simp only [CSent.framed]
    rw [e1, recv_single_fragment x tbl now s seq nb _ hs h0, ← e2]
    exact hw

/-- HISTORIES: a conforming sender's messages, each whole or as a single fragment, ticks anywhere, any clock readings:
every message is delivered, once, in order, and the connection's cache ends up agreeing with the sender's -/
theorem outs_cached (x : Ext) (tbl : Control.Table) (tfs : List TFrame) :
    ∀ (hs : List (CSent × Framing)) (s : St) (sndr : Slots),
    SlotsAgree s.cache sndr → ConformingSeq sndr (hs.map (·.1.c14)) → (∀ p ∈ hs, p.1.TermsConform x tbl) →
    SeqsFree s.asm hs → WithTicks (bodies tfs) (hs.map fun p => p.1.framed p.2) →
    (outs x tbl s tfs).filterMap id = hs.map (fun p => p.1.m.expected) ∧
      SlotsAgree (after x tbl s tfs).cache (slotsAfter sndr (hs.map (·.1.c14))) := by
  induction tfs with
  | nil =>
    intro hs s sndr ha _ _ _ hw
    have : hs = [] := by simpa [WithTicks, bodies] using hw.symm
    subst this
    exact ⟨rfl, ha⟩
  | cons tf rest ih =>
    intro hs s sndr ha hc ht hfree hw
    obtain ⟨t, f⟩ := tf
    have hfree' : ∀ hs', (∀ p ∈ hs', p ∈ hs) → SeqsFree (expire t s).asm hs' := by
      intro hs' hsub p hp seq hseq
      obtain ⟨h1, h2⟩ := hfree p (hsub p hp) seq hseq
      exact ⟨h1, lookup_expire_none t s seq h2⟩
    rcases withTicks_cons hw with ⟨rfl, hw'⟩ | ⟨_, fr, hfr, hw'⟩
    · simp only [outs, after, recv_tick]
      rw [List.filterMap_cons]
      exact ih hs (expire t s) sndr ha hc ht (hfree' hs (fun _ h => h)) hw'
    · cases hs with
      | nil => simp at hfr
      | cons p hs' =>
        simp only [List.map_cons, List.cons.injEq] at hfr
        obtain ⟨rfl, rfl⟩ := hfr
        have hres := C14_history _ s.cache sndr ha hc
        obtain ⟨hn, hconf, hv, hrest⟩ := hc
        obtain ⟨h1, h2, _⟩ := hres
        have hnext := C14_cache_tracks_sender p.1.long s.cache sndr p.1.es p.1.m.wire.terms hn hconf hv ha
        have hr := recv_cached x tbl t s p.1 p.2 h1 h2 (ht p (by simp)) (fun seq hseq => hfree p (by simp) seq hseq)
        simp only [outs, after, hr]
        rw [List.filterMap_cons]
        simp only [id_eq, List.map_cons]
        obtain ⟨ih1, ih2⟩ := ih hs' { cache := (parseHeader s.cache (p.1.header ++ p.1.m.wire.terms)).1, asm := (expire t s).asm }
          (sendSlots sndr p.1.es) hnext hrest (fun p' hp' => ht p' (by simp [hp'])) (hfree' hs' (fun _ h => by simp [h])) hw'
        exact ⟨by rw [ih1], ih2⟩

/-- the same history started in a state whose cache differs from the sender's in some slots `T` (written behind the
sender's back, e.g. by a malformed frame): every message is still delivered as meant, provided the history never reads a
slot of `T` before writing it anew -/
theorem outs_cached_after_write (x : Ext) (tbl : Control.Table) (tfs : List TFrame) (hs : List (CSent × Framing))
    (c0 : Cache) (s : St) (sndr : Slots) (ha : SlotsAgree c0 sndr) (hsuf : c0.slots <:+ s.cache.slots)
    (hc : ConformingSeq sndr (hs.map (·.1.c14))) (hav : Avoids (wroteSlots c0 s.cache) (hs.map (·.1.c14)))
    (ht : ∀ p ∈ hs, p.1.TermsConform x tbl) (hfree : SeqsFree s.asm hs)
    (hw : WithTicks (bodies tfs) (hs.map fun p => p.1.framed p.2)) :
    (outs x tbl s tfs).filterMap id = hs.map (fun p => p.1.m.expected) := by
  have hag : ∀ k, k ∉ wroteSlots c0 s.cache → s.cache.slots.lookup k = sndr.lookup k := by
    intro k hk
    rw [lookup_of_not_wrote hsuf k hk]
    exact ha k
  have hc' := conformingSeq_transfer _ sndr s.cache.slots _ hag hc hav
  exact (outs_cached x tbl tfs hs s s.cache.slots (fun _ => rfl) hc' ht hfree hw).1

/-- a header all of whose references are new entries is conforming whatever the sender's cache holds -/
def AllNew (long : Bool) (es : List Entry) : Prop :=
  ∀ e ∈ es, e.new = true ∧ e.seg < 8 ∧ e.idx < 256 ∧ (if long then e.atom.length < 65536 else e.atom.length < 256)

theorem conforming_allNew (long : Bool) (es : List Entry) (h : AllNew long es) : ∀ s : Slots, Conforming long s es := by
  induction es with
  | nil => intro _; trivial
  | cons e r ih =>
    intro s
    obtain ⟨hn, hseg, hidx, hlen⟩ := h e (by simp)
    exact ⟨hseg, hidx, hlen, by simp [hn], ih (fun e' he' => h e' (by simp [he'])) _⟩

/-- a message that brings all its atoms along (every reference a new entry) is delivered in every state at every time -/
theorem recv_allNew (x : Ext) (tbl : Control.Table) (now : Nat) (s : St) (h : CSent) (hn : h.es.length ≤ 255)
    (hall : AllNew h.long h.es) (hv : ∀ e ∈ h.es, validUtf8 e.atom = true) (ht : h.TermsConform x tbl) :
    (recv x tbl now s h.frame).2 = some h.m.expected := by
  have hc : ConformingSeq s.cache.slots [h.c14] := ⟨hn, conforming_allNew h.long h.es hall _, hv, trivial⟩
  obtain ⟨h1, h2, _⟩ := C14_history [h.c14] s.cache s.cache.slots (fun _ => rfl) hc
  have := recv_cached x tbl now s h .whole h1 h2 ht (by intro seq hq; cases hq)
  simpa [CSent.framed] using congrArg Prod.snd this

theorem conformingSeq_append (m1 m2 : List Props.C14.Msg) : ∀ s : Slots,
    ConformingSeq s (m1 ++ m2) ↔ ConformingSeq s m1 ∧ ConformingSeq (slotsAfter s m1) m2 := by
  induction m1 with
  | nil => intro s; simp [ConformingSeq, slotsAfter]
  | cons m r ih =>
    intro s
    obtain ⟨long, es, body⟩ := m
    simp only [List.cons_append, ConformingSeq, slotsAfter, ih]
    constructor
    · rintro ⟨a, b, c, d, e⟩; exact ⟨⟨a, b, c, d⟩, e⟩
    · rintro ⟨⟨a, b, c, d⟩, e⟩; exact ⟨a, b, c, d, e⟩

theorem wroteSlots_self (c : Cache) : wroteSlots c c = [] := by simp [wroteSlots]

end cached

/-! ### what a frame can do to the state -/

/-- the sequence id a fragment frame names (`131, 69 | 70, seq:u64, …`) -/
def fragSeq (data : Bytes) : Option Nat :=
  match data with
  | a :: b :: r =>
    if a = 131 ∧ (b = 69 ∨ b = 70) then
      match rdU 8 r with
      | .ok (q, _) => some q
      | .error _ => none
    else none
  | _ => none

/-- one cache comes from the other by insertions in front (of both of its tables) -/
def CacheGrew (c c' : Cache) : Prop := c.atoms <:+ c'.atoms ∧ c.slots <:+ c'.slots

theorem cacheGrew_refl (c : Cache) : CacheGrew c c := ⟨List.suffix_refl _, List.suffix_refl _⟩

theorem decodeCompleteFragment_cache (x : Ext) (tbl : Control.Table) (c : Cache) (data : Bytes) :
    CacheGrew c (decodeCompleteFragment x tbl c data).1 := by
  unfold decodeCompleteFragment
  split
  · split
    · exact DistHeader.decodeWithAtomCache_suffix x c _
    · exact cacheGrew_refl _
  · exact cacheGrew_refl _

theorem deliver_cache (x : Ext) (tbl : Control.Table) (s : St) (r : Frag.Assembler × Option Bytes) :
    CacheGrew s.cache (deliver x tbl s r).1.cache := by
  unfold deliver
  split
  · exact decodeCompleteFragment_cache x tbl s.cache _
  · exact cacheGrew_refl _

theorem dispatch_cache (x : Ext) (tbl : Control.Table) (now : Nat) (s : St) (data : Bytes) :
    CacheGrew s.cache (dispatch x tbl now s data).1.cache := by
  unfold dispatch
  split
  · exact cacheGrew_refl _
  · split <;> exact cacheGrew_refl _
  · split
    · unfold recvFragHeader
      split
      · exact cacheGrew_refl _
      · split
        · exact cacheGrew_refl _
        · exact deliver_cache _ _ _ _
    · split
      · unfold recvFragCont
        split
        · exact cacheGrew_refl _
        · split
          · exact cacheGrew_refl _
          · exact deliver_cache _ _ _ _
      · split
        · exact cacheGrew_refl _
        · split
          · exact DistHeader.decodeWithAtomCache_suffix x s.cache _
          · exact cacheGrew_refl _

/-- the atom cache only ever gains entries, whatever the frame -/
theorem recv_cache (x : Ext) (tbl : Control.Table) (now : Nat) (s : St) (data : Bytes) :
    CacheGrew s.cache (recv x tbl now s data).1.cache :=
  dispatch_cache x tbl now (expire now s) data

/-- frames that are not `131, 68 | 69 | 70` leave the cache exactly as it was -/
theorem recv_cache_same (x : Ext) (tbl : Control.Table) (now : Nat) (s : St) (data : Bytes)
    (h : ∀ b r, data = 131 :: b :: r → b ≠ 68 ∧ b ≠ 69 ∧ b ≠ 70) : (recv x tbl now s data).1.cache = s.cache := by
  unfold recv dispatch
  split
  · rfl
  · split <;> rfl
  · rename_i a b rest
    by_cases ha : a = 131
    · subst ha
      obtain ⟨h1, h2, h3⟩ := h b rest rfl
      simp only [h1, h2, h3, and_false, ↓reduceIte]
      split <;> rfl
    · simp only [ha, false_and, ↓reduceIte]
      split <;> rfl


theorem deliver_asm (x : Ext) (tbl : Control.Table) (s : St) (r : Frag.Assembler × Option Bytes) :
    (deliver x tbl s r).1.asm = r.1 := by
  unfold deliver
  split <;> rfl

theorem decodeFragmentHeader_seq {a b : UInt8} {r : Bytes} {seq fid n : Nat} {rem : Bytes}
    (h : decodeFragmentHeader (a :: b :: r) = .ok ((seq, fid, n), rem)) : ∃ r1, rdU 8 r = .ok (seq, r1) := by
  simp only [decodeFragmentHeader] at h
  split at h
  · simp at h
  · split at h
    · simp at h
    · split at h
      · simp at h
      · rename_i q r1 hq
        split at h
        · simp at h
        · split at h
          · simp at h
          · simp at h
            exact ⟨r1, by rw [hq, h.1.1]⟩

theorem decodeFragmentCont_seq {a b : UInt8} {r : Bytes} {seq fid : Nat} {rem : Bytes}
    (h : decodeFragmentCont (a :: b :: r) = .ok ((seq, fid), rem)) : ∃ r1, rdU 8 r = .ok (seq, r1) := by
  simp only [decodeFragmentCont] at h
  split at h
  · simp at h
  · split at h
    · simp at h
    · split at h
      · simp at h
      · rename_i q r1 hq
        split at h
        · simp at h
        · simp at h
          exact ⟨r1, by rw [hq, h.1.1]⟩

/-- after `cleanup_expired`, a frame touches no entry of the fragment assembler but that of the sequence id it names -/
theorem dispatch_asm_other (x : Ext) (tbl : Control.Table) (now : Nat) (s : St) (data : Bytes) (q : Nat) (hq : fragSeq data ≠ some q) :
    Frag.lookup q (dispatch x tbl now s data).1.asm.pending = Frag.lookup q s.asm.pending := by
  unfold dispatch
  split
  · rfl
  · split <;> rfl
  · rename_i a b rest
    split
    · rename_i hab
      unfold recvFragHeader
      split
      · rfl
      · rename_i seq fid n rem hd
        split
        · rfl
        · obtain ⟨r1, hr⟩ := decodeFragmentHeader_seq hd
          have hne : seq ≠ q := by
            intro e; apply hq; simp [fragSeq, hab.1, hab.2, hr, e]
          rw [deliver_asm]
          exact Frag.step_other s.asm (.start now seq fid none _) q seq rfl hne
    · split
      · rename_i hab
        unfold recvFragCont
        split
        · rfl
        · rename_i seq fid rem hd
          split
          · rfl
          · obtain ⟨r1, hr⟩ := decodeFragmentCont_seq hd
            have hne : seq ≠ q := by
              intro e; apply hq; simp [fragSeq, hab.1, hab.2, hr, e]
            rw [deliver_asm]
            exact Frag.step_other s.asm (.add now seq fid _) q seq rfl hne
      · split
        · rfl
        · split <;> rfl

theorem recv_asm_other (x : Ext) (tbl : Control.Table) (now : Nat) (s : St) (data : Bytes) (q : Nat) (hq : fragSeq data ≠ some q) :
    Frag.lookup q (recv x tbl now s data).1.asm.pending = Frag.lookup q (expire now s).asm.pending :=
  dispatch_asm_other x tbl now _ data q hq

/-! ### the connection's assembler, frame by frame (link to C09) -/

/-- the event a frame is for the fragment assembler (`none`: not a fragment frame, or refused before the assembler is asked) -/
def fragOp (now : Nat) (data : Bytes) : Option Frag.Op :=
  match data with
  | a :: b :: _ =>
    if a = 131 ∧ b = 69 then
      match decodeFragmentHeader data with
      | .ok ((seq, fid, n), remaining) =>
        if fid = 0 then none else some (.start now seq fid none (131 :: 68 :: UInt8.ofNat n :: remaining))
      | .error _ => none
    else if a = 131 ∧ b = 70 then
      match decodeFragmentCont data with
      | .ok ((seq, fid), remaining) => if fid = 0 then none else some (.add now seq fid remaining)
      | .error _ => none
    else none
  | _ => none

/-- the connection's assembler sees one received frame exactly as `Frag.Assembler.onFrame` (C09) describes it -/
theorem recv_asm_onFrame (x : Ext) (tbl : Control.Table) (now : Nat) (s : St) (data : Bytes) :
    (recv x tbl now s data).1.asm = (s.asm.onFrame now (fragOp now data)).1 := by
  unfold recv dispatch
  split
  · rfl
  · split <;> rfl
  · rename_i a b rest
    split
    · rename_i hab
      obtain ⟨rfl, rfl⟩ := hab
      have hab : (131 : UInt8) = 131 ∧ (69 : UInt8) = 69 := ⟨rfl, rfl⟩
      unfold recvFragHeader
      split
      · rename_i e he; simp [fragOp, hab, he, Frag.Assembler.onFrame, expire]
      · rename_i seq fid n rem hd
        split
        · rename_i h0; simp [fragOp, hab, hd, h0, Frag.Assembler.onFrame, expire]
        · rename_i h0
          rw [deliver_asm]
          simp [fragOp, hab, hd, h0, Frag.Assembler.onFrame, expire, Frag.Assembler.step]
    · rename_i hab
      split
      · rename_i hab2
        obtain ⟨rfl, rfl⟩ := hab2
        have hab2 : (131 : UInt8) = 131 ∧ (70 : UInt8) = 70 := ⟨rfl, rfl⟩
        unfold recvFragCont
        split
        · rename_i e he; simp [fragOp, hab, hab2, he, Frag.Assembler.onFrame, expire]
        · rename_i seq fid rem hd
          split
          · rename_i h0; simp [fragOp, hab, hab2, hd, h0, Frag.Assembler.onFrame, expire]
          · rename_i h0
            rw [deliver_asm]
            simp [fragOp, hab, hab2, hd, h0, Frag.Assembler.onFrame, expire, Frag.Assembler.step]
      · rename_i hab2
        split
        · simp [fragOp, hab, hab2, Frag.Assembler.onFrame, expire]
        · split
          · simp [fragOp, hab, hab2, Frag.Assembler.onFrame, expire, recvHeader]
          · simp [fragOp, hab, hab2, Frag.Assembler.onFrame, expire]

theorem after_asm_afterFrames (x : Ext) (tbl : Control.Table) (tfs : List TFrame) : ∀ s : St,
    (after x tbl s tfs).asm = s.asm.afterFrames (tfs.map fun f => (f.1, fragOp f.1 f.2)) := by
  induction tfs with
  | nil => intro s; rfl
  | cons f fs ih =>
    intro s
    simp only [after, List.map_cons, Frag.Assembler.afterFrames]
    rw [ih, recv_asm_onFrame]

theorem fragOp_now (now : Nat) (data : Bytes) (op : Frag.Op) (h : fragOp now data = some op) : op.now = now := by
  unfold fragOp at h
  split at h
  · split at h
    · split at h
      · split at h
        · simp at h
        · simp only [Option.some.injEq] at h; subst h; rfl
      · simp at h
    · split at h
      · split at h
        · split at h
          · simp at h
          · simp only [Option.some.injEq] at h; subst h; rfl
        · simp at h
      · simp at h
  · simp at h

/-! ### bytes that read as terms (instances of `ReadsAt`; the general statement for encoder output is C01/C03) -/

theorem readsAt_nil (x : Ext) (c : PosTable) (d : Nat) (hd : d ≤ MAX_NESTING_DEPTH) : ReadsAt x c d [106] .nil := by
  intro r fuel hf
  obtain ⟨f, rfl⟩ : ∃ f, fuel = f + 1 := ⟨fuel - 1, by omega⟩
  have hd' : ¬ d > MAX_NESTING_DEPTH := by omega
  rw [List.singleton_append, dec.eq_3]
  simp [hd', ownedOnlyTags]

theorem readsAt_small_int (x : Ext) (c : PosTable) (d : Nat) (hd : d ≤ MAX_NESTING_DEPTH) (v : UInt8) :
    ReadsAt x c d [97, v] (.int v.toNat) := by
  intro r fuel hf
  obtain ⟨f, rfl⟩ : ∃ f, fuel = f + 1 := ⟨fuel - 1, by omega⟩
  have hd' : ¬ d > MAX_NESTING_DEPTH := by omega
  rw [List.cons_append, dec.eq_3]
  simp [hd', ownedOnlyTags, rdU_one]

/-- an atom cache reference reads as the atom the cache holds -/
theorem readsAt_cache_ref (x : Ext) (c : PosTable) (d : Nat) (hd : d ≤ MAX_NESTING_DEPTH) (i : UInt8) (a : Bytes)
    (h : c.lookup i.toNat = some a) : ReadsAt x c d [82, i] (.atom a) := by
  intro r fuel hf
  obtain ⟨f, rfl⟩ : ∃ f, fuel = f + 1 := ⟨fuel - 1, by omega⟩
  have hd' : ¬ d > MAX_NESTING_DEPTH := by omega
  rw [List.cons_append, dec.eq_3]
  simp [hd', ownedOnlyTags, rdU_one, h]

theorem readsAt_nonempty {x : Ext} {c : PosTable} {d : Nat} {bs : Bytes} {t : Term} (h : ReadsAt x c d bs t) : bs ≠ [] := by
  intro e
  subst e
  have := h [] 1 (by simp)
  simp [dec] at this

/-- element bytes that read as the elements, one after the other -/
inductive ReadsAll (x : Ext) (c : PosTable) (d : Nat) : List Bytes → List Term → Prop where
  | nil : ReadsAll x c d [] []
  | cons {bs : Bytes} {t : Term} {bss : List Bytes} {ts : List Term} :
      ReadsAt x c d bs t → ReadsAll x c d bss ts → ReadsAll x c d (bs :: bss) (t :: ts)

theorem readsAll_length {x : Ext} {c : PosTable} {d : Nat} {bss : List Bytes} {ts : List Term} (h : ReadsAll x c d bss ts) :
    bss.length = ts.length ∧ bss.length ≤ bss.flatten.length := by
  induction h with
  | nil => simp
  | cons h1 _ ih =>
    have := readsAt_nonempty h1
    have : 0 < (‹Bytes›).length := List.length_pos_iff.mpr this
    simp only [List.length_cons, List.flatten_cons, List.length_append]; omega

theorem decN_readsAll {x : Ext} {c : PosTable} {d : Nat} {bss : List Bytes} {ts : List Term} (h : ReadsAll x c d bss ts) :
    ∀ (r : Bytes) (fuel : Nat), bss.flatten.length + r.length + 1 < fuel →
      decN x { cache := c } fuel d bss.length (bss.flatten ++ r) = .ok (ts, r) := by
  induction h with
  | nil => intro r fuel _; cases fuel <;> simp [decN]
  | cons h1 hrest ih =>
    rename_i bs t bss ts
    intro r fuel hf
    obtain ⟨f, rfl⟩ : ∃ f, fuel = f + 1 := ⟨fuel - 1, by omega⟩
    have hne := readsAt_nonempty h1
    have hpos : 0 < bs.length := List.length_pos_iff.mpr hne
    simp only [List.length_cons, List.flatten_cons, List.append_assoc, decN]
    simp only [List.flatten_cons, List.length_append] at hf
    rw [h1 (bss.flatten ++ r) f (by simp only [List.length_append]; omega)]
    simp only
    rw [ih r f (by omega)]

/-- a small tuple of elements that read as terms reads as the tuple -/
theorem readsAt_tuple (x : Ext) (c : PosTable) (d : Nat) (hd : d ≤ MAX_NESTING_DEPTH) (bss : List Bytes) (ts : List Term)
    (h : ReadsAll x c (d + 1) bss ts) (hn : bss.length < 256) :
    ReadsAt x c d (104 :: UInt8.ofNat bss.length :: bss.flatten) (.tuple ts) := by
  intro r fuel hf
  obtain ⟨f, rfl⟩ : ∃ f, fuel = f + 1 := ⟨fuel - 1, by omega⟩
  have hd' : ¬ d > MAX_NESTING_DEPTH := by omega
  rw [List.cons_append, dec.eq_3]
  simp only [List.length_cons] at hf
  have := decN_readsAll h r f (by omega)
  simp [hd', ownedOnlyTags, rdU_byte _ _ hn, this]

/-! ### a message in two fragments whose second piece is empty -/

theorem deliver_none (x : Ext) (tbl : Control.Table) (s : St) (r : Frag.Assembler × Option Bytes) (h : r.2 = none) :
    deliver x tbl s r = ({ cache := s.cache, asm := r.1 }, none) := by
  obtain ⟨a, o⟩ := r
  simp only at h
  subst h
  rfl

theorem deliver_some (x : Ext) (tbl : Control.Table) (s : St) (r : Frag.Assembler × Option Bytes) (d : Bytes) (h : r.2 = some d) :
    deliver x tbl s r = ({ cache := (decodeCompleteFragment x tbl s.cache d).1, asm := r.1 },
      some (decodeCompleteFragment x tbl s.cache d).2) := by
  obtain ⟨a, o⟩ := r
  simp only at h
  subst h
  rfl

/-- the assembler on a two-fragment sequence whose continuation is empty, a `cleanup_expired` in between that comes
before the sequence times out -/
theorem two_fragments_asm (a : Frag.Assembler) (seq now1 now2 : Nat) (first : Bytes) (h0 : Frag.lookup seq a.pending = none)
    (hlive : now2 - now1 ≤ a.timeout) :
    (a.startFragment now1 seq 2 none first).2 = none ∧
    (((a.startFragment now1 seq 2 none first).1.cleanupExpired now2).1.addFragment now2 seq 1 []).2 = some first := by
  have hexp : ¬ (a.timeout < now2 - now1) := by omega
  simp [Frag.Assembler.startFragment, Frag.Assembler.addFragment, Frag.Assembler.cleanupExpired, h0, Frag.MAX_FRAGMENT_COUNT,
    Frag.FragMsg.new, Frag.MAX_FRAGMENTS_VEC, Frag.FragMsg.addFragment, Frag.FragMsg.place, Frag.FragMsg.isComplete,
    Frag.FragMsg.reassemble, Frag.FragMsg.isExpired, Frag.insertKey, Frag.lookup, List.filter_cons, hexp, List.replicate]

/-- two fragments, the second one empty, the second frame read before the sequence times out: nothing at the first frame,
and at the second exactly what the unfragmented message gives at that moment (result and atom cache) -/
theorem recv_two_fragments (x : Ext) (tbl : Control.Table) (now1 now2 : Nat) (s : St) (seq : Nat) (nb : UInt8) (rest : Bytes)
    (hs : seq < 2 ^ 64) (h0 : Frag.lookup seq s.asm.pending = none) (hlive : now2 - now1 ≤ s.asm.timeout) :
    (recv x tbl now1 s (131 :: 69 :: (be64 seq ++ be64 2 ++ nb :: rest))).2 = none ∧
    (recv x tbl now2 (recv x tbl now1 s (131 :: 69 :: (be64 seq ++ be64 2 ++ nb :: rest))).1 (fragCont seq 1 [])).2 =
      (recv x tbl now2 s (131 :: 68 :: nb :: rest)).2 ∧
    (recv x tbl now2 (recv x tbl now1 s (131 :: 69 :: (be64 seq ++ be64 2 ++ nb :: rest))).1 (fragCont seq 1 [])).1.cache =
      (recv x tbl now2 s (131 :: 68 :: nb :: rest)).1.cache := by
  have h0' := lookup_expire_none now1 s seq h0
  have htm : (expire now1 s).asm.timeout = s.asm.timeout := rfl
  obtain ⟨ha, hb⟩ := two_fragments_asm (expire now1 s).asm seq now1 now2 (131 :: 68 :: nb :: rest) h0' (by rw [htm]; exact hlive)
  have e1 : recv x tbl now1 s (131 :: 69 :: (be64 seq ++ be64 2 ++ nb :: rest)) =
      ({ cache := s.cache, asm := ((expire now1 s).asm.startFragment now1 seq 2 none (131 :: 68 :: nb :: rest)).1 }, none) := by
    have : recv x tbl now1 s (131 :: 69 :: (be64 seq ++ be64 2 ++ nb :: rest)) =
        recvFragHeader x tbl now1 (expire now1 s) (131 :: 69 :: (be64 seq ++ be64 2 ++ nb :: rest)) := by simp [recv, dispatch]
    rw [this, recvFragHeader, decodeFragmentHeader_ok seq 2 nb rest hs (by omega)]
    have h20 : ¬ (2 : Nat) = 0 := by omega
    simp only [h20, ↓reduceIte, UInt8.ofNat_toNat]
    exact deliver_none x tbl _ _ ha
  have e2 : ∀ s1 : St, recv x tbl now2 s1 (fragCont seq 1 []) =
      deliver x tbl (expire now2 s1) ((expire now2 s1).asm.addFragment now2 seq 1 []) := by
    intro s1
    have : recv x tbl now2 s1 (fragCont seq 1 []) = recvFragCont x tbl now2 (expire now2 s1) (fragCont seq 1 []) := by
      simp [recv, dispatch, fragCont]
    rw [this, recvFragCont]
    have := decodeFragmentCont_ok seq 1 [] hs (by omega)
    simp only [fragCont]
    rw [this]
    simp
  have hb' : ((expire now2 { cache := s.cache, asm := ((expire now1 s).asm.startFragment now1 seq 2 none
      (131 :: 68 :: nb :: rest)).1 }).asm.addFragment now2 seq 1 []).2 = some (131 :: 68 :: nb :: rest) := hb
  rw [e1, e2]
  dsimp only
  rw [deliver_some x tbl _ _ _ hb', recv_header_frame, recvHeader, decodeCompleteFragment_header]
  exact ⟨rfl, rfl, rfl⟩

end Edp.Recv
