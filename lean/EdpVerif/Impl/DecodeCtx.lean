import EdpVerif.Impl.Decode
/-
Model of the zero-copy parser family of crates/erltf/src/decoder.rs WITH its error context:
`decode_borrowed`, `parse_versioned_term_borrowed`, `parse_term_borrowed`, `parse_term_from_tag_borrowed` and the ten
`parse_*_borrowed` functions that take `ctx: &mut ParsingContext` (tuples, lists, maps, pids, ports, references, funs);
errors.rs `ParsingContext::{new, push, pop, display_path}`, `PathSegment`.

What is threaded: `ctx.byte_offset` (assigned `original_len - input.len()` at every entry of `parse_term_borrowed` and never
anywhere else but the two top-level functions) and `ctx.path` (`push` before / `pop` after every element, key, value,
tail and free variable; a `?` between them leaves the segment on the path, which is what an error reports).
`ctx.depth` is incremented around `parse_term_from_tag_borrowed` and decremented on both outcomes: a parameter here.
`original_len - input.len()` is a `usize` subtraction: it panics (dev profile) when the parser is handed more bytes
than the original input — an explicit outcome (`BRes.panic`), shown unreachable in Lemmas/DecCtx.lean.

The thirteen parsers without a context parameter (integers, floats, atoms, NIL, STRING, binaries, bignums) are the
leaf arms of the generic decoder model (`dec`, Impl/Decode.lean) and are used from there.
-/
namespace Edp

/-- errors.rs `PathSegment`; `mapValue` carries the UTF-8 bytes of `key_display` -/
inductive Seg where
  | tupleElem (i : Nat)
  | listElem (i : Nat)
  | mapKey
  | mapValue (k : Bytes)
  | tail
  | freeVar (i : Nat)
  deriving Repr, BEq, DecidableEq

def strBytes (s : String) : Bytes := s.toUTF8.toList

/-- `ParsingContext::display_path` (UTF-8 bytes of the string) -/
def displayPath (p : List Seg) : Bytes :=
  strBytes "root" ++ (p.map fun
    | .tupleElem i => strBytes ("[" ++ toString i ++ "]")
    | .listElem i => strBytes ("[" ++ toString i ++ "]")
    | .mapKey => strBytes ".key"
    | .mapValue k => strBytes "." ++ k
    | .tail => strBytes ".tail"
    | .freeVar i => strBytes (".free_var[" ++ toString i ++ "]")).flatten

/-- `key_display` in `parse_map_borrowed`: the atom's text, the integer in decimal, `?` for every other key -/
def keyDisplay : Term → Bytes
  | .atom a => a
  | .int i => strBytes (toString i)
  | _ => strBytes "?"

/-- outcome of a parser holding `ctx`: on success the path is what it was (`push`/`pop` pair up) and `off` is the
`byte_offset` left behind; on failure the context as the error reports it -/
inductive BRes (α : Type) where
  | ok (v : α) (rest : Bytes) (off : Nat)
  | fail (e : DErr) (off : Nat) (path : List Seg)
  /-- `original_len - input.len()` underflowed -/
  | panic
  deriving Repr

/-- which sequence a counted loop walks: decides the `PathSegment` pushed for element `i` -/
inductive SeqKind where
  | tuple | list | freeVar
  deriving Repr, BEq, DecidableEq

def SeqKind.seg : SeqKind → Nat → Seg
  | .tuple, i => .tupleElem i
  | .list, i => .listElem i
  | .freeVar, i => .freeVar i

/-- tags whose zero-copy parser takes no `ctx` -/
def ctxLeafTags : List Nat := [97, 98, 99, 70, 100, 118, 119, 106, 107, 109, 77, 110, 111]
/-- tags whose zero-copy parser takes `original_len` and `ctx` -/
def ctxNodeTags : List Nat := [104, 105, 108, 116, 88, 90, 120, 89, 113, 112]

def cBorrowed : DecCfg := { borrowed := true, cache := [] }

mutual
/-- `parse_term_borrowed` + `parse_term_from_tag_borrowed` -/
def decC (x : Ext) (orig : Nat) : Nat → Nat → List Seg → Bytes → BRes Term
  | 0, _, path, bs => if bs.length > orig then .panic else .fail .err (orig - bs.length) path
  | fuel+1, depth, path, bs =>
    if bs.length > orig then .panic else
    let off := orig - bs.length
    if depth > MAX_NESTING_DEPTH then .fail .err off path else
    match bs with
    | [] => .fail .err off path
    | tagB :: r =>
      let tag := tagB.toNat
      if ctxLeafTags.contains tag then
        match dec x cBorrowed 1 0 (tagB :: r) with
        | .ok (t, r') => .ok t r' off
        | .error e => .fail e off path
      else match tag with
      | 104 => match rdU 1 r with
        | .error e => .fail e off path
        | .ok (n, r1) => match decCN x orig fuel (depth + 1) path .tuple 0 n r1 off with
          | .ok l r' off' => .ok (.tuple l) r' off'
          | .fail e o p => .fail e o p
          | .panic => .panic
      | 105 => match rdU 4 r with
        | .error e => .fail e off path
        | .ok (n, r1) =>
          if n > MAX_TUPLE_SIZE then .fail .err off path else
          match decCN x orig fuel (depth + 1) path .tuple 0 n r1 off with
          | .ok l r' off' => .ok (.tuple l) r' off'
          | .fail e o p => .fail e o p
          | .panic => .panic
      | 108 => match rdU 4 r with
        | .error e => .fail e off path
        | .ok (n, r1) =>
          if n > MAX_LIST_SIZE then .fail .err off path else
          match decCN x orig fuel (depth + 1) path .list 0 n r1 off with
          | .fail e o p => .fail e o p
          | .panic => .panic
          | .ok l r' _ => match decC x orig fuel (depth + 1) (path ++ [.tail]) r' with
            | .fail e o p => .fail e o p
            | .panic => .panic
            | .ok .nil r'' off'' => .ok (.list l) r'' off''
            | .ok t r'' off'' => .ok (.ilist l t) r'' off''
      | 116 => match rdU 4 r with
        | .error e => .fail e off path
        | .ok (n, r1) =>
          if n > MAX_MAP_SIZE then .fail .err off path else
          match decCKV x orig fuel (depth + 1) path n r1 [] off with
          | .ok m r' off' => .ok (.map m) r' off'
          | .fail e o p => .fail e o p
          | .panic => .panic
      | 88 => match decC x orig fuel (depth + 1) path r with
        | .fail e o p => .fail e o p
        | .panic => .panic
        | .ok (.atom node) r1 off1 => match rdU 4 r1 with
          | .error e => .fail e off1 path
          | .ok (id, r2) => match rdU 4 r2 with
            | .error e => .fail e off1 path
            | .ok (serial, r3) => match rdU 4 r3 with
              | .error e => .fail e off1 path
              | .ok (creation, r4) => .ok (.pid { node, id, serial, creation }) r4 off1
        | .ok _ _ off1 => .fail .err off1 path
      | 120 => match decC x orig fuel (depth + 1) path r with
        | .fail e o p => .fail e o p
        | .panic => .panic
        | .ok (.atom node) r1 off1 => match rdU 8 r1 with
          | .error e => .fail e off1 path
          | .ok (id, r2) => match rdU 4 r2 with
            | .error e => .fail e off1 path
            | .ok (creation, r3) => .ok (.port node id creation none) r3 off1
        | .ok _ _ off1 => .fail .err off1 path
      | 89 => match decC x orig fuel (depth + 1) path r with
        | .fail e o p => .fail e o p
        | .panic => .panic
        | .ok (.atom node) r1 off1 => match rdU 4 r1 with
          | .error e => .fail e off1 path
          | .ok (id, r2) => match rdU 4 r2 with
            | .error e => .fail e off1 path
            | .ok (creation, r3) => .ok (.port node id creation none) r3 off1
        | .ok _ _ off1 => .fail .err off1 path
      | 90 => match rdU 2 r with
        | .error e => .fail e off path
        | .ok (len, r0) => match decC x orig fuel (depth + 1) path r0 with
          | .fail e o p => .fail e o p
          | .panic => .panic
          | .ok (.atom node) r1 off1 => match rdU 4 r1 with
            | .error e => .fail e off1 path
            | .ok (creation, r2) => match rdWords len r2 with
              | .error e => .fail e off1 path
              | .ok (ids, r3) => .ok (.ref node creation ids none) r3 off1
          | .ok _ _ off1 => .fail .err off1 path
      | 113 => match decC x orig fuel (depth + 1) path r with
        | .fail e o p => .fail e o p
        | .panic => .panic
        | .ok (.atom m) r1 _ => match decC x orig fuel (depth + 1) path r1 with
          | .fail e o p => .fail e o p
          | .panic => .panic
          | .ok (.atom f) r2 _ => match decC x orig fuel (depth + 1) path r2 with
            | .fail e o p => .fail e o p
            | .panic => .panic
            | .ok (.int a) r3 off3 =>
              if 0 ≤ a ∧ a ≤ 255 then .ok (.xfun m f a.toNat) r3 off3 else .fail .err off3 path
            | .ok _ _ off3 => .fail .err off3 path
          | .ok _ _ off2 => .fail .err off2 path
        | .ok _ _ off1 => .fail .err off1 path
      | 112 => match rdU 4 r with
        | .error e => .fail e off path
        | .ok (_size, r0) => match rdU 1 r0 with
          | .error e => .fail e off path
          | .ok (arity, r1) => match takeE 16 r1 with
            | .error e => .fail e off path
            | .ok (uniq, r2) => match rdU 4 r2 with
              | .error e => .fail e off path
              | .ok (index, r3) => match rdU 4 r3 with
                | .error e => .fail e off path
                | .ok (numFree, r4) => match decC x orig fuel (depth + 1) path r4 with
                  | .fail e o p => .fail e o p
                  | .panic => .panic
                  | .ok (.atom m) r5 _ => match decC x orig fuel (depth + 1) path r5 with
                    | .fail e o p => .fail e o p
                    | .panic => .panic
                    | .ok (.int oi) r6 off6 =>
                      if oi < 0 then .fail .err off6 path else
                      match decC x orig fuel (depth + 1) path r6 with
                      | .fail e o p => .fail e o p
                      | .panic => .panic
                      | .ok (.int ou) r7 off7 =>
                        if ou < 0 then .fail .err off7 path else
                        match decC x orig fuel (depth + 1) path r7 with
                        | .fail e o p => .fail e o p
                        | .panic => .panic
                        | .ok (.pid p) r8 off8 =>
                          match decCN x orig fuel (depth + 1) path .freeVar 0 numFree r8 off8 with
                          | .ok fr r9 off9 => .ok (.ifun arity uniq index numFree m oi.toNat ou.toNat p fr) r9 off9
                          | .fail e o p => .fail e o p
                          | .panic => .panic
                        | .ok _ _ off8 => .fail .err off8 path
                      | .ok _ _ off7 => .fail .err off7 path
                    | .ok _ _ off6 => .fail .err off6 path
                  | .ok _ _ off5 => .fail .err off5 path
      | _ => .fail .err off path
/-- the counted loops of tuples, lists and free variables: `push(seg i)`, parse, `pop()` -/
def decCN (x : Ext) (orig : Nat) : Nat → Nat → List Seg → SeqKind → Nat → Nat → Bytes → Nat → BRes (List Term)
  | _, _, _, _, _, 0, bs, off => .ok [] bs off
  | 0, _, path, _, _, _+1, _, off => .fail .err off path
  | fuel+1, depth, path, k, i, n+1, bs, _ =>
    match decC x orig fuel depth (path ++ [k.seg i]) bs with
    | .fail e o p => .fail e o p
    | .panic => .panic
    | .ok t r off' => match decCN x orig fuel depth path k (i + 1) n r off' with
      | .fail e o p => .fail e o p
      | .panic => .panic
      | .ok ts r' off'' => .ok (t :: ts) r' off''
/-- the loop of `parse_map_borrowed`: `push(MapKey)`, key, `pop()`, `push(MapValue(key_display))`, value, `pop()`, insert -/
def decCKV (x : Ext) (orig : Nat) : Nat → Nat → List Seg → Nat → Bytes → List (Term × Term) → Nat → BRes (List (Term × Term))
  | _, _, _, 0, bs, m, off => .ok m bs off
  | 0, _, path, _+1, _, _, off => .fail .err off path
  | fuel+1, depth, path, n+1, bs, m, _ =>
    match decC x orig fuel depth (path ++ [.mapKey]) bs with
    | .fail e o p => .fail e o p
    | .panic => .panic
    | .ok k r _ => match decC x orig fuel depth (path ++ [.mapValue (keyDisplay k)]) r with
      | .fail e o p => .fail e o p
      | .panic => .panic
      | .ok v r' off' => decCKV x orig fuel depth path n r' (mapInsert m k v) off'
end

/-- what `decode_borrowed(..).map(to_owned)` returns, with the context of a `ContextualDecodeError` -/
inductive BTop where
  | ok (t : Term)
  | fail (e : DErr) (off : Nat) (path : List Seg)
  | panic
  deriving Repr

/-- `decode_borrowed` + `parse_versioned_term_borrowed` -/
def decodeBorrowedCtx (x : Ext) (bs : Bytes) : BTop :=
  let orig := bs.length
  match bs with
  | [] => .fail .err 0 []                                   -- `be_u8` fails; the context is `ParsingContext::new()`
  | v :: r =>
    if r.length + 1 > orig then .panic else                  -- `original_len - input.len() - 1`
    if v != 131 then .fail .err (orig - r.length - 1) [] else
    match decC x orig (r.length + 1 + x.extra) 0 [] r with
    | .panic => .panic
    | .fail e o p => .fail e o p
    | .ok t [] _ => .ok t
    | .ok _ (_ :: rest) _ =>
      if rest.length + 1 > orig then .panic else
      .fail (.trailing (rest.length + 1)) (orig - (rest.length + 1)) []

/-- forgetting the context -/
def BTop.erase : BTop → Option (Except DErr Term)
  | .ok t => some (.ok t)
  | .fail e _ _ => some (.error e)
  | .panic => none

end Edp
