//! C19: harness domain (stub).
use crate::Ctx;

pub fn run(_ctx: &mut Ctx) {}
