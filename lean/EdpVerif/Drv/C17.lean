import EdpVerif.Drv.Common
import EdpVerif.Impl.Rpc
import EdpVerif.Spec.Rpc
/-! Driver requests of property C17 (remote calls).

* `c17trace <creation> <pids> <events>` — trace validation. `<events>` is the step trace recorded by the yield hook while
  the real `Node` ran (comma separated, fields separated by dots; the last field of most events is
  `Node::pending_rpc_count()` sampled at that point):

      sp.<id>.<ser>.<cre>            `Node::spawn` returned this pid (a local process exists)
      bi.<i>.<n>  ai.<i>.<n>  bl.<i>.<n>  as.<i>.<n>  to.<i>.<n>
                                     call i reached rpc:before_insert / after_insert / before_lock / after_send / timed_out
      ret.<i>.<result>.<n>           call i returned (`reply:<tag>`, `timeout`, `cancelled`, `noconn`, `senderr`)
      dr.<i>.<n>                     the future of call i was dropped
      pm.<node>.<id>.<ser>.<cre>.<tag>   the peer wrote a SEND to that pid (node 0 = our name) with body tag
      pp.<id>.<ser>.<cre>.<tag>      the same, addressed to the local process
      rt.<y>.<n>                     the receiver reached route:before_pending_remove (and yields y times there)
      pc                             the peer closed the socket
      fin.<n>                        everything is over

  Every observed step must be enabled in the model (`Impl/Rpc.lean`, the same `step` the theorems are about), the table
  size must agree at every point, the reply pids must be the ones the model's allocator gives. Steps the hooks do not see
  are placed by the rules below; the one step whose moment is not determined by the trace — the receiver's
  `remove` + `send` after its yields — is fired as late as the observations allow.
  `<pids>`: the reply pid the peer saw per call (`-` if it saw none). Result: `ok out=<results> fin=<n> proc=<tags>`.

* `c17spec <kinds> <order> <ending> <results> <fin> <procSent> <procGot>` — the Spec's judgement of a scenario.
-/
namespace Edp.Drv
namespace C17
open Edp.Impl
open Edp.Impl.Rpc
open Edp.Impl.PidAlloc (Pid Sh)

def nat (s : String) : Except String Nat :=
  match s.toNat? with
  | some n => .ok n
  | none => .error ("bad-nat " ++ s)

/-- replay state: the model state, the peer's messages not yet taken by the receiver (`true` = addressed to the
local process), whether the receiver still owes its `remove` + `send` -/
structure R where
  s : St
  q : List (Bool × Msg) := []
  owed : Bool := false

def fire (r : R) (e : Step) : Except String R :=
  match step r.s e with
  | some s' => .ok { r with s := s' }
  | none => .error s!"step not enabled: {repr e}"

def fireAll (r : R) : List Step → Except String R
  | [] => .ok r
  | e :: es => do fireAll (← fire r e) es

/-- the receiver's owed `pending_rpcs.remove` and `sender.send` -/
def payDebt (r : R) : Except String R :=
  if r.owed then do
    let r1 ← fire r (.rRemove 0)
    let r2 ← match r1.s.recv 0 with
      | .holding _ _ _ => fire r1 (.rSend 0)
      | _ => pure r1
    pure { r2 with owed := false }
  else .ok r

/-- the lock is wanted by call `i`: a holder that already passed `rpc:after_send` has released it by now -/
def freeLock (r : R) (i : Nat) : Except String R :=
  match r.s.lock 0 with
  | some j => if j ≠ i ∧ (r.s.callers j).pc = .sent then fire r (.unlock j) else .ok r
  | none => .ok r

def unlockSelf (r : R) (i : Nat) : Except String R :=
  if (r.s.callers i).pc = .sent then fire r (.unlock i) else .ok r

def outText : Option Outcome → String
  | some (.reply _ b) => s!"reply:{b}"
  | some .timeout => "timeout"
  | some .cancelled => "cancelled"
  | some .noConn => "noconn"
  | some .sendErr => "senderr"
  | some .allocFail => "panic"
  | some .dropped => "dropped"
  | none => "running"

def pidOf (a b c : String) : Except String Pid := do pure ⟨← nat a, ← nat b, ← nat c⟩

/-- the steps of call `i` that lead up to an observed point (everything between two points runs without a yield, so
it is placed right before the point) -/
def callerSteps (r : R) (ev : List String) (pids : List String) : Except String (R × Nat) :=
  match ev with
  | ["bi", i, n] => do
    let i ← nat i
    let r ← fire r (.begin i)
    let c := r.s.callers i
    if c.pc ≠ .allocated then throw "allocate failed in the model"
    let seen := pids.getD i "-"
    if seen ≠ "-" ∧ seen ≠ keyText c.key then
      throw s!"reply pid: model {keyText c.key}, peer saw {seen}"
    pure (r, ← nat n)
  | ["ai", i, n] => do pure (← fire r (.insert (← nat i)), ← nat n)
  | ["bl", i, n] => do pure (← fire r (.lookup (← nat i) (some 0)), ← nat n)
  | ["as", i, n] => do
    let i ← nat i
    let r ← freeLock r i
    pure (← fireAll r [.lock i, .send i true], ← nat n)
  | ["to", i, n] => do
    let i ← nat i
    let r ← unlockSelf r i
    pure (← fire r (.timeout i), ← nat n)
  | ["dr", i, n] => do pure (← fire r (.drop (← nat i)), ← nat n)
  | ["ret", i, o, n] => do
    let i ← nat i
    let r ←
      if o.startsWith "reply:" then do
        let r ← unlockSelf r i
        let r ← fire r (.recvReply i)
        match (r.s.callers i).pc with
        | .exiting (.reply _ b) =>
          if s!"reply:{b}" ≠ o then throw s!"call {i} returned {o}, the model's channel holds reply:{b}"
          fire r (.finish i)
        | _ => throw "no reply"
      else if o == "timeout" then fireAll r [.timeoutRemove i, .finish i]
      else if o == "noconn" then fireAll r [.lookup i none, .finish i]
      else if o == "senderr" then do
        let r ← freeLock r i
        fireAll r [.lock i, .send i false, .finish i]
      else if o == "cancelled" then do
        let r ← unlockSelf r i
        fireAll r [.recvClosed i, .finish i]
      else throw s!"call {i} returned {o}"
    pure (r, ← nat n)
  | _ => throw "bad event"

/-- the receiver takes the next message of the peer that needs routing; messages for the local process that come
before it are delivered on the way (they have no yield point) -/
def takeNextFrom (r : R) : List (Bool × Msg) → Except String R
  | [] => throw "the receiver routes a message the peer did not send"
  | (toProc, msg) :: rest => do
    let before := r.s.procLog.length
    let r ← fire { r with q := rest } (.rStart 0 msg)
    let delivered := r.s.procLog.length > before
    if toProc then
      if ¬ delivered then throw "a message for the local process was not given to it"
      takeNextFrom r rest
    else
      if delivered then throw "a message that is not for the local process was given to it"
      pure { r with owed := true }

def takeNext (r : R) : Except String R := takeNextFrom r r.q

/-- messages for the local process at the head of the queue (no yield point marks them) -/
def drainProcFrom (r : R) : List (Bool × Msg) → Except String R
  | (true, msg) :: rest => do
    let before := r.s.procLog.length
    let r ← fire { r with q := rest } (.rStart 0 msg)
    if r.s.procLog.length ≤ before then throw "a message for the local process was not given to it"
    drainProcFrom r rest
  | _ => .ok r

def drainProc (r : R) : Except String R := drainProcFrom r r.q

def event (r : R) (pids : List String) (e : String) : Except String R :=
  let ev := e.splitOn "."
  match ev with
  | ["sp", a, b, c] => do
    let p ← pidOf a b c
    let r ← fire r .spawnProc
    if r.s.procs.head? ≠ some p then throw "spawned pid differs from the model's"
    pure r
  | ["pm", nd, a, b, c, t] => do
    pure { r with q := r.q ++ [(false, { node := ← nat nd, pid := ← pidOf a b c, body := ← nat t })] }
  | ["pp", a, b, c, t] => do
    pure { r with q := r.q ++ [(true, { node := 0, pid := ← pidOf a b c, body := ← nat t })] }
  | ["pc"] => .ok r
  | ["rt", _, n] => do
    -- the receiver is sequential: what it owed from the previous message is done
    let r ← payDebt r
    let r ← takeNext r
    if r.s.pending.length ≠ (← nat n) then throw s!"table size {r.s.pending.length} in the model, {n} observed"
    pure r
  | ["fin", n] => do
    let r ← payDebt r
    let r ← drainProc r
    -- what the peer wrote but the receiver never took (the socket was closed first) was never received
    if r.s.pending.length ≠ (← nat n) then throw s!"table size {r.s.pending.length} in the model, {n} observed"
    pure r
  | _ =>
    -- a point of a call: first with the receiver's debt still open, then with the debt paid before the call's steps
    let late : Except String R := do
      let (r1, n) ← callerSteps r ev pids
      if r1.s.pending.length ≠ n then throw s!"table size {r1.s.pending.length} in the model, {n} observed"
      pure r1
    match late with
    | .ok r1 => .ok r1
    | .error why =>
      if r.owed then do
        let r0 ← payDebt r
        let (r1, n) ← callerSteps r0 ev pids
        if r1.s.pending.length ≠ n then throw s!"table size {r1.s.pending.length} in the model, {n} observed"
        pure r1
      else .error why

def replay (r : R) (pids : List String) : List String → Nat → Except String R
  | [], _ => .ok r
  | e :: es, k =>
    match event r pids e with
    | .ok r' => replay r' pids es (k + 1)
    | .error why => .error s!"reject {k} {e} {why}"

def listOf (s : String) : List String := if s == "-" then [] else s.splitOn ","

def trace (creation pids events : String) : String :=
  match nat creation with
  | .error e => "bad-op " ++ e
  | .ok c =>
    let pids := pids.splitOn ","
    match replay { s := St.init { nextId := 1, nextSerial := 0, creation := c, poisoned := false } 0 } pids
        (events.splitOn ",") 0 with
    | .error why => why.replace "\n" " "
    | .ok r =>
      let outs := (List.range pids.length).map fun i => outText (r.s.callers i).out
      let proc := r.s.procLog.map fun (_, m) => match r.s.inbox[m]? with
        | some msg => toString msg.body
        | none => "?"
      s!"ok out={";".intercalate outs} fin={r.s.pending.length} proc={if proc.isEmpty then "-" else ",".intercalate proc}"

def spec (kinds outs fin sent got : String) : String :=
  let ks := (listOf kinds).map Spec.Rpc.Kind.ofCode
  if ks.any Option.isNone then "bad-op kind" else
  let ks := ks.filterMap id
  let os := (outs.splitOn ";").map Spec.Rpc.Out.ofText
  let nats := fun (s : String) => (listOf s).map String.toNat!
  match Spec.Rpc.judge ks os fin.toNat! (nats sent) (nats got) with
  | none => "ok"
  | some why => why

end C17

/-- driver requests of property C17 -/
def handleC17 : List String → Option String
  | ["c17trace", creation, pids, events] => some (C17.trace creation pids events)
  | ["c17spec", kinds, _order, _ending, outs, fin, sent, got] => some (C17.spec kinds outs fin sent got)
  | _ => none

end Edp.Drv
