import EdpVerif.Drv.Common
namespace Edp.Drv

/-- driver requests of property C19 (stub: nothing handled yet) -/
def handleC19 : List String → Option String
  | _ => none

end Edp.Drv
