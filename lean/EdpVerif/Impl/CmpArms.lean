import EdpVerif.Impl.Cmp
/-
Arm-by-arm models of the two `Ord` implementations, written separately, each function mirroring one Rust function:

  term.rs      `without_empty_cells`, `term_type_order`, `bitstring_parts`, `ListCells::next`, `compare_list_terms`,
               `compare_term_lists`, `impl Ord for OwnedTerm` (discriminant fast path, rank comparison, the arms in
               source order, the catch-all)                                       → `skipEmptyO rankO bitPartsO nextO … cmpO`
  borrowed.rs  its own copies of all of these (no fast path; the free variables of an `InternalFun` are OWNED terms and
               are compared by the owned comparison)                              → `skipEmptyB rankB bitPartsB nextB … cmpB`

The numeric helpers (`compare_int_bigint`, `compare_bigint`, `compare_int_float`, …) exist once in the code (borrowed.rs
imports them from term.rs; the translator checks that) and once here (Impl/Cmp.lean).
Loops take fuel: every call of the comparison on a sub-term and every loop iteration uses one unit;
`tsz a + tsz b + 1` suffices (`Term.cmpOwned`, `Term.cmpBorrowed`).  The code has no panic site.
-/
namespace Edp
namespace Term

/-! ### term.rs -/

/-- `OwnedTerm::without_empty_cells` -/
def skipEmptyO : Term → Term
  | .ilist [] t => skipEmptyO t
  | t => t

/-- `term_type_order` -/
def rankO : Term → Nat
  | .int _ | .big _ _ | .float _ => 0
  | .atom _ => 1
  | .ref _ _ _ _ => 2
  | .xfun _ _ _ | .ifun _ _ _ _ _ _ _ _ _ => 3
  | .port _ _ _ _ => 4
  | .pid _ => 5
  | .tuple _ => 6
  | .map _ => 7
  | .nil | .list _ | .ilist _ _ => 8
  | .bin _ | .bits _ _ | .str _ => 9

/-- `LIST_TYPE_ORDER` of term.rs -/
def listTypeOrderO : Nat := 8

/-- `OwnedTerm::bitstring_parts` -/
def bitPartsO : Term → Option (Bytes × Nat)
  | .bin b => some (b, 8)
  | .str s => some (s, 8)
  | .bits b n => some (b, n)
  | _ => none

/-- `ListCells::next` when `self.elements` is empty: follow the tail. Result: the element handed out (if any), the new
`elements`, the new `tail` -/
def tailNextO : Term → Option Term × List Term × Option Term
  | .list (x :: r) => (some x, r, none)
  | .list [] => (none, [], none)
  | .ilist (x :: r) t => (some x, r, some t)
  | .ilist [] t => tailNextO t
  | .nil => (none, [], none)
  | t => (none, [], some t)

/-- `ListCells::next` -/
def nextO : List Term → Option Term → Option Term × List Term × Option Term
  | x :: r, t => (some x, r, t)
  | [], some t => tailNextO t
  | [], none => (none, [], none)

/-- the `discriminant` fast path of `OwnedTerm::cmp` -/
def fastO : Term → Term → Option Ordering
  | .int x, .int y => some (compare x y)
  | .atom x, .atom y => some (bytesCmp x y)
  | .bin x, .bin y => some (bytesCmp x y)
  | .str x, .str y => some (bytesCmp x y)
  | .nil, .nil => some .eq
  | _, _ => none

mutual
/-- `impl Ord for OwnedTerm`: `cmp` -/
def cmpO : Nat → Term → Term → Ordering
  | 0, _, _ => .eq
  | f + 1, a0, b0 =>
    match fastO (skipEmptyO a0) (skipEmptyO b0) with
    | some o => o
    | none =>
      match compare (rankO (skipEmptyO a0)) (rankO (skipEmptyO b0)) with
      | .eq =>
        match skipEmptyO a0, skipEmptyO b0 with
        | .int x, .int y => compare x y
        | .int x, .big n d => cmpIntBig x n d
        | .big n d, .int y => ordRev (cmpIntBig y n d)
        | .big n d, .big n2 d2 => cmpSignedMag n d n2 d2
        | .int x, .float g => cmpIntFloat x g
        | .float g, .int y => ordRev (cmpIntFloat y g)
        | .big n d, .float g => cmpSignedMagFloat n d g
        | .float g, .big n d => ordRev (cmpSignedMagFloat n d g)
        | .float x, .float y => cmpFloat x y
        | .atom x, .atom y => bytesCmp x y
        | .ref n c ids _, .ref n2 c2 ids2 _ => thenO (bytesCmp n n2) (thenO (compare c c2) (lexCmp ids ids2))
        | .xfun m g a, .xfun m2 g2 a2 => thenO (bytesCmp m m2) (thenO (bytesCmp g g2) (compare a a2))
        | .ifun _ u i _ m oi ou p fr, .ifun _ u2 i2 _ m2 oi2 ou2 p2 fr2 =>
            thenO (bytesCmp m m2) (thenO (compare oi oi2) (thenO (compare ou ou2) (thenO (compare i i2)
              (thenO (bytesCmp u u2) (thenO (pidCmp p p2) (termListsO f fr fr2))))))
        | .xfun _ _ _, .ifun _ _ _ _ _ _ _ _ _ => .lt
        | .ifun _ _ _ _ _ _ _ _ _, .xfun _ _ _ => .gt
        | .port n i c _, .port n2 i2 c2 _ => thenO (bytesCmp n n2) (thenO (compare i i2) (compare c c2))
        | .pid p, .pid q => pidCmp p q
        | .tuple x, .tuple y => thenO (compare x.length y.length) (zipLoopO f x y)
        | .map x, .map y => thenO (compare x.length y.length) (thenO (keysLoopO f x y) (valsLoopO f x y))
        | .nil, .nil => .eq
        | .bin x, .bin y => bytesCmp x y
        | .str x, .str y => bytesCmp x y
        | .bin x, .str y => bytesCmp x y
        | .str x, .bin y => bytesCmp x y
        | .bits x xb, .bits y yb => thenO (bytesCmp x y) (compare xb yb)
        | a, b =>
          match bitPartsO a, bitPartsO b with
          | some (x, xb), some (y, yb) => thenO (bytesCmp x y) (compare xb yb)
          | _, _ => cellsLoopO f [] (some a) [] (some b)
      | o => o
/-- `compare_list_terms`: the loop over the two `ListCells` (state: `elements` and `tail` of each) -/
def cellsLoopO : Nat → List Term → Option Term → List Term → Option Term → Ordering
  | 0, _, _, _, _ => .eq
  | f + 1, ea, ta, eb, tb =>
    match nextO ea ta, nextO eb tb with
    | (some x, ea', ta'), (some y, eb', tb') =>
      match cmpO f x y with
      | .eq => cellsLoopO f ea' ta' eb' tb'
      | o => o
    | (none, _, ta'), (none, _, tb') =>
      match ta', tb' with
      | none, none => .eq
      | none, some t => compare listTypeOrderO (rankO t)
      | some t, none => compare (rankO t) listTypeOrderO
      | some x, some y => cmpO f x y
    | (none, _, ta'), (some _, _, _) =>
      match ta' with
      | none => .lt
      | some t => compare (rankO t) listTypeOrderO
    | (some _, _, _), (none, _, tb') =>
      match tb' with
      | none => .gt
      | some t => compare listTypeOrderO (rankO t)
/-- the `for (x, y) in a.iter().zip(b.iter())` loop of the tuple arm (ends in `Equal`) -/
def zipLoopO : Nat → List Term → List Term → Ordering
  | 0, _, _ => .eq
  | f + 1, x :: xs, y :: ys =>
    match cmpO f x y with
    | .eq => zipLoopO f xs ys
    | o => o
  | _ + 1, _, _ => .eq
/-- the key loop of the map arm -/
def keysLoopO : Nat → List (Term × Term) → List (Term × Term) → Ordering
  | 0, _, _ => .eq
  | f + 1, (k, _) :: r, (k2, _) :: r2 =>
    match cmpO f k k2 with
    | .eq => keysLoopO f r r2
    | o => o
  | _ + 1, _, _ => .eq
/-- the value loop of the map arm -/
def valsLoopO : Nat → List (Term × Term) → List (Term × Term) → Ordering
  | 0, _, _ => .eq
  | f + 1, (_, v) :: r, (_, v2) :: r2 =>
    match cmpO f v v2 with
    | .eq => valsLoopO f r r2
    | o => o
  | _ + 1, _, _ => .eq
/-- `compare_term_lists`: element-wise, then the lengths (of what is left: the consumed prefixes are equally long) -/
def termListsO : Nat → List Term → List Term → Ordering
  | 0, _, _ => .eq
  | f + 1, x :: xs, y :: ys =>
    match cmpO f x y with
    | .eq => termListsO f xs ys
    | o => o
  | _ + 1, xs, ys => compare xs.length ys.length
end

/-! ### borrowed.rs -/

/-- `BorrowedTerm::without_empty_cells` -/
def skipEmptyB : Term → Term
  | .ilist [] t => skipEmptyB t
  | t => t

/-- `borrowed_type_order` -/
def rankB : Term → Nat
  | .int _ | .big _ _ | .float _ => 0
  | .atom _ => 1
  | .ref _ _ _ _ => 2
  | .xfun _ _ _ | .ifun _ _ _ _ _ _ _ _ _ => 3
  | .port _ _ _ _ => 4
  | .pid _ => 5
  | .tuple _ => 6
  | .map _ => 7
  | .nil | .list _ | .ilist _ _ => 8
  | .bin _ | .bits _ _ | .str _ => 9

/-- `LIST_TYPE_ORDER` of borrowed.rs -/
def listTypeOrderB : Nat := 8

/-- `BorrowedTerm::bitstring_parts` -/
def bitPartsB : Term → Option (Bytes × Nat)
  | .bin b => some (b, 8)
  | .str s => some (s, 8)
  | .bits b n => some (b, n)
  | _ => none

/-- borrowed.rs `ListCells::next` with empty `elements` -/
def tailNextB : Term → Option Term × List Term × Option Term
  | .list (x :: r) => (some x, r, none)
  | .list [] => (none, [], none)
  | .ilist (x :: r) t => (some x, r, some t)
  | .ilist [] t => tailNextB t
  | .nil => (none, [], none)
  | t => (none, [], some t)

/-- borrowed.rs `ListCells::next` -/
def nextB : List Term → Option Term → Option Term × List Term × Option Term
  | x :: r, t => (some x, r, t)
  | [], some t => tailNextB t
  | [], none => (none, [], none)

mutual
/-- `impl Ord for BorrowedTerm`: `cmp` (no fast path) -/
def cmpB : Nat → Term → Term → Ordering
  | 0, _, _ => .eq
  | f + 1, a0, b0 =>
    match compare (rankB (skipEmptyB a0)) (rankB (skipEmptyB b0)) with
    | .eq =>
      match skipEmptyB a0, skipEmptyB b0 with
      | .int x, .int y => compare x y
      | .int x, .big n d => cmpIntBig x n d
      | .big n d, .int y => ordRev (cmpIntBig y n d)
      | .big n d, .big n2 d2 => cmpSignedMag n d n2 d2
      | .int x, .float g => cmpIntFloat x g
      | .float g, .int y => ordRev (cmpIntFloat y g)
      | .big n d, .float g => cmpSignedMagFloat n d g
      | .float g, .big n d => ordRev (cmpSignedMagFloat n d g)
      | .float x, .float y => cmpFloat x y
      | .atom x, .atom y => bytesCmp x y
      | .ref n c ids _, .ref n2 c2 ids2 _ => thenO (bytesCmp n n2) (thenO (compare c c2) (lexCmp ids ids2))
      | .xfun m g a, .xfun m2 g2 a2 => thenO (bytesCmp m m2) (thenO (bytesCmp g g2) (compare a a2))
      -- `compare_owned_term_lists`: the free variables are owned terms, compared by the owned `cmp`
      | .ifun _ u i _ m oi ou p fr, .ifun _ u2 i2 _ m2 oi2 ou2 p2 fr2 =>
          thenO (bytesCmp m m2) (thenO (compare oi oi2) (thenO (compare ou ou2) (thenO (compare i i2)
            (thenO (bytesCmp u u2) (thenO (pidCmp p p2) (termListsO f fr fr2))))))
      | .xfun _ _ _, .ifun _ _ _ _ _ _ _ _ _ => .lt
      | .ifun _ _ _ _ _ _ _ _ _, .xfun _ _ _ => .gt
      | .port n i c _, .port n2 i2 c2 _ => thenO (bytesCmp n n2) (thenO (compare i i2) (compare c c2))
      | .pid p, .pid q => pidCmp p q
      | .tuple x, .tuple y => thenO (compare x.length y.length) (zipLoopB f x y)
      | .map x, .map y => thenO (compare x.length y.length) (thenO (keysLoopB f x y) (valsLoopB f x y))
      | .nil, .nil => .eq
      | .bin x, .bin y => bytesCmp x y
      | .str x, .str y => bytesCmp x y
      | .bin x, .str y => bytesCmp x y
      | .str x, .bin y => bytesCmp x y
      | .bits x xb, .bits y yb => thenO (bytesCmp x y) (compare xb yb)
      | a, b =>
        match bitPartsB a, bitPartsB b with
        | some (x, xb), some (y, yb) => thenO (bytesCmp x y) (compare xb yb)
        | _, _ => cellsLoopB f [] (some a) [] (some b)
    | o => o
/-- borrowed.rs `compare_list_terms` -/
def cellsLoopB : Nat → List Term → Option Term → List Term → Option Term → Ordering
  | 0, _, _, _, _ => .eq
  | f + 1, ea, ta, eb, tb =>
    match nextB ea ta, nextB eb tb with
    | (some x, ea', ta'), (some y, eb', tb') =>
      match cmpB f x y with
      | .eq => cellsLoopB f ea' ta' eb' tb'
      | o => o
    | (none, _, ta'), (none, _, tb') =>
      match ta', tb' with
      | none, none => .eq
      | none, some t => compare listTypeOrderB (rankB t)
      | some t, none => compare (rankB t) listTypeOrderB
      | some x, some y => cmpB f x y
    | (none, _, ta'), (some _, _, _) =>
      match ta' with
      | none => .lt
      | some t => compare (rankB t) listTypeOrderB
    | (some _, _, _), (none, _, tb') =>
      match tb' with
      | none => .gt
      | some t => compare listTypeOrderB (rankB t)
def zipLoopB : Nat → List Term → List Term → Ordering
  | 0, _, _ => .eq
  | f + 1, x :: xs, y :: ys =>
    match cmpB f x y with
    | .eq => zipLoopB f xs ys
    | o => o
  | _ + 1, _, _ => .eq
def keysLoopB : Nat → List (Term × Term) → List (Term × Term) → Ordering
  | 0, _, _ => .eq
  | f + 1, (k, _) :: r, (k2, _) :: r2 =>
    match cmpB f k k2 with
    | .eq => keysLoopB f r r2
    | o => o
  | _ + 1, _, _ => .eq
def valsLoopB : Nat → List (Term × Term) → List (Term × Term) → Ordering
  | 0, _, _ => .eq
  | f + 1, (_, v) :: r, (_, v2) :: r2 =>
    match cmpB f v v2 with
    | .eq => valsLoopB f r r2
    | o => o
  | _ + 1, _, _ => .eq
end

/-! ### fuel -/

mutual
/-- number of constructor nodes, list cells and map entries: an upper bound of the comparison calls and loop turns
one side can cause -/
def tsz : Term → Nat
  | .list l => 2 + tszL l
  | .ilist l t => 2 + tszL l + tsz t
  | .map kvs => 2 + tszKV kvs
  | .tuple l => 2 + tszL l
  | .ifun _ _ _ _ _ _ _ _ fr => 2 + tszL fr
  | _ => 2
def tszL : List Term → Nat
  | [] => 0
  | t :: ts => 1 + tsz t + tszL ts
def tszKV : List (Term × Term) → Nat
  | [] => 0
  | (k, v) :: r => 2 + tsz k + tsz v + tszKV r
end

/-- `OwnedTerm::cmp` with enough fuel -/
def cmpOwned (a b : Term) : Ordering := cmpO (tsz a + tsz b + 1) a b
/-- `BorrowedTerm::cmp` with enough fuel -/
def cmpBorrowed (a b : Term) : Ordering := cmpB (tsz a + tsz b + 1) a b

end Term
end Edp
