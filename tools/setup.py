#!/usr/bin/env python3
"""MANIFEST.setup_cmd: build the framework from files on disk only (offline)."""
import os
import subprocess
import sys

ROOT = os.path.dirname(os.path.dirname(os.path.abspath(__file__)))
env = dict(os.environ, CARGO_NET_OFFLINE="true")


def run(cmd, cwd):
    print("+", " ".join(cmd), flush=True)
    return subprocess.call(cmd, cwd=cwd, env=env)


rc = run([sys.executable, os.path.join(ROOT, "tools", "gen_tables.py")], ROOT)
rc |= run(["lake", "build", "EdpVerif", "edpdrv"], os.path.join(ROOT, "lean"))
if not os.path.exists(os.path.join(ROOT, "harness", "Cargo.lock")):
    subprocess.call(["cp", "/repo/Cargo.lock", os.path.join(ROOT, "harness", "Cargo.lock")])
env["CARGO_TARGET_DIR"] = os.path.join(ROOT, ".cache", "target")
rc |= run(["cargo", "build", "--offline", "--bins"], os.path.join(ROOT, "harness"))
sys.exit(1 if rc else 0)
