import EdpVerif.Impl.Term
/-!
Model of the local-process machinery of `crates/edp_node`:

* `registry.rs`  — `ProcessRegistry`: `by_pid` and `by_name` behind SEPARATE `RwLock`s (`insert`, `remove` = two
                   locked accesses, `get`, `register`, `unregister`, `whereis`, `registered`, `count`)
* `mailbox.rs`   — a bounded FIFO (`tokio::sync::mpsc::channel(capacity)`); the `Mailbox` owns a `Sender` of its own, so
                   `recv()` never reports "closed" while the process task lives: the `normal` exit branch of the loop is
                   dead code and a process ends only when its handler returns `Err`
* `process.rs`   — `ProcessHandle` (`links`, `monitors` sets behind their own locks), `spawn_process` (the process task:
                   `recv → handle → …; on Err: terminate(); get_links; for each: registry.get, send Exit; get_monitors;
                   for each: registry.get, send MonitorExit; registry.remove (two accesses); drop the mailbox`)
* `node.rs`      — `spawn` (allocate pid, start the task, THEN `registry.insert`), `register`, `unregister`, `whereis`,
                   `registered`, `process_count`, `send` (local: `registry.get`, then mailbox send), `send_to_name`
                   (`whereis`, then `send`), `link` (`get from`, `add_link`; refused: `get to`, send `Exit{noproc}`;
                   `get to`, `add_link`; refused: `get from`, send `Exit{noproc}`), `unlink`, `monitor`
                   (`make_reference`; `get to`; `add_monitor`; refused: `get from`, send `MonitorExit{noproc}`), `demonitor`
* `gen_server.rs`, `gen_event.rs` — the dispatch of `handle_message` as pure functions of the message (second half).

Every access to shared state under one lock is ONE atomic step; a schedule is a list of events saying which task takes
its next step.  A step that would block (full mailbox, `by_name` held by a `register` in progress) is not enabled.
`register` is modelled as it is after the repair proposed for this property (notes/C18.md): it holds the `by_name`
write lock while it checks `by_pid`.  The link and monitor sets are modelled as they are after the second repair
(`ExitSet`: `entries` + `closed`): the terminating task closes the set in the step that reads it; `add` still inserts
but reports an entry that is new to a closed set (the caller then sends the `noproc` notice); `remove` leaves a closed
set alone.

Identifiers: pids, names (atoms), references and client tasks are natural numbers; the allocators hand out fresh
numbers (their uniqueness is property C16).  A `ProcessHandle` is identified with its pid: the handle's `Sender`,
`links` and `monitors` are the per-process state `procs pid`, which stays reachable through a stale clone of the
handle after the registry entry is gone.
-/
namespace Edp.Impl.Procs

abbrev Pid := Nat
abbrev Name := Nat
abbrev Ref := Nat
abbrev Tid := Nat

/-- `mailbox.rs Message`, the variants local delivery produces. The exit reason of a notice sent by the terminating
task is always the atom `error` (the loop's `normal` branch is unreachable, see above); the notices `Node::link` /
`Node::monitor` send for an entry that came too late carry `noproc`: separate constructors. -/
inductive Msg
  | regular (id : Nat) (fail : Bool)   -- `Regular{from: None, body}`; `fail`: the handler returns `Err` on this body
  | exit (frm : Pid)                    -- `Exit{from, reason: error}`
  | monExit (monitored : Pid) (ref : Ref)  -- `MonitorExit{monitored, reference, reason: error}`
  | exitNoproc (frm : Pid)              -- `Exit{from, reason: noproc}`
  | monNoproc (monitored : Pid) (ref : Ref)  -- `MonitorExit{monitored, reference, reason: noproc}`
deriving DecidableEq, Repr, Inhabited

/-- does the process's handler return `Err` on this message? (`trap = false`: the process dies of an exit signal,
as a non-trapping Erlang process does; the library itself leaves that to the `Process` implementation) -/
def Msg.fails (trap : Bool) : Msg → Bool
  | .regular _ f => f
  | .exit _ => !trap
  | .monExit _ _ => false
  | .exitNoproc _ => !trap
  | .monNoproc _ _ => false

inductive Sender
  | client (t : Tid)                    -- a `send` / `send_to_name` of client task `t`
  | proc (p : Pid)                      -- the exit propagation of process `p`
  | late (t : Tid)                      -- the `noproc` notice `link` / `monitor` of client task `t` sends for a late entry
deriving DecidableEq, Repr, Inhabited

/-- program counter of a process task (`process.rs spawn_process`) -/
inductive PPc
  | none                                  -- pid not allocated
  | recv                                  -- in the loop: `mailbox.recv().await`
  | exiting                               -- handler returned Err, `terminate()` ran; next: `get_links`
  | notifyL (todo : List Pid)             -- `for linked_pid in links`: next `registry.get(linked)`; `[]`: next `get_monitors`
  | sendL (a : Pid) (todo : List Pid)     -- holds `linked_handle`; next: mailbox send of `Exit`
  | notifyM (todo : List (Pid × Ref))     -- `for (pid, ref) in monitors`; `[]`: next `by_pid.remove`
  | sendM (a : Pid) (r : Ref) (todo : List (Pid × Ref))
  | sweep                                 -- next: `by_name.retain(owner != pid)`
  | closing                               -- next: the task ends, the mailbox (receiver) is dropped
  | dead
deriving DecidableEq, Repr, Inhabited

structure Proc where
  pc : PPc := .none
  trap : Bool := true
  mailbox : List Msg := []
  closed : Bool := false                  -- receiver dropped
  links : List Pid := []                  -- `ExitSet<ExternalPid>.entries`
  closedL : Bool := false                 -- `ExitSet.closed` of the links: set by `close_links`
  monitors : List (Pid × Ref) := []       -- `ExitSet<(ExternalPid, ExternalReference)>.entries`
  closedM : Bool := false                 -- `ExitSet.closed` of the monitors: set by `close_monitors`
  -- ghost state (never read by a step)
  inserted : Bool := false                -- `registry.insert` of `Node::spawn` has happened
  accepted : List (Sender × Msg) := []    -- every message a mailbox send returned Ok for, in order
  handled : List Msg := []                -- every message passed to the handler, in order
  snapL : List Pid := []                  -- the links as `get_links` read them
  liveL : List Pid := []                  -- `by_pid` at that moment
  sentL : List Pid := []                  -- targets whose mailbox took the `Exit`
  skipL : List Pid := []                  -- targets not in `by_pid` / mailbox closed
  snapM : List (Pid × Ref) := []
  liveM : List Pid := []
  sentM : List (Pid × Ref) := []
  skipM : List (Pid × Ref) := []
deriving Repr, Inhabited

/-- result of a `Node` call -/
inductive Res
  | ok
  | pid (p : Pid)
  | ref (r : Ref)
  | found (o : Option Pid)
  | names (l : List Name)
  | count (n : Nat)
  | noProc      -- `Error::ProcessNotFound`
  | closed      -- `Error::MailboxClosed`
  | taken       -- `Error::NameAlreadyRegistered`
  | noName      -- `Error::NameNotRegistered`
deriving DecidableEq, Repr, Inhabited

/-- the `Node` operations a client task may call -/
inductive Op
  | spawn (trap : Bool)
  | register (n : Name) (p : Pid)
  | unregister (n : Name)
  | whereis (n : Name)
  | registered
  | count
  | send (p : Pid) (id : Nat) (fail : Bool)
  | sendName (n : Name) (id : Nat) (fail : Bool)
  | link (a b : Pid)
  | unlink (a b : Pid)
  | monitor (a b : Pid)
  | demonitor (a b : Pid) (r : Ref)
deriving DecidableEq, Repr, Inhabited

/-- program counter of a client task: where inside which `Node` call it is -/
inductive CPc
  | idle
  | spawn1 (trap : Bool)                 -- next: allocate the pid, start the process task
  | spawn2 (p : Pid)                     -- next: `registry.insert`
  | reg1 (n : Name) (p : Pid)            -- next: `by_name.write()`
  | reg2 (n : Name) (p : Pid)            -- holds `by_name`; next: `by_pid` check, `Entry`, release
  | unreg (n : Name)
  | whereis (n : Name)
  | registered
  | count
  | sendName (n : Name) (id : Nat) (fail : Bool)   -- next: `whereis`
  | sendGet (p : Pid) (id : Nat) (fail : Bool)     -- next: `registry.get`
  | sendPut (p : Pid) (id : Nat) (fail : Bool)     -- holds the handle; next: mailbox send
  | lk1 (add : Bool) (a b : Pid)         -- next: `registry.get(from)`
  | lk2 (add : Bool) (a b : Pid)         -- holds `from_handle`; next: `add_link(to)` / `remove_link(to)`
  | lk3 (add : Bool) (a b : Pid)         -- next: `registry.get(to)`
  | lk4 (add : Bool) (a b : Pid)         -- holds `to_handle`; next: `add_link(from)` / `remove_link(from)`
  | lkA (a b : Pid)                      -- `from.add_link(to)` was refused; next: `registry.get(to)` of `signal_noproc_exit(to, from)`
  | lkB (a b : Pid)                      -- holds the handle of `to`; next: mailbox send of `Exit{from: a, noproc}` to `b`
  | lkC (a b : Pid)                      -- `to.add_link(from)` was refused; next: `registry.get(from)` of `signal_noproc_exit(from, to)`
  | lkD (a b : Pid)                      -- holds the handle of `from`; next: mailbox send of `Exit{from: b, noproc}` to `a`
  | mon1 (a b : Pid)                     -- next: `make_reference`
  | mon2 (a b : Pid) (r : Ref)           -- next: `registry.get(to)`
  | mon3 (a b : Pid) (r : Ref)           -- holds `to_handle`; next: `add_monitor(from, ref)`
  | monN1 (a b : Pid) (r : Ref)          -- `add_monitor` was refused; next: `registry.get(from)`
  | monN2 (a b : Pid) (r : Ref)          -- holds `from_handle`; next: mailbox send of `MonitorExit{b, r, noproc}` to `a`
  | dem1 (a b : Pid) (r : Ref)           -- next: `registry.get(to)`
  | dem2 (a b : Pid) (r : Ref)           -- next: `remove_monitor(ref)`
deriving DecidableEq, Repr, Inhabited

def Op.entry : Op → CPc
  | .spawn tr => .spawn1 tr
  | .register n p => .reg1 n p
  | .unregister n => .unreg n
  | .whereis n => .whereis n
  | .registered => .registered
  | .count => .count
  | .send p i f => .sendGet p i f
  | .sendName n i f => .sendName n i f
  | .link a b => .lk1 true a b
  | .unlink a b => .lk1 false a b
  | .monitor a b => .mon1 a b
  | .demonitor a b r => .dem1 a b r

/-- global state -/
structure St where
  cap : Nat                              -- mailbox capacity (`DEFAULT_MAILBOX_CAPACITY`)
  nextPid : Nat := 0
  nextRef : Nat := 0
  byPid : List Pid := []                 -- keys of `by_pid`
  byName : List (Name × Pid) := []       -- `by_name`
  nameLock : Option Tid := none          -- a `register` holding `by_name.write()` across its `by_pid` check
  procs : Pid → Proc := fun _ => {}
  cpc : Tid → CPc := fun _ => .idle
  sent : Tid → List (Pid × Msg) := fun _ => []   -- ghost: what the task's sends returned Ok for
  out : List (Tid × Res) := []           -- finished calls in completion order
  -- ghost: late entries, as (terminating process, receiver) / (terminating process, (watcher, reference))
  lateL : List (Pid × Pid) := []         -- entries `add_link` refused (new to the closed set), in order
  sentNL : List (Pid × Pid) := []        -- … whose mailbox took the `Exit{noproc}`
  skipNL : List (Pid × Pid) := []        -- … whose mailbox was closed
  noRegL : List (Pid × Pid) := []        -- … which `registry.get` did not find
  lateM : List (Pid × (Pid × Ref)) := []
  sentNM : List (Pid × (Pid × Ref)) := []
  skipNM : List (Pid × (Pid × Ref)) := []
  noRegM : List (Pid × (Pid × Ref)) := []

def St.init (cap : Nat) : St := { cap := cap }

def upd {α : Type} (f : Nat → α) (i : Nat) (v : α) : Nat → α := fun x => if x = i then v else f x

/-! ### registry tables -/

def nameFind (n : Name) : List (Name × Pid) → Option Pid
  | [] => none
  | (m, p) :: r => if m = n then some p else nameFind n r

/-- `by_name.remove(name)` -/
def nameDel (n : Name) (l : List (Name × Pid)) : List (Name × Pid) := l.filter (fun e => e.1 ≠ n)
/-- `by_name.retain(|_, owner| owner != pid)` -/
def nameSweep (p : Pid) (l : List (Name × Pid)) : List (Name × Pid) := l.filter (fun e => e.2 ≠ p)
/-- `by_pid.insert(pid, handle)` -/
def pidIns (p : Pid) (l : List Pid) : List Pid := if p ∈ l then l else l ++ [p]
/-- `by_pid.remove(pid)` -/
def pidDel (p : Pid) (l : List Pid) : List Pid := l.filter (fun q => q ≠ p)
/-- `HashSet::insert` -/
def setIns {α : Type} [DecidableEq α] (x : α) (l : List α) : List α := if x ∈ l then l else l ++ [x]

/-! ### state helpers -/

def St.setC (st : St) (t : Tid) (c : CPc) : St := { st with cpc := upd st.cpc t c }
def St.ret (st : St) (t : Tid) (r : Res) : St := { st with cpc := upd st.cpc t .idle, out := st.out ++ [(t, r)] }
def St.modP (st : St) (p : Pid) (f : Proc → Proc) : St := { st with procs := upd st.procs p (f (st.procs p)) }

def Proc.push (q : Proc) (s : Sender) (m : Msg) : Proc :=
  { q with mailbox := q.mailbox ++ [m], accepted := q.accepted ++ [(s, m)] }

/-- `mailbox_sender.send(msg).await` on the handle of `p` succeeds: the message is queued.
The send fails with `MailboxClosed` when the receiver is dropped, waits (step not enabled) while the channel is full. -/
def St.deliver (st : St) (s : Sender) (p : Pid) (m : Msg) : St := st.modP p (·.push s m)

/-! ### one atomic step of a client task -/

def clientStep (st : St) (t : Tid) : Option St :=
  match st.cpc t with
  | .idle => none
  | .spawn1 tr =>
    let p := st.nextPid
    some ({ st with nextPid := p + 1, procs := upd st.procs p { pc := .recv, trap := tr } }.setC t (.spawn2 p))
  | .spawn2 p =>
    some (({ st with byPid := pidIns p st.byPid }.modP p fun q => { q with inserted := true }).ret t (.pid p))
  | .reg1 n p =>
    match st.nameLock with
    | none => some ({ st with nameLock := some t }.setC t (.reg2 n p))
    | some _ => none
  | .reg2 n p =>
    if p ∈ st.byPid then
      match nameFind n st.byName with
      | some _ => some ({ st with nameLock := none }.ret t .taken)
      | none => some ({ st with nameLock := none, byName := st.byName ++ [(n, p)] }.ret t .ok)
    else some ({ st with nameLock := none }.ret t .noProc)
  | .unreg n =>
    match st.nameLock with
    | some _ => none
    | none =>
      match nameFind n st.byName with
      | some _ => some ({ st with byName := nameDel n st.byName }.ret t .ok)
      | none => some (st.ret t .noName)
  | .whereis n =>
    match st.nameLock with
    | some _ => none
    | none => some (st.ret t (.found (nameFind n st.byName)))
  | .registered =>
    match st.nameLock with
    | some _ => none
    | none => some (st.ret t (.names (st.byName.map (·.1))))
  | .count => some (st.ret t (.count st.byPid.length))
  | .sendName n i f =>
    match st.nameLock with
    | some _ => none
    | none =>
      match nameFind n st.byName with
      | none => some (st.ret t .noName)
      | some p => some (st.setC t (.sendGet p i f))
  | .sendGet p i f =>
    if p ∈ st.byPid then some (st.setC t (.sendPut p i f)) else some (st.ret t .noProc)
  | .sendPut p i f =>
    if (st.procs p).closed then some (st.ret t .closed)
    else if (st.procs p).mailbox.length < st.cap then
      some ({ st.deliver (.client t) p (.regular i f) with sent := upd st.sent t (st.sent t ++ [(p, Msg.regular i f)]) }.ret t .ok)
    else none
  | .lk1 add a b =>
    if a ∈ st.byPid then some (st.setC t (.lk2 add a b)) else some (st.setC t (.lk3 add a b))
  | .lk2 add a b =>
    if add then
      if (st.procs a).closedL = true ∧ b ∉ (st.procs a).links then
        some (({ st with lateL := st.lateL ++ [(a, b)] }.modP a fun q => { q with links := q.links ++ [b] }).setC t (.lkA a b))
      else some ((st.modP a fun q => { q with links := setIns b q.links }).setC t (.lk3 add a b))
    else if (st.procs a).closedL = true then some (st.setC t (.lk3 add a b))
    else some ((st.modP a fun q => { q with links := q.links.filter (· ≠ b) }).setC t (.lk3 add a b))
  | .lkA a b =>
    if b ∈ st.byPid then some (st.setC t (.lkB a b))
    else some ({ st with noRegL := st.noRegL ++ [(a, b)] }.setC t (.lk3 true a b))
  | .lkB a b =>
    if (st.procs b).closed then some ({ st with skipNL := st.skipNL ++ [(a, b)] }.setC t (.lk3 true a b))
    else if (st.procs b).mailbox.length < st.cap then
      some ({ st.deliver (.late t) b (.exitNoproc a) with sentNL := st.sentNL ++ [(a, b)] }.setC t (.lk3 true a b))
    else none
  | .lk3 add a b =>
    if b ∈ st.byPid then some (st.setC t (.lk4 add a b)) else some (st.ret t .ok)
  | .lk4 add a b =>
    if add then
      if (st.procs b).closedL = true ∧ a ∉ (st.procs b).links then
        some (({ st with lateL := st.lateL ++ [(b, a)] }.modP b fun q => { q with links := q.links ++ [a] }).setC t (.lkC a b))
      else some ((st.modP b fun q => { q with links := setIns a q.links }).ret t .ok)
    else if (st.procs b).closedL = true then some (st.ret t .ok)
    else some ((st.modP b fun q => { q with links := q.links.filter (· ≠ a) }).ret t .ok)
  | .lkC a b =>
    if a ∈ st.byPid then some (st.setC t (.lkD a b))
    else some ({ st with noRegL := st.noRegL ++ [(b, a)] }.ret t .ok)
  | .lkD a b =>
    if (st.procs a).closed then some ({ st with skipNL := st.skipNL ++ [(b, a)] }.ret t .ok)
    else if (st.procs a).mailbox.length < st.cap then
      some ({ st.deliver (.late t) a (.exitNoproc b) with sentNL := st.sentNL ++ [(b, a)] }.ret t .ok)
    else none
  | .mon1 a b => some ({ st with nextRef := st.nextRef + 1 }.setC t (.mon2 a b st.nextRef))
  | .mon2 a b r =>
    if b ∈ st.byPid then some (st.setC t (.mon3 a b r)) else some (st.ret t (.ref r))
  | .mon3 a b r =>
    if (st.procs b).closedM = true ∧ (a, r) ∉ (st.procs b).monitors then
      some (({ st with lateM := st.lateM ++ [(b, (a, r))] }.modP b fun q => { q with monitors := q.monitors ++ [(a, r)] }).setC t (.monN1 a b r))
    else some ((st.modP b fun q => { q with monitors := setIns (a, r) q.monitors }).ret t (.ref r))
  | .monN1 a b r =>
    if a ∈ st.byPid then some (st.setC t (.monN2 a b r))
    else some ({ st with noRegM := st.noRegM ++ [(b, (a, r))] }.ret t (.ref r))
  | .monN2 a b r =>
    if (st.procs a).closed then some ({ st with skipNM := st.skipNM ++ [(b, (a, r))] }.ret t (.ref r))
    else if (st.procs a).mailbox.length < st.cap then
      some ({ st.deliver (.late t) a (.monNoproc b r) with sentNM := st.sentNM ++ [(b, (a, r))] }.ret t (.ref r))
    else none
  | .dem1 a b r =>
    if b ∈ st.byPid then some (st.setC t (.dem2 a b r)) else some (st.ret t .ok)
  | .dem2 _ b r =>
    if (st.procs b).closedM = true then some (st.ret t .ok)
    else some ((st.modP b fun q => { q with monitors := q.monitors.filter (fun e => e.2 ≠ r) }).ret t .ok)

/-! ### one atomic step of a process task -/

def procStep (st : St) (p : Pid) (k : Nat) : Option St :=
  match (st.procs p).pc with
  | .none => none
  | .dead => none
  | .recv =>
    match (st.procs p).mailbox with
    | [] => none
    | m :: rest =>
      some (st.modP p fun q =>
        { q with mailbox := rest, handled := q.handled ++ [m], pc := if m.fails q.trap then .exiting else .recv })
  | .exiting =>
    some (st.modP p fun q => { q with pc := .notifyL q.links, closedL := true, snapL := q.links, liveL := st.byPid })
  | .notifyL [] =>
    some (st.modP p fun q => { q with pc := .notifyM q.monitors, closedM := true, snapM := q.monitors, liveM := st.byPid })
  | .notifyL (x :: xs) =>
    match (x :: xs)[k]? with
    | none => none
    | some a =>
      if a ∈ st.byPid then some (st.modP p fun q => { q with pc := .sendL a ((x :: xs).eraseIdx k) })
      else some (st.modP p fun q => { q with pc := .notifyL ((x :: xs).eraseIdx k), skipL := q.skipL ++ [a] })
  | .sendL a rest =>
    if (st.procs a).closed then some (st.modP p fun q => { q with pc := .notifyL rest, skipL := q.skipL ++ [a] })
    else if (st.procs a).mailbox.length < st.cap then
      some ((st.deliver (.proc p) a (.exit p)).modP p fun q => { q with pc := .notifyL rest, sentL := q.sentL ++ [a] })
    else none
  | .notifyM [] =>
    some ({ st with byPid := pidDel p st.byPid }.modP p fun q => { q with pc := .sweep })
  | .notifyM (x :: xs) =>
    match (x :: xs)[k]? with
    | none => none
    | some (a, r) =>
      if a ∈ st.byPid then some (st.modP p fun q => { q with pc := .sendM a r ((x :: xs).eraseIdx k) })
      else some (st.modP p fun q => { q with pc := .notifyM ((x :: xs).eraseIdx k), skipM := q.skipM ++ [(a, r)] })
  | .sendM a r rest =>
    if (st.procs a).closed then some (st.modP p fun q => { q with pc := .notifyM rest, skipM := q.skipM ++ [(a, r)] })
    else if (st.procs a).mailbox.length < st.cap then
      some ((st.deliver (.proc p) a (.monExit p r)).modP p fun q => { q with pc := .notifyM rest, sentM := q.sentM ++ [(a, r)] })
    else none
  | .sweep =>
    match st.nameLock with
    | some _ => none
    | none => some ({ st with byName := nameSweep p st.byName }.modP p fun q => { q with pc := .closing })
  | .closing => some (st.modP p fun q => { q with pc := .dead, closed := true })

/-! ### schedules -/

inductive Ev
  | start (t : Tid) (op : Op)     -- task `t`, which is between calls, calls `op` (no shared access yet)
  | cont (t : Tid)                -- task `t` takes the next atomic step of its call
  | proc (p : Pid) (k : Nat)      -- the task of process `p` takes its next step (`k`: which element a set iteration yields)
deriving DecidableEq, Repr

def stepEv (st : St) : Ev → Option St
  | .start t op => if st.cpc t = .idle then some (st.setC t op.entry) else none
  | .cont t => clientStep st t
  | .proc p k => procStep st p k

/-- run a schedule; an event that is not enabled is skipped -/
def run (st : St) (evs : List Ev) : St := evs.foldl (fun st e => (stepEv st e).getD st) st

/-- task `t` calls `op` and runs it to its end without interruption (at most eight steps: a `link` refused on both sides) -/
def callEvs (t : Tid) (op : Op) : List Ev := .start t op :: List.replicate 8 (.cont t)

/-! ### derived notions used by the statements -/

/-- the process has left `by_pid` for good -/
def PPc.gone : PPc → Bool
  | .sweep | .closing | .dead => true
  | _ => false

/-- the names are swept and the pid is out of `by_pid`: the task is about to end or has ended -/
def PPc.swept : PPc → Bool
  | .closing | .dead => true
  | _ => false

/-- the process is past its receive loop -/
def PPc.terminating : PPc → Bool
  | .none | .recv => false
  | _ => true

/-- finished reading and notifying its links -/
def PPc.linksDone : PPc → Bool
  | .notifyM _ | .sendM _ _ _ | .sweep | .closing | .dead => true
  | _ => false

/-- has read its link set -/
def PPc.startedL : PPc → Bool
  | .none | .recv | .exiting => false
  | _ => true

/-- the linked processes still to be visited -/
def PPc.todoL : PPc → List Pid
  | .notifyL t => t
  | .sendL a t => a :: t
  | _ => []

/-- the monitors still to be visited -/
def PPc.todoM : PPc → List (Pid × Ref)
  | .notifyM t => t
  | .sendM a r t => (a, r) :: t
  | _ => []

/-- finished notifying its monitors -/
def PPc.monsDone : PPc → Bool
  | .sweep | .closing | .dead => true
  | _ => false

/-- the late entry a client task is about to answer with a `noproc` exit signal: (the terminating process, the receiver) -/
def CPc.pendL : CPc → Option (Pid × Pid)
  | .lkA a b | .lkB a b => some (a, b)
  | .lkC a b | .lkD a b => some (b, a)
  | _ => none

/-- the late monitor a client task is about to answer with a `noproc` notice: (the terminating process, (watcher, reference)) -/
def CPc.pendM : CPc → Option (Pid × (Pid × Ref))
  | .monN1 a b r | .monN2 a b r => some (b, (a, r))
  | _ => none

/-- how often `m` occurs in what `p`'s mailbox accepted -/
def St.timesAccepted (st : St) (p : Pid) (m : Msg) : Nat := ((st.procs p).accepted.map (·.2)).count m

/-- the messages `p` accepted from client task `t`, in order -/
def St.acceptedFrom (st : St) (p : Pid) (t : Tid) : List Msg :=
  (st.procs p).accepted.filterMap fun e => if e.1 = .client t then some e.2 else none

/-- the messages task `t` sent (Ok) to `p`, in the order it issued them -/
def St.sentTo (st : St) (t : Tid) (p : Pid) : List Msg :=
  (st.sent t).filterMap fun e => if e.1 = p then some e.2 else none

/-! ### `ProcessRegistry` used directly, one call after the other -/

structure Reg where
  byPid : List Pid := []
  byName : List (Name × Pid) := []
deriving Repr, DecidableEq

def Reg.insert (r : Reg) (p : Pid) : Reg := { r with byPid := pidIns p r.byPid }
def Reg.remove (r : Reg) (p : Pid) : Reg := { byPid := pidDel p r.byPid, byName := nameSweep p r.byName }
def Reg.register (r : Reg) (n : Name) (p : Pid) : Reg × Res :=
  if p ∈ r.byPid then
    match nameFind n r.byName with
    | some _ => (r, .taken)
    | none => ({ r with byName := r.byName ++ [(n, p)] }, .ok)
  else (r, .noProc)
def Reg.unregister (r : Reg) (n : Name) : Reg × Res :=
  match nameFind n r.byName with
  | some _ => ({ r with byName := nameDel n r.byName }, .ok)
  | none => (r, .noName)
def Reg.whereis (r : Reg) (n : Name) : Option Pid := nameFind n r.byName
def Reg.registered (r : Reg) : List Name := r.byName.map (·.1)
def Reg.count (r : Reg) : Nat := r.byPid.length

/-! ## Behaviours: `GenServerProcess::handle_message`, `GenEventManager::handle_message` as functions of the message -/

def atomBytes (s : String) : Bytes := s.toUTF8.toList

/-- what `GenServerProcess::handle_message` does with the body of a `Regular` message -/
inductive GsAct
  | call (frm : PidF) (ref : Term) (req : Term)   -- `handle_call(req, from)`; `Reply(v)` is sent as `{ref, v}` to `from`
  | cast (req : Term)                             -- `handle_cast(req)`
  | info (body : Term)                            -- `handle_info(body)`
deriving Repr, BEq, Inhabited

def isRef : Term → Bool
  | .ref _ _ _ _ => true
  | _ => false

def gsDispatch (body : Term) : GsAct :=
  match body with
  | .tuple (.atom tag :: e1 :: rest) =>
    if tag = atomBytes "$gen_call" ∧ rest.length = 1 then
      match e1, rest with
      | .tuple [.pid fp, r], [req] => if isRef r then .call fp r req else .info body
      | _, _ => .info body
    else if tag = atomBytes "$gen_cast" ∧ rest.length = 0 then .cast e1
    else .info body
  | _ => .info body

/-- the server's answer to `handle_call` -/
inductive GsResult
  | reply (v : Term)
  | noReply
  | err                -- `handle_call` returned `Err`: the process terminates
deriving Repr, BEq, Inhabited

/-- the messages `handle_message` sends for one `Regular` body: (target pid, body) -/
def gsReplies (body : Term) (callResult : GsResult) : List (PidF × Term) :=
  match gsDispatch body, callResult with
  | .call fp r _, .reply v => [(fp, .tuple [r, v])]
  | _, _ => []

/-- what `GenEventManager::handle_message` does with a `Regular{from, body}` -/
inductive GeAct
  | notify (event : Term)                                  -- every handler's `handle_event`
  | syncNotify (event : Term)                              -- the same, then `ok` to the message's `from`
  | call (frm : PidF) (ref : Term) (handlerId req : Term)  -- that handler's `handle_call`; `{ref, reply | error}` to `from`
  | which (frm : PidF) (ref : Term)                        -- `{ref, [ids]}` to `from`
  | info (body : Term)                                     -- every handler's `handle_info`
deriving Repr, BEq, Inhabited

def geDispatch (body : Term) : GeAct :=
  match body with
  | .tuple (.atom tag :: e1 :: rest) =>
    if tag = atomBytes "$gen_notify" ∧ rest.length = 0 then .notify e1
    else if tag = atomBytes "$gen_sync_notify" ∧ rest.length = 0 then .syncNotify e1
    else if tag = atomBytes "$gen_call" ∧ rest.length = 2 then
      match e1, rest with
      | .tuple [.pid fp, r], [hid, req] => if isRef r then .call fp r hid req else .info body
      | _, _ => .info body
    else if tag = atomBytes "$gen_which_handlers" ∧ rest.length = 0 then
      match e1 with
      | .tuple [.pid fp, r] => if isRef r then .which fp r else .info body
      | _ => .info body
    else .info body
  | _ => .info body

/-- the messages the manager sends for one `Regular{from, body}`; `callReply`: what `call_handler` produced
(`none`: handler missing or its `handle_call` failed, answered with the atom `error`); `ids`: the handler ids -/
def geReplies (frm : Option PidF) (body : Term) (callReply : Option Term) (ids : List Term) : List (PidF × Term) :=
  match geDispatch body with
  | .notify _ => []
  | .syncNotify _ => match frm with | some f => [(f, .atom (atomBytes "ok"))] | none => []
  | .call fp r _ _ => [(fp, .tuple [r, callReply.getD (.atom (atomBytes "error"))])]
  | .which fp r => [(fp, .tuple [r, .list ids])]
  | .info _ => []

end Edp.Impl.Procs
