import EdpVerif.Impl.TableTie
import EdpVerif.Impl.Encode
import EdpVerif.Impl.Den
import EdpVerif.Spec.Etf
import EdpVerif.Lemmas.RoundTrip
import EdpVerif.Lemmas.Reencode
import EdpVerif.Lemmas.EncErr
import EdpVerif.Lemmas.SpecValid
/-
C01 — encode/decode round trip preserves the Erlang value of every term.
Property theorems only; helper lemmas live in EdpVerif/Lemmas.
-/
namespace Edp.Props.C01
open Edp Edp.Term

/-- table tie re-checked against the source on every run -/
theorem C01_tags_are_the_formats : Gen.VERSION = 131 ∧ Gen.SMALL_INTEGER_EXT = 97 ∧ Gen.NIL_EXT = 106 := by decide

/-- decoding what the encoder wrote returns the term's wire form (`wire t`: the same term with integers beyond 32 bits
as big integers, strings as binaries, the empty list as nil, improper lists with a nil tail as proper lists, maps
re-inserted in arrival order) — for every well-formed term within the nesting limit and every behaviour `x` of
the external calls.  `wfT` is documented in Lemmas/RoundTrip.lean (it excludes only what the Rust types cannot hold,
plus the listed representable terms the library's own decoder refuses). -/
theorem C01_roundtrip (x : Ext) (t : Term) (bs : Bytes) (hw : wfT t = true) (hd : dep t ≤ MAX_NESTING_DEPTH)
    (he : encode t = .ok bs) : decode x bs = .ok (wire t) := by
  unfold encode at he
  cases h : enc [] t with
  | error e => simp [h] at he
  | ok b =>
    simp [h] at he; subst he
    have hl := tsz_le_length [] t b hw h
    have := dec_enc x {} [] (cfgFor_nil _) (by simp) t b [] (b.length + 1 + x.extra) 0 hw (by omega) h (by omega)
    simp only [List.append_nil] at this
    simp [decode, decodeWith, this]

/-- a term with an i64 beyond 32 bits, an empty list, a string, a map and an improper list with nil tail -/
def ex1 : Term := .tuple [.int 1, .list [], .int 4294967296, .str [104, 105], .map [(.atom [97], .ilist [.int 2] .nil)]]

example (x : Ext) : decode x [131, 104, 5, 97, 1, 106, 110, 5, 0, 0, 0, 0, 0, 1, 109, 0, 0, 0, 2, 104, 105,
      116, 0, 0, 0, 1, 119, 1, 97, 108, 0, 0, 0, 1, 97, 2, 106] =
    .ok (.tuple [.int 1, .nil, .big false [0, 0, 0, 0, 1], .bin [104, 105], .map [(.atom [97], .list [.int 2])]]) :=
  C01_roundtrip x ex1 _ (by decide) (by decide) (by rfl)

/-- the same through the zero-copy decoder (every tag the encoder emits without a cache is in its tag set) -/
theorem C01_roundtrip_borrowed (x : Ext) (t : Term) (bs : Bytes) (hw : wfT t = true) (hd : dep t ≤ MAX_NESTING_DEPTH)
    (he : encode t = .ok bs) : decodeBorrowed x bs = .ok (wire t) := by
  unfold encode at he
  cases h : enc [] t with
  | error e => simp [h] at he
  | ok b =>
    simp [h] at he; subst he
    have hl := tsz_le_length [] t b hw h
    have := dec_enc x { borrowed := true } [] (cfgFor_nil _) (by simp) t b [] (b.length + 1 + x.extra) 0 hw (by omega) h (by omega)
    simp only [List.append_nil] at this
    simp [decodeBorrowed, decodeWith, this]

example (x : Ext) : decodeBorrowed x [131, 104, 2, 97, 1, 106] = .ok (.tuple [.int 1, .nil]) :=
  C01_roundtrip_borrowed x (.tuple [.int 1, .list []]) _ (by decide) (by decide) (by rfl)

/-! ### the value is preserved -/

/-- the decoded term denotes the same Erlang value as the original: for every well-formed term whose maps have
pairwise strictly increasing keys (`sortedKeys`: under `Term.cmp`, on the keys as they come back from the wire).
The guard is what makes `BTreeMap` re-insertion the identity; without it the decoder may reorder or merge entries
(C03 known finding: numerically equal keys of different type). -/
theorem C01_value_preserved (t : Term) (hw : wfT t = true) (hs : sortedKeys t = true) : den (wire t) = den t :=
  den_wire t hw hs

def ex2 : Term := .map [(.int 1, .str [104]), (.int 2, .int 5000000000), (.atom [97], .ilist [.int 2] (.list []))]

theorem C01_ex2_sorted : sortedKeys ex2 = true := by
  simp [ex2, sortedKeys, sortedKeysKV, sortedKeysL, pairwiseLt, allLt, wireKV, wire, wireL, Term.cmp, Term.norm, Term.cmpN]
  decide

example : wire ex2 = .map [(.int 1, .bin [104]), (.int 2, .big false [0, 242, 5, 42, 1]), (.atom [97], .list [.int 2])] := by
  have h := insertAll_sorted _ (by simpa [ex2, sortedKeys, sortedKeysKV, sortedKeysL] using C01_ex2_sorted :
    pairwiseLt (wireKV [(.int 1, .str [104]), (.int 2, .int 5000000000), (.atom [97], .ilist [.int 2] (.list []))]) = true)
  simp only [ex2, wire, h]
  simp [wireKV, wire, wireL, leN, sigLen]

example : den (wire ex2) = den ex2 := C01_value_preserved ex2 (by decide) C01_ex2_sorted

/-- normalisations: a string is the binary with the same bytes, the empty list is nil, and an i64 that comes back as a
big integer is the same integer -/
theorem C01_str_is_binary (s : Bytes) : den (.str s) = den (.bin s) := rfl

theorem C01_empty_list_is_nil : den (.list []) = den .nil := rfl

theorem C01_i64_as_big (i : Int) (h : -9223372036854775808 ≤ i ∧ i ≤ 9223372036854775807) :
    den (wire (.int i)) = .int i := den_wire_int i h

example : den (.big false [0, 242, 5, 42, 1]) = .int 5000000000 := by simp [den, bigVal, magVal]

/-! ### re-encoding -/

/-- re-encoding the decoded term yields the same bytes — for every term (no well-formedness needed) whose maps have
increasing keys and that contains no improper list with no elements and a nil tail -/
theorem C01_reencode (t : Term) (bs : Bytes) (hs : sortedKeys t = true) (hn : noEmptyImproper t = true)
    (he : encode t = .ok bs) : encode (wire t) = .ok bs := by
  unfold encode at he ⊢
  cases h : enc [] t with
  | error e => simp [h] at he
  | ok b => simp [h] at he; subst he; simp [enc_wire [] t b hs hn h]

example : ∃ bs, encode ex2 = .ok bs ∧ encode (wire ex2) = .ok bs :=
  ⟨_, rfl, C01_reencode ex2 _ C01_ex2_sorted (by decide) rfl⟩

/-- the full cycle: encode, decode with the library's decoder, encode again -/
theorem C01_decode_then_reencode (x : Ext) (t t' : Term) (bs : Bytes) (hw : wfT t = true)
    (hd : dep t ≤ MAX_NESTING_DEPTH) (hs : sortedKeys t = true) (hn : noEmptyImproper t = true)
    (he : encode t = .ok bs) (hdec : decode x bs = .ok t') : encode t' = .ok bs := by
  rw [C01_roundtrip x t bs hw hd he] at hdec
  cases hdec
  exact C01_reencode t bs hs hn he

/-- the excluded shape is a genuine exception: `ImproperList{elements: [], tail: Nil}` is written as
`108,0,0,0,0,106`, decoded as the empty list, and that is written as `106` -/
theorem C01_reencode_not_for_empty_improper :
    ∃ t bs, wfT t = true ∧ sortedKeys t = true ∧ encode t = .ok bs ∧ wire t = .list [] ∧ encode (.list []) = .ok [131, 106] ∧
      bs ≠ [131, 106] :=
  ⟨.ilist [] .nil, [131, 108, 0, 0, 0, 0, 106], by decide, by decide, rfl, rfl, rfl, by decide⟩

/-! ### errors are size-limit errors, exactly -/

/-- whenever the encoder reports an error — for ANY term, well-formed or not — the term contains a node that exceeds
the limit the error names (`over e t`, Lemmas/EncErr.lean): `atomTooLarge` an atom name (of an atom, of a plain
identifier's node, of a fun's module/function) longer than 65535 bytes; `binaryTooLarge` a binary, string or
bit-string longer than `u32::MAX` bytes; `listTooLarge` / `tupleTooLarge` / `mapTooLarge` more than `u32::MAX`
elements; `refTooLarge` a plain reference with more than 65535 id words -/
theorem C01_error_only_for_size (t : Term) (e : EncErr) (h : encode t = .error e) : over e t = true := by
  unfold encode at h
  cases h1 : enc [] t with
  | ok b => simp [h1] at h
  | error e' => simp [h1] at h; subst h; exact enc_err [] t e' h1

example : ∃ a : Bytes, encode (.tuple [.atom a]) = .error .atomTooLarge ∧ over .atomTooLarge (.tuple [.atom a]) = true := by
  refine ⟨List.replicate 65536 97, ?_⟩
  have h : (List.replicate 65536 (97 : UInt8)).length = 65536 := List.length_replicate
  generalize List.replicate 65536 (97 : UInt8) = a at h
  simp [encode, enc, encL, encAtom, indexOf?, u16max, over, overL, atomOver, h]

/-- and exactly then: the encoder fails if and only if some limit is exceeded -/
theorem C01_error_iff_over_limit (t : Term) : (∃ e, encode t = .error e) ↔ (∃ e, over e t = true) := by
  constructor
  · rintro ⟨e, h⟩; exact ⟨e, C01_error_only_for_size t e h⟩
  · rintro ⟨e, h⟩
    unfold encode
    cases h1 : enc [] t with
    | ok b => exact absurd h1 (enc_over t e b h)
    | error e' => exact ⟨e', rfl⟩

/-- within all limits the encoder succeeds -/
theorem C01_ok_within_limits (t : Term) (h : ∀ e, over e t = false) : ∃ bs, encode t = .ok bs := by
  cases h1 : encode t with
  | ok b => exact ⟨b, rfl⟩
  | error e => have := C01_error_only_for_size t e h1; rw [h e] at this; cases this

/-- the atom-table error of the distribution-header encoder never comes out of the plain encoder -/
theorem C01_never_too_many_atoms (t : Term) : encode t ≠ .error .tooManyAtoms := by
  intro h
  have := C01_error_only_for_size t _ h
  rw [over_tooManyAtoms] at this
  cases this

/-! ### the bytes are a valid encoding of the term's value -/

/-- the encoder's output is read by the INDEPENDENT reader of the External Term Format (`Spec.parseTop`, written from
the format's documentation) as exactly the value the term denotes, with nothing left over — for every well-formed term
(any nesting depth), any zlib behaviour of the reader.  Maps: the reader keeps arrival order and `den` keeps stored
order, so the equality is on the nose, no key-order guard.  Two guards, both excluding representable terms:
`finiteFloats` (NaN and the infinities are not Erlang floats; the encoder writes them without complaint, see
`C01_valid_not_for_nan`) and `bs.length ≤ u32::MAX` (NEW_FUN_EXT carries its own size as `(len + 4) as u32`,
silently truncated for a fun of 4 GiB or more). -/
theorem C01_valid (env : Spec.Env) (t : Term) (bs : Bytes) (hw : wfT t = true) (hfin : finiteFloats t = true)
    (he : encode t = .ok bs) (hsz : bs.length ≤ 4294967295) (hrefs : env.refs = []) :
    Spec.parseTop env bs = some (den t, []) := by
  unfold encode at he
  cases h : enc [] t with
  | error e => simp [h] at he
  | ok b =>
    simp [h] at he; subst he
    exact specTop_enc env [] (by simpa using hrefs) (by simp) t b hw hfin h (by simp at hsz; omega)

example : Spec.parseTop {} [131, 104, 5, 97, 1, 106, 110, 5, 0, 0, 0, 0, 0, 1, 109, 0, 0, 0, 2, 104, 105,
      116, 0, 0, 0, 1, 119, 1, 97, 108, 0, 0, 0, 1, 97, 2, 106] = some (den ex1, []) :=
  C01_valid {} ex1 _ (by decide) (by decide) (by rfl) (by decide) rfl

/-- with an atom cache (distribution header): the reader resolves ATOM_CACHE_REF through the same table -/
theorem C01_valid_cached (env : Spec.Env) (cache : List Bytes) (t : Term) (b r : Bytes) (hw : wfT t = true)
    (hfin : finiteFloats t = true) (he : enc cache t = .ok b) (hsz : b.length ≤ 4294967295)
    (hlen : cache.length ≤ 256) (hrefs : env.refs = cache.map cps) :
    Spec.parse env (b.length + 1) (b ++ r) = some (den t, r) :=
  spec_enc env cache hrefs hlen t b r (b.length + 1) hw hfin he (by omega)
    (by have := tsz_le_length cache t b hw he; omega)

example : Spec.parse { refs := [[97]] } 3 ([82, 0] ++ [7]) = some (.atom [97], [7]) :=
  C01_valid_cached { refs := [[97]] } [[97]] (.atom [97]) [82, 0] [7] (by decide) (by decide) (by rfl) (by decide) (by decide) (by rfl)

/-- the float guard is a genuine exception: a NaN is encoded without an error, and the bytes are not a valid encoding -/
theorem C01_valid_not_for_nan :
    ∃ t bs, wfT t = true ∧ encode t = .ok bs ∧ Spec.parseTop {} bs = none :=
  ⟨.float 0x7FF8000000000000, [131, 70, 0x7F, 0xF8, 0, 0, 0, 0, 0, 0], by decide, rfl, by
    simp [Spec.parseTop, Spec.parse, rdN]⟩

end Edp.Props.C01
