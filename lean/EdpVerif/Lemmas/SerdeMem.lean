import EdpVerif.Lemmas.SerdeBasic
import EdpVerif.Lemmas.SerdeFloat
/-! C15: the in-memory round trip `de ty (ser v) = ok v`, by induction over the type universe. -/
namespace Edp.Serde
open Edp Edp.Spec.Serde

def restOf : Val → List Term
  | .newtype _ v => [ser v]
  | .tuple xs => serL xs
  | .struct _ fs => [.map (insertAll (serFields fs))]
  | _ => []

theorem de_enum_serVariant (en vn : Bytes) (vs : List (Bytes × Ty)) (p : Val) :
    de (.enum en vs) (serVariant vn p) = deVariant en vn vs (restOf p) := by
  cases p <;> simp [serVariant, de, deStr, restOf]

def fieldTerms (fs : List (Bytes × Val)) : List (Bytes × Term) := fs.map fun f => (f.1, ser f.2)

theorem serFields_kvs : ∀ (fs : List (Bytes × Val)), serFields fs = kvs binKey (fieldTerms fs)
  | [] => rfl
  | (n, v) :: r => by simp [serFields, kvs, fieldTerms, binKey, serFields_kvs r]

theorem serAtomFields_kvs : ∀ (fs : List (Bytes × Val)), serAtomFields fs = kvs atomKey (fieldTerms fs)
  | [] => rfl
  | (n, v) :: r => by simp [serAtomFields, kvs, fieldTerms, atomKey, serAtomFields_kvs r]

theorem fieldTerms_names (fs : List (Bytes × Val)) : (fieldTerms fs).map (·.1) = fs.map (·.1) := by
  simp [fieldTerms, Function.comp_def]

theorem hasTyF_names : ∀ (fs : List (Bytes × Val)) (fts : List (Bytes × Ty)), hasTyF fs fts = true →
    fs.map (·.1) = fts.map (·.1)
  | [], [], _ => rfl
  | [], _ :: _, h => by simp [hasTyF] at h
  | _ :: _, [], h => by simp [hasTyF] at h
  | (n, v) :: fs, (n', t) :: fts, h => by
    simp only [hasTyF, Bool.and_eq_true, beq_iff_eq] at h
    simp [h.1.1, hasTyF_names fs fts h.2]

theorem serKV_eq_map : ∀ (l : List (Val × Val)), serKV l = l.map fun kv => (ser kv.1, ser kv.2)
  | [] => rfl
  | (k, v) :: r => by simp [serKV, serKV_eq_map r]

theorem keysOf_eq : ∀ (l : List (Val × Val)), keysOf l = (serKV l).map (·.1)
  | [] => rfl
  | (k, v) :: r => by simp [keysOf, serKV, keysOf_eq r]

theorem plainKV_all (f : Term → Term) : ∀ (l : List (Val × Val)),
    plainKV f l = l.all (fun kv => plainWith f kv.1 && plainWith f kv.2)
  | [] => rfl
  | (k, v) :: r => by simp [plainKV, plainKV_all f r]

mutual
theorem de_ser : ∀ (ty : Ty) (v : Val), hasTy v ty = true → Ty.wf ty = true → plainWith id v = true →
    de ty (ser v) = .ok v
  | .int k, v, h, _, _ => by
    cases v <;> simp [hasTy] at h
    obtain ⟨rfl, h2⟩ := h
    simp only [ser, de]
    exact deInt_serInt _ _ h2
  | .f32, v, h, _, hp => by
    cases v <;> simp [hasTy] at h
    simp only [plainWith, Bool.not_eq_true'] at hp
    simp [ser, de, f32_roundtrip _ h hp]
  | .f64, v, h, _, _ => by cases v <;> simp [hasTy] at h; simp [ser, de]
  | .bool, v, h, _, _ => by
    cases v with
    | bool b => cases b <;> simp [ser, de, sTrue, sFalse]
    | _ => simp [hasTy] at h
  | .char, v, h, _, _ => by
    cases v <;> simp [hasTy] at h
    simp [ser, de, deChar, utf8_one _ h]
  | .string, v, h, _, _ => by cases v <;> simp [hasTy] at h; simp [ser, de, deStr, h]
  | .bytes, v, h, _, _ => by cases v <;> simp [hasTy] at h; simp [ser, de]
  | .unit, v, h, _, _ => by cases v <;> simp [hasTy] at h; simp [ser, de]
  | .unitStruct n, v, h, _, _ => by cases v <;> simp [hasTy] at h; subst h; simp [ser, de]
  | .option t, v, h, hw, hp => by
    simp only [Ty.wf, Bool.and_eq_true, Bool.not_eq_true'] at hw
    cases v <;> simp [hasTy] at h
    · simp [ser, de, isUndef]
    · rename_i x
      simp only [plainWith] at hp
      simp only [ser, de, not_undef t x h hw.1, de_ser t x h hw.2 hp]
      simp
  | .newtype n t, v, h, hw, hp => by
    simp only [Ty.wf] at hw
    cases v <;> simp [hasTy] at h
    rename_i n' x
    obtain ⟨rfl, h2⟩ := h
    simp only [plainWith] at hp
    simp only [ser, de, de_ser t x h2 hw hp]
  | .tuple ts, v, h, hw, hp => by
    simp only [Ty.wf] at hw
    cases v <;> simp [hasTy] at h
    simp only [plainWith] at hp
    simp only [ser, de, deL_ser ts _ h hw hp]
  | .tupleStruct n ts, v, h, hw, hp => by
    simp only [Ty.wf] at hw
    cases v <;> simp [hasTy] at h
    obtain ⟨rfl, h2⟩ := h
    simp only [plainWith] at hp
    simp only [ser, de, deL_ser ts _ h2 hw hp]
  | .seq t, v, h, hw, hp => by
    simp only [Ty.wf] at hw
    cases v <;> simp [hasTy] at h
    rename_i vs
    simp only [plainWith, plainL_all, List.all_eq_true] at hp
    simp only [ser, de, serL_eq_map]
    rw [mapME_ok (de t) ser vs (fun b hb => de_ser t b (h b hb) hw (hp b hb))]
  | .map kt vt, v, h, hw, hp => by
    simp only [Ty.wf, Bool.and_eq_true] at hw
    cases v <;> simp [hasTy] at h
    rename_i l
    simp only [plainWith, Bool.and_eq_true, plainKV_all, List.all_eq_true] at hp
    have hasc : insertAll (serKV l) = serKV l := insertAll_asc _ (by rw [← keysOf_eq]; exact hp.2)
    simp only [ser, de]
    rw [hasc, serKV_eq_map]
    rw [mapME_ok _ (fun kv : Val × Val => (ser kv.1, ser kv.2)) l]
    intro kv hkv
    have h1 := h kv.1 kv.2 hkv
    have h2 := hp.1 kv hkv
    simp only [de_ser kt kv.1 h1.1 hw.1 h2.1, de_ser vt kv.2 h1.2 hw.2 h2.2]
  | .struct n fts, v, h, hw, hp => by
    simp only [Ty.wf, Bool.and_eq_true, List.all_eq_true] at hw
    cases v <;> simp [hasTy] at h
    rename_i n' fs
    obtain ⟨rfl, h2⟩ := h
    simp only [plainWith] at hp
    have hn := hasTyF_names fs fts h2
    have km := keyed_map binKey (fieldTerms fs) (by rw [fieldTerms_names, hn]; exact hw.1.1)
      (by
        intro x hx
        have : x.1 ∈ fts.map (·.1) := by rw [← hn, ← fieldTerms_names]; exact List.mem_map_of_mem hx
        obtain ⟨y, hy, e⟩ := List.mem_map.mp this
        rw [← e]; exact hw.1.2 y hy)
    rw [← serFields_kvs] at km
    simp only [ser, de, km.2.1, Bool.not_true, Bool.false_eq_true, if_false]
    rw [deFields_ser fts fs _ h2 hw.2 hp]
    intro f hf
    exact km.1 (f.1, ser f.2) (List.mem_map_of_mem hf)
  | .exStruct md fts, v, h, hw, hp => by
    simp only [Ty.wf, Bool.and_eq_true, Bool.not_eq_true', List.contains_eq_mem, decide_eq_false_iff_not] at hw
    cases v <;> simp [hasTy] at h
    rename_i md' fs
    obtain ⟨rfl, h2⟩ := h
    simp only [plainWith] at hp
    have hn := hasTyF_names fs fts h2
    have km := keyed_map atomKey ((sStructKey, Term.atom (sElixirDot ++ md')) :: fieldTerms fs)
      (by
        simp only [List.map_cons, namesDistinct, fieldTerms_names, hn, Bool.and_eq_true, Bool.not_eq_true',
          List.contains_eq_mem, decide_eq_false_iff_not]
        exact ⟨hw.1.2, hw.1.1⟩)
      (fun _ _ => rfl)
    have e : kvs atomKey ((sStructKey, Term.atom (sElixirDot ++ md')) :: fieldTerms fs) =
        (Term.atom sStructKey, Term.atom (sElixirDot ++ md')) :: serAtomFields fs := by
      rw [serAtomFields_kvs]; rfl
    rw [e] at km
    have hs := km.1 (sStructKey, Term.atom (sElixirDot ++ md')) (by simp)
    simp only [ser, de, km.2.1, hs, Bool.not_true, Bool.false_eq_true, if_false]
    simp only [List.all_cons, List.all_nil, deStr, beq_self_eq_true, Bool.and_true, Bool.not_true,
      Bool.false_eq_true, if_false, atomKey]
    rw [deExFields_ser fts fs _ h2 hw.2 hp (fun n hn e => hw.1.2 (e ▸ hn))]
    intro f hf
    exact km.1 (f.1, ser f.2) (List.mem_cons_of_mem _ (List.mem_map_of_mem hf))
  | .enum en vs, v, h, hw, hp => by
    simp only [Ty.wf, Bool.and_eq_true] at hw
    cases v <;> simp [hasTy] at h
    rename_i en' vn p
    obtain ⟨rfl, h2⟩ := h
    simp only [plainWith] at hp
    simp only [ser]
    rw [de_enum_serVariant, deVariant_ser vs en' vn p h2 hw.2 hp]
theorem deL_ser : ∀ (ts : List Ty) (vs : List Val), hasTyL vs ts = true → wfL ts = true → plainL id vs = true →
    deL ts (serL vs) = .ok vs
  | [], [], _, _, _ => by simp [serL, deL]
  | [], _ :: _, h, _, _ => by simp [hasTyL] at h
  | _ :: _, [], h, _, _ => by simp [hasTyL] at h
  | t :: ts, v :: vs, h, hw, hp => by
    simp only [hasTyL, Bool.and_eq_true] at h
    simp only [wfL, Bool.and_eq_true] at hw
    simp only [plainL, Bool.and_eq_true] at hp
    simp only [serL, deL, de_ser t v h.1 hw.1 hp.1, deL_ser ts vs h.2 hw.2 hp.2]
theorem deFields_ser : ∀ (fts : List (Bytes × Ty)) (fs : List (Bytes × Val)) (m : List (Term × Term)),
    hasTyF fs fts = true → wfF fts = true → plainF id fs = true →
    (∀ f ∈ fs, m.filter (keyIs f.1) = [(Term.bin f.1, ser f.2)]) → deFields fts m = .ok fs
  | [], [], _, _, _, _, _ => by simp [deFields]
  | [], _ :: _, _, h, _, _, _ => by simp [hasTyF] at h
  | _ :: _, [], _, h, _, _, _ => by simp [hasTyF] at h
  | (n, t) :: fts, (n', v) :: fs, m, h, hw, hp, hm => by
    simp only [hasTyF, Bool.and_eq_true, beq_iff_eq] at h
    obtain ⟨⟨rfl, h1⟩, h2⟩ := h
    simp only [wfF, Bool.and_eq_true] at hw
    simp only [plainF, Bool.and_eq_true] at hp
    have e := hm (n', v) (by simp)
    simp only at e
    simp only [deFields, e, de_ser t v h1 hw.1 hp.1,
      deFields_ser fts fs m h2 hw.2 hp.2 (fun f hf => hm f (by simp [hf]))]
theorem deExFields_ser : ∀ (fts : List (Bytes × Ty)) (fs : List (Bytes × Val)) (m : List (Term × Term)),
    hasTyF fs fts = true → wfF fts = true → plainF id fs = true → (∀ n ∈ fts.map (·.1), n ≠ sStructKey) →
    (∀ f ∈ fs, m.filter (keyIs f.1) = [(Term.atom f.1, ser f.2)]) → deExFields fts m = .ok fs
  | [], [], _, _, _, _, _, _ => by simp [deExFields]
  | [], _ :: _, _, h, _, _, _, _ => by simp [hasTyF] at h
  | _ :: _, [], _, h, _, _, _, _ => by simp [hasTyF] at h
  | (n, t) :: fts, (n', v) :: fs, m, h, hw, hp, hk, hm => by
    simp only [hasTyF, Bool.and_eq_true, beq_iff_eq] at h
    obtain ⟨⟨rfl, h1⟩, h2⟩ := h
    simp only [wfF, Bool.and_eq_true] at hw
    simp only [plainF, Bool.and_eq_true] at hp
    have e := hm (n', v) (by simp)
    simp only at e
    have hne : n' ≠ sStructKey := hk n' (by simp)
    simp only [deExFields, hne, if_false, e, mapME, de_ser t v h1 hw.1 hp.1, List.getLast?_singleton,
      deExFields_ser fts fs m h2 hw.2 hp.2 (fun x hx => hk x (by simp at hx ⊢; exact Or.inr hx))
        (fun f hf => hm f (by simp [hf]))]
theorem deVariant_ser : ∀ (vs : List (Bytes × Ty)) (en vn : Bytes) (p : Val),
    hasTyV vn p vs = true → wfV vs = true → plainWith id p = true →
    deVariant en vn vs (restOf p) = .ok (.variant en vn p)
  | [], _, _, _, h, _, _ => by simp [hasTyV] at h
  | (n, sh) :: vs, en, vn, p, h, hw, hp => by
    simp only [wfV, Bool.and_eq_true] at hw
    by_cases hn : n = vn
    · subst hn
      simp only [hasTyV, if_true] at h
      simp only [deVariant, if_true]
      cases sh with
      | unit => cases p <;> simp [hasTyP] at h; simp [deShape, restOf]
      | newtype nm t =>
        cases p <;> simp [hasTyP] at h
        rename_i n' x
        obtain ⟨rfl, h2⟩ := h
        simp only [plainWith] at hp
        simp only [wfShape] at hw
        simp only [deShape, restOf, de_ser t x h2 hw.1 hp]
      | tuple ts =>
        cases p <;> simp [hasTyP] at h
        rename_i xs
        simp only [plainWith] at hp
        simp only [wfShape] at hw
        simp only [deShape, restOf, deL_ser ts xs h hw.1 hp]
      | struct nm fts =>
        cases p <;> simp [hasTyP] at h
        rename_i n' fs
        obtain ⟨rfl, h2⟩ := h
        simp only [plainWith] at hp
        simp only [wfShape, Bool.and_eq_true, List.all_eq_true] at hw
        have hn := hasTyF_names fs fts h2
        have km := keyed_map binKey (fieldTerms fs) (by rw [fieldTerms_names, hn]; exact hw.1.1.1)
          (by
            intro x hx
            have : x.1 ∈ fts.map (·.1) := by rw [← hn, ← fieldTerms_names]; exact List.mem_map_of_mem hx
            obtain ⟨y, hy, e⟩ := List.mem_map.mp this
            rw [← e]; exact hw.1.1.2 y hy)
        rw [← serFields_kvs] at km
        simp only [deShape, restOf, km.2.1, Bool.not_true, Bool.false_eq_true, if_false]
        rw [deFields_ser fts fs _ h2 hw.1.2 hp]
        intro f hf
        exact km.1 (f.1, ser f.2) (List.mem_map_of_mem hf)
      | _ => cases p <;> simp [hasTyP] at h
    · simp only [hasTyV, hn, if_false] at h
      simp only [deVariant, hn, if_false]
      exact deVariant_ser vs en vn p h hw.2 hp
end

end Edp.Serde
