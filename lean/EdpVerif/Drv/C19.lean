import EdpVerif.Drv.Etf
import EdpVerif.Drv.C05
import EdpVerif.Generated.Control
import EdpVerif.Impl.Receiver
import EdpVerif.Impl.ReceiverBP
import EdpVerif.Spec.Receiver
namespace Edp.Drv
open Edp Edp.Framing Edp.Receiver

namespace C19

def tbl : Control.Table := Gen.controlTable

structure DWorld where
  node : Bytes
  live : List PidF
  names : List (Bytes × PidF)
  calls : List RpcKey

def getPid (s : String) : Except String PidF :=
  match Term.ofText s with
  | some (.pid p) => .ok p
  | _ => .error ("bad-pid " ++ s.take 40)

def listOf (s : String) : List String := if s.isEmpty then [] else s.splitOn "/"

def getCall (s : String) : Except String RpcKey :=
  match s.splitOn "." with
  | [a, b, c] =>
    match a.toNat?, b.toNat?, c.toNat? with
    | some x, some y, some z => .ok (x, y, z)
    | _, _, _ => .error "bad-call"
  | _ => .error "bad-call"

def getName (s : String) : Except String (Bytes × PidF) :=
  match Control.splitFirst s ':' with
  | some (n, p) => do
    let nb ← C05.getBytes n
    let pid ← getPid p
    pure (nb, pid)
  | none => .error "bad-name"

/-- `n=<hex>;p=<pid>/..;r=<hex>:<pid>/..;c=<id>.<serial>.<creation>/..` -/
def getWorld (s : String) : Except String DWorld :=
  match s.splitOn ";" with
  | [n, p, r, c] =>
    match Control.splitFirst n '=', Control.splitFirst p '=', Control.splitFirst r '=', Control.splitFirst c '=' with
    | some ("n", nv), some ("p", pv), some ("r", rv), some ("c", cv) => do
      let node ← C05.getBytes nv
      let live ← (listOf pv).mapM getPid
      let names ← (listOf rv).mapM getName
      let calls ← (listOf cv).mapM getCall
      pure ⟨node, live, names, calls⟩
    | _, _, _, _ => .error "bad-world"
  | _ => .error "bad-world"

def getItem (t : String) : Except String Item :=
  match t.toList with
  | ['t'] => .ok .tick
  | ['e'] => .ok .close
  | 'f' :: r => (C05.getBytes (String.ofList r)).map .frame
  | 'r' :: r => (C05.getBytes (String.ofList r)).map .raw
  | 'q' :: r =>
    match (String.ofList r).toNat? with
    | some ms => .ok (.quiet ms)
    | none => .error "bad-quiet"
  | 'o' :: r =>
    match (String.ofList r).toNat? with
    | some n => .ok (.overlong n)
    | none => .error "bad-overlong"
  | 'x' :: r =>
    match Control.splitFirst (String.ofList r) '.' with
    | some (n, part) =>
      match n.toNat? with
      | some len => (C05.getBytes part).map (.cut len)
      | none => .error "bad-cut"
    | none => .error "bad-cut"
  | _ => .error "bad-item"

def getHistory (s : String) : Except String (List Item) :=
  if s == "-" then .ok [] else (s.splitOn "/").mapM getItem

def initial (w : DWorld) : NodeSt :=
  { procs := w.live.map fun p => (p.key, [])
    names := w.names.map fun (n, p) => (n, p.key)
    pending := w.calls
    replies := [] }

def joinOr (sep : String) (l : List String) : String := if l.isEmpty then "-" else sep.intercalate l

/-- the model's prediction of what the harness observes after `h` has been sent and absorbed: the peer stays silent
from then on (the sentinel `stall`), so the loop is still running exactly when it is that silence that ends it -/
def predict (x : Ext) (w : DWorld) (h : List Item) : String :=
  let fin := loop x tbl (initial w) (wire idleLimitMs 0 h ++ [.stall])
  let status :=
    if fin.why == .panic then "crashed"
    else if fin.why == .timeout && fin.rest.isEmpty then "alive" else "stopped"
  let logs := w.live.map fun p =>
    match mailbox fin.node p.key with
    | some mb => joinOr "/" (mb.map LMsg.text)
    | none => "gone"
  let rpcs := w.calls.map fun k =>
    match fin.node.replies.find? (fun r => r.1 == k) with
    | some (_, t) => "ok!" ++ t.text
    | none => "-"
  status ++ "@" ++ ";".intercalate logs ++ "@" ++ joinOr ";" rpcs

/-- events of the direct-call harness: `c<hex>` one write, `q<ms>` silence, `e` close. A silence is `Pending` polls
while the silence since the last write stays below the limit, and the timeout firing otherwise. -/
def getRxEvs (limit : Nat) (s : String) : Except String (List Ev) :=
  let rec go (ts : List String) (w : Nat) : Except String (List Ev) :=
    match ts with
    | [] => .ok []
    | t :: r =>
      match t.toList with
      | ['e'] => (go r 0).map (.eof :: ·)
      | 'c' :: hx =>
        match C05.unhexTR hx [] with
        | some b => (go r 0).map (.chunk b :: ·)
        | none => .error "bad-chunk"
      | 'q' :: d =>
        match (String.ofList d).toNat? with
        | some ms => if w + ms < limit then (go r (w + ms)).map (.pending :: ·) else (go r 0).map (.stall :: ·)
        | none => .error "bad-quiet"
      | _ => .error "bad-event"
  go (s.splitOn ",") 0

def showRx : Except RxErr Received → String
  | .error e => e.text
  | .ok (m, p) =>
    "ok!" ++ (match Control.toTerm tbl m with | some t => t.text | none => "?") ++ "!" ++
      (match p with | some t => t.text | none => "-")

/-! ### the oracle: the observed outcome against Spec/Receiver.lean -/

open Spec.Receiver in
def specWorld (w : DWorld) : Spec.Receiver.World :=
  { node := cps w.node
    live := w.live.map fun p => (Term.pid p).den
    names := w.names.map fun (n, p) => (cps n, (Term.pid p).den)
    calls := w.calls }

def specItem : Item → Spec.Receiver.Item
  | .frame [] => .tick
  | .frame b => .frame b
  | .tick => .tick
  | .quiet ms => .quiet ms
  | .overlong _ => .overlong
  | .cut _ _ => .cut
  | .raw _ => .raw
  | .close => .close

def getNote (s : String) : Except String Spec.Receiver.Note :=
  match s.splitOn "!" with
  | ["reg", b] => do pure (.message (← getTerm b).den)
  | ["exit", p, r] => do pure (.exit (← getTerm p).den (← getTerm r).den)
  | ["mon", p, f, r] => do pure (.down (← getTerm p).den (← getTerm f).den (← getTerm r).den)
  | _ => .error ("unexpected-entry " ++ s.take 60)

def getBox (s : String) : Except String (List Spec.Receiver.Note) :=
  if s == "-" then .ok [] else (s.splitOn "/").mapM getNote

def getResult (s : String) : Except String (Option Value) :=
  if s == "-" then .ok none else
  match s.splitOn "!" with
  | ["ok", t] => do pure (some (← getTerm t).den)
  | _ => .error ("unexpected-result " ++ s.take 60)

def sameBox : List Spec.Receiver.Note → List Spec.Receiver.Note → Bool
  | [], [] => true
  | a :: r, b :: q => a.same b && sameBox r q
  | _, _ => false

def boxText (b : List Spec.Receiver.Note) : String := "[" ++ ", ".intercalate (b.map (·.text)) ++ "]"

def judge (env : Spec.Env) (w : DWorld) (h : List Item) (observed : String) : Except String String := do
  let e := Spec.Receiver.expect env (specWorld w) (h.map specItem)
  match observed.splitOn "@" with
  | [status, logs, rpcs] =>
    let fateOk := match e.fate with
      | .alive => status == "alive"
      | .gone => status == "stopped"
      | .either => status == "alive" || status == "stopped"
    if !fateOk then
      pure ("FAIL connection " ++ status ++ " where the protocol expects " ++ reprStr e.fate)
    else if !e.judged then pure "ok"
    else
      let boxes ← (if w.live.isEmpty then [] else logs.splitOn ";").mapM getBox
      let results ← (if w.calls.isEmpty then [] else rpcs.splitOn ";").mapM getResult
      if boxes.length != e.boxes.length then pure "FAIL number of processes" else
      match (List.range boxes.length).find? (fun i => !sameBox (boxes.getD i []) (e.boxes.getD i [])) with
      | some i =>
        pure ("FAIL process " ++ toString i ++ " received " ++ boxText (boxes.getD i []) ++ " expected " ++
          boxText (e.boxes.getD i []))
      | none =>
        if results.length != e.results.length then pure "FAIL number of calls" else
        match (List.range results.length).find? (fun i =>
            match results.getD i none, e.results.getD i none with
            | none, none => false
            | some a, some b => !Value.same a b
            | _, _ => true) with
        | some i => pure ("FAIL call " ++ toString i ++ " got " ++
            (match results.getD i none with | some v => v.text | none => "nothing") ++ " expected " ++
            (match e.results.getD i none with | some v => v.text | none => "nothing"))
        | none => pure "ok"
  | _ => pure ("FAIL " ++ observed.take 80)


/-! ### full mailboxes: the bounded system (`Impl/ReceiverBP.lean`) with the capacity and the send forms of the source -/

open ReceiverBP in
/-- `c19bp`: process `gi` is held in its handler with `fills` filler messages accepted (one taken, the rest queued); the
frames of `h` have been read by the receiver. "before": what has arrived anywhere while the gated process takes nothing
(the receiver steps as often as it can); "after": the gate is open, everything drains. The capacity is
`DEFAULT_MAILBOX_CAPACITY` of the source, the forms are `srcRouteForms`. -/
def predictFull (x : Ext) (w : DWorld) (h : List Item) (gi fills : Nat) : String :=
  let cap := Gen.MAILBOX_DEFAULT_CAPACITY
  let fill : LMsg := .regular (.atom "fill".toUTF8.toList)
  let isFill : LMsg → Bool := fun m => match m with | .regular (.atom a) => a == "fill".toUTF8.toList | _ => false
  let bodies := h.filterMap fun | .frame b => (if b.isEmpty then none else some b) | _ => none
  let boxes : List Box := (List.range w.live.length).map fun i =>
    let p := w.live.getD i default
    if i = gi then ⟨p.key, List.replicate (min fills 1) fill, List.replicate (fills - 1) fill⟩ else ⟨p.key, [], []⟩
  let s0 : Sys := ⟨⟨boxes, w.names.map fun (n, p) => (n, p.key), w.calls, [], []⟩, bodies.map (classify x tbl), []⟩
  let gk := (w.live.getD gi default).key
  let others := (List.range w.live.length).filter (· ≠ gi) |>.map fun i => (w.live.getD i default).key
  -- the other processes take at once; the gated one takes nothing
  let round1 : List ReceiverBP.Ev := .rx :: others.map .take
  let s1 := runB srcRouteForms cap s0 ((List.replicate (bodies.length + 1) round1).flatten)
  let round2 : List ReceiverBP.Ev := [.take gk, .rx] ++ others.map .take
  let s2 := runB srcRouteForms cap s1 ((List.replicate (fills + 2 * bodies.length + 2) round2).flatten)
  let show1 (s : Sys) (handledOnly : Bool) : String :=
    let logs := s.b.boxes.map fun b =>
      let l := (if handledOnly && b.key == gk then b.taken else b.taken ++ b.queue).filter (fun m => !isFill m)
      joinOr "/" (l.map LMsg.text)
    let rpcs := w.calls.map fun k =>
      match s.b.replies.find? (fun r => r.1 == k) with
      | some (_, t) => "ok!" ++ t.text
      | none => "-"
    ";".intercalate logs ++ "@" ++ joinOr ";" rpcs
  show1 s1 true ++ "|" ++ show1 s2 false ++ (if s2.b.dropped.isEmpty && s2.todo.isEmpty then "" else "@undelivered")

end C19

/-- driver requests of property C19 -/
def handleC19 : List String → Option String
  -- `c19node <oracle> <world> <history>`
  | ["c19node", o, w, h] => some <| run do
    let w ← C19.getWorld w
    let h ← C19.getHistory h
    pure (C19.predict (parseOracle o).ext w h)
  -- `c19bp <oracle> <world> <history> <gated index> <fillers>`
  | ["c19bp", o, w, h, gi, fills] => some <| run do
    let w ← C19.getWorld w
    let h ← C19.getHistory h
    pure (C19.predictFull (parseOracle o).ext w h gi.toNat! fills.toNat!)
  -- `c19rx <limit> <oracle> <events>`
  | ["c19rx", limit, o, evs] => some <| run do
    let evs ← C19.getRxEvs limit.toNat! evs
    pure (",".intercalate ((rxAll (parseOracle o).ext C19.tbl evs).map C19.showRx))
  -- `c19spec <oracle> <world> <history> <observed>`
  | ["c19spec", o, w, h, obs] => some <| run do
    let w ← C19.getWorld w
    let h ← C19.getHistory h
    C19.judge (parseOracle o).env w h obs
  | _ => none

end Edp.Drv
