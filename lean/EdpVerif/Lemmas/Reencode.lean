import EdpVerif.Lemmas.RoundTrip
import EdpVerif.Lemmas.CmpSwap
import EdpVerif.Impl.Den
/-! Re-encoding the decoded term (`enc (wire t) = enc t`) and the value it denotes (`den (wire t) = den t`). -/
namespace Edp

/-! ### map insertion in increasing key order is appending -/

def allLt (k : Term) (r : List (Term × Term)) : Bool := r.all (fun kv => Term.cmp k kv.1 == .lt)

/-- every key is strictly below every later key (`Term.cmp`), pairwise — what iterating a `BTreeMap` yields -/
def pairwiseLt : List (Term × Term) → Bool
  | [] => true
  | (k, _) :: r => allLt k r && pairwiseLt r

theorem mapInsert_append (acc : List (Term × Term)) (k v : Term)
    (h : ∀ a ∈ acc, Term.cmp a.1 k = .lt) : mapInsert acc k v = acc ++ [(k, v)] := by
  induction acc with
  | nil => simp [mapInsert]
  | cons a acc ih =>
    obtain ⟨k', v'⟩ := a
    have h1 := h (k', v') (by simp)
    have h2 : Term.cmp k k' = .gt := by rw [Term.cmp_swap, h1]; rfl
    simp only [mapInsert, h2, List.cons_append]
    rw [ih (fun a ha => h a (by simp [ha]))]

theorem insertAll_append (acc kvs : List (Term × Term))
    (h1 : ∀ a ∈ acc, ∀ b ∈ kvs, Term.cmp a.1 b.1 = .lt) (h2 : pairwiseLt kvs = true) :
    insertAll acc kvs = acc ++ kvs := by
  induction kvs generalizing acc with
  | nil => simp [insertAll]
  | cons kv r ih =>
    obtain ⟨k, v⟩ := kv
    simp only [pairwiseLt, Bool.and_eq_true, allLt, List.all_eq_true, beq_iff_eq] at h2
    simp only [insertAll]
    rw [mapInsert_append acc k v (fun a ha => h1 a ha (k, v) (by simp))]
    rw [ih (acc ++ [(k, v)]) ?_ h2.2]
    · simp
    · intro a ha b hb
      simp only [List.mem_append, List.mem_singleton] at ha
      rcases ha with ha | rfl
      · exact h1 a ha b (by simp [hb])
      · exact h2.1 b hb

theorem insertAll_sorted (kvs : List (Term × Term)) (h : pairwiseLt kvs = true) : insertAll [] kvs = kvs := by
  simpa using insertAll_append [] kvs (by simp) h


/-! ### guards -/

mutual
/-- every map in the term has its keys (as they come back from the wire) pairwise strictly increasing — true of any
term whose maps were built as `BTreeMap`s, provided the order does not change under `wire` -/
def sortedKeys : Term → Bool
  | .list l => sortedKeysL l
  | .ilist l t => sortedKeysL l && sortedKeys t
  | .map kvs => sortedKeysKV kvs && pairwiseLt (wireKV kvs)
  | .tuple l => sortedKeysL l
  | .ifun _ _ _ _ _ _ _ _ fr => sortedKeysL fr
  | _ => true
def sortedKeysL : List Term → Bool
  | [] => true
  | t :: ts => sortedKeys t && sortedKeysL ts
def sortedKeysKV : List (Term × Term) → Bool
  | [] => true
  | (k, v) :: r => sortedKeys k && sortedKeys v && sortedKeysKV r
end

mutual
/-- no improper list with no elements and a nil tail (`ImproperList{elements: [], tail: Nil}`: written as
`108,0,0,0,0,106`, read back as the empty list, which is written as `106`) -/
def noEmptyImproper : Term → Bool
  | .list l => noEmptyImproperL l
  | .ilist l t => noEmptyImproperL l && noEmptyImproper t && !(l.isEmpty && (wire t).isNil)
  | .map kvs => noEmptyImproperKV kvs
  | .tuple l => noEmptyImproperL l
  | .ifun _ _ _ _ _ _ _ _ fr => noEmptyImproperL fr
  | _ => true
def noEmptyImproperL : List Term → Bool
  | [] => true
  | t :: ts => noEmptyImproper t && noEmptyImproperL ts
def noEmptyImproperKV : List (Term × Term) → Bool
  | [] => true
  | (k, v) :: r => noEmptyImproper k && noEmptyImproper v && noEmptyImproperKV r
end

theorem wireL_length (l : List Term) : (wireL l).length = l.length := by
  induction l with
  | nil => simp [wireL]
  | cons a l ih => simp [wireL, ih]

theorem wireKV_length (l : List (Term × Term)) : (wireKV l).length = l.length := by
  induction l with
  | nil => simp [wireKV]
  | cons a l ih => obtain ⟨k, v⟩ := a; simp [wireKV, ih]

theorem enc_wire_int (cache : List Bytes) (i : Int) : enc cache (wire (.int i)) = .ok (encInt i) := by
  unfold wire
  by_cases h : -2147483648 ≤ i ∧ i ≤ 2147483647
  · simp [h, enc]
  · have hlen : 1 ≤ (leN 8 i.natAbs).length := by simp [leN_length]
    have hs := sigLen_le (leN 8 i.natAbs) hlen
    have hs8 : sigLen (leN 8 i.natAbs) ≤ 8 := by simpa [leN_length] using hs
    have htl : ((leN 8 i.natAbs).take (sigLen (leN 8 i.natAbs))).length = sigLen (leN 8 i.natAbs) := by
      simp [leN_length]; omega
    have h0 : ¬ (0 ≤ i ∧ i ≤ 255) := by omega
    simp only [h, ↓reduceIte, enc, encBig, htl, encInt, h0]
    have : sigLen (leN 8 i.natAbs) ≤ 255 := by omega
    simp only [this, ↓reduceIte, be8, beN]
    by_cases hn : i < 0
    · have : ¬ i ≥ 0 := by omega
      simp [hn, this]
    · have : i ≥ 0 := by omega
      simp [hn, this]

theorem wire_ilist_nil (l : List Term) (t : Term) (h : wire t = .nil) : wire (.ilist l t) = .list (wireL l) := by
  simp [wire, h]

theorem wire_ilist_not_nil (l : List Term) (t : Term) (h : (wire t).isNil = false) :
    wire (.ilist l t) = .ilist (wireL l) (wire t) := by
  simp only [wire]
  cases hw : wire t <;> simp_all [Term.isNil]

theorem enc_list (cache : List Bytes) (l : List Term) : enc cache (.list l) =
    if l.isEmpty then .ok [106]
    else if l.length > u32max then .error .listTooLarge
    else match encL cache l with
      | .ok bs => .ok (108 :: be32 l.length ++ bs ++ [106])
      | .error e => .error e := by
  simp only [enc]; rfl

theorem enc_ilist (cache : List Bytes) (l : List Term) (t : Term) : enc cache (.ilist l t) =
    if l.length > u32max then .error .listTooLarge
    else match encL cache l with
      | .ok bs => match enc cache t with
        | .ok tb => .ok (108 :: be32 l.length ++ bs ++ tb)
        | .error e => .error e
      | .error e => .error e := by
  simp only [enc]; rfl

mutual
theorem enc_wire (cache : List Bytes) (t : Term) (bs : Bytes) (hs : sortedKeys t = true) (hn : noEmptyImproper t = true)
    (he : enc cache t = .ok bs) : enc cache (wire t) = .ok bs := by
  match t with
  | .atom a => simpa [wire] using he
  | .int i => simp only [enc, Except.ok.injEq] at he; subst he; exact enc_wire_int cache i
  | .float b => simpa [wire] using he
  | .bin b => simpa [wire] using he
  | .str b => simpa [wire, enc] using he
  | .bits b n => simpa [wire] using he
  | .big neg dg => simpa [wire] using he
  | .nil => simpa [wire] using he
  | .pid p => simpa [wire] using he
  | .port n i c l => simpa [wire] using he
  | .ref n c ids l => simpa [wire] using he
  | .xfun m fn a => simpa [wire] using he
  | .tuple l =>
    simp only [sortedKeys] at hs; simp only [noEmptyImproper] at hn
    simp only [enc] at he
    cases hl : encL cache l with
    | error e => simp only [hl] at he; (repeat' split at he) <;> simp at he
    | ok lb =>
      have ih := encL_wire cache l lb hs hn hl
      simp only [wire, enc, wireL_length, ih]
      simpa [hl] using he
  | .list l =>
    simp only [sortedKeys] at hs; simp only [noEmptyImproper] at hn
    simp only [enc] at he
    cases hl : encL cache l with
    | error e =>
      cases l with
      | nil => simp [encL] at hl
      | cons a l' => simp only [hl, List.isEmpty_cons, Bool.false_eq_true, ↓reduceIte] at he; (repeat' split at he) <;> simp at he
    | ok lb =>
      have ih := encL_wire cache l lb hs hn hl
      cases l with
      | nil => simpa [wire, enc] using he
      | cons a l' =>
        have hne : (wireL (a :: l')).isEmpty = false := by simp [wireL]
        simp only [wire, enc, wireL_length, ih, hne]
        simpa [hl] using he
  | .ilist l tl =>
    simp only [sortedKeys, Bool.and_eq_true] at hs
    simp only [noEmptyImproper, Bool.and_eq_true, Bool.not_eq_true', Bool.and_eq_false_iff] at hn
    simp only [enc] at he
    split at he
    · simp at he
    · rename_i hlen
      cases hl : encL cache l with
      | error e => simp [hl] at he
      | ok lb =>
        cases ht : enc cache tl with
        | error e => simp [hl, ht] at he
        | ok tb =>
          simp [hl, ht] at he; subst he
          have ih := encL_wire cache l lb hs.1 hn.1.1 hl
          have iht := enc_wire cache tl tb hs.2 hn.1.2 ht
          by_cases hnil : (wire tl).isNil = true
          · have hwt : wire tl = .nil := by
              cases hw : wire tl <;> simp [hw, Term.isNil] at hnil
              rfl
            rw [hwt] at iht
            simp only [enc, Except.ok.injEq] at iht
            have hne : (wireL l).isEmpty = false := by
              rcases hn.2 with h | h
              · cases l with
                | nil => simp at h
                | cons a l' => simp [wireL]
              · simp [hwt, Term.isNil] at h
            rw [wire_ilist_nil l tl hwt, enc_list]
            simp [hne, wireL_length, hlen, ih, ← iht]
          · rw [wire_ilist_not_nil l tl (by simpa using hnil), enc_ilist]
            simp [wireL_length, hlen, ih, iht]
  | .map kvs =>
    simp only [sortedKeys, Bool.and_eq_true] at hs; simp only [noEmptyImproper] at hn
    simp only [enc] at he
    split at he
    · simp at he
    · rename_i hlen
      cases hl : encKV cache kvs with
      | error e => simp [hl] at he
      | ok lb =>
        have ih := encKV_wire cache kvs lb hs.1 hn hl
        simp [hl] at he; subst he
        simp only [wire, insertAll_sorted _ hs.2, enc, wireKV_length, hlen, ↓reduceIte, ih]
        simp
  | .ifun a u i nf m oi ou p fr =>
    simp only [sortedKeys] at hs; simp only [noEmptyImproper] at hn
    simp only [enc] at he
    cases hma : encAtom cache m with
    | error e => simp [hma] at he
    | ok mb =>
      cases hpa : encPid cache p with
      | error e => simp [hma, hpa] at he
      | ok pb =>
        cases hfa : encL cache fr with
        | error e => simp [hma, hpa, hfa] at he
        | ok fb =>
          have ih := encL_wire cache fr fb hs hn hfa
          simp only [hma, hpa, hfa] at he
          simp only [wire, enc, hma, hpa, ih]
          exact he
termination_by sizeOf t
decreasing_by all_goals (simp_wf; try omega)
theorem encL_wire (cache : List Bytes) (l : List Term) (bs : Bytes) (hs : sortedKeysL l = true)
    (hn : noEmptyImproperL l = true) (he : encL cache l = .ok bs) : encL cache (wireL l) = .ok bs := by
  match l with
  | [] => simpa [wireL] using he
  | t :: ts =>
    simp only [sortedKeysL, Bool.and_eq_true] at hs
    simp only [noEmptyImproperL, Bool.and_eq_true] at hn
    simp only [encL] at he
    cases h1 : enc cache t with
    | error e => simp [h1] at he
    | ok a =>
      cases h2 : encL cache ts with
      | error e => simp [h1, h2] at he
      | ok b =>
        simp [h1, h2] at he; subst he
        simp [wireL, encL, enc_wire cache t a hs.1 hn.1 h1, encL_wire cache ts b hs.2 hn.2 h2]
termination_by sizeOf l
decreasing_by all_goals (simp_wf; try omega)
theorem encKV_wire (cache : List Bytes) (kvs : List (Term × Term)) (bs : Bytes) (hs : sortedKeysKV kvs = true)
    (hn : noEmptyImproperKV kvs = true) (he : encKV cache kvs = .ok bs) : encKV cache (wireKV kvs) = .ok bs := by
  match kvs with
  | [] => simpa [wireKV] using he
  | (k, v) :: ts =>
    simp only [sortedKeysKV, Bool.and_eq_true] at hs
    simp only [noEmptyImproperKV, Bool.and_eq_true] at hn
    simp only [encKV] at he
    cases h1 : enc cache k with
    | error e => simp [h1] at he
    | ok a =>
      cases h2 : enc cache v with
      | error e => simp [h1, h2] at he
      | ok b =>
        cases h3 : encKV cache ts with
        | error e => simp [h1, h2, h3] at he
        | ok c =>
          simp [h1, h2, h3] at he; subst he
          simp [wireKV, encKV, enc_wire cache k a hs.1.1 hn.1.1 h1, enc_wire cache v b hs.1.2 hn.1.2 h2,
            encKV_wire cache ts c hs.2 hn.2 h3]
termination_by sizeOf kvs
decreasing_by all_goals (simp_wf; try omega)
end


/-! ### the value is preserved -/
open Term

theorem magVal_append (a b : Bytes) : magVal (a ++ b) = magVal a + 256 ^ a.length * magVal b := by
  induction a with
  | nil => simp [magVal]
  | cons x a ih => simp only [List.cons_append, magVal, ih, List.length_cons, Nat.pow_succ]; rw [Nat.mul_add]; rw [← Nat.mul_assoc, Nat.mul_comm 256 (256 ^ a.length)]; omega

theorem magVal_leN (k n : Nat) : magVal (leN k n) = n % 256 ^ k := by
  induction k generalizing n with
  | zero => simp [leN, magVal, Nat.mod_one]
  | succ k ih =>
    simp only [leN, magVal, ih, UInt8.toNat_ofNat']
    have e : n % 256 ^ (k + 1) = n % 256 + 256 * (n / 256 % 256 ^ k) := by
      rw [Nat.pow_succ, Nat.mul_comm (256 ^ k) 256, Nat.mod_mul]
    rw [e]
    have : n % 256 % 2 ^ 8 = n % 256 := Nat.mod_eq_of_lt (by omega)
    omega

/-- `sigLen` of a reversed list, stated on the most-significant-first list -/
def sigLenR (e : Bytes) : Nat :=
  match e.dropWhile (· == 0) with
  | [] => 1
  | r => r.length

theorem sigLen_eq (d : Bytes) : sigLen d = sigLenR d.reverse := rfl

theorem sigLenR_le (e : Bytes) (h : e ≠ []) : sigLenR e ≤ e.length := by
  have := sigLen_le e.reverse (by cases e with | nil => exact absurd rfl h | cons a b => simp)
  simpa [sigLen_eq] using this

theorem magVal_take_sigLenR (e : Bytes) : magVal (e.reverse.take (sigLenR e)) = magVal e.reverse := by
  induction e with
  | nil => simp [magVal]
  | cons b e ih =>
    by_cases hb : b = 0
    · subst hb
      have hs : sigLenR (0 :: e) = sigLenR e := by simp [sigLenR, List.dropWhile]
      rw [hs]
      simp only [List.reverse_cons]
      rw [magVal_append]
      simp only [magVal, UInt8.toNat_zero, Nat.mul_zero, Nat.add_zero]
      cases e with
      | nil => simp [sigLenR, magVal]
      | cons c e' =>
        have hle := sigLenR_le (c :: e') (by simp)
        rw [List.take_append_of_le_length (by simpa using hle)]
        exact ih
    · have hs : sigLenR (b :: e) = e.length + 1 := by
        have : (b == 0) = false := by simpa using hb
        simp [sigLenR, List.dropWhile, this]
      rw [hs]
      have : (b :: e).reverse.length = e.length + 1 := by simp
      rw [← this, List.take_length]

theorem magVal_take_sigLen (d : Bytes) : magVal (d.take (sigLen d)) = magVal d := by
  have := magVal_take_sigLenR d.reverse
  simpa [sigLen_eq] using this

theorem den_wire_int (i : Int) (h : -9223372036854775808 ≤ i ∧ i ≤ 9223372036854775807) :
    den (wire (.int i)) = .int i := by
  unfold wire
  by_cases h2 : -2147483648 ≤ i ∧ i ≤ 2147483647
  · simp [h2, den]
  · simp only [h2, ↓reduceIte, den, bigVal, magVal_take_sigLen, magVal_leN]
    have : i.natAbs % 256 ^ 8 = i.natAbs := Nat.mod_eq_of_lt (by omega)
    rw [this]
    by_cases hn : i < 0
    · simp [hn]; omega
    · simp [hn]; omega


theorem denKV_sorted (kvs : List (Term × Term)) (h : pairwiseLt kvs = true) : denKV (insertAll [] kvs) = denKV kvs := by
  rw [insertAll_sorted kvs h]

mutual
theorem den_wire (t : Term) (hw : wfT t = true) (hs : sortedKeys t = true) : den (wire t) = den t := by
  match t with
  | .atom a => simp [wire]
  | .int i => simp only [wfT, decide_eq_true_eq] at hw; rw [den_wire_int i hw]; simp [den]
  | .float b => simp [wire]
  | .bin b => simp [wire]
  | .str b => simp [wire, den]
  | .bits b n => simp [wire]
  | .big neg dg => simp [wire]
  | .nil => simp [wire]
  | .pid p => simp [wire]
  | .port n i c l => simp [wire]
  | .ref n c ids l => simp [wire]
  | .xfun m fn a => simp [wire]
  | .tuple l =>
    simp only [wfT, Bool.and_eq_true] at hw; simp only [sortedKeys] at hs
    simp [wire, den, denL_wire l hw.2 hs]
  | .list l =>
    simp only [wfT, Bool.and_eq_true] at hw; simp only [sortedKeys] at hs
    have ih := denL_wire l hw.2 hs
    cases l with
    | nil => simp [wire, den, denL, Value.mkList]
    | cons a l' => simp [wire, den, ih]
  | .ilist l tl =>
    simp only [wfT, Bool.and_eq_true] at hw; simp only [sortedKeys, Bool.and_eq_true] at hs
    have ih := denL_wire l hw.1.2 hs.1
    have iht := den_wire tl hw.2 hs.2
    by_cases hnil : (wire tl).isNil = true
    · have hwt : wire tl = .nil := by
        cases hw : wire tl <;> simp [hw, Term.isNil] at hnil
        rfl
      rw [wire_ilist_nil l tl hwt]
      rw [hwt] at iht
      simp [den, ih, ← iht]
    · rw [wire_ilist_not_nil l tl (by simpa using hnil)]
      simp [den, ih, iht]
  | .map kvs =>
    simp only [wfT, Bool.and_eq_true] at hw; simp only [sortedKeys, Bool.and_eq_true] at hs
    simp [wire, den, denKV_sorted _ hs.2, denKV_wire kvs hw.2 hs.1]
  | .ifun a u i nf m oi ou p fr =>
    simp only [wfT, Bool.and_eq_true] at hw; simp only [sortedKeys] at hs
    simp [wire, den, denL_wire fr hw.2 hs]
termination_by sizeOf t
decreasing_by all_goals (simp_wf; try omega)
theorem denL_wire (l : List Term) (hw : wfL l = true) (hs : sortedKeysL l = true) : denL (wireL l) = denL l := by
  match l with
  | [] => simp [wireL]
  | t :: ts =>
    simp only [wfL, Bool.and_eq_true] at hw; simp only [sortedKeysL, Bool.and_eq_true] at hs
    simp [wireL, denL, den_wire t hw.1 hs.1, denL_wire ts hw.2 hs.2]
termination_by sizeOf l
decreasing_by all_goals (simp_wf; try omega)
theorem denKV_wire (kvs : List (Term × Term)) (hw : wfKV kvs = true) (hs : sortedKeysKV kvs = true) :
    denKV (wireKV kvs) = denKV kvs := by
  match kvs with
  | [] => simp [wireKV]
  | (k, v) :: ts =>
    simp only [wfKV, Bool.and_eq_true] at hw; simp only [sortedKeysKV, Bool.and_eq_true] at hs
    simp [wireKV, denKV, den_wire k hw.1.1 hs.1.1, den_wire v hw.1.2 hs.1.2, denKV_wire ts hw.2 hs.2]
termination_by sizeOf kvs
decreasing_by all_goals (simp_wf; try omega)
end

end Edp
