import EdpVerif.Generated.MiscC11
import EdpVerif.Lemmas.CmpSwap
import EdpVerif.Lemmas.OrderTrans
import EdpVerif.Lemmas.SortedInsert
import EdpVerif.Lemmas.EqCmp
import EdpVerif.Lemmas.CmpArmsEq
import EdpVerif.Lemmas.CmpArmsRefine
import EdpVerif.Lemmas.CmpTables
import EdpVerif.Lemmas.SortMap
import EdpVerif.Lemmas.EqvEquiv
/-
C11 — term comparison is a lawful total preorder consistent with equality and hashing.
`Term.cmp` is the model of `impl Ord for OwnedTerm` / `BorrowedTerm` (one Lean type for both; that they agree
is a correspondence obligation checked on all pairs of the universe by the harness); `Term.eqv` models the derived
`PartialEq`, `Term.hashBytes` the byte stream `Hash::hash` writes (Impl/EqHash.lean, both tied by the harness).

Guard `WFo`: every big integer in the term has minimal digits (no high-order zero digit).  The code compares two
big integers by digit COUNT first (`compare_magnitudes`) but a big integer with a float by VALUE, and the decoder
keeps the digits of SMALL_BIG_EXT/LARGE_BIG_EXT as they arrive, so without the guard the order is not
transitive (`C11_not_transitive_nonminimal_big`).  Nothing else is assumed: NaN, infinities, -0.0, invalid UTF-8,
unsorted maps, arbitrary `bits` fields are all covered.
-/
namespace Edp.Props.C11
open Edp Edp.Term

/-- comparing a with b is the reverse of comparing b with a — for every pair of terms, well-formed or not -/
theorem C11_swap (a b : Term) : Term.cmp a b = (Term.cmp b a).swap := cmp_swap a b

/-- consequently `cmp a b = eq` is symmetric and `lt`/`gt` are converse -/
theorem C11_eq_symm (a b : Term) : Term.cmp a b = .eq ↔ Term.cmp b a = .eq := by
  rw [C11_swap a b]; cases Term.cmp b a <;> simp

theorem C11_lt_iff_gt (a b : Term) : Term.cmp a b = .lt ↔ Term.cmp b a = .gt := by
  rw [C11_swap a b]; cases Term.cmp b a <;> simp

/-- different type ranks decide the comparison (number < atom < reference < fun < port < pid < tuple < map < list < bit-string) -/
theorem C11_rank_decides (a b : Term) (h : (norm a).rank ≠ (norm b).rank) :
    Term.cmp a b = compare (norm a).rank (norm b).rank := by
  exact cmpN_of_rank_ne _ _ h

example : (norm (.int 1)).rank ≠ (norm (.atom [97])).rank := by decide

/-- reflexive, for every term (a NaN float compares Equal to itself) -/
theorem C11_refl (a : Term) : Term.cmp a a = .eq := cmp_refl a

/-- transitive: `a ≤ b` and `b ≤ c` give `a ≤ c`, for all terms whose big integers have minimal digits -/
theorem C11_trans (a b c : Term) (ha : WFo a) (hb : WFo b) (hc : WFo c)
    (h1 : Term.cmp a b ≠ .gt) (h2 : Term.cmp b c ≠ .gt) : Term.cmp a c ≠ .gt :=
  cmp_trans_le ha hb hc h1 h2

/-- the strict and equal variants -/
theorem C11_trans_lt (a b c : Term) (ha : WFo a) (hb : WFo b) (hc : WFo c)
    (h1 : Term.cmp a b = .lt) (h2 : Term.cmp b c = .lt) : Term.cmp a c = .lt := cmp_trans_lt_lt ha hb hc h1 h2
theorem C11_trans_lt_eq (a b c : Term) (ha : WFo a) (hb : WFo b) (hc : WFo c)
    (h1 : Term.cmp a b = .lt) (h2 : Term.cmp b c = .eq) : Term.cmp a c = .lt := cmp_trans_lt_eq ha hb hc h1 h2
theorem C11_trans_eq_lt (a b c : Term) (ha : WFo a) (hb : WFo b) (hc : WFo c)
    (h1 : Term.cmp a b = .eq) (h2 : Term.cmp b c = .lt) : Term.cmp a c = .lt := cmp_trans_eq_lt ha hb hc h1 h2
theorem C11_trans_eq (a b c : Term) (ha : WFo a) (hb : WFo b) (hc : WFo c)
    (h1 : Term.cmp a b = .eq) (h2 : Term.cmp b c = .eq) : Term.cmp a c = .eq := cmp_trans_eq_eq ha hb hc h1 h2

/-- non-vacuity: nested terms with NaN, infinity, a big integer, an improper list and a map satisfy the guard -/
example : WFo (.tuple [.float 0x7FF8000000000000, .float 0x7FF0000000000000, .big true [0, 1],
    .ilist [.int 1] (.list [.int 2]), .map [(.float 0x3FF0000000000000, .nil), (.int 1, .atom [255])]]) = true := by
  simp [WFo, WFoL, WFoKV, minDigits]
example : Term.cmp (.int 1) (.big false [0, 1]) ≠ .gt ∧ Term.cmp (.big false [0, 1]) (.atom []) ≠ .gt := by
  constructor <;> simp [Term.cmp, norm, cmpN, rank, cmpIntBig, natDigits_one] <;> decide

/-- terms that compare Equal compare alike with every third term (the order is a congruence for its equivalence) -/
theorem C11_eq_congr (a b c : Term) (ha : WFo a) (hb : WFo b) (hc : WFo c) (h : Term.cmp a b = .eq) :
    Term.cmp a c = Term.cmp b c := by
  cases h2 : Term.cmp b c with
  | lt => exact cmp_trans_eq_lt ha hb hc h h2
  | eq => exact cmp_trans_eq_eq ha hb hc h h2
  | gt =>
    have h3 : Term.cmp c b = .lt := (C11_lt_iff_gt c b).mpr h2
    have h4 : Term.cmp b a = .eq := (C11_eq_symm a b).mp h
    exact (C11_lt_iff_gt c a).mp (cmp_trans_lt_eq hc hb ha h3 h4)

example : Term.cmp (.int 1) (.float 0x3FF0000000000000) = .eq := by
  simp [Term.cmp, norm, cmpN, cmpIntFloat, natDigits_one]; decide

/-- a lawful total preorder: reflexive, total and antisymmetric up to `Equal` (swap), transitive -/
theorem C11_total_preorder :
    (∀ a : Term, Term.cmp a a = .eq) ∧
    (∀ a b : Term, Term.cmp a b = (Term.cmp b a).swap) ∧
    (∀ a b c : Term, WFo a → WFo b → WFo c → Term.cmp a b ≠ .gt → Term.cmp b c ≠ .gt → Term.cmp a c ≠ .gt) ∧
    (∀ a b c : Term, WFo a → WFo b → WFo c → Term.cmp a b = .eq → Term.cmp a c = Term.cmp b c) :=
  ⟨C11_refl, C11_swap, fun a b c ha hb hc => C11_trans a b c ha hb hc, fun a b c ha hb hc => C11_eq_congr a b c ha hb hc⟩

/-- the guard is needed: with a high-order zero digit (accepted by the decoder: `131,110,2,0,1,0`) the value 1 compares
Equal to the float 1.0, which compares Equal to the minimal big integer 1, yet the two big integers are ordered by their
digit counts — the code's order is not transitive on such terms -/
theorem C11_not_transitive_nonminimal_big :
    Term.cmp (.big false [1, 0]) (.float 0x3FF0000000000000) = .eq ∧
    Term.cmp (.float 0x3FF0000000000000) (.big false [1]) = .eq ∧
    Term.cmp (.big false [1, 0]) (.big false [1]) = .gt := by
  refine ⟨?_, ?_, ?_⟩
  · simp [Term.cmp, norm, cmpN]; decide
  · simp [Term.cmp, norm, cmpN]; decide
  · simp [Term.cmp, norm, cmpN, cmpSignedMag, signum, allZero, cmpMag, thenO]; decide

/-- `a == b` (derived `PartialEq`) implies `cmp a b = Equal`, for all terms -/
theorem C11_eq_cmp (a b : Term) (h : Term.eqv a b) : Term.cmp a b = .eq := cmp_of_eqv a b h

example : Term.eqv (.tuple [.float 0, .pid ⟨[97], 1, 2, 3, some [9]⟩]) (.tuple [.float 0x8000000000000000, .pid ⟨[97], 1, 2, 3, none⟩]) = true := by
  simp [Term.eqv, Term.eqvL, floatEq, pidEq, f64, F64.isNaN, F64.isZero]

/-- the converse does not hold (and the property does not ask for it): `1` and `1.0` compare Equal but are not `==`;
neither are a NaN and itself -/
theorem C11_cmp_eq_not_eqv :
    Term.cmp (.int 1) (.float 0x3FF0000000000000) = .eq ∧ Term.eqv (.int 1) (.float 0x3FF0000000000000) = false ∧
    Term.cmp (.float 0x7FF8000000000000) (.float 0x7FF8000000000000) = .eq ∧
    Term.eqv (.float 0x7FF8000000000000) (.float 0x7FF8000000000000) = false := by
  refine ⟨?_, ?_, cmp_refl _, ?_⟩
  · simp [Term.cmp, norm, cmpN, cmpIntFloat, natDigits_one]; decide
  · simp [Term.eqv]
  · simp [Term.eqv, floatEq, f64, F64.isNaN]

/-- `a == b` implies equal hashes: the two terms feed the hasher the same byte stream -/
theorem C11_eq_hash (a b : Term) (h : Term.eqv a b) : Term.hashBytes a = Term.hashBytes b := hashBytes_of_eqv a b h

/-- ordered insertion (the model of `BTreeMap::insert` under this order) into strictly sorted keys: the keys stay strictly
sorted (so no two stored keys compare Equal: no duplicates), no stored key is lost, the inserted key is found with the
new value, and nothing else appears -/
theorem C11_sorted_insert_sound (m : List (Term × Term)) (k v : Term) (hk : WFo k) (hm : ∀ p ∈ m, WFo p.1)
    (hs : keysSorted m) :
    keysSorted (mapInsert m k v) ∧
    (∀ p ∈ m, ∃ q ∈ mapInsert m k v, q.1 = p.1) ∧
    (∃ q ∈ mapInsert m k v, Term.cmp k q.1 = .eq ∧ q.2 = v) ∧
    (∀ q ∈ mapInsert m k v, q ∈ m ∨ (Term.cmp k q.1 = .eq ∧ q.2 = v)) :=
  ⟨mapInsert_sorted m k v hk hm hs, mapInsert_keeps m k v, mapInsert_finds m k v, mapInsert_mem m k v⟩

example : keysSorted [(.int 1, .nil), (.atom [97], .nil)] := by
  simp [keysSorted, Term.cmp, norm, cmpN, rank]; decide

/-- strictly sorted keys hold no duplicates: two different positions never compare Equal -/
theorem C11_sorted_no_duplicates (m : List (Term × Term)) (hs : keysSorted m) :
    m.Pairwise (fun p q => Term.cmp p.1 q.1 ≠ .eq) :=
  List.Pairwise.imp (fun h => by rw [h]; simp) hs

/-- a collection built by inserting any sequence of entries is strictly sorted and contains a key Equal to every
inserted key -/
theorem C11_sorted_build (l : List (Term × Term)) (hl : ∀ p ∈ l, WFo p.1) :
    keysSorted (l.foldl (fun m kv => mapInsert m kv.1 kv.2) []) ∧
    ∀ p ∈ l, ∃ q ∈ l.foldl (fun m kv => mapInsert m kv.1 kv.2) [], Term.cmp p.1 q.1 = .eq := by
  suffices H : ∀ (l acc : List (Term × Term)), (∀ p ∈ l, WFo p.1) → (∀ p ∈ acc, WFo p.1) → keysSorted acc →
      keysSorted (l.foldl (fun m kv => mapInsert m kv.1 kv.2) acc) ∧
      (∀ p ∈ acc, ∃ q ∈ l.foldl (fun m kv => mapInsert m kv.1 kv.2) acc, q.1 = p.1) ∧
      ∀ p ∈ l, ∃ q ∈ l.foldl (fun m kv => mapInsert m kv.1 kv.2) acc, Term.cmp p.1 q.1 = .eq by
    obtain ⟨h1, _, h3⟩ := H l [] hl (by simp) (by simp [keysSorted])
    exact ⟨h1, h3⟩
  intro l
  induction l with
  | nil => intro acc _ _ hs; exact ⟨hs, fun p hp => ⟨p, hp, rfl⟩, by simp⟩
  | cons e r ih =>
    intro acc hl hacc hs
    have he : WFo e.1 := hl e (by simp)
    have hr : ∀ p ∈ r, WFo p.1 := fun p hp => hl p (List.mem_cons_of_mem _ hp)
    obtain ⟨s1, s2, s3⟩ := ih (mapInsert acc e.1 e.2) hr (mapInsert_wf acc e.1 e.2 he hacc)
      (mapInsert_sorted acc e.1 e.2 he hacc hs)
    simp only [List.foldl_cons]
    refine ⟨s1, ?_, ?_⟩
    · intro p hp
      obtain ⟨q, hq, e1⟩ := mapInsert_keeps acc e.1 e.2 p hp
      obtain ⟨q', hq', e2⟩ := s2 q hq
      exact ⟨q', hq', e2.trans e1⟩
    · intro p hp
      rcases List.mem_cons.mp hp with rfl | hp
      · obtain ⟨q, hq, e1, _⟩ := mapInsert_finds acc p.1 p.2
        obtain ⟨q', hq', e2⟩ := s2 q hq
        exact ⟨q', hq', by rw [e2]; exact e1⟩
      · exact s3 p hp

/-! ### the zero-copy type orders every pair exactly as the owned type does

`cmpO` / `cmpB` (Impl/CmpArms.lean) are two separately written arm-by-arm models: of `impl Ord for OwnedTerm` with the helpers
of term.rs and of `impl Ord for BorrowedTerm` with the copies in borrowed.rs (its own type-rank table, cons-cell walk,
`compare_list_terms`, bit-string parts; no `discriminant` fast path; free variables of funs compared as owned terms). Each is
tied to its own implementation on every pair of the universe (`c11arms`). -/

/-- for every pair of terms and every amount of fuel the zero-copy comparison returns what the owned comparison returns -/
theorem C11_borrowed_eq_owned (f : Nat) (a b : Term) : Term.cmpB f a b = Term.cmpO f a b := cmpB_eq_cmpO f a b

/-- with the fuel the driver uses -/
theorem C11_borrowed_eq_owned_run (a b : Term) : Term.cmpBorrowed a b = Term.cmpOwned a b := cmpBorrowed_eq_cmpOwned a b

/-- the arm-by-arm model of `impl Ord for OwnedTerm` (fast path, rank comparison, arms in source order, lazily walked
cons cells, loops) computes `Term.cmp`, the function the laws above are proved about — for every pair of terms -/
theorem C11_owned_arms_refine (a b : Term) : Term.cmpOwned a b = Term.cmp a b := cmpOwned_eq_cmp a b

/-- and so does the arm-by-arm model of `impl Ord for BorrowedTerm` -/
theorem C11_borrowed_arms_refine (a b : Term) : Term.cmpBorrowed a b = Term.cmp a b := by
  rw [cmpBorrowed_eq_cmpOwned, cmpOwned_eq_cmp]

/-- hence the zero-copy comparison is itself a lawful total preorder (reflexive, antisymmetric up to Equal, transitive on
terms whose big integers have minimal digits) -/
theorem C11_borrowed_total_preorder :
    (∀ a : Term, Term.cmpBorrowed a a = .eq) ∧
    (∀ a b : Term, Term.cmpBorrowed a b = (Term.cmpBorrowed b a).swap) ∧
    (∀ a b c : Term, WFo a → WFo b → WFo c → Term.cmpBorrowed a b ≠ .gt → Term.cmpBorrowed b c ≠ .gt →
      Term.cmpBorrowed a c ≠ .gt) := by
  simp only [C11_borrowed_arms_refine]
  exact ⟨C11_refl, C11_swap, fun a b c ha hb hc => C11_trans a b c ha hb hc⟩

/-- non-vacuity: the two models do compute (improper list whose tail is a list against a proper list; the fast path;
an improper list without elements is its tail) -/
example : Term.cmpOwned (.ilist [.int 1] (.list [.int 2])) (.list [.int 1, .int 2]) = .eq ∧
    Term.cmpBorrowed (.ilist [.int 1] (.int 2)) (.list [.int 1, .int 2]) = .lt ∧
    Term.cmpOwned (.atom [97]) (.atom [98]) = .lt ∧
    Term.cmpBorrowed (.ilist [] (.int 5)) (.atom [97]) = .lt ∧ Term.cmpOwned (.ilist [] (.int 5)) (.int 5) = .eq := by
  decide

/-- the type-rank functions of both models are the tables regenerated from `term_type_order` (term.rs) and
`borrowed_type_order` (borrowed.rs), for every constructor -/
theorem C11_rank_tables_are_the_source (t : Term) :
    Gen.C11_OWNED_RANKS.lookup (variantName t) = some (Term.rankO t) ∧
    Gen.C11_BORROWED_RANKS.lookup (variantName t) = some (Term.rankB t) ∧
    Term.rank t = Term.rankO t := by
  cases t <;> simp only [variantName, Term.rankO, Term.rankB, Term.rank] <;> decide

/-- both regenerated rank tables are Erlang's type order as the property states it, and both `LIST_TYPE_ORDER` constants
are the rank of lists -/
theorem C11_rank_tables_are_erlangs :
    Gen.C11_OWNED_RANKS = erlangRanks ∧ Gen.C11_BORROWED_RANKS = erlangRanks ∧
    Gen.C11_LIST_TYPE_ORDER_OWNED = Term.listTypeOrderO ∧ Gen.C11_LIST_TYPE_ORDER_BORROWED = Term.listTypeOrderB ∧
    Gen.C11_BORROWED_VARIANTS = Gen.C11_OWNED_VARIANTS ∧ Gen.C11_OWNED_VARIANTS.length = 17 := by
  refine ⟨rfl, rfl, rfl, rfl, rfl, rfl⟩

/-- the arm tables of both `Ord` impls, regenerated from the source (variant pair → what the arm evaluates, type names
removed), are the arms the models transcribe, and they are the same table for both types; the zero-copy type has no fast
path; the helpers that exist once per type (`ListCells::new/next`, `compare_list_terms`, `without_empty_cells`,
`bitstring_parts`, `compare_term_lists`) are the same text up to the type names -/
theorem C11_arm_tables_are_the_source :
    Gen.C11_OWNED_ARMS = modelArms ∧ Gen.C11_BORROWED_ARMS = modelArms ∧
    Gen.C11_OWNED_CATCHALL = modelCatchAll ∧ Gen.C11_BORROWED_CATCHALL = modelCatchAll ∧
    Gen.C11_OWNED_FAST_ARMS = modelFastArms ∧ Gen.C11_BORROWED_FAST_ARMS = [] ∧
    Gen.C11_DUPLICATED_HELPERS_SAME.all (·.2) = true ∧ Gen.C11_DUPLICATED_HELPERS_SAME.length = 6 := by
  refine ⟨rfl, rfl, rfl, rfl, rfl, rfl, by decide, by decide⟩

set_option maxRecDepth 8000 in
/-- all 17 × 17 variant pairs: a pair of equal rank that no arm names reaches the catch-all only when both sides are
list-like (rank 8, `compare_list_terms`) or both are bit-strings (rank 9, `bitstring_parts`) — no other pair can fall into a
catch-all; identically for both types; and every fast-path arm returns what the main arm of the same pair evaluates -/
theorem C11_arm_tables_cover_all_pairs :
    (∀ a ∈ Gen.C11_OWNED_VARIANTS, ∀ b ∈ Gen.C11_OWNED_VARIANTS,
      rankOfName Gen.C11_OWNED_RANKS a = rankOfName Gen.C11_OWNED_RANKS b → armOf Gen.C11_OWNED_ARMS a b = none →
      (rankOfName Gen.C11_OWNED_RANKS a = 8 ∨ rankOfName Gen.C11_OWNED_RANKS a = 9)) ∧
    (∀ a ∈ Gen.C11_OWNED_VARIANTS, ∀ b ∈ Gen.C11_OWNED_VARIANTS,
      armOf Gen.C11_BORROWED_ARMS a b = armOf Gen.C11_OWNED_ARMS a b ∧
      rankOfName Gen.C11_BORROWED_RANKS a = rankOfName Gen.C11_OWNED_RANKS a) ∧
    (∀ e ∈ Gen.C11_OWNED_FAST_ARMS, armOf Gen.C11_OWNED_ARMS e.1 e.2.1 = some e.2.2) := by
  refine ⟨by decide, fun a _ b _ => ⟨rfl, rfl⟩, by decide⟩

/-! ### `==` and `Hash`: derived or hand-written, and over which fields -/

/-- `PartialEq` of both term types is derived (all fields of every variant), `Hash for OwnedTerm` is hand-written and hashes,
per variant, exactly what `Term.hashBytes` writes; the identifier structs compare, hash and order the same fields, namely all
but `local_ext_bytes`; an internal fun hashes all its fields; `Atom`, `BigInt`, `ExternalFun` derive both `PartialEq` and `Hash` -/
theorem C11_eq_hash_fields_are_the_source :
    "PartialEq" ∈ Gen.C11_OWNED_DERIVES ∧ "PartialEq" ∈ Gen.C11_BORROWED_DERIVES ∧ "Hash" ∉ Gen.C11_OWNED_DERIVES ∧
    Gen.C11_HASH_FIELDS = modelHashFields ∧
    (∀ v ∈ Gen.C11_OWNED_VARIANTS, (Gen.C11_HASH_FIELDS.lookup v).isSome) ∧
    Gen.C11_ID_HASH_FIELDS = Gen.C11_ID_EQ_FIELDS ∧ Gen.C11_ID_CMP_FIELDS = Gen.C11_ID_EQ_FIELDS ∧
    (∀ e ∈ Gen.C11_ID_EQ_FIELDS, (Gen.C11_STRUCT_FIELDS.lookup e.1).map (·.filter (· != "local_ext_bytes")) = some e.2) ∧
    (Gen.C11_HASH_FIELDS.lookup "InternalFun").map (·.map (fun s => if s == "each:var" then "free_vars" else (s.drop 2).toString)) =
      Gen.C11_STRUCT_FIELDS.lookup "InternalFun" ∧
    (∀ s ∈ ["Atom", "BigInt", "ExternalFun"], ∀ d ∈ ["PartialEq", "Hash"], ∃ ds, Gen.C11_STRUCT_DERIVES.lookup s = some ds ∧ d ∈ ds) := by
  refine ⟨by decide, by decide, by decide, rfl, by decide, rfl, rfl, by decide, by decide, by decide⟩

/-- `Hash` starts with the discriminant: the index of the variant in the regenerated declaration order, as 8 bytes -/
theorem C11_hash_discriminant (t : Term) :
    Gen.C11_OWNED_VARIANTS.idxOf (variantName t) = discr t ∧ (Term.hashBytes t).take 8 = hU64 (discr t) := by
  constructor
  · cases t <;> simp only [variantName, discr] <;> decide
  · cases t <;> simp [Term.hashBytes, hU64, leB, discr]

/-! ### consequences: sorting, ordered maps -/

/-- sorting (core Lean's stable merge sort run with the model order) neither loses nor duplicates an element (the result is
a permutation of the input) and misplaces none (every element is `<=` every later one), for all lists of terms whose big
integers have minimal digits -/
theorem C11_sort_sound (l : List WTerm) :
    (l.mergeSort leT).Perm l ∧ (l.mergeSort leT).Pairwise (fun a b => Term.cmp a.1 b.1 ≠ .gt) := by
  refine ⟨List.mergeSort_perm l leT, ?_⟩
  have h := List.pairwise_mergeSort (le := leT) leT_trans leT_total l
  exact List.Pairwise.imp (fun h => by simpa [leT] using h) h

example : ∃ l : List WTerm, l.length = 3 := ⟨[⟨.atom [97], rfl⟩, ⟨.tuple [.big true [0, 1]], rfl⟩, ⟨.float 0x7FF8000000000000, rfl⟩], rfl⟩

/-- the ordered map: after one insertion a lookup of any key Equal to the inserted key returns the new value, every other
lookup returns what it returned before -/
theorem C11_map_insert_lookup (m : List (Term × Term)) (k v k' : Term) (hk : WFo k) (hk' : WFo k') (hm : ∀ p ∈ m, WFo p.1) :
    mapGet (mapInsert m k v) k' = if Term.cmp k' k = .eq then some v else mapGet m k' :=
  mapGet_mapInsert m k v k' hk hk' hm

/-- after any sequence of insertions a lookup returns the LAST value written under a key that compares Equal to the
looked-up key (nothing if none was): no entry is lost, none shadowed by a stale one -/
theorem C11_map_lookup_is_last_write (l : List (Term × Term)) (k' : Term) (hl : ∀ p ∈ l, WFo p.1) (hk' : WFo k') :
    mapGet (l.foldl (fun m kv => mapInsert m kv.1 kv.2) []) k' =
      (l.reverse.find? (fun p => Term.cmp k' p.1 == .eq)).map (·.2) := mapGet_build l k' hl hk'

example : (∀ p ∈ [((.int 1 : Term), (.atom [97] : Term)), (.float 0x3FF0000000000000, .atom [98])], WFo p.1 = true) ∧
    WFo (.int 1) = true := by simp [WFo]

/-- removing entries from an ordered map keeps the keys strictly ascending -/
theorem C11_sorted_remove (m m' : List (Term × Term)) (h : m'.Sublist m) (hs : keysSorted m) : keysSorted m' :=
  keysSorted_sublist h hs

/-! ### hashed containers -/

/-- `==` on terms is an equivalence relation: symmetric and transitive on all terms, reflexive on every term without a NaN
(a NaN is `!=` itself, `C11_cmp_eq_not_eqv`; the property speaks of finite floats) -/
theorem C11_eq_is_equivalence :
    (∀ a : Term, noNaN a = true → Term.eqv a a = true) ∧
    (∀ a b : Term, Term.eqv a b = true → Term.eqv b a = true) ∧
    (∀ a b c : Term, Term.eqv a b = true → Term.eqv b c = true → Term.eqv a c = true) :=
  ⟨eqv_refl, eqv_symm, eqv_trans⟩

example : noNaN (.tuple [.float 0x7FF0000000000000, .float 0x8000000000000000, .map [(.int 1, .list [.float 1])]]) = true := by
  simp [noNaN, noNaNL, noNaNKV, f64, F64.isNaN]

/-- a container that finds entries by hash first and `==` second (`HashMap`), for EVERY hash function of the byte stream
that `Hash::hash` writes: after an insertion every key `==` to the inserted one reads the new value (the hash comparison
never hides it, by `C11_eq_hash`), every other key reads what it read before; and a key without NaN finds itself -/
theorem C11_hashmap_insert_lookup (hf : Bytes → Nat) (m : List (Term × Term)) (k v k' : Term) :
    hmGet hf (hmInsert hf m k v) k' = (if Term.eqv k k' = true then some v else hmGet hf m k') ∧
    (noNaN k = true → hmGet hf (hmInsert hf m k v) k = some v) := by
  refine ⟨hmGet_hmInsert hf m k v k', fun hk => ?_⟩
  rw [hmGet_hmInsert, if_pos (eqv_refl k hk)]

end Edp.Props.C11
