import EdpVerif.Lemmas.SerdeMem
/-! C15: the round trip through the wire form `wireT (ser v)`, by induction over the type universe. -/
namespace Edp.Serde
open Edp Edp.Spec.Serde

theorem intDigits_ok (i : Int) (h : i.natAbs < 2 ^ 64) :
    (intDigits i).length ≤ 8 ∧ magVal (intDigits i) = i.natAbs := by
  unfold intDigits
  simp only []
  constructor
  · have := leN_length 8 i.natAbs
    simp only [List.length_take]; omega
  · rw [magVal_take_sigLen, magVal_leN 8 _ (by simpa using h)]

/-- every integer of every width, in either wire representation, reads back (the fixed `integer_term_as`) -/
theorem deInt_wire (k : IntTy) (i : Int) (h : k.inRange i = true) :
    deInt k (wireT (serInt k i)) = .ok (.int k i) := by
  unfold serInt
  split
  · rename_i hc
    have := deInt_serInt k i h
    unfold serInt at this
    rw [if_pos hc] at this
    simpa [wireT] using this
  · by_cases h32 : inI32 i = true
    · simp [wireT, h32, deInt, h]
    · have hb : i.natAbs < 2 ^ 64 := by
        have h' := h
        simp only [IntTy.inRange, Bool.and_eq_true] at h'
        have h1 := of_decide_eq_true h'.1
        have h2 := of_decide_eq_true h'.2
        cases k <;> simp only [IntTy.lo, IntTy.hi] at h1 h2 <;> omega
      have hd := intDigits_ok i hb
      simp only [wireT, h32, Bool.false_eq_true, if_false]
      apply deInt_big k _ _ hd.1 i _ h
      rw [hd.2]
      by_cases hneg : i < 0
      · simp only [hneg, decide_true, if_true]; omega
      · simp only [hneg, decide_false, Bool.false_eq_true, if_false]; omega

theorem isUndef_wireT (t : Term) : isUndef (wireT t) = isUndef t := by
  cases t with
  | int i => simp only [wireT]; split <;> rfl
  | list l => simp only [wireT]; split <;> rfl
  | _ => simp [wireT, isUndef]

theorem wireL_eq_map : ∀ (l : List Term), wireL l = l.map wireT
  | [] => rfl
  | t :: r => by simp [wireL, wireL_eq_map r]

theorem wireKV_eq_map : ∀ (l : List (Term × Term)), wireKV l = l.map fun kv => (wireT kv.1, wireT kv.2)
  | [] => rfl
  | (k, v) :: r => by simp [wireKV, wireKV_eq_map r]


theorem keyed_perm (K : KeyForm) (L : List (Bytes × Term)) (m : List (Term × Term)) (perm : m.Perm (kvs K L))
    (hd : namesDistinct (L.map (·.1)) = true) (hg : ∀ x ∈ L, K.good x.1 = true) :
    (∀ x ∈ L, m.filter (keyIs x.1) = [(K.c x.1, x.2)]) ∧ m.all (fun kv => isOkStr kv.1) = true := by
  have hp := namesDistinct_pairwise _ hd
  refine ⟨?_, ?_⟩
  · intro x hx
    have := (perm.filter (keyIs x.1))
    rw [filter_key K L hp hg x hx] at this
    exact List.perm_singleton.mp this
  · rw [List.all_eq_true]
    intro e he
    have := perm.mem_iff.mp he
    obtain ⟨z, hz, rfl⟩ := List.mem_map.mp this
    exact K.str z.1 (hg z hz)

theorem kvs_pairwise_sym (K : KeyForm) (L : List (Bytes × Term)) (hd : (L.map (·.1)).Pairwise (· ≠ ·)) :
    (kvs K L).Pairwise (fun a b => Term.cmp b.1 a.1 ≠ .eq ∧ Term.cmp a.1 b.1 ≠ .eq) := by
  unfold kvs
  rw [List.pairwise_map]
  rw [List.pairwise_map] at hd
  exact hd.imp (fun {a b} hab => ⟨fun e => hab (K.inj b.1 a.1 e).symm, fun e => hab (K.inj a.1 b.1 e)⟩)

def wireVals (L : List (Bytes × Term)) : List (Bytes × Term) := L.map fun f => (f.1, wireT f.2)

theorem wireVals_names (L : List (Bytes × Term)) : (wireVals L).map (·.1) = L.map (·.1) := by
  simp [wireVals, Function.comp_def]

/-- a struct-like map after `to_bytes`/`decode`: the same keys, every value through the wire -/
theorem wire_keyed (K : KeyForm) (hK : ∀ a, wireT (K.c a) = K.c a) (L : List (Bytes × Term))
    (hd : namesDistinct (L.map (·.1)) = true) :
    (insertAll (wireKV (insertAll (kvs K L)))).Perm (kvs K (wireVals L)) := by
  have hp := namesDistinct_pairwise _ hd
  have p1 : (insertAll (kvs K L)).Perm (kvs K L) := insertAll_perm _ (kvs_pairwise K L hp)
  have e : (kvs K L).map (fun kv => (wireT kv.1, wireT kv.2)) = kvs K (wireVals L) := by
    simp [kvs, wireVals, hK, Function.comp_def]
  have p2 : (wireKV (insertAll (kvs K L))).Perm (kvs K (wireVals L)) := by
    rw [wireKV_eq_map, ← e]
    exact p1.map _
  have hp' : ((wireVals L).map (·.1)).Pairwise (· ≠ ·) := by rw [wireVals_names]; exact hp
  have pw := (p2.symm.pairwise (kvs_pairwise_sym K (wireVals L) hp') (fun {x y} h => ⟨h.2, h.1⟩))
  exact (insertAll_perm _ (pw.imp (fun {a b} h => h.1))).trans p2

theorem wireT_bin (a : Bytes) : wireT (binKey.c a) = binKey.c a := by simp [binKey, wireT]
theorem wireT_atom (a : Bytes) : wireT (atomKey.c a) = atomKey.c a := by simp [atomKey, wireT]

theorem de_enum_wire (en vn : Bytes) (vs : List (Bytes × Ty)) (p : Val) :
    de (.enum en vs) (wireT (serVariant vn p)) = deVariant en vn vs (wireL (restOf p)) := by
  cases p <;> simp [serVariant, wireT, wireL, de, deStr, restOf]

theorem fieldGood (fs : List (Bytes × Val)) (fts : List (Bytes × Ty)) (hn : fs.map (·.1) = fts.map (·.1))
    (hv : ∀ y ∈ fts, validUtf8 y.1 = true) : ∀ x ∈ wireVals (fieldTerms fs), binKey.good x.1 = true := by
  intro x hx
  have : x.1 ∈ fts.map (·.1) := by
    rw [← hn, ← fieldTerms_names, ← wireVals_names]; exact List.mem_map_of_mem hx
  obtain ⟨y, hy, e⟩ := List.mem_map.mp this
  rw [← e]; exact hv y hy

theorem mem_wireVals (fs : List (Bytes × Val)) (f : Bytes × Val) (hf : f ∈ fs) :
    (f.1, wireT (ser f.2)) ∈ wireVals (fieldTerms fs) := by
  unfold wireVals fieldTerms
  rw [List.map_map]
  exact List.mem_map.mpr ⟨f, hf, rfl⟩

mutual
theorem deW : ∀ (ty : Ty) (v : Val), hasTy v ty = true → Ty.wf ty = true → plainWith id v = true →
    plainWith wireT v = true → de ty (wireT (ser v)) = .ok v
  | .int k, v, h, _, _, _ => by
    cases v <;> simp [hasTy] at h
    obtain ⟨rfl, h2⟩ := h
    simp only [ser, de]
    exact deInt_wire _ _ h2
  | .f32, v, h, _, hp, _ => by
    cases v <;> simp [hasTy] at h
    simp only [plainWith, Bool.not_eq_true'] at hp
    simp [ser, wireT, de, f32_roundtrip _ h hp]
  | .f64, v, h, _, _, _ => by cases v <;> simp [hasTy] at h; simp [ser, wireT, de]
  | .bool, v, h, _, _, _ => by
    cases v with
    | bool b => cases b <;> simp [ser, wireT, de, sTrue, sFalse]
    | _ => simp [hasTy] at h
  | .char, v, h, _, _, _ => by
    cases v <;> simp [hasTy] at h
    simp [ser, wireT, de, deChar, utf8_one _ h]
  | .string, v, h, _, _, _ => by cases v <;> simp [hasTy] at h; simp [ser, wireT, de, deStr, h]
  | .bytes, v, h, _, _, _ => by cases v <;> simp [hasTy] at h; simp [ser, wireT, de]
  | .unit, v, h, _, _, _ => by cases v <;> simp [hasTy] at h; simp [ser, wireT, de]
  | .unitStruct n, v, h, _, _, _ => by cases v <;> simp [hasTy] at h; subst h; simp [ser, wireT, de]
  | .option t, v, h, hw, hp, hq => by
    simp only [Ty.wf, Bool.and_eq_true, Bool.not_eq_true'] at hw
    cases v <;> simp [hasTy] at h
    · simp [ser, wireT, de, isUndef]
    · rename_i x
      simp only [plainWith] at hp hq
      simp only [ser, de, isUndef_wireT, not_undef t x h hw.1, deW t x h hw.2 hp hq]
      simp
  | .newtype n t, v, h, hw, hp, hq => by
    simp only [Ty.wf] at hw
    cases v <;> simp [hasTy] at h
    rename_i n' x
    obtain ⟨rfl, h2⟩ := h
    simp only [plainWith] at hp hq
    simp only [ser, de, deW t x h2 hw hp hq]
  | .tuple ts, v, h, hw, hp, hq => by
    simp only [Ty.wf] at hw
    cases v <;> simp [hasTy] at h
    simp only [plainWith] at hp hq
    simp only [ser, wireT, de, deLW ts _ h hw hp hq]
  | .tupleStruct n ts, v, h, hw, hp, hq => by
    simp only [Ty.wf] at hw
    cases v <;> simp [hasTy] at h
    obtain ⟨rfl, h2⟩ := h
    simp only [plainWith] at hp hq
    simp only [ser, wireT, de, deLW ts _ h2 hw hp hq]
  | .seq t, v, h, hw, hp, hq => by
    simp only [Ty.wf] at hw
    cases v <;> simp [hasTy] at h
    rename_i vs
    simp only [plainWith, plainL_all, List.all_eq_true] at hp hq
    cases vs with
    | nil => simp [ser, serL, wireT, de]
    | cons a r =>
      simp only [ser, serL, wireT, List.isEmpty_cons, Bool.false_eq_true, if_false, de]
      have e : wireL (ser a :: serL r) = (a :: r).map (fun v => wireT (ser v)) := by
        rw [wireL_eq_map, serL_eq_map]; simp [Function.comp_def]
      rw [e, mapME_ok (de t) (fun v => wireT (ser v)) (a :: r)
        (fun b hb => deW t b (h b hb) hw (hp b hb) (hq b hb) )]
  | .map kt vt, v, h, hw, hp, hq => by
    simp only [Ty.wf, Bool.and_eq_true] at hw
    cases v <;> simp [hasTy] at h
    rename_i l
    simp only [plainWith, Bool.and_eq_true, plainKV_all, List.all_eq_true] at hp hq
    have hasc : insertAll (serKV l) = serKV l := insertAll_asc _ (by rw [← keysOf_eq]; exact hp.2)
    have hasc2 : insertAll (wireKV (serKV l)) = wireKV (serKV l) := by
      apply insertAll_asc
      have := hq.2
      rw [ascending_map, keysOf_eq] at this
      simpa [wireKV_eq_map, Function.comp_def] using this
    simp only [ser, wireT, de]
    rw [hasc, hasc2, wireKV_eq_map, serKV_eq_map, List.map_map]
    rw [mapME_ok _ ((fun kv : Term × Term => (wireT kv.1, wireT kv.2)) ∘ fun kv : Val × Val => (ser kv.1, ser kv.2)) l]
    intro kv hkv
    have h1 := h kv.1 kv.2 hkv
    have h2 := hp.1 kv hkv
    have h3 := hq.1 kv hkv
    simp only [Function.comp, deW kt kv.1 h1.1 hw.1 h2.1 h3.1, deW vt kv.2 h1.2 hw.2 h2.2 h3.2]
  | .struct n fts, v, h, hw, hp, hq => by
    simp only [Ty.wf, Bool.and_eq_true, List.all_eq_true] at hw
    cases v <;> simp [hasTy] at h
    rename_i n' fs
    obtain ⟨rfl, h2⟩ := h
    simp only [plainWith] at hp hq
    have hn := hasTyF_names fs fts h2
    have hd : namesDistinct ((fieldTerms fs).map (·.1)) = true := by rw [fieldTerms_names, hn]; exact hw.1.1
    have km := keyed_perm binKey (wireVals (fieldTerms fs)) _ (wire_keyed binKey wireT_bin (fieldTerms fs) hd)
      (by rw [wireVals_names]; exact hd) (fieldGood fs fts hn hw.1.2)
    rw [← serFields_kvs] at km
    simp only [ser, wireT, de, km.2, Bool.not_true, Bool.false_eq_true, if_false]
    rw [deFieldsW fts fs _ h2 hw.2 hp hq]
    intro f hf
    exact km.1 (f.1, wireT (ser f.2)) (mem_wireVals fs f hf)
  | .exStruct md fts, v, h, hw, hp, hq => by
    simp only [Ty.wf, Bool.and_eq_true, Bool.not_eq_true', List.contains_eq_mem, decide_eq_false_iff_not] at hw
    cases v <;> simp [hasTy] at h
    rename_i md' fs
    obtain ⟨rfl, h2⟩ := h
    simp only [plainWith] at hp hq
    have hn := hasTyF_names fs fts h2
    have hd : namesDistinct (((sStructKey, Term.atom (sElixirDot ++ md')) :: fieldTerms fs).map (·.1)) = true := by
      simp only [List.map_cons, namesDistinct, fieldTerms_names, hn, Bool.and_eq_true, Bool.not_eq_true',
        List.contains_eq_mem, decide_eq_false_iff_not]
      exact ⟨hw.1.2, hw.1.1⟩
    have km := keyed_perm atomKey (wireVals ((sStructKey, Term.atom (sElixirDot ++ md')) :: fieldTerms fs)) _
      (wire_keyed atomKey wireT_atom _ hd) (by rw [wireVals_names]; exact hd) (fun _ _ => rfl)
    have e : kvs atomKey ((sStructKey, Term.atom (sElixirDot ++ md')) :: fieldTerms fs) =
        (Term.atom sStructKey, Term.atom (sElixirDot ++ md')) :: serAtomFields fs := by
      rw [serAtomFields_kvs]; rfl
    rw [e] at km
    have hs0 := km.1 (sStructKey, Term.atom (sElixirDot ++ md')) (by simp [wireVals, wireT])
    simp only [ser, wireT, de, km.2, hs0, Bool.not_true, Bool.false_eq_true, if_false]
    simp only [List.all_cons, List.all_nil, deStr, beq_self_eq_true, Bool.and_true, Bool.not_true,
      Bool.false_eq_true, if_false, atomKey]
    rw [deExFieldsW fts fs _ h2 hw.2 hp hq (fun n hn e => hw.1.2 (e ▸ hn))]
    intro f hf
    exact km.1 (f.1, wireT (ser f.2)) (by
      have := mem_wireVals fs f hf
      simp only [wireVals, List.map_cons, List.mem_cons] at this ⊢
      exact Or.inr this)
  | .enum en vs, v, h, hw, hp, hq => by
    simp only [Ty.wf, Bool.and_eq_true] at hw
    cases v <;> simp [hasTy] at h
    rename_i en' vn p
    obtain ⟨rfl, h2⟩ := h
    simp only [plainWith] at hp hq
    simp only [ser]
    rw [de_enum_wire, deVariantW vs en' vn p h2 hw.2 hp hq]
theorem deLW : ∀ (ts : List Ty) (vs : List Val), hasTyL vs ts = true → wfL ts = true → plainL id vs = true →
    plainL wireT vs = true → deL ts (wireL (serL vs)) = .ok vs
  | [], [], _, _, _, _ => by simp [serL, wireL, deL]
  | [], _ :: _, h, _, _, _ => by simp [hasTyL] at h
  | _ :: _, [], h, _, _, _ => by simp [hasTyL] at h
  | t :: ts, v :: vs, h, hw, hp, hq => by
    simp only [hasTyL, Bool.and_eq_true] at h
    simp only [wfL, Bool.and_eq_true] at hw
    simp only [plainL, Bool.and_eq_true] at hp hq
    simp only [serL, wireL, deL, deW t v h.1 hw.1 hp.1 hq.1, deLW ts vs h.2 hw.2 hp.2 hq.2]
theorem deFieldsW : ∀ (fts : List (Bytes × Ty)) (fs : List (Bytes × Val)) (m : List (Term × Term)),
    hasTyF fs fts = true → wfF fts = true → plainF id fs = true → plainF wireT fs = true →
    (∀ f ∈ fs, m.filter (keyIs f.1) = [(Term.bin f.1, wireT (ser f.2))]) → deFields fts m = .ok fs
  | [], [], _, _, _, _, _, _ => by simp [deFields]
  | [], _ :: _, _, h, _, _, _, _ => by simp [hasTyF] at h
  | _ :: _, [], _, h, _, _, _, _ => by simp [hasTyF] at h
  | (n, t) :: fts, (n', v) :: fs, m, h, hw, hp, hq, hm => by
    simp only [hasTyF, Bool.and_eq_true, beq_iff_eq] at h
    obtain ⟨⟨rfl, h1⟩, h2⟩ := h
    simp only [wfF, Bool.and_eq_true] at hw
    simp only [plainF, Bool.and_eq_true] at hp hq
    have e := hm (n', v) (by simp)
    simp only at e
    simp only [deFields, e, deW t v h1 hw.1 hp.1 hq.1,
      deFieldsW fts fs m h2 hw.2 hp.2 hq.2 (fun f hf => hm f (by simp [hf]))]
theorem deExFieldsW : ∀ (fts : List (Bytes × Ty)) (fs : List (Bytes × Val)) (m : List (Term × Term)),
    hasTyF fs fts = true → wfF fts = true → plainF id fs = true → plainF wireT fs = true →
    (∀ n ∈ fts.map (·.1), n ≠ sStructKey) →
    (∀ f ∈ fs, m.filter (keyIs f.1) = [(Term.atom f.1, wireT (ser f.2))]) → deExFields fts m = .ok fs
  | [], [], _, _, _, _, _, _, _ => by simp [deExFields]
  | [], _ :: _, _, h, _, _, _, _, _ => by simp [hasTyF] at h
  | _ :: _, [], _, h, _, _, _, _, _ => by simp [hasTyF] at h
  | (n, t) :: fts, (n', v) :: fs, m, h, hw, hp, hq, hk, hm => by
    simp only [hasTyF, Bool.and_eq_true, beq_iff_eq] at h
    obtain ⟨⟨rfl, h1⟩, h2⟩ := h
    simp only [wfF, Bool.and_eq_true] at hw
    simp only [plainF, Bool.and_eq_true] at hp hq
    have e := hm (n', v) (by simp)
    simp only at e
    have hne : n' ≠ sStructKey := hk n' (by simp)
    simp only [deExFields, hne, if_false, e, mapME, deW t v h1 hw.1 hp.1 hq.1, List.getLast?_singleton,
      deExFieldsW fts fs m h2 hw.2 hp.2 hq.2 (fun x hx => hk x (by simp at hx ⊢; exact Or.inr hx))
        (fun f hf => hm f (by simp [hf]))]
theorem deVariantW : ∀ (vs : List (Bytes × Ty)) (en vn : Bytes) (p : Val),
    hasTyV vn p vs = true → wfV vs = true → plainWith id p = true → plainWith wireT p = true →
    deVariant en vn vs (wireL (restOf p)) = .ok (.variant en vn p)
  | [], _, _, _, h, _, _, _ => by simp [hasTyV] at h
  | (n, sh) :: vs, en, vn, p, h, hw, hp, hq => by
    simp only [wfV, Bool.and_eq_true] at hw
    by_cases hn : n = vn
    · subst hn
      simp only [hasTyV, if_true] at h
      simp only [deVariant, if_true]
      cases sh with
      | unit => cases p <;> simp [hasTyP] at h; simp [deShape, restOf, wireL]
      | newtype nm t =>
        cases p <;> simp [hasTyP] at h
        rename_i n' x
        obtain ⟨rfl, h2⟩ := h
        simp only [plainWith] at hp hq
        simp only [wfShape] at hw
        simp only [deShape, restOf, wireL, deW t x h2 hw.1 hp hq]
      | tuple ts =>
        cases p <;> simp [hasTyP] at h
        rename_i xs
        simp only [plainWith] at hp hq
        simp only [wfShape] at hw
        simp only [deShape, restOf, deLW ts xs h hw.1 hp hq]
      | struct nm fts =>
        cases p <;> simp [hasTyP] at h
        rename_i n' fs
        obtain ⟨rfl, h2⟩ := h
        simp only [plainWith] at hp hq
        simp only [wfShape, Bool.and_eq_true, List.all_eq_true] at hw
        have hn := hasTyF_names fs fts h2
        have hd : namesDistinct ((fieldTerms fs).map (·.1)) = true := by
          rw [fieldTerms_names, hn]; exact hw.1.1.1
        have km := keyed_perm binKey (wireVals (fieldTerms fs)) _ (wire_keyed binKey wireT_bin (fieldTerms fs) hd)
          (by rw [wireVals_names]; exact hd) (fieldGood fs fts hn hw.1.1.2)
        rw [← serFields_kvs] at km
        simp only [deShape, restOf, wireL, wireT, km.2, Bool.not_true, Bool.false_eq_true, if_false]
        rw [deFieldsW fts fs _ h2 hw.1.2 hp hq]
        intro f hf
        exact km.1 (f.1, wireT (ser f.2)) (mem_wireVals fs f hf)
      | _ => cases p <;> simp [hasTyP] at h
    · simp only [hasTyV, hn, if_false] at h
      simp only [deVariant, hn, if_false]
      exact deVariantW vs en vn p h hw.2 hp hq
end

/-! ### maps with wire-stable keys: the canonical order is the same before and after the wire -/

theorem stableKey_wire (k : Val) (h : stableKey k = true) : wireT (ser k) = ser k := by
  cases k <;> simp [stableKey] at h <;> try (simp [ser, wireT]; done)
  rename_i kk i
  simp only [ser, serInt]
  split
  · simp [wireT]
  · rename_i hc
    rcases h with h | h
    · simp [wireT, h]
    · exact absurd ⟨h.1, h.2⟩ hc

theorem stableKey_plain (f : Term → Term) (k : Val) (h : stableKey k = true) : plainWith f k = true := by
  cases k <;> simp [stableKey] at h <;> simp [plainWith]

theorem ascending_congr (f g : Term → Term) : ∀ (ks before : List Term),
    (∀ k ∈ before, f k = g k) → (∀ k ∈ ks, f k = g k) → ascending f before ks = ascending g before ks
  | [], _, _, _ => by simp [ascending]
  | k :: r, before, hb, hk => by
    simp only [ascending]
    rw [ascending_congr f g r (before ++ [k])
      (fun x hx => by rcases List.mem_append.mp hx with h | h; exact hb x h; simp at h; subst h; exact hk x (by simp))
      (fun x hx => hk x (by simp [hx]))]
    rw [hk k (by simp)]
    congr 1
    apply Bool.eq_iff_iff.mpr
    simp only [List.all_eq_true]
    constructor
    · intro h p hp; rw [← hb p hp]; exact h p hp
    · intro h p hp; rw [hb p hp]; exact h p hp

theorem keysOf_stable : ∀ (l : List (Val × Val)), keysStableKV l = true → ∀ k ∈ keysOf l, wireT k = id k
  | [], _, k, hk => by simp [keysOf] at hk
  | (a, b) :: r, h, k, hk => by
    simp only [keysStableKV, Bool.and_eq_true] at h
    simp only [keysOf, List.mem_cons] at hk
    rcases hk with rfl | hk
    · exact stableKey_wire a h.1.1
    · exact keysOf_stable r h.2 k hk

mutual
theorem plain_stable : ∀ (v : Val), keysStable v = true → plainWith wireT v = plainWith id v
  | .some v, h => by simp only [keysStable] at h; simp only [plainWith, plain_stable v h]
  | .newtype _ v, h => by simp only [keysStable] at h; simp only [plainWith, plain_stable v h]
  | .variant _ _ p, h => by simp only [keysStable] at h; simp only [plainWith, plain_stable p h]
  | .tuple vs, h => by simp only [keysStable] at h; simp only [plainWith, plainL_stable vs h]
  | .seq vs, h => by simp only [keysStable] at h; simp only [plainWith, plainL_stable vs h]
  | .tupleStruct _ vs, h => by simp only [keysStable] at h; simp only [plainWith, plainL_stable vs h]
  | .struct _ fs, h => by simp only [keysStable] at h; simp only [plainWith, plainF_stable fs h]
  | .exStruct _ fs, h => by simp only [keysStable] at h; simp only [plainWith, plainF_stable fs h]
  | .map kvs, h => by
    simp only [keysStable] at h
    simp only [plainWith, plainKV_stable kvs h]
    rw [ascending_congr wireT id (keysOf kvs) [] (by simp) (keysOf_stable kvs h)]
  | .int _ _, _ => rfl
  | .f32 _, _ => rfl
  | .f64 _, _ => rfl
  | .bool _, _ => rfl
  | .char _, _ => rfl
  | .string _, _ => rfl
  | .bytes _, _ => rfl
  | .unit, _ => rfl
  | .none, _ => rfl
  | .unitStruct _, _ => rfl
theorem plainL_stable : ∀ (vs : List Val), keysStableL vs = true → plainL wireT vs = plainL id vs
  | [], _ => rfl
  | v :: r, h => by
    simp only [keysStableL, Bool.and_eq_true] at h
    simp only [plainL, plain_stable v h.1, plainL_stable r h.2]
theorem plainKV_stable : ∀ (l : List (Val × Val)), keysStableKV l = true → plainKV wireT l = plainKV id l
  | [], _ => rfl
  | (k, v) :: r, h => by
    simp only [keysStableKV, Bool.and_eq_true] at h
    simp only [plainKV, stableKey_plain _ k h.1.1, plain_stable v h.1.2, plainKV_stable r h.2]
theorem plainF_stable : ∀ (fs : List (Bytes × Val)), keysStableF fs = true → plainF wireT fs = plainF id fs
  | [], _ => rfl
  | (_, v) :: r, h => by
    simp only [keysStableF, Bool.and_eq_true] at h
    simp only [plainF, plain_stable v h.1, plainF_stable r h.2]
end

end Edp.Serde
