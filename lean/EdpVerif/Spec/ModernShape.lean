import EdpVerif.Basic.Bytes
/-
"Built only from the tags current OTP releases emit over distribution" (property C13, DESIGN Appendix B.1, column
"modern"), as a decidable predicate on byte strings.  Written from erl_ext_dist alone: a recogniser of the LAYOUT of
the 21 modern tags (which bytes are counts, which are payload, where sub-terms start).  It validates nothing else —
no UTF-8, no size limits, no nesting limit, no "this sub-term must be an atom" — so that every input a decoder could
possibly read as a modern-tag term passes.  A byte that stands where a term must start and is not one of the 21
tags (legacy atoms/pids/ports/references, FLOAT_EXT, ATOM_CACHE_REF, LOCAL_EXT, COMPRESSED, unknown) fails it.
-/
namespace Edp.Spec.Modern
open Edp

/-- SMALL_INTEGER, INTEGER, SMALL_BIG, LARGE_BIG, NEW_FLOAT, ATOM_UTF8, SMALL_ATOM_UTF8, SMALL_TUPLE, LARGE_TUPLE, NIL,
STRING, LIST, BINARY, BIT_BINARY, MAP, NEW_PID, V4_PORT, NEW_PORT, NEWER_REFERENCE, EXPORT, NEW_FUN -/
def modernTags : List Nat :=
  [97, 98, 110, 111, 70, 118, 119, 104, 105, 106, 107, 108, 109, 77, 116, 88, 120, 89, 90, 113, 112]

/-- `n` big-endian u32 words -/
def skipWords : Nat → Bytes → Option Bytes
  | 0, bs => some bs
  | n+1, bs => match rdN 4 bs with
    | some (_, r) => skipWords n r
    | none => none

mutual
/-- the bytes behind one term laid out with modern tags only -/
def shape : Nat → Bytes → Option Bytes
  | 0, _ => none
  | _, [] => none
  | fuel+1, tag :: bs =>
    match tag.toNat with
    | 97 => match rdN 1 bs with
      | some (_, r) => some r
      | none => none
    | 98 => match rdN 4 bs with
      | some (_, r) => some r
      | none => none
    | 70 => match rdN 8 bs with
      | some (_, r) => some r
      | none => none
    | 118 => match rdN 2 bs with
      | some (n, r) => match takeN n r with
        | some (_, r') => some r'
        | none => none
      | none => none
    | 119 => match rdN 1 bs with
      | some (n, r) => match takeN n r with
        | some (_, r') => some r'
        | none => none
      | none => none
    | 110 => match rdN 1 bs with
      | some (n, r) => match rdN 1 r with
        | some (_, r1) => match takeN n r1 with
          | some (_, r2) => some r2
          | none => none
        | none => none
      | none => none
    | 111 => match rdN 4 bs with
      | some (n, r) => match rdN 1 r with
        | some (_, r1) => match takeN n r1 with
          | some (_, r2) => some r2
          | none => none
        | none => none
      | none => none
    | 104 => match rdN 1 bs with
      | some (n, r) => shapeN fuel n r
      | none => none
    | 105 => match rdN 4 bs with
      | some (n, r) => shapeN fuel n r
      | none => none
    | 106 => some bs
    | 107 => match rdN 2 bs with
      | some (n, r) => match takeN n r with
        | some (_, r') => some r'
        | none => none
      | none => none
    | 108 => match rdN 4 bs with
      | some (n, r) => match shapeN fuel n r with
        | some r' => shape fuel r'
        | none => none
      | none => none
    | 109 => match rdN 4 bs with
      | some (n, r) => match takeN n r with
        | some (_, r') => some r'
        | none => none
      | none => none
    | 77 => match rdN 4 bs with
      | some (n, r) => match rdN 1 r with
        | some (_, r1) => match takeN n r1 with
          | some (_, r') => some r'
          | none => none
        | none => none
      | none => none
    | 116 => match rdN 4 bs with
      | some (n, r) => shapeKV fuel n r
      | none => none
    | 88 => match shape fuel bs with
      | some r => match rdN 4 r with
        | some (_, r1) => match rdN 4 r1 with
          | some (_, r2) => match rdN 4 r2 with
            | some (_, r3) => some r3
            | none => none
          | none => none
        | none => none
      | none => none
    | 120 => match shape fuel bs with
      | some r => match rdN 8 r with
        | some (_, r1) => match rdN 4 r1 with
          | some (_, r2) => some r2
          | none => none
        | none => none
      | none => none
    | 89 => match shape fuel bs with
      | some r => match rdN 4 r with
        | some (_, r1) => match rdN 4 r1 with
          | some (_, r2) => some r2
          | none => none
        | none => none
      | none => none
    | 90 => match rdN 2 bs with
      | some (len, r0) => match shape fuel r0 with
        | some r => match rdN 4 r with
          | some (_, r1) => skipWords len r1
          | none => none
        | none => none
      | none => none
    | 113 => match shape fuel bs with
      | some r => match shape fuel r with
        | some r1 => shape fuel r1
        | none => none
      | none => none
    | 112 => match rdN 4 bs with
      | some (_, r0) => match rdN 1 r0 with
        | some (_, r1) => match takeN 16 r1 with
          | some (_, r2) => match rdN 4 r2 with
            | some (_, r3) => match rdN 4 r3 with
              | some (nf, r4) => match shape fuel r4 with
                | some r5 => match shape fuel r5 with
                  | some r6 => match shape fuel r6 with
                    | some r7 => match shape fuel r7 with
                      | some r8 => shapeN fuel nf r8
                      | none => none
                    | none => none
                  | none => none
                | none => none
              | none => none
            | none => none
          | none => none
        | none => none
      | none => none
    | _ => none
def shapeN : Nat → Nat → Bytes → Option Bytes
  | _, 0, bs => some bs
  | 0, _+1, _ => none
  | fuel+1, n+1, bs => match shape fuel bs with
    | some r => shapeN fuel n r
    | none => none
def shapeKV : Nat → Nat → Bytes → Option Bytes
  | _, 0, bs => some bs
  | 0, _+1, _ => none
  | fuel+1, n+1, bs => match shape fuel bs with
    | some r => match shape fuel r with
      | some r' => shapeKV fuel n r'
      | none => none
    | none => none
end

/-- version byte, one term laid out with modern tags only, nothing behind it
(fuel: every term takes at least its tag byte) -/
def modernOnly (bs : Bytes) : Bool :=
  match bs with
  | 131 :: r => shape (r.length + 1) r == some []
  | _ => false

/-! #### where terms start

An independent walk over the layout of the 23 tags the zero-copy decoder has parsers for (the 21 modern ones, FLOAT_EXT and
ATOM_EXT), recording the number of bytes left at every position where a term starts — including the position of a tag it
does not know and the end of the input when a term is still due.  The oracle for "the reported offset is the start of
a term": `ctx.byte_offset` is assigned at the entry of the term parser and nowhere else below the top level. -/

def skip (k : Nat) (bs : Bytes) : Option Bytes := (rdN k bs).map (·.2)
def skipCounted (k extra : Nat) (bs : Bytes) : Option Bytes :=
  match rdN k bs with
  | some (n, r) => (takeN (n + extra) r).map (·.2)
  | none => none

mutual
def walk : Nat → Bytes → List Nat → List Nat × Option Bytes
  | 0, _, acc => (acc, none)
  | _+1, [], acc => (0 :: acc, none)
  | fuel+1, tag :: bs, acc0 =>
    let acc := (bs.length + 1) :: acc0
    let sub (k : Nat) : List Nat × Option Bytes := match walk fuel bs acc with
      | (a, some r) => (a, skip k r)
      | (a, none) => (a, none)
    match tag.toNat with
    | 97 => (acc, skip 1 bs)
    | 98 => (acc, skip 4 bs)
    | 70 => (acc, skip 8 bs)
    | 99 => (acc, skip 31 bs)
    | 100 => (acc, skipCounted 2 0 bs)
    | 118 => (acc, skipCounted 2 0 bs)
    | 119 => (acc, skipCounted 1 0 bs)
    | 110 => (acc, skipCounted 1 1 bs)
    | 111 => (acc, skipCounted 4 1 bs)
    | 106 => (acc, some bs)
    | 107 => (acc, skipCounted 2 0 bs)
    | 109 => (acc, skipCounted 4 0 bs)
    | 77 => (acc, skipCounted 4 1 bs)
    | 104 => match rdN 1 bs with
      | some (n, r) => walkN fuel n r acc
      | none => (acc, none)
    | 105 => match rdN 4 bs with
      | some (n, r) => walkN fuel n r acc
      | none => (acc, none)
    | 108 => match rdN 4 bs with
      | some (n, r) => match walkN fuel n r acc with
        | (a, some r') => walk fuel r' a
        | (a, none) => (a, none)
      | none => (acc, none)
    | 116 => match rdN 4 bs with
      | some (n, r) => walkN fuel (2 * n) r acc
      | none => (acc, none)
    | 88 => sub 12
    | 120 => sub 12
    | 89 => sub 8
    | 90 => match rdN 2 bs with
      | some (len, r0) => match walk fuel r0 acc with
        | (a, some r) => (a, skip (4 + 4 * len) r)
        | (a, none) => (a, none)
      | none => (acc, none)
    | 113 => match walk fuel bs acc with
      | (a, some r) => match walk fuel r a with
        | (a', some r') => walk fuel r' a'
        | (a', none) => (a', none)
      | (a, none) => (a, none)
    | 112 => match skip 29 bs, (skip 25 bs).bind (rdN 4) with
      | some r4, some (nf, _) => walkN fuel (4 + nf) r4 acc
      | _, _ => (acc, none)
    | _ => (acc, none)
def walkN : Nat → Nat → Bytes → List Nat → List Nat × Option Bytes
  | _, 0, bs, acc => (acc, some bs)
  | 0, _+1, _, acc => (acc, none)
  | fuel+1, n+1, bs, acc => match walk fuel bs acc with
    | (a, some r) => walkN fuel n r a
    | (a, none) => (a, none)
end

/-- is `off` a position where the walk saw a term start (or, for trailing data, where the complete term ended)? -/
def isTermStart (bs : Bytes) (off : Nat) (trailing : Bool) : Bool :=
  match bs with
  | 131 :: r =>
    let (acc, rest) := walk (2 * r.length + 2) r []
    if trailing then (match rest with
      | some q => off + q.length == bs.length
      | none => false)
    else acc.any fun rem => off + rem == bs.length
  | _ => off == 0

end Edp.Spec.Modern
