//! C09: fragment reassembly (`edp_client::fragmentation::FragmentAssembler`).
//!
//! T lines  `c09run <timeout> <op>…`   the real assembler vs. the Lean model (lean/EdpVerif/Impl/Frag.lean)
//! P lines  `c09spec once|full …`      the protocol's reference receiver (lean/EdpVerif/Spec/Frag.lean) on the real outputs
//! X lines                              property failures the harness itself observes on the real assembler
//!
//! Failure classes: `gen` (default), `c09-isolation`, `c09-pending-count`, `c09-limit-complete`, `c09-conflicting-header`,
//! `c09-cleanup-not-called`, `c09-frame-expiry` (none expected to fire) and the one recorded defect of /repo that the
//! repository's own tests pin: `kf-c09-ascending-order`. (The former `kf-c09-count-above-vec-limit`,
//! `kf-c09-cleanup-never-called`, `kf-c09-conflicting-header-count` are repaired — 7a903d6, f40d0e7, e936302 — and their
//! witnesses are corpus cases that must pass.)
use crate::canon::hex;
use crate::Ctx;
use edp_client::fragmentation::FragmentAssembler;
use std::collections::{BTreeMap, BTreeSet};
use std::time::{Duration, Instant};

#[derive(Clone, Debug)]
enum Op {
    Start { seq: u64, fid: u64, cache: Option<Vec<u8>>, data: Vec<u8> },
    Add { seq: u64, fid: u64, data: Vec<u8> },
    Cleanup,
    Count,
    Clear,
    /// what `Connection::receive_message` does per received frame: `cleanup_expired()`, then (for a fragment frame) the operation
    Frame(Option<Box<Op>>),
    /// timed mode only: let real time pass (one gap); not an assembler operation
    Sleep,
}

#[derive(Clone, Copy, PartialEq, Debug)]
enum Mode {
    /// timeout far beyond the run: nothing ever expires; logical clock = op index
    Huge,
    /// `Duration::ZERO`: everything touched strictly earlier has expired at every cleanup; logical clock strictly increasing
    Zero,
    /// 20 ms timeout with 60 ms gaps, accepted only when the measured times make every expiry decision unambiguous
    Timed,
}

const HUGE: u64 = 1_000_000_000_000;
const TIMED_TIMEOUT_MS: u64 = 20;
const TIMED_GAP_MS: u64 = 60;

#[derive(Clone, Debug, PartialEq)]
enum Out {
    Bytes(Option<Vec<u8>>),
    Removed(usize),
    Pending(usize),
    Cleared,
}

fn optarg(b: &Option<Vec<u8>>) -> String {
    match b {
        None => "n".to_string(),
        Some(v) => format!("={}", hex(v)),
    }
}

fn outword(o: &Out) -> String {
    match o {
        Out::Bytes(None) => "-".to_string(),
        Out::Bytes(Some(v)) => format!("={}", hex(v)),
        Out::Removed(k) => format!("c{}", k),
        Out::Pending(k) => format!("p{}", k),
        Out::Cleared => "x".to_string(),
    }
}

struct Run {
    req: String,
    res: String,
    outs: Vec<Out>,
}

/// Drive the real assembler. `None` = a timed run whose measured times were ambiguous (skipped), `Err` = panic.
fn exec(mode: Mode, ops: &[Op]) -> Result<Option<Run>, ()> {
    let ops2: Vec<Op> = ops.to_vec();
    let r = std::panic::catch_unwind(move || {
        let (timeout, tword) = match mode {
            Mode::Huge => (Duration::from_secs(HUGE), HUGE),
            Mode::Zero => (Duration::ZERO, 0),
            Mode::Timed => (Duration::from_millis(TIMED_TIMEOUT_MS), TIMED_TIMEOUT_MS),
        };
        let mut asm = FragmentAssembler::with_timeout(timeout);
        let mut words: Vec<String> = Vec::new();
        let mut outs: Vec<Out> = Vec::new();
        // (logical time, real time before, real time after) of every touching op; used to validate timed runs
        let mut touches: Vec<(u64, Instant, Instant)> = Vec::new();
        let mut logical: u64 = 0;
        let mut ok = true;
        for (i, op) in ops2.iter().enumerate() {
            let now = match mode {
                Mode::Huge => i as u64,
                Mode::Zero => i as u64 + 1,
                Mode::Timed => logical,
            };
            match op {
                Op::Sleep => {
                    std::thread::sleep(Duration::from_millis(TIMED_GAP_MS));
                    logical += TIMED_GAP_MS;
                }
                Op::Start { seq, fid, cache, data } => {
                    let t0 = Instant::now();
                    let r = asm.start_fragment(*seq, *fid, cache.clone(), data.clone());
                    touches.push((now, t0, Instant::now()));
                    words.push(format!("s:{}:{}:{}:{}:={}", now, seq, fid, optarg(cache), hex(data)));
                    outs.push(Out::Bytes(r));
                }
                Op::Add { seq, fid, data } => {
                    let t0 = Instant::now();
                    let r = asm.add_fragment(*seq, *fid, data.clone());
                    touches.push((now, t0, Instant::now()));
                    words.push(format!("a:{}:{}:{}:={}", now, seq, fid, hex(data)));
                    outs.push(Out::Bytes(r));
                }
                Op::Cleanup => {
                    if mode == Mode::Zero {
                        // make sure the clock has advanced since the last touch, so `elapsed() > 0`
                        let t = Instant::now();
                        while t.elapsed() < Duration::from_micros(2) {}
                    }
                    let t0 = Instant::now();
                    let k = asm.cleanup_expired();
                    let t1 = Instant::now();
                    if mode == Mode::Timed {
                        for (l, before, after) in &touches {
                            if now - l == 0 {
                                // must certainly be unexpired
                                if t1.duration_since(*before) >= Duration::from_millis(TIMED_TIMEOUT_MS) {
                                    ok = false;
                                }
                            } else if t0.duration_since(*after) <= Duration::from_millis(TIMED_TIMEOUT_MS) {
                                ok = false;
                            }
                        }
                    }
                    words.push(format!("c:{}", now));
                    outs.push(Out::Removed(k));
                }
                Op::Frame(inner) => {
                    if mode == Mode::Zero {
                        let t = Instant::now();
                        while t.elapsed() < Duration::from_micros(2) {}
                    }
                    let t0 = Instant::now();
                    asm.cleanup_expired();
                    let t1 = Instant::now();
                    if mode == Mode::Timed {
                        for (l, before, after) in &touches {
                            if now - l == 0 {
                                if t1.duration_since(*before) >= Duration::from_millis(TIMED_TIMEOUT_MS) {
                                    ok = false;
                                }
                            } else if t0.duration_since(*after) <= Duration::from_millis(TIMED_TIMEOUT_MS) {
                                ok = false;
                            }
                        }
                    }
                    match inner.as_deref() {
                        Some(Op::Start { seq, fid, cache, data }) => {
                            let t0 = Instant::now();
                            let r = asm.start_fragment(*seq, *fid, cache.clone(), data.clone());
                            touches.push((now, t0, Instant::now()));
                            words.push(format!("fs:{}:{}:{}:{}:={}", now, seq, fid, optarg(cache), hex(data)));
                            outs.push(Out::Bytes(r));
                        }
                        Some(Op::Add { seq, fid, data }) => {
                            let t0 = Instant::now();
                            let r = asm.add_fragment(*seq, *fid, data.clone());
                            touches.push((now, t0, Instant::now()));
                            words.push(format!("fa:{}:{}:{}:={}", now, seq, fid, hex(data)));
                            outs.push(Out::Bytes(r));
                        }
                        _ => {
                            words.push(format!("ft:{}", now));
                            outs.push(Out::Bytes(None));
                        }
                    }
                }
                Op::Count => {
                    words.push("p".to_string());
                    outs.push(Out::Pending(asm.pending_count()));
                }
                Op::Clear => {
                    asm.clear();
                    words.push("x".to_string());
                    outs.push(Out::Cleared);
                }
            }
        }
        if !ok {
            return None;
        }
        let res = outs.iter().map(outword).collect::<Vec<_>>().join(",");
        Some(Run { req: format!("c09run {} {}", tword, words.join(" ")), res, outs })
    });
    r.map_err(|_| ())
}

/// run + T line; returns the outputs
fn tie(ctx: &mut Ctx, tag: &str, mode: Mode, ops: &[Op]) -> Option<Vec<Out>> {
    match exec(mode, ops) {
        Ok(Some(r)) => {
            ctx.tie(tag, &r.req, &r.res);
            Some(r.outs)
        }
        Ok(None) => {
            ctx.count("timed_runs_skipped_ambiguous_clock");
            None
        }
        Err(()) => {
            // the model has no panic outcome for the assembler: report through the tie with a result the model cannot produce
            let words: Vec<String> = ops.iter().map(|o| format!("{:?}", o).replace(' ', "")).collect();
            ctx.fail("gen", &format!("assembler panicked on {}", words.join(" ")));
            None
        }
    }
}

/// a message cut the protocol's way (mirror of `Spec.Frag.cut` / `number`): `pieces[i]` has fragment id `n - i`
#[derive(Clone, Debug)]
struct Seq {
    id: u64,
    cache: Option<Vec<u8>>,
    msg: Vec<u8>,
    lens: Vec<usize>,
    pieces: Vec<Vec<u8>>,
}

impl Seq {
    fn new(id: u64, cache: Option<Vec<u8>>, msg: Vec<u8>, lens: Vec<usize>) -> Seq {
        let mut pieces = Vec::new();
        let mut rest: &[u8] = &msg;
        for l in &lens {
            let k = (*l).min(rest.len());
            pieces.push(rest[..k].to_vec());
            rest = &rest[k..];
        }
        pieces.push(rest.to_vec());
        Seq { id, cache, msg, lens, pieces }
    }
    fn n(&self) -> u64 {
        self.pieces.len() as u64
    }
    /// the op by which the fragment with id `fid` arrives: the header frame for `fid = n`, a continuation otherwise
    fn op(&self, fid: u64) -> Op {
        let n = self.n();
        let data = self.pieces[(n - fid) as usize].clone();
        if fid == n {
            Op::Start { seq: self.id, fid, cache: self.cache.clone(), data }
        } else {
            Op::Add { seq: self.id, fid, data }
        }
    }
    /// ascending-id concatenation equals the protocol's (descending-id) one, i.e. the order defect is invisible
    fn order_insensitive(&self) -> bool {
        let asc: Vec<u8> = self.pieces.iter().rev().flatten().copied().collect();
        asc == self.msg
    }
    fn lens_arg(&self) -> String {
        if self.lens.is_empty() {
            "-".to_string()
        } else {
            self.lens.iter().map(|l| l.to_string()).collect::<Vec<_>>().join(",")
        }
    }
}

/// one arrival of a single sequence: a fragment id of the split, or a junk continuation with that id
#[derive(Clone, Copy, Debug, PartialEq)]
enum Arr {
    Frag(u64),
    Junk(u64),
}

/// single-sequence scenario: T line, and the protocol oracle on the implementation's outputs (P lines)
fn single(ctx: &mut Ctx, tag: &str, s: &Seq, arrival: &[Arr]) {
    let mut ops: Vec<Op> = arrival
        .iter()
        .map(|a| match a {
            Arr::Frag(k) => s.op(*k),
            Arr::Junk(k) => Op::Add { seq: s.id, fid: *k, data: vec![0xee] },
        })
        .collect();
    ops.push(Op::Count);
    let Some(outs) = tie(ctx, tag, Mode::Huge, &ops) else { return };
    let outs_arg = outs[..arrival.len()].iter().map(outword).collect::<Vec<_>>().join(",");
    let arr_arg = arrival
        .iter()
        .map(|a| match a {
            Arr::Frag(k) => k.to_string(),
            Arr::Junk(k) => format!("j{}", k),
        })
        .collect::<Vec<_>>()
        .join(",");
    let body = format!("{} {} ={} {} {} {}", s.id, optarg(&s.cache), hex(&s.msg), s.lens_arg(), arr_arg, outs_arg);
    // exactly once, at the arrival of the last missing fragment, with the right length
    ctx.prop(tag, &format!("c09spec once {}", body), "ok");
    // … and it is the original message
    let class = if s.order_insensitive() { tag } else { "kf-c09-ascending-order" };
    if class != tag {
        ctx.count("order_sensitive_cases");
    }
    ctx.prop(class, &format!("c09spec full {}", body), "ok");
}

/// (sequence id, fragment id) of a fragment operation, also when it arrives as a connection frame
fn frag_of(o: &Op) -> Option<(u64, u64)> {
    match o {
        Op::Start { seq, fid, .. } | Op::Add { seq, fid, .. } => Some((*seq, *fid)),
        Op::Frame(Some(inner)) => frag_of(inner),
        _ => None,
    }
}

fn permutations(n: u64) -> Vec<Vec<u64>> {
    fn go(cur: &mut Vec<u64>, rest: &mut Vec<u64>, out: &mut Vec<Vec<u64>>) {
        if rest.is_empty() {
            out.push(cur.clone());
            return;
        }
        for i in 0..rest.len() {
            let x = rest.remove(i);
            cur.push(x);
            go(cur, rest, out);
            cur.pop();
            rest.insert(i, x);
        }
    }
    let mut out = Vec::new();
    go(&mut Vec::new(), &mut (1..=n).rev().collect(), &mut out);
    out
}

/// all ways to choose the first `n-1` piece lengths of an `l`-byte message (pieces may be empty)
fn all_lens(n: usize, l: usize) -> Vec<Vec<usize>> {
    fn go(k: usize, left: usize, cur: &mut Vec<usize>, out: &mut Vec<Vec<usize>>) {
        if k == 0 {
            out.push(cur.clone());
            return;
        }
        for x in 0..=left {
            cur.push(x);
            go(k - 1, left - x, cur, out);
            cur.pop();
        }
    }
    let mut out = Vec::new();
    go(n - 1, l, &mut Vec::new(), &mut out);
    out
}

fn exhaustive(ctx: &mut Ctx) {
    let nmax = ctx.n(5, 7) as u64;
    // (a) every arrival order × every cut of a short message
    for n in 1..=nmax {
        let perms = permutations(n);
        let l = if n <= 5 { 4 } else { 2 };
        let mut cuts = all_lens(n as usize, l);
        if n >= 6 {
            // n = 6, 7: all orders × two cuts of a 2-byte message plus (below) one cut with every piece non-empty
            cuts.truncate(2);
        }
        let msg: Vec<u8> = (1..=l as u8).map(|b| b * 0x11).collect();
        for lens in &cuts {
            let s = Seq::new(40 + n, None, msg.clone(), lens.clone());
            for p in &perms {
                let arr: Vec<Arr> = p.iter().map(|k| Arr::Frag(*k)).collect();
                single(ctx, "gen", &s, &arr);
                ctx.count("exh_order_x_cut");
            }
        }
        if n >= 6 {
            let msg: Vec<u8> = (1..=2 * n as u8).collect();
            let s = Seq::new(40 + n, Some(vec![0xca, 0xfe]), msg, vec![2; n as usize - 1]);
            for p in &perms {
                let arr: Vec<Arr> = p.iter().map(|k| Arr::Frag(*k)).collect();
                single(ctx, "gen", &s, &arr);
                ctx.count("exh_order_x_cut");
            }
        }
    }
    // (b) every arrival order × every single duplication (copy of arrival i re-delivered before position j; j = n means
    //     after completion) and the all-duplicated pattern, on an 8-byte message with an atom-cache section
    let dmax = ctx.n(5, 6) as u64;
    for n in 1..=dmax {
        let msg: Vec<u8> = (1..=8u8).collect();
        let lens: Vec<usize> = (0..n as usize - 1).map(|i| 1 + (i % 2)).collect();
        let s = Seq::new(7, Some(vec![0xaa, 0xbb]), msg, lens);
        for p in &permutations(n) {
            let base: Vec<Arr> = p.iter().map(|k| Arr::Frag(*k)).collect();
            for i in 0..n as usize {
                for j in (i + 1)..=(n as usize) {
                    let mut arr = base.clone();
                    arr.insert(j, base[i]);
                    single(ctx, "gen", &s, &arr);
                    ctx.count("exh_order_x_duplicate");
                }
            }
            let all: Vec<Arr> = base.iter().flat_map(|a| [*a, *a]).collect();
            single(ctx, "gen", &s, &all);
            let twice: Vec<Arr> = base.iter().chain(base.iter()).copied().collect();
            single(ctx, "gen", &s, &twice);
            ctx.add("exh_order_x_duplicate", 2);
        }
    }
    // (c) every arrival order × a junk continuation (id 0, n+1, u64::MAX) at every position
    let jmax = ctx.n(4, 5) as u64;
    for n in 1..=jmax {
        let msg: Vec<u8> = (0x10..0x16u8).collect();
        let lens: Vec<usize> = vec![1; n as usize - 1];
        let s = Seq::new(u64::MAX, None, msg, lens);
        for p in &permutations(n) {
            let base: Vec<Arr> = p.iter().map(|k| Arr::Frag(*k)).collect();
            for junk in [0, n + 1, u64::MAX] {
                for j in 0..=n as usize {
                    let mut arr = base.clone();
                    arr.insert(j, Arr::Junk(junk));
                    single(ctx, "gen", &s, &arr);
                    ctx.count("exh_order_x_junk_id");
                }
            }
        }
    }
    ctx.add("exhaustive", 1);
}

const SEQ_IDS: [u64; 8] = [0, 1, 2, 255, 65_536, 1 << 32, u64::MAX - 1, u64::MAX];

fn gen_seq(ctx: &mut Ctx, id: u64) -> Seq {
    let n = match ctx.rng.below(10) {
        0 => 1,
        1..=3 => 2,
        4..=6 => 3,
        7 => 4,
        8 => 5,
        _ => ctx.rng.range(6, 9),
    } as usize;
    let len = match ctx.rng.below(6) {
        0 => 0,
        1 => 1,
        _ => ctx.rng.range(2, 14),
    } as usize;
    let msg = ctx.rng.bytes(len);
    let lens: Vec<usize> = (0..n - 1).map(|_| ctx.rng.below(len as u64 / 2 + 2) as usize).collect();
    let cache = match ctx.rng.below(4) {
        0 => Some(ctx.rng.bytes(3)),
        1 => Some(vec![]),
        _ => None,
    };
    Seq::new(id, cache, msg, lens)
}

/// 2–4 interleaved sequences, random arrival orders, duplicates, junk ids, pending_count / cleanup / clear in between
fn interleaved(ctx: &mut Ctx, tag: &str) {
    let k = ctx.rng.range(2, 4) as usize;
    let mut ids: Vec<u64> = Vec::new();
    while ids.len() < k {
        let id = if ctx.rng.chance(1, 2) { *ctx.rng.pick(&SEQ_IDS) } else { ctx.rng.next() };
        if !ids.contains(&id) {
            ids.push(id);
        }
    }
    let seqs: Vec<Seq> = ids.iter().map(|id| gen_seq(ctx, *id)).collect();
    let mode = if ctx.rng.chance(1, 6) { Mode::Zero } else { Mode::Huge };
    let dirty = ctx.rng.chance(1, 2); // junk ids, altered duplicates, duplicates after completion, clear
    let mut queues: Vec<Vec<Op>> = Vec::new();
    let mut clean = !dirty;
    for s in &seqs {
        let mut order: Vec<u64> = (1..=s.n()).collect();
        ctx.rng.shuffle(&mut order);
        // an incomplete sequence now and then
        if ctx.rng.chance(1, 4) {
            let keep = ctx.rng.below(order.len() as u64) as usize;
            order.truncate(keep);
        }
        let mut q: Vec<Op> = order.iter().map(|f| s.op(*f)).collect();
        // duplicates delivered before the sequence completes (exact copies)
        if q.len() >= 2 && ctx.rng.chance(1, 3) {
            let i = ctx.rng.below(q.len() as u64 - 1) as usize;
            let j = ctx.rng.range(i as u64 + 1, q.len() as u64 - 1) as usize;
            let d = q[i].clone();
            q.insert(j, d);
            ctx.count("il_duplicate_before_completion");
        }
        if dirty {
            for _ in 0..ctx.rng.below(3) {
                let fid = *ctx.rng.pick(&[0, s.n() + 1, s.n() + 2, u64::MAX, s.n(), 1]);
                let pos = ctx.rng.below(q.len() as u64 + 1) as usize;
                let data = ctx.rng.bytes(2);
                let op = if ctx.rng.chance(1, 5) && fid != 0 {
                    // a second header, possibly with another count
                    ctx.count("il_extra_header");
                    Op::Start { seq: s.id, fid, cache: if ctx.rng.chance(1, 2) { Some(vec![0x99]) } else { None }, data }
                } else {
                    ctx.count("il_junk_or_altered_fragment");
                    Op::Add { seq: s.id, fid, data }
                };
                q.insert(pos, op);
            }
        }
        queues.push(q);
    }
    // merge the queues in a random interleaving
    let mut ops: Vec<Op> = Vec::new();
    let mut idx = vec![0usize; queues.len()];
    loop {
        let live: Vec<usize> = (0..queues.len()).filter(|i| idx[*i] < queues[*i].len()).collect();
        if live.is_empty() {
            break;
        }
        let i = *ctx.rng.pick(&live);
        ops.push(queues[i][idx[i]].clone());
        idx[i] += 1;
        match ctx.rng.below(12) {
            0 | 1 => ops.push(Op::Count),
            2 => {
                ops.push(Op::Cleanup);
                ctx.count("il_cleanup");
            }
            3 if dirty && ctx.rng.chance(1, 6) => {
                ops.push(Op::Clear);
                ctx.count("il_clear");
                clean = false;
            }
            _ => {}
        }
    }
    ops.push(Op::Count);
    // one run in four as a connection sees it: every operation is a received frame (expiry first), ticks in between
    let framed = ctx.rng.chance(1, 4);
    if framed {
        ctx.count("il_as_connection_frames");
        let mut f: Vec<Op> = Vec::new();
        for o in ops.drain(..) {
            match o {
                Op::Start { .. } | Op::Add { .. } => f.push(Op::Frame(Some(Box::new(o)))),
                Op::Cleanup => f.push(Op::Frame(None)),
                other => f.push(other),
            }
            if ctx.rng.chance(1, 8) {
                f.push(Op::Frame(None));
            }
        }
        f.push(Op::Count); // the last output stays the final `pending_count`
        ops = f;
    }
    ctx.count(&format!("il_sequences_{}", k));
    ctx.count(if mode == Mode::Zero { "il_mode_zero_timeout" } else { "il_mode_no_expiry" });
    let Some(outs) = tie(ctx, tag, mode, &ops) else { return };
    let has_clear = ops.iter().any(|o| matches!(o, Op::Clear));
    // isolation: what a sequence returns is what it returns when fed alone
    if mode == Mode::Huge && !has_clear {
        for s in &seqs {
            let mine: Vec<usize> = (0..ops.len()).filter(|i| frag_of(&ops[*i]).map(|(q, _)| q == s.id).unwrap_or(false)).collect();
            let alone: Vec<Op> = mine.iter().map(|i| ops[*i].clone()).collect();
            if let Ok(Some(r)) = exec(Mode::Huge, &alone) {
                let together: Vec<Out> = mine.iter().map(|i| outs[*i].clone()).collect();
                ctx.count("isolation_checks");
                if r.outs != together {
                    ctx.fail("c09-isolation", &format!("seq={} alone={} interleaved-run={}", s.id, r.res, r.req));
                }
            }
        }
    }
    // pending_count = number of sequences that have started and are still incomplete (protocol-conforming runs, nothing expires)
    if clean && mode == Mode::Huge {
        let mut seen: BTreeMap<u64, BTreeSet<u64>> = BTreeMap::new();
        for o in &ops {
            if let Some((seq, fid)) = frag_of(o) {
                seen.entry(seq).or_default().insert(fid);
            }
        }
        let expect = seqs
            .iter()
            .filter(|s| seen.get(&s.id).map(|f| !f.is_empty() && (f.len() as u64) < s.n()).unwrap_or(false))
            .count();
        ctx.count("pending_count_checks");
        if outs.last() != Some(&Out::Pending(expect)) {
            ctx.fail("c09-pending-count", &format!("expected {} incomplete sequences, pending_count says {:?}", expect, outs.last()));
        }
        // and every complete sequence was returned exactly once
        for s in &seqs {
            let complete = seen.get(&s.id).map(|f| f.len() as u64 == s.n()).unwrap_or(false);
            let returned = (0..ops.len())
                .filter(|i| matches!(&outs[*i], Out::Bytes(Some(_))) && frag_of(&ops[*i]).map(|(q, _)| q == s.id).unwrap_or(false))
                .count();
            if returned != complete as usize {
                ctx.fail("gen", &format!("sequence {} complete={} but returned {} times", s.id, complete, returned));
            }
        }
    }
}

/// counts around the two limits, ids 0 / n+1 / u64::MAX, continuation-before-header with such ids
fn boundaries(ctx: &mut Ctx) {
    let counts: [u64; 13] =
        [0, 1, 2, 3, 99_999, 100_000, 100_001, 100_002, 500_000, 999_999, 1_000_000, 1_000_001, u64::MAX];
    for c in counts {
        let ids: Vec<u64> = vec![0, 1, 2, c.wrapping_sub(1), c, c.wrapping_add(1), u64::MAX];
        // header first
        let mut ops = vec![Op::Start { seq: 9, fid: c, cache: Some(vec![0xc0]), data: vec![0x01] }, Op::Count];
        for f in &ids {
            ops.push(Op::Add { seq: 9, fid: *f, data: vec![*f as u8, 0x02] });
        }
        ops.push(Op::Count);
        ops.push(Op::Start { seq: 9, fid: c, cache: None, data: vec![0x03] });
        ops.push(Op::Count);
        tie(ctx, "gen", Mode::Huge, &ops);
        // continuations first, header last
        let mut ops = vec![];
        for f in &ids {
            ops.push(Op::Add { seq: 9, fid: *f, data: vec![*f as u8, 0x04] });
        }
        ops.push(Op::Count);
        ops.push(Op::Start { seq: 9, fid: c, cache: None, data: vec![0x05] });
        ops.push(Op::Count);
        ops.push(Op::Add { seq: 9, fid: 1, data: vec![0x06] });
        ops.push(Op::Count);
        tie(ctx, "gen", Mode::Huge, &ops);
        ctx.add("boundary_count_scenarios", 2);
    }
    // two headers with different counts for one sequence (shrinking and growing across the limits)
    let pairs: [(u64, u64); 10] =
        [(3, 2), (2, 3), (3, 1), (1, 3), (5, 100_001), (100_001, 5), (100_000, 100_001), (100_001, 100_000), (2, 1_000_001), (4, 4)];
    for (c1, c2) in pairs {
        let mut ops = vec![
            Op::Add { seq: 3, fid: 1, data: vec![0x0a] },
            Op::Start { seq: 3, fid: c1, cache: Some(vec![0x11]), data: vec![0x0b] },
            Op::Count,
            Op::Start { seq: 3, fid: c2, cache: Some(vec![0x22]), data: vec![0x0c] },
            Op::Count,
        ];
        for f in [2u64, 1, 3, c2] {
            ops.push(Op::Add { seq: 3, fid: f, data: vec![f as u8] });
        }
        ops.push(Op::Count);
        tie(ctx, "gen", Mode::Huge, &ops);
        ctx.count("conflicting_header_scenarios");
    }
    // a complete medium-size sequence in random order (model = code on a long run)
    let n = ctx.n(300, 2000) as u64;
    let msg: Vec<u8> = (0..n).map(|i| i as u8).collect();
    let s = Seq::new(77, Some(vec![1, 2, 3]), msg, vec![1; n as usize - 1]);
    let mut order: Vec<u64> = (1..=n).collect();
    ctx.rng.shuffle(&mut order);
    let mut ops: Vec<Op> = order.iter().map(|f| s.op(*f)).collect();
    ops.push(Op::Count);
    tie(ctx, "gen", Mode::Huge, &ops);
    ctx.count("medium_full_sequence");
}

/// How a full-size sequence is delivered to the real assembler.
#[derive(Clone, Copy, Debug, PartialEq)]
enum BigOrder {
    /// header (id n), then n-1 … 1
    Protocol,
    /// continuations 1 … n-1 first (buffered before the header), the header last
    HeaderLast,
    /// a random permutation, every 1000th arrival delivered twice (the copy carries other data), two junk ids
    Shuffled,
}

/// full-size runs on the real assembler only (too long for a line, and the model's association list is quadratic there):
/// the vector limit itself and the counts above it, which since 7a903d6 go through the pending map. The harness is its own
/// oracle here: returned exactly once, at the arrival of the last missing id, the bytes by ascending id (the order the
/// repository's tests pin; the protocol's order is the recorded finding), nothing held afterwards.
fn big_runs(ctx: &mut Ctx) {
    let mut cases: Vec<(u64, BigOrder)> = vec![
        (100_000, BigOrder::Protocol),
        (100_000, BigOrder::Shuffled),
        (100_001, BigOrder::Protocol),
        (100_001, BigOrder::HeaderLast),
        (100_001, BigOrder::Shuffled),
        (100_003, BigOrder::Shuffled),
    ];
    if ctx.thorough {
        cases.push((250_000, BigOrder::Shuffled));
        cases.push((1_000_000, BigOrder::Protocol));
        cases.push((1_000_000, BigOrder::HeaderLast));
    }
    for (n, order) in cases {
        // arrival: (fragment id, is the genuine first copy)
        let mut ids: Vec<u64> = match order {
            BigOrder::Protocol => (1..=n).rev().collect(),
            BigOrder::HeaderLast => (1..=n).collect(),
            BigOrder::Shuffled => {
                let mut v: Vec<u64> = (1..=n).collect();
                ctx.rng.shuffle(&mut v);
                v
            }
        };
        let mut arrival: Vec<(u64, bool)> = Vec::with_capacity(ids.len() + 200);
        let last_pos = ids.len() - 1;
        for (i, f) in ids.drain(..).enumerate() {
            arrival.push((f, true));
            if order == BigOrder::Shuffled && i % 1000 == 7 && i != last_pos {
                arrival.push((f, false)); // a late copy with other data: must be ignored
            }
            if order == BigOrder::Shuffled && (i == 3 || i == last_pos / 2) {
                arrival.push((if i == 3 { n + 1 } else { 0 }, false)); // junk ids: must be ignored
            }
        }
        let piece = |f: u64| -> Vec<u8> { vec![(f % 251) as u8, (f / 251 % 256) as u8] };
        let arrival2 = arrival.clone();
        let r = std::panic::catch_unwind(move || {
            let mut asm = FragmentAssembler::new();
            let mut somes = 0usize;
            let mut at_last = false;
            let mut result: Option<Vec<u8>> = None;
            let total = arrival2.len();
            for (i, (fid, genuine)) in arrival2.iter().enumerate() {
                let data = if *genuine { piece(*fid) } else { vec![0xee, 0xee, 0xee] };
                let r = if *fid == n && *genuine { asm.start_fragment(5u64, *fid, Some(vec![0xc0]), data) } else { asm.add_fragment(5u64, *fid, data) };
                if let Some(b) = r {
                    somes += 1;
                    at_last = i == total - 1;
                    result = Some(b);
                }
            }
            (somes, at_last, result, asm.pending_count())
        });
        ctx.count("full_size_runs");
        ctx.count(&format!("full_size_{:?}", order).to_lowercase());
        let mut expected: Vec<u8> = vec![0xc0];
        for f in 1..=n {
            expected.extend_from_slice(&piece(f));
        }
        match r {
            Err(_) => ctx.fail("c09-limit-complete", &format!("assembler panicked on a {}-fragment sequence ({:?})", n, order)),
            Ok((1, true, Some(b), 0)) if b == expected => {}
            Ok((somes, at_last, b, pending)) => {
                let what = match &b {
                    None => "nothing".to_string(),
                    Some(b) if *b == expected => "the expected bytes".to_string(),
                    Some(b) => {
                        let at = b.iter().zip(expected.iter()).position(|(x, y)| x != y).unwrap_or(b.len().min(expected.len()));
                        format!("{} bytes (expected {}), first difference at byte {}", b.len(), expected.len(), at)
                    }
                };
                ctx.fail(
                    "c09-limit-complete",
                    &format!(
                        "a {}-fragment sequence ({:?}: ids 1..{}, header id {} carries the count, two bytes each, cache c0): returned {} time(s) (at the last arrival: {}), {}, pending_count={} afterwards",
                        n, order, n, n, somes, at_last, what, pending
                    ),
                );
            }
        }
    }
}

/// counts above the vector limit with a handful of fragments, tied to the model: the pending-map path of `add_fragment` /
/// `set_total_fragments` (first copy wins, ids beyond the count dropped when the header arrives, `received_count`)
fn large_path(ctx: &mut Ctx) {
    for _ in 0..ctx.n(300, 3000) {
        let c: u64 = *ctx.rng.pick(&[100_001u64, 100_002, 123_456, 500_000, 999_999, 1_000_000]);
        let pool: Vec<u64> = vec![0, 1, 2, 3, 100_000, 100_001, c - 1, c, c + 1, 1_000_000, 1_000_001, u64::MAX, ctx.rng.range(1, c)];
        let nops = ctx.rng.range(3, 12);
        let header_at = if ctx.rng.chance(1, 8) { u64::MAX } else { ctx.rng.below(nops) };
        let mut ops: Vec<Op> = Vec::new();
        for i in 0..nops {
            if i == header_at {
                ops.push(Op::Start { seq: 4, fid: c, cache: if ctx.rng.chance(1, 2) { Some(vec![0xc1]) } else { None }, data: ctx.rng.bytes(2) });
                continue;
            }
            match ctx.rng.below(12) {
                0 => ops.push(Op::Count),
                1 => {
                    // another header: the same count again, another large count, a small count, an invalid one
                    let c2 = *ctx.rng.pick(&[c, c, c + 1, c - 1, 3, 100_000, 1_000_001, 0]);
                    ctx.count(if c2 == c { "large_duplicate_header" } else { "large_conflicting_header" });
                    ops.push(Op::Start { seq: 4, fid: c2, cache: Some(vec![0xc2]), data: ctx.rng.bytes(1) });
                }
                2 => ops.push(Op::Add { seq: 6, fid: *ctx.rng.pick(&pool), data: ctx.rng.bytes(1) }),
                _ => ops.push(Op::Add { seq: 4, fid: *ctx.rng.pick(&pool), data: ctx.rng.bytes(2) }),
            }
        }
        ops.push(Op::Count);
        let mode = if ctx.rng.chance(1, 8) { Mode::Zero } else { Mode::Huge };
        if mode == Mode::Zero {
            let at = ctx.rng.below(ops.len() as u64) as usize;
            ops.insert(at, Op::Cleanup);
            ops.push(Op::Count);
        }
        tie(ctx, "gen", mode, &ops);
        ctx.count("large_count_scenarios");
    }
}

/// two headers with different counts for one sequence. Former witnesses of `kf-c09-conflicting-header-count` (repaired by
/// e936302): the second header must be ignored, the sequence must still complete with the count of the first header, and
/// what is returned must contain every fragment.
fn conflicting_header(ctx: &mut Ctx) {
    // (first count, second count)
    let pairs: [(u64, u64); 8] = [(3, 2), (2, 1), (2, 3), (4, 1), (3, 100_001), (100_001, 3), (5, 1_000_000), (3, 3)];
    for (c1, c2) in pairs {
        if c1 > 10 {
            // a large first count cannot be completed on a line; the tie (boundaries, large_path) covers it
            let ops = vec![
                Op::Start { seq: 1, fid: c1, cache: None, data: vec![0x33] },
                Op::Start { seq: 1, fid: c2, cache: None, data: vec![0x22] },
                Op::Count,
            ];
            if let Some(outs) = tie(ctx, "gen", Mode::Huge, &ops) {
                if outs[1] != Out::Bytes(None) || outs[2] != Out::Pending(1) {
                    ctx.fail("c09-conflicting-header", &format!("start_fragment(1,{},..) then start_fragment(1,{},..): {:?}", c1, c2, outs));
                }
            }
            continue;
        }
        // the first header, the conflicting (or, for c1 = c2, duplicate) one, then the continuations c1-1 … 1
        let mut ops = vec![
            Op::Start { seq: 1, fid: c1, cache: None, data: vec![0x30 + c1 as u8] },
            Op::Start { seq: 1, fid: c2, cache: None, data: vec![0x22] },
            Op::Count,
        ];
        for f in (1..c1).rev() {
            ops.push(Op::Add { seq: 1, fid: f, data: vec![f as u8] });
        }
        ops.push(Op::Count);
        ctx.count("conflicting_header_witnesses");
        let Some(outs) = tie(ctx, "gen", Mode::Huge, &ops) else { continue };
        // expected: nothing until the last continuation, then every fragment of the FIRST header's sequence (ascending id)
        let mut expected: Vec<u8> = (1..c1).map(|f| f as u8).collect();
        expected.push(0x30 + c1 as u8);
        let n = outs.len();
        let mut ok = outs[n - 1] == Out::Pending(0) && outs[2] == Out::Pending(1);
        for (i, o) in outs.iter().enumerate() {
            if i == 2 || i == n - 1 {
                continue;
            }
            let want = if i == n - 2 { Out::Bytes(Some(expected.clone())) } else { Out::Bytes(None) };
            if *o != want {
                ok = false;
            }
        }
        if !ok {
            ctx.fail(
                "c09-conflicting-header",
                &format!(
                    "start_fragment(1,{},None,[{:02x}]) then start_fragment(1,{},None,[22]) then add_fragment(1,k,[k]) for k = {}..1: outputs {} (expected nothing until the last continuation, then {})",
                    c1,
                    0x30 + c1 as u8,
                    c2,
                    c1 - 1,
                    outs.iter().map(outword).collect::<Vec<_>>().join(","),
                    hex(&expected)
                ),
            );
        }
    }
}

/// expiry through the public API: zero timeout (everything expires), and real 20 ms timeouts with 60 ms gaps
fn expiry(ctx: &mut Ctx) {
    for _ in 0..ctx.n(60, 600) {
        // zero timeout: random touches and cleanups
        let mut ops = Vec::new();
        for _ in 0..ctx.rng.range(2, 10) {
            let seq = ctx.rng.below(4);
            match ctx.rng.below(5) {
                0 => ops.push(Op::Cleanup),
                1 => ops.push(Op::Count),
                2 => ops.push(Op::Start { seq, fid: ctx.rng.range(1, 4), cache: None, data: ctx.rng.bytes(1) }),
                _ => ops.push(Op::Add { seq, fid: ctx.rng.range(0, 4), data: ctx.rng.bytes(1) }),
            }
        }
        ops.push(Op::Cleanup);
        ops.push(Op::Count);
        tie(ctx, "gen", Mode::Zero, &ops);
        ctx.count("expiry_zero_timeout_scenarios");
    }
    for _ in 0..ctx.n(4, 40) {
        // real time: touches, gaps, cleanups; a touched sequence survives, an untouched one goes
        let mut ops = Vec::new();
        let mut sleeps = 0;
        for _ in 0..ctx.rng.range(3, 8) {
            let seq = ctx.rng.below(3);
            match ctx.rng.below(6) {
                0 if sleeps < 2 => {
                    ops.push(Op::Sleep);
                    sleeps += 1;
                }
                1 => ops.push(Op::Cleanup),
                2 => ops.push(Op::Start { seq, fid: ctx.rng.range(2, 4), cache: None, data: ctx.rng.bytes(1) }),
                _ => ops.push(Op::Add { seq, fid: ctx.rng.range(1, 4), data: ctx.rng.bytes(1) }),
            }
        }
        if sleeps == 0 {
            ops.insert(ops.len() / 2, Op::Sleep);
        }
        ops.push(Op::Cleanup);
        ops.push(Op::Count);
        tie(ctx, "gen", Mode::Timed, &ops);
        ctx.count("expiry_real_time_scenarios");
    }
}

/// THE PROPERTY'S OWN BOOK-KEEPING (written from the statement, not from the code): which sequences an assembler may
/// hold and when it may return something. A sequence is an id, the fragment count once its header has been seen, the set
/// of fragment ids that arrived, and the clock reading of its last fragment. "Holds no more than the data of sequences
/// still incomplete and unexpired": after `cleanup_expired` at `t` exactly the sequences with `t - last <= timeout` are
/// held; a sequence leaves when its last missing fragment arrives (that arrival returns the message) — and ONLY a
/// sequence whose fragments all arrived while it was held can return anything.
struct RefAsm {
    timeout: u64,
    held: BTreeMap<u64, (Option<u64>, BTreeSet<u64>, u64)>,
}

impl RefAsm {
    fn new(timeout: u64) -> RefAsm {
        RefAsm { timeout, held: BTreeMap::new() }
    }
    /// a fragment (`count` = `Some(id)` for a header); returns whether a message is returned
    fn fragment(&mut self, now: u64, seq: u64, fid: u64, header: bool) -> bool {
        let e = self.held.entry(seq).or_insert((None, BTreeSet::new(), now));
        if header {
            if e.0.is_some() && e.0 != Some(fid) {
                return false; // conflicting header: ignored
            }
            e.0 = Some(fid);
        }
        if fid >= 1 {
            e.1.insert(fid);
        }
        e.2 = now;
        if let Some(n) = e.0 {
            if (1..=n).all(|k| e.1.contains(&k)) {
                self.held.remove(&seq);
                return true;
            }
        }
        false
    }
    fn cleanup(&mut self, now: u64) -> usize {
        let before = self.held.len();
        let t = self.timeout;
        self.held.retain(|_, e| now - e.2 <= t);
        before - self.held.len()
    }
}

/// judge a run of the real assembler by `RefAsm`: every `pending_count()`, every `cleanup_expired()` return value and the
/// returned / not returned pattern of every fragment. `clock[i]` is the logical time of op `i`.
fn judge_by_ref(ctx: &mut Ctx, class: &str, what: &str, timeout: u64, ops: &[Op], clock: &[u64], outs: &[Out]) {
    let mut r = RefAsm::new(timeout);
    let mut k = 0usize; // index into outs (`Sleep` has no entry)
    for (i, op) in ops.iter().enumerate() {
        let now = clock[i];
        let (want, got): (String, String) = match op {
            Op::Sleep => continue,
            Op::Start { seq, fid, .. } => (format!("returns={}", r.fragment(now, *seq, *fid, true)), format!("returns={}", matches!(outs[k], Out::Bytes(Some(_))))),
            Op::Add { seq, fid, .. } => (format!("returns={}", r.fragment(now, *seq, *fid, false)), format!("returns={}", matches!(outs[k], Out::Bytes(Some(_))))),
            Op::Cleanup => (format!("{:?}", Out::Removed(r.cleanup(now))), format!("{:?}", outs[k])),
            Op::Count => (format!("{:?}", Out::Pending(r.held.len())), format!("{:?}", outs[k])),
            Op::Clear => {
                r.held.clear();
                (String::new(), String::new())
            }
            Op::Frame(inner) => {
                r.cleanup(now);
                let w = match inner.as_deref() {
                    Some(Op::Start { seq, fid, .. }) => r.fragment(now, *seq, *fid, true),
                    Some(Op::Add { seq, fid, .. }) => r.fragment(now, *seq, *fid, false),
                    _ => false,
                };
                (format!("returns={}", w), format!("returns={}", matches!(outs[k], Out::Bytes(Some(_)))))
            }
        };
        if want != got {
            let hist: Vec<String> = ops.iter().zip(clock).map(|(o, t)| format!("@{}:{:?}", t, o).replace(' ', "")).collect();
            ctx.fail(class, &format!("{} (timeout {}): op {} {} but the property says {}; history {} outputs {}", what, timeout, i, got, want, hist.join(" "), outs.iter().map(outword).collect::<Vec<_>>().join(",")));
            return;
        }
        k += 1;
    }
}

/// the logical clock `exec` gives each op in the mode
fn clock_of(mode: Mode, ops: &[Op]) -> Vec<u64> {
    let mut logical = 0u64;
    ops.iter()
        .enumerate()
        .map(|(i, op)| match mode {
            Mode::Huge => i as u64,
            Mode::Zero => i as u64 + 1,
            Mode::Timed => {
                let now = logical;
                if matches!(op, Op::Sleep) {
                    logical += TIMED_GAP_MS;
                }
                now
            }
        })
        .collect()
}

/// SEVERAL SEQUENCES IN FLIGHT, THE OLDEST COMPLETES, A YOUNGER ONE THEN GOES SILENT. Whether a sequence expires must not
/// depend on what happened to any other sequence: after the clean-up exactly the sequences heard of within the timeout are
/// held, and the stragglers of an expired sequence never complete a message. Two and three sequences; clean-up called
/// directly and once per frame (the connection's way); zero timeout (logical clock) and 20 ms / 60 ms real time.
fn expiry_in_flight(ctx: &mut Ctx) {
    for round in 0..ctx.n(120, 1200) {
        let timed = round % 30 == 29;
        let mode = if timed { Mode::Timed } else { Mode::Zero };
        let frames = ctx.rng.chance(1, 2);
        let base = ctx.rng.below(1000) * 10;
        let nseq = ctx.rng.range(2, 3) as usize;
        // sequence 0 is the oldest and completes; the others stay incomplete
        let counts: Vec<u64> = (0..nseq).map(|_| ctx.rng.range(2, 4)).collect();
        let wrap = |o: Op| if frames { Op::Frame(Some(Box::new(o))) } else { o };
        let mut ops: Vec<Op> = vec![];
        // the oldest starts while nothing is pending: by its header or by a continuation that overtook it
        let a_ids: Vec<u64> = {
            let mut v: Vec<u64> = (1..=counts[0]).collect();
            ctx.rng.shuffle(&mut v);
            v
        };
        let frag = |seq: u64, n: u64, fid: u64, b: u8| if fid == n { Op::Start { seq, fid, cache: None, data: vec![b] } } else { Op::Add { seq, fid, data: vec![b] } };
        // in zero-timeout frame mode every frame sweeps what was touched before it, so the oldest can only complete when
        // its fragments are not separated by frames: there the scenario uses direct calls for the oldest's fragments
        let direct_a = mode == Mode::Zero;
        let put_a = |o: Op| if direct_a { o } else { wrap(o) };
        ops.push(put_a(frag(base, counts[0], a_ids[0], 1)));
        // the younger ones start while the oldest is incomplete (all but their last fragment, some of it)
        let mut missing: Vec<Vec<u64>> = vec![vec![]; nseq];
        for q in 1..nseq {
            let mut ids: Vec<u64> = (1..=counts[q]).collect();
            ctx.rng.shuffle(&mut ids);
            let keep = ctx.rng.range(1, counts[q] - 1) as usize;
            for &fid in &ids[..keep] {
                ops.push(if direct_a { frag(base + q as u64, counts[q], fid, 2) } else { wrap(frag(base + q as u64, counts[q], fid, 2)) });
            }
            missing[q] = ids[keep..].to_vec();
        }
        // the oldest completes
        for &fid in &a_ids[1..] {
            ops.push(put_a(frag(base, counts[0], fid, 3)));
        }
        ops.push(Op::Count);
        // the younger ones go silent past the timeout; the clean-up runs
        if timed {
            ops.push(Op::Sleep);
        }
        // one of three may be heard of again in time (it must then survive)
        let survivor = if nseq == 3 && timed && ctx.rng.chance(1, 2) && missing[2].len() >= 2 { Some(missing[2].remove(0)) } else { None };
        if let Some(fid) = survivor {
            ops.push(wrap(frag(base + 2, counts[2], fid, 4)));
        }
        ops.push(if frames { Op::Frame(None) } else { Op::Cleanup });
        ops.push(Op::Count);
        // the stragglers of the expired sequences arrive: none of them may complete a message
        for q in 1..nseq {
            for &fid in &missing[q] {
                ops.push(wrap(frag(base + q as u64, counts[q], fid, 5)));
            }
        }
        ops.push(Op::Count);
        ctx.count(if timed { "expiry_in_flight_real_time" } else { "expiry_in_flight_zero_timeout" });
        ctx.count(&format!("expiry_in_flight_{}_sequences", nseq));
        let Some(outs) = tie(ctx, "gen", mode, &ops) else { continue };
        let clock = clock_of(mode, &ops);
        let timeout = if timed { TIMED_TIMEOUT_MS } else { 0 };
        judge_by_ref(ctx, "c09-expiry-in-flight", "oldest sequence completes, a younger one goes silent", timeout, &ops, &clock, &outs);
    }
}

/// `cleanup_expired` has to be called by whoever owns the assembler, or incomplete sequences are held for ever.
/// Former witness of `kf-c09-cleanup-never-called` (repaired by f40d0e7): every non-test source file that constructs a
/// `FragmentAssembler` must call `cleanup_expired()` on it. (Where exactly — once per received frame — is extracted by
/// tools/gen_misc.py and is a proof obligation: `C09_connection_expires_on_every_frame`.)
fn cleanup_call_sites(ctx: &mut Ctx) {
    let repo = std::env::var("EDP_REPO").unwrap_or_else(|_| "/repo".to_string());
    let mut files: Vec<std::path::PathBuf> = Vec::new();
    let mut stack = vec![std::path::PathBuf::from(format!("{}/crates", repo))];
    while let Some(d) = stack.pop() {
        let Ok(rd) = std::fs::read_dir(&d) else { continue };
        for e in rd.flatten() {
            let p = e.path();
            if p.is_dir() {
                if p.file_name().map(|n| n != "tests" && n != "target" && n != "benches" && n != "examples").unwrap_or(false) {
                    stack.push(p);
                }
            } else if p.extension().map(|x| x == "rs").unwrap_or(false) {
                files.push(p);
            }
        }
    }
    ctx.add("static_source_files_scanned", files.len() as u64);
    if files.is_empty() {
        ctx.count("static_scan_unavailable");
        return;
    }
    for f in &files {
        if f.ends_with("fragmentation.rs") {
            continue;
        }
        let Ok(src) = std::fs::read_to_string(f) else { continue };
        let code: String = src.lines().filter(|l| !l.trim_start().starts_with("//")).collect::<Vec<_>>().join("\n");
        if code.contains("FragmentAssembler::") {
            ctx.count("static_assembler_owners");
            if !code.contains(".cleanup_expired(") {
                ctx.fail(
                    "c09-cleanup-not-called",
                    &format!(
                        "{} constructs a FragmentAssembler but never calls cleanup_expired(): an incomplete sequence is held until the owner is dropped",
                        f.display()
                    ),
                );
            }
        }
    }
}

/// a connection's frame loop against the real clock: every operation is a received frame (`cleanup_expired()` first).
/// After every frame the assembler must hold only sequences touched within the timeout: checked through `pending_count`
/// (tied to the model) and, harness-side, against the set of sequences the harness itself knows to be unexpired.
fn frame_expiry(ctx: &mut Ctx) {
    // zero timeout: every frame drops whatever was touched before it, so after a fragment frame at most that frame's
    // sequence is held, after any other frame nothing
    for _ in 0..ctx.n(150, 1500) {
        let mut ops = Vec::new();
        for _ in 0..ctx.rng.range(2, 9) {
            let seq = ctx.rng.below(3);
            let inner = match ctx.rng.below(6) {
                0 => None,
                1 | 2 => Some(Box::new(Op::Start { seq, fid: ctx.rng.range(1, 4), cache: None, data: ctx.rng.bytes(1) })),
                _ => Some(Box::new(Op::Add { seq, fid: ctx.rng.range(1, 4), data: ctx.rng.bytes(1) })),
            };
            ops.push(Op::Frame(inner));
            ops.push(Op::Count);
        }
        ctx.count("frame_expiry_zero_timeout_scenarios");
        let Some(outs) = tie(ctx, "gen", Mode::Zero, &ops) else { continue };
        for i in (0..ops.len()).step_by(2) {
            let bound = match (&ops[i], &outs[i]) {
                (Op::Frame(Some(_)), Out::Bytes(None)) => 1,
                _ => 0,
            };
            if let Out::Pending(k) = outs[i + 1] {
                if k > bound {
                    ctx.fail(
                        "c09-frame-expiry",
                        &format!("zero timeout, frame {}: {} sequence(s) held after the frame, at most {} can be unexpired; run: {:?}", i / 2, k, bound, ops),
                    );
                }
            }
        }
    }
    // 20 ms timeout, 60 ms gaps: a sequence untouched across a gap must be gone after the next frame of ANOTHER sequence
    for _ in 0..ctx.n(4, 40) {
        let a = ctx.rng.below(100);
        let ops = vec![
            Op::Frame(Some(Box::new(Op::Start { seq: a, fid: 3, cache: None, data: vec![1] }))),
            Op::Frame(Some(Box::new(Op::Add { seq: a + 1, fid: 2, data: vec![2] }))),
            Op::Count,
            Op::Sleep,
            Op::Frame(Some(Box::new(Op::Add { seq: a + 1, fid: 1, data: vec![3] }))),
            Op::Count,
            Op::Sleep,
            Op::Frame(None),
            Op::Count,
            // the expired header is gone: its continuations start a new, header-less entry instead of completing
            Op::Frame(Some(Box::new(Op::Add { seq: a, fid: 2, data: vec![4] }))),
            Op::Frame(Some(Box::new(Op::Add { seq: a, fid: 1, data: vec![5] }))),
            Op::Count,
        ];
        ctx.count("frame_expiry_real_time_scenarios");
        let Some(outs) = tie(ctx, "gen", Mode::Timed, &ops) else { continue };
        // (`Sleep` has no output entry)
        let want = [(2usize, 2usize), (4, 1), (6, 0), (9, 1)];
        for (i, k) in want {
            if outs[i] != Out::Pending(k) {
                ctx.fail("c09-frame-expiry", &format!("20 ms timeout, 60 ms gaps: pending_count at op {} is {:?}, expected {}; outputs {:?}", i, outs[i], k, outs));
            }
        }
        if outs[7] != Out::Bytes(None) || outs[8] != Out::Bytes(None) {
            ctx.fail("c09-frame-expiry", &format!("a sequence whose header expired was completed by late continuations: {:?} {:?}", outs[7], outs[8]));
        }
    }
}

pub fn run(ctx: &mut Ctx) {
    // the order defect on the smallest message, as its own line
    let s = Seq::new(1, None, vec![0x01, 0x02], vec![1]);
    single(ctx, "gen", &s, &[Arr::Frag(2), Arr::Frag(1)]);
    exhaustive(ctx);
    for _ in 0..ctx.n(2500, 20000) {
        interleaved(ctx, "gen");
    }
    boundaries(ctx);
    large_path(ctx);
    conflicting_header(ctx);
    expiry(ctx);
    frame_expiry(ctx);
    expiry_in_flight(ctx);
    big_runs(ctx);
    cleanup_call_sites(ctx);
}
