import EdpVerif.Impl.Cmp
/-! Helper lemmas about `Ordering.then`, `Ordering.swap`, `lexCmp` for the C11/C12 proofs. -/
namespace Edp

theorem compare_nat_rev (a b : Nat) : compare a b = (compare b a).swap := (Nat.compare_swap b a).symm
theorem compare_int_rev (a b : Int) : compare a b = (compare b a).swap := (Int.compare_swap b a).symm

theorem lexCmp_rev : ∀ (a b : List Nat), lexCmp a b = (lexCmp b a).swap
  | [], [] => rfl
  | [], _ :: _ => rfl
  | _ :: _, [] => rfl
  | x :: xs, y :: ys => by
    simp only [lexCmp, thenO, Ordering.swap_then]
    rw [compare_nat_rev x y, lexCmp_rev xs ys]

theorem bytesCmp_rev (a b : Bytes) : bytesCmp a b = (bytesCmp b a).swap := lexCmp_rev _ _

theorem lexCmp_refl : ∀ (a : List Nat), lexCmp a a = .eq
  | [] => rfl
  | x :: xs => by simp [lexCmp, thenO, lexCmp_refl xs]

theorem bytesCmp_refl (a : Bytes) : bytesCmp a a = .eq := lexCmp_refl _

theorem cmpMag_rev (a b : Bytes) : cmpMag a b = (cmpMag b a).swap := by
  simp only [cmpMag, thenO, Ordering.swap_then]
  rw [compare_nat_rev a.length b.length, bytesCmp_rev a.reverse b.reverse]

theorem cmpSignedMag_rev (an : Bool) (a : Bytes) (bn : Bool) (b : Bytes) :
    cmpSignedMag an a bn b = (cmpSignedMag bn b an a).swap := by
  simp only [cmpSignedMag, thenO, Ordering.swap_then]
  rw [compare_int_rev (signum an a) (signum bn b)]
  cases h : compare (signum bn b) (signum an a) <;> simp [Ordering.then]
  have he : signum bn b = signum an a := Int.compare_eq_eq.mp h
  rw [he]
  split
  · exact cmpMag_rev b a
  · exact cmpMag_rev a b

theorem pidCmp_rev (a b : PidF) : Term.pidCmp a b = (Term.pidCmp b a).swap := by
  simp only [Term.pidCmp, thenO, Ordering.swap_then]
  rw [bytesCmp_rev a.node b.node, compare_nat_rev a.id b.id, compare_nat_rev a.serial b.serial,
    compare_nat_rev a.creation b.creation]

theorem cmpNonNaN_rev (a b : F64) : cmpNonNaN a b = (cmpNonNaN b a).swap := by
  unfold cmpNonNaN
  rw [thenO, thenO, Ordering.swap_then, compare_int_rev a.sign b.sign]
  cases h : compare b.sign a.sign <;> simp [Ordering.then]
  have he : b.sign = a.sign := Int.compare_eq_eq.mp h
  rw [he, compare_nat_rev a.exp b.exp, compare_nat_rev a.frac b.frac]
  by_cases h0 : a.sign = 0
  · simp [h0]
  · by_cases hn : a.sign < 0 <;> simp [h0, hn, thenO, Ordering.swap_then] <;> cases compare b.exp a.exp <;> rfl

theorem cmpFloat_rev (a b : Nat) : cmpFloat a b = (cmpFloat b a).swap := by
  unfold cmpFloat
  by_cases ha : (f64 a).isNaN <;> by_cases hb : (f64 b).isNaN <;> simp [ha, hb]
  exact cmpNonNaN_rev _ _

end Edp
