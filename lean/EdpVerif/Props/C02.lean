import EdpVerif.Impl.Decode
import EdpVerif.Impl.TableTie
/-
C02 — decoding untrusted bytes always returns: no panic, abort, overflow or blow-up.
The model makes every Rust panic site an explicit outcome (`DErr.panic`), so "never panics" is a theorem and not a
by-product of totalisation; recursion depth and requested capacities are functions of the input.
-/
namespace Edp.Props.C02
open Edp

/-- the nesting-depth guard: beyond `MAX_NESTING_DEPTH` levels the decoder returns an error at once, for every input,
atom cache, configuration and fuel — the recursion never goes deeper than 257 levels -/
theorem C02_depth_guard (x : Ext) (cfg : DecCfg) (fuel depth : Nat) (bs : Bytes) (h : depth > MAX_NESTING_DEPTH) :
    dec x cfg fuel depth bs = .error .err := by
  cases fuel with
  | zero => simp [dec]
  | succ f =>
    cases bs with
    | nil => simp [dec]
    | cons t r => simp [dec, h]

/-- the guard value is the one in the source (regenerated on every run) -/
theorem C02_depth_limit_is_sources : Gen.MAX_NESTING_DEPTH = MAX_NESTING_DEPTH := by decide

/-- what is reserved for `count` announced elements never exceeds the bytes that are left, whatever the count field says -/
theorem C02_alloc_bounded (count : Nat) (remaining : Bytes) : boundedCapacity count remaining ≤ remaining.length := by
  unfold boundedCapacity; omega

/-- and never under-reserves below what a valid input needs -/
theorem C02_alloc_exact_when_fits (count : Nat) (remaining : Bytes) (h : count ≤ remaining.length) :
    boundedCapacity count remaining = count := by
  unfold boundedCapacity; omega

example : boundedCapacity 4294967295 [1, 2, 3] = 3 := by decide

/-- a compressed section is accepted only when it inflates to exactly the declared size (so the inflated length
never exceeds what the input declares), for every behaviour of zlib -/
theorem C02_inflate_bounded (x : Ext) (cfg : DecCfg) (fuel depth : Nat) (bs : Bytes) (t : Term) (rest : Bytes)
    (h : dec x cfg (fuel + 1) depth (80 :: bs) = .ok (t, rest)) :
    ∃ usize r out consumed, rdU 4 bs = .ok (usize, r) ∧ x.inflate r = some (out, consumed) ∧
      out.length = usize ∧ usize ≤ MAX_BINARY_SIZE := by
  rw [dec.eq_3] at h
  have e80 : (80 : UInt8).toNat = 80 := by decide
  simp only [e80] at h
  split at h
  · simp at h
  · split at h
    · simp at h
    · split at h
      · simp at h
      · rename_i usize r heq
        split at h
        · simp at h
        · rename_i hsz
          split at h
          · simp at h
          · rename_i out consumed hinf
            split at h
            · simp at h
            · rename_i hlen
              refine ⟨usize, r, out, consumed, heq, hinf, ?_, by omega⟩
              simpa using hlen

/-- the only modelled panic site of the term decoder (`&rest[consumed..]` after inflating) is unreachable when the
inflater reports no more input consumed than it was given — the documented contract of `total_in` -/
theorem C02_no_panic_after_inflate (x : Ext) (cfg : DecCfg) (fuel depth : Nat) (bs : Bytes)
    (hx : ∀ z out n, x.inflate z = some (out, n) → n ≤ z.length) :
    dec x cfg (fuel + 1) depth (80 :: bs) ≠ .error .panic := by
  rw [dec.eq_3]
  have e80 : (80 : UInt8).toNat = 80 := by decide
  simp only [e80]
  split
  · simp
  · split
    · simp
    · split
      · rename_i e heq
        simp only [rdU] at heq
        split at heq <;> simp at heq
        simp [← heq]
      · rename_i usize r heq
        split
        · simp
        · split
          · simp
          · rename_i out consumed hinf
            split
            · simp
            · have := hx r out consumed hinf
              split
              · split
                · omega
                · simp
              · simp

end Edp.Props.C02
