import EdpVerif.Lemmas.CmpSwap
import EdpVerif.Impl.Encode
import EdpVerif.Impl.Decode
import EdpVerif.Lemmas.Codec
import EdpVerif.Impl.EqHash
import EdpVerif.Lemmas.RoundTrip
/-
C10 — identifiers received from a peer are re-emitted byte-for-byte.
-/
namespace Edp.Props.C10
open Edp

/-- an identifier that carries preserved node-local bytes is written back as exactly `LOCAL_EXT` followed by those
bytes, whatever its logical fields and whatever atom cache is in force -/
theorem C10_local_pid_verbatim (cache : List Bytes) (p : PidF) (l : Bytes) (h : p.loc = some l) :
    enc cache (.pid p) = .ok (121 :: l) := by
  simp [enc, encPid, h]

theorem C10_local_port_verbatim (cache : List Bytes) (n : Bytes) (i c : Nat) (l : Bytes) :
    enc cache (.port n i c (some l)) = .ok (121 :: l) := by
  simp [enc, encPort]

theorem C10_local_ref_verbatim (cache : List Bytes) (n : Bytes) (c : Nat) (ids : List Nat) (l : Bytes) :
    enc cache (.ref n c ids (some l)) = .ok (121 :: l) := by
  simp [enc, encRef]

/-- identifiers compare by their logical fields only: the preserved bytes never influence the order, so the same
identifier is recognised whichever form it arrived in -/
theorem C10_pid_order_ignores_local (p : PidF) (l l' : Option Bytes) (t : Term) :
    Term.cmp (.pid { p with loc := l }) t = Term.cmp (.pid { p with loc := l' }) t := by
  unfold Term.cmp
  simp only [Term.norm]
  cases h : Term.norm t <;> simp [Term.cmpN, Term.pidCmp]

theorem C10_port_order_ignores_local (n : Bytes) (i c : Nat) (l l' : Option Bytes) (t : Term) :
    Term.cmp (.port n i c l) t = Term.cmp (.port n i c l') t := by
  unfold Term.cmp
  simp only [Term.norm]
  cases h : Term.norm t <;> simp [Term.cmpN]

theorem C10_ref_order_ignores_local (n : Bytes) (c : Nat) (ids : List Nat) (l l' : Option Bytes) (t : Term) :
    Term.cmp (.ref n c ids l) t = Term.cmp (.ref n c ids l') t := by
  unfold Term.cmp
  simp only [Term.norm]
  cases h : Term.norm t <;> simp [Term.cmpN]

/-- the decoder keeps, for a LOCAL_EXT-wrapped pid, exactly the bytes that followed the tag: 8 hash bytes and the
nested encoding — shown here for the modern pid form with any node atom, any numbers, any hash, any trailing data -/
theorem C10_decode_keeps_local_bytes (x : Ext) (hash node rest : Bytes) (id serial creation fuel d : Nat)
    (hh : hash.length = 8) (hn : node.length ≤ 255) (hu : validUtf8 node = true)
    (hid : id < 2 ^ 32) (hs : serial < 2 ^ 32) (hc : creation < 2 ^ 32) (hd : d + 2 ≤ MAX_NESTING_DEPTH) :
    let inner := 88 :: 119 :: UInt8.ofNat node.length :: node ++ be32 id ++ be32 serial ++ be32 creation
    dec x {} (fuel + 3) d (121 :: hash ++ inner ++ rest) =
      .ok (.pid { node, id, serial, creation, loc := some (hash ++ inner) }, rest) := by
  intro inner
  have hd1 : ¬ d > MAX_NESTING_DEPTH := by omega
  have hd2 : ¬ d + 1 > MAX_NESTING_DEPTH := by omega
  have hd3 : ¬ d + 1 + 1 > MAX_NESTING_DEPTH := by omega
  have hn' : ¬ node.length > MAX_ATOM_SIZE := by simp [MAX_ATOM_SIZE]; omega
  have hlen : node.length < 256 := by omega
  simp only [inner, List.cons_append, List.append_assoc]
  simp [dec, hd1, hd2, hd3, ownedOnlyTags, decAtomBody, rdU_byte node.length _ hlen, hn', hu,
    rdU_of_length 8 hash _ hh, rdU_be32, hid, hs, hc]
  have key : ∀ (A R : Bytes) n, n = A.length → List.take n (A ++ R) = A := by
    intro A R n h; subst h; simp
  have e := key (hash ++ 88 :: 119 :: UInt8.ofNat node.length :: (node ++ (be32 id ++ (be32 serial ++ be32 creation)))) rest
  simp only [List.append_assoc, List.cons_append] at e
  apply e
  simp [be32, beN_length, hh]; omega

/-! ### equality and hash (`PartialEq` / `Hash`, Impl/EqHash.lean — tied to the real `==` and `Hash::hash` by C11's run) -/

/-- `==` never looks at the preserved bytes: for the three identifier kinds, against any term, on either side -/
theorem C10_eq_ignores_local (t u : Term) (l l' : Option Bytes) :
    (∀ p : PidF, Term.eqv (.pid { p with loc := l }) u = Term.eqv (.pid { p with loc := l' }) u ∧
                 Term.eqv t (.pid { p with loc := l }) = Term.eqv t (.pid { p with loc := l' })) ∧
    (∀ n i c, Term.eqv (.port n i c l) u = Term.eqv (.port n i c l') u ∧ Term.eqv t (.port n i c l) = Term.eqv t (.port n i c l')) ∧
    (∀ n c ids, Term.eqv (.ref n c ids l) u = Term.eqv (.ref n c ids l') u ∧ Term.eqv t (.ref n c ids l) = Term.eqv t (.ref n c ids l')) := by
  refine ⟨fun p => ⟨?_, ?_⟩, fun n i c => ⟨?_, ?_⟩, fun n c ids => ⟨?_, ?_⟩⟩
  · cases u <;> simp [Term.eqv, pidEq]
  · cases t <;> simp [Term.eqv, pidEq]
  · cases u <;> simp [Term.eqv]
  · cases t <;> simp [Term.eqv]
  · cases u <;> simp [Term.eqv]
  · cases t <;> simp [Term.eqv]

example : Term.eqv (.pid { node := [97], id := 1, serial := 2, creation := 3, loc := some [1, 2, 3] })
    (.pid { node := [97], id := 1, serial := 2, creation := 3, loc := none }) = true := by
  simp [Term.eqv, pidEq]

/-- the bytes fed to the hasher never contain the preserved bytes: the same identifier hashes the same in either form -/
theorem C10_hash_ignores_local (l l' : Option Bytes) :
    (∀ p : PidF, Term.hashBytes (.pid { p with loc := l }) = Term.hashBytes (.pid { p with loc := l' })) ∧
    (∀ n i c, Term.hashBytes (.port n i c l) = Term.hashBytes (.port n i c l')) ∧
    (∀ n c ids, Term.hashBytes (.ref n c ids l) = Term.hashBytes (.ref n c ids l')) := by
  refine ⟨fun p => ?_, fun n i c => ?_, fun n c ids => ?_⟩ <;> simp [Term.hashBytes, hPid]

example : Term.hashBytes (.port [97] 1 2 (some [9])) = Term.hashBytes (.port [97] 1 2 none) := by simp [Term.hashBytes]

/-- every identifier kind, every well-formed inner form, any hash, at any depth the limit allows, with anything behind it:
the node-local form is written back as `LOCAL_EXT ++ hash ++ inner` and read again as the same identifier carrying the same
bytes (Lemmas/RoundTrip.lean `dec_enc_local`) -/
theorem C10_local_roundtrip (x : Ext) (t : Term) (hash plain r : Bytes) (fuel d : Nat)
    (hid : isIdent t = true) (hh : hash.length = 8) (hw : wfT (clearLoc t) = true)
    (hp : enc [] (clearLoc t) = .ok plain) (hl : locOf t = some (hash ++ plain)) (hd : d + 2 ≤ MAX_NESTING_DEPTH) :
    enc [] t = .ok (121 :: (hash ++ plain)) ∧ dec x {} (fuel + 3) d (121 :: (hash ++ plain) ++ r) = .ok (t, r) :=
  dec_enc_local x {} [] (by simp [cfgFor]) (by simp) rfl t hash plain r fuel d hid hh hw hp hl hd

end Edp.Props.C10
