import EdpVerif.Props.C14
/-!
Helper lemmas for C06 about the definitions of `Impl/DistHeader.lean` (the model of `AtomCache`,
`parse_dist_header_with_cache`, `decode_with_atom_cache` shared with C14): what `decodeWithAtomCache` does to the cache
(it is the header alone that writes it; both tables only gain entries in front), that it cannot panic, what it returns
when the header resolves every position to the sender's atom, and the bookkeeping for "which later messages are safe
after a frame that wrote cache slots" (`Avoids`).
-/
namespace Edp.DistHeader
open Edp Edp.Spec.DistHeader

/-! ### the cache after `decode_with_atom_cache` -/

/-- only the distribution header writes the cache: whatever the terms after it are -/
theorem decodeWithAtomCache_fst (x : Ext) (c : Cache) (r : Bytes) :
    (decodeWithAtomCache x c (131 :: 68 :: r)).1 = (parseHeader c r).1 := by
  simp only [decodeWithAtomCache]
  have h131 : ((131 : UInt8) != 131) = false := by decide
  have h68 : ((68 : UInt8) == 68) = true := by decide
  simp only [h131, Bool.false_eq_true, ↓reduceIte, h68]
  rcases hp : parseHeader c r with ⟨c1, e | body⟩
  · simp
  · simp only
    split
    · rfl
    · split
      · rfl
      · split <;> rfl

theorem parseRefs_suffix' (long : Bool) (flags : Bytes) (c0 : Cache) : ∀ (k i : Nat) (c : Cache) (bs : Bytes),
    c0.atoms <:+ c.atoms → c0.slots <:+ c.slots →
    c0.atoms <:+ (parseRefs long flags k i c bs).1.atoms ∧ c0.slots <:+ (parseRefs long flags k i c bs).1.slots := by
  intro k
  induction k with
  | zero => intro i c bs h1 h2; simpa [parseRefs] using ⟨h1, h2⟩
  | succ k ih =>
    intro i c bs h1 h2
    unfold parseRefs
    split
    · exact ⟨h1, h2⟩
    · split
      · exact ⟨h1, h2⟩
      · simp only
        split
        · split
          · exact ⟨h1, h2⟩
          · split
            · exact ⟨h1, h2⟩
            · split
              · exact ⟨h1, h2⟩
              · exact ih _ _ _ (h1.trans (List.suffix_cons _ _)) (h2.trans (List.suffix_cons _ _))
        · split
          · exact ih _ _ _ (h1.trans (List.suffix_cons _ _)) h2
          · exact ⟨h1, h2⟩

theorem parseRefs_suffix (long : Bool) (flags : Bytes) (k i : Nat) (c : Cache) (bs : Bytes) :
    c.atoms <:+ (parseRefs long flags k i c bs).1.atoms ∧ c.slots <:+ (parseRefs long flags k i c bs).1.slots :=
  parseRefs_suffix' long flags c k i c bs (List.suffix_refl _) (List.suffix_refl _)

theorem parseHeader_suffix (c : Cache) (bs : Bytes) :
    c.atoms <:+ (parseHeader c bs).1.atoms ∧ c.slots <:+ (parseHeader c bs).1.slots := by
  unfold parseHeader
  split
  · exact ⟨List.suffix_refl _, List.suffix_refl _⟩
  · split
    · exact ⟨List.suffix_refl _, List.suffix_refl _⟩
    · split
      · exact ⟨List.suffix_refl _, List.suffix_refl _⟩
      · split
        · exact ⟨List.suffix_refl _, List.suffix_refl _⟩
        · exact parseRefs_suffix _ _ _ _ _ _

/-- both tables of the atom cache only ever gain entries in front, whatever the input -/
theorem decodeWithAtomCache_suffix (x : Ext) (c : Cache) (data : Bytes) :
    c.atoms <:+ (decodeWithAtomCache x c data).1.atoms ∧ c.slots <:+ (decodeWithAtomCache x c data).1.slots := by
  have hrefl : c.atoms <:+ c.atoms ∧ c.slots <:+ c.slots := ⟨List.suffix_refl _, List.suffix_refl _⟩
  match data with
  | [] => simpa [decodeWithAtomCache] using hrefl
  | [v] => by_cases hv : v = 131 <;> simpa [decodeWithAtomCache, hv] using hrefl
  | v :: tag :: r =>
    by_cases hv : v = 131
    · subst hv
      by_cases ht : tag = 68
      · subst ht
        rw [decodeWithAtomCache_fst]
        exact parseHeader_suffix c r
      · have h131 : ((131 : UInt8) != 131) = false := by decide
        have ht' : (tag == 68) = false := by simpa using ht
        simp only [decodeWithAtomCache, h131, Bool.false_eq_true, ↓reduceIte, ht']
        split
        · exact hrefl
        · split
          · exact hrefl
          · split <;> exact hrefl
    · have : (v != 131) = true := by simpa using hv
      simpa [decodeWithAtomCache, this] using hrefl

/-! ### no panic -/

theorem decodeWithAtomCache_np (x : Ext) (hx : ∀ (cfg : DecCfg) (fuel d : Nat) (bs : Bytes), dec x cfg fuel d bs ≠ .error .panic)
    (c : Cache) (data : Bytes) : (decodeWithAtomCache x c data).2 ≠ .error .panic := by
  unfold decodeWithAtomCache
  simp only
  split
  · simp
  · split
    · simp
    · split
      · simp
      · rename_i tag r1
        split
        · rename_i c1 first e heq
          intro hp
          simp only [Except.error.injEq] at hp
          subst hp
          split at heq
          · have hnp := parseHeader_np c r1
            split at heq
            · rename_i c1' e' he'
              rw [he'] at hnp
              have : e' = .panic := by simpa using heq
              subst this
              exact hnp rfl
            · exact hx _ _ _ _ heq
          · exact hx _ _ _ _ heq
        · split
          · simp
          · split
            · rename_i e he; intro hp; simp only [Except.error.injEq] at hp; subst hp; exact hx _ _ _ _ he
            · simp
            · simp

/-! ### which messages of a conforming sender are safe after some cache slots were written behind its back -/

/-- a cache slot: (segment index, internal index) -/
abbrev Slot := Nat × Nat

/-- the slots written on the way from cache `c` to cache `c'` (`c.slots` is a suffix of `c'.slots`: the keys in front) -/
def wroteSlots (c c' : Cache) : List Slot := (c'.slots.take (c'.slots.length - c.slots.length)).map (·.1)

theorem slots_eq_of_suffix {c c' : Cache} (h : c.slots <:+ c'.slots) :
    c'.slots = c'.slots.take (c'.slots.length - c.slots.length) ++ c.slots := by
  obtain ⟨w, hw⟩ := h
  rw [← hw]
  simp

/-- a slot that was not written still holds what it held -/
theorem lookup_of_not_wrote {c c' : Cache} (h : c.slots <:+ c'.slots) (k : Slot) (hk : k ∉ wroteSlots c c') :
    c'.slots.lookup k = c.slots.lookup k := by
  rw [slots_eq_of_suffix h, List.lookup_append]
  have : (c'.slots.take (c'.slots.length - c.slots.length)).lookup k = none := by
    rw [List.lookup_eq_none_iff]
    intro p hp
    simp only [wroteSlots, List.mem_map, not_exists, not_and] at hk
    have := hk p hp
    simp only [bne_iff_ne, ne_eq]
    exact fun e => this e.symm
  simp [this]

/-- the doubtful slots after one reference: a new entry makes its slot good again -/
def taintStep (T : List Slot) (e : Entry) : List Slot :=
  if e.new then T.filter (fun k => k != (e.seg, e.idx)) else T

/-- the references of one header never READ a doubtful slot (a reference without text to a slot in `T`); writing one
(a new entry) is fine and removes the doubt -/
def AvoidsRefs : List Slot → List Entry → Prop
  | _, [] => True
  | T, e :: r => (e.new = false → (e.seg, e.idx) ∉ T) ∧ AvoidsRefs (taintStep T e) r

def taintAfter : List Slot → List Entry → List Slot
  | T, [] => T
  | T, e :: r => taintAfter (taintStep T e) r

/-- a history never reads a doubtful slot before writing it anew -/
def Avoids : List Slot → List Props.C14.Msg → Prop
  | _, [] => True
  | T, (_, es, _) :: r => AvoidsRefs T es ∧ Avoids (taintAfter T es) r

theorem avoidsRefs_nil (es : List Entry) : AvoidsRefs [] es := by
  induction es with
  | nil => trivial
  | cons e r ih =>
    refine ⟨by simp, ?_⟩
    have : taintStep [] e = [] := by unfold taintStep; split <;> simp
    rw [this]; exact ih

theorem taintAfter_nil (es : List Entry) : taintAfter [] es = [] := by
  induction es with
  | nil => rfl
  | cons e r ih =>
    have : taintStep [] e = [] := by unfold taintStep; split <;> simp
    simp [taintAfter, this, ih]

/-- nothing doubtful: every history qualifies -/
theorem avoids_nil (msgs : List Props.C14.Msg) : Avoids [] msgs := by
  induction msgs with
  | nil => trivial
  | cons m r ih =>
    obtain ⟨long, es, body⟩ := m
    exact ⟨avoidsRefs_nil es, by rw [taintAfter_nil]; exact ih⟩

/-- two caches that agree outside `T`: a header that is conforming for the one and avoids `T` is conforming for the
other, and afterwards they agree outside what is left of `T` -/
theorem conforming_transfer (long : Bool) (es : List Entry) : ∀ (s s' : Slots) (T : List Slot),
    (∀ k, k ∉ T → s'.lookup k = s.lookup k) → Conforming long s es → AvoidsRefs T es →
    Conforming long s' es ∧ ∀ k, k ∉ taintAfter T es → (sendSlots s' es).lookup k = (sendSlots s es).lookup k := by
  induction es with
  | nil => intro s s' T hag _ _; exact ⟨trivial, by simpa [taintAfter, sendSlots] using hag⟩
  | cons e r ih =>
    intro s s' T hag hc hav
    obtain ⟨hseg, hidx, hlen, hold, hrest⟩ := hc
    obtain ⟨hav1, hav2⟩ := hav
    have hag' : ∀ k, k ∉ taintStep T e → (upd s' e).lookup k = (upd s e).lookup k := by
      intro k hk
      unfold taintStep at hk
      unfold upd
      cases hn : e.new
      · simp only [hn, Bool.false_eq_true, ↓reduceIte] at hk ⊢
        exact hag k hk
      · simp only [hn, ↓reduceIte] at hk ⊢
        by_cases hks : k = (e.seg, e.idx)
        · subst hks; simp [List.lookup]
        · have : k ∉ T := by
            intro hin
            apply hk
            simp [List.mem_filter, hin, hks]
          have hb : (k == (e.seg, e.idx)) = false := by simpa using hks
          simp [List.lookup, hb, hag k this]
    obtain ⟨h1, h2⟩ := ih (upd s e) (upd s' e) (taintStep T e) hag' hrest hav2
    refine ⟨⟨hseg, hidx, hlen, ?_, h1⟩, ?_⟩
    · intro hn
      rw [hag _ (hav1 hn)]
      exact hold hn
    · intro k hk
      simpa [sendSlots, taintAfter] using h2 k hk

theorem conformingSeq_transfer (msgs : List Props.C14.Msg) : ∀ (s s' : Slots) (T : List Slot),
    (∀ k, k ∉ T → s'.lookup k = s.lookup k) → Props.C14.ConformingSeq s msgs → Avoids T msgs →
    Props.C14.ConformingSeq s' msgs := by
  induction msgs with
  | nil => intro _ _ _ _ _ _; trivial
  | cons m r ih =>
    intro s s' T hag hc hav
    obtain ⟨long, es, body⟩ := m
    obtain ⟨hn, hconf, hv, hrest⟩ := hc
    obtain ⟨ha1, ha2⟩ := hav
    obtain ⟨h1, h2⟩ := conforming_transfer long es s s' T hag hconf ha1
    exact ⟨hn, h1, hv, ih _ _ _ h2 hrest ha2⟩

/-- the sender's slots after a history -/
def slotsAfter : Slots → List Props.C14.Msg → Slots
  | s, [] => s
  | s, (_, es, _) :: r => slotsAfter (sendSlots s es) r

end Edp.DistHeader
