import EdpVerif.Impl.PidAlloc
import EdpVerif.Impl.RefCounter
/-!
Model of the identifier-making part of `crates/edp_node/src/node.rs` at the granularity of `Node`'s public calls:

* `Node::with_hidden` — creation 1 in BOTH places that hold it (`Node.creation` and the allocator's `creation`),
  `reference_counter` 0, not started;
* `Node::start(&mut self, …)` — refused when `started.swap(true)` finds it started; otherwise the creation EPMD returns
  is stored into `Node.creation` and, by `set_creation`, into the allocator (EPMD failing leaves both as they were, and
  the node stays marked started).  `start` takes `&mut self`: no other call of the node overlaps it, so the two stores
  are one step here (the interleaving of allocations with a `set_creation` is `Impl/PidAlloc.lean`'s subject);
* `Node::spawn` — refused before `start`; otherwise `pid_allocator.allocate()`;
* `send_remote` / `rpc_call_raw_with_timeout` — `pid_allocator.allocate()` without the started check;
* `Node::make_reference` / `monitor` — three words from `reference_counter`, `Node.creation`;
* a remote `unlink` — one `fetch_add` on the same counter.
-/
namespace Edp.Impl.NodeIds
open Edp.Impl

structure NSt where
  started : Bool
  creation : Nat             -- `Node.creation`
  alloc : PidAlloc.Sh        -- `Node.pid_allocator` (has its own `creation`)
  counter : Nat              -- `Node.reference_counter`
deriving DecidableEq, Repr

/-- `Node::new` / `new_hidden` -/
def NSt.new : NSt := { started := false, creation := 1, alloc := PidAlloc.Sh.new 1, counter := 0 }

inductive Op
  | start (epmd : Option Nat)   -- what EPMD's ALIVE2 reply carries (`none`: registration failed)
  | spawn
  | allocate                    -- the `allocate()` of `send_remote` / `rpc_call_raw_with_timeout`
  | makeRef
  | unlink
deriving DecidableEq, Repr

inductive Out
  | pid (r : PidAlloc.Res)
  | ref (r : RefCounter.Ref)
  | unlinkId (n : Nat)
  | startOk
  | refused                     -- `NodeAlreadyStarted`, `EpmdRegistration`, `NodeNotStarted`
deriving DecidableEq, Repr

def step (s : NSt) : Op → Out × NSt
  | .start e =>
    if s.started then (.refused, s) else
    match e with
    | none => (.refused, { s with started := true })
    | some c => (.startOk, { s with started := true, creation := c, alloc := s.alloc.setCreation c })
  | .spawn =>
    if !s.started then (.refused, s) else
    let (r, a) := PidAlloc.alloc s.alloc
    (.pid r, { s with alloc := a })
  | .allocate =>
    let (r, a) := PidAlloc.alloc s.alloc
    (.pid r, { s with alloc := a })
  | .makeRef =>
    let c := s.counter
    (.ref ⟨s.creation, c % RefCounter.U32, (c + 1) % RefCounter.U32, (c + 2) % RefCounter.U32⟩,
      { s with counter := (c + 3) % RefCounter.U32 })
  | .unlink => (.unlinkId (s.counter + 1), { s with counter := (s.counter + 1) % RefCounter.U32 })

/-- a history of calls: the outputs in order and the final state -/
def run (s : NSt) : List Op → List Out × NSt
  | [] => ([], s)
  | op :: r =>
    let (o, s1) := step s op
    let (os, s2) := run s1 r
    (o :: os, s2)

/-- the creation in force after a history: the one EPMD assigned at the (only) successful `start`, before that 1 -/
def inForce (started : Bool) (cur : Nat) : List Op → Nat
  | [] => cur
  | .start e :: r =>
    if started then inForce true cur r else
    match e with
    | none => inForce true cur r
    | some c => inForce true c r
  | _ :: r => inForce started cur r

end Edp.Impl.NodeIds
