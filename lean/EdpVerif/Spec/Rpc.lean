/-!
Oracle for C17, written from the property statement (not from the code, and independent of `Impl/Rpc.lean`):
given what the scripted peer did with each call's request, which results may the call return, and what must be true
when all calls are over.

The harness tags every reply: the replies the peer addresses to call `i` carry `10*i + d` (`d = 0` the reply, `1` an
immediate duplicate, `2` a copy sent only after the call was seen to be over, `5` the body sent to a pid nobody has).
Messages to the local test process carry tags from `900001`.
-/
namespace Edp.Spec.Rpc

/-- what the peer does with the request of one call -/
inductive Kind
  | reply        -- `R`  answers once
  | dup          -- `D`  answers twice in a row
  | dupLate      -- `E`  answers, and once more after the call is over
  | never        -- `N`  never answers
  | late         -- `L`  answers only after the call is over
  | unknown      -- `U_` answers to a pid that no call has
  | race         -- `X`  answers about when the call's timer fires
  | noConn       -- `C`  the call names a node there is no connection to
  | sendErr      -- `S`  the connection object was closed locally before the call
  | afterClose   -- `A`  the peer closed the socket before the call / `K` while the call was about to write
  | dropped      -- `P_`, `W` the owner drops the call future
  | foreign      -- `F`  answers to the call's numbers under a foreign node name (tag 6); delivery is not judged
  | traced       -- `T`  answers once, with the trace-token form of SEND (SEND_TT)
  | shape        -- `M_` answers once with something that is not a `{rex, Result}` pair (tag 7)
  | ignored      -- `Z_` "answers" with a SEND that carries no payload / whose target is not a pid: no reply at all
  | after        -- `G<j>` answers once, after call `j` is over
deriving DecidableEq, Repr

/-- what a call returned -/
inductive Out
  | reply (tag : Nat)
  | garbage      -- `Ok` with something that is not one of the harness's replies
  | badShape     -- the wrapper's conversion error
  | timeout | cancelled | noConn | sendErr | dropped | other
deriving DecidableEq, Repr

def Kind.ofCode (s : String) : Option Kind :=
  if s == "R" then some .reply else if s == "D" then some .dup else if s == "E" then some .dupLate
  else if s == "N" then some .never else if s == "L" then some .late else if s.startsWith "U" then some .unknown
  else if s == "X" then some .race else if s == "C" then some .noConn else if s == "S" then some .sendErr
  else if s == "F" then some .foreign else if s == "T" then some .traced
  else if s.startsWith "M" then some .shape else if s.startsWith "Z" then some .ignored else if s.startsWith "G" then some .after else if s == "A" || s == "K" then some .afterClose else if s.startsWith "P" || s == "W" then some .dropped
  else none

def Out.ofText (s : String) : Out :=
  if s == "timeout" then .timeout else if s == "cancelled" then .cancelled else if s == "noconn" then .noConn
  else if s == "senderr" then .sendErr else if s == "dropped" then .dropped else if s == "badshape" then .badShape
  else if s.startsWith "reply:" then
    match (s.drop 6).toString.toNat? with
    | some n => .reply n
    | none => .garbage
  else .other

/-- "each call returns the reply addressed to it and only that one, or a timeout, cancellation or connection error":
the results call `i` may return, given what the peer did -/
def admissible (wrapped : Bool) (i : Nat) : Kind → Out → Bool
  | .reply, .reply t => t == 10 * i
  | .traced, .reply t => t == 10 * i
  | .after, .reply t => t == 10 * i
  | .shape, .reply t => !wrapped && t == 10 * i + 7     -- the raw call returns the reply addressed to it as it is
  | .shape, .badShape => wrapped                       -- the wrapper refuses it: an error of this call, nobody else's
  | .ignored, .timeout => true
  | .dup, .reply t => t == 10 * i || t == 10 * i + 1
  | .dupLate, .reply t => t == 10 * i            -- the late copy exists only after the call is over
  | .never, .timeout => true
  | .late, .timeout => true                      -- the only answer is sent after the call is over
  | .unknown, .timeout => true                   -- the answer is addressed to somebody else's numbers
  | .race, .timeout => true
  | .race, .reply t => t == 10 * i
  | .noConn, .noConn => true
  | .sendErr, .sendErr => true
  | .afterClose, .noConn => true
  | .afterClose, .sendErr => true
  | .afterClose, .timeout => true                -- the write went into the socket buffer before the reset was seen
  | .dropped, .dropped => true
  | .foreign, .timeout => true
  | .foreign, .reply t => t == 10 * i + 6
  | _, _ => false

def replyTags : List Out → List Nat
  | [] => []
  | .reply t :: r => t :: replyTags r
  | _ :: r => replyTags r

/-- the whole judgement of one scenario; `fin` = size of the outstanding-call table after all calls are over;
`procSent`/`procGot` = tags sent to / received by the local process -/
def judge (wrapped : Bool) (kinds : List Kind) (outs : List Out) (fin : Nat) (procSent procGot : List Nat) : Option String :=
  if kinds.length ≠ outs.length then some "FAIL arity"
  else
    let bad := (List.range kinds.length).filter fun i =>
      match kinds[i]?, outs[i]? with
      | some k, some o => !admissible wrapped i k o
      | _, _ => true
    if let i :: _ := bad then some s!"FAIL call {i} returned a result it must not return"
    else if ¬ (replyTags outs).Nodup then some "FAIL one reply returned to two calls"
    else if fin ≠ 0 then some s!"FAIL {fin} entries left in the outstanding-call table after every call was over"
    else if procGot ≠ procSent then some "FAIL the local process did not get exactly its messages"
    else none

/-! ### what a call asks for (written from the `rex` protocol and the Erlang reference manual, not from the code)

A `rex` server is sent `{From, {call, Module, Function, Args, GroupLeader}}` under the registered name `rex`
(control `{6, FromPid, '', rex}`) and answers `{rex, Result}` to `From`. The `erlang_*` conveniences stand for the BIFs
`erlang:system_info(Item)`, `erlang:statistics(Item)`, `erlang:memory()`, `erlang:processes()`,
`erlang:process_info(Pid, ItemList)`, `erlang:list_to_pid(String)`. -/

/-- the BIF and the argument list an `erlang_*` function stands for; `params` as handed to the function: a text
parameter as (its UTF-8 bytes, its characters), others as whatever the driver made of them -/
inductive Param (α : Type)
  | text (utf8 : List UInt8) (chars : List Nat)
  | other (x : α)

def erlangCall {α : Type} (atom : List UInt8 → α) (str : List Nat → α) (name : String) (ps : List (Param α)) :
    Option (String × List α) :=
  match name, ps with
  | "erlang_system_info", [.text b _] => some ("system_info", [atom b])
  | "erlang_statistics", [.text b _] => some ("statistics", [atom b])
  | "erlang_memory", [] => some ("memory", [])
  | "erlang_processes", [] => some ("processes", [])
  | "erlang_process_info", [.other pid, .other items] => some ("process_info", [pid, items])
  | "erlang_list_to_pid", [.text _ cs] => some ("list_to_pid", [str cs])
  | _, _ => none

end Edp.Spec.Rpc
