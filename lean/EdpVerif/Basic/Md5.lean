import EdpVerif.Basic.Bytes
/-
MD5 (RFC 1321) written directly from the RFC over `List UInt8` and `Nat` arithmetic (core Lean only).
It exists so that the digest bytes of the handshake are checked independently of the `md-5` crate.
Nothing is proved about it; the `#guard`s at the end are a test on the RFC 1321 vectors (labelled as such).
-/
namespace Edp.Md5

def m32 : Nat := 4294967296

/-- per-round shift amounts -/
def sTab : Array Nat := #[
  7, 12, 17, 22, 7, 12, 17, 22, 7, 12, 17, 22, 7, 12, 17, 22,
  5, 9, 14, 20, 5, 9, 14, 20, 5, 9, 14, 20, 5, 9, 14, 20,
  4, 11, 16, 23, 4, 11, 16, 23, 4, 11, 16, 23, 4, 11, 16, 23,
  6, 10, 15, 21, 6, 10, 15, 21, 6, 10, 15, 21, 6, 10, 15, 21]

/-- `floor (2^32 * |sin (i+1)|)` -/
def kTab : Array Nat := #[
  0xd76aa478, 0xe8c7b756, 0x242070db, 0xc1bdceee, 0xf57c0faf, 0x4787c62a, 0xa8304613, 0xfd469501,
  0x698098d8, 0x8b44f7af, 0xffff5bb1, 0x895cd7be, 0x6b901122, 0xfd987193, 0xa679438e, 0x49b40821,
  0xf61e2562, 0xc040b340, 0x265e5a51, 0xe9b6c7aa, 0xd62f105d, 0x02441453, 0xd8a1e681, 0xe7d3fbc8,
  0x21e1cde6, 0xc33707d6, 0xf4d50d87, 0x455a14ed, 0xa9e3e905, 0xfcefa3f8, 0x676f02d9, 0x8d2a4c8a,
  0xfffa3942, 0x8771f681, 0x6d9d6122, 0xfde5380c, 0xa4beea44, 0x4bdecfa9, 0xf6bb4b60, 0xbebfbc70,
  0x289b7ec6, 0xeaa127fa, 0xd4ef3085, 0x04881d05, 0xd9d4d039, 0xe6db99e5, 0x1fa27cf8, 0xc4ac5665,
  0xf4292244, 0x432aff97, 0xab9423a7, 0xfc93a039, 0x655b59c3, 0x8f0ccc92, 0xffeff47d, 0x85845dd1,
  0x6fa87e4f, 0xfe2ce6e0, 0xa3014314, 0x4e0811a1, 0xf7537e82, 0xbd3af235, 0x2ad7d2bb, 0xeb86d391]

/-- rotate a 32-bit value left by `n` (0 < n < 32) -/
def rotl (x n : Nat) : Nat := ((x <<< n) ||| (x >>> (32 - n))) % m32

/-- 32-bit complement -/
def not32 (x : Nat) : Nat := (m32 - 1) - (x % m32)

/-- little-endian bytes of `n`, `k` of them -/
def leN : Nat → Nat → Bytes
  | 0, _ => []
  | k+1, n => UInt8.ofNat (n % 256) :: leN k (n / 256)

/-- a little-endian 32-bit word from the first four bytes -/
def word (bs : Bytes) : Nat :=
  match bs with
  | a :: b :: c :: d :: _ => a.toNat + 256 * b.toNat + 65536 * c.toNat + 16777216 * d.toNat
  | _ => 0

/-- the sixteen words of a 64-byte block -/
def words : Nat → Bytes → List Nat
  | 0, _ => []
  | k+1, bs => word bs :: words k (bs.drop 4)

/-- message ++ 0x80 ++ zeros up to 56 mod 64 ++ bit length as 64-bit little-endian -/
def pad (msg : Bytes) : Bytes :=
  msg ++ [128] ++ List.replicate ((119 - msg.length % 64) % 64) 0 ++ leN 8 (msg.length * 8 % 18446744073709551616)

structure St where
  a : Nat
  b : Nat
  c : Nat
  d : Nat

def round (m : Array Nat) (s : St) (i : Nat) : St :=
  let (f, g) :=
    if i < 16 then ((s.b &&& s.c) ||| (not32 s.b &&& s.d), i)
    else if i < 32 then ((s.d &&& s.b) ||| (not32 s.d &&& s.c), (5 * i + 1) % 16)
    else if i < 48 then (s.b ^^^ s.c ^^^ s.d, (3 * i + 5) % 16)
    else (s.c ^^^ (s.b ||| not32 s.d), (7 * i) % 16)
  let f' := (f + s.a + kTab[i]! + m[g]!) % m32
  { a := s.d, d := s.c, c := s.b, b := (s.b + rotl f' sTab[i]!) % m32 }

def block (s : St) (blk : Bytes) : St :=
  let m := (words 16 blk).toArray
  let r := (List.range 64).foldl (round m) s
  { a := (s.a + r.a) % m32, b := (s.b + r.b) % m32, c := (s.c + r.c) % m32, d := (s.d + r.d) % m32 }

def blocks : Nat → St → Bytes → St
  | 0, s, _ => s
  | n+1, s, bs => blocks n (block s (bs.take 64)) (bs.drop 64)

/-- MD5 of a byte string: 16 bytes -/
def md5 (msg : Bytes) : Bytes :=
  let p := pad msg
  let s := blocks (p.length / 64) ⟨0x67452301, 0xefcdab89, 0x98badcfe, 0x10325476⟩ p
  leN 4 s.a ++ leN 4 s.b ++ leN 4 s.c ++ leN 4 s.d

def ofStr (s : String) : Bytes := s.toUTF8.toList

-- Test (not a proof): the RFC 1321 appendix A.5 vectors, plus lengths around the padding boundary.
#guard hexOf (md5 (ofStr "")) == "d41d8cd98f00b204e9800998ecf8427e"
#guard hexOf (md5 (ofStr "a")) == "0cc175b9c0f1b6a831c399e269772661"
#guard hexOf (md5 (ofStr "abc")) == "900150983cd24fb0d6963f7d28e17f72"
#guard hexOf (md5 (ofStr "message digest")) == "f96b697d7cb7938d525a2f31aaf161d0"
#guard hexOf (md5 (ofStr "abcdefghijklmnopqrstuvwxyz")) == "c3fcd3d76192e4007dfb496cca67e13b"
#guard hexOf (md5 (ofStr "ABCDEFGHIJKLMNOPQRSTUVWXYZabcdefghijklmnopqrstuvwxyz0123456789")) == "d174ab98d277d9f5a5611c2c9f419d9f"
#guard hexOf (md5 (ofStr "12345678901234567890123456789012345678901234567890123456789012345678901234567890")) == "57edf4a22be3c955ac49da2e2107b67a"
#guard (md5 (ofStr "")).length == 16
#guard (pad (List.replicate 55 0)).length == 64
#guard (pad (List.replicate 56 0)).length == 128
#guard (pad (List.replicate 63 0)).length == 128
#guard (pad (List.replicate 64 0)).length == 128

end Edp.Md5
