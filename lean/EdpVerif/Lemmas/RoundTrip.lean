import EdpVerif.Lemmas.Codec
/-!
Round trip of the codec model: `dec (enc t ++ r) = (wire t, r)`.
`wire t` is what comes back from the wire (integers beyond 32 bits as big integers, strings as binaries,
the empty list as nil, maps re-inserted in arrival order); `wfT` states exactly what the Rust types do not enforce.
-/
namespace Edp

/-- `mapInsert` folded over the pairs in arrival order (what `parse_map` builds) -/
def insertAll (m : List (Term × Term)) : List (Term × Term) → List (Term × Term)
  | [] => m
  | (k, v) :: r => insertAll (mapInsert m k v) r

def inI64 (i : Int) : Prop := -9223372036854775808 ≤ i ∧ i ≤ 9223372036854775807
def inI32 (i : Int) : Prop := -2147483648 ≤ i ∧ i ≤ 2147483647

def wirePid (p : PidF) : PidF := p

mutual
/-- the term `decode (encode t)` returns -/
def wire : Term → Term
  | .int i =>
    if -2147483648 ≤ i ∧ i ≤ 2147483647 then .int i
    else .big (decide (i < 0)) ((leN 8 i.natAbs).take (sigLen (leN 8 i.natAbs)))
  | .str s => .bin s
  | .list l => match l with
    | [] => .nil
    | _ => .list (wireL l)
  | .ilist l t => match wire t with
    | .nil => .list (wireL l)
    | t' => .ilist (wireL l) t'
  | .map kvs => .map (insertAll [] (wireKV kvs))
  | .tuple l => .tuple (wireL l)
  | .ifun a u i nf m oi ou p fr => .ifun a u i nf m oi ou p (wireL fr)
  | t => t
def wireL : List Term → List Term
  | [] => []
  | t :: ts => wire t :: wireL ts
def wireKV : List (Term × Term) → List (Term × Term)
  | [] => []
  | (k, v) :: r => (wire k, wire v) :: wireKV r
end

def wfPid (p : PidF) : Bool :=
  validUtf8 p.node && decide (p.id < 4294967296) && decide (p.serial < 4294967296) &&
    decide (p.creation < 4294967296) && p.loc.isNone

mutual
/-- well-formedness: what the Rust types do not already enforce, plus the representable terms that the library's
own decoder refuses or changes (each such conjunct is a restriction of the round-trip theorem, listed here):

* field widths the Rust types enforce and the model's `Nat`/`Int`/`Bytes` do not: `i64` integers, `u32`/`u64`
  identifier fields, `u32` reference words, 64-bit float patterns, `u8` arities, 16-byte `uniq`, `u32` fun indices;
  atom names valid UTF-8 (`Atom` wraps a `String`); big-integer digit counts below 2^32 (the length field);
* EXCLUDED although representable — sizes above the decoder's own limits: binaries/strings/bit-strings longer than
  `MAX_BINARY_SIZE`, lists/tuples/maps with more than `MAX_LIST_SIZE`/`MAX_TUPLE_SIZE`/`MAX_MAP_SIZE` elements
  (the encoder accepts up to `u32::MAX`, the decoder rejects: encode succeeds, decode fails);
* EXCLUDED although representable — `BitBinary` with `bits` outside 1..8, or empty with `bits ≠ 8` (the encoder writes
  them, the decoder rejects them);
* EXCLUDED although representable — `InternalFun` with `num_free ≠ free_vars.len()` (the decoder reads `num_free`
  terms), and with `old_index`/`old_uniq ≥ 2^31` (written as SMALL_BIG_EXT, which the fun decoder refuses:
  `InternalFun{old_uniq: 0x8000_0000}` encodes and then fails to decode);
* identifiers in plain form (`loc = none`); the LOCAL_EXT-carrying form is covered by `dec_enc_local` below.

Nesting depth is a separate hypothesis (`dep t + d ≤ MAX_NESTING_DEPTH`). -/
def wfT : Term → Bool
  | .atom a => validUtf8 a
  | .int i => decide (-9223372036854775808 ≤ i ∧ i ≤ 9223372036854775807)
  | .float b => decide (b < 18446744073709551616)
  | .pid p => wfPid p
  | .port n i c l => validUtf8 n && decide (i < 18446744073709551616) && decide (c < 4294967296) && l.isNone
  | .ref n c ids l => validUtf8 n && decide (c < 4294967296) && ids.all (fun i => decide (i < 4294967296)) && l.isNone
  | .bin b => decide (b.length ≤ MAX_BINARY_SIZE)
  | .bits b n => decide (1 ≤ n ∧ n ≤ 8) && (!b.isEmpty || n == 8) && decide (b.length ≤ MAX_BINARY_SIZE)
  | .str s => decide (s.length ≤ MAX_BINARY_SIZE)
  | .list l => decide (l.length ≤ MAX_LIST_SIZE) && wfL l
  | .ilist l t => decide (l.length ≤ MAX_LIST_SIZE) && wfL l && wfT t
  | .map kvs => decide (kvs.length ≤ MAX_MAP_SIZE) && wfKV kvs
  | .tuple l => decide (l.length ≤ MAX_TUPLE_SIZE) && wfL l
  | .big _ d => decide (d.length < 4294967296)
  | .xfun m f a => validUtf8 m && validUtf8 f && decide (a ≤ 255)
  | .ifun a u i nf m oi ou p fr =>
    decide (a ≤ 255) && decide (u.length = 16) && decide (i < 4294967296) && decide (nf = fr.length) &&
      decide (nf < 4294967296) && validUtf8 m && decide (oi < 2147483648) && decide (ou < 2147483648) && wfPid p && wfL fr
  | .nil => true
def wfL : List Term → Bool
  | [] => true
  | t :: ts => wfT t && wfL ts
def wfKV : List (Term × Term) → Bool
  | [] => true
  | (k, v) :: r => wfT k && wfT v && wfKV r
end

mutual
/-- fuel that suffices to decode the encoding of a term: the decoder spends one unit per nesting level and one per
preceding sibling, so the need is a maximum over the children, not a sum; it never exceeds the encoding's length
(`tsz_le_length`), which is why `decode`'s `length + 1` always suffices -/
def tsz : Term → Nat
  | .list l => 1 + tszL l
  | .ilist l t => 1 + max (tszL l) (tsz t)
  | .map kvs => 1 + tszKV kvs
  | .tuple l => 1 + tszL l
  | .pid _ => 2
  | .port _ _ _ _ => 2
  | .ref _ _ _ _ => 2
  | .xfun _ _ _ => 2
  | .ifun _ _ _ _ _ _ _ _ fr => 1 + max 2 (tszL fr)
  | _ => 1
def tszL : List Term → Nat
  | [] => 0
  | t :: ts => 1 + max (tsz t) (tszL ts)
def tszKV : List (Term × Term) → Nat
  | [] => 0
  | (k, v) :: r => 1 + max (max (tsz k) (tsz v)) (tszKV r)
end

mutual
/-- nesting depth the decoder reaches below the term's own level -/
def dep : Term → Nat
  | .list l => 1 + depL l
  | .ilist l t => 1 + max (depL l) (dep t)
  | .map kvs => 1 + depKV kvs
  | .tuple l => 1 + depL l
  | .pid _ => 1
  | .port _ _ _ _ => 1
  | .ref _ _ _ _ => 1
  | .xfun _ _ _ => 1
  | .ifun _ _ _ _ _ _ _ _ fr => 2 + depL fr
  | _ => 0
def depL : List Term → Nat
  | [] => 0
  | t :: ts => max (dep t) (depL ts)
def depKV : List (Term × Term) → Nat
  | [] => 0
  | (k, v) :: r => max (max (dep k) (dep v)) (depKV r)
end

/-! ### leaves -/

theorem enc_atom_ok (a bs : Bytes) (h : encAtom [] a = .ok bs) :
    (a.length ≤ 255 ∧ bs = 119 :: be8 a.length ++ a) ∨ (255 < a.length ∧ a.length ≤ 65535 ∧ bs = 118 :: be16 a.length ++ a) := by
  unfold encAtom at h
  simp only [indexOf?] at h
  by_cases h1 : a.length > u16max
  · simp [h1] at h
  · by_cases h2 : a.length > 255
    · simp [h1, h2] at h
      exact Or.inr ⟨h2, by simpa [u16max] using h1, h.symm⟩
    · simp [h1, h2] at h
      exact Or.inl ⟨by omega, h.symm⟩

/-- an atom written by the encoder is read back, by either decoder, at any depth within the limit -/
theorem dec_atom (x : Ext) (cfg : DecCfg) (a bs r : Bytes) (fuel d : Nat) (hu : validUtf8 a = true)
    (h : encAtom [] a = .ok bs) (hd : d ≤ MAX_NESTING_DEPTH) :
    dec x cfg (fuel + 1) d (bs ++ r) = .ok (.atom a, r) := by
  have hd' : ¬ d > MAX_NESTING_DEPTH := by omega
  rcases enc_atom_ok a bs h with ⟨hl, rfl⟩ | ⟨hl, hl2, rfl⟩
  · simp only [List.cons_append, List.append_assoc]
    rw [dec.eq_3]
    have hm : ¬ a.length > MAX_ATOM_SIZE := by simp [MAX_ATOM_SIZE]; omega
    simp [hd', ownedOnlyTags, decAtomBody, rdU_be8 a.length (a ++ r) (by omega), hm, hu]
  · simp only [List.cons_append, List.append_assoc]
    rw [dec.eq_3]
    have hm : ¬ a.length > MAX_ATOM_SIZE := by simp [MAX_ATOM_SIZE]; omega
    simp [hd', ownedOnlyTags, decAtomBody, rdU_be16 a.length (a ++ r) (by omega), hm, hu]

end Edp

namespace Edp

theorem leN_length (k n : Nat) : (leN k n).length = k := by
  induction k generalizing n with
  | zero => simp [leN]
  | succ k ih => simp [leN, ih]

theorem dropWhile_length_le {α} (p : α → Bool) (l : List α) : (l.dropWhile p).length ≤ l.length := by
  induction l with
  | nil => simp
  | cons a l ih => simp only [List.dropWhile]; split <;> simp <;> omega

theorem sigLen_le (d : Bytes) (h : 1 ≤ d.length) : sigLen d ≤ d.length := by
  unfold sigLen
  split
  · exact h
  · rename_i r hr
    have := dropWhile_length_le (· == (0 : UInt8)) d.reverse
    simp at this
    simpa using this

theorem sigLen_pos (d : Bytes) : 1 ≤ sigLen d := by
  unfold sigLen
  split
  · exact Nat.le_refl 1
  · rename_i r hr
    cases h : List.dropWhile (fun x => x == (0 : UInt8)) d.reverse with
    | nil => exact absurd h hr
    | cons a b => simp

theorem dec_int (x : Ext) (cfg : DecCfg) (v : Int) (r : Bytes) (fuel d : Nat)
    (hv : -9223372036854775808 ≤ v ∧ v ≤ 9223372036854775807) (hd : d ≤ MAX_NESTING_DEPTH) :
    dec x cfg (fuel + 1) d (encInt v ++ r) = .ok (wire (.int v), r) := by
  have hd' : ¬ d > MAX_NESTING_DEPTH := by omega
  unfold encInt
  by_cases h1 : 0 ≤ v ∧ v ≤ 255
  · simp only [h1, and_self, ↓reduceIte, List.cons_append, List.nil_append]
    rw [dec.eq_3]
    have hw : wire (.int v) = .int v := by
      unfold wire; simp; omega
    have hn : v.toNat < 256 := by omega
    simp [hd', ownedOnlyTags, rdU_byte v.toNat r hn, hw]
    omega
  · by_cases h2 : -2147483648 ≤ v ∧ v ≤ 2147483647
    · simp only [h1, h2, and_self, ↓reduceIte, List.cons_append]
      rw [dec.eq_3]
      have hw : wire (.int v) = .int v := by
        unfold wire; simp [h2]
      have hlt : (v % 4294967296).toNat < 4294967296 := by omega
      simp [hd', ownedOnlyTags, rdU_be32 _ r hlt, hw, i32OfU32]
      split <;> omega
    · simp only [h1, h2, ↓reduceIte, List.cons_append]
      rw [dec.eq_3]
      have hlen : 1 ≤ (leN 8 v.natAbs).length := by simp [leN_length]
      have hs := sigLen_le (leN 8 v.natAbs) hlen
      have hs8 : sigLen (leN 8 v.natAbs) ≤ 8 := by simpa [leN_length] using hs
      have hn : sigLen (leN 8 v.natAbs) < 256 := by omega
      have htl : ((leN 8 v.natAbs).take (sigLen (leN 8 v.natAbs))).length = sigLen (leN 8 v.natAbs) := by
        simp [leN_length]; omega
      have hw : wire (.int v) = .big (decide (v < 0)) ((leN 8 v.natAbs).take (sigLen (leN 8 v.natAbs))) := by
        unfold wire; simp [h2]
      by_cases hneg : v ≥ 0
      · have e0 : rdU 1 ((0 : UInt8) :: ((leN 8 v.natAbs).take (sigLen (leN 8 v.natAbs)) ++ r)) = .ok (0, _) := rdU_byte 0 _ (by omega)
        have hnl : ¬ v < 0 := by omega
        simp [hd', ownedOnlyTags, decBig, rdU_byte _ _ hn, hneg, e0, takeE_of_length _ _ r htl, hw, hnl]
      · have e1 : rdU 1 ((1 : UInt8) :: ((leN 8 v.natAbs).take (sigLen (leN 8 v.natAbs)) ++ r)) = .ok (1, _) := rdU_byte 1 _ (by omega)
        have hnl : v < 0 := by omega
        simp [hd', ownedOnlyTags, decBig, rdU_byte _ _ hn, hneg, e1, takeE_of_length _ _ r htl, hw, hnl]

end Edp

namespace Edp

theorem dec_float (x : Ext) (cfg : DecCfg) (b : Nat) (r : Bytes) (fuel d : Nat)
    (hb : b < 18446744073709551616) (hd : d ≤ MAX_NESTING_DEPTH) :
    dec x cfg (fuel + 1) d (70 :: be64 b ++ r) = .ok (.float b, r) := by
  have hd' : ¬ d > MAX_NESTING_DEPTH := by omega
  rw [List.cons_append, dec.eq_3]
  simp [hd', ownedOnlyTags, rdU_be64 b r hb]

theorem dec_binary (x : Ext) (cfg : DecCfg) (b bs r : Bytes) (fuel d : Nat)
    (h : encBinary b = .ok bs) (hl : b.length ≤ MAX_BINARY_SIZE) (hd : d ≤ MAX_NESTING_DEPTH) :
    dec x cfg (fuel + 1) d (bs ++ r) = .ok (.bin b, r) := by
  have hd' : ¬ d > MAX_NESTING_DEPTH := by omega
  unfold encBinary at h
  have hm : ¬ b.length > u32max := by simp [u32max, MAX_BINARY_SIZE] at *; omega
  simp [hm] at h
  subst h
  simp only [List.cons_append, List.append_assoc]
  rw [dec.eq_3]
  have h32 : b.length < 4294967296 := by simp [MAX_BINARY_SIZE] at hl; omega
  have hm2 : ¬ b.length > MAX_BINARY_SIZE := by omega
  simp [hd', ownedOnlyTags, rdU_be32 b.length (b ++ r) h32, hm2]

theorem dec_bits (x : Ext) (cfg : DecCfg) (b bs r : Bytes) (n fuel d : Nat)
    (h : encBits b n = .ok bs) (hn : 1 ≤ n ∧ n ≤ 8) (he : b = [] → n = 8)
    (hl : b.length ≤ MAX_BINARY_SIZE) (hd : d ≤ MAX_NESTING_DEPTH) :
    dec x cfg (fuel + 1) d (bs ++ r) = .ok (.bits b n, r) := by
  have hd' : ¬ d > MAX_NESTING_DEPTH := by omega
  unfold encBits at h
  have hm : ¬ b.length > u32max := by simp [u32max, MAX_BINARY_SIZE] at *; omega
  simp [hm] at h
  subst h
  simp only [List.cons_append, List.append_assoc]
  rw [dec.eq_3]
  have h32 : b.length < 4294967296 := by simp [MAX_BINARY_SIZE] at hl; omega
  have hm2 : ¬ b.length > MAX_BINARY_SIZE := by omega
  have hn8 : n < 256 := by omega
  have hz : ¬ (n = 0 ∨ 8 < n) := by omega
  simp [hd', ownedOnlyTags, rdU_be32 b.length _ h32, hm2, rdU_byte n (b ++ r) hn8, hz]
  exact he

theorem decBig_ok (k : Nat) (neg : Bool) (dg r : Bytes) (hl : dg.length < 256 ^ k) :
    decBig k (beN k dg.length ++ (if neg then (1 : UInt8) else 0) :: (dg ++ r)) = .ok (.big neg dg, r) := by
  cases neg
  · have e0 : rdU 1 ((0 : UInt8) :: (dg ++ r)) = .ok (0, dg ++ r) := rdU_byte 0 _ (by omega)
    simp only [Bool.false_eq_true, ↓reduceIte]
    rw [decBig, rdU_beN k dg.length _ hl]
    simp only [e0, takeE_append]
    rfl
  · have e1 : rdU 1 ((1 : UInt8) :: (dg ++ r)) = .ok (1, dg ++ r) := rdU_byte 1 _ (by omega)
    simp only [↓reduceIte]
    rw [decBig, rdU_beN k dg.length _ hl]
    simp only [e1, takeE_append]
    rfl

theorem dec_big (x : Ext) (cfg : DecCfg) (neg : Bool) (dg r : Bytes) (fuel d : Nat)
    (hl : dg.length < 4294967296) (hd : d ≤ MAX_NESTING_DEPTH) :
    dec x cfg (fuel + 1) d (encBig neg dg ++ r) = .ok (.big neg dg, r) := by
  have hd' : ¬ d > MAX_NESTING_DEPTH := by omega
  have e111 : (111 : UInt8).toNat = 111 := by decide
  have e110 : (110 : UInt8).toNat = 110 := by decide
  unfold encBig
  by_cases h255 : dg.length ≤ 255
  · have h256 : dg.length < 256 ^ 1 := by omega
    simp only [h255, ↓reduceIte, List.cons_append, List.append_assoc]
    rw [dec.eq_3]
    simp only [hd', ↓reduceIte, e110]
    have hb : (cfg.borrowed && ownedOnlyTags.contains 110) = false := by simp [ownedOnlyTags]
    simp only [hb, Bool.false_eq_true, ↓reduceIte]
    exact decBig_ok 1 neg dg r h256
  · have h32 : dg.length < 256 ^ 4 := by simpa using hl
    simp only [h255, ↓reduceIte, List.cons_append, List.append_assoc]
    rw [dec.eq_3]
    simp only [hd', ↓reduceIte, e111]
    have hb : (cfg.borrowed && ownedOnlyTags.contains 111) = false := by simp [ownedOnlyTags]
    simp only [hb, Bool.false_eq_true, ↓reduceIte]
    exact decBig_ok 4 neg dg r h32

theorem dec_nil (x : Ext) (cfg : DecCfg) (r : Bytes) (fuel d : Nat) (hd : d ≤ MAX_NESTING_DEPTH) :
    dec x cfg (fuel + 1) d (106 :: r) = .ok (.nil, r) := by
  have hd' : ¬ d > MAX_NESTING_DEPTH := by omega
  rw [dec.eq_3]
  simp [hd', ownedOnlyTags]

end Edp

/-! ### atom cache (generic in the encoder's atom order), identifiers, funs, and the full mutual round trip -/
namespace Edp

/-- the decoder-side atom cache that corresponds to the encoder's atom order: position ↦ atom -/
def idxFrom (k : Nat) : List Bytes → List (Nat × Bytes)
  | [] => []
  | a :: r => (k, a) :: idxFrom (k + 1) r

def idxCache (cache : List Bytes) : List (Nat × Bytes) := idxFrom 0 cache

/-- the decoder configuration fits the encoder's cache: no cache at all (any configuration), or the owned decoder
whose table holds that cache's atoms at their positions (ATOM_CACHE_REF is not in the zero-copy decoder's tag set;
the table may hold other, stale positions as well) -/
def cfgFor (cache : List Bytes) (cfg : DecCfg) : Prop :=
  cache = [] ∨ (cfg.borrowed = false ∧ ∀ a i, indexOf? a cache = some i → cfg.cache.lookup i = some a)

theorem cfgFor_nil (cfg : DecCfg) : cfgFor [] cfg := Or.inl rfl

theorem indexOf?_lt (a : Bytes) (c : List Bytes) (i : Nat) (h : indexOf? a c = some i) : i < c.length := by
  induction c generalizing i with
  | nil => simp [indexOf?] at h
  | cons x xs ih =>
    simp only [indexOf?] at h
    split at h
    · simp at h; subst h; simp
    · cases hx : indexOf? a xs with
      | none => simp [hx] at h
      | some j => simp [hx] at h; subst h; have := ih j hx; simp; omega

theorem indexOf?_get (a : Bytes) (c : List Bytes) (i : Nat) (h : indexOf? a c = some i) : c[i]? = some a := by
  induction c generalizing i with
  | nil => simp [indexOf?] at h
  | cons x xs ih =>
    simp only [indexOf?] at h
    split at h
    · rename_i hx; simp at h; subst h; simp at hx; simp [hx]
    · cases hx : indexOf? a xs with
      | none => simp [hx] at h
      | some j => simp [hx] at h; subst h; simpa using ih j hx

theorem lookup_idxFrom (a : Bytes) (c : List Bytes) (k i : Nat) (h : indexOf? a c = some i) :
    (idxFrom k c).lookup (k + i) = some a := by
  induction c generalizing i k with
  | nil => simp [indexOf?] at h
  | cons x xs ih =>
    simp only [indexOf?] at h
    split at h
    · rename_i hx; simp at h; subst h; simp at hx; simp [idxFrom, hx]
    · cases hx : indexOf? a xs with
      | none => simp [hx] at h
      | some j =>
        simp [hx] at h; subst h
        have := ih (k + 1) j hx
        have hne : (k + (j + 1) == k) = false := by simp
        simp only [idxFrom, List.lookup, hne]
        rw [← this]; congr 1; omega

theorem lookup_idxCache (a : Bytes) (c : List Bytes) (i : Nat) (h : indexOf? a c = some i) :
    (idxCache c).lookup i = some a := by
  have := lookup_idxFrom a c 0 i h
  simpa [idxCache] using this

theorem cfgFor_idx (cache : List Bytes) : cfgFor cache { cache := idxCache cache } :=
  Or.inr ⟨rfl, fun a i h => lookup_idxCache a cache i h⟩

theorem enc_atomC_ok (cache : List Bytes) (a bs : Bytes) (h : encAtom cache a = .ok bs) :
    (∃ i, indexOf? a cache = some i ∧ bs = [82, UInt8.ofNat i]) ∨
    (indexOf? a cache = none ∧ a.length ≤ 255 ∧ bs = 119 :: be8 a.length ++ a) ∨
    (indexOf? a cache = none ∧ 255 < a.length ∧ a.length ≤ 65535 ∧ bs = 118 :: be16 a.length ++ a) := by
  unfold encAtom at h
  cases hi : indexOf? a cache with
  | some i => simp [hi] at h; exact Or.inl ⟨i, rfl, h.symm⟩
  | none =>
    simp only [hi] at h
    by_cases h1 : a.length > u16max
    · simp [h1] at h
    · by_cases h2 : a.length > 255
      · simp [h1, h2] at h
        exact Or.inr (Or.inr ⟨rfl, h2, by simpa [u16max] using h1, h.symm⟩)
      · simp [h1, h2] at h
        exact Or.inr (Or.inl ⟨rfl, by omega, h.symm⟩)

/-- an atom written by the encoder (literally, or as a reference into its cache) is read back -/
theorem dec_atomC (x : Ext) (cfg : DecCfg) (cache : List Bytes) (a bs r : Bytes) (fuel d : Nat)
    (hc : cfgFor cache cfg) (hlen : cache.length ≤ 256) (hu : validUtf8 a = true)
    (h : encAtom cache a = .ok bs) (hd : d ≤ MAX_NESTING_DEPTH) :
    dec x cfg (fuel + 1) d (bs ++ r) = .ok (.atom a, r) := by
  have hd' : ¬ d > MAX_NESTING_DEPTH := by omega
  rcases enc_atomC_ok cache a bs h with ⟨i, hi, rfl⟩ | ⟨_, hl, rfl⟩ | ⟨_, hl, hl2, rfl⟩
  · rcases hc with rfl | ⟨hb, hcc⟩
    · simp [indexOf?] at hi
    · have hi256 : i < 256 := by have := indexOf?_lt a cache i hi; omega
      simp only [List.cons_append, List.nil_append]
      rw [dec.eq_3]
      simp [hd', hb, rdU_byte i r hi256, hcc a i hi]
  · simp only [List.cons_append, List.append_assoc]
    rw [dec.eq_3]
    have hm : ¬ a.length > MAX_ATOM_SIZE := by simp [MAX_ATOM_SIZE]; omega
    simp [hd', ownedOnlyTags, decAtomBody, rdU_be8 a.length (a ++ r) (by omega), hm, hu]
  · simp only [List.cons_append, List.append_assoc]
    rw [dec.eq_3]
    have hm : ¬ a.length > MAX_ATOM_SIZE := by simp [MAX_ATOM_SIZE]; omega
    simp [hd', ownedOnlyTags, decAtomBody, rdU_be16 a.length (a ++ r) (by omega), hm, hu]

theorem rdWords_map (ids : List Nat) (r : Bytes) (h : ∀ i ∈ ids, i < 4294967296) :
    rdWords ids.length ((ids.map be32).flatten ++ r) = .ok (ids, r) := by
  induction ids with
  | nil => simp [rdWords]
  | cons i ids ih =>
    have hi := h i (by simp)
    have := ih (fun j hj => h j (by simp [hj]))
    simp [rdWords, rdU_be32 i _ hi, this]

theorem dec_port (x : Ext) (cfg : DecCfg) (cache : List Bytes) (hc : cfgFor cache cfg) (hlen : cache.length ≤ 256) (n : Bytes) (i c : Nat) (bs r : Bytes) (fuel d : Nat)
    (hw : wfT (.port n i c none) = true)
    (h : encPort cache n i c none = .ok bs) (hd : d + 1 ≤ MAX_NESTING_DEPTH) :
    dec x cfg (fuel + 2) d (bs ++ r) = .ok (.port n i c none, r) := by
  simp only [wfT, Bool.and_eq_true, decide_eq_true_eq, Option.isNone_none, and_true] at hw
  obtain ⟨⟨hu, h1⟩, h2⟩ := hw
  simp only [encPort] at h
  cases ha : encAtom cache n with
  | error e => simp [ha] at h
  | ok ab =>
    simp [ha] at h; subst h
    have hd' : ¬ d > MAX_NESTING_DEPTH := by omega
    simp only [List.cons_append, List.append_assoc]
    rw [dec.eq_3]
    have hat := dec_atomC x cfg cache n ab (be64 i ++ (be32 c ++ r)) fuel (d+1) hc hlen hu ha hd
    simp [hd', ownedOnlyTags, hat, rdU_be64 _ _ h1, rdU_be32 _ _ h2]

theorem dec_ref (x : Ext) (cfg : DecCfg) (cache : List Bytes) (hc : cfgFor cache cfg) (hlen : cache.length ≤ 256) (n : Bytes) (c : Nat) (ids : List Nat) (bs r : Bytes) (fuel d : Nat)
    (hw : wfT (.ref n c ids none) = true)
    (h : encRef cache n c ids none = .ok bs) (hd : d + 1 ≤ MAX_NESTING_DEPTH) :
    dec x cfg (fuel + 2) d (bs ++ r) = .ok (.ref n c ids none, r) := by
  simp only [wfT, Bool.and_eq_true, decide_eq_true_eq, Option.isNone_none, and_true, List.all_eq_true] at hw
  obtain ⟨⟨hu, h1⟩, h2⟩ := hw
  simp only [encRef] at h
  by_cases hl : ids.length > u16max
  · simp [hl] at h
  · simp only [hl, ↓reduceIte] at h
    cases ha : encAtom cache n with
    | error e => simp [ha] at h
    | ok ab =>
      simp [ha] at h; subst h
      have hd' : ¬ d > MAX_NESTING_DEPTH := by omega
      have hl' : ids.length < 65536 := by simp [u16max] at hl; omega
      simp only [List.cons_append, List.append_assoc]
      rw [dec.eq_3]
      have hat := dec_atomC x cfg cache n ab (be32 c ++ ((ids.map be32).flatten ++ r)) fuel (d+1) hc hlen hu ha hd
      simp [hd', ownedOnlyTags, hat, rdU_be16 _ _ hl', rdU_be32 _ _ h1, rdWords_map ids r h2]

theorem wire_small (a : Nat) (h : a < 2147483648) : wire (.int (a : Int)) = .int a := by
  unfold wire; simp; omega

theorem dec_xfun (x : Ext) (cfg : DecCfg) (cache : List Bytes) (hc : cfgFor cache cfg) (hlen : cache.length ≤ 256) (m f : Bytes) (a : Nat) (bs r : Bytes) (fuel d : Nat)
    (hw : wfT (.xfun m f a) = true)
    (h : enc cache (.xfun m f a) = .ok bs) (hd : d + 1 ≤ MAX_NESTING_DEPTH) :
    dec x cfg (fuel + 2) d (bs ++ r) = .ok (.xfun m f a, r) := by
  simp only [wfT, Bool.and_eq_true, decide_eq_true_eq] at hw
  obtain ⟨⟨hm, hf⟩, ha⟩ := hw
  simp only [enc] at h
  cases hma : encAtom cache m with
  | error e => simp [hma] at h
  | ok mb =>
    cases hfa : encAtom cache f with
    | error e => simp [hma, hfa] at h
    | ok fb =>
      simp [hma, hfa] at h; subst h
      have hd' : ¬ d > MAX_NESTING_DEPTH := by omega
      simp only [List.cons_append, List.append_assoc]
      rw [dec.eq_3]
      have h1 := dec_atomC x cfg cache m mb (fb ++ (encInt a ++ r)) fuel (d+1) hc hlen hm hma hd
      have h2 := dec_atomC x cfg cache f fb (encInt a ++ r) fuel (d+1) hc hlen hf hfa hd
      have h3 := dec_int x cfg (a : Int) r fuel (d+1) (by omega) hd
      rw [wire_small a (by omega)] at h3
      simp [hd', ownedOnlyTags, h1, h2, h3]
      omega

theorem dec_pid (x : Ext) (cfg : DecCfg) (cache : List Bytes) (hc : cfgFor cache cfg) (hlen : cache.length ≤ 256) (p : PidF) (bs r : Bytes) (fuel d : Nat) (hw : wfPid p = true)
    (h : encPid cache p = .ok bs) (hd : d + 1 ≤ MAX_NESTING_DEPTH) :
    dec x cfg (fuel + 2) d (bs ++ r) = .ok (.pid p, r) := by
  obtain ⟨node, id, serial, creation, loc⟩ := p
  simp only [wfPid, Bool.and_eq_true, decide_eq_true_eq, Option.isNone_iff_eq_none] at hw
  obtain ⟨⟨⟨⟨hu, h1⟩, h2⟩, h3⟩, h4⟩ := hw
  subst h4
  simp only [encPid] at h
  cases ha : encAtom cache node with
  | error e => simp [ha] at h
  | ok ab =>
    simp [ha] at h; subst h
    have hd' : ¬ d > MAX_NESTING_DEPTH := by omega
    simp only [List.cons_append, List.append_assoc]
    rw [dec.eq_3]
    have hat := dec_atomC x cfg cache node ab (be32 id ++ (be32 serial ++ (be32 creation ++ r))) fuel (d+1) hc hlen hu ha hd
    simp [hd', ownedOnlyTags, hat, rdU_be32 _ _ h1, rdU_be32 _ _ h2, rdU_be32 _ _ h3]


theorem rdU_be32_mod (n : Nat) (r : Bytes) : rdU 4 (be32 n ++ r) = .ok (n % 4294967296, r) := by
  have h := rdU_be32 (n % 4294967296) r (Nat.mod_lt _ (by omega))
  have e : be32 (n % 4294967296) = be32 n := by
    unfold be32; exact (beN_mod 4 n).symm
  rw [e] at h; exact h

mutual
theorem dec_enc (x : Ext) (cfg : DecCfg) (cache : List Bytes) (hc : cfgFor cache cfg) (hlen : cache.length ≤ 256) (t : Term) (bs r : Bytes) (fuel d : Nat)
    (hw : wfT t = true) (hd : dep t + d ≤ MAX_NESTING_DEPTH) (he : enc cache t = .ok bs) (hf : tsz t ≤ fuel) :
    dec x cfg fuel d (bs ++ r) = .ok (wire t, r) := by
  match t with
  | .atom a =>
    simp only [tsz] at hf; obtain ⟨f, rfl⟩ : ∃ f, fuel = f + 1 := ⟨fuel - 1, by omega⟩
    simp only [wfT] at hw; simp only [enc] at he
    have := dec_atomC x cfg cache a bs r f d hc hlen hw he (by omega)
    simpa [wire] using this
  | .int i =>
    simp only [tsz] at hf; obtain ⟨f, rfl⟩ : ∃ f, fuel = f + 1 := ⟨fuel - 1, by omega⟩
    simp only [wfT, decide_eq_true_eq] at hw; simp only [enc, Except.ok.injEq] at he
    subst he
    exact dec_int x cfg i r f d hw (by omega)
  | .float b =>
    simp only [tsz] at hf; obtain ⟨f, rfl⟩ : ∃ f, fuel = f + 1 := ⟨fuel - 1, by omega⟩
    simp only [wfT, decide_eq_true_eq] at hw; simp only [enc, Except.ok.injEq] at he
    subst he
    have := dec_float x cfg b r f d hw (by omega)
    simpa [wire] using this
  | .bin b =>
    simp only [tsz] at hf; obtain ⟨f, rfl⟩ : ∃ f, fuel = f + 1 := ⟨fuel - 1, by omega⟩
    simp only [wfT, decide_eq_true_eq] at hw; simp only [enc] at he
    have := dec_binary x cfg b bs r f d he hw (by omega)
    simpa [wire] using this
  | .str b =>
    simp only [tsz] at hf; obtain ⟨f, rfl⟩ : ∃ f, fuel = f + 1 := ⟨fuel - 1, by omega⟩
    simp only [wfT, decide_eq_true_eq] at hw; simp only [enc] at he
    have := dec_binary x cfg b bs r f d he hw (by omega)
    simpa [wire] using this
  | .bits b n =>
    simp only [tsz] at hf; obtain ⟨f, rfl⟩ : ∃ f, fuel = f + 1 := ⟨fuel - 1, by omega⟩
    simp only [wfT, Bool.and_eq_true, decide_eq_true_eq, Bool.or_eq_true, Bool.not_eq_true', beq_iff_eq] at hw
    simp only [enc] at he
    have h0 : b = [] → n = 8 := by
      intro hb; subst hb; simpa using hw.1.2
    have := dec_bits x cfg b bs r n f d he hw.1.1 h0 hw.2 (by omega)
    simpa [wire] using this
  | .big neg dg =>
    simp only [tsz] at hf; obtain ⟨f, rfl⟩ : ∃ f, fuel = f + 1 := ⟨fuel - 1, by omega⟩
    simp only [wfT, decide_eq_true_eq] at hw; simp only [enc, Except.ok.injEq] at he
    subst he
    have := dec_big x cfg neg dg r f d hw (by omega)
    simpa [wire] using this
  | .nil =>
    simp only [tsz] at hf; obtain ⟨f, rfl⟩ : ∃ f, fuel = f + 1 := ⟨fuel - 1, by omega⟩
    simp only [enc, Except.ok.injEq] at he
    subst he
    have := dec_nil x cfg r f d (by omega)
    simpa [wire] using this
  | .pid p =>
    simp only [tsz] at hf; obtain ⟨f, rfl⟩ : ∃ f, fuel = f + 2 := ⟨fuel - 2, by omega⟩
    simp only [wfT] at hw; simp only [enc] at he; simp only [dep] at hd
    have := dec_pid x cfg cache hc hlen p bs r f d hw he (by omega)
    simpa [wire] using this
  | .port n i c l =>
    simp only [tsz] at hf; obtain ⟨f, rfl⟩ : ∃ f, fuel = f + 2 := ⟨fuel - 2, by omega⟩
    have hl : l = none := by
      simp only [wfT, Bool.and_eq_true, Option.isNone_iff_eq_none] at hw; exact hw.2
    subst hl
    simp only [enc] at he; simp only [dep] at hd
    have := dec_port x cfg cache hc hlen n i c bs r f d hw he (by omega)
    simpa [wire] using this
  | .ref n c ids l =>
    simp only [tsz] at hf; obtain ⟨f, rfl⟩ : ∃ f, fuel = f + 2 := ⟨fuel - 2, by omega⟩
    have hl : l = none := by
      simp only [wfT, Bool.and_eq_true, Option.isNone_iff_eq_none] at hw; exact hw.2
    subst hl
    simp only [enc] at he; simp only [dep] at hd
    have := dec_ref x cfg cache hc hlen n c ids bs r f d hw he (by omega)
    simpa [wire] using this
  | .xfun m fn a =>
    simp only [tsz] at hf; obtain ⟨f, rfl⟩ : ∃ f, fuel = f + 2 := ⟨fuel - 2, by omega⟩
    simp only [dep] at hd
    have := dec_xfun x cfg cache hc hlen m fn a bs r f d hw he (by omega)
    simpa [wire] using this
  | .tuple l =>
    simp only [tsz] at hf; obtain ⟨f, rfl⟩ : ∃ f, fuel = f + 1 := ⟨fuel - 1, by omega⟩
    simp only [wfT, Bool.and_eq_true, decide_eq_true_eq] at hw
    simp only [dep] at hd
    have hd' : ¬ d > MAX_NESTING_DEPTH := by omega
    simp only [enc] at he
    cases hl : encL cache l with
    | error e => simp only [hl] at he; (repeat' split at he) <;> simp at he
    | ok lb =>
      have ih := fun r' => decN_encL x cfg cache hc hlen l lb r' f (d + 1) hw.2 (by omega) hl (by omega)
      by_cases h255 : l.length ≤ 255
      · simp [hl, h255] at he; subst he
        simp only [List.cons_append, List.append_assoc]
        rw [dec.eq_3]
        simp [hd', ownedOnlyTags, rdU_be8 _ _ (show l.length < 256 by omega), ih, wire]
      · have h32 : l.length < 4294967296 := by have := hw.1; simp [MAX_TUPLE_SIZE] at this; omega
        have hnm : ¬ l.length > u32max := by simp [u32max]; omega
        have hnt : ¬ l.length > MAX_TUPLE_SIZE := by have := hw.1; omega
        simp [hl, h255, hnm] at he; subst he
        simp only [List.cons_append, List.append_assoc]
        rw [dec.eq_3]
        simp [hd', ownedOnlyTags, rdU_be32 _ _ h32, hnt, ih, wire]
  | .list l =>
    simp only [tsz] at hf; obtain ⟨f, rfl⟩ : ∃ f, fuel = f + 1 := ⟨fuel - 1, by omega⟩
    simp only [wfT, Bool.and_eq_true, decide_eq_true_eq] at hw
    simp only [dep] at hd
    have hd' : ¬ d > MAX_NESTING_DEPTH := by omega
    simp only [enc] at he
    cases hl : encL cache l with
    | error e =>
      cases l with
      | nil => simp [encL] at hl
      | cons a l' => simp only [hl, List.isEmpty_cons, Bool.false_eq_true, ↓reduceIte] at he; (repeat' split at he) <;> simp at he
    | ok lb =>
      have ih := fun r' => decN_encL x cfg cache hc hlen l lb r' f (d + 1) hw.2 (by omega) hl (by omega)
      cases l with
      | nil =>
        simp at he; subst he
        have := dec_nil x cfg r f d (by omega)
        simpa [wire] using this
      | cons a l' =>
        have h32 : (a :: l').length < 4294967296 := by have := hw.1; simp [MAX_LIST_SIZE] at this ⊢; omega
        have hnm : ¬ (a :: l').length > u32max := by simp [u32max] at h32 ⊢; omega
        have hnt : ¬ (a :: l').length > MAX_LIST_SIZE := by have := hw.1; omega
        simp only [hl, hnm, List.isEmpty_cons, Bool.false_eq_true, ↓reduceIte, Except.ok.injEq] at he
        subst he
        simp only [tszL] at hf
        obtain ⟨f', rfl⟩ : ∃ f', f = f' + 1 := ⟨f - 1, by omega⟩
        simp only [List.cons_append, List.append_assoc]
        rw [dec.eq_3]
        have hn := dec_nil x cfg r f' (d + 1) (by omega)
        simp only [List.length_cons] at ih h32 hnt
        simp [hd', ownedOnlyTags, rdU_be32 _ _ h32, hnt, ih, hn, wire]
  | .ilist l tl =>
    simp only [tsz] at hf; obtain ⟨f, rfl⟩ : ∃ f, fuel = f + 1 := ⟨fuel - 1, by omega⟩
    simp only [wfT, Bool.and_eq_true, decide_eq_true_eq] at hw
    simp only [dep] at hd
    have hd' : ¬ d > MAX_NESTING_DEPTH := by omega
    have h32 : l.length < 4294967296 := by have := hw.1.1; simp [MAX_LIST_SIZE] at this ⊢; omega
    have hnm : ¬ l.length > u32max := by simp [u32max] at h32 ⊢; omega
    have hnt : ¬ l.length > MAX_LIST_SIZE := by have := hw.1.1; omega
    simp only [enc, hnm, ↓reduceIte] at he
    cases hl : encL cache l with
    | error e => simp [hl] at he
    | ok lb =>
      cases ht : enc cache tl with
      | error e => simp [hl, ht] at he
      | ok tb =>
        simp [hl, ht] at he; subst he
        have ih := fun r' => decN_encL x cfg cache hc hlen l lb r' f (d + 1) hw.1.2 (by omega) hl (by omega)
        have iht := dec_enc x cfg cache hc hlen tl tb r f (d + 1) hw.2 (by omega) ht (by omega)
        simp only [List.cons_append, List.append_assoc]
        rw [dec.eq_3]
        simp only [wire]
        cases hwt : wire tl <;>
          simp [hd', ownedOnlyTags, rdU_be32 _ _ h32, hnt, ih, iht, hwt]
  | .map kvs =>
    simp only [tsz] at hf; obtain ⟨f, rfl⟩ : ∃ f, fuel = f + 1 := ⟨fuel - 1, by omega⟩
    simp only [wfT, Bool.and_eq_true, decide_eq_true_eq] at hw
    simp only [dep] at hd
    have hd' : ¬ d > MAX_NESTING_DEPTH := by omega
    have h32 : kvs.length < 4294967296 := by have := hw.1; simp [MAX_MAP_SIZE] at this ⊢; omega
    have hnm : ¬ kvs.length > u32max := by simp [u32max] at h32 ⊢; omega
    have hnt : ¬ kvs.length > MAX_MAP_SIZE := by have := hw.1; omega
    simp only [enc, hnm, ↓reduceIte] at he
    cases hl : encKV cache kvs with
    | error e => simp [hl] at he
    | ok lb =>
      simp [hl] at he; subst he
      have ih := fun r' => decKV_encKV x cfg cache hc hlen kvs lb r' f (d + 1) [] hw.2 (by omega) hl (by omega)
      simp only [List.cons_append, List.append_assoc]
      rw [dec.eq_3]
      simp [hd', ownedOnlyTags, rdU_be32 _ _ h32, hnt, ih, wire]
  | .ifun a u i nf m oi ou p fr =>
    simp only [tsz] at hf; obtain ⟨f, rfl⟩ : ∃ f, fuel = f + 3 := ⟨fuel - 3, by omega⟩
    simp only [wfT, Bool.and_eq_true, decide_eq_true_eq] at hw
    obtain ⟨⟨⟨⟨⟨⟨⟨⟨⟨ha, hu⟩, hi⟩, hnf⟩, hnf32⟩, hm⟩, hoi⟩, hou⟩, hp⟩, hfr⟩ := hw
    simp only [dep] at hd
    have hd' : ¬ d > MAX_NESTING_DEPTH := by omega
    simp only [enc] at he
    cases hma : encAtom cache m with
    | error e => simp [hma] at he
    | ok mb =>
      cases hpa : encPid cache p with
      | error e => simp [hma, hpa] at he
      | ok pb =>
        cases hfa : encL cache fr with
        | error e => simp [hma, hpa, hfa] at he
        | ok fb =>
          simp only [hma, hpa, hfa, Except.ok.injEq] at he
          subst he
          have ih := fun r' => decN_encL x cfg cache hc hlen fr fb r' (f + 2) (d + 1) hfr (by omega) hfa (by omega)
          have h1 := fun r' => dec_atomC x cfg cache m mb r' (f + 1) (d + 1) hc hlen hm hma (by omega)
          have h2 := fun r' => dec_int x cfg (oi : Int) r' (f + 1) (d + 1) (by omega) (by omega)
          have h3 := fun r' => dec_int x cfg (ou : Int) r' (f + 1) (d + 1) (by omega) (by omega)
          rw [wire_small oi hoi] at h2
          rw [wire_small ou hou] at h3
          have h4 := fun r' => dec_pid x cfg cache hc hlen p pb r' f (d + 1) hp hpa (by omega)
          subst hnf
          have hoi0 : ¬ ((oi : Int) < 0) := by omega
          have hou0 : ¬ ((ou : Int) < 0) := by omega
          simp only [List.cons_append, List.append_assoc]
          rw [dec.eq_3]
          simp [hd', ownedOnlyTags, rdU_be32_mod, rdU_byte a _ (by omega), takeE_of_length 16 u _ hu,
            rdU_be32 _ _ hi, rdU_be32 _ _ hnf32, h1, h2, h3, h4, ih, wire, hoi0, hou0]
termination_by sizeOf t
decreasing_by all_goals (simp_wf; try omega)
theorem decN_encL (x : Ext) (cfg : DecCfg) (cache : List Bytes) (hc : cfgFor cache cfg) (hlen : cache.length ≤ 256) (l : List Term) (bs r : Bytes) (fuel d : Nat)
    (hw : wfL l = true) (hd : depL l + d ≤ MAX_NESTING_DEPTH) (he : encL cache l = .ok bs) (hf : tszL l ≤ fuel) :
    decN x cfg fuel d l.length (bs ++ r) = .ok (wireL l, r) := by
  match l with
  | [] => simp [encL] at he; subst he; simp [decN, wireL]
  | t :: ts =>
    simp only [tszL] at hf; obtain ⟨f, rfl⟩ : ∃ f, fuel = f + 1 := ⟨fuel - 1, by omega⟩
    simp only [wfL, Bool.and_eq_true] at hw
    simp only [depL] at hd
    simp only [encL] at he
    cases h1 : enc cache t with
    | error e => simp [h1] at he
    | ok a =>
      cases h2 : encL cache ts with
      | error e => simp [h1, h2] at he
      | ok b =>
        simp [h1, h2] at he; subst he
        have ih1 := dec_enc x cfg cache hc hlen t a (b ++ r) f d hw.1 (by omega) h1 (by omega)
        have ih2 := decN_encL x cfg cache hc hlen ts b r f d hw.2 (by omega) h2 (by omega)
        simp [decN, ih1, ih2, wireL]
termination_by sizeOf l
decreasing_by all_goals (simp_wf; try omega)
theorem decKV_encKV (x : Ext) (cfg : DecCfg) (cache : List Bytes) (hc : cfgFor cache cfg) (hlen : cache.length ≤ 256) (kvs : List (Term × Term)) (bs r : Bytes) (fuel d : Nat)
    (acc : List (Term × Term))
    (hw : wfKV kvs = true) (hd : depKV kvs + d ≤ MAX_NESTING_DEPTH) (he : encKV cache kvs = .ok bs) (hf : tszKV kvs ≤ fuel) :
    decKV x cfg fuel d kvs.length (bs ++ r) acc = .ok (insertAll acc (wireKV kvs), r) := by
  match kvs with
  | [] => simp [encKV] at he; subst he; simp [decKV, wireKV, insertAll]
  | (k, v) :: ts =>
    simp only [tszKV] at hf; obtain ⟨f, rfl⟩ : ∃ f, fuel = f + 1 := ⟨fuel - 1, by omega⟩
    simp only [wfKV, Bool.and_eq_true] at hw
    simp only [depKV] at hd
    simp only [encKV] at he
    cases h1 : enc cache k with
    | error e => simp [h1] at he
    | ok a =>
      cases h2 : enc cache v with
      | error e => simp [h1, h2] at he
      | ok b =>
        cases h3 : encKV cache ts with
        | error e => simp [h1, h2, h3] at he
        | ok c =>
          simp [h1, h2, h3] at he; subst he
          have ih1 := dec_enc x cfg cache hc hlen k a (b ++ (c ++ r)) f d hw.1.1 (by omega) h1 (by omega)
          have ih2 := dec_enc x cfg cache hc hlen v b (c ++ r) f d hw.1.2 (by omega) h2 (by omega)
          have ih3 := decKV_encKV x cfg cache hc hlen ts c r f d (mapInsert acc (wire k) (wire v)) hw.2 (by omega) h3 (by omega)
          simp [decKV, ih1, ih2, ih3, wireKV, insertAll]
termination_by sizeOf kvs
decreasing_by all_goals (simp_wf; try omega)
end

end Edp

/-! ### identifiers that carry preserved LOCAL_EXT bytes -/
namespace Edp

/-- the identifier without its preserved LOCAL_EXT bytes -/
def clearLoc : Term → Term
  | .pid p => .pid { p with loc := none }
  | .port n i c _ => .port n i c none
  | .ref n c ids _ => .ref n c ids none
  | t => t

def locOf : Term → Option Bytes
  | .pid p => p.loc
  | .port _ _ _ l => l
  | .ref _ _ _ l => l
  | _ => none

def isIdent : Term → Bool
  | .pid _ | .port _ _ _ _ | .ref _ _ _ _ => true
  | _ => false

theorem take_len_append (A R : Bytes) (n : Nat) (h : n = A.length) : List.take n (A ++ R) = A := by
  subst h; simp

/-- LOCAL_EXT-preserving form: an identifier that carries `loc = some (hash ++ plain)`, where `plain` is the
encoding of its logical fields, is written as `121 :: hash ++ plain` and read back as the same term with the same `loc` -/
theorem dec_enc_local (x : Ext) (cfg : DecCfg) (cache : List Bytes) (hc : cfgFor cache cfg) (hlen : cache.length ≤ 256)
    (hb : cfg.borrowed = false) (t : Term) (hash plain r : Bytes) (fuel d : Nat)
    (hid : isIdent t = true) (hh : hash.length = 8) (hw : wfT (clearLoc t) = true)
    (hp : enc cache (clearLoc t) = .ok plain) (hl : locOf t = some (hash ++ plain))
    (hd : d + 2 ≤ MAX_NESTING_DEPTH) :
    enc cache t = .ok (121 :: (hash ++ plain)) ∧
      dec x cfg (fuel + 3) d (121 :: (hash ++ plain) ++ r) = .ok (t, r) := by
  have hd' : ¬ d > MAX_NESTING_DEPTH := by omega
  have key := take_len_append (hash ++ plain) r (8 + plain.length) (by simp [hh])
  simp only [List.append_assoc] at key
  match t, hid with
  | .pid p, _ =>
    obtain ⟨node, id, serial, creation, loc⟩ := p
    simp only [locOf] at hl; subst hl
    simp only [clearLoc] at hw hp
    have h1 := dec_enc x cfg cache hc hlen _ plain r (fuel + 2) (d + 1) hw (by simp [dep]; omega) hp (by simp [tsz])
    refine ⟨by simp [enc, encPid], ?_⟩
    simp only [List.cons_append, List.append_assoc]
    rw [dec.eq_3]
    simp [hd', hb, rdU_of_length 8 hash _ hh, h1, wire]
    exact key
  | .port n i c l, _ =>
    simp only [locOf] at hl; subst hl
    simp only [clearLoc] at hw hp
    have h1 := dec_enc x cfg cache hc hlen _ plain r (fuel + 2) (d + 1) hw (by simp [dep]; omega) hp (by simp [tsz])
    refine ⟨by simp [enc, encPort], ?_⟩
    simp only [List.cons_append, List.append_assoc]
    rw [dec.eq_3]
    simp [hd', hb, rdU_of_length 8 hash _ hh, h1, wire]
    exact key
  | .ref n c ids l, _ =>
    simp only [locOf] at hl; subst hl
    simp only [clearLoc] at hw hp
    have h1 := dec_enc x cfg cache hc hlen _ plain r (fuel + 2) (d + 1) hw (by simp [dep]; omega) hp (by simp [tsz])
    refine ⟨by simp [enc, encRef], ?_⟩
    simp only [List.cons_append, List.append_assoc]
    rw [dec.eq_3]
    simp [hd', hb, rdU_of_length 8 hash _ hh, h1, wire]
    exact key

end Edp

/-! ### the fuel `decode` supplies (input length + 1) always suffices -/
namespace Edp

theorem tsz_pos (t : Term) : 1 ≤ tsz t := by
  cases t <;> simp [tsz] <;> omega

theorem encAtom_len (cache : List Bytes) (a bs : Bytes) (h : encAtom cache a = .ok bs) : 2 ≤ bs.length := by
  rcases enc_atomC_ok cache a bs h with ⟨i, _, rfl⟩ | ⟨_, _, rfl⟩ | ⟨_, _, _, rfl⟩ <;> simp [be8, be16, beN_length] <;> omega

theorem encInt_len (v : Int) : 2 ≤ (encInt v).length := by
  unfold encInt; split
  · simp
  · split
    · simp [be32, beN_length]
    · simp

theorem encPid_len (cache : List Bytes) (p : PidF) (bs : Bytes) (h : encPid cache p = .ok bs) (hl : p.loc = none) :
    2 ≤ bs.length := by
  simp only [encPid, hl] at h
  cases ha : encAtom cache p.node with
  | error e => simp [ha] at h
  | ok ab => simp [ha] at h; subst h; simp [be32, beN_length]

mutual
theorem tsz_le_length (cache : List Bytes) (t : Term) (bs : Bytes) (hw : wfT t = true) (he : enc cache t = .ok bs) :
    tsz t ≤ bs.length := by
  match t with
  | .atom a => simp only [enc] at he; have := encAtom_len cache a bs he; simp [tsz]; omega
  | .int i => simp only [enc, Except.ok.injEq] at he; subst he; have := encInt_len i; simp [tsz]; omega
  | .float b => simp only [enc, Except.ok.injEq] at he; subst he; simp [tsz]
  | .bin b => simp only [enc, encBinary] at he; split at he <;> simp at he; subst he; simp [tsz]
  | .str b => simp only [enc, encBinary] at he; split at he <;> simp at he; subst he; simp [tsz]
  | .bits b n => simp only [enc, encBits] at he; split at he <;> simp at he; subst he; simp [tsz]
  | .big neg dg => simp only [enc, Except.ok.injEq] at he; subst he; simp only [encBig, tsz]; split <;> simp
  | .nil => simp only [enc, Except.ok.injEq] at he; subst he; simp [tsz]
  | .pid p =>
    simp only [enc] at he
    have hl : p.loc = none := by simp only [wfT, wfPid, Bool.and_eq_true, Option.isNone_iff_eq_none] at hw; exact hw.2
    have := encPid_len cache p bs he hl; simp [tsz]; omega
  | .port n i c l =>
    have hl : l = none := by simp only [wfT, Bool.and_eq_true, Option.isNone_iff_eq_none] at hw; exact hw.2
    subst hl
    simp only [enc, encPort] at he
    cases ha : encAtom cache n with
    | error e => simp [ha] at he
    | ok ab => simp [ha] at he; subst he; simp [tsz, be32, be64, beN_length]
  | .ref n c ids l =>
    have hl : l = none := by simp only [wfT, Bool.and_eq_true, Option.isNone_iff_eq_none] at hw; exact hw.2
    subst hl
    simp only [enc, encRef] at he
    split at he
    · simp at he
    · cases ha : encAtom cache n with
      | error e => simp [ha] at he
      | ok ab => simp [ha] at he; subst he; simp [tsz, be16, be32, beN_length]; omega
  | .xfun m fn a =>
    simp only [enc] at he
    cases hma : encAtom cache m with
    | error e => simp [hma] at he
    | ok mb =>
      cases hfa : encAtom cache fn with
      | error e => simp [hma, hfa] at he
      | ok fb =>
        simp [hma, hfa] at he; subst he
        have := encAtom_len cache m mb hma
        simp [tsz]; omega
  | .tuple l =>
    simp only [wfT, Bool.and_eq_true] at hw
    simp only [enc] at he
    cases hl : encL cache l with
    | error e => simp only [hl] at he; (repeat' split at he) <;> simp at he
    | ok lb =>
      have ih := tszL_le_length cache l lb hw.2 hl
      simp only [hl] at he
      (repeat' split at he) <;> simp at he <;> subst he <;> simp [tsz, be8, be32, beN_length] <;> omega
  | .list l =>
    simp only [wfT, Bool.and_eq_true] at hw
    simp only [enc] at he
    cases hl : encL cache l with
    | error e =>
      cases l with
      | nil => simp [encL] at hl
      | cons a l' => simp only [hl, List.isEmpty_cons, Bool.false_eq_true, ↓reduceIte] at he; (repeat' split at he) <;> simp at he
    | ok lb =>
      have ih := tszL_le_length cache l lb hw.2 hl
      cases l with
      | nil => simp at he; subst he; simp [tsz, tszL]
      | cons a l' =>
        simp only [hl, List.isEmpty_cons, Bool.false_eq_true, ↓reduceIte] at he
        (repeat' split at he) <;> simp at he <;> subst he <;> simp [tsz, be32, beN_length] <;> omega
  | .ilist l tl =>
    simp only [wfT, Bool.and_eq_true] at hw
    simp only [enc] at he
    split at he
    · simp at he
    · cases hl : encL cache l with
      | error e => simp [hl] at he
      | ok lb =>
        cases ht : enc cache tl with
        | error e => simp [hl, ht] at he
        | ok tb =>
          have ih := tszL_le_length cache l lb hw.1.2 hl
          have iht := tsz_le_length cache tl tb hw.2 ht
          simp [hl, ht] at he; subst he
          simp [tsz, be32, beN_length]; omega
  | .map kvs =>
    simp only [wfT, Bool.and_eq_true] at hw
    simp only [enc] at he
    split at he
    · simp at he
    · cases hl : encKV cache kvs with
      | error e => simp [hl] at he
      | ok lb =>
        have ih := tszKV_le_length cache kvs lb hw.2 hl
        simp [hl] at he; subst he
        simp [tsz, be32, beN_length]; omega
  | .ifun a u i nf m oi ou p fr =>
    simp only [wfT, Bool.and_eq_true] at hw
    simp only [enc] at he
    cases hma : encAtom cache m with
    | error e => simp [hma] at he
    | ok mb =>
      cases hpa : encPid cache p with
      | error e => simp [hma, hpa] at he
      | ok pb =>
        cases hfa : encL cache fr with
        | error e => simp [hma, hpa, hfa] at he
        | ok fb =>
          have ih := tszL_le_length cache fr fb hw.2 hfa
          simp only [hma, hpa, hfa, Except.ok.injEq] at he
          subst he
          simp [tsz, be32, beN_length]; omega
termination_by sizeOf t
decreasing_by all_goals (simp_wf; try omega)
theorem tszL_le_length (cache : List Bytes) (l : List Term) (bs : Bytes) (hw : wfL l = true) (he : encL cache l = .ok bs) :
    tszL l ≤ bs.length + 1 := by
  match l with
  | [] => simp [tszL]
  | t :: ts =>
    simp only [wfL, Bool.and_eq_true] at hw
    simp only [encL] at he
    cases h1 : enc cache t with
    | error e => simp [h1] at he
    | ok a =>
      cases h2 : encL cache ts with
      | error e => simp [h1, h2] at he
      | ok b =>
        simp [h1, h2] at he; subst he
        have ih1 := tsz_le_length cache t a hw.1 h1
        have ih2 := tszL_le_length cache ts b hw.2 h2
        have := tsz_pos t
        simp [tszL]; omega
termination_by sizeOf l
decreasing_by all_goals (simp_wf; try omega)
theorem tszKV_le_length (cache : List Bytes) (kvs : List (Term × Term)) (bs : Bytes) (hw : wfKV kvs = true)
    (he : encKV cache kvs = .ok bs) : tszKV kvs ≤ bs.length + 1 := by
  match kvs with
  | [] => simp [tszKV]
  | (k, v) :: ts =>
    simp only [wfKV, Bool.and_eq_true] at hw
    simp only [encKV] at he
    cases h1 : enc cache k with
    | error e => simp [h1] at he
    | ok a =>
      cases h2 : enc cache v with
      | error e => simp [h1, h2] at he
      | ok b =>
        cases h3 : encKV cache ts with
        | error e => simp [h1, h2, h3] at he
        | ok c =>
          simp [h1, h2, h3] at he; subst he
          have ih1 := tsz_le_length cache k a hw.1.1 h1
          have ih2 := tsz_le_length cache v b hw.1.2 h2
          have ih3 := tszKV_le_length cache ts c hw.2 h3
          have := tsz_pos k
          have := tsz_pos v
          simp [tszKV]; omega
termination_by sizeOf kvs
decreasing_by all_goals (simp_wf; try omega)
end

end Edp
