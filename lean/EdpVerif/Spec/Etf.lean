import EdpVerif.Spec.Value
/-
An independent reader of the External Term Format (erl_ext_dist, OTP 26/27), the oracle for C01/C03.
It knows every tag and every alternative width (DESIGN Appendix B.1).  Zlib is a parameter.
-/
namespace Edp.Spec

open Edp

structure Env where
  /-- zlib inflate of a complete stream: (output, input bytes consumed) -/
  inflate : Bytes → Option (Bytes × Nat) := fun _ => none
  /-- atoms referenced by ATOM_CACHE_REF i inside a distribution header: the i-th reference of the header -/
  refs : List (List Nat) := []

def latin1 (b : Bytes) : List Nat := b.map UInt8.toNat

def leVal : Bytes → Nat
  | [] => 0
  | b :: r => b.toNat + 256 * leVal r

/-! #### FLOAT_EXT: 31 bytes of `%.20e` text, NUL padded, read as the nearest double (ties to even) -/

def digitsVal (cs : List Char) : Option Nat :=
  if cs.isEmpty || !cs.all Char.isDigit then none else some (cs.foldl (fun a c => a * 10 + (c.toNat - 48)) 0)

/-- nearest double to `p/q` (`p, q > 0`), as bits without sign; `none` on overflow -/
def roundRat (p q : Nat) : Option Nat :=
  -- find e with 2^52 ≤ p/q / 2^e < 2^53, but not below the subnormal exponent -1074
  let lp := p.log2; let lq := q.log2
  let e0 : Int := (lp : Int) - (lq : Int) - 52
  let scaled (e : Int) : Nat × Nat := if e ≥ 0 then (p, q * 2 ^ e.toNat) else (p * 2 ^ (-e).toNat, q)
  let pick (e : Int) : Int :=
    let (a, b) := scaled e
    if a / b ≥ 2 ^ 53 then e + 1 else if a / b < 2 ^ 52 then e - 1 else e
  let e1 := pick e0
  let e := if e1 < -1074 then -1074 else e1
  let (a, b) := scaled e
  let m := a / b
  let r := a % b
  let m' := if 2 * r > b || (2 * r == b && m % 2 == 1) then m + 1 else m
  -- renormalise after rounding up to 2^53
  let (m'', e') : Nat × Int := if m' == 2 ^ 53 then (2 ^ 52, e + 1) else (m', e)
  if m'' < 2 ^ 52 then some m''            -- subnormal (or zero): exponent field 0, e' = -1074
  else
    let ef := e' + 1075
    if ef ≥ 2047 then none else some (ef.toNat * 2 ^ 52 + (m'' - 2 ^ 52))

def parseFloatText (field : Bytes) : Option Nat :=
  let txt := (field.takeWhile (· != 0)).map (fun b => Char.ofNat b.toNat)
  if (field.dropWhile (· != 0)).any (· != 0) then none else
  let (neg, r) := match txt with
    | '-' :: r => (true, r)
    | '+' :: r => (false, r)
    | r => (false, r)
  let ip := r.takeWhile Char.isDigit
  let r1 := r.drop ip.length
  match r1 with
  | '.' :: r2 =>
    let fp := r2.takeWhile Char.isDigit
    let r3 := r2.drop fp.length
    match r3 with
    | 'e' :: r4 =>
      let (eneg, ed) := match r4 with
        | '-' :: d => (true, d)
        | '+' :: d => (false, d)
        | d => (false, d)
      match digitsVal (ip ++ fp), digitsVal ed, ip.isEmpty, fp.isEmpty with
      | some mant, some ex, false, false =>
        let dexp : Int := (if eneg then -(ex : Int) else ex) - fp.length
        let sign := if neg then 2 ^ 63 else 0
        if mant == 0 then some sign else
        let (p, q) : Nat × Nat := if dexp ≥ 0 then (mant * 10 ^ dexp.toNat, 1) else (mant, 10 ^ (-dexp).toNat)
        (roundRat p q).map (· + sign)
      | _, _, _, _ => none
    | _ => none
  | _ => none

def rdWords : Nat → Bytes → Option (List Nat × Bytes)
  | 0, bs => some ([], bs)
  | n+1, bs => match rdN 4 bs with
    | none => none
    | some (w, r) => match rdWords n r with
      | none => none
      | some (ws, r') => some (w :: ws, r')

def i32 (n : Nat) : Int := if n < 2 ^ 31 then n else (n : Int) - 2 ^ 32

mutual
/-- one term, without the version byte -/
def parse (env : Env) : Nat → Bytes → Option (Value × Bytes)
  | 0, _ => none
  | _, [] => none
  | fuel+1, tag :: bs =>
    match tag.toNat with
    | 97 => (rdN 1 bs).map fun (v, r) => (.int v, r)
    | 98 => (rdN 4 bs).map fun (v, r) => (.int (i32 v), r)
    | 110 => match rdN 1 bs with
      | some (n, r) => match rdN 1 r with
        | some (s, r1) => (takeN n r1).map fun (d, r2) => (.int (if s != 0 then -(leVal d : Int) else leVal d), r2)
        | none => none
      | none => none
    | 111 => match rdN 4 bs with
      | some (n, r) => match rdN 1 r with
        | some (s, r1) => (takeN n r1).map fun (d, r2) => (.int (if s != 0 then -(leVal d : Int) else leVal d), r2)
        | none => none
      | none => none
    | 70 => match rdN 8 bs with
      -- NaN and infinities are not Erlang floats
      | some (v, r) => if v / 2 ^ 52 % 2048 == 2047 then none else some (.float v, r)
      | none => none
    | 99 => match takeN 31 bs with
      | some (f, r) => (parseFloatText f).map fun b => (.float b, r)
      | none => none
    | 119 => match rdN 1 bs with
      | some (n, r) => match takeN n r with
        | some (a, r') => (utf8Decode a).map fun cps => (.atom cps, r')
        | none => none
      | none => none
    | 118 => match rdN 2 bs with
      | some (n, r) => match takeN n r with
        | some (a, r') => (utf8Decode a).map fun cps => (.atom cps, r')
        | none => none
      | none => none
    | 115 => match rdN 1 bs with
      | some (n, r) => (takeN n r).map fun (a, r') => (.atom (latin1 a), r')
      | none => none
    | 100 => match rdN 2 bs with
      | some (n, r) => (takeN n r).map fun (a, r') => (.atom (latin1 a), r')
      | none => none
    | 82 => match rdN 1 bs with
      | some (i, r) => match env.refs[i]? with
        | some a => some (.atom a, r)
        | none => none
      | none => none
    | 104 => match rdN 1 bs with
      | some (n, r) => (parseN env fuel n r).map fun (l, r') => (.tuple l, r')
      | none => none
    | 105 => match rdN 4 bs with
      | some (n, r) => (parseN env fuel n r).map fun (l, r') => (.tuple l, r')
      | none => none
    | 106 => some (.nil, bs)
    | 107 => match rdN 2 bs with
      | some (n, r) => (takeN n r).map fun (s, r') => (Value.mkList (s.map fun b => .int b.toNat) .nil, r')
      | none => none
    | 108 => match rdN 4 bs with
      | some (n, r) => match parseN env fuel n r with
        | some (l, r') => (parse env fuel r').map fun (t, r'') => (Value.mkList l t, r'')
        | none => none
      | none => none
    | 109 => match rdN 4 bs with
      | some (n, r) => (takeN n r).map fun (b, r') => (Value.mkBits b 8, r')
      | none => none
    | 77 => match rdN 4 bs with
      | some (n, r) => match rdN 1 r with
        | some (bits, r1) =>
          if bits == 0 || bits > 8 || (n == 0 && bits != 8) then none
          else (takeN n r1).map fun (b, r') => (Value.mkBits b bits, r')
        | none => none
      | none => none
    | 116 => match rdN 4 bs with
      | some (n, r) => (parseKV env fuel n r).map fun (m, r') => (.map m, r')
      | none => none
    | 88 => match parse env fuel bs with
      | some (.atom node, r) => match rdN 4 r with
        | some (id, r1) => match rdN 4 r1 with
          | some (serial, r2) => (rdN 4 r2).map fun (c, r3) => (.pid node id serial c, r3)
          | none => none
        | none => none
      | _ => none
    | 103 => match parse env fuel bs with
      | some (.atom node, r) => match rdN 4 r with
        | some (id, r1) => match rdN 4 r1 with
          | some (serial, r2) => (rdN 1 r2).map fun (c, r3) => (.pid node id serial c, r3)
          | none => none
        | none => none
      | _ => none
    | 120 => match parse env fuel bs with
      | some (.atom node, r) => match rdN 8 r with
        | some (id, r1) => (rdN 4 r1).map fun (c, r2) => (.port node id c, r2)
        | none => none
      | _ => none
    | 89 => match parse env fuel bs with
      | some (.atom node, r) => match rdN 4 r with
        | some (id, r1) => (rdN 4 r1).map fun (c, r2) => (.port node id c, r2)
        | none => none
      | _ => none
    | 102 => match parse env fuel bs with
      | some (.atom node, r) => match rdN 4 r with
        | some (id, r1) => (rdN 1 r1).map fun (c, r2) => (.port node id c, r2)
        | none => none
      | _ => none
    | 90 => match rdN 2 bs with
      | some (len, r0) => match parse env fuel r0 with
        | some (.atom node, r) => match rdN 4 r with
          | some (c, r1) => (rdWords len r1).map fun (ids, r2) => (.ref node c ids, r2)
          | none => none
        | _ => none
      | none => none
    | 114 => match rdN 2 bs with
      | some (len, r0) => match parse env fuel r0 with
        | some (.atom node, r) => match rdN 1 r with
          | some (c, r1) => (rdWords len r1).map fun (ids, r2) => (.ref node c ids, r2)
          | none => none
        | _ => none
      | none => none
    | 101 => match parse env fuel bs with
      | some (.atom node, r) => match rdN 4 r with
        | some (id, r1) => (rdN 1 r1).map fun (c, r2) => (.ref node c [id], r2)
        | none => none
      | _ => none
    | 113 => match parse env fuel bs with
      | some (.atom m, r) => match parse env fuel r with
        | some (.atom f, r1) => match parse env fuel r1 with
          | some (.int a, r2) => if 0 ≤ a ∧ a ≤ 255 then some (.xfun m f a.toNat, r2) else none
          | _ => none
        | _ => none
      | _ => none
    | 112 => match rdN 4 bs with
      | some (size, r0) =>
        -- `size` counts itself and everything up to the end of the free variables
        if size < 4 || size - 4 > r0.length then none else
        match rdN 1 r0 with
        | some (arity, r1) => match takeN 16 r1 with
          | some (uniq, r2) => match rdN 4 r2 with
            | some (index, r3) => match rdN 4 r3 with
              | some (nf, r4) => match parse env fuel r4 with
                | some (.atom m, r5) => match parse env fuel r5 with
                  | some (.int oi, r6) => match parse env fuel r6 with
                    | some (.int ou, r7) => match parse env fuel r7 with
                      | some (.pid n i s c, r8) => match parseN env fuel nf r8 with
                        | some (fr, r9) =>
                          if oi < 0 || ou < 0 || r0.length - r9.length != size - 4 then none
                          else some (.ifun arity uniq index nf m oi.toNat ou.toNat (.pid n i s c) fr, r9)
                        | none => none
                      | _ => none
                    | _ => none
                  | _ => none
                | _ => none
              | none => none
            | none => none
          | none => none
        | none => none
      | none => none
    | 121 => match rdN 8 bs with
      | some (_, r) => parse env fuel r
      | none => none
    | _ => none
def parseN (env : Env) : Nat → Nat → Bytes → Option (List Value × Bytes)
  | _, 0, bs => some ([], bs)
  | 0, _+1, _ => none
  | fuel+1, n+1, bs => match parse env fuel bs with
    | some (v, r) => (parseN env fuel n r).map fun (vs, r') => (v :: vs, r')
    | none => none
def parseKV (env : Env) : Nat → Nat → Bytes → Option (List (Value × Value) × Bytes)
  | _, 0, bs => some ([], bs)
  | 0, _+1, _ => none
  | fuel+1, n+1, bs => match parse env fuel bs with
    | some (k, r) => match parse env fuel r with
      | some (v, r') => (parseKV env fuel n r').map fun (m, r'') => ((k, v) :: m, r'')
      | none => none
    | none => none
end

/-- map keys must be distinct under exact equality -/
partial def keysDistinct : Value → Bool
  | .map kvs =>
    let ks := kvs.map (·.1)
    let rec nodup : List Value → Bool
      | [] => true
      | k :: r => !(r.any (Value.same k)) && nodup r
    nodup ks && kvs.all fun (k, v) => keysDistinct k && keysDistinct v
  | .tuple l => l.all keysDistinct
  | .cons l t => l.all keysDistinct && keysDistinct t
  | .ifun _ _ _ _ _ _ _ _ fr => fr.all keysDistinct
  | _ => true

/-- a complete external term: version byte, optionally a top-level compressed section, nothing after it -/
def parseTop (env : Env) (bs : Bytes) : Option (Value × Bytes) :=
  match bs with
  | 131 :: 80 :: r =>
    match rdN 4 r with
    | some (usize, z) =>
      match env.inflate z with
      | some (out, consumed) =>
        if out.length != usize then none else
        match parse env (out.length + 1) out with
        | some (v, []) => some (v, z.drop consumed)
        | _ => none
      | none => none
    | none => none
  | 131 :: r => parse env (r.length + 1) r
  | _ => none

end Edp.Spec
