//! Values of the external calls the decoder makes (flate2 inflate, `str::parse::<f64>`), computed with the real
//! libraries and handed to the Lean model as a table keyed by content (DESIGN §4 "External calls are parameters").
use crate::canon::hex;
use std::io::Read;

fn inflate(z: &[u8]) -> Option<(Vec<u8>, usize)> {
    let mut d = flate2::read::ZlibDecoder::new(z);
    let mut out = Vec::new();
    match (&mut d).take(1 << 22).read_to_end(&mut out) {
        Ok(_) => Some((out, d.total_in() as usize)),
        Err(_) => None,
    }
}

fn scan(bytes: &[u8], depth: u32, entries: &mut Vec<String>, budget: &mut usize) {
    for i in 0..bytes.len() {
        if *budget == 0 {
            return;
        }
        if bytes[i] == 99 && i + 32 <= bytes.len() {
            let field = &bytes[i + 1..i + 32];
            let v = std::str::from_utf8(field)
                .ok()
                .and_then(|s| s.trim_end_matches('\0').parse::<f64>().ok());
            // a field Rust's parser refuses needs no entry: the model reads a missing entry as a refusal, so bytes that merely
            // look like the tag (one in 256 of any noise) cost nothing
            if let Some(f) = v {
                entries.push(format!("f:{}:{}", hex(field), f.to_bits()));
                *budget -= 1;
            }
        }
        if bytes[i] == 80 && i + 5 <= bytes.len() {
            let z = &bytes[i + 5..];
            if let Some((out, consumed)) = inflate(z) {
                *budget -= 1;
                if out.len() <= 1 << 16 {
                    entries.push(format!("z:{}:{}:{}", if z.is_empty() { "-".into() } else { hex(z) }, if out.is_empty() { "-".into() } else { hex(&out) }, consumed));
                    if depth < 3 {
                        scan(&out, depth + 1, entries, budget);
                    }
                }
            }
        }
    }
}

/// `-` or the `;`-separated oracle table for this input. `None` when the table would be too large (case is skipped).
pub fn oracle_for(bytes: &[u8]) -> Option<String> {
    if !bytes.iter().any(|&b| b == 99 || b == 80) {
        return Some("-".to_string());
    }
    // the table is keyed by content, so its size is bounded by the number of entries (the budget), not by the input; the
    // cut-off only keeps request lines of a sane length (it was 4096 bytes until seeded change S63 showed that it removed
    // every large compressed term from the runs)
    if bytes.len() > 256 * 1024 {
        return None;
    }
    let mut entries = vec![];
    let mut budget = 64usize;
    scan(bytes, 0, &mut entries, &mut budget);
    if budget == 0 {
        return None;
    }
    entries.sort();
    entries.dedup();
    if entries.is_empty() {
        Some("-".to_string())
    } else {
        Some(entries.join(";"))
    }
}

/// The table for ONE top-level COMPRESSED term of any size (`131, 80, declared, zlib stream`): just that section's entry,
/// with no size limit and no scan of the inflated bytes (used for large payloads made of binaries and integers, whose
/// inflated form holds no nested compressed section or text float at a term position).
pub fn oracle_for_top_compressed(bytes: &[u8]) -> Option<String> {
    if bytes.len() < 6 || bytes[0] != 131 || bytes[1] != 80 {
        return None;
    }
    let z = &bytes[6..];
    let mut d = flate2::read::ZlibDecoder::new(z);
    let mut out = Vec::new();
    (&mut d).take(1 << 27).read_to_end(&mut out).ok()?;
    Some(format!("z:{}:{}:{}", if z.is_empty() { "-".into() } else { hex(z) }, if out.is_empty() { "-".into() } else { hex(&out) }, d.total_in()))
}
