//! C16 — token-passing scheduler over the verification hooks (NOT compiled: /repo has no `verif_hooks` yet).
//!
//! To enable, after notes/C16-hooks.patch has been applied to /repo:
//!   1. rename this file to `harness/src/c16_sched.rs`;
//!   2. add `mod c16_sched;` to `harness/src/main.rs` (shared file) or `#[path = "c16_sched.rs"] mod c16_sched;` to c16.rs;
//!   3. call `crate::c16_sched::run(ctx);` at the end of `c16::run`.
//! check.py already builds the harness with `RUSTFLAGS=--cfg edp_rs_verif` (DESIGN.md §5 step 3); the hook module is
//! compiled only under that cfg.
//!
//! What it does. Every worker thread runs the REAL `PidAllocator::allocate`; the process-global hook parks a worker at
//! every point (`alloc:lock`, `alloc:load_id`, `alloc:load_serial`, `alloc:store_id[_wrap]`, `alloc:fetch_add_serial`,
//! `alloc:load_creation`) until the controller hands it the token, so exactly one worker runs between two points and
//! the controller decides the interleaving. `lock_point` probes the mutex without blocking: a worker granted at
//! `alloc:lock` while another one holds the lock reports `alloc:lock:busy` instead of blocking in `lock()` — the model's
//! thread must be blocked at exactly these places (`B` token). All interleavings of 2 threads x 2 allocations and
//! 3 threads x 1 allocation are enumerated by stateless depth-first search (each schedule is a fresh run), from the
//! counter positions 1, MAX-1, MAX and serial 2^32-1; 4 threads are run with seeded random schedules. The executed step
//! trace of every run is replayed through the Lean small-step model (`c16trace`), which must produce the same
//! per-thread results and final counters (T line); uniqueness is checked on every run (X `c16-dup-pid`).
//!
//! Step tokens `<thread><code>`: `L` lock granted and acquired, `B` lock attempt found busy, `s` one atomic step,
//! `c` creation load + return (the guard is dropped at the return; there is no hook point in between).
//!
//! Tested against a scratch copy of /repo with the patch applied (see notes/C16.md).
use crate::Ctx;
use edp_client::{verif_hooks, PidAllocator};
use erltf::types::Atom;
use std::cell::Cell;
use std::panic::{catch_unwind, AssertUnwindSafe};
use std::sync::atomic::Ordering;
use std::sync::{Arc, Condvar, Mutex};

const MAXP: u32 = 1_048_576;

thread_local! { static TID: Cell<Option<usize>> = const { Cell::new(None) }; }

#[derive(Clone, PartialEq, Debug)]
enum Status {
    Running,
    Parked(String),
    Done,
}

struct Sched {
    status: Vec<Status>,
    grant: Option<usize>,
}

struct Shared {
    m: Mutex<Sched>,
    cv: Condvar,
    /// bumped (under `m`) at every state change; a waiter spins on it for a short while before it sleeps on the condition
    /// variable, because a futex wake-up costs 100-200 us on this kind of machine and a run has some twenty handoffs
    epoch: std::sync::atomic::AtomicU64,
}

impl Shared {
    fn changed(&self) {
        self.epoch.fetch_add(1, Ordering::SeqCst);
        self.cv.notify_all();
    }
    /// give up the lock until the state may have changed (spurious returns are fine: every caller re-checks its condition)
    fn wait<'a>(&'a self, g: std::sync::MutexGuard<'a, Sched>) -> std::sync::MutexGuard<'a, Sched> {
        let seen = self.epoch.load(Ordering::SeqCst);
        drop(g);
        for _ in 0..20_000 {
            if self.epoch.load(Ordering::SeqCst) != seen {
                return self.m.lock().unwrap_or_else(|e| e.into_inner());
            }
            std::hint::spin_loop();
        }
        let g = self.m.lock().unwrap_or_else(|e| e.into_inner());
        if self.epoch.load(Ordering::SeqCst) != seen {
            return g;
        }
        self.cv.wait_timeout(g, std::time::Duration::from_millis(2)).unwrap_or_else(|e| e.into_inner()).0
    }
}

static CURRENT: Mutex<Option<Arc<Shared>>> = Mutex::new(None);

/// the process-global hook: park until the controller grants this thread the token
fn hook(name: &str) {
    let Some(tid) = TID.with(|t| t.get()) else { return };
    let Some(sh) = CURRENT.lock().unwrap_or_else(|e| e.into_inner()).clone() else { return };
    let mut g = sh.m.lock().unwrap_or_else(|e| e.into_inner());
    g.status[tid] = Status::Parked(name.to_string());
    g.grant = None;
    sh.changed();
    while g.grant != Some(tid) {
        g = sh.wait(g);
    }
    g.status[tid] = Status::Running;
}

fn res_text(r: std::thread::Result<edp_client::Result<erltf::types::ExternalPid>>) -> String {
    match r {
        Ok(Ok(p)) => format!("{}.{}.{}", p.id, p.serial, p.creation),
        Ok(Err(_)) => "err".to_string(),
        Err(_) => "panic".to_string(),
    }
}

/// wait until no worker is running; returns a snapshot of the statuses
fn quiesce(sh: &Shared) -> Vec<Status> {
    let mut g = sh.m.lock().unwrap_or_else(|e| e.into_inner());
    while g.grant.is_some() || g.status.iter().any(|s| *s == Status::Running) {
        g = sh.wait(g);
    }
    g.status.clone()
}

fn grant(sh: &Shared, t: usize) {
    let mut g = sh.m.lock().unwrap_or_else(|e| e.into_inner());
    g.status[t] = Status::Running;
    g.grant = Some(t);
    sh.changed();
}

pub struct RunOut {
    pub tokens: Vec<String>,
    pub per_thread: Vec<Vec<String>>,
    pub final_id: u32,
    pub final_serial: u64,
    /// (index chosen, number of enabled workers) at every decision
    pub decisions: Vec<(usize, usize)>,
}

/// one controlled run: `counts[t]` allocations by worker `t`; `choose(k, n)` picks among `n` enabled workers at the
/// `k`-th decision
pub fn controlled_run(id0: u32, ser0: u64, cre: u32, counts: &[usize], choose: &mut dyn FnMut(usize, usize) -> usize) -> RunOut {
    let n = counts.len();
    let alloc = Arc::new(PidAllocator::new(Atom::new("c16@localhost"), cre));
    alloc.next_id_test_only().store(id0, Ordering::SeqCst);
    alloc.next_serial_test_only().store(ser0, Ordering::SeqCst);
    let sh = Arc::new(Shared { m: Mutex::new(Sched { status: vec![Status::Running; n], grant: None }), cv: Condvar::new(), epoch: std::sync::atomic::AtomicU64::new(0) });
    *CURRENT.lock().unwrap_or_else(|e| e.into_inner()) = Some(sh.clone());
    verif_hooks::set_hook(Some(Box::new(hook)));
    let mut handles = vec![];
    for t in 0..n {
        let a = alloc.clone();
        let sh = sh.clone();
        let k = counts[t];
        handles.push(std::thread::spawn(move || {
            TID.with(|c| c.set(Some(t)));
            let mut v = vec![];
            for _ in 0..k {
                v.push(res_text(catch_unwind(AssertUnwindSafe(|| a.allocate()))));
            }
            let mut g = sh.m.lock().unwrap_or_else(|e| e.into_inner());
            g.status[t] = Status::Done;
            g.grant = None;
            sh.changed();
            v
        }));
    }
    let mut tokens = vec![];
    let mut decisions = vec![];
    // a worker whose lock attempt found the mutex busy is not retried before some call has returned
    let mut cooling = vec![false; n];
    loop {
        let status = quiesce(&sh);
        if status.iter().all(|s| *s == Status::Done) {
            break;
        }
        let mut enabled: Vec<usize> = (0..n).filter(|&t| matches!(status[t], Status::Parked(_)) && !cooling[t]).collect();
        if enabled.is_empty() {
            // only cooling workers are left although nobody holds the lock any more
            cooling.iter_mut().for_each(|c| *c = false);
            enabled = (0..n).filter(|&t| matches!(status[t], Status::Parked(_))).collect();
        }
        let idx = choose(decisions.len(), enabled.len());
        decisions.push((idx, enabled.len()));
        let t = enabled[idx];
        let Status::Parked(point) = status[t].clone() else { unreachable!() };
        grant(&sh, t);
        let after = quiesce(&sh);
        match point.as_str() {
            "alloc:lock" => {
                if after[t] == Status::Parked("alloc:lock:busy".to_string()) {
                    tokens.push(format!("{}B", t));
                    cooling[t] = true;
                    // let it return to the `alloc:lock` point (no access to shared state happens)
                    grant(&sh, t);
                    quiesce(&sh);
                } else {
                    tokens.push(format!("{}L", t));
                }
            }
            "alloc:load_creation" => {
                tokens.push(format!("{}c", t));
                cooling.iter_mut().for_each(|c| *c = false);
            }
            _ => tokens.push(format!("{}s", t)),
        }
    }
    let per_thread: Vec<Vec<String>> = handles.into_iter().map(|h| h.join().unwrap()).collect();
    verif_hooks::set_hook(None);
    *CURRENT.lock().unwrap_or_else(|e| e.into_inner()) = None;
    RunOut {
        tokens,
        per_thread,
        final_id: alloc.next_id_test_only().load(Ordering::SeqCst),
        final_serial: alloc.next_serial_test_only().load(Ordering::SeqCst),
        decisions,
    }
}

fn emit(ctx: &mut Ctx, tag: &str, id0: u32, ser0: u64, cre: u32, counts: &[usize], out: &RunOut) {
    let per = out.per_thread.iter().map(|v| v.join(",")).collect::<Vec<_>>().join(";");
    let poisoned = out.per_thread.iter().flatten().any(|r| r == "panic");
    ctx.tie(
        tag,
        &format!("c16trace {} {} {} {} {}", id0, ser0, cre, counts.len(), out.tokens.join(",")),
        &format!("{} st={},{},{} lock=-", per, out.final_id, out.final_serial, if poisoned { 1 } else { 0 }),
    );
    let mut keys: Vec<String> = out
        .per_thread
        .iter()
        .flatten()
        .filter(|r| *r != "err" && *r != "panic")
        .map(|r| r.rsplitn(2, '.').nth(1).unwrap_or("").to_string())
        .collect();
    keys.sort();
    if keys.windows(2).any(|w| w[0] == w[1]) {
        ctx.fail("c16-dup-pid", &format!("schedule {} from id0={} ser0={} hands out an (id, serial) twice: {}", out.tokens.join(","), id0, ser0, per));
    }
    let oks: Vec<u64> = out
        .per_thread
        .iter()
        .flatten()
        .filter(|r| *r != "err" && *r != "panic")
        .filter_map(|r| {
            let mut it = r.split('.');
            Some((it.next()?.parse::<u64>().ok()? << 32) | it.next()?.parse::<u64>().ok()?)
        })
        .collect();
    if !poisoned && oks.len() == counts.iter().sum::<usize>() {
        crate::c16::window_check(ctx, &format!("schedule {} from id0={} ser0={}", out.tokens.join(","), id0, ser0), id0, ser0, &oks);
    }
    ctx.count("traces_validated");
    ctx.count("sched_runs");
    if out.tokens.iter().any(|t| t.ends_with('B')) {
        ctx.count("sched_runs_with_busy_probe");
    }
}

/// all schedules of the configuration, by stateless depth-first search over the decision sequence
fn exhaustive(ctx: &mut Ctx, id0: u32, ser0: u64, cre: u32, counts: &[usize], max_runs: usize) -> bool {
    let mut prefix: Vec<usize> = vec![];
    let mut runs = 0usize;
    loop {
        let p = prefix.clone();
        let out = controlled_run(id0, ser0, cre, counts, &mut |k, _n| if k < p.len() { p[k] } else { 0 });
        emit(ctx, "sched", id0, ser0, cre, counts, &out);
        runs += 1;
        // next schedule: increment the last decision that still has an untried alternative
        let mut d = out.decisions.clone();
        loop {
            match d.pop() {
                None => return true,
                Some((i, n)) if i + 1 < n => {
                    prefix = d.iter().map(|x| x.0).collect();
                    prefix.push(i + 1);
                    break;
                }
                Some(_) => {}
            }
        }
        if runs >= max_runs {
            ctx.count("sched_exhaustive_cut_short");
            return false;
        }
    }
}

pub fn run(ctx: &mut Ctx) {
    let starts: [(u32, u64); 5] = [(1, 0), (MAXP - 1, 0), (MAXP, 0), (MAXP - 1, 0xffff_ffff), (MAXP, 0xffff_ffff)];
    let cap = ctx.n(4000, 200_000);
    let mut complete = true;
    for (id0, ser0) in starts {
        complete &= exhaustive(ctx, id0, ser0, 1, &[2, 2], cap);
        complete &= exhaustive(ctx, id0, ser0, 1, &[1, 1, 1], cap);
    }
    if complete {
        ctx.add("exhaustive", 1);
    }
    // 4 threads, seeded random schedules
    let rounds = ctx.n(60, 2000);
    for _ in 0..rounds {
        let (id0, ser0) = starts[ctx.rng.below(starts.len() as u64) as usize];
        let counts: Vec<usize> = (0..4).map(|_| ctx.rng.range(1, 3) as usize).collect();
        let mut picks: Vec<u64> = (0..400).map(|_| ctx.rng.next()).collect();
        picks.reverse();
        let out = controlled_run(id0, ser0, 1, &counts, &mut |_k, n| (picks.pop().unwrap_or(0) % n as u64) as usize);
        emit(ctx, "sched4", id0, ser0, 1, &counts, &out);
    }
}
