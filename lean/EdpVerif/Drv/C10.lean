import EdpVerif.Drv.Common
namespace Edp.Drv

/-- driver requests of property C10 (stub: nothing handled yet) -/
def handleC10 : List String → Option String
  | _ => none

end Edp.Drv
