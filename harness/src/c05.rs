//! C05: framing is invariant under how the transport splits the byte stream.
//!
//! Runs the real `MessageFramer` / `MessageDeframer` (crates/edp_client/src/framing.rs) over a scripted
//! `AsyncRead` / `AsyncWrite`, and the second copy of the read loop
//! (`Connection::receive_message_from_read_half`) over a loopback socket with scripted segmentation.
//!
//! Lines:
//!   T  c05frame <h|d> <msg>                 ## ok <frame>
//!   T  c05write <h|d> <msg> <wscript>       ## <ok|err-writezero|err-io> <chunks> <flushes>
//!   T  c05read  <h|d> <events>              ## ok=<msg> ... err-<class>      (frames until the first error)
//!   T  c05rh    <ctl> <events>              ## ok=<payload> ... err-<class>  (second copy, loopback socket)
//!   P  c05split <h|d> <msgs> <events>       ## ok   (the script really is a clean split of the frames of <msgs>, and
//!                                                   the Lean statement of the property gives msgs ++ [eof] for it)
//!   X  split / writer / short / cap ...     the property evaluated on the implementation by the harness itself
use crate::canon::{hex, hexarg};
use crate::rng::Rng;
use crate::Ctx;
use edp_client::framing::{FrameMode, MessageDeframer, MessageFramer};
use std::collections::VecDeque;
use std::io;
use std::pin::Pin;
use std::task::{Context, Poll};
use tokio::io::{AsyncRead, AsyncWrite, AsyncWriteExt, ReadBuf};

const FRAMING_CAP: u64 = 256 * 1024 * 1024;
const CONN_CAP: u64 = 64 * 1024 * 1024;

// ---------------------------------------------------------------------------------------------------------
// scripted transport

#[derive(Clone, Debug, PartialEq)]
enum Ev {
    Chunk(Vec<u8>),
    Pending,
    Eof,
    Fail,
    /// `Pending` without a wake-up: the `tokio::time::timeout` around the read fires
    Stall,
}

fn evs_text(evs: &[Ev]) -> String {
    if evs.is_empty() {
        return "-".to_string();
    }
    evs.iter()
        .map(|e| match e {
            Ev::Chunk(b) => format!("c{}", hex(b)),
            Ev::Pending => "p".to_string(),
            Ev::Eof => "e".to_string(),
            Ev::Fail => "f".to_string(),
            Ev::Stall => "s".to_string(),
        })
        .collect::<Vec<_>>()
        .join(",")
}

/// an `AsyncRead` that replays a script: one event per `poll_read`
struct ScriptReader {
    evs: VecDeque<Ev>,
    polls: u64,
}

impl AsyncRead for ScriptReader {
    fn poll_read(mut self: Pin<&mut Self>, cx: &mut Context<'_>, buf: &mut ReadBuf<'_>) -> Poll<io::Result<()>> {
        self.polls += 1;
        match self.evs.pop_front() {
            None => Poll::Ready(Ok(())),
            Some(Ev::Eof) => Poll::Ready(Ok(())),
            Some(Ev::Fail) => Poll::Ready(Err(io::Error::new(io::ErrorKind::ConnectionReset, "scripted failure"))),
            Some(Ev::Pending) => {
                cx.waker().wake_by_ref();
                Poll::Pending
            }
            Some(Ev::Stall) => {
                // stays in place until the caller's timeout has fired and the caller removed it
                // (tokio's `Timeout` polls the inner future once more before it looks at the deadline)
                self.evs.push_front(Ev::Stall);
                Poll::Pending
            }
            Some(Ev::Chunk(bs)) => {
                let n = bs.len().min(buf.remaining());
                buf.put_slice(&bs[..n]);
                if n < bs.len() {
                    self.evs.push_front(Ev::Chunk(bs[n..].to_vec()));
                }
                Poll::Ready(Ok(()))
            }
        }
    }
}

#[derive(Clone, Debug, PartialEq)]
enum WEv {
    Accept(usize),
    Pending,
    Fail,
    /// `Pending` without a wake-up: the `tokio::time::timeout` around the write fires
    Stall,
}

/// what successive `poll_flush` calls do (an exhausted script completes)
#[derive(Clone, Debug, PartialEq)]
enum FEv {
    Done,
    Pending,
    Fail,
    Stall,
}

fn fevs_text(s: &[FEv]) -> String {
    if s.is_empty() {
        return "-".to_string();
    }
    s.iter()
        .map(|e| match e {
            FEv::Done => "d",
            FEv::Pending => "p",
            FEv::Fail => "f",
            FEv::Stall => "s",
        })
        .collect::<Vec<_>>()
        .join(",")
}

fn wevs_text(s: &[WEv]) -> String {
    if s.is_empty() {
        return "-".to_string();
    }
    s.iter()
        .map(|e| match e {
            WEv::Accept(k) => format!("a{}", k),
            WEv::Pending => "p".to_string(),
            WEv::Fail => "f".to_string(),
            WEv::Stall => "s".to_string(),
        })
        .collect::<Vec<_>>()
        .join(",")
}

/// an `AsyncWrite` that records what it accepted; an exhausted script accepts everything.
/// `flushes` counts the `poll_flush` calls that completed.
struct ScriptWriter {
    script: VecDeque<WEv>,
    fscript: VecDeque<FEv>,
    chunks: Vec<Vec<u8>>,
    flushes: u64,
    /// where the last stall happened: 1 = in `poll_write`, 2 = in `poll_flush`
    stalled: u8,
}

impl AsyncWrite for ScriptWriter {
    fn poll_write(mut self: Pin<&mut Self>, cx: &mut Context<'_>, buf: &[u8]) -> Poll<io::Result<usize>> {
        match self.script.pop_front() {
            None => {
                self.chunks.push(buf.to_vec());
                Poll::Ready(Ok(buf.len()))
            }
            Some(WEv::Accept(k)) => {
                let n = k.min(buf.len());
                if n > 0 {
                    self.chunks.push(buf[..n].to_vec());
                }
                Poll::Ready(Ok(n))
            }
            Some(WEv::Pending) => {
                cx.waker().wake_by_ref();
                Poll::Pending
            }
            Some(WEv::Fail) => Poll::Ready(Err(io::Error::new(io::ErrorKind::BrokenPipe, "scripted failure"))),
            Some(WEv::Stall) => {
                // stays in place until the caller's timeout has fired and the caller removed it
                self.script.push_front(WEv::Stall);
                self.stalled = 1;
                Poll::Pending
            }
        }
    }
    fn poll_flush(mut self: Pin<&mut Self>, cx: &mut Context<'_>) -> Poll<io::Result<()>> {
        match self.fscript.pop_front() {
            None | Some(FEv::Done) => {
                self.flushes += 1;
                Poll::Ready(Ok(()))
            }
            Some(FEv::Pending) => {
                cx.waker().wake_by_ref();
                Poll::Pending
            }
            Some(FEv::Fail) => Poll::Ready(Err(io::Error::new(io::ErrorKind::BrokenPipe, "scripted flush failure"))),
            Some(FEv::Stall) => {
                self.fscript.push_front(FEv::Stall);
                self.stalled = 2;
                Poll::Pending
            }
        }
    }
    fn poll_shutdown(self: Pin<&mut Self>, _cx: &mut Context<'_>) -> Poll<io::Result<()>> {
        Poll::Ready(Ok(()))
    }
}

// ---------------------------------------------------------------------------------------------------------
// running the implementation

fn mode_of(c: char) -> FrameMode {
    if c == 'h' { FrameMode::Handshake } else { FrameMode::Distribution }
}

fn prefix_size(c: char) -> usize {
    if c == 'h' { 2 } else { 4 }
}

fn io_class(e: &io::Error) -> String {
    match e.kind() {
        io::ErrorKind::UnexpectedEof => "err-eof".to_string(),
        io::ErrorKind::InvalidData => {
            // "Message too large: {} bytes (max: {})"
            let s = e.to_string();
            let nums: Vec<String> = s
                .split(|c: char| !c.is_ascii_digit())
                .filter(|x| !x.is_empty())
                .map(|x| x.to_string())
                .collect();
            if s.starts_with("Message too large") && nums.len() == 2 {
                format!("err-toolarge:{}:{}", nums[0], nums[1])
            } else {
                "err-invalid".to_string()
            }
        }
        io::ErrorKind::WriteZero => "err-writezero".to_string(),
        _ => "err-io".to_string(),
    }
}

/// `read_framed` repeatedly until the first error. Returns the result tokens and the number of polls.
fn run_read(rt: &tokio::runtime::Runtime, m: char, evs: &[Ev]) -> (Vec<String>, u64) {
    let bound = evs.len() + evs.iter().map(|e| if let Ev::Chunk(b) = e { b.len() } else { 0 }).sum::<usize>() + 2;
    let evs: VecDeque<Ev> = evs.iter().cloned().collect();
    let r = std::panic::catch_unwind(std::panic::AssertUnwindSafe(|| {
        rt.block_on(async move {
            let mut reader = ScriptReader { evs, polls: 0 };
            let d = MessageDeframer::new(mode_of(m));
            let mut out = Vec::new();
            for _ in 0..bound {
                match d.read_framed(&mut reader).await {
                    Ok(b) => out.push(format!("ok={}", hexarg(&b))),
                    Err(e) => {
                        out.push(io_class(&e));
                        return (out, reader.polls);
                    }
                }
            }
            out.push("no-termination".to_string());
            (out, reader.polls)
        })
    }));
    match r {
        Ok(x) => x,
        Err(_) => (vec!["panic".to_string()], 0),
    }
}

/// the call `FramedTransport::read` makes — `timeout(d, deframer.read_framed(stream))` — repeated by a caller that treats
/// `Timeout` as recoverable; the clock of `rt` is paused, so a `Stall` lets the timeout fire at once
fn run_read_retry(rt: &tokio::runtime::Runtime, m: char, evs: &[Ev]) -> Vec<String> {
    let bound = evs.len() + evs.iter().map(|e| if let Ev::Chunk(b) = e { b.len() } else { 0 }).sum::<usize>() + 2;
    let evs: VecDeque<Ev> = evs.iter().cloned().collect();
    let r = std::panic::catch_unwind(std::panic::AssertUnwindSafe(|| {
        rt.block_on(async move {
            let mut reader = ScriptReader { evs, polls: 0 };
            let d = MessageDeframer::new(mode_of(m));
            let mut out = Vec::new();
            for _ in 0..bound {
                match tokio::time::timeout(std::time::Duration::from_millis(50), d.read_framed(&mut reader)).await {
                    Err(_) => {
                        out.push("err-timeout".to_string());
                        if reader.evs.front() == Some(&Ev::Stall) {
                            reader.evs.pop_front();
                        } else {
                            out.push("timeout-without-stall".to_string());
                            return out;
                        }
                    }
                    Ok(Ok(b)) => out.push(format!("ok={}", hexarg(&b))),
                    Ok(Err(e)) => {
                        out.push(io_class(&e));
                        return out;
                    }
                }
            }
            out.push("no-termination".to_string());
            out
        })
    }));
    r.unwrap_or_else(|_| vec!["panic".to_string()])
}

fn run_write(rt: &tokio::runtime::Runtime, m: char, msg: &[u8], script: &[WEv]) -> (String, Vec<Vec<u8>>, u64) {
    let script: VecDeque<WEv> = script.iter().cloned().collect();
    let r = std::panic::catch_unwind(std::panic::AssertUnwindSafe(|| {
        rt.block_on(async move {
            let mut w = ScriptWriter { script, fscript: VecDeque::new(), chunks: vec![], flushes: 0, stalled: 0 };
            let f = MessageFramer::new(mode_of(m));
            let res = match f.write_framed(&mut w, msg).await {
                Ok(()) => "ok".to_string(),
                Err(e) => io_class(&e),
            };
            (res, w.chunks, w.flushes)
        })
    }));
    match r {
        Ok(x) => x,
        Err(_) => ("panic".to_string(), vec![], 0),
    }
}

fn frame_real(m: char, msg: &[u8]) -> Option<Vec<u8>> {
    let f = MessageFramer::new(mode_of(m));
    std::panic::catch_unwind(std::panic::AssertUnwindSafe(|| f.frame_message(msg))).ok()
}

/// the frame as the protocol defines it (independent of the implementation); only for messages that fit
fn frame_spec(m: char, msg: &[u8]) -> Vec<u8> {
    let mut v = Vec::with_capacity(msg.len() + 4);
    if m == 'h' {
        v.extend_from_slice(&(msg.len() as u16).to_be_bytes());
    } else {
        v.extend_from_slice(&(msg.len() as u32).to_be_bytes());
    }
    v.extend_from_slice(msg);
    v
}

fn fits(m: char, len: usize) -> bool {
    if m == 'h' { len < 65536 } else { (len as u64) < (1u64 << 32) }
}

// ---------------------------------------------------------------------------------------------------------
// generators

/// cut `stream` at the given sorted cut positions (0 < c < len) into chunk events
fn cut(stream: &[u8], cuts: &[usize]) -> Vec<Ev> {
    let mut out = Vec::new();
    let mut prev = 0;
    for &c in cuts.iter().chain(std::iter::once(&stream.len())) {
        if c > prev {
            out.push(Ev::Chunk(stream[prev..c].to_vec()));
            prev = c;
        }
    }
    out
}

/// every chunking of a stream of n bytes is a subset of the n-1 interior cut positions
fn cuts_of_mask(n: usize, mask: u64) -> Vec<usize> {
    (1..n).filter(|i| mask >> (i - 1) & 1 == 1).collect()
}

fn with_pendings(rng: &mut Rng, evs: Vec<Ev>, style: u64) -> Vec<Ev> {
    // style 0: none, 1: one Pending before every chunk, 2: random runs of Pending anywhere (also leading/trailing)
    match style {
        0 => evs,
        1 => {
            let mut out = Vec::new();
            for e in evs {
                out.push(Ev::Pending);
                out.push(e);
            }
            out
        }
        _ => {
            let mut out = Vec::new();
            for e in evs {
                while rng.chance(1, 3) {
                    out.push(Ev::Pending);
                }
                out.push(e);
            }
            while rng.chance(1, 3) {
                out.push(Ev::Pending);
            }
            out
        }
    }
}

fn msg_len(rng: &mut Rng, m: char) -> usize {
    match rng.below(20) {
        0 | 1 => 0,
        2 | 3 => 1,
        4 => 2,
        5 => 3,
        6 => 4,
        7 => 255,
        8 => 256,
        9 => 257,
        10 => rng.range(5, 40) as usize,
        11 => rng.range(100, 700) as usize,
        12 if m == 'd' && rng.chance(1, 3) => rng.range(2000, 9000) as usize,
        _ => rng.range(1, 24) as usize,
    }
}

fn msg_bytes(rng: &mut Rng, n: usize) -> Vec<u8> {
    // biased towards bytes that look like length prefixes
    match rng.below(4) {
        0 => vec![0u8; n],
        1 => (0..n).map(|_| *rng.pick(&[0u8, 0, 1, 2, 0xff])).collect(),
        _ => rng.bytes(n),
    }
}

/// random cut positions, biased to the frame boundaries and their neighbours
fn random_cuts(rng: &mut Rng, n: usize, boundaries: &[usize]) -> Vec<usize> {
    if n < 2 {
        return vec![];
    }
    let mut cuts = std::collections::BTreeSet::new();
    match rng.below(6) {
        0 => {} // one read returns everything
        1 => {
            // byte by byte (bounded)
            if n <= 600 {
                for i in 1..n {
                    cuts.insert(i);
                }
            } else {
                for _ in 0..300 {
                    cuts.insert(rng.range(1, n as u64 - 1) as usize);
                }
            }
        }
        2 => {
            // exactly at the frame boundaries (each read returns exactly one frame)
            for &b in boundaries {
                if b > 0 && b < n {
                    cuts.insert(b);
                }
            }
        }
        3 => {
            // everywhere except the frame boundaries: every read straddles
            for &b in boundaries {
                for d in [-1i64, 1] {
                    let c = b as i64 + d;
                    if c > 0 && (c as usize) < n && rng.chance(2, 3) {
                        cuts.insert(c as usize);
                    }
                }
            }
        }
        _ => {
            let k = rng.range(1, 12);
            for _ in 0..k {
                if rng.chance(1, 2) && !boundaries.is_empty() {
                    let b = *rng.pick(boundaries) as i64 + rng.range(0, 6) as i64 - 3;
                    if b > 0 && (b as usize) < n {
                        cuts.insert(b as usize);
                    }
                } else {
                    cuts.insert(rng.range(1, n as u64 - 1) as usize);
                }
            }
        }
    }
    cuts.into_iter().collect()
}

/// stream of the frames (protocol definition) plus the prefix/body boundaries inside it
fn stream_of(m: char, msgs: &[Vec<u8>]) -> (Vec<u8>, Vec<usize>) {
    let mut s = Vec::new();
    let mut b = Vec::new();
    for x in msgs {
        b.push(s.len());
        s.extend_from_slice(&frame_spec(m, x));
        b.push(s.len() - x.len());
    }
    b.push(s.len());
    (s, b)
}

fn msgs_text(msgs: &[Vec<u8>]) -> String {
    if msgs.is_empty() {
        return "-".to_string();
    }
    msgs.iter().map(|x| format!("m{}", hex(x))).collect::<Vec<_>>().join(",")
}

// ---------------------------------------------------------------------------------------------------------
// checks

/// T line for a read script, and the property itself when `msgs` is given (the script is a clean split of their frames)
fn read_case(ctx: &mut Ctx, rt: &tokio::runtime::Runtime, tag: &str, m: char, evs: &[Ev], msgs: Option<&[Vec<u8>]>, pline: bool) {
    let (res, polls) = run_read(rt, m, evs);
    ctx.add("read_polls", polls);
    ctx.count(&format!("read_end_{}", res.last().map(|s| s.split(':').next().unwrap_or("")).unwrap_or("none")));
    let et = evs_text(evs);
    ctx.tie(tag, &format!("c05read {} {}", m, et), &res.join(" "));
    if let Some(msgs) = msgs {
        let mut want: Vec<String> = msgs.iter().map(|x| format!("ok={}", hexarg(x))).collect();
        want.push("err-eof".to_string());
        if res != want {
            ctx.fail(
                "split",
                &format!("mode={} msgs={} events={} got={}", m, msgs_text(msgs), et, res.join(" ")),
            );
        }
        ctx.count("split_checked");
        if pline {
            ctx.prop(tag, &format!("c05split {} {} {}", m, msgs_text(msgs), et), "ok");
        }
    }
}

fn write_case(ctx: &mut Ctx, rt: &tokio::runtime::Runtime, tag: &str, m: char, msg: &[u8], script: &[WEv]) {
    let (res, chunks, flushes) = run_write(rt, m, msg, script);
    let ct = if chunks.is_empty() { "-".to_string() } else { chunks.iter().map(|c| hex(c)).collect::<Vec<_>>().join(",") };
    ctx.tie(tag, &format!("c05write {} {} {}", m, hexarg(msg), wevs_text(script)), &format!("{} {} {}", res, ct, flushes));
    ctx.count(&format!("write_{}", res));
    // property: what the streaming writer put on the wire is the one-shot frame (a prefix of it when the sink failed)
    let wire: Vec<u8> = chunks.concat();
    match frame_real(m, msg) {
        None => ctx.fail("writer", &format!("frame_message panicked mode={} len={}", m, msg.len())),
        Some(one) => {
            let good = if res == "ok" { wire == one && flushes == 1 } else { one.starts_with(&wire) && wire.len() < one.len() };
            if !good {
                ctx.fail(
                    "writer",
                    &format!("mode={} msg={} script={} res={} wire={} oneshot={}", m, hexarg(msg), wevs_text(script), res, hex(&wire), hex(&one)),
                );
            }
            ctx.count("writer_checked");
        }
    }
}

fn frame_case(ctx: &mut Ctx, tag: &str, m: char, msg: &[u8]) {
    let r = match frame_real(m, msg) {
        Some(f) => {
            if fits(m, msg.len()) && f != frame_spec(m, msg) {
                ctx.fail("frame", &format!("mode={} msg={} frame={}", m, hexarg(msg), hex(&f)));
            }
            format!("ok {}", hex(&f))
        }
        None => "panic".to_string(),
    };
    ctx.tie(tag, &format!("c05frame {} {}", m, hexarg(msg)), &r);
}

fn random_wscript(rng: &mut Rng, total: usize) -> Vec<WEv> {
    let mut s = Vec::new();
    let n = rng.below(8);
    for _ in 0..n {
        s.push(match rng.below(12) {
            0 => WEv::Pending,
            1 => WEv::Pending,
            2 => WEv::Accept(0),
            3 => WEv::Fail,
            4 => WEv::Accept(1),
            5 => WEv::Accept(2),
            6 => WEv::Accept(3),
            7 => WEv::Accept(4),
            8 => WEv::Accept(total + 5),
            _ => WEv::Accept(rng.range(1, total as u64 + 2) as usize),
        });
    }
    s
}

// ---------------------------------------------------------------------------------------------------------

fn exhaustive(ctx: &mut Ctx, rt: &tokio::runtime::Runtime) {
    // message lists whose stream is short enough to try every chunking (2^(n-1) of them)
    let quick: Vec<(char, Vec<Vec<u8>>)> = vec![
        ('h', vec![vec![0xaa, 0xbb], vec![], vec![1, 2, 3]]),    // 4 + 2 + 5 = 11 bytes
        ('h', vec![vec![], vec![0, 0], vec![0]]),                // 2 + 4 + 3 = 9, zero bytes that look like ticks
        ('d', vec![vec![7], vec![]]),                            // 5 + 4 = 9
        ('d', vec![vec![0, 0], vec![9]]),                        // 6 + 5 = 11
        ('d', vec![vec![0, 0, 0, 1, 5, 0, 0, 0]]),               // 12: a body that looks like frames
    ];
    let thorough: Vec<(char, Vec<Vec<u8>>)> = vec![
        ('h', vec![vec![1], vec![], vec![2, 3], vec![], vec![4, 5, 6]]), // 3+2+4+2+5 = 16
        ('d', vec![vec![1], vec![], vec![2, 3]]),                         // 5+4+6 = 15
        ('d', vec![vec![], vec![], vec![]]),                              // 12: only ticks
    ];
    let mut lists = quick;
    if ctx.thorough {
        lists.extend(thorough);
    }
    for (m, msgs) in lists {
        let (stream, _) = stream_of(m, &msgs);
        let n = stream.len();
        for mask in 0..(1u64 << (n - 1)) {
            let evs = cut(&stream, &cuts_of_mask(n, mask));
            // Pending before every chunk on odd masks, none on even ones: both styles see every chunking
            // of the streams up to 10 bytes; above that the styles alternate to keep the file small
            if n <= 10 {
                read_case(ctx, rt, "exh", m, &evs, Some(&msgs), mask % 16 == 0);
                let evp = with_pendings(&mut ctx.rng, evs, 1);
                read_case(ctx, rt, "exh", m, &evp, Some(&msgs), false);
            } else {
                let evs = with_pendings(&mut ctx.rng, evs, mask % 2);
                read_case(ctx, rt, "exh", m, &evs, Some(&msgs), mask % 64 == 0);
            }
            ctx.count("exhaustive_chunkings");
        }
        // every truncation point of the stream x a few chunkings: never a short message
        for keep in 0..n {
            for _ in 0..4 {
                let mask = ctx.rng.next();
                let mut evs = cut(&stream[..keep], &cuts_of_mask(keep.max(1), mask & ((1u64 << keep.max(1).saturating_sub(1)) - 1)));
                let style = ctx.rng.below(3);
                evs = with_pendings(&mut ctx.rng, evs, style);
                if ctx.rng.chance(1, 2) {
                    evs.push(Ev::Eof);
                }
                truncated_case(ctx, rt, "trunc", m, &msgs, keep, &evs);
            }
        }
    }
    ctx.add("exhaustive", 1);
}

/// the stream of `msgs` cut off after `keep` bytes: the complete frames come out, then an error, never a short message
fn truncated_case(ctx: &mut Ctx, rt: &tokio::runtime::Runtime, tag: &str, m: char, msgs: &[Vec<u8>], keep: usize, evs: &[Ev]) {
    let (res, _) = run_read(rt, m, evs);
    ctx.tie(tag, &format!("c05read {} {}", m, evs_text(evs)), &res.join(" "));
    let mut want = Vec::new();
    let mut pos = 0;
    for x in msgs {
        pos += prefix_size(m) + x.len();
        if pos <= keep {
            want.push(format!("ok={}", hexarg(x)));
        }
    }
    want.push("err-eof".to_string());
    if res != want {
        ctx.fail("short", &format!("mode={} msgs={} keep={} events={} got={}", m, msgs_text(msgs), keep, evs_text(evs), res.join(" ")));
    }
    ctx.count("truncated_checked");
}

fn random_streams(ctx: &mut Ctx, rt: &tokio::runtime::Runtime) {
    let n = ctx.n(700, 5000);
    for i in 0..n {
        let m = if ctx.rng.chance(1, 2) { 'h' } else { 'd' };
        let k = ctx.rng.range(0, 6) as usize;
        let mut msgs = Vec::new();
        for _ in 0..k {
            let l = msg_len(&mut ctx.rng, m);
            msgs.push(msg_bytes(&mut ctx.rng, l));
        }
        ctx.add("random_msgs", k as u64);
        for x in &msgs {
            ctx.count(if x.is_empty() { "msg_len_0" } else if x.len() == 1 { "msg_len_1" } else if x.len() < 256 { "msg_len_lt256" } else { "msg_len_ge256" });
        }
        let (stream, bounds) = stream_of(m, &msgs);
        let cuts = random_cuts(&mut ctx.rng, stream.len(), &bounds);
        ctx.add("random_cuts", cuts.len() as u64);
        let evs = cut(&stream, &cuts);
        let style = ctx.rng.below(3);
        let evs = with_pendings(&mut ctx.rng, evs, style);
        match ctx.rng.below(10) {
            0..=5 => {
                // clean split: the property
                read_case(ctx, rt, "gen", m, &evs, Some(&msgs), i % 4 == 0 && stream.len() < 600);
            }
            6 => {
                // cut off somewhere
                if !stream.is_empty() {
                    let keep = ctx.rng.below(stream.len() as u64) as usize;
                    let c2: Vec<usize> = cuts.iter().cloned().filter(|&c| c < keep).collect();
                    let mut e2 = cut(&stream[..keep], &c2);
                    if ctx.rng.chance(1, 2) {
                        e2.push(Ev::Eof);
                        // whatever follows a 0-byte read is not looked at by the failing call
                        if ctx.rng.chance(1, 2) {
                            e2.push(Ev::Chunk(stream[keep..].to_vec()));
                        }
                    }
                    truncated_case(ctx, rt, "trunc", m, &msgs, keep, &e2);
                }
            }
            _ => {
                // dirty scripts: eof / failure / empty chunk / garbage anywhere (model-vs-code only)
                let mut e2 = evs.clone();
                let edits = ctx.rng.range(1, 3);
                for _ in 0..edits {
                    let at = ctx.rng.below(e2.len() as u64 + 1) as usize;
                    let ev = match ctx.rng.below(5) {
                        0 => Ev::Eof,
                        1 => Ev::Fail,
                        2 => Ev::Chunk(vec![]),
                        3 => Ev::Pending,
                        _ => {
                            let l = ctx.rng.range(1, 6) as usize;
                            Ev::Chunk(msg_bytes(&mut ctx.rng, l))
                        }
                    };
                    e2.insert(at, ev);
                }
                // garbage lengths above 256 MiB would make the reader wait for more than the script has: fine, it ends in eof
                read_case(ctx, rt, "dirty", m, &e2, None, false);
                ctx.count("dirty_scripts");
            }
        }
    }
}

fn boundaries(ctx: &mut Ctx, rt: &tokio::runtime::Runtime) {
    // message lengths 0, 1, 2^16-1, 2^16 and their neighbours, both modes, a handful of cuttings each
    let mut lens: Vec<usize> = vec![0, 1, 2, 254, 255, 256, 65535, 65536];
    if ctx.thorough {
        lens.extend([65534, 65537]);
    }
    for m in ['h', 'd'] {
        for &l in &lens {
            let msg: Vec<u8> = if l > 1000 { (0..l).map(|i| (i * 7 + l) as u8).collect() } else { ctx.rng.bytes(l) };
            ctx.count(&format!("boundary_len_{}", l));
            if l <= 300 {
                frame_case(ctx, "bound", m, &msg);
            } else {
                // big frames: the T line is the write (chunks are the frame), not a second copy of 128 KiB of hex
                let f = frame_real(m, &msg).unwrap_or_default();
                let exp: Vec<u8> = if m == 'h' { (l as u16).to_be_bytes().to_vec() } else { (l as u32).to_be_bytes().to_vec() };
                if f.len() != prefix_size(m) + l || f[..prefix_size(m)] != exp[..] || f[prefix_size(m)..] != msg[..] {
                    ctx.fail("frame", &format!("mode={} len={} prefix={}", m, l, hex(&f[..prefix_size(m).min(f.len())])));
                }
            }
            write_case(ctx, rt, "bound", m, &msg, &[]);
            if !fits(m, l) {
                // `data.len() as u16` wraps: outside the property (messages must fit), model-vs-code only
                ctx.count("unfit_messages");
                let f = frame_real(m, &msg).unwrap_or_default();
                let evs = cut(&f, &[1, 2, 3]);
                read_case(ctx, rt, "unfit", m, &evs, None, false);
                continue;
            }
            let msgs = vec![msg.clone(), vec![], vec![1]];
            let (stream, bounds) = stream_of(m, &msgs);
            let reps = if l > 1000 { 1 } else { 4 };
            for r in 0..reps {
                let cuts = if r == 0 && l <= 1000 { vec![] } else { random_cuts(&mut ctx.rng, stream.len(), &bounds) };
                let evs = cut(&stream, &cuts);
                let style = ctx.rng.below(3);
                let evs = with_pendings(&mut ctx.rng, evs, style);
                read_case(ctx, rt, "bound", m, &evs, Some(&msgs), l <= 300);
            }
            // one byte short
            if l > 0 {
                let keep = prefix_size(m) + l - 1;
                let evs = cut(&stream[..keep], &[prefix_size(m)]);
                truncated_case(ctx, rt, "bound", m, &msgs, keep, &evs);
            }
        }
    }
    // around the cap (distribution mode only; 2-byte lengths cannot reach it). The body is never sent.
    let cap = FRAMING_CAP;
    for declared in [cap - 1, cap, cap + 1, cap + 2, 0x7fff_ffff, 0x8000_0000, 0xffff_fffe, 0xffff_ffff] {
        for variant in 0..3 {
            let pre = (declared as u32).to_be_bytes().to_vec();
            let mut stream = pre.clone();
            stream.extend_from_slice(&[0xee; 5]); // a few body bytes, far fewer than declared
            let cuts: Vec<usize> = match variant {
                0 => vec![],
                1 => vec![1, 2, 3, 4],
                _ => vec![3, 6],
            };
            let evs = with_pendings(&mut ctx.rng, cut(&stream, &cuts), variant as u64 % 2);
            let (res, _) = run_read(rt, 'd', &evs);
            ctx.tie("cap", &format!("c05read d {}", evs_text(&evs)), &res.join(" "));
            let want = if declared > cap { format!("err-toolarge:{}:{}", declared, cap) } else { "err-eof".to_string() };
            if res != vec![want.clone()] {
                ctx.fail("cap", &format!("declared={} events={} got={} want={}", declared, evs_text(&evs), res.join(" "), want));
            }
            ctx.count(if declared > cap { "over_cap_cases" } else { "at_cap_cases" });
        }
    }
    // a good frame, then an over-cap one: the good one is delivered first
    let mut stream = frame_spec('d', &[1, 2, 3]);
    stream.extend_from_slice(&((cap + 1) as u32).to_be_bytes());
    let evs = cut(&stream, &[2, 9]);
    read_case(ctx, rt, "cap", 'd', &evs, None, false);
}

fn writers(ctx: &mut Ctx, rt: &tokio::runtime::Runtime) {
    let n = ctx.n(500, 4000);
    for _ in 0..n {
        let m = if ctx.rng.chance(1, 2) { 'h' } else { 'd' };
        let l = match ctx.rng.below(6) {
            0 => 0,
            1 => 1,
            _ => ctx.rng.range(0, 40) as usize,
        };
        let msg = msg_bytes(&mut ctx.rng, l);
        frame_case(ctx, "gen", m, &msg);
        let script = if ctx.rng.chance(1, 4) { vec![] } else { random_wscript(&mut ctx.rng, l + 4) };
        write_case(ctx, rt, "gen", m, &msg, &script);
    }
    // every way a sink can take a 7-byte frame in pieces (exhaustive over the compositions of 7 = 2+5 and 4+3)
    for (m, msg) in [('h', vec![1u8, 2, 3, 4, 5]), ('d', vec![9u8, 8, 7])] {
        for mask in 0..64u64 {
            // acceptance sizes: cut positions of the 7 bytes; the prefix and the body are separate buffers, so a quota
            // never spans both: split the quotas at the prefix boundary
            let p = prefix_size(m);
            let cuts = cuts_of_mask(7, mask);
            let mut script = Vec::new();
            let mut prev = 0;
            for c in cuts.iter().cloned().chain(std::iter::once(7)) {
                if prev < p && c > p {
                    script.push(WEv::Accept(p - prev));
                    script.push(WEv::Accept(c - p));
                } else {
                    script.push(WEv::Accept(c - prev));
                }
                prev = c;
            }
            write_case(ctx, rt, "exhw", m, &msg, &script);
        }
    }
}

// ---------------------------------------------------------------------------------------------------------
// the second copy of the read loop, over a loopback socket

/// control term `{2, '', x}` (SEND) written by hand: 131, SMALL_TUPLE 3, SMALL_INT 2, SMALL_ATOM_UTF8 "", SMALL_ATOM_UTF8 "x"
const CTL: [u8; 10] = [131, 104, 3, 97, 2, 119, 0, 119, 1, b'x'];

fn rh_body(payload: &[u8]) -> Vec<u8> {
    let mut b = vec![112u8];
    b.extend_from_slice(&CTL);
    b.extend_from_slice(&[131, 109]);
    b.extend_from_slice(&(payload.len() as u32).to_be_bytes());
    b.extend_from_slice(payload);
    b
}

fn rh_class(e: &edp_client::Error) -> String {
    use edp_client::Error as E;
    match e {
        E::Io(e) => io_class(e),
        E::Timeout(_) => "err-timeout".to_string(),
        E::MessageTooLarge { size, max } => format!("err-toolarge:{}:{}", size, max),
        E::Protocol(_) => "err-protocol".to_string(),
        E::InvalidStateMessage(_) => "err-empty".to_string(),
        E::Decode(_) | E::ContextualDecode(_) => "err-decode".to_string(),
        _ => "err-other".to_string(),
    }
}

/// Sends the script over a real loopback connection (one write + flush per chunk, yields in between, shutdown at the
/// end or at the first `Eof`) while the real function reads on the other side until its first error.
fn run_rh(rt: &tokio::runtime::Runtime, evs: &[Ev]) -> Option<Vec<String>> {
    let evs: Vec<Ev> = evs.to_vec();
    let r = std::panic::catch_unwind(std::panic::AssertUnwindSafe(|| {
        rt.block_on(async move {
            let listener = tokio::net::TcpListener::bind("127.0.0.1:0").await.ok()?;
            let addr = listener.local_addr().ok()?;
            let (client, server) = tokio::join!(tokio::net::TcpStream::connect(addr), listener.accept());
            let client = client.ok()?;
            let (mut server, _) = server.ok()?;
            server.set_nodelay(true).ok()?;
            let (mut rh, _wh) = client.into_split();
            let writer = async move {
                for e in evs {
                    match e {
                        Ev::Chunk(b) => {
                            if server.write_all(&b).await.is_err() {
                                break;
                            }
                            let _ = server.flush().await;
                            for _ in 0..3 {
                                tokio::task::yield_now().await;
                            }
                        }
                        Ev::Pending => {
                            for _ in 0..3 {
                                tokio::task::yield_now().await;
                            }
                        }
                        Ev::Eof | Ev::Fail | Ev::Stall => break,
                    }
                }
                let _ = server.shutdown().await;
                // keep the socket until the reader is done (dropping it is also fine after shutdown)
                server
            };
            let reader = async {
                let mut out = Vec::new();
                for _ in 0..10_000 {
                    match edp_client::Connection::receive_message_from_read_half(&mut rh, std::time::Duration::from_secs(20)).await {
                        Ok((edp_client::control::ControlMessage::Send { .. }, Some(erltf::OwnedTerm::Binary(b)))) => {
                            out.push(format!("ok={}", hexarg(&b)))
                        }
                        Ok(_) => out.push("ok-other".to_string()),
                        Err(e) => {
                            out.push(rh_class(&e));
                            return out;
                        }
                    }
                }
                out.push("no-termination".to_string());
                out
            };
            let (_s, out) = tokio::join!(writer, reader);
            Some(out)
        })
    }));
    match r {
        Ok(x) => x,
        Err(_) => Some(vec!["panic".to_string()]),
    }
}

fn second_copy(ctx: &mut Ctx, rt: &tokio::runtime::Runtime) {
    // is there a loopback interface at all?
    if run_rh(rt, &[]).is_none() {
        ctx.count("rh_skipped_no_loopback");
        return;
    }
    let n = ctx.n(150, 1500);
    for i in 0..n {
        // bodies: payload messages and ticks (zero length, skipped by the loop)
        let k = ctx.rng.range(0, 5) as usize;
        let mut frames: Vec<Option<Vec<u8>>> = Vec::new(); // None = tick
        for _ in 0..k {
            if ctx.rng.chance(1, 3) {
                frames.push(None);
            } else {
                let l = match ctx.rng.below(6) {
                    0 => 0,
                    1 => 1,
                    2 => ctx.rng.range(200, 3000) as usize,
                    _ => ctx.rng.range(0, 30) as usize,
                };
                frames.push(Some(msg_bytes(&mut ctx.rng, l)));
            }
        }
        let bodies: Vec<Vec<u8>> = frames.iter().map(|f| f.as_ref().map(|p| rh_body(p)).unwrap_or_default()).collect();
        let (mut stream, bounds) = stream_of('d', &bodies);
        let kind = ctx.rng.below(10);
        let mut want: Vec<String> = frames.iter().flatten().map(|p| format!("ok={}", hexarg(p))).collect();
        match kind {
            0 => {
                // over the cap of this copy (64 MiB), body never sent
                let declared = *ctx.rng.pick(&[CONN_CAP + 1, CONN_CAP + 2, FRAMING_CAP, 0xffff_ffff]);
                stream.extend_from_slice(&(declared as u32).to_be_bytes());
                want.push(format!("err-toolarge:{}:{}", declared, CONN_CAP));
            }
            1 => {
                // exactly at the cap / below: accepted, then the stream ends inside the body
                let declared = *ctx.rng.pick(&[CONN_CAP, CONN_CAP - 1]);
                stream.extend_from_slice(&(declared as u32).to_be_bytes());
                stream.extend_from_slice(&[112, 1, 2]);
                want.push("err-eof".to_string());
            }
            2 => {
                // wrong marker
                let mut b = rh_body(&[1, 2, 3]);
                b[0] = *ctx.rng.pick(&[0u8, 111, 113, 131]);
                stream.extend_from_slice(&frame_spec('d', &b));
                want.push("err-protocol".to_string());
            }
            3 => {
                // cut off inside the last frame
                if !stream.is_empty() {
                    let keep = ctx.rng.below(stream.len() as u64) as usize;
                    stream.truncate(keep);
                    want.clear();
                    let mut pos = 0;
                    for (f, b) in frames.iter().zip(bodies.iter()) {
                        pos += 4 + b.len();
                        if pos <= keep {
                            if let Some(p) = f {
                                want.push(format!("ok={}", hexarg(p)));
                            }
                        }
                    }
                }
                want.push("err-eof".to_string());
            }
            _ => want.push("err-eof".to_string()),
        }
        let cuts = random_cuts(&mut ctx.rng, stream.len(), &bounds);
        let style = ctx.rng.below(3);
        let evs = with_pendings(&mut ctx.rng, cut(&stream, &cuts), style);
        let Some(res) = run_rh(rt, &evs) else {
            ctx.count("rh_socket_errors");
            continue;
        };
        ctx.count(&format!("rh_end_{}", res.last().map(|s| s.split(':').next().unwrap_or("")).unwrap_or("none")));
        ctx.tie("rh", &format!("c05rh {} {}", hex(&CTL), evs_text(&evs)), &res.join(" "));
        if res != want {
            ctx.fail("rh-split", &format!("events={} got={} want={}", evs_text(&evs), res.join(" "), want.join(" ")));
        }
        ctx.count("rh_checked");
        let _ = i;
    }
}

/// `FramedTransport` (transport.rs) is the deframer/framer pair over the two halves of a socket: one loopback round per mode
fn transport_loopback(ctx: &mut Ctx, rt: &tokio::runtime::Runtime) {
    use edp_client::transport::FramedTransport;
    let n = ctx.n(20, 200);
    for _ in 0..n {
        let m = if ctx.rng.chance(1, 2) { 'h' } else { 'd' };
        let k = ctx.rng.range(1, 4) as usize;
        let msgs: Vec<Vec<u8>> = (0..k)
            .map(|_| {
                let l = msg_len(&mut ctx.rng, m).min(3000);
                msg_bytes(&mut ctx.rng, l)
            })
            .collect();
        let (stream, bounds) = stream_of(m, &msgs);
        let cuts = random_cuts(&mut ctx.rng, stream.len(), &bounds);
        let chunks = cut(&stream, &cuts);
        let msgs2 = msgs.clone();
        let r = std::panic::catch_unwind(std::panic::AssertUnwindSafe(|| {
            rt.block_on(async move {
                let listener = tokio::net::TcpListener::bind("127.0.0.1:0").await.ok()?;
                let addr = listener.local_addr().ok()?;
                let (client, server) = tokio::join!(tokio::net::TcpStream::connect(addr), listener.accept());
                let (mut server, _) = server.ok()?;
                server.set_nodelay(true).ok()?;
                let mut t = FramedTransport::new(std::time::Duration::from_secs(20));
                t.connect(client.ok()?);
                t.set_frame_mode(mode_of(m));
                // peer -> transport, scripted segmentation
                let writer = async {
                    for e in chunks {
                        if let Ev::Chunk(b) = e {
                            let _ = server.write_all(&b).await;
                            let _ = server.flush().await;
                            for _ in 0..3 {
                                tokio::task::yield_now().await;
                            }
                        }
                    }
                };
                let reader = async {
                    let mut got = Vec::new();
                    for _ in 0..msgs2.len() {
                        match t.read().await {
                            Ok(b) => got.push(b),
                            Err(_) => break,
                        }
                    }
                    got
                };
                let (_, got) = tokio::join!(writer, reader);
                // transport -> peer: the bytes on the wire are the one-shot frames
                let mut wire_want = Vec::new();
                for x in &msgs2 {
                    t.write(x).await.ok()?;
                    wire_want.extend_from_slice(&frame_spec(m, x));
                }
                t.close();
                let mut wire = Vec::new();
                use tokio::io::AsyncReadExt;
                let _ = server.read_to_end(&mut wire).await;
                Some((got, wire == wire_want))
            })
        }));
        match r {
            Ok(Some((got, wire_ok))) => {
                if got != msgs || !wire_ok {
                    ctx.fail("transport", &format!("mode={} msgs={} read_ok={} wire_ok={}", m, msgs_text(&msgs), got == msgs, wire_ok));
                }
                ctx.count("transport_rounds");
            }
            Ok(None) => ctx.count("transport_skipped_no_loopback"),
            Err(_) => ctx.fail("transport", &format!("panic mode={} msgs={}", m, msgs_text(&msgs))),
        }
    }
}

/// delays that outlast the read timeout (scripted reader, paused clock)
fn stalls(ctx: &mut Ctx) {
    let rt = tokio::runtime::Builder::new_current_thread().enable_time().start_paused(true).build().expect("paused runtime");
    // the pinned witness of C05_not_delay_invariant
    let w = vec![Ev::Chunk(vec![0, 3]), Ev::Stall, Ev::Chunk(vec![0, 1, 7])];
    let res = run_read_retry(&rt, 'h', &w);
    ctx.tie("kf-c05-timeout-desync", &format!("c05readt h {}", evs_text(&w)), &res.join(" "));
    let n = ctx.n(300, 2500);
    for _ in 0..n {
        let m = if ctx.rng.chance(1, 2) { 'h' } else { 'd' };
        let k = ctx.rng.range(1, 4) as usize;
        let msgs: Vec<Vec<u8>> = (0..k)
            .map(|_| {
                let l = msg_len(&mut ctx.rng, m).min(40);
                msg_bytes(&mut ctx.rng, l)
            })
            .collect();
        let (stream, bounds) = stream_of(m, &msgs);
        let cuts = random_cuts(&mut ctx.rng, stream.len(), &bounds);
        let style = ctx.rng.below(3);
        let mut evs = with_pendings(&mut ctx.rng, cut(&stream, &cuts), style);
        let ns = ctx.rng.range(1, 2);
        for _ in 0..ns {
            let at = ctx.rng.below(evs.len() as u64 + 1) as usize;
            evs.insert(at, Ev::Stall);
        }
        // is every stall at a frame boundary (no byte of a frame consumed yet)?
        let frame_starts: Vec<usize> = bounds.iter().step_by(2).cloned().collect();
        let mut pos = 0;
        let mut harmless = true;
        for e in &evs {
            match e {
                Ev::Chunk(b) => pos += b.len(),
                Ev::Stall => harmless &= frame_starts.contains(&pos),
                _ => {}
            }
        }
        let res = run_read_retry(&rt, m, &evs);
        let oks: Vec<String> = res.iter().filter(|t| t.starts_with("ok=")).cloned().collect();
        let want: Vec<String> = msgs.iter().map(|x| format!("ok={}", hexarg(x))).collect();
        if harmless {
            ctx.tie("stall", &format!("c05readt {} {}", m, evs_text(&evs)), &res.join(" "));
            ctx.count("stall_at_boundary");
            if oks != want || res.last().map(|s| s.as_str()) != Some("err-eof") {
                ctx.fail("stall-boundary", &format!("mode={} msgs={} events={} got={}", m, msgs_text(&msgs), evs_text(&evs), res.join(" ")));
            }
        } else {
            // model-vs-code under the finding's class: the model mirrors the loss of the consumed bytes
            ctx.tie("kf-c05-timeout-desync", &format!("c05readt {} {}", m, evs_text(&evs)), &res.join(" "));
            ctx.count("stall_inside_frame");
            if oks.iter().any(|t| !want.contains(t)) {
                ctx.count("stall_inside_frame_bogus_message");
            }
        }
    }
}

/// the same over the real `FramedTransport::read` (its own timeout) and the second copy, on a loopback socket with a
/// real delay. The number of timeouts seen is an input of the model line, not a prediction.
fn real_timeouts(ctx: &mut Ctx, rt: &tokio::runtime::Runtime) {
    use edp_client::transport::FramedTransport;
    let to = std::time::Duration::from_millis(60);
    let delay = std::time::Duration::from_millis(260);
    // 1. FramedTransport, handshake mode, message [0,1,7] delivered as [0,3] <delay> [0,1,7]
    let r = std::panic::catch_unwind(std::panic::AssertUnwindSafe(|| {
        rt.block_on(async move {
            let listener = tokio::net::TcpListener::bind("127.0.0.1:0").await.ok()?;
            let addr = listener.local_addr().ok()?;
            let (client, server) = tokio::join!(tokio::net::TcpStream::connect(addr), listener.accept());
            let (mut server, _) = server.ok()?;
            server.set_nodelay(true).ok()?;
            let mut t = FramedTransport::new(to);
            t.connect(client.ok()?);
            let writer = async {
                let _ = server.write_all(&[0, 3]).await;
                let _ = server.flush().await;
                tokio::time::sleep(delay).await;
                let _ = server.write_all(&[0, 1, 7]).await;
                let _ = server.shutdown().await;
                server
            };
            let reader = async {
                let mut out = Vec::new();
                for _ in 0..40 {
                    match t.read().await {
                        Ok(b) => out.push(format!("ok={}", hexarg(&b))),
                        Err(edp_client::Error::Timeout(_)) => out.push("err-timeout".to_string()),
                        Err(e) => {
                            out.push(rh_class(&e));
                            break;
                        }
                    }
                }
                out
            };
            let (_s, out) = tokio::join!(writer, reader);
            Some(out)
        })
    }));
    match r {
        Ok(Some(res)) => {
            let k = res.iter().take_while(|t| *t == "err-timeout").count();
            if k == 0 {
                ctx.count("real_timeout_not_triggered");
            } else {
                let mut evs = vec![Ev::Chunk(vec![0, 3])];
                evs.extend(std::iter::repeat(Ev::Stall).take(k));
                evs.push(Ev::Chunk(vec![0, 1, 7]));
                ctx.tie("kf-c05-timeout-desync", &format!("c05readt h {}", evs_text(&evs)), &res.join(" "));
                ctx.add("real_timeouts_seen", k as u64);
                // the property: after a delay the message still arrives intact, or every later read fails; never another message
                if res.iter().any(|t| t.starts_with("ok=") && t != "ok=000107") {
                    ctx.fail(
                        "kf-c05-timeout-desync",
                        &format!(
                            "FramedTransport(timeout=60ms, handshake) peer sends 0003, waits 260ms, sends 000107 (one frame, message 000107): reads = {}",
                            res.join(" ")
                        ),
                    );
                }
            }
        }
        Ok(None) => ctx.count("transport_skipped_no_loopback"),
        Err(_) => ctx.fail("transport", "panic in timeout scenario"),
    }
    // 2. the second copy: length bytes, delay, body. The retry reads the body's first bytes as a length.
    let body = rh_body(&[1, 2, 3]);
    let pre = (body.len() as u32).to_be_bytes().to_vec();
    let (b2, p2) = (body.clone(), pre.clone());
    let r = std::panic::catch_unwind(std::panic::AssertUnwindSafe(|| {
        rt.block_on(async move {
            let listener = tokio::net::TcpListener::bind("127.0.0.1:0").await.ok()?;
            let addr = listener.local_addr().ok()?;
            let (client, server) = tokio::join!(tokio::net::TcpStream::connect(addr), listener.accept());
            let (mut server, _) = server.ok()?;
            server.set_nodelay(true).ok()?;
            let (mut rh, _wh) = client.ok()?.into_split();
            let writer = async {
                let _ = server.write_all(&p2).await;
                let _ = server.flush().await;
                tokio::time::sleep(delay).await;
                let _ = server.write_all(&b2).await;
                let _ = server.shutdown().await;
                server
            };
            let reader = async {
                let mut out = Vec::new();
                for _ in 0..40 {
                    match edp_client::Connection::receive_message_from_read_half(&mut rh, to).await {
                        Ok((_, Some(erltf::OwnedTerm::Binary(b)))) => out.push(format!("ok={}", hexarg(&b))),
                        Ok(_) => out.push("ok-other".to_string()),
                        Err(edp_client::Error::Timeout(_)) => out.push("err-timeout".to_string()),
                        Err(e) => {
                            out.push(rh_class(&e));
                            break;
                        }
                    }
                }
                out
            };
            let (_s, out) = tokio::join!(writer, reader);
            Some(out)
        })
    }));
    if let Ok(Some(res)) = r {
        let k = res.iter().take_while(|t| *t == "err-timeout").count();
        if k > 0 {
            let mut evs = vec![Ev::Chunk(pre)];
            evs.extend(std::iter::repeat(Ev::Stall).take(k));
            evs.push(Ev::Chunk(body));
            ctx.tie("kf-c05-timeout-desync", &format!("c05rht {} {}", hex(&CTL), evs_text(&evs)), &res.join(" "));
            ctx.count("real_rh_timeout_cases");
        } else {
            ctx.count("real_timeout_not_triggered");
        }
    }
}


// ---------------------------------------------------------------------------------------------------------
// the writer under `poll_flush` behaviours and write timeouts; several messages over one sink

/// the call `FramedTransport::write` makes — `timeout(d, framer.write_framed(stream, data))` — for each message in turn,
/// by a caller that goes on after `Timeout` (recoverable) and stops at any other error; paused clock.
/// Returns the results, the chunks the sink accepted, the completed flushes.
fn run_write_many(rt: &tokio::runtime::Runtime, m: char, msgs: &[Vec<u8>], script: &[WEv], fscript: &[FEv]) -> (Vec<String>, Vec<Vec<u8>>, u64) {
    let script: VecDeque<WEv> = script.iter().cloned().collect();
    let fscript: VecDeque<FEv> = fscript.iter().cloned().collect();
    let msgs = msgs.to_vec();
    let r = std::panic::catch_unwind(std::panic::AssertUnwindSafe(|| {
        rt.block_on(async move {
            let mut w = ScriptWriter { script, fscript, chunks: vec![], flushes: 0, stalled: 0 };
            let f = MessageFramer::new(mode_of(m));
            let mut out = Vec::new();
            for msg in &msgs {
                match tokio::time::timeout(std::time::Duration::from_millis(50), f.write_framed(&mut w, msg)).await {
                    Err(_) => {
                        out.push("err-timeout".to_string());
                        if w.stalled == 1 && w.script.front() == Some(&WEv::Stall) {
                            w.script.pop_front();
                        } else if w.stalled == 2 && w.fscript.front() == Some(&FEv::Stall) {
                            w.fscript.pop_front();
                        } else {
                            out.push("timeout-without-stall".to_string());
                            break;
                        }
                    }
                    Ok(Ok(())) => out.push("ok".to_string()),
                    Ok(Err(e)) => {
                        out.push(io_class(&e));
                        break;
                    }
                }
                w.stalled = 0;
            }
            (out, w.chunks, w.flushes)
        })
    }));
    r.unwrap_or_else(|_| (vec!["panic".to_string()], vec![], 0))
}

fn chunks_text(chunks: &[Vec<u8>]) -> String {
    if chunks.is_empty() { "-".to_string() } else { chunks.iter().map(|c| hex(c)).collect::<Vec<_>>().join(",") }
}

fn random_fscript(rng: &mut Rng, stalls: bool) -> Vec<FEv> {
    let n = rng.below(4);
    (0..n)
        .map(|_| match rng.below(8) {
            0 | 1 => FEv::Pending,
            2 => FEv::Fail,
            3 if stalls => FEv::Stall,
            _ => FEv::Done,
        })
        .collect()
}

fn writers_ext(ctx: &mut Ctx) {
    let rt = tokio::runtime::Builder::new_current_thread().enable_time().start_paused(true).build().expect("paused runtime");
    let rt2 = tokio::runtime::Builder::new_current_thread().enable_all().build().expect("runtime");
    // 1. one message, every position of a failure / zero write / stall in the sink, and every flush behaviour
    for (m, msg) in [('h', vec![1u8, 2, 3]), ('d', vec![9u8]), ('h', vec![]), ('d', vec![])] {
        let total = prefix_size(m) + msg.len();
        for at in 0..=total {
            for bad in [WEv::Fail, WEv::Accept(0), WEv::Stall, WEv::Pending] {
                let mut script: Vec<WEv> = (0..at).map(|_| WEv::Accept(1)).collect();
                script.push(bad.clone());
                for fl in [vec![], vec![FEv::Pending, FEv::Done], vec![FEv::Fail], vec![FEv::Pending, FEv::Stall], vec![FEv::Stall]] {
                    let (res, chunks, flushes) = run_write_many(&rt, m, &[msg.clone()], &script, &fl);
                    let wire: Vec<u8> = chunks.concat();
                    let one = frame_spec(m, &msg);
                    ctx.tie("wpos", &format!("c05writef {} {} {} {}", m, hexarg(&msg), wevs_text(&script), fevs_text(&fl)),
                        &format!("{} {} {}", res.join(","), chunks_text(&chunks), flushes));
                    ctx.count(&format!("wpos_{}", res.last().cloned().unwrap_or_default()));
                    // the property on the implementation: ok <=> whole frame + one completed flush; error => no completed flush,
                    // the wire a prefix of the frame
                    let good = if res == ["ok"] { wire == one && flushes == 1 } else { one.starts_with(&wire) && flushes == 0 };
                    if !good {
                        ctx.fail("writer", &format!("mode={} msg={} script={} flush={} res={} wire={} flushes={}", m, hexarg(&msg), wevs_text(&script), fevs_text(&fl), res.join(","), hex(&wire), flushes));
                    }
                    ctx.count("writer_checked");
                }
            }
        }
    }
    // 2. several messages over one sink
    let n = ctx.n(300, 2500);
    for _ in 0..n {
        let m = if ctx.rng.chance(1, 2) { 'h' } else { 'd' };
        let k = ctx.rng.range(1, 4) as usize;
        let msgs: Vec<Vec<u8>> = (0..k)
            .map(|_| {
                let l = match ctx.rng.below(5) { 0 => 0, 1 => 1, _ => ctx.rng.range(0, 12) as usize };
                msg_bytes(&mut ctx.rng, l)
            })
            .collect();
        let total: usize = msgs.iter().map(|x| x.len() + prefix_size(m)).sum();
        let with_stalls = ctx.rng.chance(1, 3);
        let mut script = Vec::new();
        let ne = ctx.rng.below(10);
        for _ in 0..ne {
            script.push(match ctx.rng.below(14) {
                0 | 1 => WEv::Pending,
                2 => if ctx.rng.chance(1, 3) { WEv::Accept(0) } else { WEv::Accept(1) },
                3 => if ctx.rng.chance(1, 3) { WEv::Fail } else { WEv::Accept(2) },
                4 | 5 if with_stalls => WEv::Stall,
                6 => WEv::Accept(total + 3),
                _ => WEv::Accept(ctx.rng.range(1, 6) as usize),
            });
        }
        let fl = random_fscript(&mut ctx.rng, with_stalls);
        let (res, chunks, _flushes) = run_write_many(&rt, m, &msgs, &script, &fl);
        let wire: Vec<u8> = chunks.concat();
        let timeouts = res.iter().filter(|t| *t == "err-timeout").count();
        let want: Vec<u8> = msgs.iter().flat_map(|x| frame_spec(m, x)).collect();
        let req = format!("c05writem {} {} {} {}", m, msgs_text(&msgs), wevs_text(&script), fevs_text(&fl));
        let resp = format!("{} {}", if res.is_empty() { "-".to_string() } else { res.join(",") }, chunks_text(&chunks));
        if timeouts == 0 {
            ctx.tie("wmany", &req, &resp);
            ctx.count("wmany_no_timeout");
            // the property on the implementation, by the independent Spec: the wire is a prefix of the frames (all of them
            // when every write succeeded)
            let all = res.len() == msgs.len() && res.iter().all(|t| t == "ok");
            ctx.prop("wmany", &format!("c05wireprop {} {} {} {}", m, msgs_text(&msgs), hexarg(&wire), if all { "all" } else { "prefix" }), "ok");
            if !want.starts_with(&wire) || (all && wire != want) {
                ctx.fail("writer-seq", &format!("mode={} msgs={} script={} flush={} res={} wire={}", m, msgs_text(&msgs), wevs_text(&script), fevs_text(&fl), res.join(","), hex(&wire)));
            }
            if all {
                // and reading the wire back with the real deframer, cut as the sink cut it, gives the messages
                let evs: Vec<Ev> = chunks.iter().map(|c| Ev::Chunk(c.clone())).collect();
                read_case(ctx, &rt2, "wmany", m, &evs, Some(&msgs), false);
            }
        } else if want.starts_with(&wire) {
            // a timeout that left no partial frame behind (stall at a frame boundary or in the flush)
            ctx.tie("wmany", &req, &resp);
            ctx.count("wmany_timeout_harmless");
        } else {
            ctx.tie("kf-c05-write-timeout-partial", &req, &resp);
            ctx.count("wmany_timeout_partial_frame");
        }
    }
    // 3. the pinned witness of C05_not_write_delay_invariant, against the real writer and the real deframer
    let msg = vec![0u8, 1, 7];
    let msgs = vec![msg.clone(), msg.clone()];
    let script = vec![WEv::Accept(2), WEv::Accept(1), WEv::Stall];
    let (res, chunks, _) = run_write_many(&rt, 'h', &msgs, &script, &[]);
    ctx.tie("kf-c05-write-timeout-partial", &format!("c05writem h {} {} -", msgs_text(&msgs), wevs_text(&script)),
        &format!("{} {}", res.join(","), chunks_text(&chunks)));
    let evs: Vec<Ev> = chunks.iter().map(|c| Ev::Chunk(c.clone())).collect();
    let (back, _) = run_read(&rt2, 'h', &evs);
    ctx.tie("kf-c05-write-timeout-partial", &format!("c05wrread h {} {} -", msgs_text(&msgs), wevs_text(&script)), &back.join(" "));
    if back.iter().any(|t| t.starts_with("ok=") && *t != format!("ok={}", hex(&msg))) {
        ctx.fail(
            "kf-c05-write-timeout-partial",
            &format!(
                "timeout(50ms, write_framed) handshake mode, message 000107 written twice (the retry after Timeout), sink takes 2 bytes, 1 byte, then stalls past the timeout: results = {}, wire = {}, a peer reads {}",
                res.join(","), hex(&chunks.concat()), back.join(" ")
            ),
        );
    }
}

/// the same against the real `FramedTransport::write` over a loopback socket: a peer that does not read for a while, a
/// message larger than the socket buffers, a 60 ms timeout
fn real_write_timeout(ctx: &mut Ctx, rt: &tokio::runtime::Runtime) {
    use edp_client::transport::FramedTransport;
    use tokio::io::AsyncReadExt;
    const BIG: usize = 32 * 1024 * 1024;
    let r = std::panic::catch_unwind(std::panic::AssertUnwindSafe(|| {
        rt.block_on(async move {
            let listener = tokio::net::TcpListener::bind("127.0.0.1:0").await.ok()?;
            let addr = listener.local_addr().ok()?;
            let (client, server) = tokio::join!(tokio::net::TcpStream::connect(addr), listener.accept());
            let (mut server, _) = server.ok()?;
            let mut t = FramedTransport::new(std::time::Duration::from_millis(60));
            t.connect(client.ok()?);
            t.set_frame_mode(FrameMode::Distribution);
            let big = vec![0x55u8; BIG];
            let first = match t.write(&big).await {
                Err(edp_client::Error::Timeout(_)) => "err-timeout",
                Ok(()) => "ok",
                Err(_) => "err-other",
            };
            drop(big);
            // the peer now reads everything that is there
            let mut got: u64 = 0;
            let mut head = Vec::new();
            let mut buf = vec![0u8; 1 << 20];
            while let Ok(Ok(n)) = tokio::time::timeout(std::time::Duration::from_millis(150), server.read(&mut buf)).await {
                if n == 0 {
                    break;
                }
                if head.len() < 4 {
                    head.extend_from_slice(&buf[..n.min(4 - head.len())]);
                }
                got += n as u64;
            }
            // the caller goes on (Timeout is recoverable) with a small message
            let second = match t.write(&[7]).await {
                Ok(()) => "ok",
                Err(_) => "err",
            };
            let mut tail = Vec::new();
            while let Ok(Ok(n)) = tokio::time::timeout(std::time::Duration::from_millis(150), server.read(&mut buf)).await {
                if n == 0 {
                    break;
                }
                tail.extend_from_slice(&buf[..n]);
            }
            Some((first, got, head, second, tail))
        })
    }));
    match r {
        Ok(Some((first, got, head, second, tail))) => {
            if first == "err-timeout" && got > 0 && got < (BIG as u64 + 4) && second == "ok" {
                ctx.count("real_write_timeout_partial_frame");
                // the peer is inside a frame of 32 MiB (its length bytes arrived) and the next frame lands in its body
                if head == (BIG as u32).to_be_bytes() && tail == [0, 0, 0, 1, 7] {
                    ctx.fail(
                        "kf-c05-write-timeout-partial",
                        "FramedTransport(timeout=60ms, distribution).write(32 MiB) to a peer that is not reading = Timeout with the length bytes and a strict part of the body on the wire; the next write([07]) = Ok and its frame 0000000107 arrives inside the body of the unfinished frame",
                    );
                }
            } else {
                ctx.count("real_write_timeout_not_triggered");
            }
        }
        Ok(None) => ctx.count("transport_skipped_no_loopback"),
        Err(_) => ctx.fail("transport", "panic in write timeout scenario"),
    }
}

// ---------------------------------------------------------------------------------------------------------
// FramedTransport as a state machine over loopback sockets

fn transport_ops(ctx: &mut Ctx, rt: &tokio::runtime::Runtime) {
    use edp_client::transport::FramedTransport;
    use tokio::io::AsyncReadExt;
    let n = ctx.n(14, 100);
    for case in 0..n {
        // op tokens: c connect, mh/md set mode, x close, t take_read_half, i is_connected, h write_half_mut, r<wire> read,
        // w<msg> write, q<data> write_raw
        let len = ctx.rng.range(3, 8) as usize;
        let mut ops: Vec<String> = Vec::new();
        if case % 4 != 0 {
            ops.push("c".to_string());
        }
        let mut reads = 0;
        for _ in 0..len {
            let op = match ctx.rng.below(12) {
                0 => "c".to_string(),
                1 => "mh".to_string(),
                2 => "md".to_string(),
                3 => if ctx.rng.chance(1, 2) { "x".to_string() } else { "i".to_string() },
                4 => "t".to_string(),
                5 => "i".to_string(),
                6 => "h".to_string(),
                7 | 8 if reads < 2 => {
                    reads += 1;
                    // well-formed and completely consumed in both modes: handshake reads a tick and then [7] (two ticks),
                    // distribution reads [7] (one tick)
                    if ctx.rng.chance(1, 2) { "r0000000107".to_string() } else { "r00000000".to_string() }
                }
                9 => format!("q{}", hex(&msg_bytes(&mut ctx.rng, 3))),
                _ => {
                    let l = ctx.rng.range(0, 5) as usize;
                    format!("w{}", hex(&msg_bytes(&mut ctx.rng, l)))
                }
            };
            ops.push(op);
        }
        let ops2 = ops.clone();
        let r = std::panic::catch_unwind(std::panic::AssertUnwindSafe(|| {
            rt.block_on(async move {
                let mut t = FramedTransport::new(std::time::Duration::from_millis(40));
                let mut peer: Option<tokio::net::TcpStream> = None;
                let mut out: Vec<String> = Vec::new();
                let mut wires: Vec<Vec<u8>> = Vec::new();
                // everything the transport sent on a connection it has let go of, up to end of stream
                async fn drain(p: &mut tokio::net::TcpStream) -> Vec<u8> {
                    let mut got = Vec::new();
                    let _ = tokio::time::timeout(std::time::Duration::from_secs(10), p.read_to_end(&mut got)).await;
                    got
                }
                for op in &ops2 {
                    let (k, arg) = op.split_at(1);
                    match k {
                        "c" => {
                            let listener = tokio::net::TcpListener::bind("127.0.0.1:0").await.ok()?;
                            let addr = listener.local_addr().ok()?;
                            let (client, server) = tokio::join!(tokio::net::TcpStream::connect(addr), listener.accept());
                            let (server, _) = server.ok()?;
                            server.set_nodelay(true).ok()?;
                            t.connect(client.ok()?);
                            if let Some(mut old) = peer.take() {
                                wires.push(drain(&mut old).await);
                            }
                            peer = Some(server);
                            out.push("u".to_string());
                        }
                        "m" => {
                            t.set_frame_mode(mode_of(arg.chars().next().unwrap_or('h')));
                            out.push("u".to_string());
                        }
                        "x" => {
                            t.close();
                            if let Some(mut old) = peer.take() {
                                wires.push(drain(&mut old).await);
                            }
                            out.push("u".to_string());
                        }
                        "t" => out.push(format!("{}", t.take_read_half().is_some())),
                        "i" => out.push(format!("{}", t.is_connected())),
                        "h" => out.push(format!("{}", t.write_half_mut().is_some())),
                        "r" => {
                            // nothing has been sent yet: a transport with a stream times out, one without says so
                            match t.read().await {
                                Err(edp_client::Error::InvalidStateMessage(_)) => out.push("nostream".to_string()),
                                Err(edp_client::Error::Timeout(_)) => {
                                    let wire = crate::canon::unhex(arg);
                                    if let Some(p) = peer.as_mut() {
                                        let _ = p.write_all(&wire).await;
                                        let _ = p.flush().await;
                                    }
                                    let mut got: Vec<String> = Vec::new();
                                    for _ in 0..8 {
                                        match t.read().await {
                                            Ok(b) => got.push(format!("ok={}", hexarg(&b))),
                                            Err(_) => break,
                                        }
                                    }
                                    out.push(if got.is_empty() { "none".to_string() } else { got.join("+") });
                                }
                                Ok(b) => out.push(format!("unexpected-read={}", hexarg(&b))),
                                Err(e) => out.push(format!("err:{}", rh_class(&e))),
                            }
                        }
                        "w" | "q" => {
                            let data = crate::canon::unhex(arg);
                            let res = if k == "w" { t.write(&data).await } else { t.write_raw(&data).await };
                            match res {
                                Err(edp_client::Error::InvalidStateMessage(_)) => out.push("nostream".to_string()),
                                Err(e) => out.push(format!("err:{}", rh_class(&e))),
                                Ok(()) => out.push("ok".to_string()),
                            }
                        }
                        _ => out.push("bad-op".to_string()),
                    }
                }
                t.close();
                if let Some(mut old) = peer.take() {
                    wires.push(drain(&mut old).await);
                }
                let w = if wires.is_empty() { "-".to_string() } else { wires.iter().map(|x| hexarg(x)).collect::<Vec<_>>().join(",") };
                Some(format!("{} | {}", out.join(" "), w))
            })
        }));
        match r {
            Ok(Some(out)) => {
                ctx.tie("transport-ops", &format!("c05tr {}", ops.join(",")), &out);
                ctx.count("transport_op_sequences");
                ctx.add("transport_ops", ops.len() as u64);
            }
            Ok(None) => ctx.count("transport_skipped_no_loopback"),
            Err(_) => ctx.fail("transport", &format!("panic ops={}", ops.join(","))),
        }
    }
}

pub fn run(ctx: &mut Ctx) {
    let rt = tokio::runtime::Builder::new_current_thread().enable_all().build().expect("runtime");
    exhaustive(ctx, &rt);
    boundaries(ctx, &rt);
    random_streams(ctx, &rt);
    writers(ctx, &rt);
    writers_ext(ctx);
    real_write_timeout(ctx, &rt);
    transport_ops(ctx, &rt);
    second_copy(ctx, &rt);
    transport_loopback(ctx, &rt);
    stalls(ctx);
    real_timeouts(ctx, &rt);
}
