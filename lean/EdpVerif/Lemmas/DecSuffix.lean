import EdpVerif.Impl.Decode
/-! What a parser of the term decoder's family leaves over is a suffix of what it was given — every tag, every input, both
configurations, any behaviour of the external calls.  Same shape as Lemmas/DecNoTrailing.lean.  Used by C10: the bytes a
LOCAL_EXT identifier keeps are exactly the bytes its encoding occupied in the input. -/
namespace Edp

theorem rdN_suffix : ∀ (k : Nat) (bs : Bytes) (v : Nat) (r : Bytes), rdN k bs = some (v, r) → r <:+ bs := by
  intro k
  induction k with
  | zero => intro bs v r h; simp [rdN] at h; rw [h.2]; exact List.suffix_refl _
  | succ k ih =>
    intro bs v r h
    cases bs with
    | nil => simp [rdN] at h
    | cons b bs =>
      simp only [rdN] at h
      cases hr : rdN k bs with
      | none => simp [hr] at h
      | some p =>
        obtain ⟨a, c⟩ := p
        simp [hr] at h
        obtain ⟨_, rfl⟩ := h
        exact (ih bs a c hr).trans (List.suffix_cons _ _)

theorem rdU_suffix {k : Nat} {bs : Bytes} {v : Nat} {r : Bytes} (h : rdU k bs = .ok (v, r)) : r <:+ bs := by
  simp only [rdU] at h
  cases hr : rdN k bs with
  | none => simp [hr] at h
  | some p =>
    obtain ⟨a, b⟩ := p
    simp [hr] at h
    obtain ⟨rfl, rfl⟩ := h
    exact rdN_suffix k bs a b hr

theorem takeE_suffix {n : Nat} {bs a r : Bytes} (h : takeE n bs = .ok (a, r)) : r <:+ bs := by
  simp only [takeE, takeN] at h
  by_cases hn : n ≤ bs.length
  · simp [hn] at h; obtain ⟨_, rfl⟩ := h; exact List.drop_suffix _ _
  · simp [hn] at h

theorem decAtomBody_suffix {k : Nat} {bs : Bytes} {t : Term} {r : Bytes} (h : decAtomBody k bs = .ok (t, r)) : r <:+ bs := by
  unfold decAtomBody at h
  split at h
  · simp at h
  · rename_i h1
    split at h
    · simp at h
    · split at h
      · simp at h
      · rename_i h2
        split at h
        · simp at h; obtain ⟨_, rfl⟩ := h; exact (takeE_suffix h2).trans (rdU_suffix h1)
        · simp at h

theorem decLatin1Body_suffix {k : Nat} {bs : Bytes} {t : Term} {r : Bytes} (h : decLatin1Body k bs = .ok (t, r)) : r <:+ bs := by
  unfold decLatin1Body at h
  split at h
  · simp at h
  · rename_i h1
    split at h
    · simp at h
    · split at h
      · simp at h
      · rename_i h2
        simp at h; obtain ⟨_, rfl⟩ := h; exact (takeE_suffix h2).trans (rdU_suffix h1)

theorem decBig_suffix {k : Nat} {bs : Bytes} {t : Term} {r : Bytes} (h : decBig k bs = .ok (t, r)) : r <:+ bs := by
  unfold decBig at h
  split at h
  · simp at h
  · rename_i h1
    split at h
    · simp at h
    · rename_i h2
      split at h
      · simp at h
      · rename_i h3
        simp at h; obtain ⟨_, rfl⟩ := h
        exact (takeE_suffix h3).trans ((rdU_suffix h2).trans (rdU_suffix h1))

theorem rdWords_suffix : ∀ (n : Nat) (bs : Bytes) (ids : List Nat) (r : Bytes), rdWords n bs = .ok (ids, r) → r <:+ bs := by
  intro n
  induction n with
  | zero => intro bs ids r h; simp [rdWords] at h; rw [h.2]; exact List.suffix_refl _
  | succ n ih =>
    intro bs ids r h
    simp only [rdWords] at h
    split at h
    · simp at h
    · rename_i h1
      split at h
      · simp at h
      · rename_i h2
        simp at h; obtain ⟨_, rfl⟩ := h
        exact (ih _ _ _ h2).trans (rdU_suffix h1)

set_option hygiene false in
macro "sfuse" : tactic => `(tactic| first
  | replace hs := (rdU_suffix ‹rdU _ _ = Except.ok _›).trans hs
  | replace hs := (takeE_suffix ‹takeE _ _ = Except.ok _›).trans hs
  | replace hs := (rdWords_suffix _ _ _ _ ‹rdWords _ _ = Except.ok _›).trans hs
  | replace hs := (ih1 _ _ _ _ ‹dec _ _ _ _ _ = Except.ok _›).trans hs
  | replace hs := (ih2 _ _ _ _ _ ‹decN _ _ _ _ _ _ = Except.ok _›).trans hs
  | replace hs := (ih3 _ _ _ _ _ _ ‹decKV _ _ _ _ _ _ _ = Except.ok _›).trans hs
  | skip)

set_option hygiene false in
macro "sfstep" : tactic => `(tactic| (
  split at h <;> (first
    | (simp at h; done)
    | sfuse)))

set_option hygiene false in
macro "sfclose" : tactic => `(tactic| first
  | (simp at h; done)
  | exact (decAtomBody_suffix h).trans hs
  | exact (decLatin1Body_suffix h).trans hs
  | exact (decBig_suffix h).trans hs
  | (simp only [Except.ok.injEq, Prod.mk.injEq] at h; obtain ⟨_, rfl⟩ := h; first | exact hs | exact (List.drop_suffix _ _).trans hs)
  | exact (ih3 _ _ _ _ _ _ h).trans hs)

set_option maxHeartbeats 4000000 in
theorem dec_suffix (x : Ext) (cfg : DecCfg) : ∀ (fuel : Nat),
    (∀ d bs t r, dec x cfg fuel d bs = .ok (t, r) → r <:+ bs) ∧
    (∀ d n bs l r, decN x cfg fuel d n bs = .ok (l, r) → r <:+ bs) ∧
    (∀ d n bs m m' r, decKV x cfg fuel d n bs m = .ok (m', r) → r <:+ bs) := by
  intro fuel
  induction fuel with
  | zero =>
    refine ⟨?_, ?_, ?_⟩
    · intro d bs t r h; simp [dec] at h
    · intro d n bs l r h
      cases n with
      | zero => simp [decN] at h; rw [h.2]; exact List.suffix_refl _
      | succ n => simp [decN] at h
    · intro d n bs m m' r h
      cases n with
      | zero => simp [decKV] at h; rw [h.2]; exact List.suffix_refl _
      | succ n => simp [decKV] at h
  | succ f ih =>
    obtain ⟨ih1, ih2, ih3⟩ := ih
    refine ⟨?_, ?_, ?_⟩
    · intro d bs t r h
      cases bs with
      | nil => simp [dec] at h
      | cons tb bs =>
        have hs : bs <:+ tb :: bs := List.suffix_cons _ _
        simp only [dec] at h
        split at h
        · simp at h
        · split at h
          · simp at h
          · split at h
            all_goals (repeat sfstep)
            all_goals sfclose
    · intro d n bs l r h
      cases n with
      | zero => simp [decN] at h; rw [h.2]; exact List.suffix_refl _
      | succ n =>
        have hs : bs <:+ bs := List.suffix_refl _
        simp only [decN] at h
        repeat sfstep
        all_goals sfclose
    · intro d n bs m m' r h
      cases n with
      | zero => simp [decKV] at h; rw [h.2]; exact List.suffix_refl _
      | succ n =>
        have hs : bs <:+ bs := List.suffix_refl _
        simp only [decKV] at h
        repeat sfstep
        all_goals sfclose

end Edp
