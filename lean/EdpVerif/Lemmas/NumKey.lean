import EdpVerif.Lemmas.CmpSwap
import EdpVerif.Impl.Den
/-! Numbers: every numeric term has a key `(class, value * 2^1074)` such that the model comparison of two numeric
terms is the lexicographic comparison of their keys (`cmpN_num`).  Shared by the transitivity proof (C11) and the
agreement with Erlang's exact order (C12). -/
open Edp Edp.Term
namespace Edp

/-- no high-order zero digit: the little-endian digit sequence is the shortest for its value -/
def minDigits (d : Bytes) : Bool := d.getLast? != some 0

theorem magVal_lt : ∀ d : Bytes, magVal d < 256 ^ d.length
  | [] => by simp [magVal]
  | b :: r => by
    have := magVal_lt r
    have hb := b.toNat_lt
    simp only [magVal, List.length_cons, Nat.pow_succ]
    omega

theorem minDigits_tail {b : UInt8} {r : Bytes} (h : minDigits (b :: r)) (hr : r ≠ []) : minDigits r := by
  cases r with
  | nil => exact absurd rfl hr
  | cons c r' => simpa [minDigits, List.getLast?_cons_cons] using h

theorem magVal_ge : ∀ d : Bytes, minDigits d → d ≠ [] → 256 ^ (d.length - 1) ≤ magVal d
  | [], _, h => absurd rfl h
  | [b], h, _ => by
    have : b ≠ 0 := by simpa [minDigits] using h
    have : b.toNat ≠ 0 := fun h0 => this (UInt8.toNat_inj.mp (by simpa using h0))
    simp [magVal]; omega
  | b :: c :: r, h, _ => by
    have := magVal_ge (c :: r) (minDigits_tail h (by simp)) (by simp)
    simp only [magVal, List.length_cons, Nat.add_sub_cancel, Nat.pow_succ] at this ⊢
    omega

theorem allZero_iff (d : Bytes) : allZero d = true ↔ magVal d = 0 := by
  induction d with
  | nil => simp [allZero, magVal]
  | cons b r ih =>
    simp only [allZero, List.all_cons, Bool.and_eq_true, beq_iff_eq, magVal] at ih ⊢
    rw [ih]
    constructor
    · rintro ⟨rfl, h⟩; simp [h]
    · intro h
      have h1 : b.toNat = 0 := by omega
      exact ⟨UInt8.toNat_inj.mp (by simpa using h1), by omega⟩


theorem lexCmp_append : ∀ (a b c d : List Nat), a.length = b.length →
    lexCmp (a ++ c) (b ++ d) = (lexCmp a b).then (lexCmp c d)
  | [], [], c, d, _ => by simp [lexCmp]
  | [], _ :: _, _, _, h => by simp at h
  | _ :: _, [], _, _, h => by simp at h
  | x :: xs, y :: ys, c, d, h => by
    simp only [List.cons_append, lexCmp, thenO, Ordering.then_assoc]
    rw [lexCmp_append xs ys c d (by simpa using h)]

theorem compare_digit (x y mx my : Nat) (hx : x < 256) (hy : y < 256) :
    compare (x + 256 * mx) (y + 256 * my) = (compare mx my).then (compare x y) := by
  rcases Nat.lt_trichotomy mx my with h | h | h
  · rw [Nat.compare_eq_lt.mpr h, Ordering.lt_then, Nat.compare_eq_lt]; omega
  · subst h; rw [Nat.compare_eq_eq.mpr rfl, Ordering.eq_then]
    rcases Nat.lt_trichotomy x y with h | h | h
    · rw [Nat.compare_eq_lt.mpr h, Nat.compare_eq_lt]; omega
    · subst h; simp
    · rw [Nat.compare_eq_gt.mpr h, Nat.compare_eq_gt]; omega
  · rw [Nat.compare_eq_gt.mpr h, Ordering.gt_then, Nat.compare_eq_gt]; omega

theorem bytesCmp_reverse : ∀ (a b : Bytes), a.length = b.length →
    bytesCmp a.reverse b.reverse = compare (magVal a) (magVal b)
  | [], [], _ => by simp [bytesCmp, lexCmp, magVal]
  | [], _ :: _, h => by simp at h
  | _ :: _, [], h => by simp at h
  | x :: xs, y :: ys, h => by
    have ih := bytesCmp_reverse xs ys (by simpa using h)
    simp only [bytesCmp, List.reverse_cons, List.map_append, List.map_cons, List.map_nil, magVal] at ih ⊢
    rw [lexCmp_append _ _ _ _ (by simpa using h), ih, compare_digit _ _ _ _ x.toNat_lt y.toNat_lt]
    simp [lexCmp, thenO]

theorem cmpMag_eq (a b : Bytes) (ha : minDigits a) (hb : minDigits b) :
    cmpMag a b = compare (magVal a) (magVal b) := by
  unfold cmpMag thenO
  rcases Nat.lt_trichotomy a.length b.length with h | h | h
  · rw [Nat.compare_eq_lt.mpr h, Ordering.lt_then]
    symm; rw [Nat.compare_eq_lt]
    have h1 := magVal_lt a
    have h2 := magVal_ge b hb (by intro h0; simp [h0] at h)
    have : 256 ^ a.length ≤ 256 ^ (b.length - 1) := Nat.pow_le_pow_right (by decide) (by omega)
    omega
  · rw [Nat.compare_eq_eq.mpr h, Ordering.eq_then, bytesCmp_reverse a b h]
  · rw [Nat.compare_eq_gt.mpr h, Ordering.gt_then]
    symm; rw [Nat.compare_eq_gt]
    have h1 := magVal_lt b
    have h2 := magVal_ge a ha (by intro h0; simp [h0] at h)
    have : 256 ^ b.length ≤ 256 ^ (a.length - 1) := Nat.pow_le_pow_right (by decide) (by omega)
    omega

theorem magVal_natDigits (n : Nat) : magVal (natDigits n) = n := by
  induction n using Nat.strongRecOn with
  | _ n ih =>
    rw [natDigits]
    split
    · simp [magVal, *]
    · rename_i h
      simp only [magVal, ih (n / 256) (by omega)]
      simp
      omega

theorem natDigits_one : natDigits 1 = [1] := by
  rw [natDigits]; simp; rw [natDigits]; simp

theorem minDigits_natDigits (n : Nat) : minDigits (natDigits n) := by
  induction n using Nat.strongRecOn with
  | _ n ih =>
    rw [natDigits]
    split
    · simp [minDigits]
    · rename_i h
      have ih' := ih (n / 256) (by omega)
      by_cases h2 : n / 256 = 0
      · rw [natDigits]; simp [h2, minDigits]
        intro h0
        have : (UInt8.ofNat (n % 256)).toNat = 0 := by rw [h0]; rfl
        simp at this; omega
      · rw [natDigits] at ih' ⊢
        simp only [h2, dite_false] at ih' ⊢
        simpa [minDigits, List.getLast?_cons_cons] using ih'

theorem compare_int_ite (a b : Int) : compare a b = if a < b then .lt else if a = b then .eq else .gt := by
  rcases Int.lt_trichotomy a b with h | h | h
  · rw [Int.compare_eq_lt.mpr h, if_pos h]
  · subst h; simp
  · rw [Int.compare_eq_gt.mpr h, if_neg (by omega), if_neg (by omega)]

theorem compare_nat_ite (a b : Nat) : compare a b = if a < b then .lt else if a = b then .eq else .gt := by
  rcases Nat.lt_trichotomy a b with h | h | h
  · rw [Nat.compare_eq_lt.mpr h, if_pos h]
  · subst h; simp
  · rw [Nat.compare_eq_gt.mpr h, if_neg (by omega), if_neg (by omega)]

/-- goals `ordering expression = ordering expression` built from `compare` on `Int`/`Nat`, `if`, `Ordering.then` -/
macro "ord_arith" : tactic =>
  `(tactic| (simp only [compare_int_ite, compare_nat_ite]; repeat' split
             all_goals (first | rfl | (exfalso; omega) | (simp_all; done) | (simp_all; omega))))

/-- a signed magnitude as an integer -/
def smVal (neg : Bool) (v : Nat) : Int := if neg then -(v : Int) else v
/-- the sign the code computes: zero magnitude is zero whatever the flag -/
def smSign (neg : Bool) (v : Nat) : Int := if v = 0 then 0 else if neg then -1 else 1

/-- comparison of two signed magnitudes: signs first, then magnitudes (reversed for negatives) -/
theorem compare_smVal (nx ny : Bool) (vx vy : Nat) :
    compare (smVal nx vx) (smVal ny vy) =
      (compare (smSign nx vx) (smSign ny vy)).then
        (if smSign nx vx < 0 then compare vy vx else compare vx vy) := by
  unfold smVal smSign
  simp only [compare_int_ite, compare_nat_ite]
  cases nx <;> cases ny <;> by_cases hx : vx = 0 <;> by_cases hy : vy = 0 <;>
    simp [hx, hy] <;> (repeat' split) <;> simp_all <;> omega


theorem signum_eq (neg : Bool) (d : Bytes) : signum neg d = smSign neg (magVal d) := by
  unfold signum smSign
  by_cases h : magVal d = 0
  · simp [h, (allZero_iff d).mpr h]
  · have : allZero d = false := by
      cases h' : allZero d
      · rfl
      · exact absurd ((allZero_iff d).mp h') h
    simp [h, this]

theorem bigVal_eq (neg : Bool) (d : Bytes) : bigVal neg d = smVal neg (magVal d) := rfl

theorem cmpSignedMag_eq (an : Bool) (a : Bytes) (bn : Bool) (b : Bytes) (ha : minDigits a) (hb : minDigits b) :
    cmpSignedMag an a bn b = compare (bigVal an a) (bigVal bn b) := by
  rw [bigVal_eq, bigVal_eq, compare_smVal]
  unfold cmpSignedMag thenO
  rw [signum_eq, signum_eq, cmpMag_eq b a hb ha, cmpMag_eq a b ha hb]

theorem smVal_natAbs (i : Int) : smVal (decide (i < 0)) i.natAbs = i := by
  unfold smVal
  by_cases h : i < 0 <;> simp [h] <;> omega

theorem cmpIntBig_eq (i : Int) (n : Bool) (d : Bytes) (hd : minDigits d) :
    cmpIntBig i n d = compare i (bigVal n d) := by
  unfold cmpIntBig
  rw [cmpSignedMag_eq _ _ _ _ (minDigits_natDigits _) hd, bigVal_eq, magVal_natDigits, smVal_natAbs]

theorem nat_compare_mul (a b k : Nat) (hk : 0 < k) : compare (a * k) (b * k) = compare a b := by
  simp only [compare_nat_ite]
  have h1 : a * k < b * k ↔ a < b := Nat.mul_lt_mul_right hk
  have h2 : a * k = b * k ↔ a = b := Nat.mul_left_inj (by omega)
  simp only [h1, h2]

theorem int_compare_mul (a b : Int) (k : Nat) (hk : 0 < k) : compare (a * (k : Int)) (b * k) = compare a b := by
  simp only [compare_int_ite]
  have hk' : (0 : Int) < k := by omega
  have h1 : a * (k : Int) < b * k ↔ a < b := Int.mul_lt_mul_right hk'
  have h2 : a * (k : Int) = b * k ↔ a = b := Int.mul_eq_mul_right_iff (by omega)
  simp only [h1, h2]

/-- the common scale: every finite double is an integer multiple of `2^-1074` -/
def scaleK : Nat := 2 ^ 1074
theorem scaleK_pos : 0 < scaleK := by unfold scaleK; apply Nat.pow_pos; decide
theorem scaleK_split (n : Nat) (h : n ≤ 1074) : scaleK = 2 ^ n * 2 ^ (1074 - n) := by
  unfold scaleK; rw [← Nat.pow_add]; congr 1; omega

theorem cmpNatDyadic_eq (v m : Nat) (e : Int) (he : -1074 ≤ e) :
    cmpNatDyadic v m e = compare (v * scaleK) (m * 2 ^ (e + 1074).toNat) := by
  unfold cmpNatDyadic
  by_cases h : e ≥ 0
  · obtain ⟨n, rfl⟩ := Int.eq_ofNat_of_zero_le h
    have : ((n : Int) + 1074).toNat = n + 1074 := by omega
    rw [if_pos h, this, Nat.pow_add, ← Nat.mul_assoc]
    show _ = compare (v * scaleK) (m * 2 ^ n * scaleK)
    rw [nat_compare_mul _ _ _ scaleK_pos, Int.toNat_natCast]
  · obtain ⟨n, rfl⟩ : ∃ n : Nat, e = -(n : Int) := ⟨(-e).toNat, by omega⟩
    have h1 : (-(n : Int) + 1074).toNat = 1074 - n := by omega
    have h2 : (-(-(n : Int))).toNat = n := by omega
    rw [if_neg h, h1, h2, scaleK_split n (by omega), ← Nat.mul_assoc, nat_compare_mul _ _ _ (Nat.pow_pos (by decide))]

/-- magnitude of a non-NaN float in units of `2^-1074` (for infinity: the value the exponent field 2047 would have) -/
def F64.mag (f : F64) : Nat := f.mant * 2 ^ (f.expo + 1074).toNat

theorem F64.mag_eq (f : F64) : f.mag = if f.exp = 0 then f.frac else (f.frac + 2 ^ 52) * 2 ^ (f.exp - 1) := by
  unfold F64.mag F64.mant F64.expo
  by_cases h : f.exp = 0
  · simp [h]
  · have : ((f.exp : Int) - 1075 + 1074).toNat = f.exp - 1 := by omega
    simp [h, this]

theorem f64_frac_lt (b : Nat) : (f64 b).frac < 2 ^ 52 := Nat.mod_lt _ (by decide)
theorem f64_exp_lt (b : Nat) : (f64 b).exp < 2048 := Nat.mod_lt _ (by decide)

theorem mag_lt_of_exp_lt (fa fb : F64) (ha : fa.frac < 2 ^ 52) (h : fa.exp < fb.exp) : fa.mag < fb.mag := by
  rw [F64.mag_eq, F64.mag_eq, if_neg (by omega : ¬ fb.exp = 0)]
  have hq : 0 < 2 ^ (fb.exp - 1) := Nat.two_pow_pos _
  have h2 : 2 ^ 52 * 2 ^ (fb.exp - 1) ≤ (fb.frac + 2 ^ 52) * 2 ^ (fb.exp - 1) := Nat.mul_le_mul_right _ (by omega)
  by_cases h0 : fa.exp = 0
  · rw [if_pos h0]
    have : 2 ^ 52 * 1 ≤ 2 ^ 52 * 2 ^ (fb.exp - 1) := Nat.mul_le_mul_left _ hq
    omega
  · rw [if_neg h0]
    have hp : 0 < 2 ^ (fa.exp - 1) := Nat.two_pow_pos _
    have h3 : (fa.frac + 2 ^ 52) * 2 ^ (fa.exp - 1) < (2 ^ 52 + 2 ^ 52) * 2 ^ (fa.exp - 1) :=
      Nat.mul_lt_mul_of_pos_right (by omega) hp
    have h4 : 2 ^ (fa.exp - 1) * 2 ≤ 2 ^ (fb.exp - 1) := by
      rw [← Nat.pow_succ]; exact Nat.pow_le_pow_right (by decide) (by omega)
    have h5 : (2 ^ 52 + 2 ^ 52) * 2 ^ (fa.exp - 1) = 2 ^ 52 * (2 ^ (fa.exp - 1) * 2) := by
      rw [← Nat.two_mul, Nat.mul_comm 2, Nat.mul_assoc, Nat.mul_comm 2]
    have h6 : 2 ^ 52 * (2 ^ (fa.exp - 1) * 2) ≤ 2 ^ 52 * 2 ^ (fb.exp - 1) := Nat.mul_le_mul_left _ h4
    omega

theorem nat_compare_add (a b k : Nat) : compare (a + k) (b + k) = compare a b := by
  simp only [compare_nat_ite]
  have h1 : a + k < b + k ↔ a < b := by omega
  have h2 : a + k = b + k ↔ a = b := by omega
  simp only [h1, h2]

theorem expfrac_eq (fa fb : F64) (ha : fa.frac < 2 ^ 52) (hb : fb.frac < 2 ^ 52) :
    thenO (compare fa.exp fb.exp) (compare fa.frac fb.frac) = compare fa.mag fb.mag := by
  unfold thenO
  rcases Nat.lt_trichotomy fa.exp fb.exp with h | h | h
  · rw [Nat.compare_eq_lt.mpr h, Ordering.lt_then, Nat.compare_eq_lt.mpr (mag_lt_of_exp_lt fa fb ha h)]
  · rw [Nat.compare_eq_eq.mpr h, Ordering.eq_then, F64.mag_eq, F64.mag_eq, h]
    split
    · rfl
    · rw [nat_compare_mul _ _ _ (Nat.two_pow_pos _)]
      exact (nat_compare_add _ _ _).symm
  · rw [Nat.compare_eq_gt.mpr h, Ordering.gt_then, Nat.compare_eq_gt.mpr (mag_lt_of_exp_lt fb fa hb h)]

theorem F64.mag_eq_zero (f : F64) : f.mag = 0 ↔ f.exp = 0 ∧ f.frac = 0 := by
  rw [F64.mag_eq]
  by_cases h : f.exp = 0
  · simp [h]
  · simp only [h, if_false, false_and, iff_false]
    have : 0 < (f.frac + 2 ^ 52) * 2 ^ (f.exp - 1) := Nat.mul_pos (by omega) (Nat.two_pow_pos _)
    omega

theorem F64.sign_eq (f : F64) : f.sign = smSign f.neg f.mag := by
  unfold F64.sign F64.isZero smSign
  by_cases h : f.mag = 0
  · have := (F64.mag_eq_zero f).mp h
    simp [h, this.1, this.2]
  · have h' : ¬ (f.exp = 0 ∧ f.frac = 0) := fun h' => h ((F64.mag_eq_zero f).mpr h')
    have : (f.exp == 0 && f.frac == 0) = false := by
      cases hc : (f.exp == 0 && f.frac == 0)
      · rfl
      · simp at hc; exact absurd hc h'
    simp [h, this]

theorem smSign_eq_zero (n : Bool) (v : Nat) : smSign n v = 0 ↔ v = 0 := by
  unfold smSign; cases n <;> by_cases h : v = 0 <;> simp [h]

theorem cmpNonNaN_eq (fa fb : F64) (ha : fa.frac < 2 ^ 52) (hb : fb.frac < 2 ^ 52) :
    cmpNonNaN fa fb = compare (smVal fa.neg fa.mag) (smVal fb.neg fb.mag) := by
  unfold cmpNonNaN
  rw [F64.sign_eq, F64.sign_eq, expfrac_eq fa fb ha hb, compare_smVal, ← compare_nat_rev]
  unfold thenO
  cases h : compare (smSign fa.neg fa.mag) (smSign fb.neg fb.mag) <;> simp only [Ordering.lt_then, Ordering.gt_then, Ordering.eq_then]
  have he := Int.compare_eq_eq.mp h
  by_cases h0 : smSign fa.neg fa.mag = 0
  · have h1 := (smSign_eq_zero _ _).mp h0
    have h2 := (smSign_eq_zero _ _).mp (he ▸ h0)
    simp [h1, h2]
  · simp [h0]


/-- class of a float: 2 NaN, ±1 infinities, 0 finite -/
def fcls (f : F64) : Int := if f.isNaN then 2 else if f.isInf then (if f.neg then -1 else 1) else 0
/-- value of a finite float in units of `2^-1074` (0 for non-finite ones) -/
def fkey (f : F64) : Int := if f.exp = 2047 then 0 else smVal f.neg f.mag

/-- numeric key: (class, value · 2^1074) -/
def numKey : Term → Int × Int
  | .int i => (0, i * (scaleK : Int))
  | .big n d => (0, bigVal n d * (scaleK : Int))
  | .float b => (fcls (f64 b), fkey (f64 b))
  | _ => (0, 0)

def cmpKey (p q : Int × Int) : Ordering := (compare p.1 q.1).then (compare p.2 q.2)

theorem cmpKey_swap (p q : Int × Int) : cmpKey p q = (cmpKey q p).swap := by
  unfold cmpKey; rw [Ordering.swap_then, ← compare_int_rev, ← compare_int_rev]

theorem F64.isInf_iff (f : F64) : f.isInf = true ↔ f.exp = 2047 ∧ f.frac = 0 := by simp [F64.isInf]
theorem F64.isNaN_iff (f : F64) : f.isNaN = true ↔ f.exp = 2047 ∧ f.frac ≠ 0 := by simp [F64.isNaN]

theorem smVal_big (n1 n2 : Bool) (a b : Nat) (h : b < a) :
    compare (smVal n1 a) (smVal n2 b) = if n1 then .lt else .gt := by
  cases n1
  · exact Int.compare_eq_gt.mpr (by unfold smVal; cases n2 <;> simp <;> omega)
  · exact Int.compare_eq_lt.mpr (by unfold smVal; cases n2 <;> simp <;> omega)

theorem smVal_big' (n1 n2 : Bool) (a b : Nat) (h : b < a) :
    compare (smVal n2 b) (smVal n1 a) = if n1 then .gt else .lt := by
  rw [compare_int_rev, smVal_big n1 n2 a b h]; cases n1 <;> rfl

theorem F64.isInf_false (f : F64) (h : f.exp ≠ 2047) : f.isInf = false := by
  cases hc : f.isInf
  · rfl
  · exact absurd ((F64.isInf_iff f).mp hc).1 h

theorem F64.frac_of_inf (f : F64) (hn : f.isNaN = false) (h : f.exp = 2047) : f.frac = 0 := by
  cases hc : f.frac with
  | zero => rfl
  | succ k => have := (F64.isNaN_iff f).mpr ⟨h, by omega⟩; simp [hn] at this

/-- two non-NaN floats: the comparison of the extended magnitudes is the comparison of the keys -/
theorem xkey_cmp (fa fb : F64) (ha : fa.frac < 2 ^ 52) (hb : fb.frac < 2 ^ 52) (ea : fa.exp < 2048) (eb : fb.exp < 2048)
    (na : fa.isNaN = false) (nb : fb.isNaN = false) :
    compare (smVal fa.neg fa.mag) (smVal fb.neg fb.mag) = cmpKey (fcls fa, fkey fa) (fcls fb, fkey fb) := by
  have fa0 := F64.frac_of_inf fa na
  have fb0 := F64.frac_of_inf fb nb
  unfold cmpKey fcls fkey
  simp only [na, nb, Bool.false_eq_true, if_false]
  by_cases h1 : fa.exp = 2047 <;> by_cases h2 : fb.exp = 2047
  · have i1 := (F64.isInf_iff fa).mpr ⟨h1, fa0 h1⟩
    have i2 := (F64.isInf_iff fb).mpr ⟨h2, fb0 h2⟩
    have hm : fa.mag = fb.mag := by rw [F64.mag_eq, F64.mag_eq, h1, h2, fa0 h1, fb0 h2]
    have hp : 0 < fb.mag := by
      rcases Nat.eq_zero_or_pos fb.mag with h | h
      · have := (F64.mag_eq_zero fb).mp h; omega
      · exact h
    simp only [i1, i2, h1, h2, if_true, hm]
    cases fa.neg <;> cases fb.neg
    · simp [smVal]
    · simp only [smVal, if_true, if_false, Bool.false_eq_true]
      rw [Int.compare_eq_gt.mpr (by omega)]; rfl
    · simp only [smVal, if_true, if_false, Bool.false_eq_true]
      rw [Int.compare_eq_lt.mpr (by omega)]; rfl
    · simp [smVal]
  · have i1 := (F64.isInf_iff fa).mpr ⟨h1, fa0 h1⟩
    have i2 := F64.isInf_false fb h2
    have hm := mag_lt_of_exp_lt fb fa hb (by omega)
    simp only [i1, i2, h1, h2, if_true, if_false, Bool.false_eq_true]
    rw [smVal_big _ _ _ _ hm]
    cases fa.neg <;> rfl
  · have i2 := (F64.isInf_iff fb).mpr ⟨h2, fb0 h2⟩
    have i1 := F64.isInf_false fa h1
    have hm := mag_lt_of_exp_lt fa fb ha (by omega)
    simp only [i1, i2, h1, h2, if_true, if_false, Bool.false_eq_true]
    rw [smVal_big' _ _ _ _ hm]
    cases fb.neg <;> rfl
  · simp [F64.isInf_false fa h1, F64.isInf_false fb h2, h1, h2]

theorem cmpFloat_key (a b : Nat) : cmpFloat a b = cmpKey (numKey (.float a)) (numKey (.float b)) := by
  unfold cmpFloat numKey
  by_cases ha : (f64 a).isNaN <;> by_cases hb : (f64 b).isNaN
  · have h1 := ((F64.isNaN_iff _).mp ha).1
    have h2 := ((F64.isNaN_iff _).mp hb).1
    simp [ha, hb, cmpKey, fcls, fkey, h1, h2]
  · simp only [ha, hb, Bool.true_and, Bool.false_eq_true, if_false, if_true, cmpKey, fcls]
    split <;> (try split) <;> rfl
  · simp only [ha, hb, Bool.false_and, Bool.false_eq_true, if_false, if_true, cmpKey, fcls]
    split <;> (try split) <;> rfl
  · simp only [ha, hb, Bool.false_and, Bool.false_eq_true, if_false]
    rw [cmpNonNaN_eq _ _ (f64_frac_lt a) (f64_frac_lt b)]
    exact xkey_cmp _ _ (f64_frac_lt a) (f64_frac_lt b) (f64_exp_lt a) (f64_exp_lt b) (by simpa using ha) (by simpa using hb)

theorem smVal_mul (n : Bool) (v k : Nat) : smVal n v * (k : Int) = smVal n (v * k) := by
  unfold smVal; cases n <;> simp [Int.neg_mul]

theorem smSign_mul (n : Bool) (v k : Nat) (hk : 0 < k) : smSign n (v * k) = smSign n v := by
  unfold smSign
  have : v * k = 0 ↔ v = 0 := by
    constructor
    · intro h; rcases Nat.mul_eq_zero.mp h with h | h
      · exact h
      · exact absurd h (Nat.ne_of_gt hk)
    · intro h; simp [h]
  simp only [this]

theorem F64.expo_ge (f : F64) : -1074 ≤ f.expo := by
  unfold F64.expo; by_cases h : f.exp = 0 <;> simp [h] <;> omega

theorem smSign_inf (n : Bool) (v : Nat) (h : 0 < v) : smSign n v = if n then -1 else 1 := by
  unfold smSign; simp [Nat.ne_of_gt h]

theorem smSign_cases (n : Bool) (v : Nat) : smSign n v = -1 ∨ smSign n v = 0 ∨ smSign n v = 1 := by
  unfold smSign; cases n <;> by_cases h : v = 0 <;> simp [h]

/-- integer (sign, magnitude) against a float -/
theorem cmpSignedMagFloat_key (n : Bool) (d : Bytes) (bits : Nat) :
    cmpSignedMagFloat n d bits = cmpKey (0, bigVal n d * (scaleK : Int)) (fcls (f64 bits), fkey (f64 bits)) := by
  unfold cmpSignedMagFloat
  simp only []
  generalize hf : f64 bits = f
  by_cases hn : f.isNaN
  · have h02 : compare (0 : Int) 2 = .lt := by decide
    simp [hn, cmpKey, fcls, h02]
  · have hn' : f.isNaN = false := by simpa using hn
    rw [if_neg hn, signum_eq, F64.sign_eq, bigVal_eq, smVal_mul]
    unfold cmpKey fcls fkey thenO
    simp only [hn', Bool.false_eq_true, if_false]
    by_cases he : f.exp = 2047
    · have hfr := F64.frac_of_inf f hn' he
      have hi := (F64.isInf_iff f).mpr ⟨he, hfr⟩
      have hp : 0 < f.mag := by
        rcases Nat.eq_zero_or_pos f.mag with h | h
        · have := (F64.mag_eq_zero f).mp h; omega
        · exact h
      simp only [hi, he, if_true, smSign_inf _ _ hp]
      rcases smSign_cases n (magVal d) with h | h | h <;> cases f.neg <;> simp [h] <;> rfl
    · have hi := F64.isInf_false f he
      simp only [hi, he, if_false, Bool.false_eq_true]
      rw [cmpNatDyadic_eq _ _ _ (F64.expo_ge f)]
      rw [compare_smVal, smSign_mul _ _ _ scaleK_pos, Int.compare_eq_eq.mpr (rfl : (0 : Int) = 0), Ordering.eq_then]
      simp only [ordRev, ← compare_nat_rev]
      change (compare (smSign n (magVal d)) (smSign f.neg f.mag)).then
        (if (smSign n (magVal d) == 0) = true then Ordering.eq
          else if smSign n (magVal d) < 0 then compare f.mag (magVal d * scaleK) else compare (magVal d * scaleK) f.mag) = _
      cases h : compare (smSign n (magVal d)) (smSign f.neg f.mag) <;> simp only [Ordering.lt_then, Ordering.gt_then, Ordering.eq_then]
      have he := Int.compare_eq_eq.mp h
      by_cases h0 : smSign n (magVal d) = 0
      · have h1 := (smSign_eq_zero _ _).mp h0
        have h2 := (smSign_eq_zero _ _).mp (he ▸ h0)
        simp [h1, h2, smSign]
      · simp [h0]

def isNum : Term → Bool
  | .int _ | .big _ _ | .float _ => true
  | _ => false

/-- big integers carry minimal digits -/
def numOk : Term → Bool
  | .big _ d => minDigits d
  | _ => true

theorem cmpKey_fin (x y : Int) : cmpKey (0, x * (scaleK : Int)) (0, y * (scaleK : Int)) = compare x y := by
  unfold cmpKey
  rw [Int.compare_eq_eq.mpr (rfl : (0 : Int) = 0), Ordering.eq_then, int_compare_mul _ _ _ scaleK_pos]

theorem bigVal_natDigits (i : Int) : bigVal (decide (i < 0)) (natDigits i.natAbs) = i := by
  rw [bigVal_eq, magVal_natDigits, smVal_natAbs]

theorem cmpIntFloat_key (i : Int) (bits : Nat) :
    cmpIntFloat i bits = cmpKey (0, i * (scaleK : Int)) (fcls (f64 bits), fkey (f64 bits)) := by
  unfold cmpIntFloat
  rw [cmpSignedMagFloat_key, bigVal_natDigits]

/-- the nine numeric constructor pairs compare as their keys -/
theorem cmpN_num (a b : Term) (ha : isNum a) (hb : isNum b) (wa : numOk a) (wb : numOk b) :
    cmpN a b = cmpKey (numKey a) (numKey b) := by
  cases a <;> simp [isNum] at ha <;> cases b <;> simp [isNum] at hb <;> simp only [numOk] at wa wb <;>
    simp only [cmpN, rank, ne_eq, not_true_eq_false, if_false, numKey, ordRev]
  · rw [cmpKey_fin]
  · rw [cmpIntFloat_key]
  · rw [cmpIntBig_eq _ _ _ wb, cmpKey_fin]
  · rw [cmpIntFloat_key, ← cmpKey_swap]
  · rw [cmpFloat_key]; rfl
  · rw [cmpSignedMagFloat_key, ← cmpKey_swap]
  · rw [cmpIntBig_eq _ _ _ wa, ← compare_int_rev, cmpKey_fin]
  · rw [cmpSignedMagFloat_key]
  · rw [cmpSignedMag_eq _ _ _ _ wa wb, cmpKey_fin]

end Edp
