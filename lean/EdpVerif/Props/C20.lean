import EdpVerif.Lemmas.ElixirRange
import EdpVerif.Lemmas.ElixirKeys
import EdpVerif.Lemmas.ElixirLists
import EdpVerif.Lemmas.ElixirUtf8
import EdpVerif.Lemmas.SerdeEx
/-
C20 — Elixir wrappers and proplist/map helpers convert back to what went in.
Property theorems only; the model is Impl/Elixir.lean (the code with the repairs of notes/C20-fixes/ applied), the
oracle Spec/Elixir.lean, helper lemmas are in Lemmas/.
-/
namespace Edp.Props.C20
open Edp Edp.Ex

/-! ## ranges: `len`, `contains`, `size_hint` and the iterator against Elixir's `Range` -/

/-- the oracle is coherent: membership is membership in the element list, the size is its length -/
theorem C20_range_spec_coherent (f l s v : Int) :
    (Spec.Range.mem f l s v = true ↔ v ∈ Spec.Range.elems f l s) ∧
    (Spec.Range.elems f l s).length = Spec.Range.count f l s :=
  ⟨spec_mem_iff f l s v, spec_length f l s⟩

/-- the iteration is Elixir's element list; `contains` is membership in it; `len` is its length as far as a
64-bit `usize` can say (it saturates at `usize::MAX`); `size_hint` is exact, or `(usize::MAX, None)` when the
length does not fit. None of these functions can panic (the model has no panic outcome: all arithmetic is total). -/
def RangeConsistent (r : Range) : Prop :=
  r.toList = Spec.Range.elems r.first r.last r.step ∧
  r.len = min r.toList.length 18446744073709551615 ∧
  (∀ v, r.contains v = decide (v ∈ r.toList)) ∧
  r.sizeHint r.iter =
    (if r.toList.length ≤ 18446744073709551615 then (r.toList.length, some r.toList.length)
     else (18446744073709551615, none))

/-- for ALL `i64` first, last and step (a zero step is the empty range, as `is_empty` defines it) -/
theorem C20_range_consistent (r : Range) (hw : r.WF) : RangeConsistent r := by
  have hl : r.toList = Spec.Range.elems r.first r.last r.step := collect_all r hw r.fuel (Nat.le_refl _)
  refine ⟨hl, ?_, ?_, ?_⟩
  · rw [len_eq r, hl, spec_length]
  · intro v
    rw [contains_eq r v, hl]
    have := spec_mem_iff r.first r.last r.step v
    by_cases h : v ∈ Spec.Range.elems r.first r.last r.step
    · simp [h, this.mpr h]
    · cases hm : Spec.Range.mem r.first r.last r.step v with
      | true => exact absurd (this.mp hm) h
      | false => simp [h]
  · rw [sizeHint_eq r, hl, spec_length]

example : (⟨I64_MIN, I64_MAX, 1⟩ : Range).WF ∧ (⟨0, -5, I64_MIN⟩ : Range).WF ∧ (⟨3, 3, 0⟩ : Range).WF := by decide

/-- `len` and `size_hint` are exact for every `i64` range except the one with 2^64 members
(`i64::MIN..=i64::MAX` with step 1, or reversed with step -1), which no `usize` can count -/
theorem C20_range_len_exact (r : Range) (hw : r.WF)
    (h : ¬ (r.first = I64_MIN ∧ r.last = I64_MAX ∧ r.step = 1) ∧ ¬ (r.first = I64_MAX ∧ r.last = I64_MIN ∧ r.step = -1)) :
    r.len = r.toList.length ∧ r.sizeHint r.iter = (r.toList.length, some r.toList.length) := by
  obtain ⟨hl, h1, -, h3⟩ := C20_range_consistent r hw
  have hc := count_le_usize r hw h
  rw [← spec_length, ← hl] at hc
  constructor
  · rw [h1]; omega
  · rw [h3, if_pos hc]

example : ¬ ((⟨0, I64_MAX, 1⟩ : Range).first = I64_MIN ∧ (⟨0, I64_MAX, 1⟩ : Range).last = I64_MAX ∧ (⟨0, I64_MAX, 1⟩ : Range).step = 1) := by
  decide

/-- the iterator stops, and `toList` is the whole iteration: more calls of `next` add nothing -/
theorem C20_range_iter_fuel (r : Range) (hw : r.WF) (fuel : Nat) (hf : r.fuel ≤ fuel) :
    r.collect fuel r.iter = r.toList := by
  rw [collect_all r hw fuel hf]
  exact (collect_all r hw r.fuel (Nat.le_refl _)).symm

example : (⟨-5, 5, 2⟩ : Range).WF ∧ (⟨-5, 5, 2⟩ : Range).fuel ≤ 100 := by decide

/-- the inputs that used to fail, evaluated on the model of the repaired code -/
theorem C20_range_former_failures :
    (⟨I64_MAX - 1, I64_MAX, 2⟩ : Range).toList = [I64_MAX - 1] ∧
    (⟨I64_MAX - 1, I64_MAX, 2⟩ : Range).contains I64_MAX = false ∧
    (⟨I64_MIN, I64_MAX, 1⟩ : Range).contains 0 = true ∧
    (⟨0, -5, I64_MIN⟩ : Range).contains 0 = true ∧
    (⟨0, I64_MAX, 1⟩ : Range).len = 9223372036854775808 ∧
    (⟨0, -5, I64_MIN⟩ : Range).len = 1 ∧
    (⟨0, I64_MIN, -1⟩ : Range).len = 9223372036854775809 ∧
    (⟨I64_MIN, I64_MAX, 1⟩ : Range).len = 18446744073709551615 ∧
    (⟨I64_MIN, I64_MAX, 1⟩ : Range).sizeHint (⟨I64_MIN, I64_MAX, 1⟩ : Range).iter = (18446744073709551615, none) := by
  decide

/-! ## wrappers: `from_term (to_term x) = x`, in memory and after the wire (`wireNorm`, see Impl/Elixir.lean) -/

/-- the field reader is `T::try_from` on the integer the term holds (small or big): it answers with exactly that
integer, and only when it lies in the range of the field's type — nothing is fabricated -/
theorem C20_field_reader_exact (lo hi : Int) (t : Term) (i : Int) :
    intIn lo hi t = some i ↔ (intOf t = some i ∧ lo ≤ i ∧ i ≤ hi) := by
  unfold intIn
  cases h : intOf t with
  | none => simp
  | some j =>
    simp only [Option.bind_some, Option.some.injEq]
    by_cases hj : lo ≤ j ∧ j ≤ hi
    · simp only [hj, and_self, if_true, Option.some.injEq]
      constructor
      · intro e; subst e; exact ⟨rfl, hj⟩
      · intro e; exact e.1
    · simp only [hj, if_false]
      constructor
      · intro e; cases e
      · rintro ⟨e, h1, h2⟩; subst e; exact absurd ⟨h1, h2⟩ hj

/-- every Rust `String` (valid UTF-8) satisfies the `IsStr` guard used below: `from_utf8_lossy` gives it back -/
theorem C20_string_lossy_fixpoint (b : Bytes) (h : validUtf8 b = true) : IsStr b := isStr_of_valid b h

example : validUtf8 [69, 116, 99, 47, 85, 84, 67] = true := by decide

theorem C20_range_term_roundtrip (r : Range) (hw : r.WF) : Range.fromTerm r.toTerm = some r := by
  obtain ⟨h0, h1, h2, h3⟩ := range_look
  unfold Range.fromTerm Range.toTerm
  simp only [mkMap_eq, structModule_lift, fldWith_lift, getA_mkA_reidx (range_reidx r), h0, h1, h2, h3, Option.map_some]
  simp only [val, Range.fields, List.map_cons, List.map_nil, List.getD_cons_zero, List.getD_cons_succ,
    Option.bind_some, atomName, bne_self_eq_false, Bool.false_eq_true, if_false, i64In]
  obtain ⟨a1, a2, a3⟩ := hw
  rw [intIn_int _ _ _ a1, intIn_int _ _ _ a2, intIn_int _ _ _ a3]

example : (⟨1, 10, 1⟩ : Range).WF := by decide

/-- a range survives encode + decode whatever its fields are: wide integers come back as big integers, which the
field reader accepts -/
theorem C20_range_term_wire (r : Range) (hw : r.WF) : Range.fromTerm (wireNorm r.toTerm) = some r := by
  obtain ⟨h0, h1, h2, h3⟩ := range_lookW
  unfold Range.fromTerm Range.toTerm
  simp only [mkMap_eq, wireNorm_map_lift, structModule_lift, fldWith_lift, getA_wire_reidx (range_reidx r), h0, h1, h2, h3,
    Option.map_some]
  simp only [val, Range.fields, List.map_cons, List.map_nil, List.getD_cons_zero, List.getD_cons_succ, wireNorm,
    Option.bind_some, atomName, bne_self_eq_false, Bool.false_eq_true, if_false, i64In, intIn_wireInt]
  obtain ⟨a1, a2, a3⟩ := hw
  rw [intIn_int _ _ _ a1, intIn_int _ _ _ a2, intIn_int _ _ _ a3]

example : (⟨1099511627776, 5, 2⟩ : Range).WF ∧ (⟨I64_MIN, I64_MAX, 1⟩ : Range).WF := by decide

theorem C20_date_roundtrip (d : Date) (hw : d.WF) : Date.fromTerm d.toTerm = some d ∧ Date.fromTerm (wireNorm d.toTerm) = some d := by
  obtain ⟨h0, h1, h2, h3, -⟩ := date_look
  obtain ⟨w0, w1, w2, w3, -⟩ := date_lookW
  obtain ⟨a1, a2, a3⟩ := hw
  unfold Date.fromTerm Date.toTerm
  simp only [mkMap_eq, wireNorm_map_lift, structModule_lift, fldWith_lift, getA_mkA_reidx (date_reidx d),
    getA_wire_reidx (date_reidx d), h0, h1, h2, h3, w0, w1, w2, w3, Option.map_some]
  simp only [val, Date.fields, List.map_cons, List.map_nil, List.getD_cons_zero, List.getD_cons_succ, wireNorm,
    Option.bind_some, atomName, bne_self_eq_false, Bool.false_eq_true, if_false, i32In, u8In, intIn_wireInt]
  rw [intIn_int _ _ _ a1, intIn_int _ _ _ a2, intIn_int _ _ _ a3]
  exact ⟨rfl, rfl⟩

example : (⟨2025, 12, 25⟩ : Date).WF := by decide

/-- `from_term` invents nothing: the fields of the date it returns are the integers the term holds, and they fit
the field types -/
theorem C20_date_faithful (m : List (Term × Term)) (d : Date) (h : Date.fromTerm (.map m) = some d) :
    (fld m kYear).bind intOf = some d.year ∧ (fld m kMonth).bind intOf = some d.month ∧
    (fld m kDay).bind intOf = some d.day ∧ d.WF := by
  unfold Date.fromTerm at h
  split at h
  · cases h
  · cases hy : fldWith i32In m kYear with
    | none => simp [hy] at h
    | some y =>
      cases hm : fldWith u8In m kMonth with
      | none => simp [hy, hm] at h
      | some mo =>
        cases hd : fldWith u8In m kDay with
        | none => simp [hy, hm, hd] at h
        | some dd =>
          simp only [hy, hm, hd, Option.some.injEq] at h
          subst h
          unfold fldWith at hy hm hd
          cases ty : fld m kYear with
          | none => simp [ty] at hy
          | some t1 =>
            cases tm : fld m kMonth with
            | none => simp [tm] at hm
            | some t2 =>
              cases td : fld m kDay with
              | none => simp [td] at hd
              | some t3 =>
                simp only [ty, tm, td, Option.bind_some, i32In, u8In] at hy hm hd ⊢
                have b1 := (C20_field_reader_exact _ _ _ _).mp hy
                have b2 := (C20_field_reader_exact _ _ _ _).mp hm
                have b3 := (C20_field_reader_exact _ _ _ _).mp hd
                exact ⟨b1.1, b2.1, b3.1, b1.2, b2.2, b3.2⟩

example : Date.fromTerm (Date.toTerm ⟨2025, 12, 25⟩) = some ⟨2025, 12, 25⟩ := (C20_date_roundtrip _ (by decide)).1

/-- an out-of-range field makes `from_term` answer `None`: e.g. a month of 300 -/
theorem C20_date_rejects (m : List (Term × Term)) (v : Int) (hv : (fld m kMonth).bind intOf = some v) (hr : ¬ InU8 v) :
    Date.fromTerm (.map m) = none := by
  cases h : Date.fromTerm (.map m) with
  | none => rfl
  | some d =>
    have := C20_date_faithful m d h
    rw [hv] at this
    obtain ⟨-, e, -, -, w, -⟩ := this
    cases e
    exact absurd w hr

example : (fld [(Term.atom kMonth, Term.int 300)] kMonth).bind intOf = some 300 ∧ ¬ InU8 300 := by
  constructor
  · simp [fld, mapGet, cmp_atom]; decide
  · decide

theorem C20_time_roundtrip (x : Time) (hw : x.WF) : Time.fromTerm x.toTerm = some x ∧ Time.fromTerm (wireNorm x.toTerm) = some x := by
  obtain ⟨h0, h1, h2, h3, h4, -⟩ := time_look
  obtain ⟨w0, w1, w2, w3, w4, -⟩ := time_lookW
  obtain ⟨a1, a2, a3, a4, a5⟩ := hw
  unfold Time.fromTerm Time.toTerm
  simp only [mkMap_eq, wireNorm_map_lift, structModule_lift, fldWith_lift, fld_lift, usPart, getA_mkA_reidx (time_reidx x),
    getA_wire_reidx (time_reidx x), h0, h1, h2, h3, h4, w0, w1, w2, w3, w4, Option.map_some]
  simp only [val, Time.fields, List.map_cons, List.map_nil, List.getD_cons_zero, List.getD_cons_succ, wireNorm, wireNormL,
    Option.bind_some, atomName, bne_self_eq_false, Bool.false_eq_true, if_false, u8In, u32In, intIn_wireInt]
  rw [intIn_int _ _ _ a1, intIn_int _ _ _ a2, intIn_int _ _ _ a3, intIn_int _ _ _ a4, intIn_int _ _ _ a5]
  exact ⟨rfl, rfl⟩

example : (⟨14, 30, 0, 3000000000, 6⟩ : Time).WF := by decide

theorem C20_naive_roundtrip (x : Naive) (hw : x.WF) :
    Naive.fromTerm x.toTerm = some x ∧ Naive.fromTerm (wireNorm x.toTerm) = some x := by
  obtain ⟨h0, h1, h2, h3, h4, h5, h6, h7, -⟩ := naive_look
  obtain ⟨w0, w1, w2, w3, w4, w5, w6, w7, -⟩ := naive_lookW
  obtain ⟨a1, a2, a3, a4, a5, a6, a7, a8⟩ := hw
  unfold Naive.fromTerm Naive.toTerm
  simp only [mkMap_eq, wireNorm_map_lift, structModule_lift, fldWith_lift, fld_lift, usPart, getA_mkA_reidx (naive_reidx x),
    getA_wire_reidx (naive_reidx x), h0, h1, h2, h3, h4, h5, h6, h7, w0, w1, w2, w3, w4, w5, w6, w7, Option.map_some]
  simp only [val, Naive.fields, List.map_cons, List.map_nil, List.getD_cons_zero, List.getD_cons_succ, wireNorm, wireNormL,
    Option.bind_some, atomName, bne_self_eq_false, Bool.false_eq_true, if_false, i32In, u8In, u32In, intIn_wireInt]
  rw [intIn_int _ _ _ a1, intIn_int _ _ _ a2, intIn_int _ _ _ a3, intIn_int _ _ _ a4, intIn_int _ _ _ a5,
    intIn_int _ _ _ a6, intIn_int _ _ _ a7, intIn_int _ _ _ a8]
  exact ⟨rfl, rfl⟩

example : (⟨2025, 12, 25, 14, 30, 0, 0, 0⟩ : Naive).WF := by decide

theorem C20_datetime_roundtrip (x : DateTime) (hw : x.WF) :
    DateTime.fromTerm x.toTerm = some x ∧ DateTime.fromTerm (wireNorm x.toTerm) = some x := by
  obtain ⟨h0, h1, h2, h3, h4, h5, h6, h7, h8, h9, h10, h11, -⟩ := dt_look
  obtain ⟨w0, w1, w2, w3, w4, w5, w6, w7, w8, w9, w10, w11, -⟩ := dt_lookW
  obtain ⟨⟨a1, a2, a3, a4, a5, a6, a7, a8⟩, a9, a10, s1, s2⟩ := hw
  unfold IsStr at s1 s2
  unfold DateTime.fromTerm DateTime.toTerm
  simp only [mkMap_eq, wireNorm_map_lift, structModule_lift, fldWith_lift, fld_lift, usPart, getA_mkA_reidx (dt_reidx x),
    getA_wire_reidx (dt_reidx x), h0, h1, h2, h3, h4, h5, h6, h7, h8, h9, h10, h11,
    w0, w1, w2, w3, w4, w5, w6, w7, w8, w9, w10, w11, Option.map_some]
  simp only [val, DateTime.fields, List.map_cons, List.map_nil, List.getD_cons_zero, List.getD_cons_succ, wireNorm, wireNormL,
    Option.bind_some, atomName, bne_self_eq_false, Bool.false_eq_true, if_false, i32In, u8In, u32In, intIn_wireInt,
    asErlangString, s1, s2]
  rw [intIn_int _ _ _ a1, intIn_int _ _ _ a2, intIn_int _ _ _ a3, intIn_int _ _ _ a4, intIn_int _ _ _ a5,
    intIn_int _ _ _ a6, intIn_int _ _ _ a7, intIn_int _ _ _ a8, intIn_int _ _ _ a9, intIn_int _ _ _ a10]
  exact ⟨rfl, rfl⟩

example : (⟨⟨2025, 12, 25, 14, 30, 0, 0, 0⟩, [85, 84, 67], [85, 84, 67], 0, 0⟩ : DateTime).WF := by decide

/-! ## exceptions -/

/-- ArgumentError, RuntimeError, ArithmeticError (any module name): the message comes back, also after the wire -/
theorem C20_msg_exception_roundtrip (module msg : Bytes) (hm : IsStr msg) :
    msgExcFromTerm module (msgExcToTerm module msg) = some msg ∧
    msgExcFromTerm module (wireNorm (msgExcToTerm module msg)) = some msg := by
  obtain ⟨h0, -, h2⟩ := msg_look
  obtain ⟨w0, -, w2⟩ := msg_lookW
  unfold msgExcFromTerm msgExcToTerm excMap
  simp only [mkMap_eq, wireNorm_map_lift, structModule_lift, fld_lift, getA_mkA_reidx (msg_reidx module (.bin msg)),
    getA_wire_reidx (msg_reidx module (.bin msg)), h0, h2, w0, w2, Option.map_some]
  simp only [val, excFields, List.map_cons, List.map_nil, List.getD_cons_zero, List.getD_cons_succ, wireNorm,
    Option.bind_some, atomName, bne_self_eq_false, Bool.false_eq_true, if_false, asErlangString, and_self]
  unfold IsStr at hm
  rw [hm]

example : IsStr [98, 97, 100, 32, 97, 114, 103] ∧ IsStr [230, 151, 165, 230, 156, 172] ∧ ¬ IsStr [240, 159, 152] := by decide

/-- MatchError, BadMapError, BadFunctionError, CaseClauseError, WithClauseError: the carried term comes back; after
the wire it is the wire image of the term -/
theorem C20_term_exception_roundtrip (module : Bytes) (x : Term) :
    termExcFromTerm module (termExcToTerm module x) = some x ∧
    termExcFromTerm module (wireNorm (termExcToTerm module x)) = some (wireNorm x) := by
  obtain ⟨h0, -, h2⟩ := texc_look
  obtain ⟨w0, -, w2⟩ := texc_lookW
  unfold termExcFromTerm termExcToTerm excMap
  simp only [mkMap_eq, wireNorm_map_lift, structModule_lift, fld_lift, getA_mkA_reidx (texc_reidx module x),
    getA_wire_reidx (texc_reidx module x), h0, h2, w0, w2, Option.map_some]
  simp only [val, excFields, List.map_cons, List.map_nil, List.getD_cons_zero, List.getD_cons_succ, wireNorm,
    Option.bind_some, atomName, bne_self_eq_false, Bool.false_eq_true, if_false, and_self]

theorem C20_cond_exception_roundtrip :
    condExcFromTerm condExcToTerm = some () ∧ condExcFromTerm (wireNorm condExcToTerm) = some () := by
  obtain ⟨h0, -⟩ := cond_look
  obtain ⟨w0, -⟩ := cond_lookW
  unfold condExcFromTerm condExcToTerm excMap
  simp only [mkMap_eq, wireNorm_map_lift, structModule_lift, getA_mkA_reidx (cond_reidx mCondClauseError),
    getA_wire_reidx (cond_reidx mCondClauseError), h0, w0, Option.map_some]
  simp only [val, excFields, List.map_cons, List.map_nil, List.getD_cons_zero, wireNorm,
    Option.bind_some, atomName, bne_self_eq_false, Bool.false_eq_true, if_false, and_self]

theorem C20_key_error_roundtrip (e : KeyError) (hm : ∀ b, e.message = some b → IsStr b) :
    (KeyError.fromTerm e.toTerm).map (fun r => (r.key, r.term, r.message)) = some (e.key, e.term, e.message) := by
  obtain ⟨h0, -, h2, h3, h4⟩ := keyerr_look
  unfold KeyError.fromTerm KeyError.toTerm excMap
  simp only [mkMap_eq, structModule_lift, fld_lift,
    getA_mkA_reidx (keyerr_reidx mKeyError e.key e.term (optBin e.message)), h0, h2, h3, h4, Option.map_some]
  simp only [val, excFields, List.map_cons, List.map_nil, List.getD_cons_zero, List.getD_cons_succ,
    Option.bind_some, atomName, bne_self_eq_false, Bool.false_eq_true, if_false]
  cases hmsg : e.message with
  | none => rfl
  | some b =>
    have := hm b hmsg
    unfold IsStr at this
    simp only [optBin, asErlangString, this]
    rfl

example : ∀ b, (⟨.atom [97], .map [], some [107]⟩ : KeyError).message = some b → IsStr b := by
  intro b h; cases h; decide

/-- UndefinedFunctionError comes back for every module name (`to_term` adds the `Elixir.` prefix, `from_term`
removes it), every function name, every `u8` arity and every reason -/
theorem C20_undef_fn_roundtrip (e : UndefFn) (ha : InU8 e.arity) (hr : ∀ b, e.reason = some b → IsStr b) :
    UndefFn.fromTerm e.toTerm = some e := by
  obtain ⟨h0, -, h2, h3, h4, h5⟩ := undef_look
  unfold UndefFn.fromTerm UndefFn.toTerm excMap
  simp only [mkMap_eq, structModule_lift, fld_lift, fldWith_lift,
    getA_mkA_reidx (undef_reidx mUndefinedFunctionError (.atom (withElixir e.module)) (.atom e.function) (.int e.arity) (optBin e.reason)),
    h0, h2, h3, h4, h5, Option.map_some]
  simp only [val, excFields, List.map_cons, List.map_nil, List.getD_cons_zero, List.getD_cons_succ,
    Option.bind_some, atomName, u8In, bne_self_eq_false, Bool.false_eq_true, if_false]
  rw [intIn_int _ _ _ ha]
  have e3 : (some (optBin e.reason)).bind asErlangString = e.reason := by
    cases hre : e.reason with
    | none => rfl
    | some b =>
      have := hr b hre
      unfold IsStr at this
      simp only [optBin, Option.bind_some, asErlangString, this]
  obtain ⟨m, f, a, r⟩ := e
  simp only at e3
  simp only [Option.bind_some] at e3
  simp only [withoutElixir_withElixir, e3]

example : InU8 (⟨[69, 108, 105, 120, 105, 114, 46, 70], [98, 97, 114], 1, none⟩ : UndefFn).arity ∧
    (∀ b, (⟨[69, 108, 105, 120, 105, 114, 46, 70], [98, 97, 114], 1, none⟩ : UndefFn).reason = some b → IsStr b) :=
  ⟨by decide, fun b h => by cases h⟩

/-- the constructors accept either spelling of the module: the stored name has one leading `Elixir.` removed -/
theorem C20_undef_fn_new (m f : Bytes) (a : Int) (r : Option Bytes) :
    (UndefFn.new (elixirDot ++ m) f a r).module = m ∧
    (elixirDot.isPrefixOf m = false → (UndefFn.new m f a r).module = m) := by
  constructor
  · exact withoutElixir_withElixir m
  · intro h
    simp [UndefFn.new, withoutElixir, stripPrefix, h]

/-- FunctionClauseError comes back for every combination of present and absent fields. Excluded are only the
values the representation itself cannot tell from "absent": a function called `nil` and the argument term `nil`. -/
theorem C20_fn_clause_roundtrip (e : FnClause) (hf : e.function ≠ some kNil)
    (ha : ∀ a, e.arity = some a → InU8 a) (hg : ∀ g, e.args = some g → isNilAtom g = false) :
    (FnClause.fromTerm e.toTerm).map (fun r => (r.module, r.function, r.arity, r.args)) =
      some (e.module, e.function, e.arity, e.args) := by
  obtain ⟨h0, -, h2, h3, h4, h5⟩ := fncl_look
  unfold FnClause.fromTerm FnClause.toTerm excMap
  simp only [mkMap_eq, structModule_lift, fld_lift, fldWith_lift, getA_mkA_reidx (fncl_reidx mFunctionClauseError _ _ _ _),
    h0, h2, h3, h4, h5, Option.map_some]
  simp only [val, excFields, List.map_cons, List.map_nil, List.getD_cons_zero, List.getD_cons_succ,
    Option.bind_some, atomName, bne_self_eq_false, Bool.false_eq_true, if_false, Option.map_some]
  obtain ⟨mo, fn, ar, ag⟩ := e
  simp only at hf ha hg
  have c1 : ∀ mo' : Option Bytes, (((some (match mo' with | some m => Term.atom (withElixir m) | none => Term.atom kNil)).filter
      (fun a => !isNilAtom a)).bind atomName).map withoutElixir = mo' := by
    intro mo'
    cases mo' with
    | none => rfl
    | some m => simp [Option.filter, elixir_atom_not_nil, atomName, withoutElixir_withElixir]
  have c2 : ∀ fn' : Option Bytes, fn' ≠ some kNil →
      ((some (match fn' with | some f => Term.atom f | none => Term.atom kNil)).filter
        (fun a => !isNilAtom a)).bind atomName = fn' := by
    intro fn' hf'
    cases fn' with
    | none => rfl
    | some f =>
      have : (f == kNil) = false := by
        cases h : f == kNil with
        | false => rfl
        | true => exact absurd (by rw [eq_of_beq h]) hf'
      simp [Option.filter, isNilAtom, atomName, this]
  have c3 : ∀ ar' : Option Int, (∀ a, ar' = some a → InU8 a) →
      (some (match ar' with | some a => Term.int a | none => Term.atom kNil)).bind u8In = ar' := by
    intro ar' ha'
    cases ar' with
    | none => rfl
    | some a => simp only [Option.bind_some, u8In]; rw [intIn_int _ _ _ (ha' a rfl)]
  have c4 : ∀ ag' : Option Term, (∀ g, ag' = some g → isNilAtom g = false) →
      (some (ag'.getD (Term.atom kNil))).filter (fun a => !isNilAtom a) = ag' := by
    intro ag' hg'
    cases ag' with
    | none => rfl
    | some g => simp [Option.filter, hg' g rfl]
  simp only [c4 ag hg]
  have e1 := c1 mo
  have e2 := c2 fn hf
  have e3 := c3 ar ha
  exact congrArg some (Prod.ext e1 (Prod.ext e2 (Prod.ext e3 rfl)))

example : (⟨none, none, none, none⟩ : FnClause).function ≠ some kNil := by simp

/-- in particular `FunctionClauseError::empty()` comes back as itself -/
theorem C20_fn_clause_empty :
    (FnClause.fromTerm (FnClause.toTerm ⟨none, none, none, none⟩)).map (fun r => (r.module, r.function, r.arity, r.args)) =
      some (none, none, none, none) :=
  C20_fn_clause_roundtrip ⟨none, none, none, none⟩ (by simp) (by simp) (by simp)

/-- a term that is not a struct of the wrapper's module is rejected by every `from_term` -/
theorem C20_foreign_struct_rejected (t : Term) :
    (structModule t ≠ some mRange → Range.fromTerm t = none) ∧
    (structModule t ≠ some mMapSet → (MapSet.fromTerm t).isNone = true) ∧
    (structModule t ≠ some mDate → Date.fromTerm t = none) ∧
    (structModule t ≠ some mTime → Time.fromTerm t = none) ∧
    (structModule t ≠ some mNaiveDateTime → Naive.fromTerm t = none) ∧
    (structModule t ≠ some mDateTime → DateTime.fromTerm t = none) ∧
    (∀ m, structModule t ≠ some m → msgExcFromTerm m t = none ∧ termExcFromTerm m t = none) ∧
    (structModule t ≠ some mCondClauseError → condExcFromTerm t = none) ∧
    (structModule t ≠ some mKeyError → (KeyError.fromTerm t).isNone = true) ∧
    (structModule t ≠ some mUndefinedFunctionError → UndefFn.fromTerm t = none) ∧
    (structModule t ≠ some mFunctionClauseError → (FnClause.fromTerm t).isNone = true) := by
  have key : ∀ m : Bytes, structModule t ≠ some m → (structModule t != some m) = true := by
    intro m h; simp [bne, h]
  refine ⟨?_, ?_, ?_, ?_, ?_, ?_, ?_, ?_, ?_, ?_, ?_⟩
  · intro h; simp [Range.fromTerm, key _ h]
  · intro h; simp [MapSet.fromTerm, key _ h]
  · intro h; simp [Date.fromTerm, key _ h]
  · intro h; simp [Time.fromTerm, key _ h]
  · intro h; simp [Naive.fromTerm, key _ h]
  · intro h; simp [DateTime.fromTerm, key _ h]
  · intro m h; simp [msgExcFromTerm, termExcFromTerm, key _ h]
  · intro h; simp [condExcFromTerm, key _ h]
  · intro h; simp [KeyError.fromTerm, key _ h]
  · intro h; simp [UndefFn.fromTerm, key _ h]
  · intro h; simp [FnClause.fromTerm, key _ h]

example : structModule (.tuple []) ≠ some mRange := by simp [structModule]

/-! ## map sets -/

/-- a map set (elements in `BTreeSet` order, `Asc`) comes back from its `:sets` v2 struct -/
theorem C20_mapset_roundtrip_partial (s : MapSet) (hs : Asc s.elements) :
    (MapSet.fromTerm s.toTerm).map (·.elements) = some s.elements := by
  obtain ⟨h0, h1⟩ := mapset_look
  have hin : s.inner = s.elements.map (fun e => (e, Term.list [])) := by
    unfold MapSet.inner
    have hid : s.elements.map (fun e => e) = s.elements := by simp
    have := foldl_mapInsert_asc (fun e => e) (fun _ => Term.list []) s.elements [] (by rw [hid]; exact hs)
      (fun p hp => by cases hp)
    simpa using this
  unfold MapSet.fromTerm MapSet.toTerm
  simp only [mkMap_eq, structModule_lift, fld_lift, getA_mkA_reidx (mapset_reidx s), h0, h1, Option.map_some]
  simp only [val, MapSet.fields, List.map_cons, List.map_nil, List.getD_cons_zero, List.getD_cons_succ,
    Option.bind_some, atomName, bne_self_eq_false, Bool.false_eq_true, if_false, Option.map_some, hin, List.map_map]
  have : (List.map ((fun x => x.fst) ∘ fun e => (e, Term.list [])) s.elements) = s.elements := by
    rw [show ((fun x : Term × Term => x.fst) ∘ fun e => (e, Term.list [])) = id from rfl, List.map_id]
  rw [this, foldl_setInsert_asc s.elements [] hs (by simp)]
  simp

example : Asc [.atom [97], .atom [98], .tuple []] := by
  simp [Asc, Term.cmp, Term.norm, Term.normL, Term.cmpN, Term.rank]; decide

/-! ## proplists, maps, builders -/

/-- normalising a proplist first does not change the map it converts to -/
theorem C20_proplist_normalize_map (l : List Term) :
    (normalizeProplist (.list l)).bind proplistToMap = proplistToMap (.list l) := by
  simp only [normalizeProplist, proplistToMap, Option.bind_some]
  congr 2
  suffices h : ∀ acc, (l.filterMap normEl).foldl insEl acc = l.foldl insEl acc from h []
  induction l with
  | nil => intro acc; rfl
  | cons a t ih =>
    intro acc
    cases hn : normEl a with
    | none =>
      rw [List.filterMap_cons_none hn, List.foldl_cons, ih]
      congr 1
      unfold normEl at hn
      split at hn
      · cases hn
      · cases hn
      · rename_i h1 h2
        unfold insEl
        split
        · exact absurd rfl (h1 _ _)
        · exact absurd rfl (h2 _)
        · rfl
    | some b =>
      rw [List.filterMap_cons_some hn, List.foldl_cons, List.foldl_cons, ih]
      congr 1
      unfold normEl at hn
      split at hn
      · cases hn; rfl
      · cases hn; rfl
      · cases hn

/-- a map (keys in `BTreeMap` order) converted to a proplist and back is the same map -/
theorem C20_map_proplist_map_partial (m : List (Term × Term)) (hm : Asc (m.map (·.1))) :
    (mapToProplist (.map m)).bind proplistToMap = some (.map m) := by
  simp only [mapToProplist, proplistToMap, Option.bind_some, Option.some.injEq, Term.map.injEq]
  rw [List.foldl_map]
  have := foldl_mapInsert_asc (fun kv : Term × Term => kv.1) (fun kv => kv.2) m [] hm (by simp)
  simpa [insEl] using this

example : Asc ([(Term.atom [97], Term.int 1), (Term.atom [98], Term.int 2)].map (·.1)) := by
  simp [Asc, cmp_atom]; decide

/-- a proplist of 2-tuples whose keys are ascending (hence distinct) converted to a map and back is the same list -/
theorem C20_proplist_map_proplist_partial (m : List (Term × Term)) (hm : Asc (m.map (·.1))) :
    (proplistToMap (.list (m.map fun kv => .tuple [kv.1, kv.2]))).bind mapToProplist =
      some (.list (m.map fun kv => .tuple [kv.1, kv.2])) := by
  have h := C20_map_proplist_map_partial m hm
  simp only [mapToProplist, Option.bind_some] at h
  rw [h]
  rfl

/-- with a duplicate key the later value wins and the earlier one is lost (pinned by the repository's own test
`test_proplist_to_map_duplicate_keys_last_wins`), while `proplist_get_atom_key` returns the earlier one -/
theorem C20_proplist_duplicate_last_wins :
    proplistToMap (.list [.tuple [.atom [97], .int 1], .tuple [.atom [97], .int 2]]) = some (.map [(.atom [97], .int 2)]) ∧
    proplistGetAtomKey (.list [.tuple [.atom [97], .int 1], .tuple [.atom [97], .int 2]]) [97] = some (.int 1) := by
  constructor
  · simp only [proplistToMap, List.foldl_cons, List.foldl_nil, insEl, mapInsert, cmp_atom]
    rfl
  · rfl

/-- the keyword list and the atom-key map built from the same `put`/`insert` calls convert into one another -/
theorem C20_builders_agree (ps : List (Bytes × Term)) :
    isProplist (kwBuild ps) = true ∧ proplistToMap (kwBuild ps) = some (akmBuild ps) := by
  constructor
  · simp [isProplist, kwBuild, isProplistElement]
  · simp only [kwBuild, akmBuild, proplistToMap, mkMap, Option.some.injEq, Term.map.injEq]
    rw [List.foldl_map]
    rfl

/-! ## derived struct mappings (`#[derive(ElixirStruct)]`, erltf_serde_derive)

The generated `Serialize` / `Deserialize` are modelled in Impl/Serde.lean (`ser (.exStruct …)`, `de (.exStruct …)`,
`deExFields`; the struct key and the module prefix are regenerated from the macro's source, Generated/Misc.lean) and tied to
the real derive output by the c15 correspondence run (two derived types, perturbed maps).  Field types range over the whole
universe of C15 (every integer width, strings, options, containers, nested derived structs …). -/

/-- a derived struct converts to a term and back to an equal value, also after that term has been through the wire encoding
(`Serde.wireT`: integers beyond 32 bits as big integers, …) — for every module name, every list of fields of every type of
the universe, every value.  The guard is the one of C15 (distinct field names none of which is `__struct__`, field types
the format can carry, maps inside listed in key order). -/
theorem C20_derived_struct_roundtrip (md : Bytes) (fts : List (Bytes × Serde.Ty)) (v : Serde.Val)
    (ht : Serde.hasTy v (.exStruct md fts) = true) (hd : Spec.Serde.distinguishableW v (.exStruct md fts) = true) :
    Serde.de (.exStruct md fts) (Serde.ser v) = .ok v ∧ Serde.de (.exStruct md fts) (Serde.wireT (Serde.ser v)) = .ok v := by
  simp only [Spec.Serde.distinguishableW, Spec.Serde.distinguishable, Spec.Serde.Val.plainW, Spec.Serde.Val.plain,
    Bool.and_eq_true] at hd
  exact ⟨Serde.de_ser _ v ht hd.1.1 hd.1.2, Serde.deW _ v ht hd.1.1 hd.1.2 hd.2⟩

example : Serde.hasTy (.exStruct [85] [([97], .int .i64 1099511627776), ([98], .some (.string [104, 105]))])
      (.exStruct [85] [([97], .int .i64), ([98], .option .string)]) = true ∧
    Spec.Serde.distinguishableW (.exStruct [85] [([97], .int .i64 1099511627776), ([98], .some (.string [104, 105]))])
      (.exStruct [85] [([97], .int .i64), ([98], .option .string)]) = true := by decide

/-- a map that names ANOTHER module under `__struct__` (whichever way the key and the name are written: atom, binary or
string) is rejected, whatever else it contains -/
theorem C20_derived_struct_rejects_foreign_module (md : Bytes) (fts : List (Bytes × Serde.Ty)) (m : List (Term × Term))
    (kv : Term × Term) (hm : kv ∈ m) (hk : Serde.keyIs Serde.sStructKey kv = true)
    (hv : ∀ s, Serde.deStr kv.2 = .ok s → s ≠ Serde.sElixirDot ++ md) :
    Serde.de (.exStruct md fts) (.map m) = .error .err :=
  SerdeEx.foreign_module md fts m kv hm hk hv

example : Serde.de (.exStruct [85] []) (.map [(.atom Serde.sStructKey, .atom (Serde.sElixirDot ++ [86]))]) = .error .err := by
  apply C20_derived_struct_rejects_foreign_module [85] [] _ (.atom Serde.sStructKey, .atom (Serde.sElixirDot ++ [86])) (by simp)
    (by decide)
  intro s hs; simp [Serde.deStr] at hs; subst hs; decide

/-- a map that lacks one of the struct's fields is rejected — no value is made up for it, not even `None` for an `Option` -/
theorem C20_derived_struct_rejects_missing_field (md : Bytes) (fts : List (Bytes × Serde.Ty)) (m : List (Term × Term))
    (n : Bytes) (ty : Serde.Ty) (h : (n, ty) ∈ fts) (hf : m.filter (Serde.keyIs n) = []) :
    Serde.de (.exStruct md fts) (.map m) = .error .err :=
  SerdeEx.missing_field_de md fts m n ty h hf

example : Serde.de (.exStruct [85] [([97], .option .bool)]) (.map [(.atom Serde.sStructKey, .atom (Serde.sElixirDot ++ [85]))]) =
    .error .err :=
  C20_derived_struct_rejects_missing_field [85] _ _ [97] (.option .bool) (by simp) (by decide)

end Edp.Props.C20
