import EdpVerif.Impl.Procs
/-! Invariants of the small-step model of local processes (all schedules), used by Props/C18.lean. -/
set_option linter.unusedSimpArgs false
set_option linter.unusedVariables false
namespace Edp.Impl.Procs

@[simp] theorem upd_same {α : Type} (f : Nat → α) (i : Nat) (v : α) : upd f i v i = v := by simp [upd]
theorem upd_ne {α : Type} (f : Nat → α) {i x : Nat} (v : α) (h : x ≠ i) : upd f i v x = f x := by simp [upd, h]
theorem upd_apply {α : Type} (f : Nat → α) (i x : Nat) (v : α) : upd f i v x = if x = i then v else f x := rfl

/-- split a hypothesis `h : clientStep st t = some st'` (or `procStep …`) into its cases and substitute `st'` -/
syntax "step_cases " ident : tactic
macro_rules
  | `(tactic| step_cases $h:ident) =>
    `(tactic| (first | unfold clientStep at $h:ident | unfold procStep at $h:ident);
              (repeat' split at $h:ident) <;>
              (first | (cases $h:ident; done) | (simp only [Option.some.injEq] at $h:ident; subst $h:ident)))

/-! ### how a step may change the tables -/

theorem clientStep_byName {st st' : St} {t : Tid} (h : clientStep st t = some st') :
    st'.byName = st.byName ∨
      (∃ n p, nameFind n st.byName = none ∧ p ∈ st.byPid ∧ st'.byName = st.byName ++ [(n, p)]) ∨
      (∃ n, st'.byName = nameDel n st.byName) := by
  step_cases h
  all_goals first
    | (left; rfl)
    | (right; left; exact ⟨_, _, ‹_›, ‹_›, rfl⟩)
    | (right; right; exact ⟨_, rfl⟩)

theorem procStep_byName {st st' : St} {p : Pid} {k : Nat} (h : procStep st p k = some st') :
    ((st.procs p).pc ≠ .sweep ∧ st'.byName = st.byName) ∨
      ((st.procs p).pc = .sweep ∧ st'.byName = nameSweep p st.byName) := by
  step_cases h
  all_goals first
    | (left; refine ⟨?_, rfl⟩; simp_all; done)
    | (right; exact ⟨‹_›, rfl⟩)

/-! ### FIFO: what was accepted is what was handled followed by what is queued -/

def Fifo (st : St) : Prop := ∀ p, (st.procs p).accepted.map (·.2) = (st.procs p).handled ++ (st.procs p).mailbox

theorem fifo_client {st st' : St} {t : Tid} (hi : Fifo st) (h : clientStep st t = some st') : Fifo st' := by
  step_cases h
  all_goals intro q
  all_goals have hq := hi q
  all_goals simp only [St.setC, St.ret, St.modP, St.deliver, Proc.push, upd_apply]
  all_goals (repeat' split) <;> simp_all

theorem fifo_proc {st st' : St} {p : Pid} {k : Nat} (hi : Fifo st) (h : procStep st p k = some st') : Fifo st' := by
  step_cases h
  all_goals intro q
  all_goals have hq := hi q
  all_goals have hp := hi p
  all_goals simp only [St.setC, St.ret, St.modP, St.deliver, Proc.push, upd_apply]
  all_goals (repeat' split) <;> simp_all

theorem fifo_step {st st' : St} {e : Ev} (hi : Fifo st) (h : stepEv st e = some st') : Fifo st' := by
  cases e with
  | start t op =>
    simp only [stepEv] at h
    split at h
    · cases h; exact hi
    · cases h
  | cont t => exact fifo_client hi h
  | proc p k => exact fifo_proc hi h

/-- an invariant of every step holds along every schedule -/
theorem run_induction {P : St → Prop} (hstep : ∀ st e st', P st → stepEv st e = some st' → P st')
    {st : St} (h : P st) (evs : List Ev) : P (run st evs) := by
  induction evs generalizing st with
  | nil => exact h
  | cons e evs ih =>
    show P (run ((stepEv st e).getD st) evs)
    cases he : stepEv st e with
    | none => exact ih h
    | some st' => exact ih (hstep st e st' h he)

theorem run_cons (st : St) (e : Ev) (evs : List Ev) : run st (e :: evs) = run ((stepEv st e).getD st) evs := rfl
theorem run_append (st : St) (a b : List Ev) : run st (a ++ b) = run (run st a) b := by
  simp [run, List.foldl_append]

theorem fifo_init (cap : Nat) : Fifo (St.init cap) := by intro p; rfl

theorem fifo_run (cap : Nat) (evs : List Ev) : Fifo (run (St.init cap) evs) :=
  run_induction (fun _ _ _ => fifo_step) (fifo_init cap) evs

theorem step_of {P : St → Prop}
    (hs : ∀ st t c, P st → P (st.setC t c) )
    (hc : ∀ st t st', P st → clientStep st t = some st' → P st')
    (hp : ∀ st p k st', P st → procStep st p k = some st' → P st') :
    ∀ st e st', P st → stepEv st e = some st' → P st' := by
  intro st e st' hi h
  cases e with
  | start t op =>
    simp only [stepEv] at h
    split at h
    · cases h; exact hs _ _ _ hi
    · cases h
  | cont t => exact hc _ _ _ hi h
  | proc p k => exact hp _ _ _ _ hi h

/-! ### names -/

theorem nameFind_none_iff {n : Name} {l : List (Name × Pid)} : nameFind n l = none ↔ n ∉ l.map (·.1) := by
  induction l with
  | nil => simp [nameFind]
  | cons e l ih =>
    obtain ⟨m, p⟩ := e
    by_cases hm : m = n
    · simp [nameFind, hm]
    · simp [nameFind, hm, ih, Ne.symm hm]

theorem nameFind_some_mem {n : Name} {p : Pid} {l : List (Name × Pid)} (h : nameFind n l = some p) : (n, p) ∈ l := by
  induction l with
  | nil => simp [nameFind] at h
  | cons e l ih =>
    obtain ⟨m, q⟩ := e
    by_cases hm : m = n
    · simp [nameFind, hm] at h; simp [hm, h]
    · simp [nameFind, hm] at h; simp [ih h]

theorem nameFind_of_mem {n : Name} {p : Pid} {l : List (Name × Pid)} (hn : (l.map (·.1)).Nodup) (h : (n, p) ∈ l) :
    nameFind n l = some p := by
  induction l with
  | nil => cases h
  | cons e l ih =>
    obtain ⟨m, q⟩ := e
    simp only [List.map_cons, List.nodup_cons] at hn
    rcases List.mem_cons.mp h with e | e
    · cases e; simp [nameFind]
    · have : m ≠ n := by
        intro hm; subst hm
        exact hn.1 (List.mem_map.mpr ⟨(m, p), e, rfl⟩)
      simp [nameFind, this, ih hn.2 e]

def NamesUnique (st : St) : Prop := (st.byName.map (·.1)).Nodup

theorem nodup_keys_filter {l : List (Name × Pid)} (f : Name × Pid → Bool) (h : (l.map (·.1)).Nodup) :
    ((l.filter f).map (·.1)).Nodup :=
  List.Nodup.sublist (List.Sublist.map _ List.filter_sublist) h

theorem namesUnique_step : ∀ st e st', NamesUnique st → stepEv st e = some st' → NamesUnique st' := by
  apply step_of
  · intro st t c h; exact h
  · intro st t st' hi h
    rcases clientStep_byName h with e | ⟨n, p, hf, _, e⟩ | ⟨n, e⟩
    · unfold NamesUnique; rw [e]; exact hi
    · unfold NamesUnique; rw [e]
      simp only [List.map_append, List.map_cons, List.map_nil]
      refine List.nodup_append.mpr ⟨hi, by simp, ?_⟩
      intro a ha b hb
      simp only [List.mem_singleton] at hb
      subst hb
      intro hab; subst hab
      exact (nameFind_none_iff.mp hf) ha
    · unfold NamesUnique; rw [e]; exact nodup_keys_filter _ hi
  · intro st p k st' hi h
    rcases procStep_byName h with ⟨_, e⟩ | ⟨_, e⟩
    · unfold NamesUnique; rw [e]; exact hi
    · unfold NamesUnique; rw [e]; exact nodup_keys_filter _ hi

theorem namesUnique_run (cap : Nat) (evs : List Ev) : NamesUnique (run (St.init cap) evs) :=
  run_induction namesUnique_step (by simp [NamesUnique, St.init]) evs

/-! ### registry and process phases -/

@[simp] theorem mem_pidIns {p q : Pid} {l : List Pid} : q ∈ pidIns p l ↔ q = p ∨ q ∈ l := by
  unfold pidIns
  split
  · constructor
    · intro h; exact Or.inr h
    · rintro (h | h)
      · subst h; assumption
      · exact h
  · simp [Or.comm]

@[simp] theorem mem_pidDel {p q : Pid} {l : List Pid} : q ∈ pidDel p l ↔ q ∈ l ∧ q ≠ p := by
  simp [pidDel]

@[simp] theorem mem_nameSweep {p : Pid} {e : Name × Pid} {l : List (Name × Pid)} : e ∈ nameSweep p l ↔ e ∈ l ∧ e.2 ≠ p := by
  simp [nameSweep]

@[simp] theorem mem_nameDel {n : Name} {e : Name × Pid} {l : List (Name × Pid)} : e ∈ nameDel n l ↔ e ∈ l ∧ e.1 ≠ n := by
  simp [nameDel]

@[simp] theorem gone_none : PPc.gone .none = false := rfl
@[simp] theorem gone_recv : PPc.gone .recv = false := rfl
@[simp] theorem gone_exiting : PPc.gone .exiting = false := rfl
@[simp] theorem gone_notifyL (l : List Pid) : PPc.gone (.notifyL l) = false := rfl
@[simp] theorem gone_sendL (a : Pid) (l : List Pid) : PPc.gone (.sendL a l) = false := rfl
@[simp] theorem gone_notifyM (l : List (Pid × Ref)) : PPc.gone (.notifyM l) = false := rfl
@[simp] theorem gone_sendM (a : Pid) (r : Ref) (l : List (Pid × Ref)) : PPc.gone (.sendM a r l) = false := rfl
@[simp] theorem gone_sweep : PPc.gone .sweep = true := rfl
@[simp] theorem gone_closing : PPc.gone .closing = true := rfl
@[simp] theorem gone_dead : PPc.gone .dead = true := rfl

/-- the process whose handle a client task holds at this point of its call -/
def CPc.holds : CPc → Option Pid
  | .sendPut p _ _ => some p
  | .lk2 _ a _ => some a
  | .lk4 _ _ b => some b
  | .mon3 _ b _ => some b
  | .dem2 _ b _ => some b
  | .lkB _ b => some b
  | .lkD a _ => some a
  | .monN2 a _ _ => some a
  | _ => none

/-- the process whose handle a process task holds -/
def PPc.holds : PPc → Option Pid
  | .sendL a _ => some a
  | .sendM a _ _ => some a
  | _ => Option.none

@[simp] theorem holds_idle  : CPc.holds (.idle ) = none := rfl
@[simp] theorem holds_spawn1 {a : _} : CPc.holds (.spawn1 a) = none := rfl
@[simp] theorem holds_spawn2 {a : _} : CPc.holds (.spawn2 a) = none := rfl
@[simp] theorem holds_reg1 {a : _} {b : _} : CPc.holds (.reg1 a b) = none := rfl
@[simp] theorem holds_reg2 {a : _} {b : _} : CPc.holds (.reg2 a b) = none := rfl
@[simp] theorem holds_unreg {a : _} : CPc.holds (.unreg a) = none := rfl
@[simp] theorem holds_whereis {a : _} : CPc.holds (.whereis a) = none := rfl
@[simp] theorem holds_registered  : CPc.holds (.registered ) = none := rfl
@[simp] theorem holds_count  : CPc.holds (.count ) = none := rfl
@[simp] theorem holds_sendName {a : _} {b : _} {c : _} : CPc.holds (.sendName a b c) = none := rfl
@[simp] theorem holds_sendGet {a : _} {b : _} {c : _} : CPc.holds (.sendGet a b c) = none := rfl
@[simp] theorem holds_lk1 {a : _} {b : _} {c : _} : CPc.holds (.lk1 a b c) = none := rfl
@[simp] theorem holds_lk3 {a : _} {b : _} {c : _} : CPc.holds (.lk3 a b c) = none := rfl
@[simp] theorem holds_mon1 {a : _} {b : _} : CPc.holds (.mon1 a b) = none := rfl
@[simp] theorem holds_mon2 {a : _} {b : _} {c : _} : CPc.holds (.mon2 a b c) = none := rfl
@[simp] theorem holds_dem1 {a : _} {b : _} {c : _} : CPc.holds (.dem1 a b c) = none := rfl
@[simp] theorem holds_sendPut {p i f} : CPc.holds (.sendPut p i f) = some p := rfl
@[simp] theorem holds_lk2 {x a b} : CPc.holds (.lk2 x a b) = some a := rfl
@[simp] theorem holds_lk4 {x a b} : CPc.holds (.lk4 x a b) = some b := rfl
@[simp] theorem holds_mon3 {a b r} : CPc.holds (.mon3 a b r) = some b := rfl
@[simp] theorem holds_dem2 {a b r} : CPc.holds (.dem2 a b r) = some b := rfl
@[simp] theorem holds_lkA {a b} : CPc.holds (.lkA a b) = none := rfl
@[simp] theorem holds_lkC {a b} : CPc.holds (.lkC a b) = none := rfl
@[simp] theorem holds_monN1 {a b r} : CPc.holds (.monN1 a b r) = none := rfl
@[simp] theorem holds_lkB {a b} : CPc.holds (.lkB a b) = some b := rfl
@[simp] theorem holds_lkD {a b} : CPc.holds (.lkD a b) = some a := rfl
@[simp] theorem holds_monN2 {a b r} : CPc.holds (.monN2 a b r) = some a := rfl
@[simp] theorem pholds_none : PPc.holds .none = Option.none := rfl
@[simp] theorem pholds_recv : PPc.holds .recv = Option.none := rfl
@[simp] theorem pholds_exiting : PPc.holds .exiting = Option.none := rfl
@[simp] theorem pholds_notifyL {l} : PPc.holds (.notifyL l) = Option.none := rfl
@[simp] theorem pholds_notifyM {l} : PPc.holds (.notifyM l) = Option.none := rfl
@[simp] theorem pholds_sweep : PPc.holds .sweep = Option.none := rfl
@[simp] theorem pholds_closing : PPc.holds .closing = Option.none := rfl
@[simp] theorem pholds_dead : PPc.holds .dead = Option.none := rfl
@[simp] theorem pholds_sendL {a l} : PPc.holds (.sendL a l) = some a := rfl
@[simp] theorem pholds_sendM {a r l} : PPc.holds (.sendM a r l) = some a := rfl

structure RegInv (st : St) : Prop where
  blank : ∀ p, st.nextPid ≤ p → (st.procs p).pc = .none ∧ (st.procs p).inserted = false
  inReg : ∀ p, p ∈ st.byPid → (st.procs p).inserted = true ∧ (st.procs p).pc.gone = false ∧ (st.procs p).pc ≠ .none
  fresh : ∀ p, (st.procs p).inserted = false → (st.procs p).pc ≠ .none →
    (st.procs p).pc = .recv ∧ (st.procs p).mailbox = [] ∧ (st.procs p).closed = false
  spawn2 : ∀ t p, st.cpc t = .spawn2 p → (st.procs p).inserted = false ∧ (st.procs p).pc = .recv
  spawn2_inj : ∀ t t' p, st.cpc t = .spawn2 p → st.cpc t' = .spawn2 p → t = t'
  holdC : ∀ t p, (st.cpc t).holds = some p → (st.procs p).inserted = true
  holdP : ∀ q a, (st.procs q).pc.holds = some a → (st.procs a).inserted = true
  names : ∀ n p, (n, p) ∈ st.byName → p ∈ st.byPid ∨ (st.procs p).pc = .sweep
  closedDead : ∀ p, (st.procs p).closed = true → (st.procs p).pc = .dead
  goneOut : ∀ p, (st.procs p).pc.gone = true → p ∉ st.byPid ∧ (st.procs p).inserted = true
  sentIns : ∀ t e, e ∈ st.sent t → (st.procs e.1).inserted = true

theorem regInv_init (cap : Nat) : RegInv (St.init cap) := by
  constructor <;> simp [St.init]

macro "field_auto" : tactic =>
  `(tactic| ((try simp only [St.setC, St.ret, St.modP, St.deliver, Proc.push, upd_apply]) <;> (try intros) <;> (repeat' split) <;> (try simp_all)))
theorem ins_lt {st : St} (hb : ∀ p, st.nextPid ≤ p → (st.procs p).pc = .none ∧ (st.procs p).inserted = false)
    {p : Pid} (h : (st.procs p).inserted = true) : p < st.nextPid := by
  by_cases hp : p < st.nextPid
  · exact hp
  · have := (hb p (Nat.le_of_not_lt hp)).2; rw [this] at h; cases h

theorem pc_lt {st : St} (hb : ∀ p, st.nextPid ≤ p → (st.procs p).pc = .none ∧ (st.procs p).inserted = false)
    {p : Pid} (h : (st.procs p).pc ≠ .none) : p < st.nextPid := by
  by_cases hp : p < st.nextPid
  · exact hp
  · exact absurd (hb p (Nat.le_of_not_lt hp)).1 h

theorem clientStep_cpc_ne {st st' : St} {t t' : Tid} (h : clientStep st t = some st') (hne : t' ≠ t) : st'.cpc t' = st.cpc t' := by
  step_cases h
  all_goals field_auto

theorem clientStep_spawn2_self {st st' : St} {t : Tid} {p : Pid} (h : clientStep st t = some st') (hs : st'.cpc t = .spawn2 p) :
    p = st.nextPid ∧ ∃ tr, st.cpc t = .spawn1 tr := by
  step_cases h
  all_goals (simp only [St.setC, St.ret, St.modP, St.deliver, Proc.push, upd_apply] at hs; simp_all)

theorem clientStep_holds_self {st st' : St} {t : Tid} {p : Pid} (h : clientStep st t = some st') (hs : (st'.cpc t).holds = some p) :
    p ∈ st.byPid := by
  step_cases h
  all_goals (simp only [St.setC, St.ret, St.modP, St.deliver, Proc.push, upd_apply] at hs; simp_all)

/-- what a client step does to one process record -/
theorem clientStep_procs {st st' : St} {t : Tid} (h : clientStep st t = some st') (q : Pid) :
    (st.cpc t ≠ .spawn2 q ∧ (st'.procs q).pc = (st.procs q).pc ∧ (st'.procs q).inserted = (st.procs q).inserted ∧
      (st'.procs q).closed = (st.procs q).closed ∧
      ((st'.procs q).mailbox = (st.procs q).mailbox ∨ (st.cpc t).holds = some q)) ∨
    (q = st.nextPid ∧ (∃ tr, st.cpc t = .spawn1 tr ∧ st'.procs q = { pc := .recv, trap := tr }) ∧ st'.nextPid = st.nextPid + 1) ∨
    (st.cpc t = .spawn2 q ∧ (st'.procs q).pc = (st.procs q).pc ∧ (st'.procs q).inserted = true ∧
      (st'.procs q).closed = (st.procs q).closed ∧ (st'.procs q).mailbox = (st.procs q).mailbox) := by
  step_cases h
  all_goals field_auto
  all_goals (left; intro e; exact ‹¬q = _› e.symm)

theorem clientStep_nextPid {st st' : St} {t : Tid} (h : clientStep st t = some st') :
    st'.nextPid = st.nextPid ∨ (st'.nextPid = st.nextPid + 1 ∧ ∃ tr, st.cpc t = .spawn1 tr) := by
  step_cases h
  all_goals field_auto

theorem clientStep_byPid {st st' : St} {t : Tid} (h : clientStep st t = some st') :
    st'.byPid = st.byPid ∨ (∃ p, st.cpc t = .spawn2 p ∧ st'.byPid = pidIns p st.byPid) := by
  step_cases h
  all_goals field_auto

theorem clientStep_sent {st st' : St} {t : Tid} (h : clientStep st t = some st') (t' : Tid) :
    st'.sent t' = st.sent t' ∨ (∃ p i f, st.cpc t = .sendPut p i f ∧ st'.sent t' = st.sent t' ++ [(p, .regular i f)]) := by
  step_cases h
  all_goals field_auto
theorem procStep_globals {st st' : St} {p : Pid} {k : Nat} (h : procStep st p k = some st') :
    st'.cpc = st.cpc ∧ st'.sent = st.sent ∧ st'.nextPid = st.nextPid ∧ st'.nextRef = st.nextRef ∧ st'.out = st.out ∧
      st'.nameLock = st.nameLock ∧ st'.cap = st.cap := by
  step_cases h
  all_goals field_auto

theorem procStep_byPid {st st' : St} {p : Pid} {k : Nat} (h : procStep st p k = some st') :
    (st'.byPid = st.byPid ∧ ((st'.procs p).pc.gone = (st.procs p).pc.gone)) ∨
      ((st.procs p).pc = .notifyM [] ∧ st'.byPid = pidDel p st.byPid ∧ (st'.procs p).pc = .sweep) := by
  step_cases h
  all_goals field_auto

theorem procStep_other {st st' : St} {p q : Pid} {k : Nat} (h : procStep st p k = some st') (hne : q ≠ p) :
    (st'.procs q).pc = (st.procs q).pc ∧ (st'.procs q).inserted = (st.procs q).inserted ∧
      (st'.procs q).closed = (st.procs q).closed ∧
      ((st'.procs q).mailbox = (st.procs q).mailbox ∨ (st.procs p).pc.holds = some q) := by
  step_cases h
  all_goals field_auto

theorem procStep_self {st st' : St} {p : Pid} {k : Nat} (h : procStep st p k = some st') :
    (st'.procs p).inserted = (st.procs p).inserted ∧ (st'.procs p).pc ≠ .none ∧ (st.procs p).pc ≠ .none ∧
      (∀ a, (st'.procs p).pc.holds = some a → a ∈ st.byPid) ∧
      ((st'.procs p).closed = true → (st.procs p).closed = true ∨ (st'.procs p).pc = .dead) ∧
      ((st.procs p).pc = .dead → False) ∧
      ((st.procs p).pc = .recv → (st.procs p).mailbox ≠ []) ∧
      ((st.procs p).pc.gone = true → (st'.procs p).pc.gone = true) := by
  step_cases h
  all_goals field_auto

theorem regInv_client {st st' : St} {t : Tid} (hi : RegInv st) (h : clientStep st t = some st') : RegInv st' := by
  have hP := clientStep_procs h
  have hB := clientStep_byPid h
  have hN := clientStep_nextPid h
  have hlt := @pc_lt st hi.blank
  have hilt := @ins_lt st hi.blank
  have spawn2_old : ∀ q, st.cpc t = .spawn2 q → q < st.nextPid := fun q hs =>
    hlt (by rw [(hi.spawn2 t q hs).2]; simp)
  have hmem : ∀ q, q ∈ st'.byPid → q ∈ st.byPid ∨ st.cpc t = .spawn2 q := by
    intro q hq
    rcases hB with e | ⟨p, hs, e⟩
    · left; rwa [e] at hq
    · rw [e] at hq
      rcases mem_pidIns.mp hq with rfl | hm
      · right; exact hs
      · left; exact hm
  have hmem' : ∀ q, q ∈ st.byPid → q ∈ st'.byPid := by
    intro q hq
    rcases hB with e | ⟨p, hs, e⟩
    · rwa [e]
    · rw [e]; exact mem_pidIns.mpr (Or.inr hq)
  -- `inserted` only grows
  have hins : ∀ q, (st.procs q).inserted = true → (st'.procs q).inserted = true := by
    intro q hq
    rcases hP q with ⟨_, _, h2, _⟩ | ⟨rfl, _, _⟩ | ⟨_, _, h2, _⟩
    · rw [h2]; exact hq
    · exact absurd (hilt hq) (Nat.lt_irrefl _)
    · exact h2
  constructor
  · -- blank
    intro q hq
    have hq0 : st.nextPid ≤ q := by
      rcases hN with e | ⟨e, _⟩ <;> rw [e] at hq
      · exact hq
      · exact Nat.le_of_succ_le hq
    rcases hP q with ⟨_, h1, h2, _⟩ | ⟨rfl, _, hn⟩ | ⟨hs, _⟩
    · rw [h1, h2]; exact hi.blank q hq0
    · rw [hn] at hq; exact absurd hq (Nat.not_succ_le_self _)
    · exact absurd (spawn2_old q hs) (Nat.not_lt.mpr hq0)
  · -- inReg
    intro q hq
    rcases hP q with ⟨hns, h1, h2, _⟩ | ⟨rfl, ⟨tr, hs1, _⟩, _⟩ | ⟨hs, h1, h2, _⟩
    · rcases hmem q hq with hm | hs
      · rw [h1, h2]; exact hi.inReg q hm
      · exact absurd hs hns
    · rcases hmem _ hq with hm | hs
      · exact absurd (hi.blank st.nextPid (Nat.le_refl _)).1 (hi.inReg _ hm).2.2
      · rw [hs1] at hs; cases hs
    · have := hi.spawn2 t q hs
      rw [h1, h2, this.2]; simp
  · -- fresh
    intro q hq1 hq2
    rcases hP q with ⟨hns, h1, h2, h3, h4⟩ | ⟨rfl, ⟨tr, hs1, e⟩, _⟩ | ⟨hs, h1, h2, _⟩
    · rw [h1, h3]; rw [h2] at hq1; rw [h1] at hq2
      have := hi.fresh q hq1 hq2
      refine ⟨this.1, ?_, this.2.2⟩
      rcases h4 with h4 | h4
      · rw [h4]; exact this.2.1
      · have := hi.holdC t q h4; rw [this] at hq1; cases hq1
    · rw [e]; simp
    · rw [h2] at hq1; cases hq1
  · -- spawn2
    intro t' p hs
    by_cases ht : t' = t
    · subst ht
      obtain ⟨rfl, tr, hs1⟩ := clientStep_spawn2_self h hs
      rcases hP st.nextPid with ⟨_, h1, h2, _⟩ | ⟨_, ⟨tr', hs1', e⟩, _⟩ | ⟨hs2, _⟩
      · exfalso
        -- the allocation step replaces the record: the first alternative is impossible only via pc
        have := (hi.blank st.nextPid (Nat.le_refl _))
        revert hs
        unfold clientStep at h
        rw [hs1] at h
        simp only [Option.some.injEq] at h
        subst h
        intro _
        simp [St.setC, upd_apply, this.1] at h1
      · rw [e]; simp
      · rw [hs1] at hs2; cases hs2
    · rw [clientStep_cpc_ne h ht] at hs
      have old := hi.spawn2 t' p hs
      rcases hP p with ⟨_, h1, h2, _⟩ | ⟨rfl, _, _⟩ | ⟨hs2, _⟩
      · rw [h1, h2]; exact old
      · exact absurd (hlt (p := st.nextPid) (by rw [old.2]; simp)) (Nat.lt_irrefl _)
      · exact absurd (hi.spawn2_inj _ _ _ hs hs2) ht
  · -- spawn2_inj
    intro t1 t2 p h1 h2
    by_cases e1 : t1 = t <;> by_cases e2 : t2 = t
    · rw [e1, e2]
    · subst e1
      obtain ⟨rfl, _⟩ := clientStep_spawn2_self h h1
      rw [clientStep_cpc_ne h e2] at h2
      exact absurd (hlt (p := st.nextPid) (by rw [(hi.spawn2 _ _ h2).2]; simp)) (Nat.lt_irrefl _)
    · subst e2
      obtain ⟨rfl, _⟩ := clientStep_spawn2_self h h2
      rw [clientStep_cpc_ne h e1] at h1
      exact absurd (hlt (p := st.nextPid) (by rw [(hi.spawn2 _ _ h1).2]; simp)) (Nat.lt_irrefl _)
    · rw [clientStep_cpc_ne h e1] at h1
      rw [clientStep_cpc_ne h e2] at h2
      exact hi.spawn2_inj _ _ _ h1 h2
  · -- holdC
    intro t' p hh
    by_cases ht : t' = t
    · subst ht
      exact hins p (hi.inReg p (clientStep_holds_self h hh)).1
    · rw [clientStep_cpc_ne h ht] at hh
      exact hins p (hi.holdC t' p hh)
  · -- holdP
    intro q a hh
    rcases hP q with ⟨_, h1, _⟩ | ⟨rfl, ⟨tr, _, e⟩, _⟩ | ⟨_, h1, _⟩
    · rw [h1] at hh; exact hins a (hi.holdP q a hh)
    · rw [e] at hh; simp at hh
    · rw [h1] at hh; exact hins a (hi.holdP q a hh)
  · -- names
    intro n p hm
    have hpc : ∀ q, (st.procs q).pc = .sweep → (st'.procs q).pc = .sweep := by
      intro q hq
      rcases hP q with ⟨_, h1, _⟩ | ⟨rfl, _, _⟩ | ⟨_, h1, _⟩
      · rw [h1]; exact hq
      · exact absurd (hlt (p := st.nextPid) (by rw [hq]; simp)) (Nat.lt_irrefl _)
      · rw [h1]; exact hq
    rcases clientStep_byName h with e | ⟨n', p', _, hp', e⟩ | ⟨n', e⟩
    · rw [e] at hm
      rcases hi.names n p hm with hx | hx
      · left; exact hmem' p hx
      · right; exact hpc p hx
    · rw [e] at hm
      rcases List.mem_append.mp hm with hm | hm
      · rcases hi.names n p hm with hx | hx
        · left; exact hmem' p hx
        · right; exact hpc p hx
      · simp only [List.mem_singleton, Prod.mk.injEq] at hm
        obtain ⟨rfl, rfl⟩ := hm
        left; exact hmem' _ hp'
    · rw [e] at hm
      have hm := (mem_nameDel.mp hm).1
      rcases hi.names n p hm with hx | hx
      · left; exact hmem' p hx
      · right; exact hpc p hx
  · -- closedDead
    intro q hq
    rcases hP q with ⟨_, h1, _, h3, _⟩ | ⟨rfl, ⟨tr, _, e⟩, _⟩ | ⟨_, h1, _, h3, _⟩
    · rw [h3] at hq; rw [h1]; exact hi.closedDead q hq
    · rw [e] at hq; simp at hq
    · rw [h3] at hq; rw [h1]; exact hi.closedDead q hq
  · -- goneOut
    intro q hq
    rcases hP q with ⟨hns, h1, h2, _⟩ | ⟨rfl, ⟨tr, _, e⟩, _⟩ | ⟨hs, h1, _⟩
    · rw [h1] at hq
      have := hi.goneOut q hq
      refine ⟨?_, by rw [h2]; exact this.2⟩
      intro hm
      rcases hmem q hm with hx | hx
      · exact this.1 hx
      · exact hns hx
    · rw [e] at hq; simp at hq
    · rw [h1, (hi.spawn2 t q hs).2] at hq; simp at hq
  · -- sentIns
    intro t' e he
    rcases clientStep_sent h t' with hs | ⟨p, i, f, hc, hs⟩
    · rw [hs] at he; exact hins _ (hi.sentIns t' e he)
    · rw [hs] at he
      rcases List.mem_append.mp he with he | he
      · exact hins _ (hi.sentIns t' e he)
      · simp only [List.mem_singleton] at he
        subst he
        exact hins _ (hi.holdC t p (by rw [hc]; simp))

theorem regInv_start (st : St) (t : Tid) (c : CPc) (hi : RegInv st) (hidle : c.holds = none) (hns : ∀ p, c ≠ .spawn2 p) :
    RegInv (st.setC t c) := by
  obtain ⟨h1, h2, h3, h4, h5, h6, h7, h8, h9, h10, h11⟩ := hi
  constructor
  · exact h1
  · exact h2
  · exact h3
  · intro t' p h
    simp only [St.setC, upd_apply] at h
    split at h
    · exact absurd h (hns p)
    · exact h4 t' p h
  · intro t1 t2 p ha hb
    simp only [St.setC, upd_apply] at ha hb
    split at ha
    · exact absurd ha (hns p)
    · split at hb
      · exact absurd hb (hns p)
      · exact h5 t1 t2 p ha hb
  · intro t' p h
    simp only [St.setC, upd_apply] at h
    split at h
    · rw [hidle] at h; cases h
    · exact h6 t' p h
  · exact h7
  · exact h8
  · exact h9
  · exact h10
  · exact h11

theorem regInv_proc {st st' : St} {p : Pid} {k : Nat} (hi : RegInv st) (h : procStep st p k = some st') : RegInv st' := by
  obtain ⟨gcpc, gsent, gnext, _, _, _, _⟩ := procStep_globals h
  have hO := fun q (hq : q ≠ p) => procStep_other (q := q) h hq
  obtain ⟨sIns, sNone', sNone, sHold, sClosed, sDead, sRecv, sGone⟩ := procStep_self h
  have hB := procStep_byPid h
  -- the stepping process is inserted
  have pIns : (st.procs p).inserted = true := by
    cases hins : (st.procs p).inserted with
    | true => rfl
    | false =>
      have := hi.fresh p hins sNone
      exact absurd this.2.1 (sRecv this.1)
  have hins : ∀ q, (st'.procs q).inserted = (st.procs q).inserted := by
    intro q
    by_cases hq : q = p
    · subst hq; exact sIns
    · exact (hO q hq).2.1
  have hmem : ∀ q, q ∈ st'.byPid → q ∈ st.byPid := by
    intro q hq
    rcases hB with ⟨e, _⟩ | ⟨_, e, _⟩
    · rwa [e] at hq
    · rw [e] at hq; exact (mem_pidDel.mp hq).1
  constructor
  · -- blank
    intro q hq
    rw [gnext] at hq
    by_cases hqp : q = p
    · subst hqp; exact absurd (hi.blank q hq).1 sNone
    · rw [(hO q hqp).1, hins q]; exact hi.blank q hq
  · -- inReg
    intro q hq
    have old := hi.inReg q (hmem q hq)
    rw [hins q]
    by_cases hqp : q = p
    · subst hqp
      refine ⟨old.1, ?_, sNone'⟩
      rcases hB with ⟨_, e⟩ | ⟨_, e, _⟩
      · rw [e]; exact old.2.1
      · rw [e] at hq; exact absurd rfl (mem_pidDel.mp hq).2
    · rw [(hO q hqp).1]; exact old
  · -- fresh
    intro q hq1 hq2
    rw [hins q] at hq1
    by_cases hqp : q = p
    · subst hqp; rw [pIns] at hq1; cases hq1
    · obtain ⟨h1, _, h3, h4⟩ := hO q hqp
      rw [h1] at hq2 ⊢
      rw [h3]
      have := hi.fresh q hq1 hq2
      refine ⟨this.1, ?_, this.2.2⟩
      rcases h4 with h4 | h4
      · rw [h4]; exact this.2.1
      · have := hi.holdP p q h4; rw [this] at hq1; cases hq1
  · -- spawn2
    intro t q hs
    rw [gcpc] at hs
    have old := hi.spawn2 t q hs
    have hqp : q ≠ p := by intro e; subst e; rw [pIns] at old; cases old.1
    rw [hins q, (hO q hqp).1]; exact old
  · -- spawn2_inj
    intro t1 t2 q h1 h2
    rw [gcpc] at h1 h2
    exact hi.spawn2_inj t1 t2 q h1 h2
  · -- holdC
    intro t q hh
    rw [gcpc] at hh
    rw [hins q]; exact hi.holdC t q hh
  · -- holdP
    intro q a hh
    rw [hins a]
    by_cases hqp : q = p
    · subst hqp; exact (hi.inReg a (sHold a hh)).1
    · rw [(hO q hqp).1] at hh; exact hi.holdP q a hh
  · -- names
    intro n q hm
    rcases procStep_byName h with ⟨hnsw, e⟩ | ⟨hsw, e⟩
    · rw [e] at hm
      rcases hi.names n q hm with hx | hx
      · rcases hB with ⟨e', _⟩ | ⟨_, e', hp'⟩
        · left; rwa [e']
        · by_cases hqp : q = p
          · subst hqp; right; exact hp'
          · left; rw [e']; exact mem_pidDel.mpr ⟨hx, hqp⟩
      · right
        by_cases hqp : q = p
        · subst hqp; exact absurd hx hnsw
        · rw [(hO q hqp).1]; exact hx
    · rw [e] at hm
      obtain ⟨hm, hne⟩ := mem_nameSweep.mp hm
      have hqp : q ≠ p := hne
      rcases hi.names n q hm with hx | hx
      · left
        rcases hB with ⟨e', _⟩ | ⟨hc, _, _⟩
        · rwa [e']
        · rw [hsw] at hc; cases hc
      · right; rw [(hO q hqp).1]; exact hx
  · -- closedDead
    intro q hq
    by_cases hqp : q = p
    · subst hqp
      rcases sClosed hq with hc | hd
      · exact absurd (hi.closedDead q hc) sDead
      · exact hd
    · rw [(hO q hqp).2.2.1] at hq; rw [(hO q hqp).1]; exact hi.closedDead q hq
  · -- goneOut
    intro q hq
    rw [hins q]
    by_cases hqp : q = p
    · subst hqp
      refine ⟨?_, pIns⟩
      rcases hB with ⟨e, eg⟩ | ⟨_, e, _⟩
      · rw [e]; rw [eg] at hq; exact (hi.goneOut q hq).1
      · rw [e]; intro hm; exact (mem_pidDel.mp hm).2 rfl
    · rw [(hO q hqp).1] at hq
      have := hi.goneOut q hq
      exact ⟨fun hm => this.1 (hmem q hm), this.2⟩
  · -- sentIns
    intro t e he
    rw [gsent] at he
    rw [hins]; exact hi.sentIns t e he

theorem regInv_step : ∀ st e st', RegInv st → stepEv st e = some st' → RegInv st' := by
  intro st e st' hi h
  cases e with
  | start t op =>
    simp only [stepEv] at h
    split at h
    · cases h
      exact regInv_start st t op.entry hi (by cases op <;> rfl) (by intro p; cases op <;> simp [Op.entry])
    · cases h
  | cont t => exact regInv_client hi h
  | proc p k => exact regInv_proc hi h

theorem regInv_run (cap : Nat) (evs : List Ev) : RegInv (run (St.init cap) evs) :=
  run_induction regInv_step (regInv_init cap) evs

theorem procStep_swept {st st' : St} {p : Pid} {k : Nat} (h : procStep st p k = some st')
    (hs : (st.procs p).pc.swept = true) : (st'.procs p).pc.swept = true := by
  step_cases h
  all_goals field_auto
  all_goals simp_all [PPc.swept]

theorem procStep_terminating {st st' : St} {p : Pid} {k : Nat} (h : procStep st p k = some st')
    (hs : (st.procs p).pc.terminating = true) :
    (st'.procs p).pc.terminating = true ∧ (st'.procs p).handled = (st.procs p).handled := by
  step_cases h
  all_goals field_auto
  all_goals simp_all [PPc.terminating]

/-- a property of one process's program counter that no step of the process itself undoes is stable -/
theorem pc_stable {f : PPc → Bool} (hnone : f .none = false)
    (hself : ∀ st st' p k, procStep st p k = some st' → f (st.procs p).pc = true → f (st'.procs p).pc = true)
    {st st' : St} {e : Ev} {p : Pid} (hi : RegInv st) (h : stepEv st e = some st') (hf : f (st.procs p).pc = true) :
    f (st'.procs p).pc = true := by
  cases e with
  | start t op =>
    simp only [stepEv] at h
    split at h
    · cases h; exact hf
    · cases h
  | cont t =>
    rcases clientStep_procs h p with ⟨_, h1, _⟩ | ⟨rfl, _, _⟩ | ⟨_, h1, _⟩
    · rw [h1]; exact hf
    · rw [(hi.blank st.nextPid (Nat.le_refl _)).1, hnone] at hf; cases hf
    · rw [h1]; exact hf
  | proc q k =>
    by_cases hq : p = q
    · subst hq; exact hself _ _ _ _ h hf
    · rw [(procStep_other h hq).1]; exact hf

theorem pc_stable_run {f : PPc → Bool} (hnone : f .none = false)
    (hself : ∀ st st' p k, procStep st p k = some st' → f (st.procs p).pc = true → f (st'.procs p).pc = true)
    {st : St} {p : Pid} (hi : RegInv st) (hf : f (st.procs p).pc = true) (evs : List Ev) :
    f ((run st evs).procs p).pc = true := by
  have : RegInv (run st evs) ∧ f ((run st evs).procs p).pc = true :=
    run_induction (P := fun s => RegInv s ∧ f (s.procs p).pc = true)
      (fun s e s' hs h => ⟨regInv_step s e s' hs.1 h, pc_stable hnone hself hs.1 h hs.2⟩) ⟨hi, hf⟩ evs
  exact this.2

theorem gone_forever {st : St} {p : Pid} (hi : RegInv st) (hf : (st.procs p).pc.gone = true) (evs : List Ev) :
    ((run st evs).procs p).pc.gone = true :=
  pc_stable_run (f := PPc.gone) rfl (fun _ _ _ _ h hg => (procStep_self h).2.2.2.2.2.2.2 hg) hi hf evs

theorem swept_forever {st : St} {p : Pid} (hi : RegInv st) (hf : (st.procs p).pc.swept = true) (evs : List Ev) :
    ((run st evs).procs p).pc.swept = true :=
  pc_stable_run (f := PPc.swept) rfl (fun _ _ _ _ h hg => procStep_swept h hg) hi hf evs

theorem terminating_forever {st : St} {p : Pid} (hi : RegInv st) (hf : (st.procs p).pc.terminating = true) (evs : List Ev) :
    ((run st evs).procs p).pc.terminating = true :=
  pc_stable_run (f := PPc.terminating) rfl (fun _ _ _ _ h hg => (procStep_terminating h hg).1) hi hf evs

/-- the handled sequence changes only by the process's own receive step -/
theorem handled_frame {st st' : St} {e : Ev} {p : Pid} (hi : RegInv st) (h : stepEv st e = some st')
    (hf : (st.procs p).pc.terminating = true) : (st'.procs p).handled = (st.procs p).handled := by
  cases e with
  | start t op =>
    simp only [stepEv] at h
    split at h
    · cases h; rfl
    · cases h
  | cont t =>
    have hne : (st.procs p).pc ≠ .none := by intro e; rw [e] at hf; cases hf
    have hlt := pc_lt hi.blank hne
    revert hlt hne hf
    clear hi
    intro hf hne hlt
    change clientStep st t = some st' at h
    step_cases h
    all_goals field_auto
    all_goals (exact absurd hlt (Nat.lt_irrefl _))
  | proc q k =>
    by_cases hq : p = q
    · subst hq; exact (procStep_terminating h hf).2
    · revert hq
      change procStep st q k = some st' at h
      step_cases h
      all_goals field_auto

theorem handled_frozen {st : St} {p : Pid} (hi : RegInv st) (hf : (st.procs p).pc.terminating = true) (evs : List Ev) :
    ((run st evs).procs p).handled = (st.procs p).handled := by
  have : RegInv (run st evs) ∧ ((run st evs).procs p).pc.terminating = true ∧ ((run st evs).procs p).handled = (st.procs p).handled :=
    run_induction (P := fun s => RegInv s ∧ (s.procs p).pc.terminating = true ∧ (s.procs p).handled = (st.procs p).handled)
      (fun s e s' hs h => ⟨regInv_step s e s' hs.1 h,
        pc_stable (f := PPc.terminating) rfl (fun _ _ _ _ h hg => (procStep_terminating h hg).1) hs.1 h hs.2.1,
        (handled_frame hs.1 h hs.2.1).trans hs.2.2⟩) ⟨hi, hf, rfl⟩ evs
  exact this.2.2

/-! ### per-sender order -/

def SenderOrder (st : St) : Prop := ∀ t p, st.acceptedFrom p t = st.sentTo t p

theorem senderOrder_client {st st' : St} {t : Tid} (hr : RegInv st) (hi : SenderOrder st) (h : clientStep st t = some st') :
    SenderOrder st' := by
  have hs := hr.sentIns
  have hb := hr.blank
  clear hr
  step_cases h
  all_goals intro t' q
  all_goals have hq := hi t' q
  all_goals simp only [St.acceptedFrom, St.sentTo] at hq ⊢
  all_goals field_auto
  all_goals first
    | (intro a b hm e; subst e; have h1 := hs _ _ _ hm; have h2 := (hb _ (Nat.le_refl _)).2; rw [h1] at h2; cases h2)
    | (intro e; exact ‹¬_ = _› e.symm)

theorem senderOrder_proc {st st' : St} {p : Pid} {k : Nat} (hi : SenderOrder st) (h : procStep st p k = some st') :
    SenderOrder st' := by
  step_cases h
  all_goals intro t' q
  all_goals have hq := hi t' q
  all_goals have hp := hi t' p
  all_goals simp only [St.acceptedFrom, St.sentTo] at hq hp ⊢
  all_goals field_auto

theorem senderOrder_run (cap : Nat) (evs : List Ev) : SenderOrder (run (St.init cap) evs) := by
  have : RegInv (run (St.init cap) evs) ∧ SenderOrder (run (St.init cap) evs) :=
    run_induction (P := fun s => RegInv s ∧ SenderOrder s)
      (fun s e s' hs h => ⟨regInv_step s e s' hs.1 h, by
        cases e with
        | start t op =>
          simp only [stepEv] at h
          split at h
          · cases h; exact hs.2
          · cases h
        | cont t => exact senderOrder_client hs.1 hs.2 h
        | proc p k => exact senderOrder_proc hs.2 h⟩)
      ⟨regInv_init cap, by intro t p; rfl⟩ evs
  exact this.2

/-! ### records of pids that are not allocated yet are blank -/

def Blank (st : St) : Prop := ∀ q, st.nextPid ≤ q → st.procs q = {}

theorem blank_client {st st' : St} {t : Tid} (hr : RegInv st) (hi : Blank st) (h : clientStep st t = some st') : Blank st' := by
  have h6 := hr.holdC t
  have h4 := hr.spawn2 t
  have hb := hr.blank
  clear hr
  step_cases h
  all_goals (simp only [St.setC, St.ret, St.modP, St.deliver, Proc.push, upd_apply, Blank]; intro q hq; (repeat' split) <;> (try simp_all))
  all_goals first
    | (exact hi _ ‹_›)
    | (exact hi _ (Nat.le_of_succ_le ‹_›))
    | (exact absurd ‹_ + 1 ≤ _› (Nat.not_succ_le_self _))
    | (have := hb _ ‹_›; simp_all; done)

theorem blank_proc {st st' : St} {p : Pid} {k : Nat} (hr : RegInv st) (hi : Blank st) (h : procStep st p k = some st') : Blank st' := by
  have h7 := hr.holdP p
  have hb := hr.blank
  have hn := (procStep_self h).2.2.1
  clear hr
  step_cases h
  all_goals (simp only [St.setC, St.ret, St.modP, St.deliver, Proc.push, upd_apply, Blank]; intro q hq; (repeat' split) <;> (try simp_all))
  all_goals first
    | (exact hi _ ‹_›)
    | (have := hb _ ‹_›; simp_all; done)

theorem blank_run (cap : Nat) (evs : List Ev) : Blank (run (St.init cap) evs) := by
  have : RegInv (run (St.init cap) evs) ∧ Blank (run (St.init cap) evs) :=
    run_induction (P := fun s => RegInv s ∧ Blank s)
      (fun s e s' hs h => ⟨regInv_step s e s' hs.1 h, by
        cases e with
        | start t op =>
          simp only [stepEv] at h
          split at h
          · cases h; exact hs.2
          · cases h
        | cont t => exact blank_client hs.1 hs.2 h
        | proc p k => exact blank_proc hs.1 hs.2 h⟩)
      ⟨regInv_init cap, by intro q _; rfl⟩ evs
  exact this.2

/-! ### exit notices -/

theorem count_eraseIdx {α : Type} [DecidableEq α] {l : List α} {k : Nat} {a : α} (h : l[k]? = some a) (b : α) :
    l.count b = (l.eraseIdx k).count b + (if a = b then 1 else 0) := by
  induction l generalizing k with
  | nil => simp at h
  | cons x xs ih =>
    cases k with
    | zero =>
      simp at h; subst h
      by_cases hb : b = x
      · subst hb; simp
      · simp [List.count_cons, hb, Ne.symm hb]
    | succ k =>
      simp at h
      have := ih h
      simp only [List.eraseIdx_cons_succ, List.count_cons]
      omega

/-- p-local conservation: every process of the link snapshot is still to be visited, was sent the notice, or was skipped -/
def LinkCons (st : St) : Prop := ∀ p a,
  ((st.procs p).pc.startedL = true →
    (st.procs p).pc.todoL.count a + (st.procs p).sentL.count a + (st.procs p).skipL.count a = (st.procs p).snapL.count a) ∧
  ((st.procs p).pc.startedL = false → (st.procs p).sentL = [] ∧ (st.procs p).skipL = [])

theorem linkCons_proc {st st' : St} {p : Pid} {k : Nat} (hi : LinkCons st) (h : procStep st p k = some st') : LinkCons st' := by
  step_cases h
  all_goals intro q a
  all_goals have hq := hi q a
  all_goals have hp := hi p a
  all_goals ((try simp only [St.setC, St.ret, St.modP, St.deliver, Proc.push, upd_apply]) <;> (repeat' split) <;>
    (try simp_all [PPc.startedL, PPc.todoL, List.count_append, List.count_cons, List.count_nil]))
  all_goals first
    | omega
    | ((have h3 := count_eraseIdx ‹_ = some _› a); simp only [List.count_cons, beq_iff_eq] at h3; omega)

theorem linkCons_client {st st' : St} {t : Tid} (hi : LinkCons st) (h : clientStep st t = some st') : LinkCons st' := by
  step_cases h
  all_goals intro q a
  all_goals have hq := hi q a
  all_goals ((try simp only [St.setC, St.ret, St.modP, St.deliver, Proc.push, upd_apply]) <;> (repeat' split) <;>
    (try simp_all [PPc.startedL, PPc.todoL, List.count_append, List.count_cons, List.count_nil]))

/-- the notices in a mailbox's history are the ones the terminated process counted -/
def ExitCount (st : St) : Prop := ∀ p a, st.timesAccepted a (.exit p) = (st.procs p).sentL.count a

theorem exitCount_client {st st' : St} {t : Tid} (hb : Blank st) (hi : ExitCount st) (h : clientStep st t = some st') :
    ExitCount st' := by
  have hbn := hb st.nextPid (Nat.le_refl _)
  step_cases h
  all_goals intro q a
  all_goals have hq := hi q a
  all_goals have hq1 := hi q st.nextPid
  all_goals have hq2 := hi st.nextPid a
  all_goals simp only [St.timesAccepted] at hq hq1 hq2 ⊢
  all_goals ((try simp only [St.setC, St.ret, St.modP, St.deliver, Proc.push, upd_apply]) <;> (repeat' split) <;>
    (try simp_all [List.count_append, List.count_cons, List.count_nil]))

theorem exitCount_proc {st st' : St} {p : Pid} {k : Nat} (hi : ExitCount st) (h : procStep st p k = some st') :
    ExitCount st' := by
  step_cases h
  all_goals intro q a
  all_goals have hq := hi q a
  all_goals have hp := hi p a
  all_goals simp only [St.timesAccepted] at hq hp ⊢
  all_goals ((try simp only [St.setC, St.ret, St.modP, St.deliver, Proc.push, upd_apply]) <;> (repeat' split) <;>
    (try simp_all [List.count_append, List.count_cons, List.count_nil]))
  all_goals first
    | (intro e; exact absurd e.symm ‹_›)
    | (intro e; subst e; simp_all; done)
    | (intro e; simp_all; done)

theorem nodup_setIns {α : Type} [DecidableEq α] {x : α} {l : List α} (h : l.Nodup) : (setIns x l).Nodup := by
  unfold setIns
  split
  · exact h
  · exact List.nodup_append.mpr ⟨h, by simp, by
      intro a ha b hb; simp at hb; subst hb; intro e; subst e; contradiction⟩

theorem nodup_snoc {α : Type} {x : α} {l : List α} (h : l.Nodup) (hx : x ∉ l) : (l ++ [x]).Nodup :=
  List.nodup_append.mpr ⟨h, by simp, by
    intro a ha b hb; simp at hb; subst hb; intro e; subst e; contradiction⟩

def LinksNodup (st : St) : Prop := ∀ p, (st.procs p).links.Nodup ∧ (st.procs p).snapL.Nodup ∧
  (st.procs p).monitors.Nodup ∧ (st.procs p).snapM.Nodup

theorem nodup_filter {α : Type} {l : List α} (f : α → Bool) (h : l.Nodup) : (l.filter f).Nodup :=
  List.Nodup.sublist List.filter_sublist h

macro "nodup_close" hq:ident : tactic =>
  `(tactic| (refine ⟨?_, ?_, ?_, ?_⟩ <;> first
      | (simp; done)
      | exact ($hq).1 | exact ($hq).2.1 | exact ($hq).2.2.1 | exact ($hq).2.2.2
      | (split <;> first | exact nodup_setIns ($hq).1 | exact nodup_filter _ ($hq).1)
      | exact nodup_setIns ($hq).1 | exact nodup_filter _ ($hq).1
      | exact nodup_setIns ($hq).2.2.1 | exact nodup_filter _ ($hq).2.2.1
      | exact nodup_snoc ($hq).1 (by simp_all) | exact nodup_snoc ($hq).2.2.1 (by simp_all)))

theorem linksNodup_client {st st' : St} {t : Tid} (hi : LinksNodup st) (h : clientStep st t = some st') : LinksNodup st' := by
  step_cases h
  all_goals intro q
  all_goals have hq := hi q
  all_goals ((try simp only [St.setC, St.ret, St.modP, St.deliver, Proc.push, upd_apply]) <;> (repeat' split))
  all_goals (try subst_vars)
  all_goals first
    | exact hq
    | (nodup_close hq)

theorem linksNodup_proc {st st' : St} {p : Pid} {k : Nat} (hi : LinksNodup st) (h : procStep st p k = some st') : LinksNodup st' := by
  step_cases h
  all_goals intro q
  all_goals have hq := hi q
  all_goals ((try simp only [St.setC, St.ret, St.modP, St.deliver, Proc.push, upd_apply]) <;> (repeat' split))
  all_goals (try subst_vars)
  all_goals first
    | exact hq
    | (nodup_close hq)

def SkipInv (st : St) : Prop :=
  (∀ p a, a ∈ (st.procs p).skipL → a ∉ (st.procs p).liveL ∨ (st.procs a).pc.gone = true) ∧
  (∀ p a, a ∈ (st.procs p).liveL → a ∈ st.byPid ∨ (st.procs a).pc.gone = true)

theorem skipInv_client {st st' : St} {t : Tid} (hb : Blank st) (hi : SkipInv st) (h : clientStep st t = some st') : SkipInv st' := by
  have hbn := hb st.nextPid (Nat.le_refl _)
  obtain ⟨h1, h2⟩ := hi
  step_cases h
  all_goals constructor
  all_goals intro q a
  all_goals have hq1 := h1 q a
  all_goals have hq2 := h2 q a
  all_goals ((try simp only [St.setC, St.ret, St.modP, St.deliver, Proc.push, upd_apply]) <;> (repeat' split) <;>
    (try simp_all))

theorem skipInv_proc {st st' : St} {p : Pid} {k : Nat} (hr : RegInv st) (hc : LinkCons st) (hi : SkipInv st)
    (h : procStep st p k = some st') : SkipInv st' := by
  have hcd := hr.closedDead
  have hsk : (st.procs p).pc.startedL = false → (st.procs p).skipL = [] := fun hs => ((hc p p).2 hs).2
  clear hr hc
  obtain ⟨h1, h2⟩ := hi
  step_cases h
  all_goals constructor
  all_goals intro q a
  all_goals have hq1 := h1 q a
  all_goals have hq2 := h2 q a
  all_goals have hp1 := h1 p a
  all_goals have hp2 := h2 p a
  all_goals ((try simp only [St.setC, St.ret, St.modP, St.deliver, Proc.push, upd_apply]) <;> (repeat' split) <;>
    (try simp_all))
  all_goals first
    | (have := hsk rfl; simp_all; done)
    | (have := hsk (by rw [‹(st.procs p).pc = _›]; rfl); simp_all; done)
    | (have := hcd ‹Pid› ‹_›; grind [PPc.gone])
    | grind [PPc.gone]

/-! ### monitor notices (the same three invariants over `(watcher, reference)` pairs) -/

theorem count_eraseIdx' {α : Type} [BEq α] [LawfulBEq α] {l : List α} {k : Nat} {a : α} (h : l[k]? = some a) (b : α) :
    l.count b = (l.eraseIdx k).count b + (if a == b then 1 else 0) := by
  induction l generalizing k with
  | nil => simp at h
  | cons x xs ih =>
    cases k with
    | zero =>
      simp at h; subst h
      simp [List.count_cons]
    | succ k =>
      simp at h
      have := ih h
      simp only [List.eraseIdx_cons_succ, List.count_cons]
      omega

def MonCons (st : St) : Prop := ∀ p (x : Pid × Ref),
  ((st.procs p).pc.linksDone = true →
    (st.procs p).pc.todoM.count x + (st.procs p).sentM.count x + (st.procs p).skipM.count x = (st.procs p).snapM.count x) ∧
  ((st.procs p).pc.linksDone = false → (st.procs p).sentM = [] ∧ (st.procs p).skipM = [])

theorem monCons_proc {st st' : St} {p : Pid} {k : Nat} (hi : MonCons st) (h : procStep st p k = some st') : MonCons st' := by
  step_cases h
  all_goals intro q a
  all_goals have hq := hi q a
  all_goals have hp := hi p a
  all_goals ((try simp only [St.setC, St.ret, St.modP, St.deliver, Proc.push, upd_apply]) <;> (repeat' split) <;>
    (try simp_all [PPc.linksDone, PPc.todoM, List.count_append, List.count_cons, List.count_nil]))
  all_goals first
    | omega
    | ((have h3 := count_eraseIdx' ‹_ = some _› a); simp only [List.count_cons, beq_iff_eq] at h3 hq ⊢; omega)

theorem monCons_client {st st' : St} {t : Tid} (hi : MonCons st) (h : clientStep st t = some st') : MonCons st' := by
  step_cases h
  all_goals intro q a
  all_goals have hq := hi q a
  all_goals ((try simp only [St.setC, St.ret, St.modP, St.deliver, Proc.push, upd_apply]) <;> (repeat' split) <;>
    (try simp_all [PPc.linksDone, PPc.todoM, List.count_append, List.count_cons, List.count_nil]))

def MonCount (st : St) : Prop := ∀ p a r, st.timesAccepted a (.monExit p r) = (st.procs p).sentM.count (a, r)

theorem monCount_client {st st' : St} {t : Tid} (hb : Blank st) (hi : MonCount st) (h : clientStep st t = some st') :
    MonCount st' := by
  have hbn := hb st.nextPid (Nat.le_refl _)
  step_cases h
  all_goals intro q a r
  all_goals have hq := hi q a r
  all_goals have hq1 := hi q st.nextPid r
  all_goals have hq2 := hi st.nextPid a r
  all_goals simp only [St.timesAccepted] at hq hq1 hq2 ⊢
  all_goals ((try simp only [St.setC, St.ret, St.modP, St.deliver, Proc.push, upd_apply]) <;> (repeat' split) <;>
    (try simp_all [List.count_append, List.count_cons, List.count_nil]))

theorem monCount_proc {st st' : St} {p : Pid} {k : Nat} (hi : MonCount st) (h : procStep st p k = some st') :
    MonCount st' := by
  step_cases h
  all_goals intro q a r
  all_goals have hq := hi q a r
  all_goals have hp := hi p a r
  all_goals simp only [St.timesAccepted] at hq hp ⊢
  all_goals ((try simp only [St.setC, St.ret, St.modP, St.deliver, Proc.push, upd_apply]) <;> (repeat' split) <;>
    (try simp_all [List.count_append, List.count_cons, List.count_nil]))
  all_goals first
    | (intro e; exact absurd e.symm ‹_›)
    | (intro e; subst e; simp_all; done)
    | (intro e; simp_all; done)

def SkipInvM (st : St) : Prop :=
  (∀ p (x : Pid × Ref), x ∈ (st.procs p).skipM → x.1 ∉ (st.procs p).liveM ∨ (st.procs x.1).pc.gone = true) ∧
  (∀ p a, a ∈ (st.procs p).liveM → a ∈ st.byPid ∨ (st.procs a).pc.gone = true)

theorem skipInvM_client {st st' : St} {t : Tid} (hb : Blank st) (hi : SkipInvM st) (h : clientStep st t = some st') : SkipInvM st' := by
  have hbn := hb st.nextPid (Nat.le_refl _)
  obtain ⟨h1, h2⟩ := hi
  step_cases h
  all_goals constructor
  all_goals first | (intro q ⟨a, r⟩; have hq1 := h1 q (a, r)) | (intro q a; have hq2 := h2 q a)
  all_goals ((try simp only [St.setC, St.ret, St.modP, St.deliver, Proc.push, upd_apply]) <;> (repeat' split) <;>
    (try simp_all))

theorem skipInvM_proc {st st' : St} {p : Pid} {k : Nat} (hr : RegInv st) (hc : MonCons st) (hi : SkipInvM st)
    (h : procStep st p k = some st') : SkipInvM st' := by
  have hcd := hr.closedDead
  have hsk : (st.procs p).pc.linksDone = false → (st.procs p).skipM = [] := fun hs => ((hc p (0, 0)).2 hs).2
  clear hr hc
  obtain ⟨h1, h2⟩ := hi
  step_cases h
  all_goals constructor
  all_goals first
    | (intro q ⟨a, r⟩; have hq1 := h1 q (a, r); have hp1 := h1 p (a, r); have hq2 := h2 q a; have hp2 := h2 p a)
    | (intro q a; have hq2 := h2 q a; have hp2 := h2 p a)
  all_goals ((try simp only [St.setC, St.ret, St.modP, St.deliver, Proc.push, upd_apply]) <;> (repeat' split) <;>
    (try simp_all))
  all_goals first
    | (have := hsk rfl; simp_all; done)
    | (have := hcd ‹Pid› ‹_›; grind [PPc.gone])
    | grind [PPc.gone]

/-! ### everything together -/

structure AllInv (st : St) : Prop where
  reg : RegInv st
  blank : Blank st
  fifo : Fifo st
  order : SenderOrder st
  names : NamesUnique st
  linkCons : LinkCons st
  exitCount : ExitCount st
  nodup : LinksNodup st
  skip : SkipInv st
  monCons : MonCons st
  monCount : MonCount st
  skipM : SkipInvM st

theorem allInv_init (cap : Nat) : AllInv (St.init cap) := by
  refine ⟨regInv_init cap, ?_, fifo_init cap, ?_, ?_, ?_, ?_, ?_, ?_, ?_, ?_, ?_⟩
  · intro q _; rfl
  · intro t p; rfl
  · simp [NamesUnique, St.init]
  · intro p a; simp [St.init, PPc.startedL]
  · intro p a; simp [St.init, St.timesAccepted]
  · intro p; simp [St.init]
  · constructor <;> simp [St.init]
  · intro p a; simp [St.init, PPc.linksDone]
  · intro p a r; simp [St.init, St.timesAccepted]
  · constructor <;> simp [St.init]

theorem allInv_step : ∀ st e st', AllInv st → stepEv st e = some st' → AllInv st' := by
  intro st e st' hi h
  have hreg := regInv_step st e st' hi.reg h
  have hnames := namesUnique_step st e st' hi.names h
  have hfifo := fifo_step hi.fifo h
  cases e with
  | start t op =>
    simp only [stepEv] at h
    split at h
    · cases h
      exact ⟨hreg, hi.blank, hfifo, hi.order, hnames, hi.linkCons, hi.exitCount, hi.nodup, hi.skip, hi.monCons, hi.monCount, hi.skipM⟩
    · cases h
  | cont t =>
    exact ⟨hreg, blank_client hi.reg hi.blank h, hfifo, senderOrder_client hi.reg hi.order h, hnames,
      linkCons_client hi.linkCons h, exitCount_client hi.blank hi.exitCount h, linksNodup_client hi.nodup h,
      skipInv_client hi.blank hi.skip h, monCons_client hi.monCons h, monCount_client hi.blank hi.monCount h,
      skipInvM_client hi.blank hi.skipM h⟩
  | proc p k =>
    exact ⟨hreg, blank_proc hi.reg hi.blank h, hfifo, senderOrder_proc hi.order h, hnames,
      linkCons_proc hi.linkCons h, exitCount_proc hi.exitCount h, linksNodup_proc hi.nodup h,
      skipInv_proc hi.reg hi.linkCons hi.skip h, monCons_proc hi.monCons h, monCount_proc hi.monCount h,
      skipInvM_proc hi.reg hi.monCons hi.skipM h⟩

theorem allInv_run (cap : Nat) (evs : List Ev) : AllInv (run (St.init cap) evs) :=
  run_induction allInv_step (allInv_init cap) evs

theorem nodup_count_le_one {α : Type} [BEq α] [LawfulBEq α] {l : List α} (h : l.Nodup) (a : α) : l.count a ≤ 1 := by
  induction l with
  | nil => simp
  | cons x xs ih =>
    simp only [List.nodup_cons] at h
    by_cases hx : x = a
    · subst hx
      have : xs.count x = 0 := List.count_eq_zero.mpr h.1
      simp [this]
    · have : (x == a) = false := by simp [hx]
      simp only [List.count_cons, this]
      have := ih h.2
      simp only [Bool.false_eq_true, ↓reduceIte]
      omega

theorem count_pos_of_mem {α : Type} [BEq α] [LawfulBEq α] {l : List α} {a : α} (h : a ∈ l) : 1 ≤ l.count a :=
  List.count_pos_iff.mpr h

theorem linksDone_started {pc : PPc} (h : pc.linksDone = true) : pc.startedL = true ∧ pc.todoL = [] := by
  cases pc <;> simp_all [PPc.linksDone, PPc.startedL, PPc.todoL]

theorem monsDone_linksDone {pc : PPc} (h : pc.monsDone = true) : pc.linksDone = true ∧ pc.todoM = [] := by
  cases pc <;> simp_all [PPc.linksDone, PPc.monsDone, PPc.todoM]


end Edp.Impl.Procs
