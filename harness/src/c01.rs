//! C01: encode/decode round trip.
use crate::canon::{hex, hexarg, term_text};
use crate::tgen::{gen_term, Cfg};
use crate::Ctx;
use erltf::OwnedTerm;

pub fn variant(t: &OwnedTerm) -> &'static str {
    match t {
        OwnedTerm::Atom(_) => "atom",
        OwnedTerm::Integer(_) => "int",
        OwnedTerm::Float(_) => "float",
        OwnedTerm::Pid(_) => "pid",
        OwnedTerm::Port(_) => "port",
        OwnedTerm::Reference(_) => "ref",
        OwnedTerm::Binary(_) => "bin",
        OwnedTerm::BitBinary { .. } => "bits",
        OwnedTerm::String(_) => "str",
        OwnedTerm::List(_) => "list",
        OwnedTerm::ImproperList { .. } => "ilist",
        OwnedTerm::Map(_) => "map",
        OwnedTerm::Tuple(_) => "tuple",
        OwnedTerm::BigInt(_) => "big",
        OwnedTerm::ExternalFun(_) => "xfun",
        OwnedTerm::InternalFun(_) => "ifun",
        OwnedTerm::Nil => "nil",
    }
}

pub fn enc_result(t: &OwnedTerm) -> (String, Option<Vec<u8>>) {
    match std::panic::catch_unwind(|| erltf::encode(t)) {
        Ok(Ok(b)) => (format!("ok {}", hex(&b)), Some(b)),
        Ok(Err(_)) => ("err".to_string(), None),
        Err(_) => ("panic".to_string(), None),
    }
}

pub fn dec_result(b: &[u8]) -> (String, Option<OwnedTerm>) {
    match std::panic::catch_unwind(|| erltf::decode(b)) {
        Ok(Ok(t)) => (format!("ok {}", term_text(&t)), Some(t)),
        Ok(Err(erltf::errors::DecodeError::TrailingData(n))) => (format!("trailing {}", n), None),
        Ok(Err(_)) => ("err".to_string(), None),
        Err(_) => ("panic".to_string(), None),
    }
}

pub fn one(ctx: &mut Ctx, tag: &str, t: &OwnedTerm) {
    ctx.count(&format!("variant_{}", variant(t)));
    let tt = term_text(t);
    let (er, bytes) = enc_result(t);
    ctx.tie(tag, &format!("enc {}", tt), &er);
    let Some(bytes) = bytes else {
        ctx.count("encode_errors");
        return;
    };
    ctx.add("encoded_bytes", bytes.len() as u64);
    // oracle 1: the bytes are a valid external encoding of the value the term denotes (Lean Spec.parse)
    ctx.prop(tag, &format!("c01valid {} {}", tt, hex(&bytes)), "ok");
    let (dr, dec) = dec_result(&bytes);
    ctx.tie(tag, &format!("dec {} -", hexarg(&bytes)), &dr);
    match dec {
        None => ctx.fail("c01-own-decoder-rejects", &format!("term={} bytes={} decode={}", tt, hex(&bytes), dr)),
        Some(d) => {
            // oracle 2: the decoded term denotes the same value
            ctx.prop(tag, &format!("c01same {} {}", tt, term_text(&d)), "ok");
            // oracle 3: re-encoding reproduces the bytes
            let (er2, b2) = enc_result(&d);
            if b2.as_deref() != Some(&bytes[..]) {
                ctx.fail("c01-reencode-differs", &format!("term={} bytes={} reencode={}", tt, hex(&bytes), er2));
            }
        }
    }
}

pub fn run(ctx: &mut Ctx) {
    let n = ctx.n(1500, 60000);
    let cfg = Cfg::default();
    for _ in 0..n {
        let t = gen_term(&mut ctx.rng, &cfg, 0);
        one(ctx, "gen", &t);
    }
}
