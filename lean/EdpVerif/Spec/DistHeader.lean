import EdpVerif.Spec.Etf
/-
The distribution header (erl_ext_dist "Distribution Header", DESIGN Appendix B.2), written from the
protocol and not from the library: an independent reader, and a conforming sender with an atom cache.

  131, 68, N, Flags, AtomCacheRefs…, terms
  Flags: N/2+1 bytes of 4-bit fields, least significant nibble first (absent when N = 0);
         field i (i < N): bit 3 = NewCacheEntryFlag, bits 0–2 = SegmentIndex of reference i;
         field N: bit 0 = LongAtoms.
  Reference i: InternalSegmentIndex (1 byte) and, when new, Length (1 byte, or 2 when LongAtoms) and the UTF-8 text.
  The receiver's cache is addressed by (SegmentIndex, InternalSegmentIndex); a new reference writes that slot,
  an old one reads it.  ATOM_CACHE_REF i in the terms is reference i of *this* header.
-/
namespace Edp.Spec.DistHeader
open Edp

/-- the receiver's atom cache: slot ↦ atom text -/
abbrev Slots := List ((Nat × Nat) × Bytes)

def field (flags : Bytes) (i : Nat) : Nat :=
  match flags[i / 2]? with
  | some b => if i % 2 = 0 then b.toNat % 16 else b.toNat / 16
  | none => 0

/-- references `i, i+1, …` (`k` of them): the atoms by position, the updated cache, the rest -/
def readRefs (long : Bool) (flags : Bytes) : Nat → Nat → Slots → Bytes → Option (List Bytes × Slots × Bytes)
  | 0, _, s, bs => some ([], s, bs)
  | k + 1, i, s, bs =>
    match bs with
    | [] => none
    | idx :: r =>
      let f := field flags i
      let slot := (f % 8, idx.toNat)
      if f ≥ 8 then
        match rdN (if long then 2 else 1) r with
        | none => none
        | some (len, r1) =>
          match takeN len r1 with
          | none => none
          | some (text, r2) =>
            match readRefs long flags k (i + 1) ((slot, text) :: s) r2 with
            | some (as, s', r') => some (text :: as, s', r')
            | none => none
      else
        match s.lookup slot with
        | none => none
        | some text =>
          match readRefs long flags k (i + 1) s r with
          | some (as, s', r') => some (text :: as, s', r')
          | none => none

/-- the header after `131, 68`: atoms by position, updated cache, the bytes of the terms -/
def readHeader (s : Slots) (bs : Bytes) : Option (List Bytes × Slots × Bytes) :=
  match bs with
  | [] => none
  | n :: r =>
    if n.toNat = 0 then some ([], s, r) else
    match takeN (n.toNat / 2 + 1) r with
    | none => none
    | some (flags, r1) => readRefs (field flags n.toNat % 2 = 1) flags n.toNat 0 s r1

/-- one or more terms filling the input exactly (control message, optional payload) -/
def readTerms (env : Env) : Nat → Bytes → Option (List Value)
  | 0, _ => none
  | fuel + 1, bs =>
    match parse env (bs.length + 1) bs with
    | none => none
    | some (v, []) => some [v]
    | some (v, r) => (readTerms env fuel r).map (v :: ·)

/-- a whole header-mode message: the values of its terms and the receiver's cache afterwards.
Atom texts must be valid UTF-8 (OTP 26+: DFLAG_UTF8_ATOMS is mandatory). -/
def readMessage (inflate : Bytes → Option (Bytes × Nat)) (s : Slots) (bs : Bytes) : Option (List Value × Slots) :=
  match bs with
  | 131 :: 68 :: r =>
    match readHeader s r with
    | none => none
    | some (atoms, s', body) =>
      match atoms.mapM utf8Decode with
      | none => none
      | some refs => (readTerms { inflate, refs } (body.length + 1) body).map (·, s')
  | _ => none

def readSeq (inflate : Bytes → Option (Bytes × Nat)) : Slots → List Bytes → List (Option (List Value))
  | _, [] => []
  | s, m :: ms =>
    match readMessage inflate s m with
    | some (vs, s') => some vs :: readSeq inflate s' ms
    | none => none :: readSeq inflate s ms

/-! ### a conforming sender -/

/-- one reference as the sender decides it: the atom, the slot its hash selects, and whether it is sent as a
new entry (with the text) or as a reference to what the slot already holds -/
structure Entry where
  atom : Bytes
  seg : Nat
  idx : Nat
  new : Bool
  deriving Repr

def lenField (long : Bool) (n : Nat) : Bytes := if long then beN 2 n else beN 1 n

def upd (s : Slots) (e : Entry) : Slots := if e.new then ((e.seg, e.idx), e.atom) :: s else s

def nibOf (e : Entry) : Nat := (if e.new then 8 else 0) + e.seg

def sendRefs (long : Bool) : List Entry → Bytes
  | [] => []
  | e :: r =>
    if e.new then UInt8.ofNat e.idx :: (lenField long e.atom.length ++ e.atom ++ sendRefs long r)
    else UInt8.ofNat e.idx :: sendRefs long r

/-- the sender's (and a correct receiver's) cache after these references -/
def sendSlots : Slots → List Entry → Slots
  | s, [] => s
  | s, e :: r => sendSlots (upd s e) r

def pack : List Nat → Bytes
  | [] => []
  | [a] => [UInt8.ofNat a]
  | a :: b :: r => UInt8.ofNat (a + 16 * b) :: pack r

/-- the header a sender writes for these references (after `131, 68`); `long` is its LongAtoms flag -/
def sendHeader (long : Bool) (es : List Entry) : Bytes :=
  if es.isEmpty then [0]
  else UInt8.ofNat es.length :: (pack (es.map nibOf ++ [if long then 1 else 0]) ++ sendRefs long es)

/-- what a conforming sender respects: fields in range, lengths that fit the length field, and a reference
without text only to a slot that holds exactly that atom -/
def Conforming (long : Bool) : Slots → List Entry → Prop
  | _, [] => True
  | s, e :: r =>
    e.seg < 8 ∧ e.idx < 256 ∧ (if long then e.atom.length < 65536 else e.atom.length < 256) ∧
      (e.new = false → s.lookup (e.seg, e.idx) = some e.atom) ∧ Conforming long (upd s e) r

end Edp.Spec.DistHeader
