//! C08: control messages parse and serialise losslessly with the protocol's numbering.
//!
//! Drives the real `ControlMessage::from_term / to_term / into_term` and `ControlMessageType::from_u8`:
//!   T c08rt <term>            from_term, then to_term and into_term of the result (model: Impl/Control.lean over the
//!                             table regenerated from control.rs)
//!   T c08ser <msg>            to_term / into_term of a directly constructed message
//!   T c08wire <msg>           to_term -> erltf::encode -> erltf::decode -> from_term (model: codec model in between)
//!   T c08row <Variant>        tag and element order observed from to_term / into_term of a marker message
//!   T c08try <n>              ControlMessageType::from_u8(n) and as_u8 of the result
//!   P c08prop <term> <result> the property on that observation, judged by Spec/Control.lean (protocol table)
//!   P c08num <Variant> ..     observed tag number / element order against the protocol table
//!   P c08wireprop <msg> <res> a structured message after the wire is the same message
//!   P c08idprop <id> <term>   the serialised unlink message carries the id
//! The three defects this check found (ALIAS_SEND_TT = 38, unlink ids as bignum rejected, ids >= 2^63 written as
//! negative integers) are fixed in /repo (8d4cf38, 9ad9545); their former witnesses are ordinary cases here and must pass.
use crate::canon::term_text;
use crate::rng::Rng;
use crate::tgen::{gen_pid, gen_term, gen_u64, Cfg};
use crate::Ctx;
use edp_client::control::{ControlMessage, ControlMessageType};
use erltf::types::{Atom, BigInt, ExternalPid};
use erltf::OwnedTerm;
use std::panic::{catch_unwind, AssertUnwindSafe};

#[derive(Clone)]
pub enum FV {
    T(OwnedTerm),
    U(u64),
}

impl From<FV> for OwnedTerm {
    fn from(v: FV) -> OwnedTerm {
        match v {
            FV::T(t) => t,
            FV::U(n) => OwnedTerm::Integer(n as i64),
        }
    }
}

impl From<FV> for u64 {
    fn from(v: FV) -> u64 {
        match v {
            FV::U(n) => n,
            FV::T(_) => 0,
        }
    }
}

trait FieldText {
    fn ft(&self) -> String;
}
impl FieldText for OwnedTerm {
    fn ft(&self) -> String {
        term_text(self)
    }
}
impl FieldText for u64 {
    fn ft(&self) -> String {
        format!("#{}", self)
    }
}

macro_rules! variants {
    ($( $V:ident { $($f:ident),* } ),* $(,)?) => {
        /// every structured variant of `ControlMessage` with its field names
        pub const VARIANTS: &[(&str, &[&str])] = &[ $( (stringify!($V), &[ $(stringify!($f)),* ]) ),* ];

        fn msg_fields(m: &ControlMessage) -> Option<(&'static str, Vec<(&'static str, String)>)> {
            #[allow(unreachable_patterns)]
            match m {
                $( ControlMessage::$V { $($f),* } =>
                    Some((stringify!($V), vec![ $( (stringify!($f), FieldText::ft($f)) ),* ])), )*
                _ => None,
            }
        }

        fn build(v: &str, get: &mut dyn FnMut(&str) -> FV) -> Option<ControlMessage> {
            $( if v == stringify!($V) {
                return Some(ControlMessage::$V { $( $f: get(stringify!($f)).into() ),* });
            } )*
            None
        }
    }
}

variants! {
    Link { from_pid, to_pid },
    Send { cookie, to_pid },
    Exit { from_pid, to_pid, reason },
    UnlinkId { id, from_pid, to_pid },
    UnlinkIdAck { id, from_pid, to_pid },
    RegSend { from_pid, cookie, to_name },
    MonitorP { from_pid, to_proc, reference },
    DemonitorP { from_pid, to_proc, reference },
    MonitorPExit { from_proc, to_pid, reference, reason },
    SpawnRequest { req_id, from, group_leader, mfa, arg_list, opt_list },
    SpawnReply { req_id, to, flags, result },
    AliasSend { from_pid, alias },
    Unlink { from_pid, to_pid },
    NodeLink {},
    GroupLeader { from_pid, to_pid },
    Exit2 { from_pid, to_pid, reason },
    SendSender { from_pid, to_pid },
    PayloadExit { from_pid, to_pid },
    PayloadExit2 { from_pid, to_pid },
    PayloadMonitorPExit { from_proc, to_pid, reference },
    SendTt { cookie, to_pid, trace_token },
    ExitTt { from_pid, to_pid, trace_token, reason },
    RegSendTt { from_pid, cookie, to_name, trace_token },
    Exit2Tt { from_pid, to_pid, trace_token, reason },
    SendSenderTt { from_pid, to_pid, trace_token },
    PayloadExitTt { from_pid, to_pid, trace_token },
    PayloadExit2Tt { from_pid, to_pid, trace_token },
    SpawnRequestTt { req_id, from, group_leader, mfa, arg_list, opt_list, trace_token },
    SpawnReplyTt { req_id, to, flags, result, trace_token },
    AliasSendTt { from_pid, alias, trace_token },
}

fn is_id_field(f: &str) -> bool {
    f == "id"
}

/// `Variant{a=T;b=T}` with fields sorted by name, ids as `#n`; `Generic:<ty>{T;T}` (Lean: `Msg.text`)
pub fn msg_text(m: &ControlMessage) -> String {
    if let ControlMessage::Generic { message_type, fields } = m {
        let fs: Vec<String> = fields.iter().map(term_text).collect();
        return format!("Generic:{}{{{}}}", message_type, fs.join(";"));
    }
    match msg_fields(m) {
        Some((v, mut fs)) => {
            fs.sort_by(|a, b| a.0.cmp(b.0));
            let fs: Vec<String> = fs.iter().map(|(f, t)| format!("{}={}", f, t)).collect();
            format!("{}{{{}}}", v, fs.join(";"))
        }
        None => "Unknown{}".to_string(),
    }
}

fn opt_text(r: std::thread::Result<OwnedTerm>) -> String {
    match r {
        Ok(t) => term_text(&t),
        Err(_) => "panic".to_string(),
    }
}

fn from_term(t: &OwnedTerm) -> Result<ControlMessage, &'static str> {
    match catch_unwind(AssertUnwindSafe(|| ControlMessage::from_term(t))) {
        Ok(Ok(m)) => Ok(m),
        Ok(Err(_)) => Err("err"),
        Err(_) => Err("panic"),
    }
}

/// from_term, then both serialisers of the result
fn rt_result(t: &OwnedTerm) -> (String, Option<ControlMessage>) {
    match from_term(t) {
        Ok(m) => {
            let to = opt_text(catch_unwind(AssertUnwindSafe(|| m.to_term())));
            let mc = m.clone();
            let into = opt_text(catch_unwind(AssertUnwindSafe(move || mc.into_term())));
            // `=` abbreviates "the same text as the input" / "the same text as to_term" (keeps the ops file small)
            let into_s = if into == to { "=".to_string() } else { into };
            let to_s = if to == term_text(t) { "=".to_string() } else { to };
            (format!("ok {} {} {}", msg_text(&m), to_s, into_s), Some(m))
        }
        Err(e) => (e.to_string(), None),
    }
}

fn parse_only(t: &OwnedTerm) -> String {
    match from_term(t) {
        Ok(m) => format!("ok {}", msg_text(&m)),
        Err(e) => e.to_string(),
    }
}

fn atom(s: &str) -> OwnedTerm {
    OwnedTerm::Atom(Atom::new(s))
}

fn big(neg: bool, d: &[u8]) -> OwnedTerm {
    OwnedTerm::BigInt(BigInt::new(neg, d.to_vec()))
}

fn big_of_u64(n: u64) -> OwnedTerm {
    let mut d = n.to_le_bytes().to_vec();
    while d.len() > 1 && *d.last().unwrap() == 0 {
        d.pop();
    }
    big(false, &d)
}

fn a_pid() -> OwnedTerm {
    OwnedTerm::Pid(ExternalPid::new(Atom::new("a"), 1, 2, 3))
}

/// small element alphabet (exhaustive enumeration)
fn small_alphabet() -> Vec<OwnedTerm> {
    vec![
        OwnedTerm::Integer(0),
        OwnedTerm::Integer(-1),
        atom("a"),
        OwnedTerm::Nil,
        big(false, &[0, 0, 0, 0, 1]),
        a_pid(),
    ]
}

/// wider element alphabet: integer boundaries around the id conversions, bignums around 2^63 / 2^64
fn wide_alphabet() -> Vec<OwnedTerm> {
    let mut v = small_alphabet();
    for i in [1i64, 7, 255, 256, 2147483647, 2147483648, 4294967296, 1 << 40, i64::MAX, i64::MIN, -2147483648] {
        v.push(OwnedTerm::Integer(i));
    }
    v.push(big_of_u64(5));
    v.push(big_of_u64(1 << 31));
    v.push(big_of_u64(1 << 63));
    v.push(big_of_u64(u64::MAX));
    v.push(big(false, &[0, 0, 0, 0, 0, 0, 0, 0, 1])); // 2^64
    v.push(big(true, &[1])); // -1
    v.push(big(false, &[7, 0, 0])); // 7 with non-minimal digits
    v.push(big(false, &[255, 255, 255, 255, 255, 255, 255, 255, 0, 0])); // 2^64-1 with high zero digits
    v.push(big(false, &[0, 0, 0, 0, 0, 0, 0, 128, 0])); // 2^63 with a high zero digit
    v.push(big(false, &[0, 0, 0, 0, 0, 0, 0, 0, 0, 1])); // 2^72
    v.push(big(false, &[1, 0, 0, 0, 0, 0, 0, 0, 1, 0, 0])); // 2^64+1 with high zero digits
    v.push(big(true, &[0, 0])); // "negative" zero
    v.push(big(false, &[])); // no digits at all
    v.push(big(true, &[0, 0, 0, 0, 0, 0, 0, 128])); // -2^63
    v.push(OwnedTerm::Float(1.0));
    v.push(OwnedTerm::Binary(vec![1, 2, 3]));
    v.push(OwnedTerm::String("hi".to_string()));
    v.push(OwnedTerm::Tuple(vec![atom("m"), atom("f"), OwnedTerm::Integer(2)]));
    v.push(OwnedTerm::List(vec![OwnedTerm::Integer(1), atom("b")]));
    v
}

fn one_term(ctx: &mut Ctx, t: &OwnedTerm) {
    let tt = term_text(t);
    let (res, m) = rt_result(t);
    ctx.tie("gen", &format!("c08rt {}", tt), &res);
    ctx.prop("gen", &format!("c08prop {} {}", tt, res), "ok");
    match (&m, res.as_str()) {
        (Some(ControlMessage::Generic { .. }), _) => ctx.count("parsed_generic"),
        (Some(_), _) => ctx.count("parsed_structured"),
        (None, "err") => ctx.count("parse_err"),
        (None, _) => ctx.count("parse_panic"),
    }
    if let OwnedTerm::Tuple(els) = t {
        ctx.count(&format!("arity_{}", els.len().min(11)));
    } else {
        ctx.count("non_tuple");
    }
}

fn tuple_of(head: OwnedTerm, rest: &[OwnedTerm]) -> OwnedTerm {
    let mut v = vec![head];
    v.extend_from_slice(rest);
    OwnedTerm::Tuple(v)
}

/// all tuples with head 0..255 and arity 1..3 over the small alphabet; bad heads; non-tuples
fn exhaustive(ctx: &mut Ctx) {
    let a = small_alphabet();
    for h in 0..=255i64 {
        one_term(ctx, &tuple_of(OwnedTerm::Integer(h), &[]));
        for x in &a {
            one_term(ctx, &tuple_of(OwnedTerm::Integer(h), &[x.clone()]));
            for y in &a {
                one_term(ctx, &tuple_of(OwnedTerm::Integer(h), &[x.clone(), y.clone()]));
            }
        }
    }
    ctx.add("exhaustive", 1);
    let bad_heads = vec![
        OwnedTerm::Integer(256),
        OwnedTerm::Integer(-1),
        OwnedTerm::Integer(i64::MAX),
        OwnedTerm::Integer(i64::MIN),
        OwnedTerm::Integer(1 << 32 | 1),
        atom("a"),
        atom("link"),
        big_of_u64(5),
        big_of_u64(35),
        OwnedTerm::Float(1.0),
        OwnedTerm::Nil,
        OwnedTerm::Binary(vec![1]),
        OwnedTerm::Tuple(vec![OwnedTerm::Integer(1)]),
        a_pid(),
    ];
    for h in &bad_heads {
        one_term(ctx, &tuple_of(h.clone(), &[]));
        for x in &a {
            one_term(ctx, &tuple_of(h.clone(), &[x.clone()]));
            for y in &a {
                one_term(ctx, &tuple_of(h.clone(), &[x.clone(), y.clone()]));
                one_term(ctx, &tuple_of(h.clone(), &[x.clone(), y.clone(), x.clone()]));
            }
        }
    }
    one_term(ctx, &OwnedTerm::Tuple(vec![]));
    one_term(ctx, &OwnedTerm::List(vec![OwnedTerm::Integer(1), atom("a"), atom("b")]));
    one_term(ctx, &OwnedTerm::Nil);
    one_term(ctx, &OwnedTerm::Integer(1));
    one_term(ctx, &atom("a"));
    one_term(ctx, &OwnedTerm::ImproperList {
        elements: vec![OwnedTerm::Integer(1), atom("a")],
        tail: Box::new(atom("b")),
    });
}

/// arity 4..10 for every head 0..255, elements from the wide alphabet; the id position of 35/36 over all of it
fn wider(ctx: &mut Ctx) {
    let b = wide_alphabet();
    let per = ctx.n(2, 5);
    for h in 0..=255i64 {
        for arity in 4..=10usize {
            for _ in 0..per {
                let rest: Vec<OwnedTerm> = (0..arity - 1).map(|_| ctx.rng.pick(&b).clone()).collect();
                one_term(ctx, &tuple_of(OwnedTerm::Integer(h), &rest));
            }
        }
    }
    // every tag the protocol or the library knows, at arities around its own, with richer elements
    let cfg = Cfg { max_depth: 2, huge: false, ..Cfg::default() };
    let extra = ctx.n(6, 12);
    for h in (1..=40i64).chain([255, 0]) {
        for arity in 1..=9usize {
            for _ in 0..extra {
                let rest: Vec<OwnedTerm> = (0..arity - 1)
                    .map(|_| if ctx.rng.chance(1, 2) { ctx.rng.pick(&b).clone() } else { gen_term(&mut ctx.rng, &cfg, 1) })
                    .collect();
                one_term(ctx, &tuple_of(OwnedTerm::Integer(h), &rest));
            }
        }
    }
    for h in [35i64, 36] {
        for id in &b {
            one_term(ctx, &tuple_of(OwnedTerm::Integer(h), &[id.clone(), a_pid(), atom("b")]));
            one_term(ctx, &tuple_of(OwnedTerm::Integer(h), &[a_pid(), id.clone(), atom("b")]));
        }
    }
    // non-tuples from the general generator
    let n = ctx.n(150, 800);
    let cfg = Cfg { max_depth: 3, huge: false, ..Cfg::default() };
    for _ in 0..n {
        let t = gen_term(&mut ctx.rng, &cfg, 0);
        one_term(ctx, &t);
    }
}

pub const ID_BOUNDS: &[u64] = &[
    0, 1, 255, 256, (1 << 31) - 1, 1 << 31, (1 << 32) - 1, 1 << 32, 1 << 40, (1 << 63) - 1, 1 << 63, (1 << 63) + 1,
    u64::MAX - 1, u64::MAX,
];

/// atoms, integers, pids, binaries, nil and tuples/lists of those: what control messages usually carry, and the part
/// of the term language on which the `c08wire` tie (which goes through the codec *model*) is emitted
fn is_plain(t: &OwnedTerm) -> bool {
    match t {
        OwnedTerm::Atom(a) => a.as_str().len() <= 255 && a.as_str().is_ascii(),
        OwnedTerm::Integer(_) | OwnedTerm::Nil => true,
        OwnedTerm::Binary(b) => b.len() < 1000,
        OwnedTerm::Pid(p) => p.local_ext_bytes.is_none() && p.node.as_str().is_ascii() && p.node.as_str().len() <= 255,
        OwnedTerm::Tuple(l) => l.len() <= 255 && l.iter().all(is_plain),
        OwnedTerm::List(l) => l.iter().all(is_plain),
        _ => false,
    }
}

/// terms `erltf::decode(erltf::encode(t))` returns as the very same Rust value (integers outside the i32 range
/// come back as `BigInt`, `List([])` as `Nil`, so those are excluded)
fn is_wire_stable(t: &OwnedTerm) -> bool {
    match t {
        OwnedTerm::Integer(i) => *i >= i32::MIN as i64 && *i <= i32::MAX as i64,
        OwnedTerm::Tuple(l) => l.len() <= 255 && l.iter().all(is_wire_stable),
        OwnedTerm::List(l) => !l.is_empty() && l.iter().all(is_wire_stable),
        OwnedTerm::Atom(_) | OwnedTerm::Nil | OwnedTerm::Binary(_) | OwnedTerm::Pid(_) => is_plain(t),
        _ => false,
    }
}

fn gen_plain(r: &mut Rng, depth: u32) -> OwnedTerm {
    match r.below(if depth >= 2 { 5 } else { 7 }) {
        0 => atom(*r.pick(&["ok", "normal", "kill", "noproc", "true", "", "rex", "Elixir.Foo"])),
        1 => OwnedTerm::Integer(crate::tgen::gen_int(r)),
        2 => OwnedTerm::Pid(ExternalPid::new(Atom::new(*r.pick(&["a@h", "rabbit@localhost"])), r.next() as u32 >> 4, r.below(9) as u32, r.next() as u32)),
        3 => OwnedTerm::Nil,
        4 => OwnedTerm::Binary(r.bytes(4)),
        5 => OwnedTerm::Tuple((0..r.below(4)).map(|_| gen_plain(r, depth + 1)).collect()),
        _ => OwnedTerm::List((0..r.range(1, 3)).map(|_| gen_plain(r, depth + 1)).collect()),
    }
}

fn gen_field(r: &mut Rng, cfg: &Cfg, f: &str, plain: bool) -> OwnedTerm {
    if plain {
        return match f {
            "from_pid" | "to_pid" | "from" | "to" | "group_leader" if r.chance(3, 4) => {
                OwnedTerm::Pid(ExternalPid::new(Atom::new("a@h"), r.next() as u32 >> 4, 0, r.below(1 << 20) as u32))
            }
            _ => gen_plain(r, 0),
        };
    }
    match f {
        "from_pid" | "to_pid" | "from" | "to" | "group_leader" if r.chance(2, 3) => OwnedTerm::Pid(gen_pid(r, false)),
        "mfa" if r.chance(2, 3) => OwnedTerm::Tuple(vec![atom("m"), atom("f"), OwnedTerm::Integer(r.below(4) as i64)]),
        "cookie" if r.chance(1, 2) => atom(""),
        _ => gen_term(r, cfg, 1),
    }
}

fn one_msg(ctx: &mut Ctx, m: &ControlMessage, id: Option<u64>) {
    let mt = msg_text(m);
    let to = catch_unwind(AssertUnwindSafe(|| m.to_term()));
    let mc = m.clone();
    let into = catch_unwind(AssertUnwindSafe(move || mc.into_term()));
    let to_t = to.as_ref().ok().cloned();
    ctx.tie("gen", &format!("c08ser {}", mt), &format!("{} {}", opt_text(to), opt_text(into)));
    let Some(t) = to_t else {
        ctx.fail("c08-to-term-panics", &mt);
        return;
    };
    if let Some(n) = id {
        ctx.prop("gen", &format!("c08idprop {} {}", n, term_text(&t)), "ok");
    }
    // in memory: from_term(to_term(m))
    let (res, _) = rt_result(&t);
    ctx.tie("gen", &format!("c08rt {}", term_text(&t)), &res);
    ctx.prop("gen", &format!("c08wireprop {} {}", mt, parse_only(&t)), "ok");
    // in memory the round trip is the identity on the Rust value itself (not for a `Generic` whose type and arity
    // are those of a structured variant; the generator avoids those)
    match from_term(&t) {
        Ok(back) if back == *m => ctx.count("memory_identity"),
        Ok(back) => ctx.fail("c08-memory-roundtrip-differs", &format!("{} -> {}", mt, msg_text(&back))),
        Err(e) => ctx.fail("c08-memory-roundtrip-rejected", &format!("{} -> {}", mt, e)),
    }
    // over the wire
    let bytes = match catch_unwind(AssertUnwindSafe(|| erltf::encode(&t))) {
        Ok(Ok(b)) => b,
        _ => {
            ctx.count("wire_encode_error");
            return;
        }
    };
    let dec = match catch_unwind(AssertUnwindSafe(|| erltf::decode(&bytes))) {
        Ok(Ok(d)) => d,
        _ => {
            ctx.count("wire_decode_error");
            ctx.fail("c08-own-decoder-rejects", &mt);
            return;
        }
    };
    ctx.add("wire_bytes", bytes.len() as u64);
    let (res2, _) = rt_result(&dec);
    ctx.tie("gen", &format!("c08rt {}", term_text(&dec)), &res2);
    let after = parse_only(&dec);
    if t.as_tuple().map(|l| l.iter().all(is_plain)).unwrap_or(false) {
        ctx.tie("gen", &format!("c08wire {}", mt), &after);
        ctx.count("wire_model_tie");
    }
    ctx.prop("gen", &format!("c08wireprop {} {}", mt, after), "ok");
    if id.is_some() && t.as_tuple().map(|l| l.iter().skip(2).all(is_wire_stable)).unwrap_or(false) {
        // the fields after the id come back as the same Rust values, so the whole message must
        match from_term(&dec) {
            Ok(back) if back == *m => ctx.count("wire_identity"),
            Ok(back) => ctx.fail("c08-wire-roundtrip-differs", &format!("{} -> {}", mt, msg_text(&back))),
            Err(e) => ctx.fail("c08-wire-roundtrip-rejected", &format!("{} -> {}", mt, e)),
        }
    }
    ctx.count(if after == "err" { "wire_rejected" } else { "wire_ok" });
}

/// every structured variant with generated fields; unlink ids over the boundaries; Generic
fn structured(ctx: &mut Ctx) {
    let cfg = Cfg { max_depth: 2, huge: false, ..Cfg::default() };
    let per = ctx.n(12, 60);
    for (v, fields) in VARIANTS {
        let has_id = fields.iter().any(|f| is_id_field(f));
        let rounds = if has_id { per + ID_BOUNDS.len() } else { per };
        for k in 0..rounds {
            let id = if !has_id {
                None
            } else if k < ID_BOUNDS.len() {
                Some(ID_BOUNDS[k])
            } else {
                Some(gen_u64(&mut ctx.rng))
            };
            let mut vals: Vec<(String, FV)> = vec![];
            let plain = k % 2 == 0;
            for f in fields.iter() {
                let fv = if is_id_field(f) { FV::U(id.unwrap()) } else { FV::T(gen_field(&mut ctx.rng, &cfg, f, plain)) };
                vals.push((f.to_string(), fv));
            }
            let mut get = |f: &str| vals.iter().find(|(g, _)| g == f).map(|(_, x)| x.clone()).unwrap();
            let Some(m) = build(v, &mut get) else { continue };
            ctx.count(&format!("variant_{}", v));
            one_msg(ctx, &m, id);
        }
    }
    // Generic messages with a type the library has no arm for (these come back as Generic)
    let n = ctx.n(40, 200);
    for _ in 0..n {
        let ty = *ctx.rng.pick(&[0u8, 9, 10, 11, 14, 15, 17, 37, 38, 39, 40, 100, 200, 255]);
        let k = ctx.rng.below(6) as usize;
        let plain = ctx.rng.chance(1, 2);
        let fields: Vec<OwnedTerm> =
            (0..k).map(|_| if plain { gen_plain(&mut ctx.rng, 0) } else { gen_term(&mut ctx.rng, &cfg, 1) }).collect();
        let m = ControlMessage::Generic { message_type: ty, fields };
        ctx.count("variant_Generic");
        one_msg(ctx, &m, None);
    }
}

/// tag numbers and element order as observed on the implementation, against the table and the protocol
fn numbering(ctx: &mut Ctx) {
    for n in 0..=255u8 {
        let r = match ControlMessageType::from_u8(n) {
            Some(t) => format!("Some({:?})={}", t, t.as_u8()),
            None => "None".to_string(),
        };
        ctx.tie("gen", &format!("c08try {}", n), &r);
    }
    for (v, _fields) in VARIANTS {
        let mut get = |f: &str| if is_id_field(f) { FV::U(7) } else { FV::T(atom(f)) };
        let Some(m) = build(v, &mut get) else { continue };
        let observe = |t: &OwnedTerm| -> Option<(i64, Vec<String>, Vec<String>)> {
            let els = t.as_tuple()?;
            let tag = els.first()?.as_integer()?;
            let mut plain = vec![];
            let mut marked = vec![];
            for e in &els[1..] {
                match e {
                    OwnedTerm::Atom(a) => {
                        plain.push(a.as_str().to_string());
                        marked.push(a.as_str().to_string());
                    }
                    OwnedTerm::Integer(7) => {
                        plain.push("id".to_string());
                        marked.push("#id".to_string());
                    }
                    _ => return None,
                }
            }
            Some((tag, plain, marked))
        };
        let to = m.to_term();
        let into = m.clone().into_term();
        match (observe(&to), observe(&into)) {
            (Some((tag, plain, marked)), Some((tag2, _, marked2))) => {
                let row = |tag: i64, fs: &[String]| {
                    let mut s = format!("{} ", tag);
                    for f in fs {
                        s.push(',');
                        s.push_str(f);
                    }
                    if fs.is_empty() {
                        s.push(',');
                    }
                    s
                };
                // Lean prints "," ++ names joined by ","; an empty list is a single ","
                ctx.tie("gen", &format!("c08row {}", v), &format!("{} {}", row(tag, &marked), row(tag2, &marked2)));
                ctx.prop("gen", &format!("c08num {} {} {}", v, tag, if plain.is_empty() { ",".to_string() } else { plain.join(",") }), "ok");
            }
            _ => ctx.fail("c08-marker-message-unreadable", v),
        }
    }
}

/// the witnesses of the three repaired defects, checked on the Rust values directly
fn former_findings(ctx: &mut Ctx) {
    // ALIAS_SEND_TT is 34
    let t = OwnedTerm::Tuple(vec![OwnedTerm::Integer(34), a_pid(), atom("alias"), atom("tok")]);
    match from_term(&t) {
        Ok(ControlMessage::AliasSendTt { .. }) => ctx.count("former_alias_send_tt_ok"),
        other => ctx.fail("c08-tag-34-is-not-alias-send-tt", &format!("{:?}", other.map(|m| msg_text(&m)))),
    }
    let t38 = OwnedTerm::Tuple(vec![OwnedTerm::Integer(38), a_pid(), atom("alias"), atom("tok")]);
    match from_term(&t38) {
        Ok(ControlMessage::Generic { message_type: 38, .. }) => ctx.count("former_tag_38_generic"),
        other => ctx.fail("c08-tag-38-is-not-generic", &format!("{:?}", other.map(|m| msg_text(&m)))),
    }
    // unlink ids over the whole u64 range, in memory and across encode/decode, both operations
    for &id in ID_BOUNDS {
        for ack in [false, true] {
            let m = if ack {
                ControlMessage::UnlinkIdAck { id, from_pid: a_pid(), to_pid: a_pid() }
            } else {
                ControlMessage::UnlinkId { id, from_pid: a_pid(), to_pid: a_pid() }
            };
            let t = m.to_term();
            let mem = from_term(&t);
            let wire = erltf::encode(&t).ok().and_then(|b| erltf::decode(&b).ok()).map(|d| from_term(&d));
            if mem.as_ref().ok() != Some(&m) {
                ctx.fail("c08-unlink-id-memory", &format!("id={} {:?}", id, mem.map(|x| msg_text(&x))));
            } else if wire.as_ref().and_then(|r| r.as_ref().ok()) != Some(&m) {
                ctx.fail("c08-unlink-id-wire", &format!("id={} {:?}", id, wire.map(|r| r.map(|x| msg_text(&x)))));
            } else {
                ctx.count("former_unlink_id_ok");
            }
        }
    }
    // ids a peer may send as a bignum: minimal, with high zero digits, "negative" zero; and what must be refused
    let accept: &[(&[u8], bool, u64)] = &[
        (&[5], false, 5),
        (&[7, 0, 0], false, 7),
        (&[0, 0, 0, 128], false, 1 << 31),
        (&[0, 0, 0, 0, 0, 0, 0, 128], false, 1 << 63),
        (&[255, 255, 255, 255, 255, 255, 255, 255], false, u64::MAX),
        (&[255, 255, 255, 255, 255, 255, 255, 255, 0, 0, 0], false, u64::MAX),
        (&[0, 0], true, 0),
        (&[], false, 0),
    ];
    for (d, neg, want) in accept {
        let t = OwnedTerm::Tuple(vec![OwnedTerm::Integer(35), big(*neg, d), a_pid(), atom("b")]);
        match from_term(&t) {
            Ok(ControlMessage::UnlinkId { id, .. }) if id == *want => ctx.count("bigint_id_accepted"),
            other => ctx.fail("c08-bigint-id-not-read", &format!("{} {:?}", term_text(&t), other.map(|m| msg_text(&m)))),
        }
    }
    let refuse: &[(&[u8], bool)] = &[
        (&[0, 0, 0, 0, 0, 0, 0, 0, 1], false),
        (&[1, 0, 0, 0, 0, 0, 0, 0, 1, 0, 0], false),
        (&[1], true),
        (&[0, 0, 0, 0, 0, 0, 0, 128], true),
    ];
    for (d, neg) in refuse {
        let t = OwnedTerm::Tuple(vec![OwnedTerm::Integer(36), big(*neg, d), a_pid(), atom("b")]);
        match from_term(&t) {
            Err("err") => ctx.count("bigint_id_refused"),
            other => ctx.fail("c08-bad-bigint-id-not-refused", &format!("{} {:?}", term_text(&t), other.map(|m| msg_text(&m)))),
        }
    }
}

/// the constructor functions of `impl ControlMessage`: called positionally with generated terms; the tuple they put on
/// the wire is compared with the model (T) and with the protocol's tuple for these arguments (P)
fn constructors(ctx: &mut Ctx) {
    type C2 = fn(OwnedTerm, OwnedTerm) -> ControlMessage;
    type C3 = fn(OwnedTerm, OwnedTerm, OwnedTerm) -> ControlMessage;
    type C4 = fn(OwnedTerm, OwnedTerm, OwnedTerm, OwnedTerm) -> ControlMessage;
    let c2: &[(&str, C2)] = &[
        ("link", ControlMessage::link),
        ("unlink", ControlMessage::unlink),
        ("send", ControlMessage::send),
        ("group_leader", ControlMessage::group_leader),
        ("send_sender", ControlMessage::send_sender),
        ("payload_exit", ControlMessage::payload_exit),
        ("payload_exit2", ControlMessage::payload_exit2),
    ];
    let c3: &[(&str, C3)] = &[
        ("exit", ControlMessage::exit),
        ("exit2", ControlMessage::exit2),
        ("reg_send", ControlMessage::reg_send),
        ("monitor_p", ControlMessage::monitor_p),
        ("demonitor_p", ControlMessage::demonitor_p),
        ("payload_monitor_p_exit", ControlMessage::payload_monitor_p_exit),
    ];
    let c4: &[(&str, C4)] = &[("monitor_p_exit", ControlMessage::monitor_p_exit)];
    let rounds = ctx.n(6, 40);
    let mut emit = |ctx: &mut Ctx, name: &str, args: &[OwnedTerm], m: ControlMessage| {
        let at: Vec<String> = args.iter().map(term_text).collect();
        let to = std::panic::catch_unwind(std::panic::AssertUnwindSafe(|| m.to_term()));
        let into = std::panic::catch_unwind(std::panic::AssertUnwindSafe(|| m.clone().into_term()));
        let tup = to.as_ref().ok().cloned();
        ctx.tie("ctor", &format!("c08ctor {} {}", name, at.join(" ")), &format!("{} {} {}", msg_text(&m), opt_text(to), opt_text(into)));
        if let Some(t) = tup {
            ctx.prop("ctor", &format!("c08ctorprop {} {} {}", name, term_text(&t), at.join(" ")), "ok");
            match from_term(&t) {
                Ok(back) if back == m => {}
                other => ctx.fail("c08-constructor-roundtrip", &format!("{} {:?}", name, other.map(|x| msg_text(&x)))),
            }
        }
        ctx.count("constructor_calls");
    };
    for round in 0..rounds {
        // round 0: distinct marker atoms (a swapped pair cannot hide); then generated terms
        let mut arg = |ctx: &mut Ctx, k: usize| -> OwnedTerm {
            if round == 0 { atom(&format!("arg{}", k)) } else { gen_plain(&mut ctx.rng, 0) }
        };
        for (name, f) in c2 {
            let a = [arg(ctx, 1), arg(ctx, 2)];
            emit(ctx, name, &a, f(a[0].clone(), a[1].clone()));
        }
        for (name, f) in c3 {
            let a = [arg(ctx, 1), arg(ctx, 2), arg(ctx, 3)];
            emit(ctx, name, &a, f(a[0].clone(), a[1].clone(), a[2].clone()));
        }
        for (name, f) in c4 {
            let a = [arg(ctx, 1), arg(ctx, 2), arg(ctx, 3), arg(ctx, 4)];
            emit(ctx, name, &a, f(a[0].clone(), a[1].clone(), a[2].clone(), a[3].clone()));
        }
    }
}

pub fn run(ctx: &mut Ctx) {
    former_findings(ctx);
    numbering(ctx);
    exhaustive(ctx);
    wider(ctx);
    structured(ctx);
    constructors(ctx);
}
