import EdpVerif.Lemmas.OrderTrans
import EdpVerif.Impl.Decode
/-!
`mapInsert` (the model of `BTreeMap::insert` under the term order) keeps a strictly sorted key list strictly
sorted, keeps every stored key, and stores the new value under the one key that compares equal.
Transitivity of `Term.cmp` is what makes the `lt` branch sound.
-/
open Edp Edp.Term
namespace Edp

/-- keys strictly ascending under `Term.cmp` (so no two stored keys compare equal) -/
def keysSorted (m : List (Term × Term)) : Prop := m.Pairwise (fun p q => Term.cmp p.1 q.1 = .lt)

theorem cmp_gt_iff (a b : Term) : Term.cmp a b = .gt ↔ Term.cmp b a = .lt := by
  rw [cmp_swap a b]; cases Term.cmp b a <;> simp

/-- every entry of the result is an old entry or carries the new value under a key equal to `k` -/
theorem mapInsert_mem (m : List (Term × Term)) (k v : Term) :
    ∀ q ∈ mapInsert m k v, q ∈ m ∨ (Term.cmp k q.1 = .eq ∧ q.2 = v) := by
  induction m with
  | nil => intro q hq; simp [mapInsert] at hq; subst hq; exact .inr ⟨cmp_refl k, rfl⟩
  | cons p r ih =>
    obtain ⟨k', v'⟩ := p
    intro q hq
    simp only [mapInsert] at hq
    cases h : Term.cmp k k' <;> simp only [h] at hq
    · rcases List.mem_cons.mp hq with rfl | hq
      · exact .inr ⟨cmp_refl k, rfl⟩
      · exact .inl hq
    · rcases List.mem_cons.mp hq with rfl | hq
      · exact .inr ⟨h, rfl⟩
      · exact .inl (List.mem_cons_of_mem _ hq)
    · rcases List.mem_cons.mp hq with rfl | hq
      · exact .inl (by simp)
      · rcases ih q hq with h1 | h1
        · exact .inl (List.mem_cons_of_mem _ h1)
        · exact .inr h1

/-- no stored key is lost (an equal key keeps the stored key) -/
theorem mapInsert_keeps (m : List (Term × Term)) (k v : Term) :
    ∀ p ∈ m, ∃ q ∈ mapInsert m k v, q.1 = p.1 := by
  induction m with
  | nil => intro p hp; simp at hp
  | cons p0 r ih =>
    obtain ⟨k', v'⟩ := p0
    intro p hp
    simp only [mapInsert]
    cases h : Term.cmp k k' <;> simp only
    · exact ⟨p, List.mem_cons_of_mem _ hp, rfl⟩
    · rcases List.mem_cons.mp hp with rfl | hp
      · exact ⟨(k', v), by simp, rfl⟩
      · exact ⟨p, List.mem_cons_of_mem _ hp, rfl⟩
    · rcases List.mem_cons.mp hp with rfl | hp
      · exact ⟨(k', v'), by simp, rfl⟩
      · obtain ⟨q, hq, e⟩ := ih p hp
        exact ⟨q, List.mem_cons_of_mem _ hq, e⟩

/-- the inserted key is found, with the new value -/
theorem mapInsert_finds (m : List (Term × Term)) (k v : Term) :
    ∃ q ∈ mapInsert m k v, Term.cmp k q.1 = .eq ∧ q.2 = v := by
  induction m with
  | nil => exact ⟨(k, v), by simp [mapInsert], cmp_refl k, rfl⟩
  | cons p0 r ih =>
    obtain ⟨k', v'⟩ := p0
    simp only [mapInsert]
    cases h : Term.cmp k k' <;> simp only
    · exact ⟨(k, v), by simp, cmp_refl k, rfl⟩
    · exact ⟨(k', v), by simp, h, rfl⟩
    · obtain ⟨q, hq, e⟩ := ih
      exact ⟨q, List.mem_cons_of_mem _ hq, e⟩

/-- keys of the result are stored keys or the new key -/
theorem mapInsert_wf (m : List (Term × Term)) (k v : Term) (hk : WFo k) (hm : ∀ p ∈ m, WFo p.1) :
    ∀ q ∈ mapInsert m k v, WFo q.1 := by
  induction m with
  | nil => intro q hq; simp [mapInsert] at hq; subst hq; exact hk
  | cons p0 r ih =>
    obtain ⟨k', v'⟩ := p0
    have hk' : WFo k' := hm (k', v') (by simp)
    have hr : ∀ p ∈ r, WFo p.1 := fun p hp => hm p (List.mem_cons_of_mem _ hp)
    intro q hq
    simp only [mapInsert] at hq
    cases h : Term.cmp k k' <;> simp only [h] at hq
    · rcases List.mem_cons.mp hq with rfl | hq
      · exact hk
      · exact hm q hq
    · rcases List.mem_cons.mp hq with rfl | hq
      · exact hk'
      · exact hr q hq
    · rcases List.mem_cons.mp hq with rfl | hq
      · exact hk'
      · exact ih hr q hq

theorem mapInsert_sorted (m : List (Term × Term)) (k v : Term) (hk : WFo k) (hm : ∀ p ∈ m, WFo p.1)
    (hs : keysSorted m) : keysSorted (mapInsert m k v) := by
  induction m with
  | nil => simp [mapInsert, keysSorted]
  | cons p0 r ih =>
    obtain ⟨k', v'⟩ := p0
    have hk' : WFo k' := hm (k', v') (by simp)
    have hr : ∀ p ∈ r, WFo p.1 := fun p hp => hm p (List.mem_cons_of_mem _ hp)
    unfold keysSorted at hs ⊢
    rw [List.pairwise_cons] at hs
    simp only [mapInsert]
    cases h : Term.cmp k k' <;> simp only
    · -- new smallest key: transitivity puts it before everything after k'
      refine List.pairwise_cons.mpr ⟨?_, List.pairwise_cons.mpr hs⟩
      intro q hq
      rcases List.mem_cons.mp hq with rfl | hq
      · exact h
      · exact cmp_trans_lt_lt hk hk' (hr q hq) h (hs.1 q hq)
    · exact List.pairwise_cons.mpr ⟨hs.1, hs.2⟩
    · refine List.pairwise_cons.mpr ⟨?_, ih hr hs.2⟩
      intro q hq
      rcases mapInsert_mem r k v q hq with h1 | ⟨h1, _⟩
      · exact hs.1 q h1
      · -- q's key is the stored key equal to k, or k itself; k' < k = q.1
        have hq' : WFo q.1 := mapInsert_wf r k v hk hr q hq
        exact cmp_trans_lt_eq hk' hk hq' ((cmp_gt_iff k k').mp h) h1

end Edp
