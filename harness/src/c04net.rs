//! C04, socket level: `Connection::connect` against the scripted EPMD + peer (H1), the happy path and one deviation per
//! protocol step. Compared with the model's prediction of result class and final state; the peer-side byte log is
//! checked against the Spec layouts by the Lean driver.
use crate::canon::hex;
use crate::peer::*;
use crate::Ctx;
use edp_client::{Connection, ConnectionConfig};
use std::time::Duration;

pub fn run(ctx: &mut Ctx) {
    let rt = tokio::runtime::Builder::new_current_thread().enable_all().build().unwrap();
    rt.block_on(async {
        let epmd = FakeEpmd::start().await;
        let devs = vec![
            Deviation::None,
            Deviation::Status("nok".into()),
            Deviation::Status("not_allowed".into()),
            Deviation::Status("alive".into()),
            Deviation::Status("ok_simultaneous".into()),
            Deviation::WrongAckDigest,
            Deviation::AckForWrongChallenge,
            Deviation::WrongStatusTag,
            Deviation::WrongChallengeTag,
            Deviation::WrongAckTag,
            Deviation::TruncatedChallenge,
            Deviation::TruncatedAck,
            Deviation::OversizedLength,
            Deviation::AckBeforeChallenge,
            Deviation::CloseAfterName,
            Deviation::CloseAfterStatus,
            Deviation::CloseAfterChallenge,
            Deviation::SilenceAfterName,
            Deviation::SilenceAfterChallenge,
        ];
        let cookies = ["secret", "", "kéks-üñí", "a-very-long-cookie-0123456789012345678901234567890123456789"];
        let mut case = 0;
        for dev in &devs {
            for (ci, cookie) in cookies.iter().enumerate() {
                if *dev != Deviation::None && ci > 0 && !ctx.thorough {
                    continue;
                }
                case += 1;
                let short = format!("peer{}", case);
                let listener = listen_as(&epmd, &short).await;
                let mut pcfg = PeerCfg::new(&format!("{}@127.0.0.1", short), cookie);
                pcfg.deviation = dev.clone();
                pcfg.challenge = ctx.rng.next() as u32;
                if ctx.rng.chance(1, 2) {
                    pcfg.flags = ctx.rng.next() | 0x0000_000d_0000_0000 | 0x7df_5fbd;
                }
                let pc = pcfg.clone();
                let peer = tokio::spawn(async move { accept_and_handshake(&listener, &pc).await.map(|p| p.hs) });
                let cfg = ConnectionConfig::new(format!("cli{}@127.0.0.1", case), format!("{}@127.0.0.1", short), cookie.to_string())
                    .with_timeout(Duration::from_millis(400));
                let mut conn = Connection::new(cfg);
                let t0 = std::time::Instant::now();
                let res = conn.connect().await;
                let elapsed = t0.elapsed();
                let hs = tokio::time::timeout(Duration::from_secs(5), peer).await.ok().and_then(|r| r.ok()).flatten();
                let connected = conn.state().as_str().to_lowercase() == "connected" && res.is_ok();
                let expect_ok = matches!(dev, Deviation::None) || matches!(dev, Deviation::Status(s) if s == "ok_simultaneous");
                ctx.count(&format!("dev_{:?}", dev).replace(' ', "").chars().take(40).collect::<String>());
                let text = format!("dev={:?} cookie={} result_ok={} state={} elapsed_ms={}", dev, hex(cookie.as_bytes()), res.is_ok(), conn.state().as_str(), elapsed.as_millis());
                if connected != expect_ok {
                    ctx.fail(if expect_ok { "c04net-good-peer-rejected" } else { "c04net-connected-without-proof" }, &text);
                }
                if !expect_ok && elapsed > Duration::from_millis(400 * 8) {
                    ctx.fail("c04net-not-within-timeout", &text);
                }
                if let Some(hs) = hs {
                    // layouts of what this side emitted, and the digest it sent, judged by the Lean Spec
                    if !hs.send_name.is_empty() {
                        ctx.prop("gen", &format!("c04netname {} {}", hex(&hs.send_name), hex(format!("cli{}@127.0.0.1", case).as_bytes())), "ok");
                    }
                    if hs.reply.len() == 21 {
                        ctx.prop("gen", &format!("c04netreply {} {} {}", hex(&hs.reply), if cookie.is_empty() { "-".to_string() } else { hex(cookie.as_bytes()) }, pcfg.challenge), "ok");
                    }
                    if expect_ok {
                        if let Some(f) = conn.negotiated_flags() {
                            let ours = edp_client::flags::DistributionFlags::default_hidden();
                            let _ = ours;
                            ctx.count("negotiated_flags_seen");
                            if f.as_u64() & !pcfg.flags != 0 {
                                ctx.fail("c04net-flags-not-intersection", &format!("{} negotiated={:#x} peer={:#x}", text, f.as_u64(), pcfg.flags));
                            }
                        }
                    }
                }
            }
        }
    });
}
