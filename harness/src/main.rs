//! Correspondence / oracle harness: runs the real edp-rs implementation and writes one line per case.
//!
//! Line kinds (see /verif/DESIGN.md §3):
//!   T <tag> <req...> ## <impl result>   tie: the Lean model must give the same result for <req>
//!   P <tag> <req...> ## <expected>      property oracle evaluated by the Lean Spec on the implementation's output
//!   X <class> <text>                    property failure found by the harness itself on the implementation
//!   S <key> <value>                     statistic for the evidence file
mod canon;
mod tgen;
mod rng;
mod oracle;
pub mod peer;
mod c01;
mod c02;
mod c03;
mod c04;
mod c04net;
mod c05;
mod c06;
mod c07;
mod c08;
mod c09;
mod c10;
mod c11;
mod c12;
mod c13;
mod c14;
mod c15;
mod c16;
mod c16_sched;
mod c17;
mod c18;
mod c18b;
mod c19;
mod c20;

use std::alloc::{GlobalAlloc, Layout, System};
use std::io::Write;
use std::sync::atomic::{AtomicUsize, Ordering};

/// Counting allocator: the largest single request and the peak live bytes since the last reset
/// (C02 "never requests memory out of proportion to the input", C05 "refused before any buffer is allocated").
pub struct Counting;
pub static PEAK_REQUEST: AtomicUsize = AtomicUsize::new(0);
pub static LIVE: AtomicUsize = AtomicUsize::new(0);
pub static PEAK_LIVE: AtomicUsize = AtomicUsize::new(0);

unsafe impl GlobalAlloc for Counting {
    unsafe fn alloc(&self, l: Layout) -> *mut u8 {
        PEAK_REQUEST.fetch_max(l.size(), Ordering::Relaxed);
        let live = LIVE.fetch_add(l.size(), Ordering::Relaxed) + l.size();
        PEAK_LIVE.fetch_max(live, Ordering::Relaxed);
        unsafe { System.alloc(l) }
    }
    unsafe fn dealloc(&self, p: *mut u8, l: Layout) {
        LIVE.fetch_sub(l.size(), Ordering::Relaxed);
        unsafe { System.dealloc(p, l) }
    }
    unsafe fn realloc(&self, p: *mut u8, l: Layout, new_size: usize) -> *mut u8 {
        PEAK_REQUEST.fetch_max(new_size, Ordering::Relaxed);
        if new_size > l.size() {
            let live = LIVE.fetch_add(new_size - l.size(), Ordering::Relaxed) + new_size - l.size();
            PEAK_LIVE.fetch_max(live, Ordering::Relaxed);
        } else {
            LIVE.fetch_sub(l.size() - new_size, Ordering::Relaxed);
        }
        unsafe { System.realloc(p, l, new_size) }
    }
}

#[global_allocator]
static GLOBAL: Counting = Counting;

pub fn alloc_reset() {
    PEAK_REQUEST.store(0, Ordering::Relaxed);
    PEAK_LIVE.store(LIVE.load(Ordering::Relaxed), Ordering::Relaxed);
}
pub fn alloc_peak_request() -> usize {
    PEAK_REQUEST.load(Ordering::Relaxed)
}

pub struct Ctx {
    pub rng: rng::Rng,
    pub seed: u64,
    pub thorough: bool,
    pub out: std::io::BufWriter<std::fs::File>,
    pub stats: std::collections::BTreeMap<String, u64>,
    pub args: Vec<String>,
}

impl Ctx {
    pub fn tie(&mut self, tag: &str, req: &str, res: &str) {
        writeln!(self.out, "T {} {} ## {}", tag, req, res).unwrap();
        self.count("tie_lines");
    }
    pub fn prop(&mut self, tag: &str, req: &str, expected: &str) {
        writeln!(self.out, "P {} {} ## {}", tag, req, expected).unwrap();
        self.count("prop_lines");
    }
    pub fn fail(&mut self, class: &str, text: &str) {
        writeln!(self.out, "X {} {}", class, text).unwrap();
        self.count("harness_failures");
    }
    pub fn count(&mut self, k: &str) {
        *self.stats.entry(k.to_string()).or_insert(0) += 1;
    }
    pub fn add(&mut self, k: &str, n: u64) {
        *self.stats.entry(k.to_string()).or_insert(0) += n;
    }
    pub fn n(&self, quick: usize, thorough: usize) -> usize {
        if self.thorough { thorough } else { quick }
    }
}

fn main() {
    let a: Vec<String> = std::env::args().collect();
    if a.len() < 5 {
        eprintln!("usage: drive <domain> <quick|thorough> <seed> <outfile> [args...]");
        std::process::exit(2);
    }
    let seed: u64 = a[3].parse().unwrap_or(0);
    let file = std::fs::File::create(&a[4]).expect("create outfile");
    let mut ctx = Ctx {
        rng: rng::Rng::new(seed),
        seed,
        thorough: a[2] == "thorough",
        out: std::io::BufWriter::new(file),
        stats: Default::default(),
        args: a[5..].to_vec(),
    };
    // a panic inside the implementation must not take the harness down silently
    // (quietly: the implementation's panics are caught case by case and reported as results; the last message is kept so
    // that a panic nobody caught is reported with its text instead of an empty exit status 101)
    static LAST_PANIC: std::sync::Mutex<Option<String>> = std::sync::Mutex::new(None);
    std::panic::set_hook(Box::new(|info| {
        let msg = info.payload().downcast_ref::<&str>().map(|s| s.to_string()).or_else(|| info.payload().downcast_ref::<String>().cloned()).unwrap_or_default();
        let at = info.location().map(|l| format!("{}:{}", l.file(), l.line())).unwrap_or_default();
        if let Ok(mut g) = LAST_PANIC.lock() {
            *g = Some(format!("{} at {}", msg, at));
        }
    }));
    if a[1] == "c02child" {
        c02::child(&a[4], &ctx.args[0]);
        return;
    }
    let domain = a[1].clone();
    let ran = std::panic::catch_unwind(std::panic::AssertUnwindSafe(|| run_domain(&domain, &mut ctx)));
    if ran.is_err() {
        // a panic outside every per-case guard: usually the standard library refusing what the implementation did (a sort
        // or an ordered container fed an order that is not total), sometimes a defect of the harness; either way it is
        // reported with its message and counts as a failure of the run
        let msg = LAST_PANIC.lock().ok().and_then(|g| g.clone()).unwrap_or_default();
        ctx.fail("harness-panic", &format!("domain {}: {}", domain, msg.replace('\n', " ")));
    }
    let stats = std::mem::take(&mut ctx.stats);
    for (k, v) in stats {
        writeln!(ctx.out, "S {} {}", k, v).unwrap();
    }
    ctx.out.flush().unwrap();
}

fn run_domain(domain: &str, ctx: &mut Ctx) {
    let ctx = &mut *ctx;
    match domain {
        "c01" => c01::run(ctx),
        "c02" => c02::run(ctx),
        "c03" => c03::run(ctx),
        "c04" => c04::run(ctx),
        "c04net" => c04net::run(ctx),
        "c05" => c05::run(ctx),
        "c06" => c06::run(ctx),
        "c07" => c07::run(ctx),
        "c08" => c08::run(ctx),
        "c09" => c09::run(ctx),
        "c10" => c10::run(ctx),
        "c11" => c11::run(ctx),
        "c12" => c12::run(ctx),
        "c13" => c13::run(ctx),
        "c14" => c14::run(ctx),
        "c15" => c15::run(ctx),
        "c16" => c16::run(ctx),
        "c17" => c17::run(ctx),
        "c18" => c18::run(ctx),
        "c18b" => c18b::run(ctx),
        "c19" => c19::run(ctx),
        "c20" => c20::run(ctx),
        d => {
            eprintln!("unknown domain {}", d);
            std::process::exit(2);
        }
    }
}
