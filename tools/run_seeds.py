#!/usr/bin/env python3
"""Regression over the kept seeded changes: for each seeded/<id>/ apply patch.diff to /repo, run the quick check of the
property it breaks, expect `VIOLATION property=<id>`, undo the change and restore evidence/.
usage: tools/run_seeds.py [id-prefix ...]     (writes notes/seed-regression.txt; /repo must be clean; nothing else may use /repo meanwhile)
A seed whose patch no longer applies (the code it edits was repaired since) is listed as STALE, not as missed."""
import json, os, re, subprocess, sys, time
ROOT = os.path.dirname(os.path.dirname(os.path.abspath(__file__)))
SEEDED = os.path.join(ROOT, "seeded")
want = sys.argv[1:]


def sh(cmd, **kw):
    return subprocess.run(cmd, stdout=subprocess.PIPE, stderr=subprocess.STDOUT, text=True, **kw)


if sh(["git", "-C", "/repo", "status", "--porcelain", "--untracked-files=no"]).stdout.strip():
    print("/repo has uncommitted changes; refusing"); sys.exit(2)
rows = []
# a partial sweep (id prefixes given) keeps the rows of the seeds it does not run
kept = {}
notes_path = os.path.join(ROOT, "notes", "seed-regression.txt")
if want and os.path.exists(notes_path):
    for l in open(notes_path):
        if l.startswith("S"):
            parts = l.split(None, 2)
            if len(parts) == 3:
                kept[parts[0]] = (parts[0], parts[1], parts[2].rstrip("\n"))


def write_notes():
    merged = dict(kept)
    for r in rows:
        merged[r[0]] = r
    with open(notes_path, "w") as f:
        f.write("# tools/run_seeds.py: every kept seeded change applied to /repo in turn, the property's quick check run, undone\n")
        for k in sorted(merged):
            f.write("%-50s %-16s %s\n" % merged[k])


for sid in sorted(os.listdir(SEEDED)):
    if want and not any(sid.startswith(w) for w in want):
        continue
    d = os.path.join(SEEDED, sid)
    meta = json.load(open(os.path.join(d, "meta.json")))
    props = [meta["property"]] + meta.get("also_checked_by", [])
    patch = os.path.join(d, "patch.diff")
    r = sh(["git", "-C", "/repo", "apply", patch])
    if r.returncode:
        rows.append((sid, "STALE", "patch does not apply: " + r.stdout.strip()[:120])); print(rows[-1], flush=True); continue
    try:
        verdicts = []
        for p in props[:1]:
            t0 = time.time()
            c = sh([sys.executable, os.path.join(ROOT, "check.py"), p, "quick"], cwd=ROOT)
            viol = [l for l in c.stdout.splitlines() if l.startswith("VIOLATION property=" + p)]
            concrete = [l for l in viol if not l.rstrip().endswith("no-failing-input-found")]
            verdicts.append((p, c.returncode, len(viol), len(concrete), int(time.time() - t0)))
        p, rc, nv, nc, secs = verdicts[0]
        state = "CAUGHT" if rc == 1 and nc else ("CAUGHT-NO-INPUT" if rc == 1 and nv else "MISSED")
        if meta.get("neutralised_by"):   # a later repair made the change harmless: the check must stay quiet on it
            state = "HARMLESS-QUIET" if rc == 0 else "FALSE-ALARM"
        rows.append((sid, state, f"{p} rc={rc} violation-lines={nv} with-input={nc} {secs}s"))
    finally:
        sh(["git", "-C", "/repo", "checkout", "--", "."])
        sh(["git", "-C", ROOT, "checkout", "--", "evidence/"])
    print(rows[-1], flush=True)
    write_notes()   # after every seed, so that an interrupted sweep still leaves what it found
write_notes()
bad = [r for r in rows if r[1] in ("MISSED", "FALSE-ALARM")]
print(f"{len(rows)} seeds: {sum(r[1].startswith('CAUGHT') for r in rows)} caught, {len(bad)} missed, {sum(r[1]=='STALE' for r in rows)} stale")
sys.exit(1 if bad else 0)
