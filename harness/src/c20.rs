//! C20: Elixir wrappers (range, map set, date/time, exceptions, builders, derived structs) and the
//! proplist/map helpers of `erltf::OwnedTerm`.
//!
//! T lines tie the Lean model (lean/EdpVerif/Impl/Elixir.lean) to the real code, P lines evaluate the Elixir-side
//! Spec (lean/EdpVerif/Spec/Elixir.lean) on the implementation's answers, X lines are the property itself
//! (round trips, nothing fabricated) checked on the implementation.  The inputs that used to fail before the
//! fixes recorded in notes/C20-fixes/ are still replayed, as ordinary checks under the default classes.
use crate::canon::{hex, hexarg, term_text};
use crate::rng::Rng;
use crate::Ctx;
use edp_elixir_terms::{
    ArgumentError, ArithmeticError, AtomKeyMapBuilder, BadFunctionError, BadMapError, CaseClauseError,
    CondClauseError, ElixirDate, ElixirDateTime, ElixirExceptionExt, ElixirMapSet, ElixirNaiveDateTime,
    ElixirRange, ElixirTime, FunctionClauseError, KeyError, KeywordListBuilder, MatchError, RuntimeError,
    UndefinedFunctionError, WithClauseError,
};
use erltf::types::{Atom, BigInt};
use erltf::OwnedTerm;
use std::collections::BTreeMap;
use std::panic::{catch_unwind, AssertUnwindSafe};

const MIN: i64 = i64::MIN;
const MAX: i64 = i64::MAX;

// ------------------------------------------------------------------------------------------------ ranges

fn out_usize(r: std::thread::Result<usize>) -> String {
    match r {
        Ok(n) => n.to_string(),
        Err(_) => "panic".to_string(),
    }
}

fn out_hint(r: &std::thread::Result<(usize, Option<usize>)>) -> String {
    match r {
        Ok((lo, hi)) => format!("{}/{}", lo, hi.map(|n| n.to_string()).unwrap_or_else(|| "none".to_string())),
        Err(_) => "panic".to_string(),
    }
}

fn range_case(ctx: &mut Ctx, f: i64, l: i64, s: i64, v: i64, k: usize, all_v: Option<(i64, i64)>) {
    let r = ElixirRange::new(f, l, s);
    let empty = r.is_empty();
    let len = catch_unwind(|| r.len());
    let c = catch_unwind(|| r.contains(v));
    let mut it = r.into_iter();
    let sh = catch_unwind(AssertUnwindSafe(|| it.size_hint()));
    let mut xs: Vec<i64> = Vec::new();
    let mut ended = false;
    for _ in 0..k {
        match catch_unwind(AssertUnwindSafe(|| it.next())) {
            Ok(Some(x)) => xs.push(x),
            Ok(None) => {
                ended = true;
                break;
            }
            Err(_) => {
                ctx.fail("c20-range-next-panics", &format!("range={},{},{}", f, l, s));
                return;
            }
        }
    }
    let sh2 = catch_unwind(AssertUnwindSafe(|| it.size_hint()));
    if let Ok((lo, hi)) = &sh {
        // exact, or "more than usize::MAX"
        if Some(*lo) != *hi && !(*lo == usize::MAX && hi.is_none()) {
            ctx.fail("c20-range-sizehint-bounds-differ", &format!("range={},{},{} hint={:?}", f, l, s, sh));
        }
    }
    let xs_text = if xs.is_empty() {
        "-".to_string()
    } else {
        xs.iter().map(|x| x.to_string()).collect::<Vec<_>>().join(",")
    };
    let it_text = format!("{};{}", xs_text, if ended { "end" } else { "more" });
    let c_text = match &c {
        Ok(true) => "1",
        Ok(false) => "0",
        Err(_) => "panic",
    };
    let len_text = out_usize(len);
    let sh_text = out_hint(&sh);
    let sh2_text = out_hint(&sh2);
    ctx.tie(
        "range",
        &format!("c20range {} {} {} {} {}", f, l, s, v, k),
        &format!("e={} len={} c={} sh={} it={} sh2={}", empty as u8, len_text, c_text, sh_text, it_text, sh2_text),
    );
    ctx.count(if empty { "range_empty" } else { "range_nonempty" });
    if len_text == "panic" {
        ctx.count("range_len_panics");
    }
    if c_text == "panic" {
        ctx.count("range_contains_panics");
    }
    if sh_text == "panic" {
        ctx.count("range_sizehint_panics");
    }
    // the Elixir-side oracle on every answer
    ctx.prop("gen", &format!("c20rlen {} {} {} {}", f, l, s, len_text), "ok");
    ctx.prop("gen", &format!("c20rhint {} {} {} {}", f, l, s, sh_text), "ok");
    ctx.prop("gen", &format!("c20rcont {} {} {} {} {}", f, l, s, v, c_text), "ok");
    ctx.prop("gen", &format!("c20riter {} {} {} {} {}", f, l, s, k, it_text), "ok");
    if let Some((lo, hi)) = all_v {
        for w in lo..=hi {
            let cw = match catch_unwind(|| r.contains(w)) {
                Ok(true) => "1",
                Ok(false) => "0",
                Err(_) => "panic",
            };
            ctx.prop("gen", &format!("c20rcont {} {} {} {} {}", f, l, s, w, cw), "ok");
        }
    }
    // the property on the implementation alone: what the iterator yields is contained, and is as many as `len` says
    for x in &xs {
        match catch_unwind(|| r.contains(*x)) {
            Ok(true) => {}
            other => {
                ctx.fail("c20-range-yielded-not-contained", &format!("range={},{},{} yielded={} contains={:?}", f, l, s, x, other.ok()));
                break;
            }
        }
    }
    if ended && len_text != xs.len().to_string() {
        ctx.fail("c20-range-len-differs-from-iteration", &format!("range={},{},{} len={} iterated={}", f, l, s, len_text, xs.len()));
    }
    if ended && sh_text != format!("{}/{}", xs.len(), xs.len()) {
        ctx.fail("c20-range-sizehint-differs-from-iteration", &format!("range={},{},{} size_hint={} iterated={}", f, l, s, sh_text, xs.len()));
    }
}

const RANGE_EXT: &[i64] = &[
    MIN, MIN + 1, MIN + 2, -(1 << 62), -(1 << 40), -7, -3, -2, -1, 0, 1, 2, 3, 7, 10, 1 << 31, 1 << 40, 1 << 62,
    MAX - 2, MAX - 1, MAX,
];

fn gen_range_val(r: &mut Rng) -> i64 {
    match r.below(6) {
        0 | 1 => *r.pick(RANGE_EXT),
        2 => r.below(41) as i64 - 20,
        3 => MAX - r.below(40) as i64,
        4 => MIN + r.below(40) as i64,
        _ => r.next() as i64,
    }
}

fn gen_step(r: &mut Rng) -> i64 {
    match r.below(8) {
        0 => *r.pick(&[MIN, MIN + 1, MAX, MAX - 1, 0]),
        1 | 2 => r.range(1, 9) as i64,
        3 | 4 => -(r.range(1, 9) as i64),
        5 => (r.next() >> r.range(1, 62)) as i64,
        6 => -((r.next() >> r.range(1, 62)) as i64),
        _ => *r.pick(&[1, -1, 2, -2]),
    }
}

fn ranges(ctx: &mut Ctx) {
    // witnesses of the recorded defects, always replayed
    range_case(ctx, MIN, MAX, 1, 0, 3, None); // len, size_hint, contains(0): `last - first` / `value - first` overflow
    range_case(ctx, MAX - 1, MAX, 2, MAX, 5, None); // saturating_add: iterates [MAX-1, MAX], contains(MAX) is false, len is 1
    range_case(ctx, MIN + 1, MIN, -2, MIN, 5, None); // the same at the lower bound
    range_case(ctx, 0, MAX, 1, 5, 3, None); // `diff / step + 1` overflows: the range has 2^63 elements
    range_case(ctx, 0, -5, MIN, 0, 3, None); // `step.abs()` / `-step` of i64::MIN
    range_case(ctx, 0, MIN, -1, -3, 3, None); // `(last - first).abs()` of i64::MIN
    range_case(ctx, -1, MAX, 1, MAX, 3, None); // `last - first` overflow by one
    // exhaustive small space: every (first, last, step) in [-4, 4]^3, every value in [-6, 6]
    for f in -4i64..=4 {
        for l in -4i64..=4 {
            for s in -4i64..=4 {
                range_case(ctx, f, l, s, (f + l) / 2, 12, Some((-6, 6)));
            }
        }
    }
    ctx.add("exhaustive", 1);
    ctx.add("range_small_triples", 729);
    // grid of extreme triples
    let grid: &[i64] = &[MIN, MIN + 1, -(1 << 62), -2, 0, 3, 1 << 62, MAX - 1, MAX];
    let steps: &[i64] = &[MIN, MIN + 1, -(1 << 62), -3, -1, 0, 1, 2, 1 << 62, MAX - 1, MAX];
    for &f in grid {
        for &l in grid {
            for &s in steps {
                let v = *ctx.rng.pick(&[f, l, 0, f.wrapping_add(s), l.wrapping_sub(s), MAX, MIN]);
                range_case(ctx, f, l, s, v, 4, None);
            }
        }
    }
    ctx.add("range_extreme_grid", (grid.len() * grid.len() * steps.len()) as u64);
    // seeded generation
    let n = ctx.n(1500, 12000);
    for _ in 0..n {
        let f = gen_range_val(&mut ctx.rng);
        let s = gen_step(&mut ctx.rng);
        let l = match ctx.rng.below(4) {
            // a last that is a few steps away from first
            0 | 1 => f.saturating_add(s.saturating_mul(ctx.rng.below(12) as i64)).saturating_add(ctx.rng.below(3) as i64 - 1),
            _ => gen_range_val(&mut ctx.rng),
        };
        let v = match ctx.rng.below(5) {
            0 => f,
            1 => l,
            2 => f.wrapping_add(s.wrapping_mul(ctx.rng.below(6) as i64)),
            3 => gen_range_val(&mut ctx.rng),
            _ => f.wrapping_add(ctx.rng.below(30) as i64),
        };
        let k = ctx.rng.range(1, 14) as usize;
        range_case(ctx, f, l, s, v, k, None);
    }
}

// ------------------------------------------------------------------------------------------------ terms

fn atom(s: &str) -> OwnedTerm {
    OwnedTerm::Atom(Atom::new(s))
}

const STRS: &[&str] = &["", "a", "UTC", "Etc/UTC", "Europe/Berlin", "CET", "América/São_Paulo", "日本", "bad argument", "key :a not found", "Elixir.", "nil"];
const ATOMS: &[&str] = &["a", "b", "ok", "error", "nil", "true", "false", "name", "age", "timeout", "__struct__", "zz", "Foo", "Elixir.Foo"];

/// terms for which Rust's `Ord`-equality is structural equality and which the wire form preserves up to `wireNorm`
fn gen_simple(r: &mut Rng, depth: u32) -> OwnedTerm {
    let leaf = depth >= 3 || r.chance(3, 5);
    if leaf {
        return match r.below(9) {
            0 | 1 => OwnedTerm::Integer(*r.pick(&[0i64, 1, 2, 255, 256, -1, 2147483647, 2147483648, -2147483648, -2147483649, 1 << 40, MAX, MIN, 7, 42])),
            2 => OwnedTerm::Integer(r.below(50) as i64 - 10),
            3 | 4 => atom(*r.pick(ATOMS)),
            5 => OwnedTerm::Binary(r.pick(STRS).as_bytes().to_vec()),
            6 => OwnedTerm::Float((r.below(200) as f64 - 100.0) + 0.5),
            7 => {
                // outside i64, minimal digits
                let nd = 9 + r.below(3) as usize;
                let mut d = r.bytes(nd);
                *d.last_mut().unwrap() |= 1;
                OwnedTerm::BigInt(BigInt::new(r.chance(1, 2), d))
            }
            _ => OwnedTerm::Binary(r.bytes(3)),
        };
    }
    let n = r.range(1, 3) as usize;
    match r.below(4) {
        0 => OwnedTerm::Tuple((0..n).map(|_| gen_simple(r, depth + 1)).collect()),
        1 => OwnedTerm::List((0..n).map(|_| gen_simple(r, depth + 1)).collect()),
        2 => {
            let mut m = BTreeMap::new();
            for _ in 0..n {
                m.insert(gen_key(r), gen_simple(r, depth + 1));
            }
            OwnedTerm::Map(m)
        }
        _ => OwnedTerm::Tuple(vec![atom(*r.pick(ATOMS)), gen_simple(r, depth + 1)]),
    }
}

fn gen_key(r: &mut Rng) -> OwnedTerm {
    match r.below(6) {
        0..=2 => atom(*r.pick(ATOMS)),
        3 => OwnedTerm::Binary(r.pick(STRS).as_bytes().to_vec()),
        4 => OwnedTerm::Integer(r.below(5) as i64),
        _ => OwnedTerm::Tuple(vec![atom(*r.pick(ATOMS)), OwnedTerm::Integer(r.below(3) as i64)]),
    }
}

fn wire(t: &OwnedTerm) -> Option<OwnedTerm> {
    let b = catch_unwind(|| erltf::encode(t)).ok()?.ok()?;
    catch_unwind(|| erltf::decode(&b)).ok()?.ok()
}

// ------------------------------------------------------------------------------------------------ wrappers

/// One wrapper value through `to_term`, `from_term`, the wire, and `from_term` again.
#[allow(clippy::too_many_arguments)]
fn wrapper_case<W: PartialEq + std::fmt::Debug>(
    ctx: &mut Ctx,
    kind: &str,
    to_args: &str,
    x: &W,
    to_term: &dyn Fn(&W) -> OwnedTerm,
    from_term: &dyn Fn(&OwnedTerm) -> Option<W>,
    show: &dyn Fn(&W) -> String,
    wire_image: &dyn Fn(&W) -> Option<W>,
    mem_class: Option<&str>,
    wire_class: Option<&str>,
) {
    ctx.count(&format!("wrapper_{}", kind.split(' ').next().unwrap()));
    let t = match catch_unwind(AssertUnwindSafe(|| to_term(x))) {
        Ok(t) => t,
        Err(_) => {
            ctx.tie("wrap", &format!("c20to {}", to_args), "panic");
            ctx.fail("c20-to-term-panics", &format!("{} {:?}", kind, x));
            return;
        }
    };
    let tt = term_text(&t);
    ctx.tie("wrap", &format!("c20to {}", to_args), &tt);
    let r = catch_unwind(AssertUnwindSafe(|| from_term(&t))).unwrap_or(None);
    let shown = r.as_ref().map(|v| show(v)).unwrap_or_else(|| "none".to_string());
    ctx.tie("wrap", &format!("c20from {} {}", kind, tt), &shown);
    if r.as_ref() != Some(x) {
        ctx.fail(mem_class.unwrap_or("c20-roundtrip-memory"), &format!("{} value={:?} term={} back={}", kind, x, tt, shown));
    }
    // through encode + decode
    let Some(t2) = wire(&t) else {
        ctx.tie("wire", &format!("c20wire {}", tt), "err");
        ctx.count("wire_encode_errors");
        return;
    };
    let t2t = term_text(&t2);
    ctx.tie("wire", &format!("c20wire {}", tt), &format!("ok {}", t2t));
    let r2 = catch_unwind(AssertUnwindSafe(|| from_term(&t2))).unwrap_or(None);
    let shown2 = r2.as_ref().map(|v| show(v)).unwrap_or_else(|| "none".to_string());
    ctx.tie("wire", &format!("c20from {} {}", kind, t2t), &shown2);
    let want = wire_image(x);
    if want.is_none() || r2 != want {
        ctx.fail(wire_class.unwrap_or("c20-roundtrip-wire"), &format!("{} value={:?} wire-term={} back={}", kind, x, t2t, shown2));
    }
}

/// `from_term` on a term that did not come from `to_term`; when it answers, the integer fields of the answer must be
/// the integers of the term (nothing fabricated by a truncating cast).
fn hostile_case<W>(
    ctx: &mut Ctx,
    kind: &str,
    t: &OwnedTerm,
    from_term: &dyn Fn(&OwnedTerm) -> Option<W>,
    to_term: &dyn Fn(&W) -> OwnedTerm,
    show: &dyn Fn(&W) -> String,
) {
    let tt = term_text(t);
    let r = match catch_unwind(AssertUnwindSafe(|| from_term(t))) {
        Ok(r) => r,
        Err(_) => {
            ctx.tie("hostile", &format!("c20from {} {}", kind, tt), "panic");
            ctx.fail("c20-from-term-panics", &format!("{} term={}", kind, tt));
            return;
        }
    };
    let shown = r.as_ref().map(|v| show(v)).unwrap_or_else(|| "none".to_string());
    ctx.tie("hostile", &format!("c20from {} {}", kind, tt), &shown);
    ctx.count(if r.is_some() { "hostile_accepted" } else { "hostile_rejected" });
    if let (Some(x), OwnedTerm::Map(m)) = (&r, t) {
        if let OwnedTerm::Map(back) = to_term(x) {
            for (k, v) in &back {
                let same = match (m.get(k), v) {
                    (Some(OwnedTerm::Integer(a)), OwnedTerm::Integer(b)) => a == b,
                    (Some(OwnedTerm::Tuple(a)), OwnedTerm::Tuple(b)) if a.len() == 2 && b.len() == 2 => {
                        a.iter().zip(b.iter()).all(|(p, q)| match (p, q) {
                            (OwnedTerm::Integer(p), OwnedTerm::Integer(q)) => p == q,
                            _ => true,
                        })
                    }
                    // an entry of another shape than the one `to_term` writes must not be accepted at all
                    (Some(other), OwnedTerm::Tuple(b)) if b.len() == 2 && !matches!(other, OwnedTerm::Tuple(t) if t.len() == 2) => false,
                    _ => true,
                };
                if !same {
                    ctx.fail(
                        "c20-from-term-fabricates",
                        &format!("{} term={} field={} in-term={} fabricated={}", kind, tt, term_text(k), m.get(k).map(term_text).unwrap_or_default(), term_text(v)),
                    );
                    break;
                }
            }
        }
    }
}

/// byte strings that are not UTF-8: `as_erlang_string` decodes them lossily
const BAD_UTF8: &[&[u8]] = &[
    b"\x80", b"a\xc3", b"\xc3\x28", b"\xc0\x80", b"\xc1\xbf", b"\xe0\x80\x80", b"\xe0\xa0", b"\xe2\x82", b"\xe2\x28\xa1",
    b"\xed\xa0\x80", b"\xed\x9f\xbf", b"\xf0\x80\x80\x80", b"\xf0\x90\x80", b"\xf0\x9f\x98", b"\xf4\x90\x80\x80", b"\xf4\x8f\xbf\xbf",
    b"\xf5\x80\x80\x80", b"\xff", b"ok\xe2\x82\xac\xf0\x9f", b"\xf0\x9f\x98\x80\x80", b"\xe1\x80\xe1\x80\x80", b"\xf1\x80\x80\x41",
];

const BAD_INTS: &[i64] = &[256, 300, -1, 1 << 32, (1 << 32) + 5, MAX, MIN, 1 << 40, -129, 65548, 2147483648, -2147483649, 255, 0, 12];

/// mutate a struct map: out-of-range integers, wrong types, missing keys, foreign struct names, wrong shapes
fn mutate(r: &mut Rng, t: &OwnedTerm) -> OwnedTerm {
    let OwnedTerm::Map(m0) = t else { return t.clone() };
    let mut m = m0.clone();
    let keys: Vec<OwnedTerm> = m.keys().cloned().collect();
    let n = r.range(1, 2);
    for _ in 0..n {
        let k = r.pick(&keys).clone();
        match r.below(12) {
            0..=3 => {
                // an integer the field type cannot hold
                match m.get(&k) {
                    Some(OwnedTerm::Tuple(_)) => {
                        m.insert(k, OwnedTerm::Tuple(vec![OwnedTerm::Integer(*r.pick(BAD_INTS)), OwnedTerm::Integer(*r.pick(BAD_INTS))]));
                    }
                    _ => {
                        m.insert(k, OwnedTerm::Integer(*r.pick(BAD_INTS)));
                    }
                }
            }
            4 => {
                m.insert(k, gen_simple(r, 2));
            }
            5 => {
                m.remove(&k);
            }
            6 => {
                m.insert(atom("__struct__"), r.pick(&[atom("Elixir.Other"), atom("Elixir.Date"), atom("Elixir.Range"), OwnedTerm::Binary(b"Elixir.Date".to_vec()), atom("Elixir.MapSet")]).clone());
            }
            7 => {
                m.insert(atom("microsecond"), r.pick(&[
                    OwnedTerm::Tuple(vec![OwnedTerm::Integer(1), OwnedTerm::Integer(2), OwnedTerm::Integer(3)]),
                    OwnedTerm::Integer(5),
                    OwnedTerm::Tuple(vec![atom("a"), OwnedTerm::Integer(2)]),
                    OwnedTerm::Tuple(vec![OwnedTerm::Integer(1), OwnedTerm::Float(2.5)]),
                    OwnedTerm::Tuple(vec![OwnedTerm::Integer(1 << 33), OwnedTerm::Integer(256 + 3)]),
                    OwnedTerm::Tuple(vec![OwnedTerm::BigInt(BigInt::new(false, vec![0, 0, 0, 0, 1])), OwnedTerm::Integer(6)]),
                ]).clone());
            }
            8 => {
                m.insert(atom(*r.pick(ATOMS)), gen_simple(r, 2));
            }
            9 => {
                // string-like fields in their other accepted and rejected shapes
                let s = r.pick(STRS);
                let v = match r.below(7) {
                    5 | 6 => OwnedTerm::Binary(r.pick(BAD_UTF8).to_vec()),
                    0 => OwnedTerm::String(s.to_string()),
                    1 => OwnedTerm::List(s.bytes().map(|b| OwnedTerm::Integer(b as i64)).collect()),
                    2 => OwnedTerm::List(vec![OwnedTerm::Integer(65), OwnedTerm::Integer(256)]),
                    3 => atom(s),
                    _ => OwnedTerm::Nil,
                };
                m.insert(k, v);
            }
            10 => {
                m.insert(k, OwnedTerm::BigInt(BigInt::new(r.chance(1, 2), vec![1, 0, 0, 0, 1])));
            }
            _ => {
                m.insert(k, atom(*r.pick(&["nil", "Elixir.Foo", "set", "x"])));
            }
        }
    }
    match r.below(30) {
        0 => OwnedTerm::Tuple(vec![OwnedTerm::Map(m)]),
        1 => OwnedTerm::List(vec![OwnedTerm::Map(m)]),
        2 => OwnedTerm::Nil,
        _ => OwnedTerm::Map(m),
    }
}

fn gen_u8(r: &mut Rng) -> u8 {
    match r.below(3) {
        0 => *r.pick(&[0u8, 1, 12, 13, 23, 24, 28, 29, 30, 31, 59, 60, 127, 128, 255]),
        _ => r.next() as u8,
    }
}
fn gen_i32(r: &mut Rng) -> i32 {
    match r.below(3) {
        0 => *r.pick(&[i32::MIN, i32::MAX, 0, -1, 1, 1970, 2025, 9999, 10000, 3600, -18000]),
        1 => r.range(1900, 2100) as i32,
        _ => r.next() as i32,
    }
}
fn gen_us(r: &mut Rng) -> u32 {
    match r.below(3) {
        0 => *r.pick(&[0u32, 1, 999_999, 1_000_000, (1 << 31) - 1, 1 << 31, u32::MAX]),
        1 => r.below(1_000_000) as u32,
        _ => r.next() as u32,
    }
}
fn gen_prec(r: &mut Rng) -> u8 {
    *r.pick(&[0u8, 1, 2, 3, 4, 5, 6, 6, 7, 255])
}

fn show_range(r: &ElixirRange) -> String {
    format!("R({},{},{})", r.first, r.last, r.step)
}
fn show_date(d: &ElixirDate) -> String {
    format!("D({},{},{})", d.year, d.month, d.day)
}
fn show_time(t: &ElixirTime) -> String {
    format!("T({},{},{},{},{})", t.hour, t.minute, t.second, t.microsecond_value, t.microsecond_precision)
}
fn show_naive(x: &ElixirNaiveDateTime) -> String {
    format!("N({},{},{},{},{},{},{},{})", x.year, x.month, x.day, x.hour, x.minute, x.second, x.microsecond_value, x.microsecond_precision)
}
fn show_dt(x: &ElixirDateTime) -> String {
    format!(
        "Z({},{},{},{},{},{},{},{},{},{},{},{})",
        x.year, x.month, x.day, x.hour, x.minute, x.second, x.microsecond_value, x.microsecond_precision,
        hex(x.time_zone.as_bytes()), hex(x.zone_abbr.as_bytes()), x.utc_offset, x.std_offset
    )
}
fn show_set(s: &ElixirMapSet) -> String {
    format!("M[{}]", s.iter().map(term_text).collect::<Vec<_>>().join(","))
}
fn opt_hex(s: &Option<String>) -> String {
    match s {
        None => "-".to_string(),
        Some(s) => format!("={}", hex(s.as_bytes())),
    }
}
fn opt_term(t: &Option<OwnedTerm>) -> String {
    match t {
        None => "-".to_string(),
        Some(t) => format!("={}", term_text(t)),
    }
}
fn show_key(e: &KeyError) -> String {
    format!("K({};{};{})", term_text(&e.key), term_text(&e.term), opt_hex(&e.message))
}
fn show_undef(e: &UndefinedFunctionError) -> String {
    format!("UF({},{},{},{})", hex(e.module.as_bytes()), hex(e.function.as_bytes()), e.arity, opt_hex(&e.reason))
}
fn show_fncl(e: &FunctionClauseError) -> String {
    format!(
        "FC({},{},{},{})",
        opt_hex(&e.module),
        opt_hex(&e.function),
        e.arity.map(|a| format!("={}", a)).unwrap_or_else(|| "-".to_string()),
        opt_term(&e.args)
    )
}

/// the keys of a map as a list (a third element of the `:sets` tuple that is not a map)
fn keys_as_list(t: &OwnedTerm) -> OwnedTerm {
    match t {
        OwnedTerm::Map(m) => OwnedTerm::List(m.keys().cloned().collect()),
        other => other.clone(),
    }
}

fn wrappers(ctx: &mut Ctx) {
    let n = ctx.n(120, 500);
    // ---- ranges as terms
    let mut triples: Vec<(i64, i64, i64)> = vec![(1, 10, 1), (10, 1, -1), (0, 0, 0), (MIN, MAX, 1), (1 << 40, 5, 2), (1, 2147483648, 3), (-2147483649, 0, 1), (2147483647, -2147483648, 1)];
    for _ in 0..n {
        triples.push((gen_range_val(&mut ctx.rng), gen_range_val(&mut ctx.rng), gen_step(&mut ctx.rng)));
    }
    for (f, l, s) in triples {
        let x = ElixirRange::new(f, l, s);
        wrapper_case(
            ctx, "range", &format!("range {} {} {}", f, l, s), &x,
            &|x| (*x).into(), &ElixirRange::from_term, &show_range, &|x| Some(*x),
            None, None,
        );
        let t: OwnedTerm = x.into();
        let h = mutate(&mut ctx.rng, &t);
        hostile_case(ctx, "range", &h, &ElixirRange::from_term, &|x| (*x).into(), &show_range);
    }
    // ---- dates and times
    for i in 0..n {
        let r = &mut ctx.rng;
        let d = ElixirDate { year: gen_i32(r), month: gen_u8(r), day: gen_u8(r) };
        let tm = ElixirTime { hour: gen_u8(r), minute: gen_u8(r), second: gen_u8(r), microsecond_value: gen_us(r), microsecond_precision: gen_prec(r) };
        let nv = ElixirNaiveDateTime {
            year: gen_i32(r), month: gen_u8(r), day: gen_u8(r), hour: gen_u8(r), minute: gen_u8(r), second: gen_u8(r),
            microsecond_value: gen_us(r), microsecond_precision: gen_prec(r),
        };
        let dt = ElixirDateTime {
            year: gen_i32(r), month: gen_u8(r), day: gen_u8(r), hour: gen_u8(r), minute: gen_u8(r), second: gen_u8(r),
            microsecond_value: gen_us(r), microsecond_precision: gen_prec(r),
            time_zone: r.pick(STRS).to_string(), zone_abbr: r.pick(STRS).to_string(), utc_offset: gen_i32(r), std_offset: gen_i32(r),
        };
        wrapper_case(
            ctx, "date", &format!("date {} {} {}", d.year, d.month, d.day), &d,
            &|x| (*x).into(), &ElixirDate::from_term, &show_date, &|x| Some(*x), None, None,
        );
        wrapper_case(
            ctx, "time", &format!("time {} {} {} {} {}", tm.hour, tm.minute, tm.second, tm.microsecond_value, tm.microsecond_precision), &tm,
            &|x| (*x).into(), &ElixirTime::from_term, &show_time, &|x| Some(*x),
            None, None,
        );
        wrapper_case(
            ctx, "naive",
            &format!("naive {} {} {} {} {} {} {} {}", nv.year, nv.month, nv.day, nv.hour, nv.minute, nv.second, nv.microsecond_value, nv.microsecond_precision),
            &nv, &|x| (*x).into(), &ElixirNaiveDateTime::from_term, &show_naive, &|x| Some(*x),
            None, None,
        );
        wrapper_case(
            ctx, "datetime",
            &format!(
                "datetime {} {} {} {} {} {} {} {} {} {} {} {}",
                dt.year, dt.month, dt.day, dt.hour, dt.minute, dt.second, dt.microsecond_value, dt.microsecond_precision,
                hexarg(dt.time_zone.as_bytes()), hexarg(dt.zone_abbr.as_bytes()), dt.utc_offset, dt.std_offset
            ),
            &dt, &|x| x.clone().into(), &ElixirDateTime::from_term, &show_dt, &|x| Some(x.clone()),
            None, None,
        );
        // hostile variants: month 300, day -1, microsecond 2^33, wrong types, missing keys, foreign struct, …
        let reps = if i < 4 { 6 } else { 2 };
        for _ in 0..reps {
            let h = mutate(&mut ctx.rng, &d.into());
            hostile_case(ctx, "date", &h, &ElixirDate::from_term, &|x| (*x).into(), &show_date);
            let h = mutate(&mut ctx.rng, &tm.into());
            hostile_case(ctx, "time", &h, &ElixirTime::from_term, &|x| (*x).into(), &show_time);
            let h = mutate(&mut ctx.rng, &nv.into());
            hostile_case(ctx, "naive", &h, &ElixirNaiveDateTime::from_term, &|x| (*x).into(), &show_naive);
            let h = mutate(&mut ctx.rng, &dt.clone().into());
            hostile_case(ctx, "datetime", &h, &ElixirDateTime::from_term, &|x| x.clone().into(), &show_dt);
        }
    }
    // exhaustive sweep of one u8 field: every month in -3..=300 (and a few wider values) in an otherwise valid date
    for v in (-3i64..=300).chain([511, 512, 65535, 65536 + 7, 1 << 32, (1 << 32) + 12, MAX, MIN]) {
        let mut m = BTreeMap::new();
        m.insert(atom("__struct__"), atom("Elixir.Date"));
        m.insert(atom("year"), OwnedTerm::Integer(2025));
        m.insert(atom("month"), OwnedTerm::Integer(v));
        m.insert(atom("day"), OwnedTerm::Integer(1));
        m.insert(atom("calendar"), atom("Elixir.Calendar.ISO"));
        hostile_case(ctx, "date", &OwnedTerm::Map(m), &ElixirDate::from_term, &|x| (*x).into(), &show_date);
    }
    ctx.add("date_month_sweep", 312);
    // the recorded witness: month 300 comes back as 44
    {
        let mut m = BTreeMap::new();
        m.insert(atom("__struct__"), atom("Elixir.Date"));
        m.insert(atom("year"), OwnedTerm::Integer(2025));
        m.insert(atom("month"), OwnedTerm::Integer(300));
        m.insert(atom("day"), OwnedTerm::Integer(1));
        m.insert(atom("calendar"), atom("Elixir.Calendar.ISO"));
        hostile_case(ctx, "date", &OwnedTerm::Map(m), &ElixirDate::from_term, &|x| (*x).into(), &show_date);
    }
    // ---- map sets
    for _ in 0..n {
        let k = ctx.rng.below(6) as usize;
        let vals: Vec<OwnedTerm> = (0..k).map(|_| gen_simple(&mut ctx.rng, 1)).collect();
        let mut set = ElixirMapSet::new();
        for v in &vals {
            set.insert(v.clone());
        }
        let collected: ElixirMapSet = vals.iter().cloned().collect();
        if collected != set {
            ctx.fail("c20-mapset-collect-differs-from-insert", &format!("values={}", term_text(&OwnedTerm::List(vals.clone()))));
        }
        let arg = term_text(&OwnedTerm::List(vals.clone()));
        wrapper_case(
            ctx, "mapset", &format!("mapset {}", arg), &set,
            &|x| x.clone().into(), &ElixirMapSet::from_term, &show_set,
            &|x| {
                let mut s = ElixirMapSet::new();
                for e in x.iter() {
                    s.insert(wire(e)?);
                }
                Some(s)
            },
            None, None,
        );
        let t: OwnedTerm = set.clone().into();
        let h = mutate(&mut ctx.rng, &t);
        hostile_case(ctx, "mapset", &h, &ElixirMapSet::from_term, &|x| x.clone().into(), &show_set);
        // the `:sets` tuple in wrong shapes: another tag, 2 or 4 elements, a third element that is no map, a wrong size
        if let OwnedTerm::Map(m0) = &t {
            if let Some(OwnedTerm::Tuple(tp)) = m0.get(&atom("map")) {
                let mut tp = tp.clone();
                match ctx.rng.below(7) {
                    0 => tp[0] = atom(*ctx.rng.pick(&["sets", "nil", "Set", "map"])),
                    1 => tp[0] = OwnedTerm::Binary(b"set".to_vec()),
                    2 => {
                        tp.pop();
                    }
                    3 => tp.push(OwnedTerm::Nil),
                    4 => tp[2] = keys_as_list(&tp[2]),
                    5 => tp[1] = OwnedTerm::Integer(*ctx.rng.pick(&[-1i64, 0, 99, MAX])),
                    _ => tp.swap(0, 1),
                }
                // `:sets` version 2 is exactly `{set, Size, Map}`: anything else is not a map set
                let well_shaped = tp.len() == 3 && tp[0] == atom("set") && matches!(tp[2], OwnedTerm::Map(_));
                let mut m = m0.clone();
                m.insert(atom("map"), OwnedTerm::Tuple(tp));
                let h = OwnedTerm::Map(m);
                hostile_case(ctx, "mapset", &h, &ElixirMapSet::from_term, &|x| x.clone().into(), &show_set);
                if ElixirMapSet::from_term(&h).is_some() != well_shaped {
                    ctx.fail("c20-mapset-wrong-shape", &format!("term={} accepted={}", term_text(&h), !well_shaped));
                }
                ctx.count("mapset_hostile_tuple");
            }
        }
    }
    // ---- exceptions
    for _ in 0..n {
        let msg = ctx.rng.pick(STRS).to_string();
        let a = gen_simple(&mut ctx.rng, 1);
        let b = gen_simple(&mut ctx.rng, 1);
        let h = hexarg(msg.as_bytes());
        macro_rules! msg_exc {
            ($ty:ident, $name:expr) => {{
                wrapper_case(
                    ctx, concat!("msg ", $name), &format!("msg {} {}", $name, h), &$ty::new(msg.clone()),
                    &|x: &$ty| x.to_term(), &$ty::from_term, &|x: &$ty| format!("E{}", hex(x.message.as_bytes())), &|x: &$ty| Some(x.clone()), None, None,
                );
            }};
        }
        macro_rules! term_exc {
            ($ty:ident, $name:expr) => {{
                wrapper_case(
                    ctx, concat!("texc ", $name), &format!("texc {} {}", $name, term_text(&a)), &$ty::new(a.clone()),
                    &|x: &$ty| x.to_term(), &$ty::from_term, &|x: &$ty| format!("X{}", term_text(&x.term)),
                    &|x: &$ty| Some($ty::new(wire(&x.term)?)), None, None,
                );
            }};
        }
        match ctx.rng.below(3) {
            0 => msg_exc!(ArgumentError, "argument"),
            1 => msg_exc!(RuntimeError, "runtime"),
            _ => msg_exc!(ArithmeticError, "arithmetic"),
        }
        match ctx.rng.below(5) {
            0 => term_exc!(MatchError, "match"),
            1 => term_exc!(BadMapError, "badmap"),
            2 => term_exc!(BadFunctionError, "badfun"),
            3 => term_exc!(CaseClauseError, "caseclause"),
            _ => term_exc!(WithClauseError, "withclause"),
        }
        wrapper_case(
            ctx, "cond", "cond", &CondClauseError::new(),
            &|x: &CondClauseError| x.to_term(), &CondClauseError::from_term, &|_| "C".to_string(), &|x| Some(x.clone()), None, None,
        );
        let kmsg = if ctx.rng.chance(1, 2) { Some(ctx.rng.pick(STRS).to_string()) } else { None };
        let ke = KeyError { key: a.clone(), term: b.clone(), message: kmsg };
        wrapper_case(
            ctx, "keyerr", &format!("keyerr {} {} {}", term_text(&ke.key), term_text(&ke.term), opt_hex(&ke.message)), &ke,
            &|x: &KeyError| x.to_term(), &KeyError::from_term, &show_key,
            &|x: &KeyError| Some(KeyError { key: wire(&x.key)?, term: wire(&x.term)?, message: x.message.clone() }), None, None,
        );
        let mods = ["Foo", "Foo.Bar", "Elixir.Foo", "Elixir.", "foo", "", "Elixir", "Kernel"];
        let module = ctx.rng.pick(&mods).to_string();
        let function = ctx.rng.pick(&["bar", "nil", "", "baz!"]).to_string();
        let reason = if ctx.rng.chance(1, 2) { Some(ctx.rng.pick(STRS).to_string()) } else { None };
        let ue = UndefinedFunctionError { module: module.clone(), function: function.clone(), arity: gen_u8(&mut ctx.rng), reason };
        // the constructors accept either spelling of the module and store it without the prefix
        {
            let made = match &ue.reason {
                Some(r) => UndefinedFunctionError::with_reason(module.clone(), function.clone(), ue.arity, r.clone()),
                None => UndefinedFunctionError::new(module.clone(), function.clone(), ue.arity),
            };
            ctx.tie(
                "wrap",
                &format!("c20new undef {} {} {} {}", hexarg(module.as_bytes()), hexarg(function.as_bytes()), ue.arity, opt_hex(&ue.reason)),
                &show_undef(&made),
            );
            if UndefinedFunctionError::from_term(&made.to_term()).as_ref() != Some(&made) {
                ctx.fail("c20-roundtrip-memory", &format!("undef constructed={:?}", made));
            }
            let made = FunctionClauseError::new(module.clone(), function.clone(), ue.arity, a.clone());
            ctx.tie(
                "wrap",
                &format!("c20new fncl {} {} {} {}", hexarg(module.as_bytes()), hexarg(function.as_bytes()), ue.arity, term_text(&a)),
                &show_fncl(&made),
            );
        }
        wrapper_case(
            ctx, "undef", &format!("undef {} {} {} {}", hexarg(ue.module.as_bytes()), hexarg(ue.function.as_bytes()), ue.arity, opt_hex(&ue.reason)), &ue,
            &|x: &UndefinedFunctionError| x.to_term(), &UndefinedFunctionError::from_term, &show_undef, &|x| Some(x.clone()),
            None, None,
        );
        let fm = if ctx.rng.chance(3, 4) { Some(ctx.rng.pick(&mods).to_string()) } else { None };
        // a function called `nil` is left out for the same reason as `Some(nil)` args below
        let ff = if ctx.rng.chance(3, 4) { Some(ctx.rng.pick(&["bar", "", "baz!"]).to_string()) } else { None };
        let fa = if ctx.rng.chance(3, 4) { Some(gen_u8(&mut ctx.rng)) } else { None };
        // `Some(nil)` is left out: the atom `nil` is how an absent `args` is written, so the two cannot be told apart
        let fg = if ctx.rng.chance(3, 4) { Some(if ctx.rng.chance(1, 8) { OwnedTerm::List(vec![]) } else { OwnedTerm::List(vec![a.clone(), b.clone()]) }) } else { None };
        let fe = FunctionClauseError { module: fm.clone(), function: ff.clone(), arity: fa, args: fg.clone() };
        wrapper_case(
            ctx, "fncl",
            &format!("fncl {} {} {} {}", opt_hex(&fe.module), opt_hex(&fe.function), fe.arity.map(|a| format!("={}", a)).unwrap_or_else(|| "-".to_string()), opt_term(&fe.args)),
            &fe, &|x: &FunctionClauseError| x.to_term(), &FunctionClauseError::from_term, &show_fncl,
            &|x: &FunctionClauseError| {
                Some(FunctionClauseError {
                    module: x.module.clone(), function: x.function.clone(), arity: x.arity,
                    args: match &x.args { Some(t) => Some(wire(t)?), None => None },
                })
            },
            None, None,
        );
        // hostile exception terms
        let h = mutate(&mut ctx.rng, &ue.to_term());
        hostile_case(ctx, "undef", &h, &UndefinedFunctionError::from_term, &|x: &UndefinedFunctionError| x.to_term(), &show_undef);
        let h = mutate(&mut ctx.rng, &fe.to_term());
        hostile_case(ctx, "fncl", &h, &FunctionClauseError::from_term, &|x: &FunctionClauseError| x.to_term(), &show_fncl);
        let h = mutate(&mut ctx.rng, &ke.to_term());
        hostile_case(ctx, "keyerr", &h, &KeyError::from_term, &|x: &KeyError| x.to_term(), &show_key);
        let h = mutate(&mut ctx.rng, &ArgumentError::new(msg.clone()).to_term());
        hostile_case(ctx, "msg argument", &h, &ArgumentError::from_term, &|x: &ArgumentError| x.to_term(), &|x: &ArgumentError| format!("E{}", hex(x.message.as_bytes())));
        let h = mutate(&mut ctx.rng, &MatchError::new(a.clone()).to_term());
        hostile_case(ctx, "texc match", &h, &MatchError::from_term, &|x: &MatchError| x.to_term(), &|x: &MatchError| format!("X{}", term_text(&x.term)));
    }
    // the recorded witness: the empty FunctionClauseError
    {
        let fe = FunctionClauseError::empty();
        wrapper_case(
            ctx, "fncl", "fncl - - - -", &fe, &|x: &FunctionClauseError| x.to_term(), &FunctionClauseError::from_term, &show_fncl,
            &|x: &FunctionClauseError| Some(x.clone()), None, None,
        );
    }
}

// ------------------------------------------------------------------------------------------------ proplists, builders

fn res_text(r: Result<OwnedTerm, erltf::errors::TermConversionError>) -> String {
    match r {
        Ok(t) => format!("ok {}", term_text(&t)),
        Err(_) => "err".to_string(),
    }
}

fn gen_proplist(r: &mut Rng, depth: u32) -> OwnedTerm {
    let n = r.below(6) as usize;
    let mut v = Vec::new();
    for _ in 0..n {
        let key = match r.below(8) {
            0..=4 => atom(*r.pick(&["a", "b", "c", "name", "age", "ok"])),
            5 => OwnedTerm::Binary(r.pick(&["a", "k", ""]).as_bytes().to_vec()),
            6 => OwnedTerm::String(r.pick(&["a", "s"]).to_string()),
            _ => OwnedTerm::Integer(r.below(3) as i64),
        };
        let val = if depth < 2 && r.chance(1, 4) { gen_proplist(r, depth + 1) } else { gen_simple(r, 2) };
        v.push(match r.below(10) {
            0 | 1 => match key {
                OwnedTerm::Atom(_) => key,
                _ => atom("flag"),
            },
            2 if depth > 0 || r.chance(1, 3) => r.pick(&[
                OwnedTerm::Tuple(vec![atom("a"), OwnedTerm::Integer(1), OwnedTerm::Integer(2)]),
                OwnedTerm::Integer(7),
                OwnedTerm::Tuple(vec![]),
                OwnedTerm::Nil,
            ]).clone(),
            _ => OwnedTerm::Tuple(vec![key, val]),
        });
    }
    OwnedTerm::List(v)
}

fn proplists(ctx: &mut Ctx) {
    let n = ctx.n(500, 3000);
    for i in 0..n {
        let t = match ctx.rng.below(10) {
            0 => gen_simple(&mut ctx.rng, 0),
            1 => OwnedTerm::Nil,
            2 => {
                let mut m = BTreeMap::new();
                for _ in 0..ctx.rng.below(5) {
                    m.insert(gen_key(&mut ctx.rng), if ctx.rng.chance(1, 3) { gen_proplist(&mut ctx.rng, 1) } else { gen_simple(&mut ctx.rng, 2) });
                }
                OwnedTerm::Map(m)
            }
            _ => gen_proplist(&mut ctx.rng, 0),
        };
        let tt = term_text(&t);
        ctx.count(&format!("proplist_input_{}", crate::c01::variant(&t)));
        ctx.tie("plist", &format!("c20isp {}", tt), if t.is_proplist() { "1" } else { "0" });
        let norm = t.normalize_proplist();
        let p2m = t.proplist_to_map();
        let m2p = t.map_to_proplist();
        ctx.tie("plist", &format!("c20norm {}", tt), &res_text(norm.clone()));
        ctx.tie("plist", &format!("c20p2m {}", tt), &res_text(p2m.clone()));
        ctx.tie("plist", &format!("c20m2p {}", tt), &res_text(m2p.clone()));
        ctx.tie("plist", &format!("c20rec {}", tt), &res_text(t.to_map_recursive()));
        let k = *ctx.rng.pick(&["a", "b", "name", "zz"]);
        ctx.tie(
            "plist",
            &format!("c20pget {} {}", tt, hex(k.as_bytes())),
            &t.proplist_get_atom_key(k).map(|x| format!("ok {}", term_text(x))).unwrap_or_else(|| "none".to_string()),
        );
        // the property on the implementation
        if let (Ok(nrm), Ok(m)) = (&norm, &p2m) {
            if matches!(t, OwnedTerm::List(_)) {
                // normalising first changes nothing
                if nrm.proplist_to_map().ok().as_ref() != Some(m) {
                    ctx.fail("c20-proplist-normalize-changes-map", &format!("proplist={}", tt));
                }
                // distinct keys: map and back is the normalised proplist, in key order
                if let (OwnedTerm::List(els), OwnedTerm::Map(mm)) = (nrm, m) {
                    if els.len() == mm.len() {
                        let mut want = els.clone();
                        want.sort();
                        if m.map_to_proplist().ok() != Some(OwnedTerm::List(want)) {
                            ctx.fail("c20-proplist-map-proplist-loses", &format!("proplist={}", tt));
                        }
                        ctx.count("proplist_distinct_keys");
                    } else {
                        ctx.count("proplist_duplicate_keys");
                    }
                }
            }
        }
        if let OwnedTerm::Map(_) = &t {
            // map → proplist → map is the identity
            let back = m2p.as_ref().ok().and_then(|p| p.proplist_to_map().ok());
            if back.as_ref() != Some(&t) {
                ctx.fail("c20-map-proplist-map-loses", &format!("map={}", tt));
            }
        }
        // builders: the same pairs through KeywordListBuilder and AtomKeyMapBuilder
        if i % 3 == 0 {
            let np = ctx.rng.below(6) as usize;
            let pairs: Vec<(String, OwnedTerm)> = (0..np).map(|_| (ctx.rng.pick(ATOMS).to_string(), gen_simple(&mut ctx.rng, 2))).collect();
            let mut kw = KeywordListBuilder::new();
            let mut akm = AtomKeyMapBuilder::new();
            for (k, v) in &pairs {
                kw = kw.put_term(k, v.clone());
                akm = akm.insert_term(k, v.clone());
            }
            let arg = term_text(&OwnedTerm::List(pairs.iter().map(|(k, v)| OwnedTerm::Tuple(vec![atom(k), v.clone()])).collect()));
            let kwt = kw.build();
            let module = *ctx.rng.pick(&["MyApp.User", "Foo", ""]);
            let st = akm.clone().build_struct(module);
            let akt = akm.build();
            ctx.tie("build", &format!("c20kw {}", arg), &term_text(&kwt));
            ctx.tie("build", &format!("c20akm {}", arg), &term_text(&akt));
            ctx.tie("build", &format!("c20akms {} {}", arg, hexarg(module.as_bytes())), &term_text(&st));
            if !kwt.is_proplist() || kwt.proplist_to_map().ok().as_ref() != Some(&akt) {
                ctx.fail("c20-builders-disagree", &format!("pairs={}", arg));
            }
            let full = format!("Elixir.{}", module);
            if st.elixir_struct_module() != Some(full.as_str()) {
                ctx.fail("c20-build-struct-module", &format!("pairs={} module={}", arg, module));
            }
        }
    }
}


// ------------------------------------------------------------------------------------------------ checked constructors

fn opt_show<T>(x: &Option<T>, f: &dyn Fn(&T) -> String) -> String {
    x.as_ref().map(f).unwrap_or_else(|| "none".to_string())
}

const YEARS: &[i32] = &[
    i32::MIN, -2147483647, -400, -100, -4, -1, 0, 1, 4, 100, 400, 1600, 1700, 1900, 1999, 2000, 2023, 2024, 2100, 2400, i32::MAX - 3, i32::MAX,
];

fn date_ctor_case(ctx: &mut Ctx, y: i32, m: u8, d: u8) {
    let r = catch_unwind(|| ElixirDate::try_new(y, m, d));
    let Ok(r) = r else {
        ctx.tie("ctor", &format!("c20try date {} {} {}", y, m, d), "panic");
        ctx.fail("c20-try-new-panics", &format!("date {} {} {}", y, m, d));
        return;
    };
    ctx.tie("ctor", &format!("c20try date {} {} {}", y, m, d), &opt_show(&r, &show_date));
    ctx.prop("gen", &format!("c20pcal date {} {} {} {}", y, m, d, r.is_some() as u8), "ok");
    ctx.count(if r.is_some() { "date_try_new_some" } else { "date_try_new_none" });
    if let Some(x) = r {
        if (x.year, x.month, x.day) != (y, m, d) {
            ctx.fail("c20-try-new-changes-fields", &format!("date {} {} {} -> {:?}", y, m, d, x));
        }
        if ElixirDate::from_term(&x.into()) != Some(x) {
            ctx.fail("c20-roundtrip-memory", &format!("date try_new {:?}", x));
        }
    }
}

#[allow(clippy::too_many_arguments)]
fn time_ctor_case(ctx: &mut Ctx, h: u8, mi: u8, s: u8, us: u32, p: u8) {
    let r = catch_unwind(|| ElixirTime::try_new(h, mi, s, us, p)).unwrap_or(None);
    ctx.tie("ctor", &format!("c20try time {} {} {} {} {}", h, mi, s, us, p), &opt_show(&r, &show_time));
    ctx.prop("gen", &format!("c20pcal time {} {} {} {} {} {}", h, mi, s, us, p, r.is_some() as u8), "ok");
    ctx.count(if r.is_some() { "time_try_new_some" } else { "time_try_new_none" });
    if let Some(x) = r {
        if (x.hour, x.minute, x.second, x.microsecond_value, x.microsecond_precision) != (h, mi, s, us, p) {
            ctx.fail("c20-try-new-changes-fields", &format!("time {} {} {} {} {} -> {:?}", h, mi, s, us, p, x));
        }
        if ElixirTime::from_term(&x.into()) != Some(x) {
            ctx.fail("c20-roundtrip-memory", &format!("time try_new {:?}", x));
        }
    }
    let n = ElixirTime::new(h, mi, s, us, p);
    ctx.tie("ctor", &format!("c20new time {} {} {} {} {}", h, mi, s, us, p), &show_time(&n));
    // the unchecked constructor must keep every field it does not document to change (the precision is clamped to 6)
    if (n.hour, n.minute, n.second, n.microsecond_value) != (h, mi, s, us) || n.microsecond_precision != p.min(6) {
        ctx.fail("c20-new-changes-fields", &format!("time {} {} {} {} {} -> {:?}", h, mi, s, us, p, n));
    }
}

fn constructors(ctx: &mut Ctx) {
    // every month 0..=13 and 255, the days around every month end, the years around every leap rule
    let days: &[u8] = &[0, 1, 2, 27, 28, 29, 30, 31, 32, 255];
    for &y in YEARS {
        ctx.tie("ctor", &format!("c20leap {}", y), if ElixirDate::is_leap_year(y) { "1" } else { "0" });
        for m in (0u8..=13).chain([255u8]) {
            for &d in days {
                date_ctor_case(ctx, y, m, d);
            }
        }
    }
    ctx.add("date_try_new_grid", (YEARS.len() * 15 * days.len()) as u64);
    for &h in &[0u8, 12, 23, 24, 255] {
        for &mi in &[0u8, 59, 60, 255] {
            for &s in &[0u8, 59, 60, 255] {
                for &us in &[0u32, 1, 999_999, 1_000_000, u32::MAX] {
                    for &p in &[0u8, 1, 6, 7, 255] {
                        time_ctor_case(ctx, h, mi, s, us, p);
                    }
                }
                let r = ElixirTime::try_hms(h, mi, s);
                ctx.tie("ctor", &format!("c20try hms {} {} {}", h, mi, s), &opt_show(&r, &show_time));
                ctx.tie("ctor", &format!("c20new hms {} {} {}", h, mi, s), &show_time(&ElixirTime::hms(h, mi, s)));
            }
        }
    }
    ctx.add("time_try_new_grid", 5 * 4 * 4 * 5 * 5);
    let n = ctx.n(400, 4000);
    for _ in 0..n {
        let r = &mut ctx.rng;
        // mostly plausible values so that both outcomes occur
        let y = if r.chance(2, 3) { *r.pick(YEARS) } else { gen_i32(r) };
        let mo = if r.chance(3, 4) { r.below(14) as u8 } else { gen_u8(r) };
        let d = if r.chance(3, 4) { *r.pick(&[0u8, 1, 15, 28, 29, 30, 31, 32]) } else { gen_u8(r) };
        let h = if r.chance(3, 4) { *r.pick(&[0u8, 7, 23, 24]) } else { gen_u8(r) };
        let mi = if r.chance(3, 4) { *r.pick(&[0u8, 30, 59, 60]) } else { gen_u8(r) };
        let s = if r.chance(3, 4) { *r.pick(&[0u8, 30, 59, 60]) } else { gen_u8(r) };
        let us = if r.chance(3, 4) { *r.pick(&[0u32, 5, 999_999, 1_000_000]) } else { gen_us(r) };
        let p = gen_prec(r);
        date_ctor_case(ctx, y, mo, d);
        time_ctor_case(ctx, h, mi, s, us, p);
        let args = format!("{} {} {} {} {} {} {} {}", y, mo, d, h, mi, s, us, p);
        let nv = ElixirNaiveDateTime::try_new(y, mo, d, h, mi, s, us, p);
        ctx.tie("ctor", &format!("c20try naive {}", args), &opt_show(&nv, &show_naive));
        ctx.prop("gen", &format!("c20pcal naive {} {}", args, nv.is_some() as u8), "ok");
        ctx.count(if nv.is_some() { "naive_try_new_some" } else { "naive_try_new_none" });
        let ut = ElixirDateTime::try_utc(y, mo, d, h, mi, s, us, p);
        ctx.tie("ctor", &format!("c20try utc {}", args), &opt_show(&ut, &show_dt));
        ctx.prop("gen", &format!("c20pcal naive {} {}", args, ut.is_some() as u8), "ok");
        if let Some(x) = &nv {
            let want = ElixirNaiveDateTime { year: y, month: mo, day: d, hour: h, minute: mi, second: s, microsecond_value: us, microsecond_precision: p };
            if *x != want {
                ctx.fail("c20-try-new-changes-fields", &format!("naive {} -> {:?}", args, x));
            }
            if ElixirNaiveDateTime::from_term(&(*x).into()) != Some(*x) || wire(&(*x).into()).and_then(|t| ElixirNaiveDateTime::from_term(&t)) != Some(*x) {
                ctx.fail("c20-roundtrip-memory", &format!("naive try_new {:?}", x));
            }
        }
        if let Some(x) = &ut {
            if ElixirDateTime::from_term(&x.clone().into()).as_ref() != Some(x) || wire(&x.clone().into()).and_then(|t| ElixirDateTime::from_term(&t)).as_ref() != Some(x) {
                ctx.fail("c20-roundtrip-memory", &format!("datetime try_utc {:?}", x));
            }
        }
        let nn = ElixirNaiveDateTime::new(y, mo, d, h, mi, s, us, p);
        ctx.tie("ctor", &format!("c20new naive {}", args), &show_naive(&nn));
        let uu = ElixirDateTime::utc(y, mo, d, h, mi, s, us, p);
        ctx.tie("ctor", &format!("c20new utc {}", args), &show_dt(&uu));
        let tz = ctx.rng.pick(STRS).to_string();
        let za = ctx.rng.pick(STRS).to_string();
        let (uo, so) = (gen_i32(&mut ctx.rng), gen_i32(&mut ctx.rng));
        let wz = ElixirDateTime::with_timezone(y, mo, d, h, mi, s, us, p, &tz, &za, uo, so);
        ctx.tie(
            "ctor",
            &format!("c20new withtz {} {} {} {} {}", args, hexarg(tz.as_bytes()), hexarg(za.as_bytes()), uo, so),
            &show_dt(&wz),
        );
        // conversions of a value whose fields are set directly (the precision may exceed 6)
        let raw = ElixirNaiveDateTime { year: y, month: mo, day: d, hour: h, minute: mi, second: s, microsecond_value: us, microsecond_precision: p };
        let back = ElixirNaiveDateTime::from_date_time(raw.to_date(), ElixirTime { hour: h, minute: mi, second: s, microsecond_value: us, microsecond_precision: p });
        ctx.tie(
            "ctor",
            &format!("c20conv naive {}", args),
            &format!("{} {} {}", show_date(&raw.to_date()), show_time(&raw.to_time()), show_naive(&back)),
        );
        let rawz = ElixirDateTime {
            year: y, month: mo, day: d, hour: h, minute: mi, second: s, microsecond_value: us, microsecond_precision: p,
            time_zone: tz.clone(), zone_abbr: za.clone(), utc_offset: uo, std_offset: so,
        };
        ctx.tie(
            "ctor",
            &format!("c20conv datetime {} {} {} {} {}", args, hexarg(tz.as_bytes()), hexarg(za.as_bytes()), uo, so),
            &format!("{} {} {}", show_date(&rawz.to_date()), show_time(&rawz.to_time()), show_naive(&rawz.to_naive())),
        );
        if back != raw {
            ctx.fail("c20-from-date-time-loses", &format!("naive {:?} -> {:?}", raw, back));
        }
    }
}

// ------------------------------------------------------------------------------------------------ map set operations

fn set_ops(ctx: &mut Ctx) {
    let n = ctx.n(150, 1500);
    for _ in 0..n {
        // a small pool so that inserts hit existing members and removes hit present ones
        let pool: Vec<OwnedTerm> = (0..5).map(|_| gen_simple(&mut ctx.rng, 1)).collect();
        let k = ctx.rng.below(9) as usize;
        let mut set = ElixirMapSet::new();
        let mut ops: Vec<OwnedTerm> = Vec::new();
        let mut flags = String::new();
        for _ in 0..k {
            let t = ctx.rng.pick(&pool).clone();
            match ctx.rng.below(10) {
                0..=4 => {
                    flags.push(if set.insert(t.clone()) { '1' } else { '0' });
                    ops.push(OwnedTerm::Tuple(vec![atom("i"), t]));
                }
                5 | 6 => {
                    flags.push(if set.remove(&t) { '1' } else { '0' });
                    ops.push(OwnedTerm::Tuple(vec![atom("r"), t]));
                }
                7 | 8 => {
                    flags.push(if set.contains(&t) { '1' } else { '0' });
                    ops.push(OwnedTerm::Tuple(vec![atom("c"), t]));
                }
                _ => {
                    set.clear();
                    flags.push('x');
                    ops.push(atom("clear"));
                }
            }
        }
        ctx.count(&format!("set_ops_{}", k.min(4)));
        ctx.tie(
            "setops",
            &format!("c20setseq {}", term_text(&OwnedTerm::List(ops))),
            &format!("{} {} {} {}", flags, show_set(&set), set.len(), set.is_empty() as u8),
        );
        // whatever the operations were, the set converts to a term and back (also through the wire)
        let t: OwnedTerm = set.clone().into();
        if ElixirMapSet::from_term(&t).as_ref() != Some(&set) {
            ctx.fail("c20-roundtrip-memory", &format!("mapset after ops {}", show_set(&set)));
        }
        let a_vals: Vec<OwnedTerm> = (0..ctx.rng.below(5)).map(|_| ctx.rng.pick(&pool).clone()).collect();
        let b_vals: Vec<OwnedTerm> = (0..ctx.rng.below(5)).map(|_| ctx.rng.pick(&pool).clone()).collect();
        let a = ElixirMapSet::from_values(a_vals.clone());
        let b: ElixirMapSet = b_vals.iter().cloned().collect();
        let (u, i, d, sd) = (a.union(&b), a.intersection(&b), a.difference(&b), a.symmetric_difference(&b));
        ctx.tie(
            "setops",
            &format!("c20set2 {} {}", term_text(&OwnedTerm::List(a_vals)), term_text(&OwnedTerm::List(b_vals))),
            &format!(
                "{} {} {} {} {}{}{}",
                show_set(&u), show_set(&i), show_set(&d), show_set(&sd),
                a.is_subset(&b) as u8, a.is_superset(&b) as u8, a.is_disjoint(&b) as u8
            ),
        );
        for (name, x) in [("union", &u), ("intersection", &i), ("difference", &d), ("symmetric_difference", &sd)] {
            let t: OwnedTerm = x.clone().into();
            let mut viaw = ElixirMapSet::new();
            let mut ok = true;
            for e in x {
                match wire(e) {
                    Some(w) => {
                        viaw.insert(w);
                    }
                    None => ok = false,
                }
            }
            if ElixirMapSet::from_term(&t).as_ref() != Some(x) {
                ctx.fail("c20-roundtrip-memory", &format!("mapset {} {}", name, show_set(x)));
            }
            if ok && wire(&t).and_then(|w| ElixirMapSet::from_term(&w)).as_ref() != Some(&viaw) {
                ctx.fail("c20-roundtrip-wire", &format!("mapset {} {}", name, show_set(x)));
            }
        }
        // iteration: owned and borrowed yield the elements in order
        let owned: Vec<OwnedTerm> = u.clone().into_iter().collect();
        let borrowed: Vec<OwnedTerm> = (&u).into_iter().cloned().collect();
        if owned != borrowed || owned.len() != u.len() {
            ctx.fail("c20-mapset-iteration", &format!("{}", show_set(&u)));
        }
    }
}

// ------------------------------------------------------------------------------------------------ builder call chains

const KEYS: &[&str] = &["a", "b", "name", "age", "timeout", "ok", "nil", "__struct__"];

fn bval(r: &mut Rng) -> (OwnedTerm, u8, i64, bool, String) {
    // (description term, kind, int, bool, str): the harness calls the generic method with the Rust value of that kind
    match r.below(3) {
        0 => {
            let i = *r.pick(&[0i64, 1, -1, 5000, 1 << 40, MIN, MAX]);
            (OwnedTerm::Tuple(vec![atom("i"), OwnedTerm::Integer(i)]), 0, i, false, String::new())
        }
        1 => {
            let b = r.chance(1, 2);
            (OwnedTerm::Tuple(vec![atom("b"), atom(if b { "true" } else { "false" })]), 1, 0, b, String::new())
        }
        _ => {
            let s = r.pick(STRS).to_string();
            (OwnedTerm::Tuple(vec![atom("s"), OwnedTerm::Binary(s.as_bytes().to_vec())]), 2, 0, false, s)
        }
    }
}

fn builder_ops(ctx: &mut Ctx) {
    let n = ctx.n(200, 2000);
    for _ in 0..n {
        let mut kw = if ctx.rng.chance(1, 4) { KeywordListBuilder::with_capacity(ctx.rng.below(9) as usize) } else { KeywordListBuilder::new() };
        let mut akm = AtomKeyMapBuilder::new();
        let mut kw_ops: Vec<OwnedTerm> = Vec::new();
        let mut akm_ops: Vec<OwnedTerm> = Vec::new();
        let mut firsts: Vec<(String, OwnedTerm)> = Vec::new();
        let mut lasts: BTreeMap<String, OwnedTerm> = BTreeMap::new();
        let k = ctx.rng.below(7);
        for _ in 0..k {
            let key: &'static str = *ctx.rng.pick(KEYS);
            let ka = atom(key);
            let mut pushed: Vec<(String, OwnedTerm)> = Vec::new();
            match ctx.rng.below(8) {
                0 | 1 => {
                    let (d, kind, i, b, s) = bval(&mut ctx.rng);
                    let v: OwnedTerm = match kind { 0 => i.into(), 1 => b.into(), _ => s.as_str().into() };
                    match kind {
                        0 => { kw = kw.put(key, i); akm = akm.insert(key, i); }
                        1 => { kw = kw.put(key, b); akm = akm.insert(key, b); }
                        _ => { kw = kw.put(key, s.as_str()); akm = akm.insert(key, s.as_str()); }
                    }
                    let op = OwnedTerm::Tuple(vec![atom("put"), ka, d]);
                    kw_ops.push(op.clone());
                    akm_ops.push(op);
                    pushed.push((key.to_string(), v));
                }
                2 => {
                    let a = *ctx.rng.pick(ATOMS);
                    kw = kw.put_atom(key, a);
                    akm = akm.insert_atom(key, a);
                    let op = OwnedTerm::Tuple(vec![atom("atom"), ka, atom(a)]);
                    kw_ops.push(op.clone());
                    akm_ops.push(op);
                    pushed.push((key.to_string(), atom(a)));
                }
                3 => {
                    kw = kw.put_flag(key);
                    akm = akm.insert(key, true);
                    kw_ops.push(OwnedTerm::Tuple(vec![atom("flag"), ka.clone()]));
                    akm_ops.push(OwnedTerm::Tuple(vec![atom("put"), ka, OwnedTerm::Tuple(vec![atom("b"), atom("true")])]));
                    pushed.push((key.to_string(), atom("true")));
                }
                4 => {
                    let t = gen_simple(&mut ctx.rng, 2);
                    kw = kw.put_term(key, t.clone());
                    akm = akm.insert_term(key, t.clone());
                    let op = OwnedTerm::Tuple(vec![atom("term"), ka, t.clone()]);
                    kw_ops.push(op.clone());
                    akm_ops.push(op);
                    pushed.push((key.to_string(), t));
                }
                5 => {
                    let c = ctx.rng.chance(1, 2);
                    let i = ctx.rng.below(100) as i64;
                    kw = kw.put_if(c, key, i);
                    akm = akm.insert_if(c, key, i);
                    let op = OwnedTerm::Tuple(vec![atom("if"), atom(if c { "true" } else { "false" }), ka, OwnedTerm::Tuple(vec![atom("i"), OwnedTerm::Integer(i)])]);
                    kw_ops.push(op.clone());
                    akm_ops.push(op);
                    if c {
                        pushed.push((key.to_string(), OwnedTerm::Integer(i)));
                    }
                }
                6 => {
                    let v = if ctx.rng.chance(1, 2) { Some(*ctx.rng.pick(STRS)) } else { None };
                    kw = kw.put_some(key, v);
                    akm = akm.insert_some(key, v);
                    let op = match v {
                        Some(s) => OwnedTerm::Tuple(vec![atom("some"), ka, OwnedTerm::Tuple(vec![atom("s"), OwnedTerm::Binary(s.as_bytes().to_vec())])]),
                        None => OwnedTerm::Tuple(vec![atom("some"), ka]),
                    };
                    kw_ops.push(op.clone());
                    akm_ops.push(op);
                    if let Some(s) = v {
                        pushed.push((key.to_string(), OwnedTerm::String(s.to_string())));
                    }
                }
                _ => {
                    let m = ctx.rng.below(4) as usize;
                    let items: Vec<(&'static str, i64)> = (0..m).map(|_| (*ctx.rng.pick(KEYS), ctx.rng.below(50) as i64 - 5)).collect();
                    kw = kw.extend(items.clone());
                    akm = akm.extend(items.clone());
                    let op = OwnedTerm::Tuple(vec![
                        atom("ext"),
                        OwnedTerm::List(items.iter().map(|(k, v)| OwnedTerm::Tuple(vec![atom(k), OwnedTerm::Tuple(vec![atom("i"), OwnedTerm::Integer(*v)])])).collect()),
                    ]);
                    kw_ops.push(op.clone());
                    akm_ops.push(op);
                    for (k, v) in items {
                        pushed.push((k.to_string(), OwnedTerm::Integer(v)));
                    }
                }
            }
            for (k, v) in pushed {
                if !firsts.iter().any(|(k0, _)| *k0 == k) {
                    firsts.push((k.clone(), v.clone()));
                }
                lasts.insert(k, v);
            }
        }
        ctx.count(&format!("builder_chain_{}", k.min(4)));
        let (kl, ke, al, ae) = (kw.len(), kw.is_empty(), akm.len(), akm.is_empty());
        let kwt = kw.build();
        let akt = akm.build();
        ctx.tie("build", &format!("c20kwops {}", term_text(&OwnedTerm::List(kw_ops))), &format!("{} {} {}", kl, ke as u8, term_text(&kwt)));
        ctx.tie("build", &format!("c20akmops {}", term_text(&OwnedTerm::List(akm_ops))), &format!("{} {} {}", al, ae as u8, term_text(&akt)));
        // back out of the built terms: every key with the value of its first put (keyword list) / last insert (map)
        for (k, v) in &firsts {
            if kwt.proplist_get_atom_key(k) != Some(v) {
                ctx.fail("c20-builder-value-lost", &format!("keyword list {} key={}", term_text(&kwt), k));
            }
        }
        for (k, v) in &lasts {
            if akt.map_get_atom_key(k) != Some(v) {
                ctx.fail("c20-builder-value-lost", &format!("map {} key={}", term_text(&akt), k));
            }
        }
        if !kwt.is_proplist() || kwt.proplist_to_map().ok().as_ref() != Some(&akt) {
            ctx.fail("c20-builders-disagree", &format!("kw={} map={}", term_text(&kwt), term_text(&akt)));
        }
        if al != lasts.len() || ke != (kl == 0) || ae != (al == 0) {
            ctx.fail("c20-builder-len", &format!("kw={} map={}", term_text(&kwt), term_text(&akt)));
        }
    }
}

// ------------------------------------------------------------------------------------------------ derived structs

#[derive(Debug, PartialEq, Clone, erltf_serde::ElixirStruct)]
#[elixir_module = "MyApp.User"]
struct User {
    name: String,
    age: i32,
    active: bool,
    tags: Vec<String>,
}

/// `#[derive(ElixirStruct)]`: value → term → value, also through bytes; a foreign `__struct__` is rejected.
/// (Not modelled in Lean: the derive expands to calls into erltf_serde, which is C15's subject.)
fn derived(ctx: &mut Ctx) {
    let n = ctx.n(60, 1500);
    for _ in 0..n {
        let r = &mut ctx.rng;
        let u = User {
            name: r.pick(STRS).to_string(),
            age: gen_i32(r),
            active: r.chance(1, 2),
            tags: (0..r.below(3)).map(|_| r.pick(STRS).to_string()).collect(),
        };
        ctx.count("derived_struct_cases");
        let t = match catch_unwind(|| erltf_serde::to_term(&u)) {
            Ok(Ok(t)) => t,
            other => {
                ctx.fail("c20-derive-to-term-fails", &format!("{:?} -> {:?}", u, other.map(|r| r.map(|t| term_text(&t)).map_err(|e| e.to_string()))));
                continue;
            }
        };
        if t.elixir_struct_module() != Some("Elixir.MyApp.User") {
            ctx.fail("c20-derive-struct-name", &format!("{:?} term={}", u, term_text(&t)));
        }
        let back: Option<User> = catch_unwind(|| erltf_serde::from_term::<User>(&t).ok()).unwrap_or(None);
        if back.as_ref() != Some(&u) {
            ctx.fail("c20-derive-roundtrip-memory", &format!("{:?} term={} back={:?}", u, term_text(&t), back));
        }
        let bytes = catch_unwind(|| erltf_serde::to_bytes(&u).ok()).unwrap_or(None);
        let back2: Option<User> = bytes.as_ref().and_then(|b| catch_unwind(|| erltf_serde::from_bytes::<User>(b).ok()).unwrap_or(None));
        if back2.as_ref() != Some(&u) {
            ctx.fail("c20-derive-roundtrip-wire", &format!("{:?} bytes={:?} back={:?}", u, bytes.map(|b| hex(&b)), back2));
        }
        // a struct of another module must not deserialize as this one
        if let OwnedTerm::Map(m) = &t {
            let mut m = m.clone();
            m.insert(atom("__struct__"), atom("Elixir.MyApp.Other"));
            let foreign = OwnedTerm::Map(m);
            if catch_unwind(|| erltf_serde::from_term::<User>(&foreign).is_ok()).unwrap_or(false) {
                ctx.fail("c20-derive-accepts-foreign-struct", &format!("term={}", term_text(&foreign)));
            }
        }
    }
}

pub fn run(ctx: &mut Ctx) {
    ranges(ctx);
    wrappers(ctx);
    proplists(ctx);
    constructors(ctx);
    set_ops(ctx);
    builder_ops(ctx);
    derived(ctx);
}
