/-!
Model of `Node::make_reference` (`crates/edp_node/src/node.rs`): three separate `fetch_add(1)` on the node's
`reference_counter : AtomicU32` (wrapping), then a load of `creation`. The same counter is bumped once by every remote
`Node::unlink` (the unlink id). Small-step semantics for any number of threads under any schedule.
-/
namespace Edp.Impl.RefCounter

def U32 : Nat := 4294967296

/-- observable part of an `ExternalReference` made by the node: `creation`, `ids = [w0, w1, w2]` -/
structure Ref where
  creation : Nat
  w0 : Nat
  w1 : Nat
  w2 : Nat
deriving DecidableEq, Repr, Inhabited

inductive RPc
  | idle                       -- next: first `fetch_add`
  | f1 (a : Nat)               -- next: second `fetch_add`
  | f2 (a b : Nat)             -- next: third `fetch_add`
  | f3 (a b c : Nat)           -- next: `creation.load`
  | got (r : Ref)              -- next: return
deriving DecidableEq, Repr, Inhabited

inductive REv
  | task (t : Nat)             -- thread `t` takes the next step of its `make_reference` call
  | unlink                     -- some thread performs the `fetch_add` of a remote `unlink`
  | setCreation (c : Nat)      -- `Node::start` stores the creation obtained from EPMD
deriving DecidableEq, Repr

structure RSt where
  counter : Nat                -- value of the AtomicU32
  creation : Nat
  pc : Nat → RPc
  out : List (Nat × Ref)       -- finished calls in completion order
  unl : List Nat               -- unlink ids handed out
  issued : Nat                 -- ghost: number of `fetch_add`s performed so far

def upd (f : Nat → RPc) (t : Nat) (v : RPc) : Nat → RPc := fun x => if x = t then v else f x

def RSt.init (counter creation : Nat) : RSt :=
  { counter := counter, creation := creation, pc := fun _ => .idle, out := [], unl := [], issued := 0 }

/-- `fetch_add(1)`: the state after (the value returned is the old `counter`) -/
def bump (st : RSt) : RSt := { st with counter := (st.counter + 1) % U32, issued := st.issued + 1 }

def step (st : RSt) (t : Nat) : RSt :=
  match st.pc t with
  | .idle => { bump st with pc := upd st.pc t (.f1 st.counter) }
  | .f1 a => { bump st with pc := upd st.pc t (.f2 a st.counter) }
  | .f2 a b => { bump st with pc := upd st.pc t (.f3 a b st.counter) }
  | .f3 a b c => { st with pc := upd st.pc t (.got ⟨st.creation, a, b, c⟩) }
  | .got r => { st with pc := upd st.pc t .idle, out := st.out ++ [(t, r)] }

def stepEv (st : RSt) : REv → RSt
  | .task t => step st t
  | .unlink => { bump st with unl := st.unl ++ [st.counter] }
  | .setCreation c => { st with creation := c }

def run (st : RSt) (evs : List REv) : RSt := evs.foldl stepEv st

/-- name of the shared-state operation of the step taken from a program counter -/
def RPc.opName : RPc → String
  | .idle => "reference_counter.fetch_add"
  | .f1 _ => "reference_counter.fetch_add"
  | .f2 _ _ => "reference_counter.fetch_add"
  | .f3 _ _ _ => "creation.load"
  | .got _ => "return"

/-- the `k`-th (0-based) of a row of sequential `make_reference` calls starting at counter value `c0` -/
def seqRef (c0 creation k : Nat) : Ref :=
  ⟨creation, (c0 + 3 * k) % U32, (c0 + 3 * k + 1) % U32, (c0 + 3 * k + 2) % U32⟩

end Edp.Impl.RefCounter
