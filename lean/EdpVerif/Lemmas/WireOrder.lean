import EdpVerif.Lemmas.DecSorted
import EdpVerif.Lemmas.EqCmp
/-!
The term order is invariant under what `decode ∘ encode` does to a term.

`wire t` (Lemmas/RoundTrip.lean) differs from `t` in four ways: an `i64` outside 32 bits comes back as a big integer
(with the minimal digits of its magnitude), a string as the binary of the same bytes, an empty list / an improper list
with a nil tail as `nil` / a proper list, and the entries of every map are re-inserted.  None of the first three is
visible to `Term.cmp` (`cmp_wire0`: for ALL terms, no guard); and when the maps of the term satisfy the `BTreeMap`
invariant (`mapsStrict`) the re-insertion is the identity (`wire_eq_wire0`).  Hence

* `cmp (wire a) (wire b) = cmp a b` (`cmp_wire`),
* `sortedKeys t` — C01's guard, stated on the keys as they come back from the wire — follows from the invariant of the
  INPUT term (`sortedKeys_of_mapsStrict`),
* `wire` keeps the invariant (`mapsStrict_wire`).

The only other hypothesis is the type invariant `i64T` (integers are `i64`s): the encoder takes the low 8 bytes of the
magnitude.
-/
namespace Edp
open Term

/-! ### digits: the encoder's trimmed 8-byte form is the minimal digit sequence -/

theorem wd_minDigits_unique : ∀ (a b : Bytes), minDigits a → minDigits b → magVal a = magVal b → a = b
  | [], [], _, _, _ => rfl
  | [], y :: s, _, hb, h => by
    have := magVal_ge (y :: s) hb (by simp)
    have hp : 0 < 256 ^ ((y :: s).length - 1) := Nat.pow_pos (by decide)
    simp only [magVal] at h this
    omega
  | x :: r, [], ha, _, h => by
    have := magVal_ge (x :: r) ha (by simp)
    have hp : 0 < 256 ^ ((x :: r).length - 1) := Nat.pow_pos (by decide)
    simp only [magVal] at h this
    omega
  | x :: r, y :: s, ha, hb, h => by
    simp only [magVal] at h
    have hx := x.toNat_lt
    have hy := y.toNat_lt
    have e1 : x.toNat = y.toNat := by omega
    have e2 : magVal r = magVal s := by omega
    have hr : minDigits r := by
      cases r with
      | nil => rfl
      | cons c r' => exact minDigits_tail ha (by simp)
    have hs : minDigits s := by
      cases s with
      | nil => rfl
      | cons c s' => exact minDigits_tail hb (by simp)
    rw [wd_minDigits_unique r s hr hs e2, UInt8.toNat_inj.mp e1]

theorem wd_minDigits_take_sigLenR (e : Bytes) (h : magVal e.reverse ≠ 0) : minDigits (e.reverse.take (sigLenR e)) := by
  induction e with
  | nil => simp [magVal] at h
  | cons b e ih =>
    by_cases hb : b = 0
    · subst hb
      have hs : sigLenR (0 :: e) = sigLenR e := by simp [sigLenR, List.dropWhile]
      rw [hs]
      simp only [List.reverse_cons] at h ⊢
      rw [magVal_append] at h
      simp only [magVal, UInt8.toNat_zero, Nat.mul_zero, Nat.add_zero] at h
      cases e with
      | nil => simp [magVal] at h
      | cons c e' =>
        have hle := sigLenR_le (c :: e') (by simp)
        rw [List.take_append_of_le_length (by simpa using hle)]
        exact ih h
    · have hs : sigLenR (b :: e) = e.length + 1 := by
        have : (b == 0) = false := by simpa using hb
        simp [sigLenR, List.dropWhile, this]
      rw [hs]
      have : (b :: e).reverse.length = e.length + 1 := by simp
      rw [← this, List.take_length]
      simp [minDigits, hb]

theorem wd_minDigits_take_sigLen (d : Bytes) (h : magVal d ≠ 0) : minDigits (d.take (sigLen d)) := by
  have := wd_minDigits_take_sigLenR d.reverse (by simpa using h)
  simpa [sigLen_eq] using this

/-- the digits the encoder writes for a wide `i64` are the minimal little-endian digits of its magnitude -/
theorem wd_digits_eq (n : Nat) (h0 : n ≠ 0) (h : n < 256 ^ 8) :
    (leN 8 n).take (sigLen (leN 8 n)) = natDigits n := by
  have hv : magVal (leN 8 n) = n := by rw [magVal_leN, Nat.mod_eq_of_lt h]
  apply wd_minDigits_unique
  · exact wd_minDigits_take_sigLen _ (by rw [hv]; exact h0)
  · exact minDigits_natDigits n
  · rw [magVal_take_sigLen, hv, magVal_natDigits]

/-- an integer as it comes back from the wire -/
def wint (i : Int) : Term :=
  if -2147483648 ≤ i ∧ i ≤ 2147483647 then .int i else .big (decide (i < 0)) (natDigits i.natAbs)

theorem wire_int_eq (i : Int) (h : -9223372036854775808 ≤ i ∧ i ≤ 9223372036854775807) : wire (.int i) = wint i := by
  unfold wire wint
  by_cases h2 : -2147483648 ≤ i ∧ i ≤ 2147483647
  · simp [h2]
  · simp only [h2, if_false]
    rw [wd_digits_eq i.natAbs (by omega) (by omega)]

/-! ### an integer and the big integer of the same value compare alike with everything -/

theorem cmpN_bigOfInt_left (i : Int) (y : Term) :
    cmpN (.big (decide (i < 0)) (natDigits i.natAbs)) y = cmpN (.int i) y := by
  cases y <;> simp [cmpN]
  case int j =>
    rw [cmpIntBig_eq _ _ _ (minDigits_natDigits _), bigVal_natDigits]
    exact (compare_int_rev i j).symm
  case big n d => rfl
  case float f => rfl

theorem cmpN_bigOfInt_right (i : Int) (y : Term) :
    cmpN y (.big (decide (i < 0)) (natDigits i.natAbs)) = cmpN y (.int i) := by
  rw [cmpN_swap, cmpN_bigOfInt_left, ← cmpN_swap]

theorem cmpN_wint_left (i : Int) (y : Term) : cmpN (wint i) y = cmpN (.int i) y := by
  unfold wint; split
  · rfl
  · exact cmpN_bigOfInt_left i y

theorem cmpN_wint_right (i : Int) (y : Term) : cmpN y (wint i) = cmpN y (.int i) := by
  unfold wint; split
  · rfl
  · exact cmpN_bigOfInt_right i y

theorem rank_wint (i : Int) : rank (wint i) = 0 := by unfold wint; split <;> rfl

/-! ### the leaf rewriting `wleaf` and the wire image without re-insertion `wire0` -/

mutual
/-- integers and strings as they come back from the wire, nothing else changed -/
def wleaf : Term → Term
  | .int i => wint i
  | .str s => .bin s
  | .list l => .list (wleafL l)
  | .ilist l t => .ilist (wleafL l) (wleaf t)
  | .map kvs => .map (wleafKV kvs)
  | .tuple l => .tuple (wleafL l)
  | .ifun a u i nf m oi ou p fr => .ifun a u i nf m oi ou p (wleafL fr)
  | t => t
def wleafL : List Term → List Term
  | [] => []
  | t :: ts => wleaf t :: wleafL ts
def wleafKV : List (Term × Term) → List (Term × Term)
  | [] => []
  | (k, v) :: r => (wleaf k, wleaf v) :: wleafKV r
end

mutual
/-- `wire` without the re-insertion of map entries, on mathematical integers -/
def wire0 : Term → Term
  | .int i => wint i
  | .str s => .bin s
  | .list l => match l with
    | [] => .nil
    | _ => .list (wire0L l)
  | .ilist l t => match wire0 t with
    | .nil => .list (wire0L l)
    | t' => .ilist (wire0L l) t'
  | .map kvs => .map (wire0KV kvs)
  | .tuple l => .tuple (wire0L l)
  | .ifun a u i nf m oi ou p fr => .ifun a u i nf m oi ou p (wire0L fr)
  | t => t
def wire0L : List Term → List Term
  | [] => []
  | t :: ts => wire0 t :: wire0L ts
def wire0KV : List (Term × Term) → List (Term × Term)
  | [] => []
  | (k, v) :: r => (wire0 k, wire0 v) :: wire0KV r
end

theorem wleafL_length : ∀ (l : List Term), (wleafL l).length = l.length
  | [] => rfl
  | _ :: ts => by simp [wleafL, wleafL_length ts]

theorem wleafKV_length : ∀ (l : List (Term × Term)), (wleafKV l).length = l.length
  | [] => rfl
  | (_, _) :: r => by simp [wleafKV, wleafKV_length r]

theorem wleafL_isEmpty (l : List Term) : (wleafL l).isEmpty = l.isEmpty := by cases l <;> simp [wleafL]

theorem wleafL_append : ∀ (a b : List Term), wleafL (a ++ b) = wleafL a ++ wleafL b
  | [], b => by simp [wleafL]
  | x :: a, b => by simp [wleafL, wleafL_append a b]

theorem rank_wleaf (t : Term) : rank (wleaf t) = rank t := by
  cases t <;> simp [wleaf, rank_wint]

/-! ### `cmpN` does not see `wleaf` -/

set_option maxHeartbeats 2000000 in
mutual
theorem cmpN_wleaf (a b : Term) : cmpN (wleaf a) (wleaf b) = cmpN a b := by
  cases a <;> cases b <;> simp only [wleaf, cmpN_wint_left, cmpN_wint_right]
  all_goals (try rfl)
  all_goals simp only [cmpN, rank_int, rank_big, rank_float, rank_atom, rank_ref, rank_xfun, rank_ifun, rank_port, rank_pid,
    rank_tuple, rank_map, rank_nil, rank_list, rank_ilist, rank_bin, rank_bits, rank_str, rank_wleaf, bitParts,
    wleafL_length, wleafKV_length, wleafL_isEmpty, ne_eq, not_true_eq_false, if_false, reduceCtorEq]
  all_goals (try rfl)
  all_goals (try rw [cmpZip_wleaf])
  all_goals (try rw [cmpKeys_wleaf, cmpVals_wleaf])
  all_goals (try rfl)
  case ilist.ilist l t l2 t2 => rw [cmpN_wleaf t t2]
termination_by sizeOf a
decreasing_by all_goals (simp_wf; try omega)
theorem cmpZip_wleaf (xs ys : List Term) (both aOut bOut : Ordering) :
    cmpZip (wleafL xs) (wleafL ys) both aOut bOut = cmpZip xs ys both aOut bOut := by
  match xs, ys with
  | [], [] => simp [wleafL, cmpZip]
  | [], _ :: _ => simp [wleafL, cmpZip]
  | _ :: _, [] => simp [wleafL, cmpZip]
  | x :: xs, y :: ys =>
    simp only [wleafL, cmpZip]
    rw [cmpN_wleaf x y, cmpZip_wleaf xs ys]
termination_by sizeOf xs
decreasing_by all_goals (simp_wf; try omega)
theorem cmpKeys_wleaf (xs ys : List (Term × Term)) : cmpKeys (wleafKV xs) (wleafKV ys) = cmpKeys xs ys := by
  match xs, ys with
  | [], [] => simp [wleafKV, cmpKeys]
  | [], _ :: _ => simp [wleafKV, cmpKeys]
  | (_, _) :: _, [] => simp [wleafKV, cmpKeys]
  | (k, _) :: r, (k2, _) :: r2 =>
    simp only [wleafKV, cmpKeys]
    rw [cmpN_wleaf k k2, cmpKeys_wleaf r r2]
termination_by sizeOf xs
decreasing_by all_goals (simp_wf; try omega)
theorem cmpVals_wleaf (xs ys : List (Term × Term)) : cmpVals (wleafKV xs) (wleafKV ys) = cmpVals xs ys := by
  match xs, ys with
  | [], [] => simp [wleafKV, cmpVals]
  | [], _ :: _ => simp [wleafKV, cmpVals]
  | (_, _) :: _, [] => simp [wleafKV, cmpVals]
  | (_, v) :: r, (_, v2) :: r2 =>
    simp only [wleafKV, cmpVals]
    rw [cmpN_wleaf v v2, cmpVals_wleaf r r2]
termination_by sizeOf xs
decreasing_by all_goals (simp_wf; try omega)
end

/-! ### `norm` commutes with the wire image: `norm (wire0 t) = wleaf (norm t)` -/

theorem wint_cases (i : Int) : wint i = .int i ∨ ∃ n d, wint i = .big n d := by
  unfold wint; split
  · exact .inl rfl
  · exact .inr ⟨_, _, rfl⟩

theorem mkIlist_nil (l : List Term) : mkIlist l .nil = mkList l := by
  cases l <;> rfl

theorem wleaf_mkList (l : List Term) : wleaf (mkList l) = mkList (wleafL l) := by
  cases l <;> simp [mkList, wleaf, wleafL]

theorem wleaf_mkIlist (l : List Term) (t : Term) : wleaf (mkIlist l t) = mkIlist (wleafL l) (wleaf t) := by
  cases l with
  | nil => simp [mkIlist, wleafL]
  | cons x l =>
    cases t with
    | int i => rcases wint_cases i with h | ⟨n, d, h⟩ <;> simp [h, mkIlist, wleaf, wleafL]
    | _ => simp [mkIlist, wleaf, wleafL, wleafL_append]

theorem wleaf_eq_nil (t : Term) (h : wleaf t = .nil) : t = .nil := by
  cases t <;> simp [wleaf] at h ⊢
  case int i => rcases wint_cases i with h' | ⟨n, d, h'⟩ <;> simp [h'] at h

mutual
theorem norm_wire0 : ∀ (t : Term), norm (wire0 t) = wleaf (norm t)
  | .atom _ | .float _ | .pid _ | .port _ _ _ _ | .ref _ _ _ _ | .bin _ | .bits _ _ | .xfun _ _ _ | .nil | .big _ _
  | .str _ => by simp [wire0, norm, wleaf]
  | .int i => by
    simp only [wire0, norm, wleaf]
    rcases wint_cases i with h | ⟨n, d, h⟩ <;> simp [h, norm]
  | .tuple l => by simp [wire0, norm, wleaf, normL_wire0L l]
  | .map kvs => by simp [wire0, norm, wleaf, normKV_wire0KV kvs]
  | .ifun _ _ _ _ _ _ _ _ fr => by simp [wire0, norm, wleaf, normL_wire0L fr]
  | .list l => by
    cases l with
    | nil => simp [wire0, norm, normL, wleaf]
    | cons a l' =>
      have e : wire0 (.list (a :: l')) = .list (wire0L (a :: l')) := by simp [wire0]
      rw [e, norm_list, norm_list, normL_wire0L, wleaf_mkList]
  | .ilist l t => by
    have ih := norm_wire0 t
    have ihl := normL_wire0L l
    rw [norm_ilist l t, wleaf_mkIlist, ← ih, ← ihl]
    simp only [wire0]
    split
    · rename_i h
      rw [norm_list, h]
      simp [norm, mkIlist_nil]
    · rw [norm_ilist]
theorem normL_wire0L : ∀ (l : List Term), normL (wire0L l) = wleafL (normL l)
  | [] => by simp [wire0L, normL, wleafL]
  | t :: ts => by simp [wire0L, normL, wleafL, norm_wire0 t, normL_wire0L ts]
theorem normKV_wire0KV : ∀ (l : List (Term × Term)), normKV (wire0KV l) = wleafKV (normKV l)
  | [] => by simp [wire0KV, normKV, wleafKV]
  | (k, v) :: r => by simp [wire0KV, normKV, wleafKV, norm_wire0 k, norm_wire0 v, normKV_wire0KV r]
end

/-- the order does not see integer widths, string-vs-binary, or how a list is cut into cells: for ALL terms -/
theorem cmp_wire0 (a b : Term) : Term.cmp (wire0 a) (wire0 b) = Term.cmp a b := by
  unfold Term.cmp
  rw [norm_wire0, norm_wire0, cmpN_wleaf]

theorem allLt_wire0 (k : Term) (r : List (Term × Term)) : allLt (wire0 k) (wire0KV r) = allLt k r := by
  induction r with
  | nil => rfl
  | cons p r ih =>
    obtain ⟨k2, v2⟩ := p
    simp only [wire0KV, allLt, List.all_cons, cmp_wire0] at ih ⊢
    rw [ih]

theorem pairwiseLt_wire0KV : ∀ (m : List (Term × Term)), pairwiseLt (wire0KV m) = pairwiseLt m
  | [] => rfl
  | (k, v) :: r => by simp only [wire0KV, pairwiseLt, allLt_wire0, pairwiseLt_wire0KV r]

mutual
/-- the wire image keeps the `BTreeMap` invariant -/
theorem mapsStrict_wire0 : ∀ (t : Term), mapsStrict t = true → mapsStrict (wire0 t) = true
  | .atom _, _ | .float _, _ | .pid _, _ | .port _ _ _ _, _ | .ref _ _ _ _, _ | .bin _, _ | .bits _ _, _ | .xfun _ _ _, _
  | .nil, _ | .big _ _, _ | .str _, _ => by simp [wire0, mapsStrict]
  | .int i, _ => by
    simp only [wire0]; rcases wint_cases i with h | ⟨n, d, h⟩ <;> simp [h, mapsStrict]
  | .tuple l, s => by simp only [mapsStrict] at s; simp only [wire0, mapsStrict]; exact mapsStrictL_wire0L l s
  | .ifun _ _ _ _ _ _ _ _ fr, s => by
    simp only [mapsStrict] at s; simp only [wire0, mapsStrict]; exact mapsStrictL_wire0L fr s
  | .list l, s => by
    simp only [mapsStrict] at s
    cases l with
    | nil => simp [wire0, mapsStrict]
    | cons a l' => simp only [wire0, mapsStrict]; exact mapsStrictL_wire0L _ s
  | .ilist l t, s => by
    simp only [mapsStrict, Bool.and_eq_true] at s
    have h1 := mapsStrictL_wire0L l s.1
    have h2 := mapsStrict_wire0 t s.2
    simp only [wire0]
    split
    · simp only [mapsStrict]; exact h1
    · simp only [mapsStrict, Bool.and_eq_true]; exact ⟨h1, h2⟩
  | .map kvs, s => by
    simp only [mapsStrict, Bool.and_eq_true] at s
    simp only [wire0, mapsStrict, Bool.and_eq_true, pairwiseLt_wire0KV]
    exact ⟨s.1, mapsStrictKV_wire0KV kvs s.2⟩
theorem mapsStrictL_wire0L : ∀ (l : List Term), mapsStrictL l = true → mapsStrictL (wire0L l) = true
  | [], _ => rfl
  | t :: ts, s => by
    simp only [mapsStrictL, Bool.and_eq_true] at s
    simp only [wire0L, mapsStrictL, Bool.and_eq_true]
    exact ⟨mapsStrict_wire0 t s.1, mapsStrictL_wire0L ts s.2⟩
theorem mapsStrictKV_wire0KV : ∀ (l : List (Term × Term)), mapsStrictKV l = true → mapsStrictKV (wire0KV l) = true
  | [], _ => rfl
  | (k, v) :: r, s => by
    simp only [mapsStrictKV, Bool.and_eq_true] at s
    simp only [wire0KV, mapsStrictKV, Bool.and_eq_true]
    exact ⟨⟨mapsStrict_wire0 k s.1.1, mapsStrict_wire0 v s.1.2⟩, mapsStrictKV_wire0KV r s.2⟩
end

/-! ### on `i64` terms with `BTreeMap`s, `wire` is `wire0` -/

mutual
/-- every integer of the term is an `i64` (the type `OwnedTerm::Integer(i64)` enforces it; the model's `Int` does not) -/
def i64T : Term → Bool
  | .int i => decide (-9223372036854775808 ≤ i ∧ i ≤ 9223372036854775807)
  | .list l => i64L l
  | .ilist l t => i64L l && i64T t
  | .map kvs => i64KV kvs
  | .tuple l => i64L l
  | .ifun _ _ _ _ _ _ _ _ fr => i64L fr
  | _ => true
def i64L : List Term → Bool
  | [] => true
  | t :: ts => i64T t && i64L ts
def i64KV : List (Term × Term) → Bool
  | [] => true
  | (k, v) :: r => i64T k && i64T v && i64KV r
end

mutual
theorem i64T_of_wfT : ∀ (t : Term), wfT t = true → i64T t = true
  | .atom _, _ | .float _, _ | .pid _, _ | .port _ _ _ _, _ | .ref _ _ _ _, _ | .bin _, _ | .bits _ _, _ | .xfun _ _ _, _
  | .nil, _ | .big _ _, _ | .str _, _ => by simp [i64T]
  | .int i, h => by simpa [wfT, i64T] using h
  | .tuple l, h => by simp only [wfT, Bool.and_eq_true] at h; simp only [i64T]; exact i64L_of_wfL l h.2
  | .list l, h => by simp only [wfT, Bool.and_eq_true] at h; simp only [i64T]; exact i64L_of_wfL l h.2
  | .ifun _ _ _ _ _ _ _ _ fr, h => by
    simp only [wfT, Bool.and_eq_true] at h; simp only [i64T]; exact i64L_of_wfL fr h.2
  | .ilist l t, h => by
    simp only [wfT, Bool.and_eq_true] at h
    simp only [i64T, Bool.and_eq_true]; exact ⟨i64L_of_wfL l h.1.2, i64T_of_wfT t h.2⟩
  | .map kvs, h => by simp only [wfT, Bool.and_eq_true] at h; simp only [i64T]; exact i64KV_of_wfKV kvs h.2
theorem i64L_of_wfL : ∀ (l : List Term), wfL l = true → i64L l = true
  | [], _ => rfl
  | t :: ts, h => by
    simp only [wfL, Bool.and_eq_true] at h
    simp only [i64L, Bool.and_eq_true]; exact ⟨i64T_of_wfT t h.1, i64L_of_wfL ts h.2⟩
theorem i64KV_of_wfKV : ∀ (l : List (Term × Term)), wfKV l = true → i64KV l = true
  | [], _ => rfl
  | (k, v) :: r, h => by
    simp only [wfKV, Bool.and_eq_true] at h
    simp only [i64KV, Bool.and_eq_true]; exact ⟨⟨i64T_of_wfT k h.1.1, i64T_of_wfT v h.1.2⟩, i64KV_of_wfKV r h.2⟩
end

mutual
/-- re-inserting the entries of a `BTreeMap` in iteration order gives the same map, at every level -/
theorem wire_eq_wire0 : ∀ (t : Term), i64T t = true → mapsStrict t = true → wire t = wire0 t
  | .atom _, _, _ | .float _, _, _ | .pid _, _, _ | .port _ _ _ _, _, _ | .ref _ _ _ _, _, _ | .bin _, _, _ | .bits _ _, _, _
  | .xfun _ _ _, _, _ | .nil, _, _ | .big _ _, _, _ | .str _, _, _ => by simp [wire, wire0]
  | .int i, h, _ => by
    simp only [i64T, decide_eq_true_eq] at h
    simp only [wire0]; exact wire_int_eq i h
  | .tuple l, h, s => by
    simp only [i64T] at h; simp only [mapsStrict] at s
    simp only [wire, wire0, wireL_eq_wire0L l h s]
  | .ifun _ _ _ _ _ _ _ _ fr, h, s => by
    simp only [i64T] at h; simp only [mapsStrict] at s
    simp only [wire, wire0, wireL_eq_wire0L fr h s]
  | .list l, h, s => by
    simp only [i64T] at h; simp only [mapsStrict] at s
    cases l with
    | nil => simp [wire, wire0]
    | cons a l' => simp only [wire, wire0, wireL_eq_wire0L _ h s]
  | .ilist l t, h, s => by
    simp only [i64T, Bool.and_eq_true] at h; simp only [mapsStrict, Bool.and_eq_true] at s
    simp only [wire, wire0, wireL_eq_wire0L l h.1 s.1, wire_eq_wire0 t h.2 s.2]
    cases wire0 t <;> rfl
  | .map kvs, h, s => by
    simp only [i64T] at h; simp only [mapsStrict, Bool.and_eq_true] at s
    simp only [wire, wire0, wireKV_eq_wire0KV kvs h s.2]
    rw [insertAll_sorted _ (by rw [pairwiseLt_wire0KV]; exact s.1)]
theorem wireL_eq_wire0L : ∀ (l : List Term), i64L l = true → mapsStrictL l = true → wireL l = wire0L l
  | [], _, _ => rfl
  | t :: ts, h, s => by
    simp only [i64L, Bool.and_eq_true] at h; simp only [mapsStrictL, Bool.and_eq_true] at s
    simp only [wireL, wire0L, wire_eq_wire0 t h.1 s.1, wireL_eq_wire0L ts h.2 s.2]
theorem wireKV_eq_wire0KV : ∀ (l : List (Term × Term)), i64KV l = true → mapsStrictKV l = true → wireKV l = wire0KV l
  | [], _, _ => rfl
  | (k, v) :: r, h, s => by
    simp only [i64KV, Bool.and_eq_true] at h; simp only [mapsStrictKV, Bool.and_eq_true] at s
    simp only [wireKV, wire0KV, wire_eq_wire0 k h.1.1 s.1.1, wire_eq_wire0 v h.1.2 s.1.2, wireKV_eq_wire0KV r h.2 s.2]
end

/-- **the order is invariant under `decode ∘ encode`** — for terms of `i64` integers whose maps are `BTreeMap`s -/
theorem cmp_wire (a b : Term) (ha : i64T a = true) (hb : i64T b = true) (sa : mapsStrict a = true)
    (sb : mapsStrict b = true) : Term.cmp (wire a) (wire b) = Term.cmp a b := by
  rw [wire_eq_wire0 a ha sa, wire_eq_wire0 b hb sb, cmp_wire0]

/-- what comes back from the wire satisfies the `BTreeMap` invariant again -/
theorem mapsStrict_wire (t : Term) (h : i64T t = true) (s : mapsStrict t = true) : mapsStrict (wire t) = true := by
  rw [wire_eq_wire0 t h s]; exact mapsStrict_wire0 t s

mutual
/-- C01's guard (keys increasing AFTER the wire) follows from the `BTreeMap` invariant of the term as it is -/
theorem sortedKeys_of_mapsStrict : ∀ (t : Term), i64T t = true → mapsStrict t = true → sortedKeys t = true
  | .atom _, _, _ | .float _, _, _ | .pid _, _, _ | .port _ _ _ _, _, _ | .ref _ _ _ _, _, _ | .bin _, _, _ | .bits _ _, _, _
  | .xfun _ _ _, _, _ | .nil, _, _ | .big _ _, _, _ | .str _, _, _ | .int _, _, _ => by simp [sortedKeys]
  | .tuple l, h, s => by
    simp only [i64T] at h; simp only [mapsStrict] at s; simp only [sortedKeys]; exact sortedKeysL_of_mapsStrictL l h s
  | .list l, h, s => by
    simp only [i64T] at h; simp only [mapsStrict] at s; simp only [sortedKeys]; exact sortedKeysL_of_mapsStrictL l h s
  | .ifun _ _ _ _ _ _ _ _ fr, h, s => by
    simp only [i64T] at h; simp only [mapsStrict] at s; simp only [sortedKeys]; exact sortedKeysL_of_mapsStrictL fr h s
  | .ilist l t, h, s => by
    simp only [i64T, Bool.and_eq_true] at h; simp only [mapsStrict, Bool.and_eq_true] at s
    simp only [sortedKeys, Bool.and_eq_true]
    exact ⟨sortedKeysL_of_mapsStrictL l h.1 s.1, sortedKeys_of_mapsStrict t h.2 s.2⟩
  | .map kvs, h, s => by
    simp only [i64T] at h; simp only [mapsStrict, Bool.and_eq_true] at s
    simp only [sortedKeys, Bool.and_eq_true]
    refine ⟨sortedKeysKV_of_mapsStrictKV kvs h s.2, ?_⟩
    rw [wireKV_eq_wire0KV kvs h s.2, pairwiseLt_wire0KV]; exact s.1
theorem sortedKeysL_of_mapsStrictL : ∀ (l : List Term), i64L l = true → mapsStrictL l = true → sortedKeysL l = true
  | [], _, _ => rfl
  | t :: ts, h, s => by
    simp only [i64L, Bool.and_eq_true] at h; simp only [mapsStrictL, Bool.and_eq_true] at s
    simp only [sortedKeysL, Bool.and_eq_true]
    exact ⟨sortedKeys_of_mapsStrict t h.1 s.1, sortedKeysL_of_mapsStrictL ts h.2 s.2⟩
theorem sortedKeysKV_of_mapsStrictKV : ∀ (l : List (Term × Term)), i64KV l = true → mapsStrictKV l = true →
    sortedKeysKV l = true
  | [], _, _ => rfl
  | (k, v) :: r, h, s => by
    simp only [i64KV, Bool.and_eq_true] at h; simp only [mapsStrictKV, Bool.and_eq_true] at s
    simp only [sortedKeysKV, Bool.and_eq_true]
    exact ⟨⟨sortedKeys_of_mapsStrict k h.1.1 s.1.1, sortedKeys_of_mapsStrict v h.1.2 s.1.2⟩,
      sortedKeysKV_of_mapsStrictKV r h.2 s.2⟩
end

end Edp
