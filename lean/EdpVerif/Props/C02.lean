import EdpVerif.Impl.Decode
import EdpVerif.Impl.TableTie
import EdpVerif.Lemmas.DecTotal
import EdpVerif.Lemmas.DistHeader
/-
C02 — decoding untrusted bytes always returns: no panic, abort, overflow or blow-up.
The model makes every Rust panic site an explicit outcome (`DErr.panic`), so "never panics" is a theorem and not a
by-product of totalisation; recursion depth and requested capacities are functions of the input.
-/
namespace Edp.Props.C02
open Edp

/-- the nesting-depth guard: beyond `MAX_NESTING_DEPTH` levels the decoder returns an error at once, for every input,
atom cache, configuration and fuel — the recursion never goes deeper than 257 levels -/
theorem C02_depth_guard (x : Ext) (cfg : DecCfg) (fuel depth : Nat) (bs : Bytes) (h : depth > MAX_NESTING_DEPTH) :
    dec x cfg fuel depth bs = .error .err := by
  cases fuel with
  | zero => simp [dec]
  | succ f =>
    cases bs with
    | nil => simp [dec]
    | cons t r => simp [dec, h]

/-- the guard value is the one in the source (regenerated on every run) -/
theorem C02_depth_limit_is_sources : Gen.MAX_NESTING_DEPTH = MAX_NESTING_DEPTH := by decide

/-- what is reserved for `count` announced elements never exceeds the bytes that are left, whatever the count field says -/
theorem C02_alloc_bounded (count : Nat) (remaining : Bytes) : boundedCapacity count remaining ≤ remaining.length := by
  unfold boundedCapacity; omega

/-- and never under-reserves below what a valid input needs -/
theorem C02_alloc_exact_when_fits (count : Nat) (remaining : Bytes) (h : count ≤ remaining.length) :
    boundedCapacity count remaining = count := by
  unfold boundedCapacity; omega

example : boundedCapacity 4294967295 [1, 2, 3] = 3 := by decide

/-- a compressed section is accepted only when it inflates to exactly the declared size (so the inflated length
never exceeds what the input declares), for every behaviour of zlib -/
theorem C02_inflate_bounded (x : Ext) (cfg : DecCfg) (fuel depth : Nat) (bs : Bytes) (t : Term) (rest : Bytes)
    (h : dec x cfg (fuel + 1) depth (80 :: bs) = .ok (t, rest)) :
    ∃ usize r out consumed, rdU 4 bs = .ok (usize, r) ∧ x.inflate r = some (out, consumed) ∧
      out.length = usize ∧ usize ≤ MAX_BINARY_SIZE := by
  rw [dec.eq_3] at h
  have e80 : (80 : UInt8).toNat = 80 := by decide
  simp only [e80] at h
  split at h
  · simp at h
  · split at h
    · simp at h
    · split at h
      · simp at h
      · rename_i usize r heq
        split at h
        · simp at h
        · rename_i hsz
          split at h
          · simp at h
          · rename_i out consumed hinf
            split at h
            · simp at h
            · rename_i hlen
              refine ⟨usize, r, out, consumed, heq, hinf, ?_, by omega⟩
              simpa using hlen

/-- the only modelled panic site of the term decoder (`&rest[consumed..]` after inflating) is unreachable when the
inflater reports no more input consumed than it was given — the documented contract of `total_in` -/
theorem C02_no_panic_after_inflate (x : Ext) (cfg : DecCfg) (fuel depth : Nat) (bs : Bytes)
    (hx : ∀ z out n, x.inflate z = some (out, n) → n ≤ z.length) :
    dec x cfg (fuel + 1) depth (80 :: bs) ≠ .error .panic := by
  rw [dec.eq_3]
  have e80 : (80 : UInt8).toNat = 80 := by decide
  simp only [e80]
  split
  · simp
  · split
    · simp
    · split
      · rename_i e heq
        simp only [rdU] at heq
        split at heq <;> simp at heq
        simp [← heq]
      · rename_i usize r heq
        split
        · simp
        · split
          · simp
          · rename_i out consumed hinf
            split
            · simp
            · have := hx r out consumed hinf
              split
              · split
                · omega
                · simp
              · simp

/-- what is assumed of zlib: it reports no more input consumed than it was given (`total_in` of flate2) -/
def InflateSane (x : Ext) : Prop := ∀ z out n, x.inflate z = some (out, n) → n ≤ z.length

/-- **No input reaches a panic site of the term decoder**: every byte string, every nesting depth, every atom cache,
either decoder configuration (owned / zero-copy), every fuel — the outcome is a term or an error -/
theorem C02_total (x : Ext) (cfg : DecCfg) (hx : InflateSane x) (fuel depth : Nat) (bs : Bytes) :
    dec x cfg fuel depth bs ≠ .error .panic :=
  (dec_no_panic x cfg hx fuel).1 depth bs

/-- the entry points `decode` and `decode_borrowed` -/
theorem C02_total_decode (x : Ext) (cfg : DecCfg) (hx : InflateSane x) (bs : Bytes) :
    decodeWith x cfg bs ≠ .error .panic := by
  unfold decodeWith
  cases bs with
  | nil => simp
  | cons v r =>
    simp only
    split
    · simp
    · split
      · rename_i e h; intro hp; simp only [Except.error.injEq] at hp; subst hp
        exact C02_total x cfg hx _ _ _ h
      · simp
      · simp

/-- the hypothesis is satisfiable: an inflater that refuses everything, and any one that consumes a prefix -/
example : InflateSane Ext.none := by intro z out n h; simp [Ext.none] at h
example : InflateSane { inflate := fun z => some (z.take 1, z.length), parseFloat := fun _ => none } := by
  intro z out n h; simp at h; omega

/-- the entry point `decode_with_atom_cache` (distribution header, then one or two terms), whatever the cache holds -/
theorem C02_total_with_atom_cache (x : Ext) (hx : InflateSane x) (c : DistHeader.Cache) (bs : Bytes) :
    (DistHeader.decodeWithAtomCache x c bs).2 ≠ .error .panic := by
  unfold DistHeader.decodeWithAtomCache
  cases bs with
  | nil => simp
  | cons v r =>
    simp only
    split
    · simp
    · cases r with
      | nil => simp
      | cons tag r1 =>
        simp only
        by_cases ht : (tag == 68) = true
        · simp only [ht, ↓reduceIte]
          cases hp : DistHeader.parseHeader c r1 with
          | mk c1 res =>
            cases res with
            | error e =>
              simp only
              have := DistHeader.parseHeader_np c r1
              rw [hp] at this
              simpa using this
            | ok body =>
              simp only
              split
              · rename_i e h; intro hq; simp only [Except.error.injEq] at hq; subst hq
                exact C02_total x _ hx _ _ _ h
              · split
                · simp
                · split
                  · rename_i e h; intro hq; simp only [Except.error.injEq] at hq; subst hq
                    exact C02_total x _ hx _ _ _ h
                  · simp
                  · simp
        · simp only [ht, Bool.false_eq_true, ↓reduceIte]
          split
          · rename_i e h; intro hq; simp only [Except.error.injEq] at hq; subst hq
            exact C02_total x _ hx _ _ _ h
          · split
            · simp
            · split
              · rename_i e h; intro hq; simp only [Except.error.injEq] at hq; subst hq
                exact C02_total x _ hx _ _ _ h
              · simp
              · simp

/-- a connection's whole history of header-mode messages: no message, well-formed or not, panics the receiver -/
theorem C02_total_sequence (x : Ext) (hx : InflateSane x) (c : DistHeader.Cache) (msgs : List Bytes) :
    ∀ r ∈ DistHeader.decodeSeq x c msgs, r ≠ .error .panic := by
  induction msgs generalizing c with
  | nil => simp [DistHeader.decodeSeq]
  | cons m ms ih =>
    intro r hr
    simp only [DistHeader.decodeSeq, List.mem_cons] at hr
    rcases hr with rfl | hr
    · exact C02_total_with_atom_cache x hx c m
    · exact ih _ r hr

end Edp.Props.C02
