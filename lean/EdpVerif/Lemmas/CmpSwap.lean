import EdpVerif.Lemmas.Order
/-! `cmpN a b = (cmpN b a).swap` for ALL terms (no well-formedness needed), by mutual induction. -/
open Edp Edp.Term

namespace Edp.Term
@[simp] theorem rank_int (i) : rank (.int i) = 0 := rfl
@[simp] theorem rank_big (n d) : rank (.big n d) = 0 := rfl
@[simp] theorem rank_float (b) : rank (.float b) = 0 := rfl
@[simp] theorem rank_atom (b) : rank (.atom b) = 1 := rfl
@[simp] theorem rank_ref (a b c d) : rank (.ref a b c d) = 2 := rfl
@[simp] theorem rank_xfun (a b c) : rank (.xfun a b c) = 3 := rfl
@[simp] theorem rank_ifun (a b c d e f g h i) : rank (.ifun a b c d e f g h i) = 3 := rfl
@[simp] theorem rank_port (a b c d) : rank (.port a b c d) = 4 := rfl
@[simp] theorem rank_pid (p) : rank (.pid p) = 5 := rfl
@[simp] theorem rank_tuple (l) : rank (.tuple l) = 6 := rfl
@[simp] theorem rank_map (l) : rank (.map l) = 7 := rfl
@[simp] theorem rank_nil : rank .nil = 8 := rfl
@[simp] theorem rank_list (l) : rank (.list l) = 8 := rfl
@[simp] theorem rank_ilist (l t) : rank (.ilist l t) = 8 := rfl
@[simp] theorem rank_bin (b) : rank (.bin b) = 9 := rfl
@[simp] theorem rank_bits (b n) : rank (.bits b n) = 9 := rfl
@[simp] theorem rank_str (b) : rank (.str b) = 9 := rfl
end Edp.Term

set_option maxHeartbeats 1000000 in
mutual
theorem cmpN_swap (a b : Term) : cmpN a b = (cmpN b a).swap := by
  cases a <;> cases b <;>
    simp [cmpN, listRank, bitParts, thenO, Ordering.swap_then, ← compare_nat_rev, ← compare_int_rev, ← bytesCmp_rev, ← lexCmp_rev,
      ← cmpSignedMag_rev, ← cmpFloat_rev, ← pidCmp_rev]
  all_goals (try rw [cmpZip_swap])
  all_goals (try rw [cmpKeys_swap, cmpVals_swap])
  all_goals (try simp [← compare_nat_rev])
  case ilist.ilist l t l2 t2 => rw [cmpN_swap t t2]; simp [compare_nat_rev _ 8]
  all_goals (split <;> simp [compare_nat_rev _ 8])
termination_by sizeOf a
decreasing_by all_goals (simp_wf; try omega)
theorem cmpZip_swap (xs ys : List Term) (both aOut bOut : Ordering) :
    cmpZip xs ys both aOut bOut = (cmpZip ys xs both.swap bOut.swap aOut.swap).swap := by
  match xs, ys with
  | [], [] => simp [cmpZip]
  | [], _ :: _ => simp [cmpZip]
  | _ :: _, [] => simp [cmpZip]
  | x :: xs, y :: ys =>
    simp only [cmpZip, thenO, Ordering.swap_then]
    rw [cmpN_swap x y, cmpZip_swap xs ys]
termination_by sizeOf xs
decreasing_by all_goals (simp_wf; try omega)
theorem cmpKeys_swap (xs ys : List (Term × Term)) : cmpKeys xs ys = (cmpKeys ys xs).swap := by
  match xs, ys with
  | [], [] => simp [cmpKeys]
  | [], _ :: _ => simp [cmpKeys]
  | _ :: _, [] => simp [cmpKeys]
  | (k, _) :: r, (k2, _) :: r2 =>
    simp only [cmpKeys, thenO, Ordering.swap_then]
    rw [cmpN_swap k k2, cmpKeys_swap r r2]
termination_by sizeOf xs
decreasing_by all_goals (simp_wf; try omega)
theorem cmpVals_swap (xs ys : List (Term × Term)) : cmpVals xs ys = (cmpVals ys xs).swap := by
  match xs, ys with
  | [], [] => simp [cmpVals]
  | [], _ :: _ => simp [cmpVals]
  | _ :: _, [] => simp [cmpVals]
  | (_, v) :: r, (_, v2) :: r2 =>
    simp only [cmpVals, thenO, Ordering.swap_then]
    rw [cmpN_swap v v2, cmpVals_swap r r2]
termination_by sizeOf xs
decreasing_by all_goals (simp_wf; try omega)
end

namespace Edp.Term
set_option maxHeartbeats 1000000 in
theorem cmpN_of_rank_ne (a b : Term) (h : rank a ≠ rank b) : cmpN a b = compare (rank a) (rank b) := by
  cases a <;> cases b <;> simp [cmpN] at h ⊢

theorem cmp_swap (a b : Term) : cmp a b = (cmp b a).swap := cmpN_swap _ _
end Edp.Term
