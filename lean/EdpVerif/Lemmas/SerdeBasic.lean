import EdpVerif.Spec.Serde
/-! C15 helper lemmas: UTF-8 of one scalar, little-endian digits, key comparison, `mapInsert`. -/
namespace Edp.Serde
open Edp Edp.Spec.Serde

/-! ### one `char` through UTF-8 -/

theorem utf8_one (c : Nat) (h : isScalar c = true) : utf8Decode (utf8Enc c) = some [c] := by
  simp only [isScalar, Bool.or_eq_true, Bool.and_eq_true, decide_eq_true_eq] at h
  unfold utf8Enc
  split
  · simp [utf8Decode]; omega
  · split
    · simp [utf8Decode, isCont]
      (repeat' split) <;> first | omega | (simp; omega)
    · split
      · simp [utf8Decode, isCont]
        (repeat' split) <;> first | omega | (simp; omega)
      · simp [utf8Decode, isCont]
        (repeat' split) <;> first | omega | (simp; omega)

/-! ### little-endian digits -/

theorem magVal_leN (k n : Nat) (h : n < 256 ^ k) : magVal (leN k n) = n := by
  induction k generalizing n with
  | zero => simp [leN, magVal]; simp at h; omega
  | succ k ih =>
    simp only [leN, magVal]
    have : n / 256 < 256 ^ k := by
      rw [Nat.pow_succ] at h
      exact Nat.div_lt_of_lt_mul (by rw [Nat.mul_comm]; exact h)
    rw [ih _ this]
    simp
    omega

theorem leN_length (k n : Nat) : (leN k n).length = k := by
  induction k generalizing n with
  | zero => simp [leN]
  | succ k ih => simp [leN, ih]

/-! ### key comparison -/

theorem lexCmp_eq : ∀ (a b : List Nat), lexCmp a b = .eq → a = b
  | [], [], _ => rfl
  | [], _ :: _, h => by simp [lexCmp] at h
  | _ :: _, [], h => by simp [lexCmp] at h
  | x :: xs, y :: ys, h => by
    simp only [lexCmp, thenO] at h
    cases hc : compare x y <;> simp [hc] at h
    have := Nat.compare_eq_eq.mp hc
    rw [this, lexCmp_eq xs ys h]

theorem lexCmp_refl : ∀ (a : List Nat), lexCmp a a = .eq
  | [] => rfl
  | x :: xs => by simp [lexCmp, thenO, lexCmp_refl xs]

theorem map_toNat_inj : ∀ (a b : Bytes), a.map UInt8.toNat = b.map UInt8.toNat → a = b
  | [], [], _ => rfl
  | [], _ :: _, h => by simp at h
  | _ :: _, [], h => by simp at h
  | x :: xs, y :: ys, h => by
    simp only [List.map_cons, List.cons.injEq] at h
    rw [UInt8.toNat_inj.mp h.1, map_toNat_inj xs ys h.2]

theorem bytesCmp_eq (a b : Bytes) (h : bytesCmp a b = .eq) : a = b :=
  map_toNat_inj a b (lexCmp_eq _ _ h)

theorem cmp_bin_bin (a b : Bytes) : Term.cmp (.bin a) (.bin b) = bytesCmp a b := by
  unfold Term.cmp
  simp only [Term.norm]
  unfold Term.cmpN
  simp [Term.rank, Term.bitParts, thenO]
  try (cases bytesCmp a b <;> rfl)

theorem cmp_atom_atom (a b : Bytes) : Term.cmp (.atom a) (.atom b) = bytesCmp a b := by
  unfold Term.cmp
  simp only [Term.norm]
  unfold Term.cmpN
  simp [Term.rank]


/-! ### `BTreeMap::insert` -/

theorem mapInsert_append (m : List (Term × Term)) (k v : Term)
    (h : ∀ p ∈ m, Term.cmp k p.1 = .gt) : mapInsert m k v = m ++ [(k, v)] := by
  induction m with
  | nil => rfl
  | cons p r ih =>
    obtain ⟨k', v'⟩ := p
    have h1 : Term.cmp k k' = .gt := h (k', v') (by simp)
    simp only [mapInsert, h1, List.cons_append]
    rw [ih (fun p hp => h p (by simp [hp]))]

theorem mapInsert_perm (m : List (Term × Term)) (k v : Term)
    (h : ∀ p ∈ m, Term.cmp k p.1 ≠ .eq) : (mapInsert m k v).Perm ((k, v) :: m) := by
  induction m with
  | nil => exact List.Perm.refl _
  | cons p r ih =>
    obtain ⟨k', v'⟩ := p
    have h1 : Term.cmp k k' ≠ .eq := h (k', v') (by simp)
    simp only [mapInsert]
    cases hc : Term.cmp k k' with
    | lt => exact List.Perm.refl _
    | eq => exact absurd hc h1
    | gt =>
      simp only
      exact ((ih (fun p hp => h p (by simp [hp]))).cons (k', v')).trans (List.Perm.swap _ _ _)

def step (m : List (Term × Term)) (kv : Term × Term) := mapInsert m kv.1 kv.2

theorem insertAll_eq (l : List (Term × Term)) : insertAll l = l.foldl step [] := rfl

theorem foldl_step_perm (l acc : List (Term × Term))
    (h1 : l.Pairwise (fun a b => Term.cmp b.1 a.1 ≠ .eq))
    (h2 : ∀ a ∈ acc, ∀ b ∈ l, Term.cmp b.1 a.1 ≠ .eq) : (l.foldl step acc).Perm (acc ++ l) := by
  induction l generalizing acc with
  | nil => simp
  | cons x r ih =>
    simp only [List.foldl_cons]
    rw [List.pairwise_cons] at h1
    have hp : (step acc x).Perm (x :: acc) := mapInsert_perm acc x.1 x.2 (fun p hp => h2 p hp x (by simp))
    refine (ih (step acc x) h1.2 ?_).trans ?_
    · intro a ha b hb
      have := hp.mem_iff.mp ha
      rcases List.mem_cons.mp this with rfl | ha'
      · exact h1.1 b hb
      · exact h2 a ha' b (by simp [hb])
    · exact (hp.append_right r).trans (by simpa using List.perm_middle.symm)

theorem insertAll_perm (l : List (Term × Term)) (h : l.Pairwise (fun a b => Term.cmp b.1 a.1 ≠ .eq)) :
    (insertAll l).Perm l := by
  have := foldl_step_perm l [] h (by simp)
  simpa [insertAll_eq] using this

/-- keys listed in ascending order are inserted at the end, one after the other -/
theorem foldl_step_asc (l acc : List (Term × Term))
    (h : ascending id (acc.map (·.1)) (l.map (·.1)) = true) : l.foldl step acc = acc ++ l := by
  induction l generalizing acc with
  | nil => simp
  | cons x r ih =>
    simp only [List.map_cons, ascending, Bool.and_eq_true, List.all_eq_true, beq_iff_eq, id] at h
    simp only [List.foldl_cons]
    have e : step acc x = acc ++ [x] := by
      unfold step
      rw [mapInsert_append]
      intro p hp
      exact h.1 p.1 (List.mem_map_of_mem hp)
    rw [e, ih]
    · simp
    · simpa using h.2

theorem insertAll_asc (l : List (Term × Term)) (h : ascending id [] (l.map (·.1)) = true) : insertAll l = l := by
  have := foldl_step_asc l [] (by simpa using h)
  simpa [insertAll_eq] using this

theorem ascending_map (f : Term → Term) : ∀ (ks before : List Term),
    ascending f before ks = ascending id (before.map f) (ks.map f)
  | [], _ => by simp [ascending]
  | k :: r, before => by
    simp only [ascending, List.map_cons, id]
    rw [ascending_map f r (before ++ [k])]
    simp [List.all_map, Function.comp_def]


/-! ### `Some(x)` is never mistaken for `None` -/

theorem variant_not_undef (vn : Bytes) (p : Val) : ∀ (vs : List (Bytes × Ty)),
    hasTyV vn p vs = true → anyUndefVariant vs = false → isUndef (serVariant vn p) = false
  | [], h, _ => by simp [hasTyV] at h
  | (n, sh) :: vs, h, hu => by
    simp only [anyUndefVariant, Bool.or_eq_false_iff] at hu
    by_cases hn : n = vn
    · subst hn
      simp only [hasTyV, if_true] at h
      cases p <;> cases sh <;> simp [serVariant, isUndef, hasTyP] at h ⊢
      simpa using hu.1
    · simp only [hasTyV, hn, if_false] at h
      exact variant_not_undef vn p vs h hu.2

theorem not_undef : ∀ (t : Ty) (v : Val), hasTy v t = true → mayBeUndef t = false → isUndef (ser v) = false
  | .newtype n t, v, h, hu => by
    cases v <;> simp [hasTy] at h
    simp only [mayBeUndef] at hu
    simp only [ser]
    exact not_undef t _ h.2 hu
  | .enum n vs, v, h, hu => by
    cases v <;> simp [hasTy] at h
    simp only [mayBeUndef] at hu
    simp only [ser]
    exact variant_not_undef _ _ vs h.2 hu
  | .option _, _, _, hu => by simp [mayBeUndef] at hu
  | .unit, v, h, _ => by cases v <;> simp [hasTy] at h; simp [ser, isUndef, sNil, sUndefined]
  | .unitStruct n, v, h, hu => by
    cases v <;> simp [hasTy] at h
    subst h
    simpa [ser, isUndef, mayBeUndef] using hu
  | .int k, v, h, _ => by
    cases v <;> simp [hasTy] at h
    simp only [ser, serInt]; split <;> rfl
  | .f32, v, h, _ => by cases v <;> simp [hasTy] at h; simp [ser, isUndef]
  | .f64, v, h, _ => by cases v <;> simp [hasTy] at h; simp [ser, isUndef]
  | .bool, v, h, _ => by
    cases v <;> simp [hasTy] at h
    rename_i b; cases b <;> simp [ser, isUndef, sTrue, sFalse, sUndefined]
  | .char, v, h, _ => by cases v <;> simp [hasTy] at h; simp [ser, isUndef]
  | .string, v, h, _ => by cases v <;> simp [hasTy] at h; simp [ser, isUndef]
  | .bytes, v, h, _ => by cases v <;> simp [hasTy] at h; simp [ser, isUndef]
  | .tuple _, v, h, _ => by cases v <;> simp [hasTy] at h; simp [ser, isUndef]
  | .seq _, v, h, _ => by cases v <;> simp [hasTy] at h; simp [ser, isUndef]
  | .map _ _, v, h, _ => by cases v <;> simp [hasTy] at h; simp [ser, isUndef]
  | .struct _ _, v, h, _ => by cases v <;> simp [hasTy] at h; simp [ser, isUndef]
  | .tupleStruct _ _, v, h, _ => by cases v <;> simp [hasTy] at h; simp [ser, isUndef]
  | .exStruct _ _, v, h, _ => by cases v <;> simp [hasTy] at h; simp [ser, isUndef]

/-! ### leaves, lists -/

theorem takeWhile_all {α} (p : α → Bool) : ∀ (l : List α), ∀ x ∈ l.takeWhile p, p x = true
  | [], x, h => by simp at h
  | a :: r, x, h => by
    simp only [List.takeWhile_cons] at h
    split at h
    · rcases List.mem_cons.mp h with rfl | h'
      · assumption
      · exact takeWhile_all p r x h'
    · simp at h

theorem magVal_append_zeros : ∀ (a z : Bytes), (∀ x ∈ z, x = 0) → magVal (a ++ z) = magVal a
  | [], z, h => by
    induction z with
    | nil => rfl
    | cons x r ih =>
      have hx : x = 0 := h x (by simp)
      simp only [List.nil_append, magVal] at ih ⊢
      rw [ih (fun y hy => h y (by simp [hy])), hx]; rfl
  | b :: a, z, h => by simp [magVal, magVal_append_zeros a z h]

theorem magVal_zeros (m : Bytes) (hm : ∀ x ∈ m, x = 0) : magVal m = 0 := by
  have := magVal_append_zeros [] m hm
  simpa [magVal] using this

theorem magVal_take_sigLen (l : Bytes) : magVal (l.take (sigLen l)) = magVal l := by
  have hl : l = (l.reverse.dropWhile (· == 0)).reverse ++ (l.reverse.takeWhile (· == 0)).reverse := by
    have hsplit := List.takeWhile_append_dropWhile (p := (· == (0 : UInt8))) (l := l.reverse)
    have := congrArg List.reverse hsplit
    rw [List.reverse_append, List.reverse_reverse] at this
    exact this.symm
  have hz : ∀ x ∈ (l.reverse.takeWhile (· == 0)).reverse, x = 0 := by
    intro x hx
    have := takeWhile_all (· == (0 : UInt8)) l.reverse x (List.mem_reverse.mp hx)
    simpa using this
  by_cases hnil : l.reverse.dropWhile (· == 0) = []
  · rw [hnil] at hl
    simp only [List.reverse_nil, List.nil_append] at hl
    have hall : ∀ x ∈ l, x = 0 := by rw [hl]; exact hz
    rw [magVal_zeros l hall, magVal_zeros _ (fun x hx => hall x (List.mem_of_mem_take hx))]
  · have hs : sigLen l = (l.reverse.dropWhile (· == 0)).reverse.length := by
      unfold sigLen
      split
      · rename_i h; exact absurd h hnil
      · simp
    rw [hs]
    generalize (l.reverse.dropWhile (· == 0)).reverse = a at *
    generalize (l.reverse.takeWhile (· == 0)).reverse = z at *
    subst hl
    rw [List.take_left, magVal_append_zeros a z hz]


theorem magVal_take_sigCount (l : Bytes) : magVal (l.take (sigCount l)) = magVal l := by
  have hl : l = (l.reverse.dropWhile (· == 0)).reverse ++ (l.reverse.takeWhile (· == 0)).reverse := by
    have hsplit := List.takeWhile_append_dropWhile (p := (· == (0 : UInt8))) (l := l.reverse)
    have := congrArg List.reverse hsplit
    rw [List.reverse_append, List.reverse_reverse] at this
    exact this.symm
  have hz : ∀ x ∈ (l.reverse.takeWhile (· == 0)).reverse, x = 0 := by
    intro x hx
    have := takeWhile_all (· == (0 : UInt8)) l.reverse x (List.mem_reverse.mp hx)
    simpa using this
  have hs : sigCount l = (l.reverse.dropWhile (· == 0)).reverse.length := by simp [sigCount]
  rw [hs]
  generalize (l.reverse.dropWhile (· == 0)).reverse = a at *
  generalize (l.reverse.takeWhile (· == 0)).reverse = z at *
  subst hl
  rw [List.take_left, magVal_append_zeros a z hz]

theorem sigCount_le (l : Bytes) : sigCount l ≤ l.length := by
  unfold sigCount
  have h := List.takeWhile_append_dropWhile (p := (· == (0 : UInt8))) (l := l.reverse)
  have h2 := congrArg List.length h
  simp only [List.length_append, List.length_reverse] at h2
  omega

/-- what `integer_term_as` reads from a big integer of at most 8 digits -/
theorem deInt_big (k : IntTy) (neg : Bool) (d : Bytes) (hl : d.length ≤ 8) (v : Int)
    (hv : (if neg then -((magVal d : Nat) : Int) else ((magVal d : Nat) : Int)) = v) (hr : k.inRange v = true) :
    deInt k (.big neg d) = .ok (.int k v) := by
  have h8 : ¬ sigCount d > maxBigDigits := by
    have := sigCount_le d; simp only [maxBigDigits, Gen.C15_BIG_MAX_DIGITS]; omega
  simp only [deInt, h8, if_false, magVal_take_sigCount, hv, hr, if_true]

theorem deInt_serInt (k : IntTy) (i : Int) (h : k.inRange i = true) : deInt k (serInt k i) = .ok (.int k i) := by
  unfold serInt
  split
  · rename_i hc
    obtain ⟨rfl, hi⟩ := hc
    have h' := h
    simp only [IntTy.inRange, IntTy.lo, IntTy.hi, Bool.and_eq_true] at h'
    have h1 := of_decide_eq_true h'.1
    have h2 := of_decide_eq_true h'.2
    simp only [i64Max] at hi
    have hl : (leN 8 i.toNat).length = 8 := leN_length 8 _
    have hm : magVal (leN 8 i.toNat) = i.toNat := magVal_leN 8 _ (by omega)
    exact deInt_big .u64 false _ (by omega) i (by simp [hm]; omega) h
  · simp [deInt, h]

theorem mapME_ok {α β : Type} (f : α → SRes β) (g : β → α) :
    ∀ (l : List β), (∀ b ∈ l, f (g b) = .ok b) → mapME f (l.map g) = .ok l
  | [], _ => rfl
  | b :: r, h => by
    simp only [List.map_cons, mapME, h b (by simp), mapME_ok f g r (fun x hx => h x (by simp [hx]))]

theorem serL_eq_map : ∀ (vs : List Val), serL vs = vs.map ser
  | [] => rfl
  | v :: r => by simp [serL, serL_eq_map r]

theorem plainL_all (f : Term → Term) : ∀ (vs : List Val), plainL f vs = vs.all (plainWith f)
  | [] => rfl
  | v :: r => by simp [plainL, plainL_all f r]


/-! ### struct-like maps -/

/-- a way of writing a name as a map key (`Binary` for serde structs, `Atom` for Elixir structs) -/
structure KeyForm where
  c : Bytes → Term
  good : Bytes → Bool
  inj : ∀ a b, Term.cmp (c a) (c b) = .eq → a = b
  key : ∀ a n t, good a = true → keyIs n (c a, t) = (a == n)
  str : ∀ a, good a = true → isOkStr (c a) = true

def binKey : KeyForm where
  c := .bin
  good := validUtf8
  inj a b h := bytesCmp_eq a b (by rwa [cmp_bin_bin] at h)
  key a n t h := by simp [keyIs, deStr, h]
  str a h := by simp [isOkStr, deStr, h]

def atomKey : KeyForm where
  c := .atom
  good := fun _ => true
  inj a b h := bytesCmp_eq a b (by rwa [cmp_atom_atom] at h)
  key a n t _ := by simp [keyIs, deStr]
  str a _ := by simp [isOkStr, deStr]

def kvs (K : KeyForm) (L : List (Bytes × Term)) : List (Term × Term) := L.map fun f => (K.c f.1, f.2)

theorem namesDistinct_pairwise : ∀ (ns : List Bytes), namesDistinct ns = true → ns.Pairwise (· ≠ ·)
  | [], _ => List.Pairwise.nil
  | n :: r, h => by
    simp only [namesDistinct, Bool.and_eq_true, Bool.not_eq_true', List.contains_eq_mem, decide_eq_false_iff_not] at h
    exact List.Pairwise.cons (fun b hb e => h.1 (e ▸ hb)) (namesDistinct_pairwise r h.2)

theorem filter_key (K : KeyForm) : ∀ (L : List (Bytes × Term)), (L.map (·.1)).Pairwise (· ≠ ·) →
    (∀ x ∈ L, K.good x.1 = true) → ∀ x ∈ L, (kvs K L).filter (keyIs x.1) = [(K.c x.1, x.2)]
  | [], _, _, x, hx => by simp at hx
  | y :: r, hd, hg, x, hx => by
    simp only [List.map_cons, List.pairwise_cons] at hd
    simp only [kvs, List.map_cons, List.filter_cons]
    rw [K.key y.1 x.1 y.2 (hg y (by simp))]
    rcases List.mem_cons.mp hx with rfl | hx'
    · simp only [beq_self_eq_true, if_true, List.cons.injEq, true_and]
      rw [List.filter_eq_nil_iff]
      intro e he
      obtain ⟨z, hz, rfl⟩ := List.mem_map.mp he
      rw [K.key z.1 x.1 z.2 (hg z (by simp [hz]))]
      have := hd.1 z.1 (List.mem_map_of_mem hz)
      simpa using fun e => this e.symm
    · have hne : (y.1 == x.1) = false := by
        have := hd.1 x.1 (List.mem_map_of_mem hx')
        simpa using this
      simp only [hne]
      exact filter_key K r hd.2 (fun z hz => hg z (by simp [hz])) x hx'

theorem kvs_pairwise (K : KeyForm) (L : List (Bytes × Term)) (hd : (L.map (·.1)).Pairwise (· ≠ ·)) :
    (kvs K L).Pairwise (fun a b => Term.cmp b.1 a.1 ≠ .eq) := by
  unfold kvs
  rw [List.pairwise_map]
  rw [List.pairwise_map] at hd
  exact hd.imp (fun {a b} hab e => hab (K.inj b.1 a.1 e).symm)

/-- what a struct-like map looks like to the field visitor after all the `BTreeMap::insert`s -/
theorem keyed_map (K : KeyForm) (L : List (Bytes × Term)) (hd : namesDistinct (L.map (·.1)) = true)
    (hg : ∀ x ∈ L, K.good x.1 = true) :
    (∀ x ∈ L, (insertAll (kvs K L)).filter (keyIs x.1) = [(K.c x.1, x.2)]) ∧
    (insertAll (kvs K L)).all (fun kv => isOkStr kv.1) = true ∧
    (∀ n, n ∉ L.map (·.1) → (insertAll (kvs K L)).filter (keyIs n) = []) := by
  have hp := namesDistinct_pairwise _ hd
  have perm := insertAll_perm (kvs K L) (kvs_pairwise K L hp)
  refine ⟨?_, ?_, ?_⟩
  · intro x hx
    have := (perm.filter (keyIs x.1))
    rw [filter_key K L hp hg x hx] at this
    exact List.perm_singleton.mp this
  · rw [List.all_eq_true]
    intro e he
    have := perm.mem_iff.mp he
    obtain ⟨z, hz, rfl⟩ := List.mem_map.mp this
    exact K.str z.1 (hg z hz)
  · intro n hn
    rw [List.filter_eq_nil_iff]
    intro e he
    have := perm.mem_iff.mp he
    obtain ⟨z, hz, rfl⟩ := List.mem_map.mp this
    rw [K.key z.1 n z.2 (hg z hz)]
    have : z.1 ≠ n := fun e => hn (e ▸ List.mem_map_of_mem hz)
    simpa using this


end Edp.Serde
