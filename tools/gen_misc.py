"""Miscellaneous small tables regenerated from /repo (auto-imported by tools/gen_tables.py).

Output: lean/EdpVerif/Generated/Misc.lean (namespace Edp.Gen).

C16 part: the process-number limit of the pid allocator and the *sequence of operations on shared state*
performed by `PidAllocator::allocate` and `Node::make_reference`, as written in the source. The Lean model's
small-step semantics is a transcription of exactly these sequences; `Props/C16.lean` ties the two
(`C16_model_steps_are_the_source_steps`), so dropping the lock or reordering an access breaks a proof obligation.
"""
import re


def _fn_body(src, header_re):
    """Text of the brace-balanced body following the first match of header_re (None if not found)."""
    m = re.search(header_re, src)
    if not m:
        return None
    i = src.find("{", m.end() - 1)
    if i < 0:
        return None
    depth = 0
    for j in range(i, len(src)):
        c = src[j]
        if c == "{":
            depth += 1
        elif c == "}":
            depth -= 1
            if depth == 0:
                return src[i + 1:j]
    return None


def _shared_ops(body):
    """`self.<field>.<method>(` occurrences in textual order, comments removed."""
    body = re.sub(r"//[^\n]*", "", body)
    body = re.sub(r"\s+", "", body)
    return [f"{f}.{m}" for f, m in re.findall(r"self\.([a-z_]+)\.([a-z_]+)\(", body)]


def gen_c16(read, num):
    broken = []
    lines = []
    src = read("crates/edp_client/src/pid_allocator.rs")
    maxp = 0
    alloc_ops = []
    if src is None:
        broken.append("pid_allocator.rs missing")
    else:
        m = re.search(r"const\s+MAX_PROCESSES_PER_NODE\s*:\s*u32\s*=\s*([0-9_]+)\s*;", src)
        if not m:
            broken.append("const MAX_PROCESSES_PER_NODE: u32 = <n>; not found in pid_allocator.rs")
        else:
            maxp = num(m.group(1))
        body = _fn_body(src, r"pub\s+fn\s+allocate\s*\(\s*&self\s*\)[^{]*\{")
        if body is None:
            broken.append("fn allocate(&self) body not found in pid_allocator.rs")
        else:
            alloc_ops = [o for o in _shared_ops(body) if not o.startswith("node_name.")]
            if not alloc_ops:
                broken.append("no shared-state operations found in allocate()")
            if not re.search(r"let\s+_guard\s*=\s*self\s*\.\s*wrap_lock\s*\.\s*lock\s*\(\s*\)", body):
                broken.append("allocate() no longer binds `let _guard = self.wrap_lock.lock()` (guard held to the end of the call)")
            if not re.search(r"if\s+id\s*>=\s*MAX_PROCESSES_PER_NODE\s*\{", body):
                broken.append("allocate(): wrap test `if id >= MAX_PROCESSES_PER_NODE` not found")
        if not re.search(r"next_id\s*:\s*AtomicU32\s*::\s*new\s*\(\s*1\s*\)", src):
            broken.append("PidAllocator::new no longer starts next_id at 1")
        if not re.search(r"next_serial\s*:\s*AtomicU64\s*::\s*new\s*\(\s*0\s*\)", src):
            broken.append("PidAllocator::new no longer starts next_serial at 0")
    node = read("crates/edp_node/src/node.rs")
    ref_ops = []
    if node is None:
        broken.append("node.rs missing")
    else:
        body = _fn_body(node, r"pub\s+fn\s+make_reference\s*\(\s*&self\s*\)[^{]*\{")
        if body is None:
            broken.append("fn make_reference(&self) body not found in node.rs")
        else:
            ref_ops = [o for o in _shared_ops(body) if not o.startswith("name.")]
            if not ref_ops:
                broken.append("no shared-state operations found in make_reference()")
        if not re.search(r"reference_counter\s*:\s*Arc\s*::\s*new\s*\(\s*AtomicU32\s*::\s*new\s*\(\s*0\s*\)\s*\)", node):
            broken.append("Node no longer starts reference_counter at AtomicU32 0")

    def strs(xs):
        return "[" + ", ".join('"' + x + '"' for x in xs) + "]"

    lines.append("/-- `MAX_PROCESSES_PER_NODE` of crates/edp_client/src/pid_allocator.rs -/")
    lines.append(f"def MAX_PROCESSES_PER_NODE : Nat := {maxp}")
    lines.append("")
    lines.append("/-- operations on `self.*` shared state in `PidAllocator::allocate`, in textual order (wrap branch first) -/")
    lines.append(f"def ALLOCATE_SHARED_OPS : List String := {strs(alloc_ops)}")
    lines.append("")
    lines.append("/-- operations on `self.*` shared state in `Node::make_reference`, in textual order -/")
    lines.append(f"def MAKE_REFERENCE_SHARED_OPS : List String := {strs(ref_ops)}")
    lines.append("")
    return lines, broken


def run(read, emit, num):
    body = "namespace Edp.Gen\n\n"
    broken = []
    for part in (gen_c16,):
        ls, br = part(read, num)
        body += "\n".join(ls) + "\n"
        broken += br
    body += "end Edp.Gen\n"
    emit("Misc", body, broken)
