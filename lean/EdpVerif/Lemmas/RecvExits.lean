import EdpVerif.Generated.MiscC06
import EdpVerif.Lemmas.Recv
/-!
C06: the model of `Connection::receive_message` against the table of its exits regenerated from the source
(`Gen.RECV_EXITS`, tools/gen_misc.py `gen_c06`): for every frame, state and clock reading, the place where the model's
iteration ends (`exitSite`) is a row of the table, the kind of that row is the kind of what the model returns, and the state
the model leaves is the state obtained by running — on the state before the frame, in the table's order — exactly the
state-changing statements the source has on the path to that exit (`runMuts`). So what a failed frame of each error class
leaves behind in the connection (assembler, atom cache) is read off the source, not transcribed.
-/
namespace Edp.Recv
open Edp

/-- where the pass-through branch ends -/
def ptSite (x : Ext) (tbl : Control.Table) (rest : Bytes) : String :=
  match decodeTrailing x rest with
  | .error _ => "pass_through:decode_with_trailing"
  | .ok (ct, []) =>
    match Control.parse tbl ct with
    | .ok _ => "pass_through>tail:Ok"
    | .error _ => "pass_through>tail:from_term"
  | .ok (ct, remaining) =>
    match decodeTrailing x remaining with
    | .error _ => "pass_through:decode_with_trailing#2"
    | .ok (_, []) =>
      match Control.parse tbl ct with
      | .ok _ => "pass_through>tail:Ok"
      | .error _ => "pass_through>tail:from_term"
    | .ok (_, _ :: _) => "pass_through:ErrDecode"

/-- where the `131, 68` branch ends -/
def hdrSite (x : Ext) (tbl : Control.Table) (c : Cache) (data : Bytes) : String :=
  match (DistHeader.decodeWithAtomCache x c data).2 with
  | .error _ => "dist_header:decode_with_atom_cache"
  | .ok (ct, _) =>
    match Control.parse tbl ct with
    | .ok _ => "dist_header>tail:Ok"
    | .error _ => "dist_header>tail:from_term"

/-- the row of `Gen.RECV_EXITS` at which one iteration of the loop on the deframed body `data` ends -/
def exitSite (x : Ext) (tbl : Control.Table) (now : Nat) (s : St) (data : Bytes) : String :=
  match data with
  | [] => "head:continue"
  | [a] => if a = 112 then ptSite x tbl [] else "unmarked:ErrProtocol"
  | a :: b :: rest =>
    if a = 131 ∧ b = 69 then
      match decodeFragmentHeader data with
      | .error _ => "frag_header:decode_fragment_header"
      | .ok ((seq, fid, n), remaining) =>
        if fid = 0 then "frag_header:ErrProtocol" else
        match ((expire now s).asm.startFragment now seq fid none (131 :: 68 :: UInt8.ofNat n :: remaining)).2 with
        | some _ => "frag_header:decode_complete_fragment"
        | none => "frag_header:continue"
    else if a = 131 ∧ b = 70 then
      match decodeFragmentCont data with
      | .error _ => "frag_cont:decode_fragment_cont"
      | .ok ((seq, fid), remaining) =>
        if fid = 0 then "frag_cont:ErrProtocol" else
        match ((expire now s).asm.addFragment now seq fid remaining).2 with
        | some _ => "frag_cont:decode_complete_fragment"
        | none => "frag_cont:continue"
    else if a = 112 then ptSite x tbl (b :: rest)
    else if a = 131 ∧ b = 68 then hdrSite x tbl s.cache data
    else "unmarked:ErrProtocol"

/-- one state-changing statement of the source, by the name the translator gives it, on the connection state and the
bytes a completed fragment sequence handed back (if any): the frame off the transport (not part of `St`),
`cleanup_expired`, `start_fragment` / `add_fragment` with the decoded fragment header, the atom cache handed out as `&mut`
to `decode_with_atom_cache` / `decode_complete_fragment` -/
def runMut (x : Ext) (tbl : Control.Table) (now : Nat) (frame : Bytes) (st : St × Option Bytes) (m : String) : St × Option Bytes :=
  if m = "fragment_assembler.cleanup_expired" then (expire now st.1, st.2)
  else if m = "fragment_assembler.start_fragment" ∨ m = "fragment_assembler.add_fragment" then
    match fragOp now frame with
    | some op => ({ cache := st.1.cache, asm := (st.1.asm.step op).1 }, (st.1.asm.step op).2)
    | none => st
  else if m = "atom_cache" then
    ({ cache := (decodeCompleteFragment x tbl st.1.cache (st.2.getD frame)).1, asm := st.1.asm }, st.2)
  else st

def runMuts (x : Ext) (tbl : Control.Table) (now : Nat) (frame : Bytes) (s : St) (ms : List String) : St :=
  (ms.foldl (runMut x tbl now frame) (s, none)).1

/-- the row of a table of exits -/
def exitRow (t : List (String × String × List String)) (site : String) : Option (String × List String) := t.lookup site

/-- the kind of what an iteration returns, in the translator's words -/
def kindOf : Option Res → String → Prop
  | none, k => k = "continue"
  | some .err, k => k = "err" ∨ k = "result"
  | some (.ok _ _), k => k = "ok" ∨ k = "result"
  | some .panic, _ => False

theorem finish_kind {tbl : Control.Table} (htbl : Control.TableOK tbl) (ct : Term) (p : Option Term) :
    (∀ m, Control.parse tbl ct = .ok m → finish tbl ct p = .ok m p) ∧
    (∀ e, Control.parse tbl ct = .error e → finish tbl ct p = .err) := by
  have hnp := Control.no_panic htbl ct
  constructor
  · intro m h; simp [finish, h]
  · intro e h
    cases e with
    | err => simp [finish, h]
    | panic => exact absurd h hnp

end Edp.Recv

namespace Edp.Recv
open Edp

/-- the statements before an exit, by path -/
def preHead : List String := ["transport.read_frame", "fragment_assembler.cleanup_expired"]

theorem runMuts_head (x : Ext) (tbl : Control.Table) (now : Nat) (data : Bytes) (s : St) :
    runMuts x tbl now data s preHead = expire now s := by
  simp [runMuts, runMut, preHead]

theorem runMuts_hdr (x : Ext) (tbl : Control.Table) (now : Nat) (data : Bytes) (s : St) :
    runMuts x tbl now data s (preHead ++ ["atom_cache"]) =
      { cache := (decodeCompleteFragment x tbl s.cache data).1, asm := (expire now s).asm } := by
  simp [runMuts, runMut, preHead, expire]

theorem runMuts_op (x : Ext) (tbl : Control.Table) (now : Nat) (data : Bytes) (s : St) (op : Frag.Op) (m : String)
    (hm : m = "fragment_assembler.start_fragment" ∨ m = "fragment_assembler.add_fragment") (hop : fragOp now data = some op) :
    runMuts x tbl now data s (preHead ++ [m]) = { cache := s.cache, asm := ((expire now s).asm.step op).1 } := by
  rcases hm with rfl | rfl <;> simp [runMuts, runMut, preHead, expire, hop]

theorem runMuts_op_cache (x : Ext) (tbl : Control.Table) (now : Nat) (data : Bytes) (s : St) (op : Frag.Op) (m : String)
    (hm : m = "fragment_assembler.start_fragment" ∨ m = "fragment_assembler.add_fragment") (hop : fragOp now data = some op)
    (complete : Bytes) (hc : ((expire now s).asm.step op).2 = some complete) :
    runMuts x tbl now data s (preHead ++ [m, "atom_cache"]) =
      { cache := (decodeCompleteFragment x tbl s.cache complete).1, asm := ((expire now s).asm.step op).1 } := by
  have hc' : ((s.asm.cleanupExpired now).1.step op).2 = some complete := hc
  rcases hm with rfl | rfl <;> simp [runMuts, runMut, preHead, expire, hop, hc']

end Edp.Recv

namespace Edp.Recv
open Edp

theorem ptSite_row (x : Ext) (tbl : Control.Table) (rest : Bytes) :
    (exitRow Gen.RECV_EXITS (ptSite x tbl rest)).map Prod.snd = some preHead := by
  unfold ptSite
  repeat' split
  all_goals decide

theorem hdrSite_row (x : Ext) (tbl : Control.Table) (c : Cache) (data : Bytes) :
    (exitRow Gen.RECV_EXITS (hdrSite x tbl c data)).map Prod.snd = some (preHead ++ ["atom_cache"]) := by
  unfold hdrSite
  repeat' split
  all_goals decide

theorem exitSite_69 (x : Ext) (tbl : Control.Table) (now : Nat) (s : St) (rest : Bytes) :
    exitSite x tbl now s (131 :: 69 :: rest) =
      match decodeFragmentHeader (131 :: 69 :: rest) with
      | .error _ => "frag_header:decode_fragment_header"
      | .ok ((seq, fid, n), remaining) =>
        if fid = 0 then "frag_header:ErrProtocol" else
        match ((expire now s).asm.startFragment now seq fid none (131 :: 68 :: UInt8.ofNat n :: remaining)).2 with
        | some _ => "frag_header:decode_complete_fragment"
        | none => "frag_header:continue" := by
  simp [exitSite]

theorem exitSite_70 (x : Ext) (tbl : Control.Table) (now : Nat) (s : St) (rest : Bytes) :
    exitSite x tbl now s (131 :: 70 :: rest) =
      match decodeFragmentCont (131 :: 70 :: rest) with
      | .error _ => "frag_cont:decode_fragment_cont"
      | .ok ((seq, fid), remaining) =>
        if fid = 0 then "frag_cont:ErrProtocol" else
        match ((expire now s).asm.addFragment now seq fid remaining).2 with
        | some _ => "frag_cont:decode_complete_fragment"
        | none => "frag_cont:continue" := by
  simp [exitSite]

/-- the statements the table has before the exit `site` -/
def preOf (site : String) : Option (List String) := (exitRow Gen.RECV_EXITS site).map Prod.snd

/-- THE STATE A FRAME LEAVES IS THE SOURCE'S: the exit the model takes is a row of the regenerated table, and the model's
state after the frame is what the state-changing statements on the source's path to that exit make of the state before -/
theorem recv_by_table (x : Ext) (tbl : Control.Table) (now : Nat) (s : St) (data : Bytes) :
    ∃ pre, preOf (exitSite x tbl now s data) = some pre ∧
      (recv x tbl now s data).1 = runMuts x tbl now data s pre := by
  match data with
  | [] =>
    refine ⟨preHead, ?_, by rw [runMuts_head]; rfl⟩
    show preOf "head:continue" = _; decide
  | [a] =>
    by_cases ha : a = 112
    · have hk := ptSite_row x tbl []
      refine ⟨preHead, by simpa [exitSite, ha, preOf] using hk, ?_⟩
      rw [runMuts_head]; simp [recv, dispatch, ha]
    · refine ⟨preHead, ?_, ?_⟩
      · simp only [exitSite, ha, ↓reduceIte]; decide
      · rw [runMuts_head]; simp [recv, dispatch, ha]
  | a :: b :: rest =>
    by_cases h69 : a = 131 ∧ b = 69
    · obtain ⟨rfl, rfl⟩ := h69
      have e : recv x tbl now s (131 :: 69 :: rest) = recvFragHeader x tbl now (expire now s) (131 :: 69 :: rest) := by
        simp [recv, dispatch]
      rw [e, exitSite_69]
      unfold recvFragHeader
      rcases hd : decodeFragmentHeader (131 :: 69 :: rest) with er | ⟨⟨seq, fid, n⟩, remaining⟩
      · refine ⟨preHead, ?_, by rw [runMuts_head]⟩
        show preOf "frag_header:decode_fragment_header" = _; decide
      · by_cases h0 : fid = 0
        · simp only [h0, ↓reduceIte]
          refine ⟨preHead, ?_, by rw [runMuts_head]⟩
          decide
        · simp only [h0, ↓reduceIte]
          have hop : fragOp now (131 :: 69 :: rest) =
              some (.start now seq fid none (131 :: 68 :: UInt8.ofNat n :: remaining)) := by
            simp [fragOp, hd, h0]
          rcases hr : ((expire now s).asm.startFragment now seq fid none (131 :: 68 :: UInt8.ofNat n :: remaining)).2 with _ | complete
          · refine ⟨preHead ++ ["fragment_assembler.start_fragment"], ?_, ?_⟩
            · show preOf "frag_header:continue" = _; decide
            · rw [deliver_none x tbl _ _ hr, runMuts_op x tbl now _ s _ _ (Or.inl rfl) hop]
              rfl
          · refine ⟨preHead ++ ["fragment_assembler.start_fragment", "atom_cache"], ?_, ?_⟩
            · show preOf "frag_header:decode_complete_fragment" = _; decide
            · rw [deliver_some x tbl _ _ _ hr, runMuts_op_cache x tbl now _ s _ _ (Or.inl rfl) hop complete hr]
              rfl
    · by_cases h70 : a = 131 ∧ b = 70
      · obtain ⟨rfl, rfl⟩ := h70
        have e : recv x tbl now s (131 :: 70 :: rest) = recvFragCont x tbl now (expire now s) (131 :: 70 :: rest) := by
          simp [recv, dispatch]
        rw [e, exitSite_70]
        unfold recvFragCont
        rcases hd : decodeFragmentCont (131 :: 70 :: rest) with er | ⟨⟨seq, fid⟩, remaining⟩
        · refine ⟨preHead, ?_, by rw [runMuts_head]⟩
          show preOf "frag_cont:decode_fragment_cont" = _; decide
        · by_cases h0 : fid = 0
          · simp only [h0, ↓reduceIte]
            refine ⟨preHead, ?_, by rw [runMuts_head]⟩
            decide
          · simp only [h0, ↓reduceIte]
            have hop : fragOp now (131 :: 70 :: rest) = some (.add now seq fid remaining) := by
              simp [fragOp, hd, h0]
            rcases hr : ((expire now s).asm.addFragment now seq fid remaining).2 with _ | complete
            · refine ⟨preHead ++ ["fragment_assembler.add_fragment"], ?_, ?_⟩
              · show preOf "frag_cont:continue" = _; decide
              · rw [deliver_none x tbl _ _ hr, runMuts_op x tbl now _ s _ _ (Or.inr rfl) hop]
                rfl
            · refine ⟨preHead ++ ["fragment_assembler.add_fragment", "atom_cache"], ?_, ?_⟩
              · show preOf "frag_cont:decode_complete_fragment" = _; decide
              · rw [deliver_some x tbl _ _ _ hr, runMuts_op_cache x tbl now _ s _ _ (Or.inr rfl) hop complete hr]
                rfl
      · by_cases h112 : a = 112
        · subst h112
          have hk := ptSite_row x tbl (b :: rest)
          refine ⟨preHead, by simpa [exitSite, preOf] using hk, ?_⟩
          rw [runMuts_head, recv_112]
        · by_cases h68 : a = 131 ∧ b = 68
          · obtain ⟨rfl, rfl⟩ := h68
            have hk := hdrSite_row x tbl s.cache (131 :: 68 :: rest)
            refine ⟨preHead ++ ["atom_cache"], by simpa [exitSite, preOf] using hk, ?_⟩
            rw [runMuts_hdr, recv_header_frame, recvHeader, decodeCompleteFragment_header]
            rfl
          · refine ⟨preHead, ?_, ?_⟩
            · simp only [exitSite, h69, h70, h112, h68, ↓reduceIte]; decide
            · rw [runMuts_head]
              simp [recv, dispatch, h69, h70, h112, h68]

end Edp.Recv
