import EdpVerif.Lemmas.ErlAgree
/-!
Bit-strings (C12): for bit-strings as the decoder produces them (unused low bits of the last byte zero), the code's
"bytes, then number of bits in the last byte" is Erlang's bit-wise order.
-/
open Edp Edp.Term
namespace Edp

/-- the `k` low bits of `v`, most significant first -/
def bitsN : Nat → Nat → List Bool
  | 0, _ => []
  | k + 1, v => (v / 2 ^ k % 2 == 1) :: bitsN k v

theorem bitsN_length : ∀ k v, (bitsN k v).length = k
  | 0, _ => rfl
  | k + 1, v => by simp [bitsN, bitsN_length k v]

theorem bitsOfByte_eq (b : UInt8) : Erl.bitsOfByte b = bitsN 8 b.toNat := rfl

theorem bitsN_mod : ∀ k v, bitsN k v = bitsN k (v % 2 ^ k)
  | 0, _ => rfl
  | k + 1, v => by
    have h1 : v % 2 ^ (k + 1) / 2 ^ k % 2 = v / 2 ^ k % 2 := by
      rw [Nat.pow_succ, Nat.mod_mul_right_div_self]; simp
    have h2 : v % 2 ^ (k + 1) % 2 ^ k = v % 2 ^ k := Nat.mod_mod_of_dvd _ ⟨2, by rw [Nat.pow_succ]⟩
    simp only [bitsN, h1]
    rw [bitsN_mod k v, bitsN_mod k (v % 2 ^ (k + 1)), h2]

theorem boolsCmp_append : ∀ (a b c d : List Bool), a.length = b.length →
    Erl.boolsCmp (a ++ c) (b ++ d) = (Erl.boolsCmp a b).then (Erl.boolsCmp c d)
  | [], [], c, d, _ => by simp [Erl.boolsCmp]
  | [], _ :: _, _, _, h => by simp at h
  | _ :: _, [], _, _, h => by simp at h
  | x :: xs, y :: ys, c, d, h => by
    simp only [List.cons_append, Erl.boolsCmp, erl_thenO, Ordering.then_assoc]
    rw [boolsCmp_append xs ys c d (by simpa using h)]

/-- numbers below `2^k` compare as their `k`-bit strings -/
theorem cmp_bitsN : ∀ k v w, v < 2 ^ k → w < 2 ^ k → Erl.boolsCmp (bitsN k v) (bitsN k w) = compare v w
  | 0, v, w, hv, hw => by
    have : v = 0 := by simpa using hv
    have : w = 0 := by simpa using hw
    subst_vars; simp [bitsN, Erl.boolsCmp]
  | k + 1, v, w, hv, hw => by
    have hp : 0 < 2 ^ k := Nat.two_pow_pos k
    have ih := cmp_bitsN k (v % 2 ^ k) (w % 2 ^ k) (Nat.mod_lt _ hp) (Nat.mod_lt _ hp)
    simp only [bitsN, Erl.boolsCmp, erl_thenO]
    rw [bitsN_mod k v, bitsN_mod k w, ih]
    have dv := Nat.div_add_mod v (2 ^ k)
    have dw := Nat.div_add_mod w (2 ^ k)
    have lv : v / 2 ^ k < 2 := by rw [Nat.div_lt_iff_lt_mul hp, Nat.mul_comm, ← Nat.pow_succ]; exact hv
    have lw : w / 2 ^ k < 2 := by rw [Nat.div_lt_iff_lt_mul hp, Nat.mul_comm, ← Nat.pow_succ]; exact hw
    have mv := Nat.mod_lt v hp
    have mw := Nat.mod_lt w hp
    generalize v / 2 ^ k = qv at *
    generalize w / 2 ^ k = qw at *
    generalize v % 2 ^ k = rv at *
    generalize w % 2 ^ k = rw' at *
    generalize 2 ^ k = P at *
    have : qv = 0 ∨ qv = 1 := by omega
    have : qw = 0 ∨ qw = 1 := by omega
    rcases ‹qv = 0 ∨ qv = 1› with rfl | rfl <;> rcases ‹qw = 0 ∨ qw = 1› with rfl | rfl <;> simp at dv dw ⊢
    · subst dv dw; rfl
    · subst dv dw; rw [Nat.compare_eq_lt.mpr (show rv < P + rw' by omega)]; rfl
    · subst dv dw; rw [Nat.compare_eq_gt.mpr (show rw' < P + rv by omega)]; rfl
    · subst dv dw; rw [Nat.add_comm P rv, Nat.add_comm P rw', nat_compare_add]


theorem bitsN_split : ∀ n j v, bitsN (n + j) v = bitsN n (v / 2 ^ j) ++ bitsN j v
  | 0, j, v => by simp [bitsN]
  | n + 1, j, v => by
    have e : n + 1 + j = (n + j) + 1 := by omega
    rw [e]
    simp only [bitsN, List.cons_append]
    rw [bitsN_split n j v, Nat.div_div_eq_div_mul, ← Nat.pow_add, Nat.add_comm j n]

theorem take_bitsN (n j v : Nat) : (bitsN (n + j) v).take n = bitsN n (v / 2 ^ j) := by
  rw [bitsN_split, List.take_left' (bitsN_length n _)]

theorem boolsCmp_nil_left (z : List Bool) : Erl.boolsCmp [] z = if z = [] then .eq else .lt := by
  cases z <;> simp [Erl.boolsCmp]

/-- comparing `a'·Q` with `b1·Q + b0` (`b0 < Q`) -/
theorem cmp_scaled_head (a' b1 b0 Q : Nat) (hb0 : b0 < Q) :
    compare (a' * Q) (b1 * Q + b0) =
      (compare a' b1).then (if b0 = 0 then .eq else .lt) := by
  rcases Nat.lt_trichotomy a' b1 with h | h | h
  · have : (a' + 1) * Q ≤ b1 * Q := Nat.mul_le_mul_right Q h
    rw [Nat.succ_mul] at this
    rw [Nat.compare_eq_lt.mpr h, Nat.compare_eq_lt.mpr (by omega)]; rfl
  · subst h
    rw [Nat.compare_eq_eq.mpr rfl, Ordering.eq_then]
    by_cases h0 : b0 = 0
    · simp [h0]
    · rw [if_neg h0, Nat.compare_eq_lt]; omega
  · have : (b1 + 1) * Q ≤ a' * Q := Nat.mul_le_mul_right Q h
    rw [Nat.succ_mul] at this
    rw [Nat.compare_eq_gt.mpr h, Nat.compare_eq_gt.mpr (by omega)]; rfl

/-- two last bytes: `n ≤ m` used bits -/
theorem last_le (n j s a' b' : Nat) (hs : n + j ≤ s) (ha : a' < 2 ^ n) (hb : b' < 2 ^ (n + j)) :
    Erl.boolsCmp (bitsN n a') (bitsN (n + j) b') =
      (compare (a' * 2 ^ (s - n)) (b' * 2 ^ (s - (n + j)))).then (compare n (n + j)) := by
  have hQ : 0 < 2 ^ j := Nat.two_pow_pos j
  have hb1 : b' / 2 ^ j < 2 ^ n := by
    rw [Nat.div_lt_iff_lt_mul hQ, ← Nat.pow_add]; exact hb
  have hX := boolsCmp_append (bitsN n a') (bitsN n (b' / 2 ^ j)) [] (bitsN j b')
    (by rw [bitsN_length, bitsN_length])
  rw [List.append_nil] at hX
  rw [bitsN_split, hX, cmp_bitsN n _ _ ha hb1, boolsCmp_nil_left]
  have e : s - n = j + (s - (n + j)) := by omega
  rw [e, Nat.pow_add, ← Nat.mul_assoc, nat_compare_mul _ _ _ (Nat.two_pow_pos _)]
  have hdm := Nat.div_add_mod b' (2 ^ j)
  have hm := Nat.mod_lt b' hQ
  have hc := cmp_scaled_head a' (b' / 2 ^ j) (b' % 2 ^ j) (2 ^ j) hm
  rw [Nat.mul_comm (b' / 2 ^ j) (2 ^ j), hdm] at hc
  rw [hc, Ordering.then_assoc]
  congr 1
  by_cases hj : j = 0
  · subst hj
    have : b' % 2 ^ 0 = 0 := by simp [Nat.mod_one]
    simp [bitsN, this]
  · have hne : bitsN j b' ≠ [] := by
      intro h0; have := bitsN_length j b'; rw [h0] at this; simp at this; omega
    rw [if_neg hne, Nat.compare_eq_lt.mpr (by omega : n < n + j)]
    split <;> rfl


/-- a bit-string as the decoder produces it: `bits` in 1..8, the unused low bits of the last byte zero; no bytes: `bits = 8` -/
def bitsOk (b : Bytes) (n : Nat) : Bool :=
  match b.getLast? with
  | none => n == 8
  | some l => decide (1 ≤ n) && decide (n ≤ 8) && l.toNat % 2 ^ (8 - n) == 0

theorem boolsCmp_swap : ∀ (a b : List Bool), Erl.boolsCmp a b = (Erl.boolsCmp b a).swap
  | [], [] => rfl
  | [], _ :: _ => rfl
  | _ :: _, [] => rfl
  | x :: xs, y :: ys => by
    simp only [Erl.boolsCmp, erl_thenO, Ordering.swap_then]
    rw [compare_nat_rev x.toNat y.toNat, boolsCmp_swap xs ys]

/-- two last bytes with `n` and `m` used bits, as numbers scaled to `s` bits -/
theorem last_last (n m s a' b' : Nat) (hn : n ≤ s) (hm : m ≤ s) (ha : a' < 2 ^ n) (hb : b' < 2 ^ m) :
    Erl.boolsCmp (bitsN n a') (bitsN m b') =
      (compare (a' * 2 ^ (s - n)) (b' * 2 ^ (s - m))).then (compare n m) := by
  rcases Nat.le_total n m with h | h
  · obtain ⟨j, rfl⟩ := Nat.exists_eq_add_of_le h
    exact last_le n j s a' b' hm ha hb
  · obtain ⟨j, rfl⟩ := Nat.exists_eq_add_of_le h
    rw [boolsCmp_swap, last_le m j s b' a' hn hb ha, Ordering.swap_then, ← compare_nat_rev, ← compare_nat_rev]

/-- a byte whose low `8 - n` bits are zero is `(byte / 2^(8-n)) · 2^(8-n)` with an `n`-bit quotient -/
theorem byte_split (a n : Nat) (ha : a < 256) (hn : n ≤ 8) (hz : a % 2 ^ (8 - n) = 0) :
    a / 2 ^ (8 - n) < 2 ^ n ∧ a / 2 ^ (8 - n) * 2 ^ (8 - n) = a := by
  have hp : 0 < 2 ^ (8 - n) := Nat.two_pow_pos _
  constructor
  · rw [Nat.div_lt_iff_lt_mul hp, ← Nat.pow_add, show n + (8 - n) = 8 by omega]; exact ha
  · have := Nat.div_add_mod a (2 ^ (8 - n)); rw [hz, Nat.mul_comm] at this; simpa using this

theorem bitsOk_cons2 (a c : UInt8) (r : Bytes) (n : Nat) : bitsOk (a :: c :: r) n = bitsOk (c :: r) n := by
  simp [bitsOk, List.getLast?_cons_cons]

theorem bitsOk_single (a : UInt8) (n : Nat) (h : bitsOk [a] n) : 1 ≤ n ∧ n ≤ 8 ∧ a.toNat % 2 ^ (8 - n) = 0 := by
  simpa [bitsOk, and_assoc] using h

theorem bitsOf_single (a : UInt8) (n : Nat) (hn : n ≤ 8) :
    Erl.bitsOf [a] n = bitsN n (a.toNat / 2 ^ (8 - n)) := by
  simp only [Erl.bitsOf, bitsOfByte_eq]
  have := take_bitsN n (8 - n) a.toNat
  rwa [show n + (8 - n) = 8 by omega] at this

theorem bitsOf_ne_nil : ∀ (y : Bytes) (m : Nat), y ≠ [] → bitsOk y m → Erl.bitsOf y m ≠ []
  | [], _, h, _ => absurd rfl h
  | [b], m, _, h => by
    obtain ⟨h1, h2, _⟩ := bitsOk_single b m h
    rw [bitsOf_single b m h2]
    intro h0; have := bitsN_length m (b.toNat / 2 ^ (8 - m)); rw [h0] at this; simp at this; omega
  | b :: c :: r, m, _, _ => by simp [Erl.bitsOf, bitsOfByte_eq, bitsN]

/-- a last byte (`n` used bits) against a byte that is followed by more bits -/
theorem last_vs_more (a b : UInt8) (n : Nat) (rest : List Bool) (hr : rest ≠ []) (h : bitsOk [a] n) :
    Erl.boolsCmp (Erl.bitsOf [a] n) (bitsN 8 b.toNat ++ rest) = (compare a.toNat b.toNat).then .lt := by
  obtain ⟨h1, h2, h3⟩ := bitsOk_single a n h
  obtain ⟨s1, s2⟩ := byte_split a.toNat n a.toNat_lt h2 h3
  have hp : 0 < 2 ^ (8 - n) := Nat.two_pow_pos _
  rw [bitsOf_single a n h2]
  have e8 : bitsN 8 b.toNat = bitsN n (b.toNat / 2 ^ (8 - n)) ++ bitsN (8 - n) b.toNat := by
    have := bitsN_split n (8 - n) b.toNat
    rwa [show n + (8 - n) = 8 by omega] at this
  have hb1 : b.toNat / 2 ^ (8 - n) < 2 ^ n := by
    rw [Nat.div_lt_iff_lt_mul hp, ← Nat.pow_add, show n + (8 - n) = 8 by omega]; exact b.toNat_lt
  have hX := boolsCmp_append (bitsN n (a.toNat / 2 ^ (8 - n))) (bitsN n (b.toNat / 2 ^ (8 - n))) []
    (bitsN (8 - n) b.toNat ++ rest) (by rw [bitsN_length, bitsN_length])
  rw [List.append_nil] at hX
  rw [e8, List.append_assoc, hX, cmp_bitsN n _ _ s1 hb1, boolsCmp_nil_left,
    if_neg (by simp [hr])]
  have hm := Nat.mod_lt b.toNat hp
  have hc := cmp_scaled_head (a.toNat / 2 ^ (8 - n)) (b.toNat / 2 ^ (8 - n)) (b.toNat % 2 ^ (8 - n)) _ hm
  rw [s2, Nat.mul_comm (b.toNat / 2 ^ (8 - n)), Nat.div_add_mod] at hc
  rw [hc, Ordering.then_assoc]
  congr 1
  split <;> rfl


theorem bytesCmp_cons (a b : UInt8) (x y : Bytes) :
    bytesCmp (a :: x) (b :: y) = (compare a.toNat b.toNat).then (bytesCmp x y) := rfl

/-- bytes-then-bits is the bit-wise order, for bit-strings whose unused bits are zero -/
theorem bits_core : ∀ (x y : Bytes) (n m : Nat), bitsOk x n → bitsOk y m →
    (bytesCmp x y).then (compare n m) = Erl.boolsCmp (Erl.bitsOf x n) (Erl.bitsOf y m)
  | [], [], n, m, hx, hy => by
    have h1 : n = 8 := by simpa [bitsOk] using hx
    have h2 : m = 8 := by simpa [bitsOk] using hy
    subst h1 h2; rfl
  | [], b :: ry, n, m, _, hy => by
    have hne := bitsOf_ne_nil (b :: ry) m (by simp) hy
    rw [show Erl.bitsOf [] n = [] from rfl, boolsCmp_nil_left, if_neg hne]; rfl
  | a :: rx, [], n, m, hx, _ => by
    have hne := bitsOf_ne_nil (a :: rx) n (by simp) hx
    rw [show Erl.bitsOf [] m = [] from rfl, boolsCmp_swap, boolsCmp_nil_left, if_neg hne]; rfl
  | [a], [b], n, m, hx, hy => by
    obtain ⟨a1, a2, a3⟩ := bitsOk_single a n hx
    obtain ⟨b1, b2, b3⟩ := bitsOk_single b m hy
    obtain ⟨sa1, sa2⟩ := byte_split a.toNat n a.toNat_lt a2 a3
    obtain ⟨sb1, sb2⟩ := byte_split b.toNat m b.toNat_lt b2 b3
    rw [bitsOf_single a n a2, bitsOf_single b m b2, last_last n m 8 _ _ a2 b2 sa1 sb1, sa2, sb2]
    simp [bytesCmp, lexCmp]
  | [a], b :: d :: ry, n, m, hx, hy => by
    have hne := bitsOf_ne_nil (d :: ry) m (by simp) (by rwa [bitsOk_cons2] at hy)
    rw [show Erl.bitsOf (b :: d :: ry) m = bitsN 8 b.toNat ++ Erl.bitsOf (d :: ry) m from rfl,
      last_vs_more a b n _ hne hx]
    simp [bytesCmp, lexCmp, Ordering.then_assoc]
  | a :: c :: rx, [b], n, m, hx, hy => by
    have hne := bitsOf_ne_nil (c :: rx) n (by simp) (by rwa [bitsOk_cons2] at hx)
    rw [show Erl.bitsOf (a :: c :: rx) n = bitsN 8 a.toNat ++ Erl.bitsOf (c :: rx) n from rfl,
      boolsCmp_swap, last_vs_more b a m _ hne hy]
    simp only [bytesCmp_cons, Ordering.swap_then, ← compare_nat_rev]
    simp [bytesCmp, lexCmp, Ordering.then_assoc]
  | a :: c :: rx, b :: d :: ry, n, m, hx, hy => by
    have ih := bits_core (c :: rx) (d :: ry) n m (by rwa [bitsOk_cons2] at hx) (by rwa [bitsOk_cons2] at hy)
    rw [show Erl.bitsOf (a :: c :: rx) n = bitsN 8 a.toNat ++ Erl.bitsOf (c :: rx) n from rfl,
      show Erl.bitsOf (b :: d :: ry) m = bitsN 8 b.toNat ++ Erl.bitsOf (d :: ry) m from rfl,
      boolsCmp_append _ _ _ _ (by rw [bitsN_length, bitsN_length]),
      cmp_bitsN 8 _ _ a.toNat_lt b.toNat_lt, ← ih, bytesCmp_cons, Ordering.then_assoc]

theorem maskLast_ok : ∀ (b : Bytes) (n : Nat), bitsOk b n → Value.maskLast b n = b
  | [], _, _ => rfl
  | [a], n, h => by
    obtain ⟨_, h2, h3⟩ := bitsOk_single a n h
    obtain ⟨_, s2⟩ := byte_split a.toNat n a.toNat_lt h2 h3
    simp only [Value.maskLast, s2]
    simp
  | a :: c :: r, n, h => by
    simp only [Value.maskLast]
    rw [maskLast_ok (c :: r) n (by rwa [bitsOk_cons2] at h)]

theorem mkBits_ok (b : Bytes) (n : Nat) (h : bitsOk b n) : Value.mkBits b n = .bitstr b n := by
  unfold Value.mkBits
  cases b with
  | nil => have : n = 8 := by simpa [bitsOk] using h
           subst this; rfl
  | cons a r => simp [maskLast_ok _ _ h]

theorem bitsOk_bytes (b : Bytes) : bitsOk b 8 := by
  unfold bitsOk; cases b.getLast? <;> simp [Nat.mod_one]

/-- binaries, strings and bit-strings: the code's order is Erlang's order of the denoted bit-strings -/
theorem bits_agree (e : Bool) (x y : Bytes) (n m : Nat) (hx : bitsOk x n) (hy : bitsOk y m) :
    thenO (bytesCmp x y) (compare n m) = Erl.cmpX e (Value.mkBits x n) (Value.mkBits y m) := by
  rw [mkBits_ok x n hx, mkBits_ok y m hy]
  simp only [Erl.cmpX, Erl.rank, ne_eq, not_true_eq_false, if_false]
  exact bits_core x y n m hx hy

end Edp
