import EdpVerif.Impl.DistHeader
import EdpVerif.Spec.DistHeader
import EdpVerif.Lemmas.Codec
/-! Helper lemmas for C14: nibble packing, the sender/reader pair of the spec, the library's header reader
on any conforming sender's header, and the library's header writer as a conforming sender. -/
namespace Edp.DistHeader
open Edp Edp.Spec.DistHeader

/-! ### nibble packing -/

theorem pack_eq (l : List Nat) : packNibbles l = pack l := by
  fun_induction packNibbles l <;> simp [pack, *]

theorem pack_length (l : List Nat) : (pack l).length = (l.length + 1) / 2 := by
  fun_induction pack l
  · simp
  · simp
  · simp [*]; omega

/-- field `i` of a packed list of 4-bit values is value `i` -/
theorem field_pack (l : List Nat) (hl : ∀ x ∈ l, x < 16) (i : Nat) (hi : i < l.length) :
    field (pack l) i = l[i] := by
  fun_induction pack l generalizing i
  · simp at hi
  · rename_i a
    have : i = 0 := by simp at hi; omega
    subst this
    have ha : a < 16 := hl a (by simp)
    simp [field]; omega
  · rename_i a b r ih
    have ha : a < 16 := hl a (by simp)
    have hb : b < 16 := hl b (by simp)
    match i, hi with
    | 0, _ => simp [field]; omega
    | 1, _ => simp [field]; omega
    | j + 2, hj =>
      have hr : ∀ x ∈ r, x < 16 := fun x hx => hl x (by simp [hx])
      have := ih hr j (by simpa using hj)
      have e1 : (j + 2) / 2 = j / 2 + 1 := by omega
      have e2 : (j + 2) % 2 = j % 2 := by omega
      simp only [field, e1, e2, List.getElem?_cons_succ, List.getElem_cons_succ] at this ⊢
      exact this

/-- the library's reader of a flag field agrees with the spec's on packed fields -/
theorem nibbleAt_pack (l : List Nat) (hl : ∀ x ∈ l, x < 16) (i : Nat) (hi : i < l.length) :
    nibbleAt (pack l) i = some l[i] := by
  have hf := field_pack l hl i hi
  have hlen : i / 2 < (pack l).length := by rw [pack_length]; omega
  unfold nibbleAt
  unfold field at hf
  rw [List.getElem?_eq_getElem hlen] at hf ⊢
  simp only at hf ⊢
  by_cases h : i % 2 = 0
  · simp [h] at hf ⊢; exact hf
  · have h1 : i % 2 = 1 := by omega
    simp [h1] at hf ⊢
    have : (pack l)[i / 2].toNat < 256 := (pack l)[i / 2].toNat_lt
    omega

/-! ### the spec's reader on the spec's sender -/

theorem lenField_read (long : Bool) (n : Nat) (r : Bytes) (h : if long then n < 65536 else n < 256) :
    rdN (if long then 2 else 1) (Spec.DistHeader.lenField long n ++ r) = some (n, r) := by
  cases long
  · simp only [Spec.DistHeader.lenField, Bool.false_eq_true, ↓reduceIte] at h ⊢
    exact rdN_beN 1 n r (by simpa using h)
  · simp only [Spec.DistHeader.lenField, ↓reduceIte] at h ⊢
    exact rdN_beN 2 n r (by simpa using h)

theorem nibOf_lt (e : Entry) (h : e.seg < 8) : nibOf e < 16 := by
  unfold nibOf; split <;> omega

/-- the spec reader returns exactly the sender's atoms, by position, and ends with the sender's cache -/
theorem readRefs_send (long : Bool) (flags : Bytes) (es : List Entry) (i : Nat) (s : Slots) (rest : Bytes)
    (hf : ∀ j (h : j < es.length), field flags (i + j) = nibOf es[j])
    (hc : Conforming long s es) :
    readRefs long flags es.length i s (sendRefs long es ++ rest) =
      some (es.map (·.atom), sendSlots s es, rest) := by
  induction es generalizing i s with
  | nil => simp [readRefs, sendRefs, sendSlots]
  | cons e r ih =>
    obtain ⟨hseg, hidx, hlen, hold, hrest⟩ := hc
    have h0 := hf 0 (by simp)
    simp only [Nat.add_zero, List.getElem_cons_zero] at h0
    have hf' : ∀ j (h : j < r.length), field flags (i + 1 + j) = nibOf r[j] := by
      intro j hj
      have := hf (j + 1) (by simp; omega)
      simpa [Nat.add_assoc, Nat.add_comm 1 j] using this
    have hidx' : (UInt8.ofNat e.idx).toNat = e.idx := by simp; omega
    cases hn : e.new
    · -- a reference to what the slot already holds
      have hlook := hold hn
      have hnib : nibOf e = e.seg := by simp [nibOf, hn]
      have hlt : ¬ (e.seg ≥ 8) := by omega
      simp only [sendRefs, hn, Bool.false_eq_true, ↓reduceIte, List.cons_append, List.length_cons, readRefs, h0, hnib,
        hlt, hidx', Nat.mod_eq_of_lt hseg, hlook]
      have := ih (i + 1) s hf' (by simpa [upd, hn] using hrest)
      rw [this]
      simp [sendSlots, upd, hn]
    · have hnib : nibOf e = 8 + e.seg := by simp [nibOf, hn]
      have hge : 8 + e.seg ≥ 8 := by omega
      have hmod : (8 + e.seg) % 8 = e.seg := by omega
      simp only [sendRefs, hn, ↓reduceIte, List.cons_append, List.append_assoc, List.length_cons, readRefs, h0, hnib, hge,
        hidx', hmod]
      rw [lenField_read long _ _ hlen]
      simp only [takeN_append]
      have := ih (i + 1) (((e.seg, e.idx), e.atom) :: s) hf' (by simpa [upd, hn] using hrest)
      simp only [this]
      simp [sendSlots, upd, hn]

/-! ### the library's reader on any conforming sender's references -/

/-- the position table after reading references `i, i+1, …` -/
def posTable : Nat → List Entry → List (Nat × Bytes) → List (Nat × Bytes)
  | _, [], acc => acc
  | i, e :: r, acc => posTable (i + 1) r ((i, e.atom) :: acc)

theorem lookup_posTable_lt (es : List Entry) (i k : Nat) (acc : List (Nat × Bytes)) (h : k < i) :
    (posTable i es acc).lookup k = acc.lookup k := by
  induction es generalizing i acc with
  | nil => simp [posTable]
  | cons e r ih =>
    simp only [posTable]
    rw [ih (i + 1) _ (by omega)]
    have : (k == i) = false := by simp; omega
    simp [List.lookup, this]

theorem lookup_posTable (es : List Entry) (i j : Nat) (acc : List (Nat × Bytes)) (h : j < es.length) :
    (posTable i es acc).lookup (i + j) = some es[j].atom := by
  induction es generalizing i j acc with
  | nil => simp at h
  | cons e r ih =>
    simp only [posTable]
    cases j with
    | zero =>
      rw [lookup_posTable_lt r (i + 1) (i + 0) _ (by omega)]
      simp [List.lookup]
    | succ j =>
      have := ih (i + 1) j ((i, e.atom) :: acc) (by simpa using h)
      have e1 : i + (j + 1) = i + 1 + j := by omega
      rw [e1, this]; simp

/-- the library's cache and the sender's agree slot by slot -/
def SlotsAgree (c : Cache) (s : Slots) : Prop := ∀ k, c.slots.lookup k = s.lookup k

theorem lenField_readU (long : Bool) (n : Nat) (r : Bytes) (h : if long then n < 65536 else n < 256) :
    rdU (if long then 2 else 1) (Spec.DistHeader.lenField long n ++ r) = .ok (n, r) := by
  simp [rdU, lenField_read long n r h]

/-- reading a conforming sender's references: no error, the position table holds the sender's atoms, the
cache follows the sender's, the terms' bytes are left -/
theorem parseRefs_send (long : Bool) (flags : Bytes) (es : List Entry) (i : Nat) (c : Cache) (s : Slots) (rest : Bytes)
    (hf : ∀ j (h : j < es.length), nibbleAt flags (i + j) = some (nibOf es[j]))
    (hc : Conforming long s es) (hv : ∀ e ∈ es, validUtf8 e.atom = true) (ha : SlotsAgree c s) :
    ∃ c', parseRefs long flags es.length i c (sendRefs long es ++ rest) = (c', .ok rest) ∧
      c'.atoms = posTable i es c.atoms ∧ SlotsAgree c' (sendSlots s es) := by
  induction es generalizing i c s with
  | nil => exact ⟨c, by simp [parseRefs, sendRefs], by simp [posTable], by simpa [sendSlots] using ha⟩
  | cons e r ih =>
    obtain ⟨hseg, hidx, hlen, hold, hrest⟩ := hc
    have h0 := hf 0 (by simp)
    simp only [Nat.add_zero, List.getElem_cons_zero] at h0
    have hf' : ∀ j (h : j < r.length), nibbleAt flags (i + 1 + j) = some (nibOf r[j]) := by
      intro j hj
      have := hf (j + 1) (by simp; omega)
      simpa [Nat.add_assoc, Nat.add_comm 1 j] using this
    have hv' : ∀ e' ∈ r, validUtf8 e'.atom = true := fun e' he => hv e' (by simp [he])
    have hve : validUtf8 e.atom = true := hv e (by simp)
    cases hn : e.new
    · have hlook : c.slots.lookup (e.seg, e.idx) = some e.atom := by rw [ha]; exact hold hn
      have hnib : nibOf e = e.seg := by simp [nibOf, hn]
      have hdiv : e.seg / 8 = 0 := by omega
      obtain ⟨c', h1, h2, h3⟩ := ih (i + 1) { c with atoms := (i, e.atom) :: c.atoms } s hf'
        (by simpa [upd, hn] using hrest) hv' (by simpa [SlotsAgree] using ha)
      refine ⟨c', ?_, ?_, ?_⟩
      · simp only [sendRefs, hn, Bool.false_eq_true, ↓reduceIte, List.cons_append, List.length_cons, parseRefs,
          rdU_byte e.idx _ hidx, h0, hnib, hdiv, Nat.mod_eq_of_lt hseg, hlook]
        simpa using h1
      · simpa [posTable] using h2
      · simpa [sendSlots, upd, hn] using h3
    · have hnib : nibOf e = 8 + e.seg := by simp [nibOf, hn]
      have hdiv : (8 + e.seg) / 8 = 1 := by omega
      have hmod : (8 + e.seg) % 8 = e.seg := by omega
      have ha' : SlotsAgree { atoms := (i, e.atom) :: c.atoms, slots := ((e.seg, e.idx), e.atom) :: c.slots }
          (((e.seg, e.idx), e.atom) :: s) := by
        intro k
        simp only [List.lookup]
        split <;> simp_all [SlotsAgree]
      obtain ⟨c', h1, h2, h3⟩ := ih (i + 1) _ _ hf' (by simpa [upd, hn] using hrest) hv' ha'
      refine ⟨c', ?_, ?_, ?_⟩
      · simp only [sendRefs, hn, ↓reduceIte, List.cons_append, List.append_assoc, List.length_cons, parseRefs,
          rdU_byte e.idx _ hidx, h0, hnib, hdiv, hmod]
        rw [lenField_readU long _ _ hlen]
        simp only [takeE_append, hve]
        simpa using h1
      · simpa [posTable] using h2
      · simpa [sendSlots, upd, hn] using h3

/-! ### whole headers -/

theorem flags_all_lt (long : Bool) (es : List Entry) (hs : ∀ e ∈ es, e.seg < 8) :
    ∀ x ∈ es.map nibOf ++ [if long then 1 else 0], x < 16 := by
  intro x hx
  simp only [List.mem_append, List.mem_map, List.mem_singleton] at hx
  rcases hx with ⟨e, he, rfl⟩ | rfl
  · exact nibOf_lt e (hs e he)
  · split <;> omega

theorem conforming_seg (long : Bool) (s : Slots) (es : List Entry) (h : Conforming long s es) : ∀ e ∈ es, e.seg < 8 := by
  induction es generalizing s with
  | nil => simp
  | cons e r ih =>
    obtain ⟨hseg, _, _, _, hrest⟩ := h
    intro e' he'
    simp only [List.mem_cons] at he'
    rcases he' with rfl | he'
    · exact hseg
    · exact ih _ hrest e' he'

/-- **the spec's sender and reader agree** (internal consistency of the oracle): the header a conforming
sender writes is read back as exactly its atoms by position, with the reader's cache equal to the sender's -/
theorem readHeader_send (long : Bool) (s : Slots) (es : List Entry) (rest : Bytes)
    (hn : es.length ≤ 255) (hc : Conforming long s es) :
    readHeader s (sendHeader long es ++ rest) = some (es.map (·.atom), sendSlots s es, rest) := by
  cases hes : es with
  | nil => simp [sendHeader, readHeader, sendSlots]
  | cons e0 r0 =>
    rw [← hes]
    have hne : es.isEmpty = false := by simp [hes]
    have hpos : 0 < es.length := by simp [hes]
    have hlen : (UInt8.ofNat es.length).toNat = es.length := by simp; omega
    have hl := flags_all_lt long es (conforming_seg long s es hc)
    obtain ⟨fl, hfl⟩ : ∃ fl, fl = es.map nibOf ++ [if long then 1 else 0] := ⟨_, rfl⟩
    rw [← hfl] at hl
    have hfll : fl.length = es.length + 1 := by simp [hfl]
    have hpl : (pack fl).length = es.length / 2 + 1 := by rw [pack_length, hfll]; omega
    have hne0 : ¬ es.length = 0 := by omega
    simp only [sendHeader, hne, Bool.false_eq_true, ↓reduceIte, List.cons_append, List.append_assoc, readHeader, hlen, hne0]
    rw [← hfl, ← hpl, takeN_append]
    simp only
    have hlong : (field (pack fl) es.length % 2 = 1) = (long = true) := by
      rw [field_pack fl hl es.length (by omega)]
      simp only [hfl]
      rw [List.getElem_append_right (by simp)]
      cases long <;> simp
    have hdec : decide (field (pack fl) es.length % 2 = 1) = long := by
      cases long <;> simp_all
    rw [hdec]
    apply readRefs_send long (pack fl) es 0 s rest _ hc
    intro j hj
    rw [Nat.zero_add, field_pack fl hl j (by omega)]
    simp only [hfl]
    rw [List.getElem_append_left (by simpa using hj)]
    simp

/-- **the library's header reader on any conforming sender's header**: no error, no panic; the position table
holds the sender's atoms; the cache follows the sender's; the terms' bytes are left untouched -/
theorem parseHeader_send (long : Bool) (c : Cache) (s : Slots) (es : List Entry) (rest : Bytes)
    (hn : es.length ≤ 255) (hc : Conforming long s es) (hv : ∀ e ∈ es, validUtf8 e.atom = true) (ha : SlotsAgree c s) :
    ∃ c', parseHeader c (sendHeader long es ++ rest) = (c', .ok rest) ∧
      c'.atoms = posTable 0 es c.atoms ∧ SlotsAgree c' (sendSlots s es) := by
  cases hes : es with
  | nil =>
    refine ⟨c, ?_, by simp [posTable], by simpa [sendSlots] using ha⟩
    have : rdU 1 ((0 : UInt8) :: rest) = .ok (0, rest) := rdU_byte 0 rest (by omega)
    simp [sendHeader, parseHeader, this]
  | cons e0 r0 =>
    rw [← hes]
    have hne : es.isEmpty = false := by simp [hes]
    have hpos : 0 < es.length := by simp [hes]
    have hl := flags_all_lt long es (conforming_seg long s es hc)
    obtain ⟨fl, hfl⟩ : ∃ fl, fl = es.map nibOf ++ [if long then 1 else 0] := ⟨_, rfl⟩
    rw [← hfl] at hl
    have hfll : fl.length = es.length + 1 := by simp [hfl]
    have hpl : (pack fl).length = es.length / 2 + 1 := by rw [pack_length, hfll]; omega
    have hne0 : (es.length == 0) = false := by simp [hes]
    have hlast : es.length / 2 < (pack fl).length := by rw [hpl]; omega
    -- the LongAtoms decision is bit 0 of field n
    have hnib := nibbleAt_pack fl hl es.length (by omega)
    have hfn : fl[es.length]'(by omega) = if long then 1 else 0 := by
      simp only [hfl]
      rw [List.getElem_append_right (by simp)]
      simp
    obtain ⟨c', h1, h2, h3⟩ := parseRefs_send long (pack fl) es 0 c s rest (by
      intro j hj
      rw [Nat.zero_add, nibbleAt_pack fl hl j (by omega)]
      simp only [hfl]
      rw [List.getElem_append_left (by simpa using hj)]
      simp) hc hv ha
    refine ⟨c', ?_, h2, h3⟩
    simp only [sendHeader, hne, Bool.false_eq_true, ↓reduceIte, List.cons_append, List.append_assoc, parseHeader,
      rdU_byte es.length _ (by omega : es.length < 256), hne0]
    rw [← hfl, ← hpl, takeE_append]
    simp only [List.getElem?_eq_getElem hlast]
    have hlong : (if es.length % 2 == 0 then (pack fl)[es.length / 2].toNat % 2 == 1
        else (pack fl)[es.length / 2].toNat / 16 % 2 == 1) = long := by
      unfold nibbleAt at hnib
      rw [List.getElem?_eq_getElem hlast, hfn] at hnib
      simp only [Option.some.injEq] at hnib
      by_cases hp : es.length % 2 = 0
      · simp only [hp, BEq.rfl, ↓reduceIte] at hnib ⊢
        cases long <;> simp at hnib ⊢ <;> omega
      · have hp1 : es.length % 2 = 1 := by omega
        simp only [hp1, Nat.reduceBEq, Bool.false_eq_true, ↓reduceIte] at hnib ⊢
        cases long <;> simp at hnib ⊢ <;> omega
    rw [hlong]
    exact h1

/-! ### the library's header writer is a conforming sender -/

/-- the references the library's encoder writes: every atom a new entry in segment 0 at index = position -/
def entriesOf : Nat → List Bytes → List Entry
  | _, [] => []
  | i, a :: r => ⟨a, 0, i, true⟩ :: entriesOf (i + 1) r

theorem entriesOf_length (i : Nat) (l : List Bytes) : (entriesOf i l).length = l.length := by
  induction l generalizing i with
  | nil => rfl
  | cons a r ih => simp [entriesOf, ih]

theorem entriesOf_atoms (i : Nat) (l : List Bytes) : (entriesOf i l).map (·.atom) = l := by
  induction l generalizing i with
  | nil => rfl
  | cons a r ih => simp [entriesOf, ih]

theorem entriesOf_nib (i : Nat) (l : List Bytes) : (entriesOf i l).map nibOf = List.replicate l.length 8 := by
  induction l generalizing i with
  | nil => rfl
  | cons a r ih => simp [entriesOf, ih, nibOf, List.replicate_succ]

theorem lenField_eq (long : Bool) (n : Nat) : DistHeader.lenField long n = Spec.DistHeader.lenField long n := by
  cases long <;> simp [DistHeader.lenField, Spec.DistHeader.lenField, be8, be16]

theorem refsBytes_eq (long : Bool) (i : Nat) (l : List Bytes) : refsBytes long i l = sendRefs long (entriesOf i l) := by
  induction l generalizing i with
  | nil => rfl
  | cons a r ih => simp [refsBytes, entriesOf, sendRefs, ih, lenField_eq]

/-- what the encoder writes after `131, 68` is what a sender with these entries writes -/
theorem header_eq_send (order : List Bytes) (h : order ≠ []) :
    header order = sendHeader (isLong order) (entriesOf 0 order) := by
  have hne : (entriesOf 0 order).isEmpty = false := by
    cases order with
    | nil => exact absurd rfl h
    | cons a r => simp [entriesOf]
  simp [header, sendHeader, hne, entriesOf_length, flagNibbles, entriesOf_nib, pack_eq, refsBytes_eq]

theorem entriesOf_conforming (s : Slots) (order : List Bytes) (i : Nat)
    (hn : i + order.length ≤ 256) (hl : ∀ a ∈ order, a.length < 65536) :
    Conforming (isLong order) s (entriesOf i order) := by
  -- generalise the LongAtoms flag: any flag that covers the lengths will do
  suffices h : ∀ (long : Bool) (l : List Bytes) (i : Nat) (s : Slots), i + l.length ≤ 256 →
      (∀ a ∈ l, if long then a.length < 65536 else a.length < 256) → Conforming long s (entriesOf i l) by
    apply h _ _ _ _ hn
    intro a ha
    by_cases hL : isLong order = true
    · simp [hL]; exact hl a ha
    · simp only [hL, Bool.false_eq_true, ↓reduceIte]
      have : ¬ (order.any fun a => decide (a.length > 255)) = true := hL
      simp only [List.any_eq_true, decide_eq_true_eq, not_exists, not_and] at this
      have := this a ha
      omega
  intro long l
  induction l with
  | nil => intros; trivial
  | cons a r ih =>
    intro i s hn hl
    simp only [List.length_cons] at hn
    refine ⟨by simp, by simp; omega, hl a (by simp), by simp, ?_⟩
    exact ih (i + 1) _ (by omega) (fun a' ha' => hl a' (by simp [ha']))

/-! ### no panic -/

/-- reading a header never reaches an out-of-range index into the flag bytes (no panic), for any input at all -/
theorem parseRefs_np (long : Bool) (flags : Bytes) (k i : Nat) (c : Cache) (bs : Bytes)
    (h : i + k ≤ 2 * flags.length - 1) :
    (parseRefs long flags k i c bs).2 ≠ .error .panic := by
  induction k generalizing i c bs with
  | zero => simp [parseRefs]
  | succ k ih =>
    have hin : i / 2 < flags.length := by omega
    unfold parseRefs
    split
    · rename_i e he
      cases bs with
      | nil => simp [rdU, rdN] at he; subst he; simp
      | cons b t => simp [rdU, rdN] at he
    · rename_i idx r _
      have hnib : ∃ v, nibbleAt flags i = some v := by
        unfold nibbleAt; rw [List.getElem?_eq_getElem hin]; exact ⟨_, rfl⟩
      obtain ⟨v, hv⟩ := hnib
      simp only [hv]
      split
      · split
        · rename_i e he; intro hp
          simp only [Except.error.injEq] at hp; subst hp
          unfold rdU at he; split at he <;> simp at he
        · split
          · rename_i e he; intro hp
            simp only [Except.error.injEq] at hp; subst hp
            unfold takeE at he; split at he <;> simp at he
          · split
            · simp
            · exact ih (i + 1) _ _ (by omega)
      · split
        · exact ih (i + 1) _ _ (by omega)
        · simp

theorem parseHeader_np (c : Cache) (bs : Bytes) : (parseHeader c bs).2 ≠ .error .panic := by
  unfold parseHeader
  split
  · rename_i e he; intro hp
    simp only [Except.error.injEq] at hp; subst hp
    unfold rdU at he; split at he <;> simp at he
  · rename_i n r _
    split
    · simp
    · split
      · rename_i e he; intro hp
        simp only [Except.error.injEq] at hp; subst hp
        unfold takeE at he; split at he <;> simp at he
      · rename_i flags r1 hf
        have hlen : flags.length = n / 2 + 1 := by
          unfold takeE takeN at hf
          by_cases hle : n / 2 + 1 ≤ r.length
          · simp only [hle, ↓reduceIte, Except.ok.injEq, Prod.mk.injEq] at hf
            rw [← hf.1]; simp; omega
          · simp [hle] at hf
        have hin : n / 2 < flags.length := by omega
        rw [List.getElem?_eq_getElem hin]
        simp only
        exact parseRefs_np _ flags n 0 c r1 (by omega)

end Edp.DistHeader
