import EdpVerif.Lemmas.ErlAgree
import EdpVerif.Lemmas.ErlAgreeBits
import EdpVerif.Lemmas.EqCmp
/-!
The recursive agreement theorem (C12): `Term.cmp a b = Erl.cmp (den a) (den b)` for well-formed terms.
-/
open Edp Edp.Term
namespace Edp

/-! ### `den` is invariant under `norm` -/

theorem vmkList_nil (t : Value) : Value.mkList [] t = t := by
  cases t <;> rfl

theorem vmkList_assoc (a b : List Value) (t : Value) :
    Value.mkList a (Value.mkList b t) = Value.mkList (a ++ b) t := by
  cases a with
  | nil => simp [vmkList_nil]
  | cons x a =>
    cases b with
    | nil => simp [vmkList_nil]
    | cons y b => cases t <;> simp [Value.mkList, List.append_assoc]

theorem denL_append : ∀ (a b : List Term), denL (a ++ b) = denL a ++ denL b
  | [], b => by simp [denL]
  | x :: a, b => by simp [denL, denL_append a b]

theorem den_mkList (l : List Term) : den (mkList l) = Value.mkList (denL l) .nil := by
  cases l <;> simp [mkList, den, denL, Value.mkList]

theorem den_mkIlist (l : List Term) (t : Term) : den (mkIlist l t) = Value.mkList (denL l) (den t) := by
  cases l with
  | nil => simp [mkIlist, denL, vmkList_nil]
  | cons x l =>
    cases t <;> simp only [mkIlist, den]
    case list l2 => rw [vmkList_assoc, denL_append]
    case ilist l2 t2 => rw [vmkList_assoc, denL_append]

mutual
theorem den_norm : ∀ (t : Term), den (norm t) = den t
  | .atom _ | .int _ | .float _ | .pid _ | .port _ _ _ _ | .ref _ _ _ _ | .bin _
  | .bits _ _ | .str _ | .xfun _ _ _ | .nil | .big _ _ => by simp [norm]
  | .tuple l => by simp [norm, den, denL_normL l]
  | .map kvs => by simp [norm, den, denKV_normKV kvs]
  | .ifun _ _ _ _ _ _ _ _ fr => by simp [norm, den, denL_normL fr]
  | .list l => by rw [norm_list, den_mkList, denL_normL l]; simp [den]
  | .ilist l t => by rw [norm_ilist, den_mkIlist, denL_normL l, den_norm t]; simp [den]
theorem denL_normL : ∀ (l : List Term), denL (normL l) = denL l
  | [] => by simp [normL]
  | t :: ts => by simp [normL, denL, den_norm t, denL_normL ts]
theorem denKV_normKV : ∀ (l : List (Term × Term)), denKV (normKV l) = denKV l
  | [] => by simp [normKV]
  | (k, v) :: r => by simp [normKV, denKV, den_norm k, den_norm v, denKV_normKV r]
end


/-! ### the guard -/

mutual
/-- no float with an integer value anywhere in the value (such a float would tie with an integer) -/
def Value.noTie : Value → Bool
  | .float b => fracF b
  | .tuple l => Value.noTieL l
  | .cons l t => Value.noTieL l && Value.noTie t
  | .map kvs => Value.noTieKV kvs
  | .ifun _ _ _ _ _ _ _ p fr => Value.noTie p && Value.noTieL fr
  | _ => true
def Value.noTieL : List Value → Bool
  | [] => true
  | v :: r => Value.noTie v && Value.noTieL r
def Value.noTieKV : List (Value × Value) → Bool
  | [] => true
  | (k, v) :: r => Value.noTie k && Value.noTie v && Value.noTieKV r
end

/-- map keys denote values without integer-valued floats (inside map keys Erlang orders an integer before the float of
equal value, the library does not: recorded finding; a float with a fractional part ties with no integer) -/
def keysExact (kvs : List (Term × Term)) : Bool := kvs.all fun p => Value.noTie (den p.1)

mutual
/-- the guard of the agreement theorem: big integers minimal, floats finite, atom texts valid UTF-8 (a type invariant
of `Atom`), bit-strings as the decoder produces them, map keys float-free -/
def WFe : Term → Bool
  | .atom n => validUtf8 n
  | .int _ => true
  | .float b => finiteBits b
  | .pid p => validUtf8 p.node
  | .port n _ _ _ => validUtf8 n
  | .ref n _ _ _ => validUtf8 n
  | .bin _ => true
  | .bits b n => bitsOk b n
  | .str _ => true
  | .list l => WFeL l
  | .ilist l t => WFeL l && WFe t
  | .map kvs => WFeKV kvs && keysExact kvs
  | .tuple l => WFeL l
  | .big _ d => minDigits d
  | .xfun m f _ => validUtf8 m && validUtf8 f
  | .ifun _ _ _ _ m _ _ p fr => validUtf8 m && validUtf8 p.node && WFeL fr
  | .nil => true
def WFeL : List Term → Bool
  | [] => true
  | t :: ts => WFe t && WFeL ts
def WFeKV : List (Term × Term) → Bool
  | [] => true
  | (k, v) :: r => WFe k && WFe v && WFeKV r
end

theorem WFeL_append : ∀ (a b : List Term), WFeL (a ++ b) = (WFeL a && WFeL b)
  | [], b => by simp [WFeL]
  | x :: a, b => by simp [WFeL, WFeL_append a b, Bool.and_assoc]

theorem WFeL_mem : ∀ {l : List Term} {x : Term}, WFeL l → x ∈ l → WFe x
  | y :: l, x, h, hx => by
    simp only [WFeL, Bool.and_eq_true] at h
    rcases List.mem_cons.mp hx with rfl | hx
    · exact h.1
    · exact WFeL_mem h.2 hx

theorem WFeKV_mem : ∀ {l : List (Term × Term)} {x : Term × Term}, WFeKV l → x ∈ l → WFe x.1 ∧ WFe x.2
  | (k, v) :: l, x, h, hx => by
    simp only [WFeKV, Bool.and_eq_true] at h
    rcases List.mem_cons.mp hx with rfl | hx
    · exact ⟨h.1.1, h.1.2⟩
    · exact WFeKV_mem h.2 hx

theorem WFe_mkList (l : List Term) (h : WFeL l) : WFe (mkList l) := by
  cases l <;> simp [mkList, WFe] ; exact h

theorem WFe_mkIlist (l : List Term) (t : Term) (h : WFeL l) (h2 : WFe t) : WFe (mkIlist l t) := by
  cases l with
  | nil => simpa [mkIlist] using h2
  | cons x l =>
    cases t <;> simp only [mkIlist, WFe, Bool.and_eq_true, WFeL_append] <;> simp only [WFe, Bool.and_eq_true] at h2 <;>
      first
      | exact h
      | exact ⟨h, h2⟩
      | exact ⟨⟨h, h2.1⟩, h2.2⟩

theorem keysExact_normKV : ∀ (l : List (Term × Term)), keysExact (normKV l) = keysExact l
  | [] => by simp [normKV]
  | (k, v) :: r => by
    have := keysExact_normKV r
    simp only [keysExact, normKV, List.all_cons, den_norm] at this ⊢
    rw [this]

mutual
theorem WFe_norm : ∀ (t : Term), WFe t → WFe (norm t)
  | .atom _, h | .int _, h | .float _, h | .pid _, h | .port _ _ _ _, h | .ref _ _ _ _, h | .bin _, h
  | .bits _ _, h | .str _, h | .xfun _ _ _, h | .nil, h | .big _ _, h => by simpa [norm] using h
  | .tuple l, h => by simpa [norm, WFe] using WFeL_normL l (by simpa [WFe] using h)
  | .map kvs, h => by
    simp only [WFe, Bool.and_eq_true] at h
    simp [norm, WFe, WFeKV_normKV kvs h.1, keysExact_normKV, h.2]
  | .ifun _ _ _ _ _ _ _ _ fr, h => by
    simp only [WFe, Bool.and_eq_true] at h
    simp [norm, WFe, h.1.1, h.1.2, WFeL_normL fr h.2]
  | .list l, h => by rw [norm_list]; exact WFe_mkList _ (WFeL_normL l (by simpa [WFe] using h))
  | .ilist l t, h => by
    simp only [WFe, Bool.and_eq_true] at h
    rw [norm_ilist]; exact WFe_mkIlist _ _ (WFeL_normL l h.1) (WFe_norm t h.2)
theorem WFeL_normL : ∀ (l : List Term), WFeL l → WFeL (normL l)
  | [], _ => by simp [normL, WFeL]
  | t :: ts, h => by
    simp only [WFeL, Bool.and_eq_true] at h
    simp [normL, WFeL, WFe_norm t h.1, WFeL_normL ts h.2]
theorem WFeKV_normKV : ∀ (l : List (Term × Term)), WFeKV l → WFeKV (normKV l)
  | [], _ => by simp [normKV, WFeKV]
  | (k, v) :: r, h => by
    simp only [WFeKV, Bool.and_eq_true] at h
    simp [normKV, WFeKV, WFe_norm k h.1.1, WFe_norm v h.1.2, WFeKV_normKV r h.2]
end

mutual
theorem WFo_of_WFe : ∀ (t : Term), WFe t → WFo t
  | .atom _, _ | .int _, _ | .float _, _ | .pid _, _ | .port _ _ _ _, _ | .ref _ _ _ _, _ | .bin _, _
  | .bits _ _, _ | .str _, _ | .xfun _ _ _, _ | .nil, _ => by simp [WFo]
  | .big _ _, h => by simpa [WFo, WFe] using h
  | .tuple l, h => by simpa [WFo] using WFoL_of_WFeL l (by simpa [WFe] using h)
  | .map kvs, h => by
    simp only [WFe, Bool.and_eq_true] at h
    simpa [WFo] using WFoKV_of_WFeKV kvs h.1
  | .ifun _ _ _ _ _ _ _ _ fr, h => by
    simp only [WFe, Bool.and_eq_true] at h
    simpa [WFo] using WFoL_of_WFeL fr h.2
  | .list l, h => by simpa [WFo] using WFoL_of_WFeL l (by simpa [WFe] using h)
  | .ilist l t, h => by
    simp only [WFe, Bool.and_eq_true] at h
    simp [WFo, WFoL_of_WFeL l h.1, WFo_of_WFe t h.2]
theorem WFoL_of_WFeL : ∀ (l : List Term), WFeL l → WFoL l
  | [], _ => by simp [WFoL]
  | t :: ts, h => by
    simp only [WFeL, Bool.and_eq_true] at h
    simp [WFoL, WFo_of_WFe t h.1, WFoL_of_WFeL ts h.2]
theorem WFoKV_of_WFeKV : ∀ (l : List (Term × Term)), WFeKV l → WFoKV l
  | [], _ => by simp [WFoKV]
  | (k, v) :: r, h => by
    simp only [WFeKV, Bool.and_eq_true] at h
    simp [WFoKV, WFo_of_WFe k h.1.1, WFo_of_WFe v h.1.2, WFoKV_of_WFeKV r h.2]
end


/-! ### on values without integer-valued floats the exact (map key) order is the general order -/

theorem vnoTieL_mem : ∀ {l : List Value} {x : Value}, Value.noTieL l → x ∈ l → Value.noTie x
  | y :: l, x, h, hx => by
    simp only [Value.noTieL, Bool.and_eq_true] at h
    rcases List.mem_cons.mp hx with rfl | hx
    · exact h.1
    · exact vnoTieL_mem h.2 hx

theorem exact_zip (e : Bool) : ∀ (xs ys : List Value) (b ao bo : Ordering),
    (∀ x ∈ xs, ∀ y ∈ ys, Erl.cmpX true x y = Erl.cmpX e x y) →
    Erl.cmpZip true xs ys b ao bo = Erl.cmpZip e xs ys b ao bo
  | [], [], _, _, _, _ => by simp [Erl.cmpZip]
  | [], _ :: _, _, _, _, _ => by simp [Erl.cmpZip]
  | _ :: _, [], _, _, _, _ => by simp [Erl.cmpZip]
  | x :: xs, y :: ys, b, ao, bo, ih => by
    simp only [Erl.cmpZip]
    rw [ih x (by simp) y (by simp), exact_zip e xs ys b ao bo (fun x hx y hy =>
      ih x (List.mem_cons_of_mem _ hx) y (List.mem_cons_of_mem _ hy))]

theorem exact_vals (e : Bool) : ∀ (xs ys : List (Value × Value)),
    (∀ x ∈ xs, ∀ y ∈ ys, Erl.cmpX true x.2 y.2 = Erl.cmpX e x.2 y.2) →
    Erl.cmpVals true xs ys = Erl.cmpVals e xs ys
  | [], _, _ => by simp [Erl.cmpVals]
  | _ :: _, [], _ => by simp [Erl.cmpVals]
  | (k, v) :: xs, (k2, v2) :: ys, ih => by
    simp only [Erl.cmpVals]
    rw [ih (k, v) (by simp) (k2, v2) (by simp), exact_vals e xs ys (fun x hx y hy =>
      ih x (List.mem_cons_of_mem _ hx) y (List.mem_cons_of_mem _ hy))]

theorem vnoTieKV_mem : ∀ {l : List (Value × Value)} {x : Value × Value}, Value.noTieKV l → x ∈ l →
    Value.noTie x.1 ∧ Value.noTie x.2
  | (k, v) :: l, x, h, hx => by
    simp only [Value.noTieKV, Bool.and_eq_true] at h
    rcases List.mem_cons.mp hx with rfl | hx
    · exact ⟨h.1.1, h.1.2⟩
    · exact vnoTieKV_mem h.2 hx

theorem exact_step (u : Value)
    (ih : ∀ u', sizeOf u' < sizeOf u → ∀ v', Value.noTie u' → Value.noTie v' → Erl.cmpX true u' v' = Erl.cmpX false u' v')
    (v : Value) (hu : Value.noTie u) (hv : Value.noTie v) : Erl.cmpX true u v = Erl.cmpX false u v := by
  cases u <;> cases v <;> simp only [Value.noTie, Bool.and_eq_true] at hu hv <;>
    (try simp only [Erl.cmpX, Erl.rank, ne_eq, not_true_eq_false, if_false])
  case int.float x b => exact thenO_ne_eq _ _ _ (cmpNum_int_frac x b hv).1
  case float.int b x => exact thenO_ne_eq _ _ _ (cmpNum_int_frac x b hu).2
  case tuple.tuple x y =>
    rw [exact_zip false x y _ _ _ (fun a ha b hb => ih a (by
      have := List.sizeOf_lt_of_mem ha; simp only [Value.tuple.sizeOf_spec]; omega) b (vnoTieL_mem hu ha) (vnoTieL_mem hv hb))]
  case cons.cons x t y t2 =>
    rw [ih t (by simp only [Value.cons.sizeOf_spec]; omega) t2 hu.2 hv.2,
      exact_zip false x y _ _ _ (fun a ha b hb => ih a (by
        have := List.sizeOf_lt_of_mem ha; simp only [Value.cons.sizeOf_spec]; omega) b (vnoTieL_mem hu.1 ha) (vnoTieL_mem hv.1 hb))]
  case map.map x y =>
    rw [exact_vals false x y (fun a ha b hb => ih a.2 (by
      have := List.sizeOf_lt_of_mem ha
      obtain ⟨k, w⟩ := a
      simp only [Value.map.sizeOf_spec, Prod.mk.sizeOf_spec] at this ⊢; omega) b.2
      (vnoTieKV_mem hu ha).2 (vnoTieKV_mem hv hb).2)]
  case ifun.ifun a1 u1 i1 n1 m1 oi1 ou1 p1 fr1 a2 u2 i2 n2 m2 oi2 ou2 p2 fr2 =>
    rw [ih p1 (by simp only [Value.ifun.sizeOf_spec]; omega) p2 hu.1 hv.1,
      exact_zip false fr1 fr2 _ _ _ (fun a ha b hb => ih a (by
        have := List.sizeOf_lt_of_mem ha; simp only [Value.ifun.sizeOf_spec]; omega) b (vnoTieL_mem hu.2 ha) (vnoTieL_mem hv.2 hb))]

theorem exact_irrelevant (u v : Value) (hu : Value.noTie u) (hv : Value.noTie v) :
    Erl.cmpX true u v = Erl.cmpX false u v := exact_step u (fun u' _ v' => exact_irrelevant u' v') v hu hv
termination_by sizeOf u


/-! ### ranks of denotations -/

theorem mkBits_shape (b : Bytes) (n : Nat) : ∃ b' n', Value.mkBits b n = .bitstr b' n' := by
  unfold Value.mkBits; split
  · exact ⟨_, _, rfl⟩
  · exact ⟨_, _, rfl⟩

/-- Erlang rank of the denotation of a term that is not a list -/
theorem erank_nonlist (x : Term) (h : rank x ≠ 8) :
    Erl.rank (den x) = if rank x = 9 then 10 else rank x := by
  cases x <;> simp [rank] at h <;> simp only [den, rank] <;> (try rfl)
  all_goals (obtain ⟨b', n', e⟩ := mkBits_shape _ _; rw [e]; rfl)

theorem den_not_cons (x : Term) (h : rank x ≠ 8) (a : List Value) (b : Value) : den x ≠ .cons a b := by
  intro e
  have := erank_nonlist x h
  rw [e] at this
  simp only [Erl.rank] at this
  split at this <;> omega

theorem vmkList_cons (es : List Value) (t : Value) (hes : es ≠ []) (ht : ∀ a b, t ≠ .cons a b) :
    Value.mkList es t = .cons es t := by
  cases es with
  | nil => exact absurd rfl hes
  | cons x es => cases t <;> simp [Value.mkList] ; exact absurd rfl (ht _ _)

theorem denL_ne_nil {l : List Term} (h : l ≠ []) : denL l ≠ [] := by
  cases l with
  | nil => exact absurd rfl h
  | cons x l => simp [denL]

/-- tail of a normal list-like term as a value -/
def tailDen : Option Term → Value
  | none => .nil
  | some t => den t

/-- the denotation of a normal list-like term: nil, or cons cells ending in the denotation of the tail -/
theorem den_cells {a : Term} (ha : rank a = 8) (na : NF a) :
    ((cells a).1 = [] ∧ a = .nil) ∨ ((cells a).1 ≠ [] ∧ den a = .cons (denL (cells a).1) (tailDen (cells a).2)) := by
  rcases rank_eq_8 ha with rfl | ⟨x, rfl⟩ | ⟨x, t, rfl⟩
  · exact .inl ⟨rfl, rfl⟩
  · simp only [NF, Bool.and_eq_true, Bool.not_eq_true', List.isEmpty_eq_false_iff] at na
    refine .inr ⟨na.1, ?_⟩
    simp only [den, cells, tailDen]
    exact vmkList_cons _ _ (denL_ne_nil na.1) (by intro a b h; cases h)
  · obtain ⟨_, ok, _⟩ := cells_NF ha na
    simp only [NF, Bool.and_eq_true, Bool.not_eq_true', List.isEmpty_eq_false_iff] at na
    refine .inr ⟨na.1.1.1, ?_⟩
    simp only [den, cells, tailDen]
    exact vmkList_cons _ _ (denL_ne_nil na.1.1.1) (den_not_cons t ok)

theorem erank_spec (x : Term) (nx : NF x) :
    (rank x ≤ 7 → Erl.rank (den x) = rank x) ∧ (rank x = 8 → (Erl.rank (den x) = 8 ∨ Erl.rank (den x) = 9)) ∧
      (rank x = 9 → Erl.rank (den x) = 10) := by
  refine ⟨fun h => ?_, fun h => ?_, fun h => ?_⟩
  · rw [erank_nonlist x (by omega), if_neg (by omega)]
  · rcases den_cells h nx with ⟨_, rfl⟩ | ⟨_, e⟩
    · exact .inl rfl
    · exact .inr (by rw [e]; rfl)
  · rw [erank_nonlist x (by omega), if_pos h]

theorem cmpX_of_rank_ne (e : Bool) (u v : Value) (h : Erl.rank u ≠ Erl.rank v) :
    Erl.cmpX e u v = compare (Erl.rank u) (Erl.rank v) := by
  cases u <;> cases v <;> simp [Erl.rank] at h <;> simp [Erl.cmpX, Erl.rank]

/-- different ranks: both sides compare the ranks, and `den` is monotone on ranks -/
theorem agree_rank_ne (x y : Term) (nx : NF x) (ny : NF y) (h : rank x ≠ rank y) :
    cmpN x y = Erl.cmpX false (den x) (den y) := by
  obtain ⟨x1, x2, x3⟩ := erank_spec x nx
  obtain ⟨y1, y2, y3⟩ := erank_spec y ny
  have bx := rank_le_9 x
  have by' := rank_le_9 y
  rw [cmpN_of_rank_ne x y h]
  rcases Nat.lt_or_gt_of_ne h with hl | hl
  · have : Erl.rank (den x) < Erl.rank (den y) := by
      rcases Nat.lt_or_ge (rank x) 8 with a | a
      · have := x1 (by omega)
        rcases Nat.lt_or_ge (rank y) 8 with b | b
        · have := y1 (by omega); omega
        · rcases Nat.lt_or_ge (rank y) 9 with c | c
          · have := y2 (by omega); omega
          · have := y3 (by omega); omega
      · have := x2 (by omega); have := y3 (by omega); omega
    rw [cmpX_of_rank_ne _ _ _ (by omega), Nat.compare_eq_lt.mpr hl, Nat.compare_eq_lt.mpr this]
  · have : Erl.rank (den y) < Erl.rank (den x) := by
      rcases Nat.lt_or_ge (rank y) 8 with a | a
      · have := y1 (by omega)
        rcases Nat.lt_or_ge (rank x) 8 with b | b
        · have := x1 (by omega); omega
        · rcases Nat.lt_or_ge (rank x) 9 with c | c
          · have := x2 (by omega); omega
          · have := x3 (by omega); omega
      · have := y2 (by omega); have := x3 (by omega); omega
    rw [cmpX_of_rank_ne _ _ _ (by omega), Nat.compare_eq_gt.mpr hl, Nat.compare_eq_gt.mpr this]


/-! ### element-wise agreement lifts to lists, keys and values -/

theorem zip_agree (e : Bool) : ∀ (xs ys : List Term) (both ao bo : Ordering),
    (∀ x ∈ xs, ∀ y ∈ ys, cmpN x y = Erl.cmpX e (den x) (den y)) →
    cmpZip xs ys both ao bo = Erl.cmpZip e (denL xs) (denL ys) both ao bo
  | [], [], _, _, _, _ => by simp [cmpZip, denL, Erl.cmpZip]
  | [], _ :: _, _, _, _, _ => by simp [cmpZip, denL, Erl.cmpZip]
  | _ :: _, [], _, _, _, _ => by simp [cmpZip, denL, Erl.cmpZip]
  | x :: xs, y :: ys, both, ao, bo, ih => by
    simp only [cmpZip, denL, Erl.cmpZip, thenO, erl_thenO]
    rw [ih x (by simp) y (by simp), zip_agree e xs ys both ao bo (fun x hx y hy =>
      ih x (List.mem_cons_of_mem _ hx) y (List.mem_cons_of_mem _ hy))]

theorem keys_agree : ∀ (xs ys : List (Term × Term)),
    (∀ x ∈ xs, ∀ y ∈ ys, cmpN x.1 y.1 = Erl.cmpX true (den x.1) (den y.1)) →
    cmpKeys xs ys = Erl.cmpKeys (denKV xs) (denKV ys)
  | [], _, _ => by simp [cmpKeys, denKV, Erl.cmpKeys]
  | _ :: _, [], _ => by simp [cmpKeys, denKV, Erl.cmpKeys]
  | (k, v) :: xs, (k2, v2) :: ys, ih => by
    simp only [cmpKeys, denKV, Erl.cmpKeys, thenO, erl_thenO]
    rw [ih (k, v) (by simp) (k2, v2) (by simp), keys_agree xs ys (fun x hx y hy =>
      ih x (List.mem_cons_of_mem _ hx) y (List.mem_cons_of_mem _ hy))]

theorem vals_agree (e : Bool) : ∀ (xs ys : List (Term × Term)),
    (∀ x ∈ xs, ∀ y ∈ ys, cmpN x.2 y.2 = Erl.cmpX e (den x.2) (den y.2)) →
    cmpVals xs ys = Erl.cmpVals e (denKV xs) (denKV ys)
  | [], _, _ => by simp [cmpVals, denKV, Erl.cmpVals]
  | _ :: _, [], _ => by simp [cmpVals, denKV, Erl.cmpVals]
  | (k, v) :: xs, (k2, v2) :: ys, ih => by
    simp only [cmpVals, denKV, Erl.cmpVals, thenO, erl_thenO]
    rw [ih (k, v) (by simp) (k2, v2) (by simp), vals_agree e xs ys (fun x hx y hy =>
      ih x (List.mem_cons_of_mem _ hx) y (List.mem_cons_of_mem _ hy))]

theorem denL_length : ∀ (l : List Term), (denL l).length = l.length
  | [] => rfl
  | _ :: l => by simp [denL, denL_length l]
theorem denKV_length : ∀ (l : List (Term × Term)), (denKV l).length = l.length
  | [] => rfl
  | (_, _) :: l => by simp [denKV, denKV_length l]

/-- agreement at a first term `x`, against all normal well-formed second terms -/
def AgAt (x : Term) : Prop := ∀ y, NF x → NF y → WFe x → WFe y → cmpN x y = Erl.cmpX false (den x) (den y)

theorem cps_agree (a b : Bytes) (ha : validUtf8 a) (hb : validUtf8 b) :
    Erl.natsCmp (cps a) (cps b) = bytesCmp a b := (bytesCmp_cps a b ha hb).symm

theorem ag_r0 (x y : Term) (hx : rank x = 0) (hy : rank y = 0) (nx : NF x) (ny : NF y) (wx : WFe x) (wy : WFe y) :
    cmpN x y = Erl.cmpX false (den x) (den y) := by
  have fin : ∀ t, WFe t → numFin t := by
    intro t h; cases t <;> simp [numFin] ; simpa [WFe] using h
  exact agree_num x y (isNum_of_rank hx) (isNum_of_rank hy) (numOk_of_NF nx) (numOk_of_NF ny) (fin x wx) (fin y wy)

theorem ag_r1 (x y : Term) (hx : rank x = 1) (hy : rank y = 1) (wx : WFe x) (wy : WFe y) :
    cmpN x y = Erl.cmpX false (den x) (den y) := by
  obtain ⟨a, rfl⟩ := rank_eq_1 hx; obtain ⟨b, rfl⟩ := rank_eq_1 hy
  simp only [WFe] at wx wy
  simp only [cmpN, rank, ne_eq, not_true_eq_false, if_false, den, Erl.cmpX, Erl.rank, cps_agree a b wx wy]

theorem ag_r2 (x y : Term) (hx : rank x = 2) (hy : rank y = 2) (wx : WFe x) (wy : WFe y) :
    cmpN x y = Erl.cmpX false (den x) (den y) := by
  obtain ⟨n, c, i, l, rfl⟩ := rank_eq_2 hx; obtain ⟨n2, c2, i2, l2, rfl⟩ := rank_eq_2 hy
  simp only [WFe] at wx wy
  simp only [cmpN, rank, ne_eq, not_true_eq_false, if_false, den, Erl.cmpX, Erl.rank, cps_agree n n2 wx wy,
    thenO, erl_thenO, natsCmp_eq_lexCmp]

theorem ag_r4 (x y : Term) (hx : rank x = 4) (hy : rank y = 4) (wx : WFe x) (wy : WFe y) :
    cmpN x y = Erl.cmpX false (den x) (den y) := by
  obtain ⟨n, c, i, l, rfl⟩ := rank_eq_4 hx; obtain ⟨n2, c2, i2, l2, rfl⟩ := rank_eq_4 hy
  simp only [WFe] at wx wy
  simp only [cmpN, rank, ne_eq, not_true_eq_false, if_false, den, Erl.cmpX, Erl.rank, cps_agree n n2 wx wy,
    thenO, erl_thenO]

theorem pid_agree (e : Bool) (p q : PidF) (hp : validUtf8 p.node) (hq : validUtf8 q.node) :
    Erl.cmpX e (.pid (cps p.node) p.id p.serial p.creation) (.pid (cps q.node) q.id q.serial q.creation) = pidCmp p q := by
  simp only [Erl.cmpX, Erl.rank, ne_eq, not_true_eq_false, if_false, cps_agree _ _ hp hq, pidCmp, thenO, erl_thenO]

theorem ag_r5 (x y : Term) (hx : rank x = 5) (hy : rank y = 5) (wx : WFe x) (wy : WFe y) :
    cmpN x y = Erl.cmpX false (den x) (den y) := by
  obtain ⟨p, rfl⟩ := rank_eq_5 hx; obtain ⟨q, rfl⟩ := rank_eq_5 hy
  simp only [WFe] at wx wy
  simp only [cmpN, rank, ne_eq, not_true_eq_false, if_false, den, pid_agree false p q wx wy]

theorem ag_r3 (x y : Term) (hx : rank x = 3) (hy : rank y = 3) (nx : NF x) (ny : NF y) (wx : WFe x) (wy : WFe y)
    (ih : ∀ x', sizeOf x' < sizeOf x → AgAt x') : cmpN x y = Erl.cmpX false (den x) (den y) := by
  rcases rank_eq_3 hx with ⟨m, f, a, rfl⟩ | ⟨a, u, i, nf, m, oi, ou, p, fr, rfl⟩ <;>
  rcases rank_eq_3 hy with ⟨m2, f2, a2, rfl⟩ | ⟨a2, u2, i2, nf2, m2, oi2, ou2, p2, fr2, rfl⟩
  · simp only [WFe, Bool.and_eq_true] at wx wy
    simp only [cmpN, rank, ne_eq, not_true_eq_false, if_false, den, Erl.cmpX, Erl.rank, cps_agree _ _ wx.1 wy.1,
      cps_agree _ _ wx.2 wy.2, thenO, erl_thenO]
  · simp only [cmpN, rank, ne_eq, not_true_eq_false, if_false, den, Erl.cmpX, Erl.rank]
  · simp only [cmpN, rank, ne_eq, not_true_eq_false, if_false, den, Erl.cmpX, Erl.rank]
  · simp only [WFe, Bool.and_eq_true] at wx wy
    simp only [NF] at nx ny
    have hz := zip_agree false fr fr2 .eq .lt .gt (fun a ha b hb =>
      ih a (by have := List.sizeOf_lt_of_mem ha; simp only [Term.ifun.sizeOf_spec]; omega) b
        (NFL_mem nx ha) (NFL_mem ny hb) (WFeL_mem wx.2 ha) (WFeL_mem wy.2 hb))
    simp only [cmpN, rank, ne_eq, not_true_eq_false, if_false, den, Erl.cmpX, Erl.rank, cps_agree _ _ wx.1.1 wy.1.1,
      thenO, erl_thenO, natsCmp_eq_lexCmp, hz]
    have hp := pid_agree false p p2 wx.1.2 wy.1.2
    simp only [Erl.cmpX, Erl.rank, ne_eq, not_true_eq_false, if_false, erl_thenO, natsCmp_eq_lexCmp] at hp
    rw [hp]; rfl


theorem ag_r6 (x y : Term) (hx : rank x = 6) (hy : rank y = 6) (nx : NF x) (ny : NF y) (wx : WFe x) (wy : WFe y)
    (ih : ∀ x', sizeOf x' < sizeOf x → AgAt x') : cmpN x y = Erl.cmpX false (den x) (den y) := by
  obtain ⟨a, rfl⟩ := rank_eq_6 hx; obtain ⟨b, rfl⟩ := rank_eq_6 hy
  simp only [WFe] at wx wy
  simp only [NF] at nx ny
  have hz := zip_agree false a b .eq .eq .eq (fun u hu v hv =>
    ih u (by have := List.sizeOf_lt_of_mem hu; simp only [Term.tuple.sizeOf_spec]; omega) v
      (NFL_mem nx hu) (NFL_mem ny hv) (WFeL_mem wx hu) (WFeL_mem wy hv))
  simp only [cmpN, rank, ne_eq, not_true_eq_false, if_false, den, Erl.cmpX, Erl.rank, thenO, erl_thenO, hz,
    denL_length]

theorem keysExact_mem {l : List (Term × Term)} {p : Term × Term} (h : keysExact l) (hp : p ∈ l) :
    Value.noTie (den p.1) := by
  simp only [keysExact, List.all_eq_true] at h
  exact h p hp

theorem ag_r7 (x y : Term) (hx : rank x = 7) (hy : rank y = 7) (nx : NF x) (ny : NF y) (wx : WFe x) (wy : WFe y)
    (ih : ∀ x', sizeOf x' < sizeOf x → AgAt x') : cmpN x y = Erl.cmpX false (den x) (den y) := by
  obtain ⟨a, rfl⟩ := rank_eq_7 hx; obtain ⟨b, rfl⟩ := rank_eq_7 hy
  simp only [WFe, Bool.and_eq_true] at wx wy
  simp only [NF] at nx ny
  have sz : ∀ p ∈ a, sizeOf p.1 < sizeOf (Term.map a) ∧ sizeOf p.2 < sizeOf (Term.map a) := by
    intro p mp
    have := List.sizeOf_lt_of_mem mp
    obtain ⟨k, v⟩ := p
    simp only [Term.map.sizeOf_spec, Prod.mk.sizeOf_spec] at this ⊢; omega
  have hk := keys_agree a b (fun p hp q hq => by
    rw [exact_irrelevant _ _ (keysExact_mem wx.2 hp) (keysExact_mem wy.2 hq)]
    exact ih p.1 (sz p hp).1 q.1 (NFKV_mem nx hp).1 (NFKV_mem ny hq).1 (WFeKV_mem wx.1 hp).1 (WFeKV_mem wy.1 hq).1)
  have hv := vals_agree false a b (fun p hp q hq =>
    ih p.2 (sz p hp).2 q.2 (NFKV_mem nx hp).2 (NFKV_mem ny hq).2 (WFeKV_mem wx.1 hp).2 (WFeKV_mem wy.1 hq).2)
  simp only [cmpN, rank, ne_eq, not_true_eq_false, if_false, den, Erl.cmpX, Erl.rank, thenO, erl_thenO, hk, hv,
    denKV_length]

theorem cells_WFe {a : Term} (ha : rank a = 8) (wa : WFe a) :
    WFeL (cells a).1 ∧ (∀ t, (cells a).2 = some t → WFe t) := by
  rcases rank_eq_8 ha with rfl | ⟨x, rfl⟩ | ⟨x, t, rfl⟩
  · simp [cells, WFeL]
  · simp only [WFe] at wa; simp [cells, wa]
  · simp only [WFe, Bool.and_eq_true] at wa
    refine ⟨wa.1, ?_⟩
    intro t' ht; simp only [cells, Option.some.injEq] at ht; subst ht; exact wa.2

theorem erank_tail (t : Option Term) (ok : tailOk t) :
    Erl.rank (tailDen t) ≠ 9 ∧ aOutOf t = compare (Erl.rank (tailDen t)) 9 ∧ bOutOf t = compare 9 (Erl.rank (tailDen t)) := by
  cases t with
  | none => simp [tailDen, Erl.rank, aOutOf, bOutOf]; decide
  | some t =>
    simp only [tailOk] at ok
    have := erank_nonlist t ok
    have hb := rank_le_9 t
    simp only [tailDen, aOutOf, bOutOf, listRank]
    rw [this]
    by_cases h9 : rank t = 9
    · simp [h9]; decide
    · rw [if_neg h9]
      refine ⟨by omega, ?_, ?_⟩
      · rcases Nat.lt_or_gt_of_ne ok with h | h
        · rw [Nat.compare_eq_lt.mpr h, Nat.compare_eq_lt.mpr (by omega)]
        · omega
      · rcases Nat.lt_or_gt_of_ne ok with h | h
        · rw [Nat.compare_eq_gt.mpr h, Nat.compare_eq_gt.mpr (by omega)]
        · omega

theorem tail_agree (tx ty : Option Term) (ox : tailOk tx) (oy : tailOk ty)
    (h : ∀ t u, tx = some t → ty = some u → cmpN t u = Erl.cmpX false (den t) (den u)) :
    cmpTail tx ty = Erl.cmpX false (tailDen tx) (tailDen ty) := by
  cases tx with
  | none =>
    cases ty with
    | none => simp [cmpTail, tailDen, Erl.cmpX, Erl.rank]
    | some u =>
      simp only [tailOk] at oy
      have e := erank_nonlist u oy
      have hb := rank_le_9 u
      simp only [cmpTail, tailDen, listRank]
      rw [cmpX_of_rank_ne _ _ _ (by rw [e]; simp only [Erl.rank]; split <;> omega), e]
      simp only [Erl.rank]
      rcases Nat.lt_or_gt_of_ne oy with h1 | h1
      · rw [Nat.compare_eq_gt.mpr h1, if_neg (by omega), Nat.compare_eq_gt.mpr h1]
      · have : rank u = 9 := by omega
        rw [Nat.compare_eq_lt.mpr h1, if_pos this, Nat.compare_eq_lt.mpr (by omega)]
  | some t =>
    simp only [tailOk] at ox
    have e := erank_nonlist t ox
    have hb := rank_le_9 t
    cases ty with
    | none =>
      simp only [cmpTail, tailDen, listRank]
      rw [cmpX_of_rank_ne _ _ _ (by rw [e]; simp only [Erl.rank]; split <;> omega), e]
      simp only [Erl.rank]
      rcases Nat.lt_or_gt_of_ne ox with h1 | h1
      · rw [Nat.compare_eq_lt.mpr h1, if_neg (by omega), Nat.compare_eq_lt.mpr h1]
      · have : rank t = 9 := by omega
        rw [Nat.compare_eq_gt.mpr h1, if_pos this, Nat.compare_eq_gt.mpr (by omega)]
    | some u => exact h t u rfl rfl

theorem ag_r8 (x y : Term) (hx : rank x = 8) (hy : rank y = 8) (nx : NF x) (ny : NF y) (wx : WFe x) (wy : WFe y)
    (ih : ∀ x', sizeOf x' < sizeOf x → AgAt x') : cmpN x y = Erl.cmpX false (den x) (den y) := by
  obtain ⟨ea, oa, ta⟩ := cells_NF hx nx
  obtain ⟨eb, ob, tb⟩ := cells_NF hy ny
  obtain ⟨wa, wta⟩ := cells_WFe hx wx
  obtain ⟨wb, wtb⟩ := cells_WFe hy wy
  obtain ⟨s1, s2⟩ := cells_size hx
  rw [cmpN_cells x y hx hy]
  rcases den_cells hx nx with ⟨cx, rfl⟩ | ⟨cx, dx⟩ <;> rcases den_cells hy ny with ⟨cy, rfl⟩ | ⟨cy, dy⟩
  · simp [cells, cmpZip, cmpTail, den, Erl.cmpX, Erl.rank]
  · rw [dy]
    obtain ⟨b0, bs, hb⟩ := List.exists_cons_of_ne_nil cy
    rw [hb]
    simp [cells, cmpZip, aOutOf, den, Erl.cmpX, Erl.rank]; decide
  · rw [dx]
    obtain ⟨a0, as, ha⟩ := List.exists_cons_of_ne_nil cx
    rw [ha]
    simp [cells, cmpZip, bOutOf, den, Erl.cmpX, Erl.rank]; decide
  · rw [dx, dy]
    simp only [Erl.cmpX, Erl.rank, ne_eq, not_true_eq_false, if_false]
    obtain ⟨_, a1, _⟩ := erank_tail (cells x).2 oa
    obtain ⟨_, _, b2⟩ := erank_tail (cells y).2 ob
    rw [a1, b2, tail_agree _ _ oa ob (fun t u h1 h2 => ih t (s2 t h1) u (ta t h1) (tb u h2) (wta t h1) (wtb u h2))]
    exact zip_agree false _ _ _ _ _ (fun u hu v hv =>
      ih u (s1 u hu) v (NFL_mem ea hu) (NFL_mem eb hv) (WFeL_mem wa hu) (WFeL_mem wb hv))

theorem bp_facts {a : Term} (ha : rank a = 9) (wa : WFe a) :
    den a = Value.mkBits (bp a).1 (bp a).2 ∧ bitsOk (bp a).1 (bp a).2 := by
  rcases rank_eq_9 ha with ⟨x, rfl⟩ | ⟨x, n, rfl⟩ | ⟨x, rfl⟩
  · exact ⟨rfl, bitsOk_bytes x⟩
  · exact ⟨rfl, by simp only [WFe] at wa; exact wa⟩
  · exact ⟨rfl, bitsOk_bytes x⟩

theorem ag_r9 (x y : Term) (hx : rank x = 9) (hy : rank y = 9) (wx : WFe x) (wy : WFe y) :
    cmpN x y = Erl.cmpX false (den x) (den y) := by
  obtain ⟨dx, ox⟩ := bp_facts hx wx
  obtain ⟨dy, oy⟩ := bp_facts hy wy
  rw [cmpN_bits x y hx hy, dx, dy]
  exact bits_agree false _ _ _ _ ox oy

theorem ag_step (x : Term) (ih : ∀ x', sizeOf x' < sizeOf x → AgAt x') : AgAt x := by
  intro y nx ny wx wy
  by_cases hr : rank x = rank y
  · have := rank_le_9 x
    rcases Nat.lt_or_ge (rank x) 1 with h | h
    · exact ag_r0 x y (by omega) (by omega) nx ny wx wy
    rcases Nat.lt_or_ge (rank x) 2 with h | h
    · exact ag_r1 x y (by omega) (by omega) wx wy
    rcases Nat.lt_or_ge (rank x) 3 with h | h
    · exact ag_r2 x y (by omega) (by omega) wx wy
    rcases Nat.lt_or_ge (rank x) 4 with h | h
    · exact ag_r3 x y (by omega) (by omega) nx ny wx wy ih
    rcases Nat.lt_or_ge (rank x) 5 with h | h
    · exact ag_r4 x y (by omega) (by omega) wx wy
    rcases Nat.lt_or_ge (rank x) 6 with h | h
    · exact ag_r5 x y (by omega) (by omega) wx wy
    rcases Nat.lt_or_ge (rank x) 7 with h | h
    · exact ag_r6 x y (by omega) (by omega) nx ny wx wy ih
    rcases Nat.lt_or_ge (rank x) 8 with h | h
    · exact ag_r7 x y (by omega) (by omega) nx ny wx wy ih
    rcases Nat.lt_or_ge (rank x) 9 with h | h
    · exact ag_r8 x y (by omega) (by omega) nx ny wx wy ih
    · exact ag_r9 x y (by omega) (by omega) wx wy
  · exact agree_rank_ne x y nx ny hr

theorem cmpN_agree (x : Term) : AgAt x := ag_step x (fun x' _ => cmpN_agree x')
termination_by sizeOf x

/-- the model order is Erlang's order of the denotations, compared entry by entry (maps in stored order) -/
theorem cmp_agree_stored (a b : Term) (wa : WFe a) (wb : WFe b) :
    Term.cmp a b = Erl.cmpX false (den a) (den b) := by
  have := cmpN_agree (norm a) (norm b) (NF_norm a (WFo_of_WFe a wa)) (NF_norm b (WFo_of_WFe b wb))
    (WFe_norm a wa) (WFe_norm b wb)
  rwa [den_norm, den_norm] at this


/-! ### maps stored in key order are already in Erlang's key order -/

/-- consecutive keys strictly ascending under `Term.cmp` (the iteration order of a `BTreeMap`) -/
def adjSorted : List (Term × Term) → Bool
  | (k, _) :: (k2, v2) :: r => (Term.cmp k k2 == .lt) && adjSorted ((k2, v2) :: r)
  | _ => true

mutual
/-- every map in the term stores its entries in ascending key order -/
def mapsSorted : Term → Bool
  | .list l => mapsSortedL l
  | .ilist l t => mapsSortedL l && mapsSorted t
  | .map kvs => adjSorted kvs && mapsSortedKV kvs
  | .tuple l => mapsSortedL l
  | .ifun _ _ _ _ _ _ _ _ fr => mapsSortedL fr
  | _ => true
def mapsSortedL : List Term → Bool
  | [] => true
  | t :: ts => mapsSorted t && mapsSortedL ts
def mapsSortedKV : List (Term × Term) → Bool
  | [] => true
  | (k, v) :: r => mapsSorted k && mapsSorted v && mapsSortedKV r
end

def vadj : List (Value × Value) → Prop
  | e :: f :: r => Erl.cmpX true e.1 f.1 ≠ .gt ∧ vadj (f :: r)
  | _ => True

theorem foldr_insertKV : ∀ (l : List (Value × Value)), vadj l → l.foldr Erl.insertKV [] = l
  | [], _ => rfl
  | [e], _ => rfl
  | e :: f :: r, h => by
    simp only [vadj] at h
    rw [List.foldr_cons, foldr_insertKV (f :: r) h.2]
    simp [Erl.insertKV, h.1]

theorem vadj_den : ∀ (kvs : List (Term × Term)), adjSorted kvs → WFeKV kvs → keysExact kvs → vadj (denKV kvs)
  | [], _, _, _ => by simp [denKV, vadj]
  | [(k, v)], _, _, _ => by simp [denKV, vadj]
  | (k, v) :: (k2, v2) :: r, hs, hw, he => by
    simp only [adjSorted, Bool.and_eq_true, beq_iff_eq] at hs
    have hw' := hw
    simp only [WFeKV, Bool.and_eq_true] at hw
    have he' : keysExact ((k2, v2) :: r) := by
      simp only [keysExact, List.all_cons, Bool.and_eq_true] at he ⊢; exact he.2
    have e1 := keysExact_mem he (show (k, v) ∈ (k, v) :: (k2, v2) :: r by simp)
    have e2 := keysExact_mem he (show (k2, v2) ∈ (k, v) :: (k2, v2) :: r by simp)
    have ih := vadj_den ((k2, v2) :: r) hs.2 (by simp only [WFeKV, Bool.and_eq_true]; exact hw.2) he'
    simp only [denKV, vadj] at ih ⊢
    refine ⟨?_, ih⟩
    rw [exact_irrelevant _ _ e1 e2, ← cmp_agree_stored k k2 hw.1.1 hw.2.1.1, hs.1]
    simp

theorem sortMapsL_append : ∀ (a b : List Value), Erl.sortMapsL (a ++ b) = Erl.sortMapsL a ++ Erl.sortMapsL b
  | [], b => by simp [Erl.sortMapsL]
  | x :: a, b => by simp [Erl.sortMapsL, sortMapsL_append a b]

theorem sortMaps_vmkList (es : List Value) (t : Value) (h1 : Erl.sortMapsL es = es) (h2 : Erl.sortMaps t = t) :
    Erl.sortMaps (Value.mkList es t) = Value.mkList es t := by
  cases es with
  | nil => simpa [vmkList_nil] using h2
  | cons x es =>
    cases t <;> simp only [Value.mkList, Erl.sortMaps] at h2 ⊢ <;> (try rw [h1])
    case cons es2 t2 =>
      simp only [Value.cons.injEq] at h2
      rw [sortMapsL_append, h1, h2.1, h2.2]
    all_goals (try rfl)
    all_goals (try (rw [h2]))

mutual
theorem sortMaps_den : ∀ (t : Term), WFe t → mapsSorted t → Erl.sortMaps (den t) = den t
  | .atom _, _, _ | .int _, _, _ | .float _, _, _ | .pid _, _, _ | .port _ _ _ _, _, _ | .ref _ _ _ _, _, _
  | .xfun _ _ _, _, _ | .nil, _, _ | .big _ _, _, _ => by simp [den, Erl.sortMaps]
  | .bin b, _, _ => by obtain ⟨b', n', e⟩ := mkBits_shape b 8; simp [den, e, Erl.sortMaps]
  | .str b, _, _ => by obtain ⟨b', n', e⟩ := mkBits_shape b 8; simp [den, e, Erl.sortMaps]
  | .bits b n, _, _ => by obtain ⟨b', n', e⟩ := mkBits_shape b n; simp [den, e, Erl.sortMaps]
  | .tuple l, hw, hs => by
    simp only [WFe] at hw; simp only [mapsSorted] at hs
    simp [den, Erl.sortMaps, sortMapsL_den l hw hs]
  | .ifun _ _ _ _ _ _ _ _ fr, hw, hs => by
    simp only [WFe, Bool.and_eq_true] at hw; simp only [mapsSorted] at hs
    simp [den, Erl.sortMaps, sortMapsL_den fr hw.2 hs]
  | .list l, hw, hs => by
    simp only [WFe] at hw; simp only [mapsSorted] at hs
    simp only [den]
    exact sortMaps_vmkList _ _ (sortMapsL_den l hw hs) rfl
  | .ilist l t, hw, hs => by
    simp only [WFe, Bool.and_eq_true] at hw; simp only [mapsSorted, Bool.and_eq_true] at hs
    simp only [den]
    exact sortMaps_vmkList _ _ (sortMapsL_den l hw.1 hs.1) (sortMaps_den t hw.2 hs.2)
  | .map kvs, hw, hs => by
    simp only [WFe, Bool.and_eq_true] at hw; simp only [mapsSorted, Bool.and_eq_true] at hs
    simp only [den, Erl.sortMaps]
    rw [sortMapsKV_den kvs hw.1 hs.2, foldr_insertKV _ (vadj_den kvs hs.1 hw.1 hw.2)]
theorem sortMapsL_den : ∀ (l : List Term), WFeL l → mapsSortedL l → Erl.sortMapsL (denL l) = denL l
  | [], _, _ => by simp [denL, Erl.sortMapsL]
  | t :: ts, hw, hs => by
    simp only [WFeL, Bool.and_eq_true] at hw; simp only [mapsSortedL, Bool.and_eq_true] at hs
    simp [denL, Erl.sortMapsL, sortMaps_den t hw.1 hs.1, sortMapsL_den ts hw.2 hs.2]
theorem sortMapsKV_den : ∀ (l : List (Term × Term)), WFeKV l → mapsSortedKV l → Erl.sortMapsKV (denKV l) = denKV l
  | [], _, _ => by simp [denKV, Erl.sortMapsKV]
  | (k, v) :: r, hw, hs => by
    simp only [WFeKV, Bool.and_eq_true] at hw; simp only [mapsSortedKV, Bool.and_eq_true] at hs
    simp [denKV, Erl.sortMapsKV, sortMaps_den k hw.1.1 hs.1.1, sortMaps_den v hw.1.2 hs.1.2, sortMapsKV_den r hw.2 hs.2]
end

namespace Term
/-- C12: the library's order is Erlang's term order on the denoted values -/
theorem cmp_agrees (a b : Term) (wa : WFe a) (wb : WFe b) (sa : mapsSorted a) (sb : mapsSorted b) :
    Term.cmp a b = Erl.cmp (den a) (den b) := by
  unfold Erl.cmp
  rw [sortMaps_den a wa sa, sortMaps_den b wb sb]
  exact cmp_agree_stored a b wa wb
end Term

end Edp
