import EdpVerif.Drv.Common
namespace Edp.Drv

/-- driver requests of property C20 (stub: nothing handled yet) -/
def handleC20 : List String → Option String
  | _ => none

end Edp.Drv
