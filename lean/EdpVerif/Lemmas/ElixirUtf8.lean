import EdpVerif.Impl.Elixir
/-! C20: `String::from_utf8_lossy` is the identity on valid UTF-8 (so every Rust `String` satisfies `IsStr`). -/
namespace Edp.Ex
open Edp

theorem isCont_iff (b : UInt8) : isCont b = true ↔ 128 ≤ b.toNat ∧ b.toNat ≤ 191 := by
  unfold isCont
  have := b.toNat_lt
  simp only [beq_iff_eq]
  omega

theorem lossyGo_valid : ∀ (fuel : Nat) (b : Bytes), b.length ≤ fuel → (utf8Decode b).isSome = true → lossyGo fuel b = b := by
  intro fuel
  induction fuel with
  | zero =>
    intro b hl _
    cases b with
    | nil => rfl
    | cons _ _ => simp at hl
  | succ fuel ih =>
    intro b hl hv
    cases b with
    | nil => rfl
    | cons b0 r =>
      have hb0 := b0.toNat_lt
      simp only [List.length_cons] at hl
      unfold utf8Decode at hv
      simp only [lossyGo]
      by_cases h0 : b0.toNat < 128
      · simp only [h0, if_true, Option.isSome_map] at hv ⊢
        rw [ih r (by omega) hv]
      · simp only [h0, if_false] at hv ⊢
        by_cases h2 : 194 ≤ b0.toNat ∧ b0.toNat ≤ 223
        · simp only [h2, and_self, if_true] at hv
          have hs : seqInfo b0.toNat = some (2, 128, 191) := by simp [seqInfo, h2]
          simp only [hs]
          cases r with
          | nil => simp at hv
          | cons b1 r1 =>
            simp only at hv ⊢
            by_cases c1 : isCont b1 = true
            · simp only [c1, if_true, Option.isSome_map] at hv
              have := (isCont_iff b1).mp c1
              simp only [List.length_cons] at hl
              simp only [this, and_self, not_true_eq_false, if_false, if_true]
              rw [ih r1 (by omega) hv]
            · simp [c1] at hv
        · simp only [h2, if_false] at hv
          by_cases h3 : 224 ≤ b0.toNat ∧ b0.toNat ≤ 239
          · simp only [h3, and_self, if_true] at hv
            cases r with
            | nil => simp at hv
            | cons b1 r1 =>
              cases r1 with
              | nil => simp at hv
              | cons b2 r2 =>
                simp only at hv
                split at hv
                · rename_i hc
                  simp only [Bool.and_eq_true, decide_eq_true_eq, Bool.not_eq_true', Bool.and_eq_false_imp,
                    decide_eq_false_iff_not] at hc
                  obtain ⟨⟨⟨c1, c2⟩, c3⟩, c4⟩ := hc
                  have d1 := (isCont_iff b1).mp c1
                  have d2 := (isCont_iff b2).mp c2
                  simp only [Option.isSome_map] at hv
                  simp only [List.length_cons] at hl
                  have hrec := ih r2 (by omega) hv
                  have hb1 := b1.toNat_lt
                  have hb2 := b2.toNat_lt
                  obtain ⟨len, lo, hi, hs, hlen, hlo, hhi⟩ :
                      ∃ len lo hi, seqInfo b0.toNat = some (len, lo, hi) ∧ len = 3 ∧ lo ≤ b1.toNat ∧ b1.toNat ≤ hi := by
                    unfold seqInfo
                    by_cases e0 : b0.toNat = 224
                    · refine ⟨3, 160, 191, by simp [e0], rfl, ?_, by omega⟩
                      rw [e0] at c3; omega
                    · by_cases e1 : b0.toNat = 237
                      · refine ⟨3, 128, 159, by simp [e1], rfl, by omega, ?_⟩
                        rw [e1] at c3 c4
                        by_cases hh : 55296 ≤ 237 % 16 * 4096 + b1.toNat % 64 * 64 + b2.toNat % 64
                        · have := c4 hh; omega
                        · omega
                      · refine ⟨3, 128, 191, ?_, rfl, by omega, by omega⟩
                        have q1 : ¬ (194 ≤ b0.toNat ∧ b0.toNat ≤ 223) := h2
                        have q2 : (225 ≤ b0.toNat ∧ b0.toNat ≤ 236) ∨ b0.toNat = 238 ∨ b0.toNat = 239 := by omega
                        simp [q1, e0, q2]
                  simp only [hs, hlo, hhi, and_self, not_true_eq_false, if_false, hlen, c2, Bool.not_true, Bool.false_eq_true,
                    if_true]
                  simp only [show ¬ (3 = 2) by omega, if_false, hrec]
                · simp at hv
          · simp only [h3, if_false] at hv
            by_cases h4 : 240 ≤ b0.toNat ∧ b0.toNat ≤ 244
            · simp only [h4, and_self, if_true] at hv
              cases r with
              | nil => simp at hv
              | cons b1 r1 =>
                cases r1 with
                | nil => simp at hv
                | cons b2 r2 =>
                  cases r2 with
                  | nil => simp at hv
                  | cons b3 r3 =>
                    simp only at hv
                    split at hv
                    · rename_i hc
                      simp only [Bool.and_eq_true, decide_eq_true_eq] at hc
                      obtain ⟨⟨⟨⟨c1, c2⟩, c3⟩, c4⟩, c5⟩ := hc
                      have d1 := (isCont_iff b1).mp c1
                      have d2 := (isCont_iff b2).mp c2
                      have d3 := (isCont_iff b3).mp c3
                      simp only [Option.isSome_map] at hv
                      simp only [List.length_cons] at hl
                      have hrec := ih r3 (by omega) hv
                      obtain ⟨len, lo, hi, hs, hlen, hlo, hhi⟩ :
                          ∃ len lo hi, seqInfo b0.toNat = some (len, lo, hi) ∧ len = 4 ∧ lo ≤ b1.toNat ∧ b1.toNat ≤ hi := by
                        unfold seqInfo
                        have q1 : ¬ (194 ≤ b0.toNat ∧ b0.toNat ≤ 223) := h2
                        have q2 : ¬ b0.toNat = 224 := by omega
                        have q3 : ¬ ((225 ≤ b0.toNat ∧ b0.toNat ≤ 236) ∨ b0.toNat = 238 ∨ b0.toNat = 239) := by omega
                        have q4 : ¬ b0.toNat = 237 := by omega
                        by_cases e0 : b0.toNat = 240
                        · refine ⟨4, 144, 191, by simp [e0], rfl, ?_, by omega⟩
                          rw [e0] at c4; omega
                        · by_cases e1 : b0.toNat = 244
                          · refine ⟨4, 128, 143, by simp [e1], rfl, by omega, ?_⟩
                            rw [e1] at c5; omega
                          · refine ⟨4, 128, 191, ?_, rfl, by omega, by omega⟩
                            have q5 : 241 ≤ b0.toNat ∧ b0.toNat ≤ 243 := by omega
                            simp [q1, q2, q3, q4, e0, q5]
                      simp only [hs, hlo, hhi, and_self, not_true_eq_false, if_false, hlen, c2, c3, Bool.not_true,
                        Bool.false_eq_true]
                      simp only [show ¬ (4 = 2) by omega, show ¬ (4 = 3) by omega, if_false, hrec]
                    · simp at hv
            · simp [h4] at hv

/-- the bytes of every valid UTF-8 string (every Rust `String`) are a fixed point of lossy decoding -/
theorem isStr_of_valid (b : Bytes) (h : validUtf8 b = true) : IsStr b :=
  lossyGo_valid b.length b (Nat.le_refl _) h

end Edp.Ex
