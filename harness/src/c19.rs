//! C19: inbound routing is exact and the connection's receiver outlives bad input.
//!
//! A real `Node` (started against the fake EPMD, connected to the scripted peer of peer.rs) with instrumented
//! processes; the peer sends seeded frame histories and the harness records what every process received, which
//! outstanding remote calls were answered, and whether the connection is still registered.
//!
//! Lines:
//!   T  c19node <oracle> <world> <history>            ## <alive|stopped|hung>@<log;log;..>@<rpc;rpc;..>
//!        the model (Impl/Receiver.lean) runs the receiver loop over the bytes of <history> on the registry <world>
//!   P  c19spec <oracle> <world> <history> <observed> ## ok
//!        the protocol-side oracle (Spec/Receiver.lean): who must have received what, must the connection still be there
//!   T  c19rx <limit> <oracle> <events>               ## <result>,<result>,..
//!        `Connection::receive_message_from_read_half` called directly over a loopback socket with a short timeout,
//!        until the first read-level error (ties the classification of frames and the timeout semantics)
//!   T  c19bp <oracle> <world> <history> <gated> <fillers> ## <logs@rpcs before the gate opens>|<logs@rpcs after>
//!        full mailboxes: the bounded system (Impl/ReceiverBP.lean) with the capacity and the send forms of the source
//!   T  c19idle <limit> <history>                     ## <alive|stopped>     (thorough tier: the real idle limit of a Node)
//!   X  c19-...                                       failures the harness sees itself
//!
//! world   = n=<hex node name>;p=<pid>/<pid>..;r=<hex name>:<pid>/..;c=<id>.<serial>.<creation>/..
//! history = items separated by `/`: f<hex body> (frame), t (tick), o<len> (length prefix only, over the cap),
//!           x<len>.<hex part> (length prefix, fewer bytes, close), e (close), q<ms> (silence)
use crate::canon::{hex, hexarg, pid_text, term_text, unhex};
use crate::oracle::oracle_for;
use crate::peer::*;
use crate::rng::Rng;
use crate::tgen;
use crate::Ctx;
use edp_node::{Message, Node, Process};
use erltf::types::{Atom, ExternalPid, ExternalReference};
use erltf::OwnedTerm;
use std::sync::{Arc, Mutex};
use std::time::Duration;
use tokio::io::AsyncWriteExt;

const PROBE: &str = "probe19";
const FENCE: &str = "barrier19";
const DIE: &str = "die19";
const LOCAL: &str = "inner19";
const FILL: &str = "fill19";
const COOKIE: &str = "c19cookie";
const CONN_CAP: u64 = 64 * 1024 * 1024;

// ---------------------------------------------------------------------------------------------------------
// instrumented processes

#[derive(Default)]
struct Shared {
    logs: Vec<Vec<String>>,
    probes: Vec<bool>,
    fences: Vec<bool>,
    locals: Vec<Vec<i64>>,
    rpcs: Vec<Option<String>>,
    /// full-mailbox scenarios: the handler of process i waits while `gated[i]`; `at_gate[i]`: it is waiting there;
    /// `fills[i]`: the numbers of the filler messages it handled, in order
    gated: Vec<bool>,
    at_gate: Vec<bool>,
    fills: Vec<Vec<i64>>,
}

struct Logger {
    idx: usize,
    sh: Arc<Mutex<Shared>>,
}

fn atom(s: &str) -> OwnedTerm {
    OwnedTerm::Atom(Atom::new(s))
}

fn is_atom(t: &OwnedTerm, s: &str) -> bool {
    matches!(t, OwnedTerm::Atom(a) if a.as_str() == s)
}

fn tagged(t: &OwnedTerm, tag: &str) -> Option<i64> {
    if let OwnedTerm::Tuple(v) = t {
        if v.len() == 2 && is_atom(&v[0], tag) {
            if let OwnedTerm::Integer(i) = &v[1] {
                return Some(*i);
            }
        }
    }
    None
}

impl Process for Logger {
    async fn handle_message(&mut self, msg: Message) -> edp_node::Result<()> {
        // the gate of the full-mailbox scenarios: the handler does not return, the process takes nothing more
        loop {
            {
                let mut sh = self.sh.lock().unwrap();
                if !sh.gated.get(self.idx).copied().unwrap_or(false) {
                    break;
                }
                sh.at_gate[self.idx] = true;
            }
            tokio::time::sleep(Duration::from_millis(1)).await;
        }
        let mut sh = self.sh.lock().unwrap();
        let i = self.idx;
        let text = match &msg {
            Message::Regular { from, body } => {
                if is_atom(body, DIE) {
                    return Err(edp_node::Error::MailboxClosed);
                }
                if is_atom(body, FENCE) {
                    if i < sh.fences.len() {
                        sh.fences[i] = true;
                    }
                    return Ok(());
                }
                if let Some(k) = tagged(body, LOCAL) {
                    if i < sh.locals.len() {
                        sh.locals[i].push(k);
                    }
                    return Ok(());
                }
                if let Some(k) = tagged(body, FILL) {
                    if i < sh.fills.len() {
                        sh.fills[i].push(k);
                    }
                    return Ok(());
                }
                if tagged(body, PROBE) == Some(i as i64) && i < sh.probes.len() {
                    sh.probes[i] = true;
                }
                match from {
                    None => format!("reg!{}", term_text(body)),
                    Some(p) => format!("reg!{}!from={}", term_text(body), pid_text(p)),
                }
            }
            Message::Exit { from, reason } => format!("exit!{}!{}", pid_text(from), term_text(reason)),
            Message::MonitorExit { monitored, reference, reason } => format!(
                "mon!{}!{}!{}",
                pid_text(monitored),
                term_text(&OwnedTerm::Reference(reference.clone())),
                term_text(reason)
            ),
            _ => "other".to_string(),
        };
        if i < sh.logs.len() {
            sh.logs[i].push(text);
        }
        Ok(())
    }
}

// ---------------------------------------------------------------------------------------------------------
// histories

#[derive(Clone, Debug)]
enum Item {
    Frame(Vec<u8>),
    Tick,
    Overlong(u64),
    Cut(u64, Vec<u8>),
    Close,
    Quiet(u64),
    /// bytes that are not a whole frame (the next read then waits)
    Raw(Vec<u8>),
}

impl Item {
    fn text(&self) -> String {
        match self {
            Item::Frame(b) => format!("f{}", hex(b)),
            Item::Tick => "t".to_string(),
            Item::Overlong(l) => format!("o{}", l),
            Item::Cut(l, p) => format!("x{}.{}", l, hexarg(p)),
            Item::Close => "e".to_string(),
            Item::Quiet(ms) => format!("q{}", ms),
            Item::Raw(b) => format!("r{}", hex(b)),
        }
    }
    fn closes(&self) -> bool {
        matches!(self, Item::Cut(..) | Item::Close)
    }
}

fn history_text(h: &[Item]) -> String {
    if h.is_empty() {
        return "-".to_string();
    }
    h.iter().map(|i| i.text()).collect::<Vec<_>>().join("/")
}

/// the external-call table the decoder model needs for the bodies of this history (`None`: too large, skip)
fn history_oracle(h: &[Item]) -> Option<String> {
    let mut entries: Vec<String> = vec![];
    for it in h {
        if let Item::Frame(b) = it {
            let o = oracle_for(b)?;
            if o != "-" {
                entries.extend(o.split(';').map(|s| s.to_string()));
            }
        }
    }
    entries.sort();
    entries.dedup();
    if entries.is_empty() {
        Some("-".to_string())
    } else if entries.len() > 64 {
        None
    } else {
        Some(entries.join(";"))
    }
}

/// what the generator knows about the node it talks to
#[derive(Clone)]
struct World {
    node_name: String,
    peer_name: String,
    creation: u32,
    live: Vec<ExternalPid>,
    names: Vec<(String, ExternalPid)>,
    dead: Vec<ExternalPid>,
    rpc: Vec<ExternalPid>,
}

impl World {
    fn text(&self) -> String {
        format!(
            "n={};p={};r={};c={}",
            hex(self.node_name.as_bytes()),
            self.live.iter().map(pid_text).collect::<Vec<_>>().join("/"),
            self.names.iter().map(|(n, p)| format!("{}:{}", hexarg(n.as_bytes()), pid_text(p))).collect::<Vec<_>>().join("/"),
            self.rpc.iter().map(|p| format!("{}.{}.{}", p.id, p.serial, p.creation)).collect::<Vec<_>>().join("/"),
        )
    }
    fn remote_pid(&self, r: &mut Rng) -> ExternalPid {
        ExternalPid::new(Atom::new(&self.peer_name), r.range(1, 5000) as u32, r.below(4) as u32, 0x6655_4433)
    }
    fn ghost(&self, r: &mut Rng) -> ExternalPid {
        // a pid of this node that was never allocated
        ExternalPid::new(Atom::new(&self.node_name), 900_000 + r.below(1000) as u32, r.below(3) as u32, self.creation)
    }
    fn remote_ref(&self, r: &mut Rng) -> ExternalReference {
        let n = r.range(1, 5) as usize;
        ExternalReference::new(Atom::new(&self.node_name), self.creation, (0..n).map(|_| r.next() as u32 & 0x3ffff).collect())
    }
}

/// every kind of frame event the generator knows; `ALL_KINDS` is swept position by position
#[derive(Clone, Copy, Debug, PartialEq)]
enum Kind {
    SendLive,
    SendDead,
    SendGhost,
    SendForeignNode,
    SendRpc,
    /// a SEND to a pid that differs from the reply pid of an outstanding call in ONE number (creation, serial or id, one up or
    /// down): a late reply to an earlier incarnation of the node, to an earlier call — for this node, but for nobody
    SendRpcNear,
    /// the numbers of an outstanding call's reply pid under another node's name
    SendRpcForeign,
    SendNoPayload,
    SendToAtom,
    RegLive,
    RegUnknown,
    RegNotAtom,
    ExitLive,
    ExitDead,
    ExitFromNotPid,
    Exit2Live,
    SendTtLive,
    RegSendTtLive,
    ExitTtLive,
    Exit2TtLive,
    MonExitLive,
    MonExitDead,
    MonExitBadRef,
    OtherKnown,
    UnknownTag,
    WrongArity,
    ControlNotTuple,
    ControlBadHead,
    BadUnlinkId,
    Undecodable,
    BadPayload,
    BadMarker,
    /// a deliverable message followed by more bytes inside the same frame (`DecodeError::TrailingData`)
    TrailingAfterPayload,
    /// a frame whose first byte is 131: distribution-header / fragment frames, which this receive path does not read
    DistHeaderFrame,
    Tick,
    Overlong,
    Cut,
    Close,
}

const ALL_KINDS: &[Kind] = &[
    Kind::SendLive, Kind::SendDead, Kind::SendGhost, Kind::SendForeignNode, Kind::SendRpc, Kind::SendRpcNear, Kind::SendRpcForeign, Kind::SendNoPayload,
    Kind::SendToAtom, Kind::RegLive, Kind::RegUnknown, Kind::RegNotAtom, Kind::ExitLive, Kind::ExitDead,
    Kind::ExitFromNotPid, Kind::Exit2Live, Kind::SendTtLive, Kind::RegSendTtLive, Kind::ExitTtLive, Kind::Exit2TtLive, Kind::MonExitLive, Kind::MonExitDead, Kind::MonExitBadRef,
    Kind::OtherKnown, Kind::UnknownTag, Kind::WrongArity, Kind::ControlNotTuple, Kind::ControlBadHead,
    Kind::BadUnlinkId, Kind::Undecodable, Kind::BadPayload, Kind::BadMarker, Kind::TrailingAfterPayload, Kind::DistHeaderFrame,
    Kind::Tick, Kind::Overlong,
    Kind::Cut, Kind::Close,
];

/// the kinds that are faults or noise (one of them at every position of a base history)
const FAULT_KINDS: &[Kind] = &[
    Kind::SendDead, Kind::SendGhost, Kind::SendRpcNear, Kind::SendNoPayload, Kind::RegUnknown, Kind::ExitDead, Kind::MonExitDead,
    Kind::OtherKnown, Kind::UnknownTag, Kind::WrongArity, Kind::ControlNotTuple, Kind::ControlBadHead,
    Kind::BadUnlinkId, Kind::Undecodable, Kind::BadPayload, Kind::BadMarker, Kind::TrailingAfterPayload, Kind::DistHeaderFrame,
    Kind::Tick, Kind::Overlong,
    Kind::Cut, Kind::Close,
];

fn int(i: i64) -> OwnedTerm {
    OwnedTerm::Integer(i)
}
fn tup(v: Vec<OwnedTerm>) -> OwnedTerm {
    OwnedTerm::Tuple(v)
}
fn pidt(p: &ExternalPid) -> OwnedTerm {
    OwnedTerm::Pid(p.clone())
}

fn payload(r: &mut Rng) -> OwnedTerm {
    let cfg = tgen::Cfg { max_depth: 2, wf: true, maps: true, local_ids: false, huge: false, funs: false };
    match r.below(6) {
        0 => atom("hello"),
        1 => tup(vec![atom("msg"), int(r.below(1000) as i64)]),
        2 => {
            let n = r.below(6) as usize;
            OwnedTerm::Binary(r.bytes(n))
        }
        _ => tgen::gen_term(r, &cfg, 0),
    }
}

fn pick_pid(r: &mut Rng, v: &[ExternalPid], w: &World) -> ExternalPid {
    if v.is_empty() { w.ghost(r) } else { r.pick(v).clone() }
}

/// how often each kind was generated (input distribution for the evidence file)
static KIND_COUNTS: Mutex<Vec<(Kind, u64)>> = Mutex::new(Vec::new());

fn gen_item(r: &mut Rng, w: &World, k: Kind) -> Item {
    {
        let mut g = KIND_COUNTS.lock().unwrap();
        match g.iter_mut().find(|(q, _)| *q == k) {
            Some(e) => e.1 += 1,
            None => g.push((k, 1)),
        }
    }
    let cookie = atom("");
    let f = |c: OwnedTerm, p: Option<OwnedTerm>| Item::Frame(pass_through(&c, p.as_ref()));
    match k {
        Kind::SendLive => f(tup(vec![int(2), cookie, pidt(&pick_pid(r, &w.live, w))]), Some(payload(r))),
        Kind::SendDead => f(tup(vec![int(2), cookie, pidt(&pick_pid(r, &w.dead, w))]), Some(payload(r))),
        Kind::SendGhost => f(tup(vec![int(2), cookie, pidt(&w.ghost(r))]), Some(payload(r))),
        Kind::SendForeignNode => {
            // the numbers of a live process under another node's name
            let mut p = pick_pid(r, &w.live, w);
            p.node = Atom::new("elsewhere@127.0.0.1");
            f(tup(vec![int(2), cookie, pidt(&p)]), Some(payload(r)))
        }
        Kind::SendRpc => f(tup(vec![int(2), cookie, pidt(&pick_pid(r, &w.rpc, w))]), Some(payload(r))),
        Kind::SendRpcNear => {
            let p = pick_pid(r, &w.rpc, w);
            let v = r.below(6) as usize;
            f(tup(vec![int(2), cookie, pidt(&near_miss(&p, v))]), Some(payload(r)))
        }
        Kind::SendRpcForeign => {
            let mut p = pick_pid(r, &w.rpc, w);
            p.node = Atom::new(*r.pick(&["elsewhere@127.0.0.1", "n19x@127.0.0.1", ""]));
            f(tup(vec![int(2), cookie, pidt(&p)]), Some(payload(r)))
        }
        Kind::SendNoPayload => f(tup(vec![int(2), cookie, pidt(&pick_pid(r, &w.live, w))]), None),
        Kind::SendToAtom => f(tup(vec![int(2), cookie, atom("srv")]), Some(payload(r))),
        Kind::RegLive => {
            let name = if w.names.is_empty() { "nobody".to_string() } else { r.pick(&w.names).0.clone() };
            f(tup(vec![int(6), pidt(&w.remote_pid(r)), cookie, atom(&name)]), Some(payload(r)))
        }
        Kind::RegUnknown => {
            let name = *r.pick(&["nobody", "", "rex2", "net_kernel", "global_name_server", "late"]);
            f(tup(vec![int(6), pidt(&w.remote_pid(r)), cookie, atom(name)]), Some(payload(r)))
        }
        Kind::RegNotAtom => {
            let to = if w.names.is_empty() { int(1) } else { OwnedTerm::Binary(w.names[0].0.as_bytes().to_vec()) };
            f(tup(vec![int(6), pidt(&w.remote_pid(r)), cookie, to]), Some(payload(r)))
        }
        Kind::ExitLive => f(tup(vec![int(3), pidt(&w.remote_pid(r)), pidt(&pick_pid(r, &w.live, w)), payload(r)]), None),
        Kind::ExitDead => {
            let to = if r.chance(1, 2) { pick_pid(r, &w.dead, w) } else { w.ghost(r) };
            f(tup(vec![int(3), pidt(&w.remote_pid(r)), pidt(&to), payload(r)]), None)
        }
        Kind::ExitFromNotPid => f(tup(vec![int(3), atom("someone"), pidt(&pick_pid(r, &w.live, w)), payload(r)]), None),
        Kind::Exit2Live => f(tup(vec![int(8), pidt(&w.remote_pid(r)), pidt(&pick_pid(r, &w.live, w)), payload(r)]), None),
        Kind::SendTtLive => f(tup(vec![int(12), cookie, pidt(&pick_pid(r, &w.live, w)), payload(r)]), Some(payload(r))),
        Kind::RegSendTtLive => {
            let name = if w.names.is_empty() { "nobody".to_string() } else { r.pick(&w.names).0.clone() };
            f(tup(vec![int(16), pidt(&w.remote_pid(r)), cookie, atom(&name), payload(r)]), Some(payload(r)))
        }
        Kind::ExitTtLive => f(tup(vec![int(13), pidt(&w.remote_pid(r)), pidt(&pick_pid(r, &w.live, w)), payload(r), payload(r)]), None),
        Kind::Exit2TtLive => f(tup(vec![int(18), pidt(&w.remote_pid(r)), pidt(&pick_pid(r, &w.live, w)), payload(r), payload(r)]), None),
        Kind::MonExitLive => f(
            tup(vec![int(21), pidt(&w.remote_pid(r)), pidt(&pick_pid(r, &w.live, w)), OwnedTerm::Reference(w.remote_ref(r)), payload(r)]),
            None,
        ),
        Kind::MonExitDead => {
            let to = if r.chance(1, 2) { pick_pid(r, &w.dead, w) } else { w.ghost(r) };
            f(tup(vec![int(21), pidt(&w.remote_pid(r)), pidt(&to), OwnedTerm::Reference(w.remote_ref(r)), payload(r)]), None)
        }
        Kind::MonExitBadRef => f(
            tup(vec![int(21), pidt(&w.remote_pid(r)), pidt(&pick_pid(r, &w.live, w)), int(7), payload(r)]),
            None,
        ),
        Kind::OtherKnown => {
            let a = pidt(&w.remote_pid(r));
            let b = pidt(&pick_pid(r, &w.live, w));
            let rf = OwnedTerm::Reference(w.remote_ref(r));
            match r.below(9) {
                0 => f(tup(vec![int(1), a, b]), None),                                     // LINK
                1 => f(tup(vec![int(35), int(r.below(100) as i64), a, b]), None),          // UNLINK_ID
                2 => f(tup(vec![int(36), int(r.below(100) as i64), a, b]), None),          // UNLINK_ID_ACK
                3 => f(tup(vec![int(19), a, b, rf]), None),                                // MONITOR_P
                4 => f(tup(vec![int(20), a, b, rf]), None),                                // DEMONITOR_P
                5 => f(tup(vec![int(7), a, b]), None),                                     // GROUP_LEADER
                6 => f(tup(vec![int(22), a, b]), Some(payload(r))),                        // SEND_SENDER (not negotiated)
                7 => f(tup(vec![int(24), a, b]), Some(payload(r))),                        // PAYLOAD_EXIT (not negotiated)
                _ => f(tup(vec![int(33), a, rf]), Some(payload(r))),                       // ALIAS_SEND
            }
        }
        Kind::UnknownTag => {
            let tag = *r.pick(&[0i64, 9, 10, 11, 14, 37, 99, 200, 255]);
            let n = r.below(4) as usize;
            let mut v = vec![int(tag)];
            for _ in 0..n {
                v.push(if r.chance(1, 2) { pidt(&pick_pid(r, &w.live, w)) } else { payload(r) });
            }
            f(tup(v), if r.chance(1, 2) { Some(payload(r)) } else { None })
        }
        Kind::WrongArity => {
            let b = pidt(&pick_pid(r, &w.live, w));
            match r.below(3) {
                0 => f(tup(vec![int(2), atom(""), b, int(1)]), Some(payload(r))),
                1 => f(tup(vec![int(3), pidt(&w.remote_pid(r)), b]), None),
                _ => f(tup(vec![int(2)]), Some(payload(r))),
            }
        }
        Kind::ControlNotTuple => {
            let c = match r.below(4) {
                0 => atom("send"),
                1 => int(2),
                2 => OwnedTerm::List(vec![int(2), atom(""), pidt(&pick_pid(r, &w.live, w))]),
                _ => tup(vec![]),
            };
            f(c, if r.chance(1, 2) { Some(payload(r)) } else { None })
        }
        Kind::ControlBadHead => {
            let h = match r.below(5) {
                0 => atom("send"),
                1 => int(256),
                2 => int(-1),
                3 => int(1 << 40),
                _ => OwnedTerm::Binary(vec![2]),
            };
            f(tup(vec![h, atom(""), pidt(&pick_pid(r, &w.live, w))]), Some(payload(r)))
        }
        Kind::BadUnlinkId => {
            let id = match r.below(3) {
                0 => int(-1),
                1 => atom("id"),
                _ => OwnedTerm::BigInt(erltf::types::BigInt::new(false, vec![1, 2, 3, 4, 5, 6, 7, 8, 9])),
            };
            f(tup(vec![int(35), id, pidt(&w.remote_pid(r)), pidt(&pick_pid(r, &w.live, w))]), None)
        }
        Kind::Undecodable => {
            let good = pass_through(&tup(vec![int(2), atom(""), pidt(&pick_pid(r, &w.live, w))]), Some(&payload(r)));
            let body = match r.below(6) {
                0 => vec![112],
                1 => vec![112, 131],
                2 => {
                    let mut b = good.clone();
                    b[1] = *r.pick(&[130u8, 0, 132]);
                    b
                }
                3 => {
                    // the control term cut short
                    let n = r.range(2, 12.min(good.len() as u64 - 1)) as usize;
                    good[..n].to_vec()
                }
                4 => {
                    let mut b = vec![112, 131];
                    let n = r.range(1, 9) as usize;
                    b.extend(r.bytes(n));
                    b[2] = *r.pick(&[1u8, 2, 50, 60, 255, 113]); // no such tag
                    b
                }
                _ => vec![112, 131, 104, 3, 97, 2], // a 3-tuple with one element present
            };
            Item::Frame(body)
        }
        Kind::BadPayload => {
            let mut b = pass_through(&tup(vec![int(2), atom(""), pidt(&pick_pid(r, &w.live, w))]), None);
            match r.below(4) {
                0 => b.extend([131u8, 255]),
                1 => b.extend([77u8]),
                2 => b.extend([131u8, 104, 2, 97, 1]),
                _ => b.extend([131u8]),
            }
            Item::Frame(b)
        }
        Kind::BadMarker => {
            let good = pass_through(&tup(vec![int(2), atom(""), pidt(&pick_pid(r, &w.live, w))]), Some(&payload(r)));
            let body = match r.below(5) {
                0 => vec![131, 68, 0],
                1 => vec![0],
                2 => {
                    let mut b = good.clone();
                    b[0] = *r.pick(&[111u8, 113, 131, 0, 255]);
                    b
                }
                3 => good[1..].to_vec(), // marker forgotten
                _ => {
                    let n = r.range(1, 8) as usize;
                    r.bytes(n).into_iter().map(|x| if x == 112 { 7 } else { x }).collect()
                }
            };
            Item::Frame(body)
        }
        Kind::TrailingAfterPayload => {
            // a complete, deliverable SEND / REG_SEND with its message, then more bytes before the frame ends
            let mut b = if w.names.is_empty() || r.chance(2, 3) {
                pass_through(&tup(vec![int(2), atom(""), pidt(&pick_pid(r, &w.live, w))]), Some(&payload(r)))
            } else {
                let name = r.pick(&w.names).0.clone();
                pass_through(&tup(vec![int(6), pidt(&w.remote_pid(r)), atom(""), atom(&name)]), Some(&payload(r)))
            };
            match r.below(5) {
                0 => b.push(0),
                1 => b.extend([131u8, 97, 7]),                      // a second whole term
                2 => b.extend(erltf::encode(&payload(r)).unwrap()), // likewise, generated
                3 => b.push(112),
                _ => {
                    let n = r.range(1, 4) as usize;
                    b.extend(r.bytes(n));
                }
            }
            Item::Frame(b)
        }
        Kind::DistHeaderFrame => {
            // what a peer in header mode would send for a deliverable message; flags that select that mode were never offered
            let ctl = erltf::encode(&tup(vec![int(2), atom(""), pidt(&pick_pid(r, &w.live, w))])).unwrap();
            let msg = erltf::encode(&payload(r)).unwrap();
            let mut terms = ctl[1..].to_vec();
            terms.extend_from_slice(&msg[1..]);
            let seq = (r.below(1000) + 1).to_be_bytes();
            let body = match r.below(5) {
                0 => [vec![131u8, 68, 0], terms].concat(),                                              // DIST_HEADER, no atom refs
                1 => [vec![131u8, 69], seq.to_vec(), 1u64.to_be_bytes().to_vec(), vec![0], terms].concat(), // only fragment of a sequence
                2 => [vec![131u8, 69], seq.to_vec(), 2u64.to_be_bytes().to_vec(), vec![0], terms[..terms.len() / 2].to_vec()].concat(),
                3 => [vec![131u8, 70], seq.to_vec(), 1u64.to_be_bytes().to_vec(), terms[terms.len() / 2..].to_vec()].concat(),
                _ => [ctl.clone(), msg.clone()].concat(),                                               // two external terms, no marker
            };
            Item::Frame(body)
        }
        Kind::Tick => Item::Tick,
        Kind::Overlong => Item::Overlong(*r.pick(&[CONN_CAP + 1, CONN_CAP + 2, 1 << 31, (1u64 << 32) - 1])),
        Kind::Cut => {
            let good = pass_through(&tup(vec![int(2), atom(""), pidt(&pick_pid(r, &w.live, w))]), Some(&payload(r)));
            let n = r.below(good.len() as u64) as usize;
            Item::Cut(good.len() as u64, good[..n].to_vec())
        }
        Kind::Close => Item::Close,
    }
}

/// the six pids next to `p`: creation, serial, id one down / one up (wrapping at 32 bits)
fn near_miss(p: &ExternalPid, variant: usize) -> ExternalPid {
    let mut q = ExternalPid::new(p.node.clone(), p.id, p.serial, p.creation);
    match variant % 6 {
        0 => q.creation = p.creation.wrapping_sub(1),
        1 => q.creation = p.creation.wrapping_add(1),
        2 => q.serial = p.serial.wrapping_sub(1),
        3 => q.serial = p.serial.wrapping_add(1),
        4 => q.id = p.id.wrapping_sub(1),
        _ => q.id = p.id.wrapping_add(1),
    }
    q
}

fn probe_item(w: &World, i: usize) -> Item {
    Item::Frame(pass_through(
        &tup(vec![int(2), atom(""), pidt(&w.live[i])]),
        Some(&tup(vec![atom(PROBE), int(i as i64)])),
    ))
}

fn item_bytes(it: &Item) -> Vec<u8> {
    match it {
        Item::Frame(b) => {
            let mut v = (b.len() as u32).to_be_bytes().to_vec();
            v.extend_from_slice(b);
            v
        }
        Item::Tick => vec![0, 0, 0, 0],
        Item::Overlong(l) => (*l as u32).to_be_bytes().to_vec(),
        Item::Cut(l, p) => {
            let mut v = (*l as u32).to_be_bytes().to_vec();
            v.extend_from_slice(p);
            v
        }
        Item::Raw(b) => b.clone(),
        Item::Close | Item::Quiet(_) => vec![],
    }
}

// ---------------------------------------------------------------------------------------------------------
// one scenario against a real Node

struct WorldSpec {
    nlive: usize,
    names: Vec<(String, usize)>, // name -> index of a live process
    ndead: usize,
    nrpc: usize,
    local_traffic: bool,
}

fn gen_world_spec(r: &mut Rng) -> WorldSpec {
    let nlive = r.range(1, 3) as usize;
    let mut names = vec![];
    let pool = ["srv", "rex", "ünï", "a", "Elixir.Srv", "x@y"];
    let nn = r.below(3) as usize;
    for _ in 0..nn {
        let n = r.pick(&pool).to_string();
        if !names.iter().any(|(m, _): &(String, usize)| *m == n) {
            names.push((n, r.below(nlive as u64) as usize));
        }
    }
    WorldSpec { nlive, names, ndead: r.below(2) as usize, nrpc: r.below(3) as usize, local_traffic: r.chance(1, 3) }
}

struct Scn {
    node: Arc<Node>,
    pc: PeerConn,
    sh: Arc<Mutex<Shared>>,
    w: World,
    rpc_tasks: Vec<tokio::task::JoinHandle<()>>,
}

/// waits that ran into their bound so far: once a few have (the property is violated anyway), the remaining scenarios
/// wait only briefly, so that a broken tree is reported in minutes, not hours
static EXPIRED_WAITS: std::sync::atomic::AtomicUsize = std::sync::atomic::AtomicUsize::new(0);

fn bound() -> Duration {
    if EXPIRED_WAITS.load(std::sync::atomic::Ordering::Relaxed) >= 3 { Duration::from_millis(300) } else { Duration::from_secs(5) }
}

async fn wait_until<F: FnMut() -> bool>(mut cond: F, bound: Duration) -> bool {
    let t0 = std::time::Instant::now();
    loop {
        if cond() {
            return true;
        }
        if t0.elapsed() > bound {
            EXPIRED_WAITS.fetch_add(1, std::sync::atomic::Ordering::Relaxed);
            return false;
        }
        tokio::time::sleep(Duration::from_millis(1)).await;
    }
}

async fn setup(case: usize, epmd: &FakeEpmd, spec: &WorldSpec) -> Result<Scn, String> {
    // names without the bytes 99 (c) and 80 (P): they would look like FLOAT_EXT / COMPRESSED tags to the oracle-table scan
    let short = format!("x19p{}", case);
    let peer_name = format!("{}@127.0.0.1", short);
    let node_name = format!("n19x{}@127.0.0.1", case);
    let listener = listen_as(epmd, &short).await;
    let pcfg = PeerCfg::new(&peer_name, COOKIE);
    let peer = tokio::spawn(async move { accept_and_handshake(&listener, &pcfg).await });
    let mut node = Node::new(node_name.clone(), COOKIE);
    let t0 = std::time::Instant::now();
    node.start(0).await.map_err(|e| format!("start: {}", e))?;
    let d_start = t0.elapsed();
    let node = Arc::new(node);
    node.connect(peer_name.clone()).await.map_err(|e| format!("connect: {}", e))?;
    if std::env::var("C19_TIMING").is_ok() {
        eprintln!("  start {:?} connect {:?}", d_start, t0.elapsed() - d_start);
    }
    let mut pc = tokio::time::timeout(Duration::from_secs(5), peer)
        .await
        .map_err(|_| "peer timeout".to_string())?
        .map_err(|_| "peer join".to_string())?
        .ok_or("peer handshake".to_string())?;
    if !pc.hs.completed {
        return Err("handshake not completed".into());
    }
    let sh = Arc::new(Mutex::new(Shared::default()));
    {
        let mut g = sh.lock().unwrap();
        g.logs = vec![vec![]; spec.nlive];
        g.probes = vec![false; spec.nlive];
        g.fences = vec![false; spec.nlive];
        g.locals = vec![vec![]; spec.nlive];
        g.gated = vec![false; spec.nlive];
        g.at_gate = vec![false; spec.nlive];
        g.fills = vec![vec![]; spec.nlive];
        g.rpcs = vec![None; spec.nrpc];
    }
    let mut live = vec![];
    for i in 0..spec.nlive {
        let pid = node.spawn(Logger { idx: i, sh: sh.clone() }).await.map_err(|e| format!("spawn: {}", e))?;
        live.push(pid);
    }
    let mut names = vec![];
    for (n, i) in &spec.names {
        node.register(Atom::new(n), live[*i].clone()).await.map_err(|e| format!("register: {}", e))?;
        names.push((n.clone(), live[*i].clone()));
    }
    let mut dead = vec![];
    for _ in 0..spec.ndead {
        let pid = node.spawn(Logger { idx: usize::MAX, sh: sh.clone() }).await.map_err(|e| format!("spawn: {}", e))?;
        // a name the dead process held (released with it)
        let _ = node.register(Atom::new("late"), pid.clone()).await;
        node.send(&pid, atom(DIE)).await.map_err(|e| format!("die: {}", e))?;
        let reg = node.registry();
        let t0 = std::time::Instant::now();
        while reg.get(&pid).await.is_some() || reg.whereis(&Atom::new("late")).await.is_some() {
            if t0.elapsed() > Duration::from_secs(3) {
                return Err("dead process still registered".into());
            }
            tokio::time::sleep(Duration::from_millis(1)).await;
        }
        dead.push(pid);
    }
    // outstanding remote calls: the peer learns the reply pid from the REG_SEND to rex
    let mut rpc = vec![];
    let mut rpc_tasks = vec![];
    for k in 0..spec.nrpc {
        let (n2, s2, pn) = (node.clone(), sh.clone(), peer_name.clone());
        rpc_tasks.push(tokio::spawn(async move {
            let r = n2.rpc_call_raw_with_timeout(&pn, "m", "f", vec![], Duration::from_secs(120)).await;
            s2.lock().unwrap().rpcs[k] = Some(match r {
                Ok(t) => format!("ok!{}", term_text(&t)),
                Err(_) => "err".to_string(),
            });
        }));
        // the library writes a frame in several small writes without TCP_NODELAY: acknowledge at once, or each
        // request costs a delayed-ACK interval
        #[cfg(target_os = "linux")]
        let _ = pc.stream.set_quickack(true);
        let frame = pc.recv_frame(Duration::from_secs(3)).await.ok_or("no rpc request frame".to_string())?;
        if frame.first() != Some(&112) {
            return Err("rpc request not pass-through".into());
        }
        let (ctl, _) = erltf::decoder::decode_with_trailing(&frame[1..]).map_err(|e| format!("rpc ctl: {}", e))?;
        let from = match ctl {
            OwnedTerm::Tuple(v) if v.len() == 4 => match &v[1] {
                OwnedTerm::Pid(p) => p.clone(),
                _ => return Err("rpc ctl from".into()),
            },
            _ => return Err("rpc ctl shape".into()),
        };
        rpc.push(from);
    }
    let w = World { node_name, peer_name, creation: node.creation(), live, names, dead, rpc };
    Ok(Scn { node, pc, sh, w, rpc_tasks })
}

/// send the history, observe, tear down. Returns the observed outcome text and whether closing deregistered.
async fn play(scn: &mut Scn, history: &[Item], local_traffic: bool) -> (String, bool) {
    let conns = scn.node.connections();
    let peer_name = scn.w.peer_name.clone();
    let nlive = scn.w.live.len();
    // local operations on the same node while the history arrives
    let local = if local_traffic {
        let (n2, live) = (scn.node.clone(), scn.w.live.clone());
        Some(tokio::spawn(async move {
            for k in 0..6i64 {
                for p in &live {
                    let _ = n2.send(p, tup(vec![atom(LOCAL), int(k)])).await;
                }
                if let Ok(extra) = n2.spawn(Logger { idx: usize::MAX, sh: Arc::new(Mutex::new(Shared::default())) }).await {
                    let _ = n2.register(Atom::new(format!("extra19_{}", k)), extra.clone()).await;
                    let _ = n2.send(&extra, atom(DIE)).await;
                }
                tokio::task::yield_now().await;
            }
        }))
    } else {
        None
    };
    let mut closed = false;
    for it in history {
        match it {
            Item::Quiet(ms) => tokio::time::sleep(Duration::from_millis(*ms)).await,
            Item::Close => {}
            _ => {
                let b = item_bytes(it);
                let _ = scn.pc.stream.write_all(&b).await;
                let _ = scn.pc.stream.flush().await;
            }
        }
        if it.closes() {
            let _ = scn.pc.stream.shutdown().await;
            closed = true;
            break;
        }
        if local_traffic {
            tokio::task::yield_now().await;
        }
    }
    if let Some(l) = local {
        let _ = l.await;
    }
    // wait until every probe has arrived or the connection is gone
    let sh = scn.sh.clone();
    let (c2, pn2) = (conns.clone(), peer_name.clone());
    wait_until(
        || !c2.contains_key(&pn2) || (!closed && sh.lock().unwrap().probes.iter().all(|b| *b)),
        bound(),
    )
    .await;
    let registered = conns.contains_key(&peer_name);
    let probes_seen = scn.sh.lock().unwrap().probes.iter().all(|b| *b);
    // fence: a local message behind everything the receiver has put into the mailboxes
    for p in &scn.w.live {
        let _ = scn.node.send(p, atom(FENCE)).await;
    }
    let sh = scn.sh.clone();
    let fenced = wait_until(|| sh.lock().unwrap().fences.iter().all(|b| *b), bound()).await;
    for _ in 0..20 {
        tokio::task::yield_now().await;
    }
    tokio::time::sleep(Duration::from_millis(2)).await;
    let status = if !registered {
        "stopped"
    } else if probes_seen && !closed && fenced {
        "alive"
    } else {
        "hung"
    };
    let (logs, rpcs, locals_ok) = {
        let g = scn.sh.lock().unwrap();
        let logs: Vec<String> = g.logs.iter().map(|l| if l.is_empty() { "-".to_string() } else { l.join("/") }).collect();
        let rpcs: Vec<String> = g.rpcs.iter().map(|r| r.clone().unwrap_or("-".to_string())).collect();
        let locals_ok = !local_traffic || g.locals.iter().all(|l| *l == (0..6).collect::<Vec<i64>>());
        (logs, rpcs, locals_ok)
    };
    let _ = nlive;
    let observed = format!(
        "{}@{}@{}{}",
        status,
        logs.join(";"),
        if rpcs.is_empty() { "-".to_string() } else { rpcs.join(";") },
        if locals_ok { "" } else { "@local-messages-lost-or-reordered" }
    );
    // the peer closes: the receiver must stop and the connection must be deregistered
    if !closed {
        let _ = scn.pc.stream.shutdown().await;
    }
    let (c3, pn3) = (conns.clone(), peer_name.clone());
    let dereg = wait_until(|| !c3.contains_key(&pn3), bound()).await;
    for t in &scn.rpc_tasks {
        t.abort();
    }
    (observed, dereg)
}

fn with_probes(w: &World, mut h: Vec<Item>) -> Vec<Item> {
    if !h.iter().any(|i| i.closes()) {
        for i in 0..w.live.len() {
            h.push(probe_item(w, i));
        }
    }
    h
}

struct Prepared {
    scn: Scn,
    h: Vec<Item>,
    oracle: String,
    local_traffic: bool,
}

async fn prepare<G: FnOnce(&mut Rng, &World) -> Vec<Item>>(ctx: &mut Ctx, epmd: &FakeEpmd, case: &mut usize, spec: &WorldSpec, generate: G) -> Option<Prepared> {
    *case += 1;
    let scn = match setup(*case, epmd, spec).await {
        Ok(s) => s,
        Err(e1) => {
            // once more with fresh names before it counts
            ctx.count("setup_retried");
            *case += 1;
            match setup(*case, epmd, spec).await {
                Ok(s) => s,
                Err(e) => {
                    ctx.fail("c19-setup", &format!("case={} {} (first attempt: {})", case, e, e1));
                    return None;
                }
            }
        }
    };
    let mut h = with_probes(&scn.w, generate(&mut ctx.rng, &scn.w));
    let mut tries = 0;
    // a history whose external-call table would be too large is replaced by a plain one
    let oracle = loop {
        match history_oracle(&h) {
            Some(o) => break o,
            None => {
                tries += 1;
                ctx.count("history_replaced_oracle_too_large");
                let w = scn.w.clone();
                h = with_probes(&w, vec![Item::Tick]);
                if tries > 2 {
                    break "-".to_string();
                }
            }
        }
    };
    for it in &h {
        ctx.count(match it {
            Item::Frame(_) => "item_frame",
            Item::Tick => "item_tick",
            Item::Overlong(_) => "item_overlong",
            Item::Cut(..) => "item_cut",
            Item::Close => "item_close",
            Item::Quiet(_) => "item_quiet",
            Item::Raw(_) => "item_raw",
        });
    }
    ctx.count(&format!("world_live{}", spec.nlive));
    ctx.count(&format!("world_names{}", spec.names.len()));
    ctx.count(&format!("world_dead{}", spec.ndead));
    ctx.count(&format!("world_calls{}", spec.nrpc));
    if spec.local_traffic {
        ctx.count("with_local_traffic");
    }
    Some(Prepared { scn, h, oracle, local_traffic: spec.local_traffic })
}

fn report(ctx: &mut Ctx, tag: &str, p: &Prepared, observed: &str, dereg: bool) {
    let wt = p.scn.w.text();
    let ht = history_text(&p.h);
    ctx.count(&format!("observed_{}", observed.split('@').next().unwrap_or("")));
    ctx.tie(tag, &format!("c19node {} {} {}", p.oracle, wt, ht), observed);
    ctx.prop(tag, &format!("c19spec {} {} {} {}", p.oracle, wt, ht, observed), "ok");
    if !dereg {
        ctx.fail("c19-close-not-deregistered", &format!("world={} history={}", wt, ht));
    }
}

async fn scenario<G: FnOnce(&mut Rng, &World) -> Vec<Item>>(ctx: &mut Ctx, epmd: &FakeEpmd, case: &mut usize, tag: &str, spec: WorldSpec, generate: G) {
    let t_setup = std::time::Instant::now();
    let Some(mut p) = prepare(ctx, epmd, case, &spec, generate).await else { return };
    let d_setup = t_setup.elapsed();
    let t_play = std::time::Instant::now();
    let h = p.h.clone();
    let (observed, dereg) = play(&mut p.scn, &h, p.local_traffic).await;
    if std::env::var("C19_TIMING").is_ok() {
        eprintln!("case {} setup {:?} play {:?} {}", case, d_setup, t_play.elapsed(), observed.split('@').next().unwrap_or(""));
    }
    report(ctx, tag, &p, &observed, dereg);
}

// ---------------------------------------------------------------------------------------------------------
// full mailboxes: the handler of one process is held at a gate, its mailbox is filled to capacity with local messages
// (through the handle's sender, `try_send`, so that the harness itself never waits), then the peer's history arrives —
// its FIRST frame is deliverable to the gated process —, the harness looks at what has arrived anywhere ("before": with a
// receiver that waits for room, nothing), opens the gate, and the scenario ends like every other one.

fn logs_text(sh: &Arc<Mutex<Shared>>) -> String {
    let g = sh.lock().unwrap();
    let logs: Vec<String> = g.logs.iter().map(|l| if l.is_empty() { "-".to_string() } else { l.join("/") }).collect();
    let rpcs: Vec<String> = g.rpcs.iter().map(|r| r.clone().unwrap_or("-".to_string())).collect();
    format!("{}@{}", logs.join(";"), if rpcs.is_empty() { "-".to_string() } else { rpcs.join(";") })
}

/// fills the mailbox of live process `gi` behind a closed gate; returns how many filler messages it took (capacity + the one
/// the process task holds), or why not
async fn fill_mailbox(scn: &Scn, gi: usize) -> Result<usize, String> {
    scn.sh.lock().unwrap().gated[gi] = true;
    let pid = scn.w.live[gi].clone();
    let handle = scn.node.registry().get(&pid).await.ok_or("gated process not in the registry".to_string())?;
    let body = |k: i64| Message::Regular { from: None, body: tup(vec![atom(FILL), int(k)]) };
    handle.mailbox_sender.try_send(body(0)).map_err(|_| "first filler refused".to_string())?;
    let sh = scn.sh.clone();
    if !wait_until(|| sh.lock().unwrap().at_gate[gi], Duration::from_secs(3)).await {
        return Err("process never reached the gate".into());
    }
    let mut n = 1usize;
    while n < 100_000 {
        if handle.mailbox_sender.try_send(body(n as i64)).is_err() {
            break;
        }
        n += 1;
    }
    Ok(n)
}

async fn full_scenario(ctx: &mut Ctx, epmd: &FakeEpmd, case: &mut usize, kinds: Vec<Kind>, nrpc: usize, faults: bool) {
    let spec = WorldSpec { nlive: 2, names: vec![("srv".into(), 0)], ndead: 0, nrpc, local_traffic: false };
    let Some(mut p) = prepare(ctx, epmd, case, &spec, |r, w| {
        // everything deliverable goes to process 0 (the gated one); the probes for both processes follow
        let mut w0 = w.clone();
        w0.live = vec![w.live[0].clone()];
        let mut h = vec![];
        for (i, &k) in kinds.iter().enumerate() {
            h.push(gen_item(r, &w0, k));
            if faults && i % 2 == 0 {
                let fk = *r.pick(&[Kind::Undecodable, Kind::SendGhost, Kind::Tick, Kind::UnknownTag, Kind::BadMarker]);
                h.push(gen_item(r, w, fk));
            }
        }
        if !w.rpc.is_empty() {
            h.push(gen_item(r, w, Kind::SendRpc));
        }
        h
    })
    .await
    else {
        return;
    };
    let gi = 0usize;
    let fills = match fill_mailbox(&p.scn, gi).await {
        Ok(n) => n,
        Err(e) => {
            ctx.fail("c19-full-setup", &e);
            return;
        }
    };
    ctx.count("full_mailbox_scenarios");
    ctx.add("full_mailbox_fillers", fills as u64);
    // the history arrives while the mailbox is full
    for it in &p.h {
        let b = item_bytes(it);
        let _ = p.scn.pc.stream.write_all(&b).await;
        let _ = p.scn.pc.stream.flush().await;
    }
    tokio::time::sleep(Duration::from_millis(60)).await;
    let before = logs_text(&p.scn.sh);
    // the gate opens
    p.scn.sh.lock().unwrap().gated[gi] = false;
    let (observed, dereg) = play(&mut p.scn, &[], false).await;
    let fills_ok = p.scn.sh.lock().unwrap().fills[gi] == (0..fills as i64).collect::<Vec<i64>>();
    if !fills_ok {
        let got = p.scn.sh.lock().unwrap().fills[gi].len();
        ctx.fail("c19-full-local-messages-lost-or-reordered", &format!("filled {} handled {} world={} history={}", fills, got, p.scn.w.text(), history_text(&p.h)));
    }
    let wt = p.scn.w.text();
    let ht = history_text(&p.h);
    let after = observed.splitn(2, '@').nth(1).unwrap_or("").to_string();
    ctx.tie("full", &format!("c19bp {} {} {} {} {}", p.oracle, wt, ht, gi, fills), &format!("{}|{}", before, after));
    report(ctx, "full", &p, &observed, dereg);
}

async fn full_scenarios(ctx: &mut Ctx, epmd: &FakeEpmd, case: &mut usize) {
    full_scenario(ctx, epmd, case, vec![Kind::ExitLive, Kind::MonExitLive, Kind::SendLive, Kind::RegLive], 0, false).await;
    full_scenario(ctx, epmd, case, vec![Kind::Exit2Live, Kind::ExitTtLive, Kind::Exit2TtLive, Kind::SendTtLive, Kind::RegSendTtLive], 1, false).await;
    full_scenario(ctx, epmd, case, vec![Kind::MonExitLive, Kind::ExitLive], 1, true).await;
    let n = ctx.n(3, 40);
    let deliverable = [Kind::SendLive, Kind::RegLive, Kind::ExitLive, Kind::Exit2Live, Kind::MonExitLive, Kind::SendTtLive, Kind::RegSendTtLive, Kind::ExitTtLive, Kind::Exit2TtLive];
    for _ in 0..n {
        let m = ctx.rng.range(1, 6) as usize;
        let kinds: Vec<Kind> = (0..m).map(|_| *ctx.rng.pick(&deliverable)).collect();
        let nrpc = ctx.rng.below(2) as usize;
        let faults = ctx.rng.chance(1, 2);
        full_scenario(ctx, epmd, case, kinds, nrpc, faults).await;
    }
}

/// the real idle limit of a Node's receiver (thorough tier): silences of the length of a peer's tick interval with ticks
/// in between, a silence just below the limit, one above it, and a peer that stops inside a frame. Run concurrently.
async fn timed_scenarios(ctx: &mut Ctx, epmd: &FakeEpmd, case: &mut usize) {
    let mk_spec = || WorldSpec { nlive: 1, names: vec![], ndead: 0, nrpc: 0, local_traffic: false };
    let mut prepared = vec![];
    for which in 0..5 {
        let spec = mk_spec();
        let p = prepare(ctx, epmd, case, &spec, |r, w| match which {
            0 => vec![Item::Quiet(16_000), Item::Tick, Item::Quiet(16_000), Item::Tick, gen_item(r, w, Kind::SendLive)],
            1 => vec![gen_item(r, w, Kind::SendLive), Item::Quiet(50_000), gen_item(r, w, Kind::SendLive)],
            2 => vec![gen_item(r, w, Kind::SendLive), Item::Quiet(76_000)],
            // quiet for longer than the limit, but ticking every 15 s as a peer does: the connection stays, the message arrives
            4 => vec![gen_item(r, w, Kind::SendLive), Item::Quiet(15_000), Item::Tick, Item::Quiet(15_000), Item::Tick, Item::Quiet(15_000), Item::Tick,
                      Item::Quiet(15_000), Item::Tick, Item::Quiet(15_000), Item::Tick, gen_item(r, w, Kind::SendLive)],
            _ => {
                let full = item_bytes(&gen_item(r, w, Kind::SendLive));
                vec![gen_item(r, w, Kind::SendLive), Item::Raw(full[..full.len() - 3].to_vec()), Item::Quiet(76_000)]
            }
        })
        .await;
        if let Some(p) = p {
            prepared.push(p);
        }
    }
    let mut handles = vec![];
    for mut p in prepared {
        handles.push(tokio::spawn(async move {
            let h = p.h.clone();
            let r = play(&mut p.scn, &h, false).await;
            (p, r)
        }));
    }
    for h in handles {
        match h.await {
            Ok((p, (observed, dereg))) => report(ctx, "idle", &p, &observed, dereg),
            Err(_) => ctx.fail("c19-timed-panicked", "a timed scenario panicked"),
        }
    }
}

// ---------------------------------------------------------------------------------------------------------
// direct calls of receive_message_from_read_half (classification of frames, timeout semantics)

#[derive(Clone, Debug)]
enum RxEv {
    Chunk(Vec<u8>),
    Quiet(u64),
    Close,
}

fn rx_text(evs: &[RxEv]) -> String {
    evs.iter()
        .map(|e| match e {
            RxEv::Chunk(b) => format!("c{}", hex(b)),
            RxEv::Quiet(ms) => format!("q{}", ms),
            RxEv::Close => "e".to_string(),
        })
        .collect::<Vec<_>>()
        .join(",")
}

fn rx_class(e: &edp_client::Error) -> (&'static str, bool) {
    use edp_client::Error as E;
    match e {
        E::Io(io) if io.kind() == std::io::ErrorKind::UnexpectedEof => ("err-eof", true),
        E::Io(_) => ("err-io", true),
        E::Timeout(_) => ("err-timeout", true),
        E::MessageTooLarge { .. } => ("err-toolarge", true),
        E::InvalidStateMessage(_) => ("err-empty", false),
        E::Protocol(_) => ("err-marker", false),
        E::Decode(_) => ("err-decode", false),
        E::InvalidControlMessage(_) => ("err-control", false),
        _ => ("err-other", true),
    }
}

async fn run_rx(evs: Vec<RxEv>, limit: Duration) -> Option<Vec<String>> {
    let listener = tokio::net::TcpListener::bind("127.0.0.1:0").await.ok()?;
    let addr = listener.local_addr().ok()?;
    let (client, server) = tokio::join!(tokio::net::TcpStream::connect(addr), listener.accept());
    let (mut server, _) = server.ok()?;
    server.set_nodelay(true).ok()?;
    let (mut rh, _wh) = client.ok()?.into_split();
    let writer = async move {
        for e in evs {
            match e {
                RxEv::Chunk(b) => {
                    if server.write_all(&b).await.is_err() {
                        break;
                    }
                    let _ = server.flush().await;
                }
                RxEv::Quiet(ms) => tokio::time::sleep(Duration::from_millis(ms)).await,
                RxEv::Close => {
                    let _ = server.shutdown().await;
                    return server;
                }
            }
        }
        // no close in the script: the socket stays open until the reader has given up
        server
    };
    let reader = async {
        let mut out = vec![];
        for _ in 0..10_000 {
            match edp_client::Connection::receive_message_from_read_half(&mut rh, limit).await {
                Ok((c, p)) => out.push(format!(
                    "ok!{}!{}",
                    term_text(&c.to_term()),
                    p.as_ref().map(term_text).unwrap_or("-".to_string())
                )),
                Err(e) => {
                    let (cls, terminal) = rx_class(&e);
                    out.push(cls.to_string());
                    if terminal {
                        return out;
                    }
                }
            }
        }
        out.push("no-termination".to_string());
        out
    };
    let (out, _server) = tokio::join!(reader, writer);
    Some(out)
}

fn rx_oracle(evs: &[RxEv]) -> Option<String> {
    // chunks are whole frames or pieces of one frame: scan the concatenation frame by frame
    let mut all = vec![];
    for e in evs {
        if let RxEv::Chunk(b) = e {
            all.extend_from_slice(b);
        }
    }
    let mut items = vec![];
    let mut i = 0;
    while i + 4 <= all.len() {
        let n = u32::from_be_bytes([all[i], all[i + 1], all[i + 2], all[i + 3]]) as usize;
        if n == 0 {
            i += 4;
            continue;
        }
        if i + 4 + n > all.len() {
            break;
        }
        items.push(Item::Frame(all[i + 4..i + 4 + n].to_vec()));
        i += 4 + n;
    }
    history_oracle(&items)
}

fn rx_world() -> World {
    let node = "rx19@127.0.0.1".to_string();
    let mk = |id: u32| ExternalPid::new(Atom::new(&node), id, 0, 3);
    World {
        node_name: node.clone(),
        peer_name: "rx19peer@127.0.0.1".to_string(),
        creation: 3,
        live: vec![mk(1), mk(2)],
        names: vec![("srv".to_string(), mk(1))],
        dead: vec![mk(3)],
        rpc: vec![mk(4)],
    }
}

async fn rx_cases(ctx: &mut Ctx) {
    if run_rx(vec![RxEv::Close], Duration::from_millis(500)).await.is_none() {
        ctx.count("rx_skipped_no_loopback");
        return;
    }
    let w = rx_world();
    // far from every silence in the scripts: the short ones are a twentieth of it, the long ones more than twice
    const LIMIT: u64 = 2000;
    let mut scripts: Vec<(String, Vec<RxEv>)> = vec![];
    // every kind once, then a clean close
    for &k in ALL_KINDS {
        let it = gen_item(&mut ctx.rng, &w, k);
        let mut evs = vec![RxEv::Chunk(item_bytes(&it))];
        if !it.closes() {
            evs.push(RxEv::Chunk(item_bytes(&gen_item(&mut ctx.rng, &w, Kind::SendLive))));
        }
        evs.push(RxEv::Close);
        scripts.push((format!("kind_{:?}", k), evs));
    }
    // mixed streams, split at arbitrary points, short silences in between (far below the limit)
    let n = ctx.n(40, 300);
    for _ in 0..n {
        let m = ctx.rng.range(1, 6) as usize;
        let mut bytes = vec![];
        for _ in 0..m {
            let k = *ctx.rng.pick(ALL_KINDS);
            let it = gen_item(&mut ctx.rng, &w, k);
            bytes.extend(item_bytes(&it));
            if it.closes() || matches!(it, Item::Overlong(_)) {
                break;
            }
        }
        let mut evs = vec![];
        let mut i = 0;
        while i < bytes.len() {
            let step = if ctx.rng.chance(1, 2) { bytes.len() - i } else { ctx.rng.range(1, (bytes.len() - i) as u64) as usize };
            evs.push(RxEv::Chunk(bytes[i..i + step].to_vec()));
            i += step;
            if ctx.rng.chance(1, 6) {
                evs.push(RxEv::Quiet(ctx.rng.range(1, 15)));
            }
        }
        evs.push(RxEv::Close);
        scripts.push(("mixed".to_string(), evs));
    }
    // time: silences below the limit with ticks in between are survived; a silence above it is a timeout,
    // at a frame boundary and inside a frame
    let good = |r: &mut Rng| item_bytes(&gen_item(r, &w, Kind::SendLive));
    let tick = vec![0u8, 0, 0, 0];
    let short = LIMIT / 20;
    let long = LIMIT * 2 + 500;
    let mid = LIMIT * 2 / 5;
    let g1 = good(&mut ctx.rng);
    let g2 = good(&mut ctx.rng);
    let timed: Vec<Vec<RxEv>> = vec![
        vec![RxEv::Quiet(short), RxEv::Chunk(tick.clone()), RxEv::Quiet(short), RxEv::Chunk(tick.clone()), RxEv::Quiet(short), RxEv::Chunk(g1.clone()), RxEv::Close],
        vec![RxEv::Chunk(g1.clone()), RxEv::Quiet(long), RxEv::Chunk(g2.clone()), RxEv::Close],
        vec![RxEv::Quiet(short), RxEv::Chunk(tick.clone()), RxEv::Quiet(long), RxEv::Chunk(g2.clone()), RxEv::Close],
        vec![RxEv::Chunk(g1[..6].to_vec()), RxEv::Quiet(long), RxEv::Chunk(g1[6..].to_vec()), RxEv::Close],
        vec![RxEv::Chunk(g1[..2].to_vec()), RxEv::Quiet(long), RxEv::Chunk(g1[2..].to_vec()), RxEv::Close],
        vec![RxEv::Chunk(g1[..6].to_vec()), RxEv::Quiet(short), RxEv::Chunk(g1[6..].to_vec()), RxEv::Quiet(short), RxEv::Chunk(g2.clone()), RxEv::Close],
        // a quiet period longer than the limit during which the peer keeps ticking: every single silence is well below
        // the limit (2/5 of it), together they exceed it; the limit applies to each wait, not to the time between messages
        vec![RxEv::Chunk(g1.clone()), RxEv::Quiet(mid), RxEv::Chunk(tick.clone()), RxEv::Quiet(mid), RxEv::Chunk(tick.clone()), RxEv::Quiet(mid), RxEv::Chunk(tick.clone()),
             RxEv::Quiet(mid), RxEv::Chunk(g2.clone()), RxEv::Close],
        // the same with the last silences around and inside a frame (prefix read and body read wait separately)
        vec![RxEv::Quiet(mid), RxEv::Chunk(tick.clone()), RxEv::Quiet(mid), RxEv::Chunk(g1[..2].to_vec()), RxEv::Quiet(mid), RxEv::Chunk(g1[2..6].to_vec()), RxEv::Quiet(mid),
             RxEv::Chunk(g1[6..].to_vec()), RxEv::Chunk(g2.clone()), RxEv::Close],
    ];
    for t in timed {
        scripts.push(("timed".to_string(), t));
    }
    // run them concurrently (the timed ones cost seconds)
    let mut handles = vec![];
    for (tag, evs) in scripts {
        let e2 = evs.clone();
        handles.push((tag, evs, tokio::spawn(run_rx(e2, Duration::from_millis(LIMIT)))));
    }
    for (tag, evs, h) in handles {
        let out = match h.await {
            Ok(Some(o)) => o,
            Ok(None) => {
                ctx.count("rx_skipped_no_loopback");
                continue;
            }
            Err(_) => vec!["panic".to_string()],
        };
        let Some(oracle) = rx_oracle(&evs) else {
            ctx.count("rx_skipped_oracle_too_large");
            continue;
        };
        ctx.count(&format!("rx_{}", tag));
        // the property itself, on the implementation: while no single silence comes near the limit (at most half of it), the
        // receive call must not time out, however long the peer has been sending nothing but ticks
        let max_quiet = evs.iter().filter_map(|e| if let RxEv::Quiet(ms) = e { Some(*ms) } else { None }).max().unwrap_or(0);
        if max_quiet * 2 <= LIMIT && out.iter().any(|o| o == "err-timeout") {
            ctx.fail("c19-timeout-although-no-silence-reached-the-limit", &format!("limit={}ms script={} results={}", LIMIT, rx_text(&evs), out.join(",")));
        }
        for o in &out {
            ctx.count(&format!("rx_result_{}", o.split('!').next().unwrap_or("")));
        }
        ctx.tie("rx", &format!("c19rx {} {} {}", LIMIT, oracle, rx_text(&evs)), &out.join(","));
    }
}

// ---------------------------------------------------------------------------------------------------------

pub fn run(ctx: &mut Ctx) {
    let rt = tokio::runtime::Builder::new_current_thread().enable_all().build().unwrap();
    rt.block_on(async {
        let epmd = FakeEpmd::start().await;
        let mut case = 0usize;
        // 0. in the background for the whole run: a connection whose peer is silent for longer than the connect timeout
        //    (10 s) and then ticks must still be there (the full-length silences are in the thorough tier)
        let spec = WorldSpec { nlive: 1, names: vec![], ndead: 0, nrpc: 0, local_traffic: false };
        let quiet_bg = match prepare(ctx, &epmd, &mut case, &spec, |_, _| vec![Item::Quiet(11_000), Item::Tick]).await {
            Some(mut p) => Some(tokio::spawn(async move {
                let h = p.h.clone();
                let r = play(&mut p.scn, &h, false).await;
                (p, r)
            })),
            None => None,
        };
        // direct calls of receive_message_from_read_half (a few seconds of real waiting, overlapped with the above)
        rx_cases(ctx).await;
        // 1. every kind alone
        for &k in ALL_KINDS {
            let spec = WorldSpec { nlive: 2, names: vec![("srv".into(), 0), ("rex".into(), 1)], ndead: 1, nrpc: 1, local_traffic: false };
            scenario(ctx, &epmd, &mut case, "single", spec, |r, w| vec![gen_item(r, w, k)]).await;
        }
        // 2. one fault kind at every position of a short base history of deliverable messages
        let base_kinds = [Kind::SendLive, Kind::RegLive, Kind::ExitLive, Kind::MonExitLive, Kind::SendRpc, Kind::SendLive];
        let base_len = if ctx.thorough { 4 } else { 3 };
        let faults: Vec<Kind> = if ctx.thorough {
            FAULT_KINDS.to_vec()
        } else {
            // quick tier: every fault kind at one position (rotating), the stopping ones at every position
            FAULT_KINDS.to_vec()
        };
        for (fi, &fk) in faults.iter().enumerate() {
            for pos in 0..=base_len {
                let stopping = matches!(fk, Kind::Overlong | Kind::Cut | Kind::Close);
                let errs = matches!(fk, Kind::ControlNotTuple | Kind::ControlBadHead | Kind::BadUnlinkId | Kind::Undecodable | Kind::BadPayload | Kind::BadMarker | Kind::TrailingAfterPayload | Kind::DistHeaderFrame);
                if !ctx.thorough && !stopping && !errs && pos != fi % (base_len + 1) {
                    continue;
                }
                let spec = WorldSpec { nlive: 2, names: vec![("srv".into(), 1)], ndead: 1, nrpc: 1, local_traffic: false };
                scenario(ctx, &epmd, &mut case, "sweep", spec, |r, w| {
                    let mut h = vec![];
                    for j in 0..=base_len {
                        if j == pos {
                            h.push(gen_item(r, w, fk));
                        }
                        if j < base_len {
                            h.push(gen_item(r, w, base_kinds[(j + fi) % base_kinds.len()]));
                        }
                    }
                    h
                })
                .await;
            }
        }
        // 2a. near misses of an outstanding call's reply pid BEFORE the real reply: every call must still get its own reply,
        //     the near misses reach nobody (unless the neighbouring pid is itself a live process or another call)
        let near_rounds = ctx.n(8, 60);
        for round in 0..near_rounds {
            let nrpc = 1 + round % 2;
            let spec = WorldSpec { nlive: 1 + (round / 2) % 2, names: vec![], ndead: round % 2, nrpc, local_traffic: round % 4 == 3 };
            scenario(ctx, &epmd, &mut case, "near", spec, |r, w| {
                let cookie = atom("");
                let mut h = vec![];
                let mut order: Vec<usize> = (0..w.rpc.len()).collect();
                r.shuffle(&mut order);
                for &j in &order {
                    let p = w.rpc[j].clone();
                    let mut vs: Vec<usize> = (0..6).collect();
                    r.shuffle(&mut vs);
                    let keep = r.range(3, 6) as usize;
                    for &v in vs.iter().take(keep) {
                        let q = near_miss(&p, v);
                        // a neighbour that is itself a process or another call of this node is not a miss
                        if w.live.iter().chain(w.rpc.iter()).any(|x| x.id == q.id && x.serial == q.serial && x.creation == q.creation) {
                            continue;
                        }
                        h.push(Item::Frame(pass_through(&tup(vec![int(2), cookie.clone(), pidt(&near_miss(&p, v))]), Some(&tup(vec![atom("near"), int(v as i64), payload(r)])))));
                        if r.chance(1, 5) {
                            h.push(Item::Tick);
                        }
                    }
                    h.push(Item::Frame(pass_through(&tup(vec![int(2), cookie.clone(), pidt(&p)]), Some(&tup(vec![atom("rex"), payload(r)])))));
                    // and one behind the real reply
                    h.push(gen_item(r, w, Kind::SendRpcNear));
                }
                h
            })
            .await;
        }
        // the same numbers under another node's name, before the real reply (tie only: the oracle calls such a frame unclear)
        for nrpc in 1..=2usize {
            let spec = WorldSpec { nlive: 1, names: vec![], ndead: 0, nrpc, local_traffic: false };
            scenario(ctx, &epmd, &mut case, "near-foreign", spec, |r, w| vec![gen_item(r, w, Kind::SendRpcForeign), gen_item(r, w, Kind::SendRpc), gen_item(r, w, Kind::SendRpc)]).await;
        }
        // 2b. full mailboxes
        full_scenarios(ctx, &epmd, &mut case).await;
        // 3. random histories over random worlds
        let n = ctx.n(60, 600);
        for _ in 0..n {
            let spec = gen_world_spec(&mut ctx.rng);
            scenario(ctx, &epmd, &mut case, "random", spec, |r, w| {
                let m = r.range(0, 8) as usize;
                let mut h = vec![];
                for _ in 0..m {
                    // the stopping kinds are rarer, so that long histories stay alive
                    let k = if r.chance(1, 12) {
                        *r.pick(&[Kind::Overlong, Kind::Cut, Kind::Close])
                    } else if r.chance(1, 8) {
                        Kind::Tick
                    } else {
                        *r.pick(&ALL_KINDS[..ALL_KINDS.len() - 3])
                    };
                    h.push(gen_item(r, w, k));
                }
                h
            })
            .await;
        }
        if let Some(h) = quiet_bg {
            match h.await {
                Ok((p, (observed, dereg))) => report(ctx, "idle", &p, &observed, dereg),
                Err(_) => ctx.fail("c19-timed-panicked", "the background idle scenario panicked"),
            }
        }
        if ctx.thorough || std::env::var("C19_IDLE").is_ok() {
            timed_scenarios(ctx, &epmd, &mut case).await;
        }
        ctx.add("scenarios", case as u64);
        for (k, n) in KIND_COUNTS.lock().unwrap().iter() {
            ctx.add(&format!("kind_{:?}", k), *n);
        }
    });
    let _ = unhex;
}
