import EdpVerif.Basic.Bytes
import EdpVerif.Basic.Utf8
import EdpVerif.Spec.Handshake
/-
Model of crates/edp_client/src/{handshake.rs, state_machine.rs, digest.rs} — function by function, bug for bug.
(`Spec.Handshake` is imported only for the API vocabulary `Op`; nothing below uses a Spec layout or parser.)

  Rust                                              Lean
  bytes::Buf::get_u8 / get_u16/get_u32/get_u64       getU8 / getN (panic on short input, as `bytes` does)
  Buf::copy_to_slice(&mut [u8;16])                  copy16 (panics on short input)
  &buf[..n]                                         sliceTo (panics when n > len)
  SendName::encode / encode_old / decode            encodeSendName / encodeSendNameOld / decodeSendName
  StatusMessage::encode / decode                    encodeStatus / decodeStatus
  Challenge::encode / decode                        encodeChallenge / decodeChallenge
  ChallengeReply::new+encode / decode / verify      encodeReply / decodeReply / (digest equality)
  ChallengeAck::new+encode / decode / verify        encodeAck / decodeAck / (digest equality)
  digest::compute_digest                            parameter `dg : cookie → challenge → 16 bytes`
  digest::generate_challenge                        the `chal` argument of `Op.handleChallenge`
  HandshakeStateMachine::{begin_connect, …}         step
-/
namespace Edp.Impl.Handshake
open Edp
open Edp.Spec.Handshake (Op)

/-- error classes (one per `Error` variant the handshake code can return) -/
inductive Err
  | invalidTransition   -- Error::InvalidStateTransition
  | nameTooLong         -- Error::NodeNameTooLong
  | malformed           -- Error::InvalidHandshakeMessage
  | refused             -- Error::ConnectionRefused
  | auth                -- Error::AuthenticationFailed
  | stateMsg            -- Error::InvalidStateMessage
deriving DecidableEq, Repr

/-- result of a fallible Rust function that may also panic -/
inductive HRes (α : Type)
  | ok (a : α)
  | err (e : Err)
  | panic
deriving Repr

def HRes.bind {α β : Type} (x : HRes α) (f : α → HRes β) : HRes β :=
  match x with
  | .ok a => f a
  | .err e => .err e
  | .panic => .panic

@[simp] theorem HRes.bind_ok {α β : Type} (a : α) (f : α → HRes β) : (HRes.ok a).bind f = f a := rfl
@[simp] theorem HRes.bind_err {α β : Type} (e : Err) (f : α → HRes β) : (HRes.err e : HRes α).bind f = .err e := rfl
@[simp] theorem HRes.bind_panic {α β : Type} (f : α → HRes β) : (HRes.panic : HRes α).bind f = .panic := rfl

/-- `Buf::get_uN`: panics when fewer than `k` bytes remain -/
def getN (k : Nat) (bs : Bytes) : HRes (Nat × Bytes) :=
  match rdN k bs with
  | some p => .ok p
  | none => .panic

/-- `Buf::get_u8`: panics on an empty buffer -/
def getU8 : Bytes → HRes (UInt8 × Bytes)
  | [] => .panic
  | b :: r => .ok (b, r)

/-- `Buf::copy_to_slice(&mut [0u8; 16])`: panics when fewer than 16 bytes remain -/
def copy16 (bs : Bytes) : HRes (Bytes × Bytes) :=
  if 16 ≤ bs.length then .ok (bs.take 16, bs.drop 16) else .panic

/-- `&buf[..n]`: panics when `n > buf.len()` -/
def sliceTo (n : Nat) (bs : Bytes) : HRes Bytes :=
  if n ≤ bs.length then .ok (bs.take n) else .panic

/-! ### message structs -/

structure NameMsg where
  flags : Nat
  creation : Nat
  name : Bytes
deriving DecidableEq, Repr

structure ChallengeMsg where
  flags : Nat
  challenge : Nat
  creation : Nat
  name : Bytes
deriving DecidableEq, Repr

inductive Status | ok | okSimultaneous | nok | notAllowed | alive
deriving DecidableEq, Repr

/-- `Status::is_ok` -/
def Status.isOk : Status → Bool
  | .ok => true
  | .okSimultaneous => true
  | _ => false

/-- `status as u16` -/
def Status.code : Status → Nat
  | .ok => 0
  | .okSimultaneous => 1
  | .nok => 2
  | .notAllowed => 3
  | .alive => 4

/-- `SendName::encode` (new format) -/
def encodeSendName (m : NameMsg) : HRes Bytes :=
  if m.name.length > 255 then .err .nameTooLong
  else .ok (be16 (1 + 8 + 4 + 2 + m.name.length) ++ [78] ++ be64 m.flags ++ be32 m.creation ++ be16 m.name.length ++ m.name)

/-- `SendName::encode_old` -/
def encodeSendNameOld (m : NameMsg) : HRes Bytes :=
  if m.name.length > 255 then .err .nameTooLong
  else .ok (be16 (1 + 2 + 4 + m.name.length) ++ [110] ++ be16 5 ++ be32 (m.flags % 4294967296) ++ m.name)

/-- `SendName::decode` -/
def decodeSendName (data : Bytes) : HRes NameMsg :=
  if data.length < 1 then .err .malformed else
  (getU8 data).bind fun (tag, buf) =>
  if tag ≠ 78 then .err .malformed else
  if buf.length < 8 + 4 + 2 then .err .malformed else
  (getN 8 buf).bind fun (flags, b1) =>
  (getN 4 b1).bind fun (creation, b2) =>
  (getN 2 b2).bind fun (nlen, b3) =>
  if b3.length < nlen then .err .malformed else
  (sliceTo nlen b3).bind fun name =>
  if validUtf8 name then .ok ⟨flags, creation, name⟩ else .err .malformed

/-- `StatusMessage::encode`: writes the discriminant as a u16 (not the text the decoder expects) -/
def encodeStatus (s : Status) : Bytes := be16 3 ++ [115] ++ be16 s.code

/-- `StatusMessage::decode` -/
def decodeStatus (data : Bytes) : HRes Status :=
  if data.length < 1 then .err .malformed else
  (getU8 data).bind fun (tag, buf) =>
  if tag ≠ 115 then .err .malformed else
  if !validUtf8 buf then .err .malformed
  else if buf = [111, 107] then .ok .ok
  else if buf = [111, 107, 95, 115, 105, 109, 117, 108, 116, 97, 110, 101, 111, 117, 115] then .ok .okSimultaneous
  else if buf = [110, 111, 107] then .ok .nok
  else if buf = [110, 111, 116, 95, 97, 108, 108, 111, 119, 101, 100] then .ok .notAllowed
  else if buf = [97, 108, 105, 118, 101] then .ok .alive
  else .err .malformed

/-- `Challenge::encode` -/
def encodeChallenge (m : ChallengeMsg) : HRes Bytes :=
  if m.name.length > 255 then .err .nameTooLong
  else .ok (be16 (1 + 8 + 4 + 4 + 2 + m.name.length) ++ [78] ++ be64 m.flags ++ be32 m.challenge ++ be32 m.creation
            ++ be16 m.name.length ++ m.name)

/-- `Challenge::decode` -/
def decodeChallenge (data : Bytes) : HRes ChallengeMsg :=
  if data.length < 1 then .err .malformed else
  (getU8 data).bind fun (tag, buf) =>
  if tag ≠ 78 then .err .malformed else
  if buf.length < 8 + 4 + 4 + 2 then .err .malformed else
  (getN 8 buf).bind fun (flags, b1) =>
  (getN 4 b1).bind fun (chal, b2) =>
  (getN 4 b2).bind fun (creation, b3) =>
  (getN 2 b3).bind fun (nlen, b4) =>
  if b4.length < nlen then .err .malformed else
  (sliceTo nlen b4).bind fun name =>
  if validUtf8 name then .ok ⟨flags, chal, creation, name⟩ else .err .malformed

/-- `ChallengeReply::encode` of `ChallengeReply { challenge, digest }` -/
def encodeReply (challenge : Nat) (digest : Bytes) : Bytes :=
  be16 21 ++ [114] ++ be32 challenge ++ digest

/-- `ChallengeReply::decode` -/
def decodeReply (data : Bytes) : HRes (Nat × Bytes) :=
  if data.length < 1 then .err .malformed else
  (getU8 data).bind fun (tag, buf) =>
  if tag ≠ 114 then .err .malformed else
  if buf.length < 4 + 16 then .err .malformed else
  (getN 4 buf).bind fun (chal, b1) =>
  (copy16 b1).bind fun (d, _) => .ok (chal, d)

/-- `ChallengeAck::encode` -/
def encodeAck (digest : Bytes) : Bytes := be16 17 ++ [97] ++ digest

/-- `ChallengeAck::decode` -/
def decodeAck (data : Bytes) : HRes Bytes :=
  if data.length < 1 then .err .malformed else
  (getU8 data).bind fun (tag, buf) =>
  if tag ≠ 97 then .err .malformed else
  if buf.length < 16 then .err .malformed else
  (copy16 buf).bind fun (d, _) => .ok d

/-! ### the state machine -/

inductive ConnState
  | disconnected | connecting | sendingName | awaitingStatus | awaitingChallenge
  | sendingChallengeReply | awaitingChallengeAck | connected | failed
deriving DecidableEq, Repr

/-- the immutable fields of `HandshakeStateMachine` (`remote_node_name` is never read) -/
structure Cfg where
  name : Bytes
  cookie : Bytes
  flags : Nat
  creation : Nat
deriving Repr

/-- the mutable fields of `HandshakeStateMachine` -/
structure State where
  state : ConnState
  our : Option Nat
  their : Option Nat
  neg : Option Nat
deriving DecidableEq, Repr

/-- `HandshakeStateMachine::new` -/
def State.init : State := ⟨.disconnected, none, none, none⟩

/-- what a method call returns -/
inductive Out
  | unit
  | bytes (b : Bytes)
  | err (e : Err)
  | panic
deriving DecidableEq, Repr

def Out.isErr : Out → Bool
  | .err _ => true
  | _ => false

/-- one public method call, exactly as written in state_machine.rs (`dg` is `digest::compute_digest`) -/
def step (cfg : Cfg) (dg : Bytes → Nat → Bytes) (s : State) : Op → State × Out
  | .beginConnect =>
    if s.state ≠ .disconnected then (s, .err .invalidTransition)
    else ({ s with state := .connecting }, .unit)
  | .prepareSendName =>
    -- state = SendingName; encode_old()?; state = AwaitingStatus
    match encodeSendNameOld ⟨cfg.flags, cfg.creation, cfg.name⟩ with
    | .ok b => ({ s with state := .awaitingStatus }, .bytes b)
    | .err e => ({ s with state := .sendingName }, .err e)
    | .panic => ({ s with state := .sendingName }, .panic)
  | .handleStatus data =>
    match decodeStatus data with
    | .ok st => if st.isOk then (s, .unit) else (s, .err .refused)
    | .err e => (s, .err e)
    | .panic => (s, .panic)
  | .prepareComplement =>
    (s, .bytes (be16 9 ++ [99] ++ be32 (cfg.flags / 4294967296) ++ be32 cfg.creation))
  | .handleChallenge data chal =>
    -- state = AwaitingChallenge; decode()?; negotiated, their, our
    match decodeChallenge data with
    | .ok m => ({ state := .awaitingChallenge, our := some chal, their := some m.challenge,
                  neg := some (m.flags &&& cfg.flags) }, .unit)
    | .err e => ({ s with state := .awaitingChallenge }, .err e)
    | .panic => ({ s with state := .awaitingChallenge }, .panic)
  | .prepareChallengeReply =>
    -- state = SendingChallengeReply; our?; their?; encode; state = AwaitingChallengeAck
    match s.our, s.their with
    | some o, some t => ({ s with state := .awaitingChallengeAck }, .bytes (encodeReply o (dg cfg.cookie t)))
    | _, _ => ({ s with state := .sendingChallengeReply }, .err .stateMsg)
  | .handleChallengeAck data =>
    match decodeAck data with
    | .ok d =>
      match s.our with
      | none => (s, .err .stateMsg)
      | some o => if d = dg cfg.cookie o then ({ s with state := .connected }, .unit) else (s, .err .auth)
    | .err e => (s, .err e)
    | .panic => (s, .panic)
  | .disconnect => (⟨.disconnected, none, none, none⟩, .unit)

/-- the state after a sequence of calls -/
def runFrom (cfg : Cfg) (dg : Bytes → Nat → Bytes) (s : State) (ops : List Op) : State :=
  ops.foldl (fun s op => (step cfg dg s op).1) s

def run (cfg : Cfg) (dg : Bytes → Nat → Bytes) (ops : List Op) : State := runFrom cfg dg State.init ops

/-- what each call of a sequence returned -/
def outsFrom (cfg : Cfg) (dg : Bytes → Nat → Bytes) : State → List Op → List Out
  | _, [] => []
  | s, op :: rest => (step cfg dg s op).2 :: outsFrom cfg dg (step cfg dg s op).1 rest

/-- a caller that stops at the first error, as `Connection::connect` does with `?`:
the state reached and the first non-success result, if any -/
def runStop (cfg : Cfg) (dg : Bytes → Nat → Bytes) : State → List Op → State × Option Out
  | s, [] => (s, none)
  | s, op :: rest =>
    match step cfg dg s op with
    | (s', .err e) => (s', some (.err e))
    | (s', .panic) => (s', some .panic)
    | (s', _) => runStop cfg dg s' rest

/-- the in-process part of `Connection::connect` (connection.rs l.192-232) given what the peer sends -/
def connectScript (statusMsg challengeMsg : Bytes) (chal : Nat) (ackMsg : Bytes) : List Op :=
  [.beginConnect, .prepareSendName, .handleStatus statusMsg, .prepareComplement,
   .handleChallenge challengeMsg chal, .prepareChallengeReply, .handleChallengeAck ackMsg]

end Edp.Impl.Handshake
